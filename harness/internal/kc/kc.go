// Package kc is the framework shared by all property checks: seeded PRNG, the client of the Lean
// model driver (line protocol), the comparator, evidence writer, known-findings handling and the
// VIOLATION / replay reporting.
package kc

import (
	"bufio"
	"bytes"
	"crypto/sha256"
	"encoding/hex"
	"encoding/json"
	"fmt"
	"math/big"
	"os"
	"os/exec"
	"path/filepath"
	"runtime"
	"sort"
	"strings"
	"sync"
	"time"
)

// Root of the verification tree; everything registered in MANIFEST lives below it.
var Root = "/verif"

// ---------------------------------------------------------------------------------------------
// PRNG: one SplitMix64 state per run, derived from VERIF_SEED and the property id.

type Rng struct{ s uint64 }

func NewRng(seed uint64) *Rng { return &Rng{s: seed} }
func (r *Rng) U64() uint64 {
	r.s += 0x9e3779b97f4a7c15
	z := r.s
	z = (z ^ (z >> 30)) * 0xbf58476d1ce4e5b9
	z = (z ^ (z >> 27)) * 0x94d049bb133111eb
	return z ^ (z >> 31)
}
func (r *Rng) Intn(n int) int {
	if n <= 0 {
		return 0
	}
	return int(r.U64() % uint64(n))
}
func (r *Rng) Bool() bool { return r.U64()&1 == 1 }
func (r *Rng) Bytes(n int) []byte {
	b := make([]byte, n)
	for i := 0; i < n; i += 8 {
		v := r.U64()
		for j := 0; j < 8 && i+j < n; j++ {
			b[i+j] = byte(v >> (8 * j))
		}
	}
	return b
}

// Fork derives an independent generator (so that adding draws in one place does not shift others).
func (r *Rng) Fork(label string) *Rng {
	h := sha256.Sum256([]byte(fmt.Sprintf("%d/%s", r.s, label)))
	var s uint64
	for i := 0; i < 8; i++ {
		s = s<<8 | uint64(h[i])
	}
	return &Rng{s: s}
}

// XORKeyStream makes Rng a cipher.Stream (seeded, never constant: see DESIGN §2.5).
func (r *Rng) XORKeyStream(dst, src []byte) {
	k := r.Bytes(len(src))
	for i := range src {
		dst[i] = src[i] ^ k[i]
	}
}

// BigBelow returns an edge-biased value in [0,q).
func (r *Rng) BigBelow(q *big.Int) *big.Int {
	one := big.NewInt(1)
	switch r.Intn(12) {
	case 0:
		return big.NewInt(0)
	case 1:
		return new(big.Int).Mod(one, q)
	case 2:
		return new(big.Int).Mod(big.NewInt(2), q)
	case 3:
		return new(big.Int).Mod(new(big.Int).Sub(q, one), q)
	case 4:
		return new(big.Int).Mod(new(big.Int).Sub(q, big.NewInt(2)), q)
	case 5, 6:
		k := uint(r.Intn(q.BitLen() + 1))
		v := new(big.Int).Lsh(one, k)
		switch r.Intn(3) {
		case 0:
			v.Sub(v, one)
		case 1:
			v.Add(v, one)
		}
		return v.Mod(v, q)
	case 7:
		// limb / nibble boundaries
		k := uint(21 * (1 + r.Intn(12)))
		v := new(big.Int).Lsh(one, k)
		v.Sub(v, big.NewInt(int64(r.Intn(3))))
		return v.Mod(v, q)
	default:
		b := r.Bytes((q.BitLen() + 7 + 64) / 8)
		v := new(big.Int).SetBytes(b)
		return v.Mod(v, q)
	}
}

// ---------------------------------------------------------------------------------------------
// Hex helpers matching KyberModel/Core/Hex.lean

func HexB(b []byte) string {
	if len(b) == 0 {
		return "-"
	}
	return hex.EncodeToString(b)
}
func HexN(n *big.Int) string {
	if n.Sign() == 0 {
		return "0"
	}
	return n.Text(16)
}
func HexNList(l []*big.Int) string {
	if len(l) == 0 {
		return "-"
	}
	s := make([]string, len(l))
	for i, v := range l {
		s[i] = HexN(v)
	}
	return strings.Join(s, ",")
}
func BeN(b []byte) *big.Int { return new(big.Int).SetBytes(b) }
func LeN(b []byte) *big.Int {
	r := make([]byte, len(b))
	for i := range b {
		r[len(b)-1-i] = b[i]
	}
	return new(big.Int).SetBytes(r)
}

// ---------------------------------------------------------------------------------------------
// Driver client

type Driver struct{ Path string }

// Run sends the lines to the model driver (sharded over processes) and returns one output per line.
func (d *Driver) Run(lines []string) ([]string, error) {
	if len(lines) == 0 {
		return nil, nil
	}
	shards := runtime.NumCPU()
	if len(lines) < 64*shards {
		shards = (len(lines) + 63) / 64
	}
	out := make([]string, len(lines))
	errs := make([]error, shards)
	var wg sync.WaitGroup
	per := (len(lines) + shards - 1) / shards
	for s := 0; s < shards; s++ {
		lo, hi := s*per, (s+1)*per
		if hi > len(lines) {
			hi = len(lines)
		}
		if lo >= hi {
			continue
		}
		wg.Add(1)
		go func(s, lo, hi int) {
			defer wg.Done()
			cmd := exec.Command(d.Path)
			var in bytes.Buffer
			for _, l := range lines[lo:hi] {
				if strings.ContainsAny(l, "\n\r") {
					errs[s] = fmt.Errorf("line contains newline: %q", l)
					return
				}
				in.WriteString(l)
				in.WriteByte('\n')
			}
			cmd.Stdin = &in
			var stderr bytes.Buffer
			cmd.Stderr = &stderr
			o, err := cmd.Output()
			if err != nil {
				errs[s] = fmt.Errorf("driver: %v: %s", err, stderr.String())
				return
			}
			sc := bufio.NewScanner(bytes.NewReader(o))
			sc.Buffer(make([]byte, 1<<20), 1<<28)
			i := lo
			for sc.Scan() {
				if i >= hi {
					errs[s] = fmt.Errorf("driver produced too many lines")
					return
				}
				out[i] = sc.Text()
				i++
			}
			if i != hi {
				errs[s] = fmt.Errorf("driver produced %d lines for %d inputs (stderr: %s)", i-lo, hi-lo, stderr.String())
			}
		}(s, lo, hi)
	}
	wg.Wait()
	for _, e := range errs {
		if e != nil {
			return nil, e
		}
	}
	return out, nil
}

// ---------------------------------------------------------------------------------------------
// Known findings

type Finding struct {
	Property string `json:"property"`
	Key      string `json:"key"`
	Status   string `json:"status"` // "known" or "fixed"
	Commit   string `json:"commit,omitempty"`
	What     string `json:"what"`
}

type findingsFile struct {
	Findings []Finding `json:"findings"`
}

func loadFindings() []Finding {
	var all []Finding
	files := []string{filepath.Join(Root, "known_findings.json")}
	more, _ := filepath.Glob(filepath.Join(Root, "known_findings.d", "*.json"))
	sort.Strings(more)
	files = append(files, more...)
	for _, fn := range files {
		b, err := os.ReadFile(fn)
		if err != nil {
			continue
		}
		var f findingsFile
		if json.Unmarshal(b, &f) != nil {
			fmt.Fprintf(os.Stderr, "kcheck: cannot parse %s\n", fn)
			continue
		}
		all = append(all, f.Findings...)
	}
	return all
}

// ---------------------------------------------------------------------------------------------
// Context of one check run

type Disagreement struct {
	Line  string `json:"line"`
	Impl  string `json:"impl"`
	Model string `json:"model"`
	Note  string `json:"note,omitempty"`
}

type Ctx struct {
	Prop  string
	Tier  string
	Seed  uint64
	Rng   *Rng
	Drv   *Driver
	start time.Time

	mu            sync.Mutex
	evaluations   int
	programs      int
	distinct      map[[16]byte]struct{}
	kinds         map[string]int
	samples       []any
	disagreements []Disagreement
	disChecked    int
	violations    int
	knownPrinted  map[string]bool
	findings      []Finding
	rule          string
	assumptions   []string
	extra         map[string]any
	// Lean side, filled by bin/check through -lean file
	Lean LeanReport
	ReplayFile string
	BinDir     string
	vioKeys    map[string]int
	childViolations []string
}

type LeanReport struct {
	GoBuildErrors []string `json:"go_build_errors"`
	Obligations []string `json:"obligations"`
	Discharged  []string `json:"discharged"`
	Failed      []string `json:"failed"`
	BadAxioms   []string `json:"bad_axioms"`
	BuildOK     bool     `json:"build_ok"`
	BuildLog    string   `json:"build_log"`
	Checker     string   `json:"checker_cmd"`
	Generated   []string `json:"generated"`
	GrepHits    []string `json:"grep_hits"`
}

func NewCtx(prop, tier string, seed uint64, driver string) *Ctx {
	h := sha256.Sum256([]byte(prop))
	mix := uint64(0)
	for i := 0; i < 8; i++ {
		mix = mix<<8 | uint64(h[i])
	}
	return &Ctx{Prop: prop, Tier: tier, Seed: seed, Rng: NewRng(seed ^ mix), Drv: &Driver{Path: driver},
		start: time.Now(), distinct: map[[16]byte]struct{}{}, kinds: map[string]int{},
		knownPrinted: map[string]bool{}, findings: loadFindings(), extra: map[string]any{}}
}

func (c *Ctx) Thorough() bool { return c.Tier == "thorough" }

// Pick returns q for quick, t for thorough.
func (c *Ctx) N(q, t int) int {
	if c.Thorough() {
		return t
	}
	return q
}

func (c *Ctx) SetRule(r string)        { c.rule = r }
func (c *Ctx) Assume(a ...string)      { c.assumptions = append(c.assumptions, a...) }
func (c *Ctx) Extra(k string, v any)   { c.mu.Lock(); c.extra[k] = v; c.mu.Unlock() }
func (c *Ctx) CountKind(k string)      { c.mu.Lock(); c.kinds[k]++; c.mu.Unlock() }
func (c *Ctx) CountKindN(k string, n int) { c.mu.Lock(); c.kinds[k] += n; c.mu.Unlock() }
func (c *Ctx) Eval(n int)              { c.mu.Lock(); c.evaluations += n; c.mu.Unlock() }
func (c *Ctx) Program(n int)           { c.mu.Lock(); c.programs += n; c.mu.Unlock() }

// Nontrivial records a distinct non-trivial case (by the property's rule) under its canonical key.
func (c *Ctx) Nontrivial(key string) {
	h := sha256.Sum256([]byte(key))
	var k [16]byte
	copy(k[:], h[:16])
	c.mu.Lock()
	c.distinct[k] = struct{}{}
	c.mu.Unlock()
}

func (c *Ctx) Sample(s any) {
	c.mu.Lock()
	if len(c.samples) < 12 {
		c.samples = append(c.samples, s)
	}
	c.mu.Unlock()
}

// Model runs lines through the Lean driver. A driver failure is fatal for the run (exit 2).
func (c *Ctx) Model(lines []string) []string {
	out, err := c.Drv.Run(lines)
	if err != nil {
		fmt.Fprintf(os.Stderr, "kcheck: model driver failed: %v\n", err)
		os.Exit(2)
	}
	return out
}

// Disagree records a model/implementation disagreement (not yet a violation, DESIGN §4).
func (c *Ctx) Disagree(line, impl, model, note string) {
	c.mu.Lock()
	c.disagreements = append(c.disagreements, Disagreement{line, impl, model, note})
	c.mu.Unlock()
}

func (c *Ctx) Disagreements() []Disagreement { return c.disagreements }
func (c *Ctx) DisChecked(n int)              { c.mu.Lock(); c.disChecked += n; c.mu.Unlock() }

// Known reports whether a failure with this key is listed as a known (unfixed) finding; if so it
// prints the KNOWN-FINDING line once.
func (c *Ctx) Known(key, what string) bool {
	for _, f := range c.findings {
		if f.Property == c.Prop && f.Key == key && f.Status == "known" {
			c.mu.Lock()
			if !c.knownPrinted[key] {
				c.knownPrinted[key] = true
				fmt.Printf("KNOWN-FINDING: property=%s %s (%s)\n", c.Prop, f.What, key)
			}
			c.mu.Unlock()
			return true
		}
	}
	_ = what
	return false
}

// Violation reports a property failure on the real code with a replay file, unless `key` is a
// listed known finding. `replay` is any JSON-serialisable description sufficient to re-execute.
func (c *Ctx) Violation(key, what string, replay any) {
	if c.Known(key, what) {
		return
	}
	c.writeViolation(key, what, replay, false)
}

// Unshown reports that the property is no longer shown to hold (broken theorem or correspondence)
// although no failing input was found.
func (c *Ctx) Unshown(key, what string, replay any) {
	c.writeViolation(key, what, replay, true)
}

func (c *Ctx) writeViolation(key, what string, replay any, nofail bool) {
	c.mu.Lock()
	defer c.mu.Unlock()
	c.violations++
	if c.vioKeys == nil {
		c.vioKeys = map[string]int{}
	}
	c.vioKeys[key]++
	if c.vioKeys[key] > 1 || len(c.vioKeys) > 40 {
		return // one replay and one VIOLATION line per distinct failure key
	}
	body := map[string]any{"property": c.Prop, "key": key, "what": what, "seed": c.Seed, "tier": c.Tier, "replay": replay,
		"no_failing_input_found": nofail}
	b, _ := json.MarshalIndent(body, "", " ")
	h := sha256.Sum256(append([]byte(key), b...))
	name := fmt.Sprintf("%s-%s.json", c.Prop, hex.EncodeToString(h[:6]))
	dir := filepath.Join(Root, "replays")
	if d := os.Getenv("VERIF_REPLAY_DIR"); d != "" {
		dir = d
	}
	os.MkdirAll(dir, 0o755)
	path := filepath.Join(dir, name)
	os.WriteFile(path, b, 0o644)
	suffix := ""
	if nofail {
		suffix = " no-failing-input-found"
	}
	fmt.Printf("VIOLATION property=%s replay=%s%s\n", c.Prop, path, suffix)
	fmt.Printf("  detail: %s: %s\n", key, what)
}

func (c *Ctx) Violations() int { return c.violations }

// Finish writes the evidence file and returns the exit code.
func (c *Ctx) Finish(level string) int {
	type cov map[string]any
	kinds := map[string]int{}
	for k, v := range c.kinds {
		kinds[k] = v
	}
	samples := c.samples
	if len(samples) == 0 {
		samples = []any{"(no samples recorded)"}
	}
	nd := len(c.disagreements)
	ds := c.disagreements
	if len(ds) > 10 {
		ds = ds[:10]
	}
	sort.Strings(c.Lean.Obligations)
	coverage := cov{
		"evaluations":           c.evaluations,
		"programs":              c.programs,
		"distinct_nontrivial":   len(c.distinct),
		"rule":                  c.rule,
		"samples":               samples,
		"disagreements":         nd,
		"disagreements_checked": c.disChecked,
		"disagreement_samples":  ds,
		"obligations":           len(c.Lean.Obligations),
		"discharged":            len(c.Lean.Discharged),
		"obligation_names":      c.Lean.Obligations,
		"failed_obligations":    c.Lean.Failed,
		"bad_axioms":            c.Lean.BadAxioms,
		"regenerated_files":     c.Lean.Generated,
		"checker_cmd":           c.Lean.Checker,
		"trusted_base": []string{"Lean 4.33.0 kernel", "Mathlib v4.33.0", "axioms: propext, Classical.choice, Quot.sound only (audited per theorem by #audit_module)",
			"harness/cmd/extract (Go source -> Generated/*.lean)", "harness/cmd/kcheck comparator and line protocol", "Lean compiler (kdriver runs the definitions the theorems are about)"},
		"op_kinds": kinds,
		"violation_keys": c.vioKeys,
	}
	for k, v := range c.extra {
		coverage[k] = v
	}
	ev := map[string]any{
		"property_id": c.Prop,
		"tier":        c.Tier,
		"seed":        int64(c.Seed & 0x7fffffffffffffff),
		"level":       level,
		"coverage":    coverage,
		"assumptions": c.assumptions,
		"wall_s":      time.Since(c.start).Seconds(),
		"violations":  c.violations,
	}
	b, _ := json.MarshalIndent(ev, "", " ")
	evdir := filepath.Join(Root, "evidence")
	if d := os.Getenv("VERIF_EVIDENCE_DIR"); d != "" {
		evdir = d // seeded-change runs against a scratch tree must not overwrite the real evidence
	}
	os.MkdirAll(evdir, 0o755)
	if err := os.WriteFile(filepath.Join(evdir, c.Prop+".json"), b, 0o644); err != nil {
		fmt.Fprintf(os.Stderr, "kcheck: cannot write evidence: %v\n", err)
		return 2
	}
	if c.violations > 0 {
		return 1
	}
	return 0
}

// Recover runs f and converts a panic into ("panic", true).
func Recover(f func() string) (res string) {
	defer func() {
		if r := recover(); r != nil {
			res = "panic"
		}
	}()
	return f()
}

// ModelDedup runs each distinct line once and fans the outputs back out.
func (c *Ctx) ModelDedup(lines []string) []string {
	idx := map[string]int{}
	var uniq []string
	for _, l := range lines {
		if _, ok := idx[l]; !ok {
			idx[l] = len(uniq)
			uniq = append(uniq, l)
		}
	}
	outs := c.Model(uniq)
	res := make([]string, len(lines))
	for i, l := range lines {
		res[i] = outs[idx[l]]
	}
	return res
}

// Watch guards one unit of work on the real code with a wall-clock limit. If the limit passes, the
// work is reported as a violation (a hang is an outcome the properties never allow: every operation
// is total on the generated inputs, and streams are never constant), evidence is written and the
// process exits — a goroutine stuck in library code cannot be cancelled.
func (c *Ctx) Watch(limit time.Duration, key, what string, replay any, level string) (done func()) {
	t := time.AfterFunc(limit, func() {
		c.Violation("hang:"+key, "operation did not finish within "+limit.String()+": "+what, replay)
		os.Exit(c.Finish(level))
	})
	return func() { t.Stop() }
}

// Repo is the kyber tree under test: /repo, or the scratch worktree of a seeded-change run (bin/check
// with VERIF_REPO; the harness binaries are then built with -modfile pointing at it).
func Repo() string {
	if r := os.Getenv("VERIF_REPO"); r != "" {
		return r
	}
	return "/repo"
}
