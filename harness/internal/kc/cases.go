package kc

import (
	"encoding/json"
	"fmt"
	"os"
	"os/exec"
	"path/filepath"
	"strings"
)

// Case is one correspondence case: a model line, the implementation's canonical output, and
// (optionally) the output of an independent oracle computed by the harness (math/big etc.).
type Case struct {
	Impl   string `json:"impl"`             // implementation / configuration name
	Kind   string `json:"kind"`             // op kind, for the distribution
	Line   string `json:"line"`             // model line
	Got    string `json:"got"`              // implementation output (canonical)
	Oracle string `json:"oracle,omitempty"` // independent oracle output, "" if none
	Key    string `json:"key,omitempty"`    // non-empty: counts as distinct non-trivial case under this key
	Desc   string `json:"desc,omitempty"`   // human description for replays
}

// CompareCases sends every case to the model and applies the C02-style policy (DESIGN §4, reference
// properties): impl ≠ oracle is a failing input on the real code; impl = oracle ≠ model means the
// correspondence itself is broken (model/driver), reported as not shown.
// onFail lets the property map a failing case to a known-finding key.
func (c *Ctx) CompareCases(cases []Case, keyOf func(cs Case) string) {
	lines := make([]string, len(cases))
	for i, cs := range cases {
		lines[i] = cs.Line
	}
	outs := c.Model(lines)
	c.Eval(len(cases))
	c.Program(len(cases))
	for i, cs := range cases {
		c.CountKind(cs.Impl + ":" + cs.Kind)
		if cs.Key != "" {
			c.Nontrivial(cs.Impl + "|" + cs.Key)
		}
		if i%(len(cases)/8+1) == 0 {
			c.Sample(map[string]string{"impl": cs.Impl, "line": cs.Line, "impl_out": cs.Got, "model_out": outs[i]})
		}
		if outs[i] == cs.Got && (cs.Oracle == "" || cs.Oracle == cs.Got) {
			continue
		}
		c.Disagree(cs.Impl+" "+cs.Line, cs.Got, outs[i], "oracle="+cs.Oracle)
		c.DisChecked(1)
		key := cs.Impl + ":" + cs.Kind
		if keyOf != nil {
			if k := keyOf(cs); k != "" {
				key = k
			}
		}
		implWrong := cs.Got != outs[i]
		if cs.Oracle != "" {
			implWrong = cs.Got != cs.Oracle
		}
		if implWrong {
			c.Violation(key, fmt.Sprintf("%s: %s -> impl %s, model %s, oracle %s", cs.Impl, cs.Line, cs.Got, outs[i], cs.Oracle), cs)
		} else {
			c.Unshown("correspondence:"+key, fmt.Sprintf("model disagrees with implementation and oracle: %s -> model %s, impl %s", cs.Line, outs[i], cs.Got), cs)
		}
	}
}

// ChildCases runs another build of kcheck (e.g. the constantTime binary) in -emit mode and returns
// its cases.
func (c *Ctx) ChildCases(binary string) ([]Case, error) {
	if _, err := os.Stat(binary); err != nil {
		return nil, err
	}
	build := "constantTime"
	if strings.HasSuffix(binary, "_generic") {
		build = "generic"
	}
	cmd := exec.Command(binary, "-prop", c.Prop, "-tier", c.Tier, "-emit", "-build", build)
	cmd.Env = append(os.Environ(), fmt.Sprintf("VERIF_SEED=%d", c.Seed))
	var errb strings.Builder
	cmd.Stderr = &errb
	out, err := cmd.Output()
	if err != nil {
		return nil, fmt.Errorf("%v: %s", err, errb.String())
	}
	var cases []Case
	for _, line := range strings.Split(string(out), "\n") {
		line = strings.TrimRight(line, "\r")
		if line == "" {
			continue
		}
		if line[0] != '{' {
			// the child evaluated a predicate directly on the real code and reported a failure
			if strings.HasPrefix(line, "VIOLATION") {
				c.childViolations = append(c.childViolations, line)
			} else if strings.HasPrefix(line, "  detail:") && len(c.childViolations) > 0 {
				c.childViolations[len(c.childViolations)-1] += " |" + strings.TrimPrefix(line, "  detail:")
			}
			continue
		}
		var cs Case
		if err := json.Unmarshal([]byte(line), &cs); err != nil {
			return nil, err
		}
		cases = append(cases, cs)
	}
	for _, v := range c.childViolations {
		c.Violation("child:"+filepath.Base(binary)+":"+firstWords(v), "reported by the "+filepath.Base(binary)+" build: "+v, map[string]string{"child_output": v})
	}
	c.childViolations = nil
	return cases, nil
}

// EmitCases prints cases as JSON lines (child mode).
func EmitCases(cases []Case) {
	enc := json.NewEncoder(os.Stdout)
	for _, cs := range cases {
		enc.Encode(cs)
	}
}

func firstWords(s string) string {
	if i := strings.Index(s, "|"); i >= 0 {
		s = s[i+1:]
	}
	s = strings.TrimSpace(s)
	if len(s) > 60 {
		s = s[:60]
	}
	return s
}
