//go:build constantTime

package groups

import (
	"go.dedis.ch/kyber/v4/group/edwards25519"
)

func build() []*G {
	var out []*G
	ed := edwards25519.NewBlakeSHA256Ed25519()
	out = append(out, mk("ed25519", "ed25519", "ed25519", "edwards", ed, ed, true, false))
	return out
}

func Pairings() []*P { return nil }

var BuildConfig = "constantTime"
