// Package groups lists every group instance kyber exposes, with the metadata the checks need.
package groups

import (
	"math/big"

	"go.dedis.ch/kyber/v4"
	"go.dedis.ch/kyber/v4/pairing"
)

type G struct {
	Name   string      // unique instance name, used in op lines
	Model  string      // identifier of the Lean model carrier ("" = none, compared Go-to-Go only)
	Grp    string      // token of the `grp` model-driver handler for this group ("" = no byte-level reference model)
	Math   string      // identifier of the mathematical object (instances sharing it must agree bit-for-bit)
	Group  kyber.Group // the instance
	Suite  any         // the suite it came from (hash/xof/random/encoding), may be nil
	Q      *big.Int    // group order
	Family string      // implementation family of the scalar type: ed25519, modint, circl, gnark
	Kind   string      // edwards | weierstrass | residue | g1 | g2 | gt
	// capabilities
	CanEmbed bool
	CanHash  bool
}

type P struct {
	Name  string
	Suite pairing.Suite
	G1, G2, GT *G
}

func order(g kyber.Group) *big.Int {
	return new(big.Int).Set(g.Scalar().GroupOrder().ToBigInt())
}

func mk(name, model, family, kind string, g kyber.Group, suite any, embed, hash bool) *G {
	math := model
	if math == "" {
		// bn256-g2 -> bn256g2 ; kilic-g2 / circl-g2 / gnark-g2 -> bls12381g2
		pre := name[:len(name)-3]
		if pre == "kilic" || pre == "circl" || pre == "gnark" {
			pre = "bls12381"
		}
		math = pre + kind
	}
	return &G{Name: name, Model: model, Grp: model, Math: math, Group: g, Suite: suite, Q: order(g), Family: family, Kind: kind, CanEmbed: embed, CanHash: hash}
}

// ByName finds a group instance.
func ByName(name string) *G {
	for _, g := range All() {
		if g.Name == name {
			return g
		}
	}
	return nil
}

var cache []*G

// All returns the group instances available in this build configuration.
func All() []*G {
	if cache == nil {
		cache = build()
	}
	return cache
}

// ScalarImpls returns one group per distinct scalar implementation/modulus.
func ScalarImpls() []*G {
	seen := map[string]bool{}
	var out []*G
	for _, g := range All() {
		k := g.Family + "/" + g.Q.String()
		if g.Family == "modint" {
			k += "/" + g.Name[:2] // keep one per package for mod.Int users
		}
		if !seen[k] {
			seen[k] = true
			out = append(out, g)
		}
	}
	return out
}
