//go:build !constantTime

package groups

import (
	"go.dedis.ch/kyber/v4"
	"go.dedis.ch/kyber/v4/group/edwards25519"
	"go.dedis.ch/kyber/v4/group/edwards25519vartime"
	"go.dedis.ch/kyber/v4/group/p256"
	"go.dedis.ch/kyber/v4/pairing/bls12381/circl"
	"go.dedis.ch/kyber/v4/pairing/bls12381/gnark"
	"go.dedis.ch/kyber/v4/pairing/bls12381/kilic"
	"go.dedis.ch/kyber/v4/pairing/bn254"
	"go.dedis.ch/kyber/v4/pairing/bn256"
)

var pcache []*P

// vtGroup hands out Ed25519 points with the opt-in variable-time multiplication path enabled.
type vtGroup struct{ kyber.Group }

func (g *vtGroup) Point() kyber.Point {
	p := g.Group.Point()
	p.(kyber.AllowsVarTime).AllowVarTime(true)
	return p
}

func build() []*G {
	var out []*G
	ed := edwards25519.NewBlakeSHA256Ed25519()
	out = append(out, mk("ed25519", "ed25519", "ed25519", "edwards", ed, ed, true, false))
	edv := &vtGroup{edwards25519.NewBlakeSHA256Ed25519()}
	out = append(out, mk("ed25519-allowvt", "ed25519", "ed25519", "edwards", edv, ed, true, false))
	vp := edwards25519vartime.NewBlakeSHA256Ed25519(false)
	out = append(out, mk("ed25519vt-proj", "ed25519", "modint", "edwards", vp, vp, true, false))
	ve := new(edwards25519vartime.ExtendedCurve).InitCurve(edwards25519vartime.ParamEd25519(), false)
	out = append(out, mk("ed25519vt-ext", "ed25519", "modint", "edwards", ve, vp, true, false))
	p := p256.NewBlakeSHA256P256()
	out = append(out, mk("p256", "p256", "modint", "weierstrass", p, p, true, false))
	qr := p256.NewBlakeSHA256QR512()
	qg := mk("qr512", "qr512", "modint", "residue", qr, qr, true, false)
	qg.Grp = "qr:" + qr.P.Text(16) + ":" + qr.Q.Text(16) + ":" + qr.G.Text(16)
	out = append(out, qg)

	b6 := bn256.NewSuite()
	g1 := mk("bn256-g1", "bn256g1", "modint", "g1", b6.G1(), b6, false, true)
	g2 := mk("bn256-g2", "bn256g2", "modint", "g2", b6.G2(), b6, false, false)
	gt := mk("bn256-gt", "", "modint", "gt", b6.GT(), b6, false, false)
	out = append(out, g1, g2, gt)
	pcache = append(pcache, &P{"bn256", b6, g1, g2, gt})

	b4 := bn254.NewSuite()
	g1 = mk("bn254-g1", "bn254g1", "modint", "g1", b4.G1(), b4, false, true)
	g2 = mk("bn254-g2", "bn254g2", "modint", "g2", b4.G2(), b4, false, true)
	gt = mk("bn254-gt", "", "modint", "gt", b4.GT(), b4, false, false)
	out = append(out, g1, g2, gt)
	pcache = append(pcache, &P{"bn254", b4, g1, g2, gt})

	k := kilic.NewBLS12381Suite()
	g1 = mk("kilic-g1", "bls12381g1", "modint", "g1", k.G1(), k, false, true)
	g2 = mk("kilic-g2", "", "modint", "g2", k.G2(), k, false, true)
	g2.Grp = "bls12381g2" // byte-level reference model (Groups/BlsG2.lean)
	gt = mk("kilic-gt", "", "modint", "gt", k.GT(), k, false, false)
	out = append(out, g1, g2, gt)
	pcache = append(pcache, &P{"kilic", k, g1, g2, gt})

	c := circl.NewSuite()
	g1 = mk("circl-g1", "bls12381g1", "circl", "g1", c.G1(), c, false, true)
	g2 = mk("circl-g2", "", "circl", "g2", c.G2(), c, false, true)
	g2.Grp = "bls12381g2" // byte-level reference model (Groups/BlsG2.lean)
	gt = mk("circl-gt", "", "circl", "gt", c.GT(), c, false, false)
	out = append(out, g1, g2, gt)
	pcache = append(pcache, &P{"circl", c, g1, g2, gt})

	gn := gnark.NewSuite()
	g1 = mk("gnark-g1", "bls12381g1", "gnark", "g1", gn.G1(), gn, false, true)
	g2 = mk("gnark-g2", "", "gnark", "g2", gn.G2(), gn, false, true)
	g2.Grp = "bls12381g2" // byte-level reference model (Groups/BlsG2.lean)
	gt = mk("gnark-gt", "", "gnark", "gt", gn.GT(), gn, false, false)
	out = append(out, g1, g2, gt)
	pcache = append(pcache, &P{"gnark", gn, g1, g2, gt})
	return out
}

// Pairings returns the five pairing suites.
func Pairings() []*P {
	All()
	return pcache
}

var BuildConfig = "default"
