package dlgroup

import (
	"testing"

	"go.dedis.ch/kyber/v4/share"
	"go.dedis.ch/kyber/v4/sign/bls"
	"go.dedis.ch/kyber/v4/sign/schnorr"
	"go.dedis.ch/kyber/v4/sign/tbls"
	"go.dedis.ch/kyber/v4/util/random"
	"go.dedis.ch/kyber/v4/proof/dleq"
)

func TestSmoke(t *testing.T) {
	s := New(L, random.New())
	// schnorr
	x := s.Scalar().Pick(s.RandomStream())
	X := s.Point().Mul(x, nil)
	sig, err := schnorr.Sign(s, x, []byte("m"))
	if err != nil || schnorr.Verify(s, X, []byte("m"), sig) != nil {
		t.Fatal("schnorr", err)
	}
	// bls + tbls
	sch := bls.NewSchemeOnG1(s)
	sk, pk := sch.NewKeyPair(s.RandomStream())
	bs, err := sch.Sign(sk, []byte("m"))
	if err != nil || sch.Verify(pk, []byte("m"), bs) != nil {
		t.Fatal("bls", err)
	}
	ts := tbls.NewThresholdSchemeOnG1(s)
	pri := share.NewPriPoly(s.G2(), 3, nil, s.RandomStream())
	pub := pri.Commit(s.G2().Point().Base())
	var parts [][]byte
	for _, sh := range pri.Shares(5) {
		p, err := ts.Sign(sh, []byte("m"))
		if err != nil {
			t.Fatal(err)
		}
		parts = append(parts, p)
	}
	full, err := ts.Recover(pub, []byte("m"), parts, 3, 5)
	if err != nil || ts.VerifyRecovered(pub.Commit(), []byte("m"), full) != nil {
		t.Fatal("tbls", err)
	}
	// dleq
	H := s.Point().Pick(s.RandomStream())
	pr, xG, xH, err := dleq.NewDLEQProof(s, s.Point().Base(), H, x)
	if err != nil || pr.Verify(s, s.Point().Base(), H, xG, xH) != nil {
		t.Fatal("dleq", err)
	}
}
