// Package dlgroup is a mock discrete-log group: a point IS its discrete logarithm modulo a prime q,
// and Pair(a, b) = a·b. It implements kyber.Group, pairing.Suite, HashablePoint, Encoding, so kyber's
// generic protocol code (share, vss, dkg, dss, pvss, dleq, proof, shuffle, bls, tbls, bdn, cosi, anon,
// ecies) runs over it unchanged. It is used (a) for exact verdict-level correspondence with the Lean
// protocol models, which work in ZMod q, and (b) as a search engine: with logarithms known, forged
// transcripts satisfying chosen verification equations are found by linear algebra mod q.
package dlgroup

import (
	"crypto/cipher"
	"crypto/sha256"
	"errors"
	"fmt"
	"hash"
	"io"
	"math/big"
	"reflect"
	"sync"

	"go.dedis.ch/fixbuf"
	"go.dedis.ch/kyber/v4"
	"go.dedis.ch/kyber/v4/compatible/compatiblemod"
	"go.dedis.ch/kyber/v4/group/mod"
	"go.dedis.ch/kyber/v4/util/random"
	"go.dedis.ch/kyber/v4/xof/blake2xb"
)

// L is the order of the Ed25519 base point (prime; Pratt certificate in Lean: Lib/Primes.lean).
var L, _ = new(big.Int).SetString("7237005577332262213973186563042994240857116359379907606001950938285454250989", 10)

const (
	TagG1 = 1
	TagG2 = 2
	TagGT = 3
)

// Suite is a mock pairing suite over Z_q.
type Suite struct {
	Q    *big.Int
	M    *compatiblemod.Mod
	rand cipher.Stream
	g    [4]*Group
	def  *Group // the group the embedded kyber.Group methods refer to

	mu     sync.Mutex
	Hashes []HashRecord // every (input, digest) produced through Hash()
	Record bool
}

type HashRecord struct {
	Input  []byte
	Digest []byte
}

// New creates a mock suite of prime order q whose RandomStream is `rand` (deterministic runs).
func New(q *big.Int, rand cipher.Stream) *Suite {
	s := &Suite{Q: new(big.Int).Set(q), M: compatiblemod.FromBigInt(q), rand: rand}
	for t := 1; t <= 3; t++ {
		s.g[t] = &Group{s: s, tag: byte(t)}
	}
	s.def = s.g[TagG1]
	return s
}

// On returns a view of the suite whose kyber.Group methods refer to the given group (G1, G2).
func (s *Suite) On(tag int) *Suite {
	c := *s
	c.def = s.g[tag]
	return &c
}

func (s *Suite) G1() kyber.Group { return s.g[TagG1] }
func (s *Suite) G2() kyber.Group { return s.g[TagG2] }
func (s *Suite) GT() kyber.Group { return s.g[TagGT] }

func (s *Suite) Pair(p1, p2 kyber.Point) kyber.Point {
	a, b := p1.(*Point), p2.(*Point)
	if a.g.tag != TagG1 || b.g.tag != TagG2 {
		panic("dlgroup: Pair arguments in wrong groups")
	}
	v := new(big.Int).Mul(a.v, b.v)
	return &Point{g: s.g[TagGT], v: v.Mod(v, s.Q)}
}

func (s *Suite) ValidatePairing(p1, p2, i1, i2 kyber.Point) bool {
	return s.Pair(p1, p2).Equal(s.Pair(i1, i2))
}

// kyber.Group on the default group
func (s *Suite) String() string       { return "dlgroup" }
func (s *Suite) ScalarLen() int       { return s.def.ScalarLen() }
func (s *Suite) Scalar() kyber.Scalar { return s.def.Scalar() }
func (s *Suite) PointLen() int        { return s.def.PointLen() }
func (s *Suite) Point() kyber.Point   { return s.def.Point() }

type recHash struct {
	hash.Hash
	s   *Suite
	buf []byte
}

func (h *recHash) Write(p []byte) (int, error) {
	h.buf = append(h.buf, p...)
	return h.Hash.Write(p)
}
func (h *recHash) Sum(b []byte) []byte {
	d := h.Hash.Sum(nil)
	h.s.mu.Lock()
	h.s.Hashes = append(h.s.Hashes, HashRecord{append([]byte{}, h.buf...), d})
	h.s.mu.Unlock()
	return append(b, d...)
}
func (h *recHash) Reset() { h.buf = nil; h.Hash.Reset() }

func (s *Suite) Hash() hash.Hash {
	if s.Record {
		return &recHash{Hash: sha256.New(), s: s}
	}
	return sha256.New()
}
func (s *Suite) XOF(seed []byte) kyber.XOF { return blake2xb.New(seed) }
func (s *Suite) RandomStream() cipher.Stream {
	if s.rand != nil {
		return s.rand
	}
	return random.New()
}
func (s *Suite) Read(r io.Reader, objs ...any) error  { return fixbuf.Read(r, s, objs...) }
func (s *Suite) Write(w io.Writer, objs ...any) error { return fixbuf.Write(w, objs...) }

var tScalar = reflect.TypeFor[kyber.Scalar]()
var tPoint = reflect.TypeFor[kyber.Point]()

func (s *Suite) New(t reflect.Type) any {
	switch t {
	case tScalar:
		return s.Scalar()
	case tPoint:
		return s.Point()
	}
	return nil
}

// ---------------------------------------------------------------------------------------------

type Group struct {
	s   *Suite
	tag byte
}

func (g *Group) String() string       { return fmt.Sprintf("dlgroup.G%d", g.tag) }
func (g *Group) ScalarLen() int       { return (g.s.Q.BitLen() + 7) / 8 }
func (g *Group) Scalar() kyber.Scalar { return mod.NewInt64(0, g.s.M) }
func (g *Group) PointLen() int        { return 1 + g.ScalarLen() }
func (g *Group) Point() kyber.Point   { return &Point{g: g, v: new(big.Int)} }

// Point is an element a·B of the mock group, stored as a.
type Point struct {
	g *Group
	v *big.Int
}

// Log returns the discrete logarithm of a mock point.
func Log(p kyber.Point) *big.Int { return new(big.Int).Set(p.(*Point).v) }

// FromLog builds the point v·B in group g (G1(), G2() or GT() of a Suite).
func FromLog(g kyber.Group, v *big.Int) kyber.Point {
	gg := g.(*Group)
	return &Point{g: gg, v: new(big.Int).Mod(v, gg.s.Q)}
}

// ScalarBig converts a scalar of this suite to a big.Int.
func ScalarBig(s kyber.Scalar) *big.Int {
	return new(big.Int).Set(s.(*mod.Int).V.ToBigInt())
}

// ScalarFromBig builds a scalar of the suite.
func (s *Suite) ScalarFromBig(v *big.Int) kyber.Scalar {
	b := new(big.Int).Mod(v, s.Q)
	return s.Scalar().SetBytes(b.Bytes())
}

func (p *Point) same(o kyber.Point) *Point {
	q, ok := o.(*Point)
	if !ok || q.g.tag != p.g.tag {
		panic("dlgroup: point of another group")
	}
	return q
}

func (p *Point) Equal(o kyber.Point) bool { return p.v.Cmp(p.same(o).v) == 0 }
func (p *Point) Null() kyber.Point        { p.v = new(big.Int); return p }
func (p *Point) Base() kyber.Point        { p.v = big.NewInt(1); return p }
func (p *Point) Set(o kyber.Point) kyber.Point {
	p.v = new(big.Int).Set(p.same(o).v)
	return p
}
func (p *Point) Clone() kyber.Point { return &Point{g: p.g, v: new(big.Int).Set(p.v)} }
func (p *Point) Pick(r cipher.Stream) kyber.Point {
	s := p.g.Scalar().Pick(r)
	p.v = ScalarBig(s)
	return p
}
func (p *Point) EmbedLen() int { return p.g.ScalarLen() - 4 }
func (p *Point) Embed(data []byte, r cipher.Stream) kyber.Point {
	n := p.g.ScalarLen()
	dl := len(data)
	if dl > p.EmbedLen() {
		dl = p.EmbedLen()
	}
	b := make([]byte, n)
	r.XORKeyStream(b[1:3], b[1:3])
	copy(b[3:], data[:dl])
	b[n-1] = byte(dl)
	b[0] = 0
	p.v = new(big.Int).SetBytes(b)
	p.v.Mod(p.v, p.g.s.Q)
	return p
}
func (p *Point) Data() ([]byte, error) {
	n := p.g.ScalarLen()
	b := p.v.FillBytes(make([]byte, n))
	dl := int(b[n-1])
	if dl > p.EmbedLen() {
		return nil, errors.New("dlgroup: invalid embedded data length")
	}
	return append([]byte{}, b[3:3+dl]...), nil
}
func (p *Point) Add(a, b kyber.Point) kyber.Point {
	v := new(big.Int).Add(p.same(a).v, p.same(b).v)
	p.v = v.Mod(v, p.g.s.Q)
	return p
}
func (p *Point) Sub(a, b kyber.Point) kyber.Point {
	v := new(big.Int).Sub(p.same(a).v, p.same(b).v)
	p.v = v.Mod(v, p.g.s.Q)
	return p
}
func (p *Point) Neg(a kyber.Point) kyber.Point {
	v := new(big.Int).Neg(p.same(a).v)
	p.v = v.Mod(v, p.g.s.Q)
	return p
}
func (p *Point) Mul(s kyber.Scalar, a kyber.Point) kyber.Point {
	base := big.NewInt(1)
	if a != nil {
		base = p.same(a).v
	}
	v := new(big.Int).Mul(ScalarBig(s), base)
	p.v = v.Mod(v, p.g.s.Q)
	return p
}

// Hash implements kyber.HashablePoint: a point with a known, message-determined logarithm.
func (p *Point) Hash(m []byte) kyber.Point {
	h := sha256.Sum256(append([]byte{p.g.tag, 'H'}, m...))
	h2 := sha256.Sum256(append([]byte{p.g.tag, 'I'}, m...))
	v := new(big.Int).SetBytes(append(h[:], h2[:8]...))
	p.v = v.Mod(v, p.g.s.Q)
	return p
}

func (p *Point) IsInCorrectGroup() bool { return true }

func (p *Point) String() string   { return fmt.Sprintf("G%d:%s", p.g.tag, p.v.Text(16)) }
func (p *Point) MarshalSize() int { return p.g.PointLen() }
func (p *Point) MarshalBinary() ([]byte, error) {
	b := make([]byte, p.MarshalSize())
	b[0] = p.g.tag
	p.v.FillBytes(b[1:])
	return b, nil
}
func (p *Point) UnmarshalBinary(b []byte) error {
	if len(b) != p.MarshalSize() {
		return errors.New("dlgroup: wrong point length")
	}
	if b[0] != p.g.tag {
		return errors.New("dlgroup: wrong group tag")
	}
	v := new(big.Int).SetBytes(b[1:])
	if v.Cmp(p.g.s.Q) >= 0 {
		return errors.New("dlgroup: point out of range")
	}
	p.v = v
	return nil
}
func (p *Point) MarshalTo(w io.Writer) (int, error) {
	b, _ := p.MarshalBinary()
	return w.Write(b)
}
func (p *Point) UnmarshalFrom(r io.Reader) (int, error) {
	if strm, ok := r.(cipher.Stream); ok {
		p.Pick(strm)
		return -1, nil
	}
	b := make([]byte, p.MarshalSize())
	n, err := io.ReadFull(r, b)
	if err != nil {
		return n, err
	}
	return n, p.UnmarshalBinary(b)
}
