// extract re-reads kyber's Go source (through go/ssa) and regenerates the Lean files under
// lean/KyberModel/Generated: straight-line field-arithmetic programs of the pure-Go group formulas
// as a location-based three-address IR, and tables of constants. Fixed theorem files import them,
// so the theorems are re-checked against what the code says now (DESIGN §2.2).
//
// Supported subset: functions whose field arithmetic is a sequence of calls to primitive field
// operations (feAdd/feSub/feMul/feSquare/feSquare2/feCopy/feNeg/feOne/feZero, mod.Int
// Add/Sub/Mul/Neg/Set incl. method chains, gfpAdd/gfpSub/gfpMul/gfpNeg) on locations that are
// fields of the receiver / parameters, locals or package-level constants, possibly through calls to
// other supported functions (inlined). At an `if … { …; return }` the fall-through path is followed
// and the guard is recorded. Anything else makes the function "untranslatable", which bin/check
// reports as a broken tie for the properties importing it.
package main

import (
	"flag"
	"fmt"
	"go/constant"
	"go/token"
	"go/types"
	"math/big"
	"os"
	"path/filepath"
	"sort"
	"strings"

	"golang.org/x/tools/go/packages"
	"golang.org/x/tools/go/ssa"
	"golang.org/x/tools/go/ssa/ssautil"
)

type loc struct {
	base string // receiver / parameter / local / global name
	fld  string // field path ("" for a plain variable)
}

func (l loc) String() string {
	if l.fld == "" {
		return l.base
	}
	return l.base + "." + l.fld
}

type instr struct {
	op        string
	dst, a, b loc
}

type target struct {
	pkg   string // import path suffix below go.dedis.ch/kyber/v4
	recv  string // receiver type name ("" for plain functions)
	fn    string
	name  string // Lean identifier
	paths string // "main": follow fall-through at early returns
	prim  string // receiver type whose methods are primitive ring operations at this level ("" = base field)
}

var targets = []target{
	{"group/edwards25519", "completedGroupElement", "Add", "ge_completed_Add", "", ""},
	{"group/edwards25519", "completedGroupElement", "Sub", "ge_completed_Sub", "", ""},
	{"group/edwards25519", "completedGroupElement", "MixedAdd", "ge_completed_MixedAdd", "", ""},
	{"group/edwards25519", "completedGroupElement", "MixedSub", "ge_completed_MixedSub", "", ""},
	{"group/edwards25519", "completedGroupElement", "ToProjective", "ge_completed_ToProjective", "", ""},
	{"group/edwards25519", "completedGroupElement", "ToExtended", "ge_completed_ToExtended", "", ""},
	{"group/edwards25519", "projectiveGroupElement", "Double", "ge_projective_Double", "", ""},
	{"group/edwards25519", "projectiveGroupElement", "Zero", "ge_projective_Zero", "", ""},
	{"group/edwards25519", "extendedGroupElement", "Zero", "ge_extended_Zero", "", ""},
	{"group/edwards25519", "extendedGroupElement", "Neg", "ge_extended_Neg", "", ""},
	{"group/edwards25519", "extendedGroupElement", "Double", "ge_extended_Double", "", ""},
	{"group/edwards25519", "extendedGroupElement", "ToCached", "ge_extended_ToCached", "", ""},
	{"group/edwards25519", "extendedGroupElement", "ToProjective", "ge_extended_ToProjective", "", ""},
	{"group/edwards25519", "cachedGroupElement", "Zero", "ge_cached_Zero", "", ""},
	{"group/edwards25519", "cachedGroupElement", "Neg", "ge_cached_Neg", "", ""},
	{"group/edwards25519", "preComputedGroupElement", "Zero", "ge_precomp_Zero", "", ""},
	{"group/edwards25519", "preComputedGroupElement", "Neg", "ge_precomp_Neg", "", ""},
	{"group/edwards25519vartime", "projPoint", "Add", "vt_proj_Add", "", ""},
	{"group/edwards25519vartime", "projPoint", "Sub", "vt_proj_Sub", "", ""},
	{"group/edwards25519vartime", "projPoint", "Neg", "vt_proj_Neg", "", ""},
	{"group/edwards25519vartime", "projPoint", "double", "vt_proj_double", "", ""},
	{"group/edwards25519vartime", "extPoint", "Add", "vt_ext_Add", "", ""},
	{"group/edwards25519vartime", "extPoint", "Sub", "vt_ext_Sub", "", ""},
	{"group/edwards25519vartime", "extPoint", "Neg", "vt_ext_Neg", "", ""},
	{"group/edwards25519vartime", "extPoint", "double", "vt_ext_double", "", ""},
	{"pairing/bn256", "curvePoint", "Add", "bn256_curve_Add", "main", ""},
	{"pairing/bn256", "curvePoint", "Double", "bn256_curve_Double", "main", ""},
	{"pairing/bn254", "curvePoint", "Add", "bn254_curve_Add", "main", ""},
	{"pairing/bn254", "curvePoint", "Double", "bn254_curve_Double", "main", ""},
	// extension-field tower and twist of BN256 / BN254: each level over the level below as an opaque ring
	{"pairing/bn256", "gfP2", "Mul", "bn256_gfP2_Mul", "", ""},
	{"pairing/bn256", "gfP2", "Square", "bn256_gfP2_Square", "", ""},
	{"pairing/bn256", "gfP2", "MulXi", "bn256_gfP2_MulXi", "", ""},
	{"pairing/bn256", "gfP2", "Add", "bn256_gfP2_Add", "", ""},
	{"pairing/bn256", "gfP2", "Sub", "bn256_gfP2_Sub", "", ""},
	{"pairing/bn256", "gfP2", "Neg", "bn256_gfP2_Neg", "", ""},
	{"pairing/bn256", "gfP2", "Conjugate", "bn256_gfP2_Conjugate", "", ""},
	{"pairing/bn256", "gfP6", "Mul", "bn256_gfP6_Mul", "", "gfP2"},
	{"pairing/bn256", "gfP6", "MulTau", "bn256_gfP6_MulTau", "", "gfP2"},
	{"pairing/bn256", "gfP6", "Add", "bn256_gfP6_Add", "", "gfP2"},
	{"pairing/bn256", "gfP6", "Sub", "bn256_gfP6_Sub", "", "gfP2"},
	{"pairing/bn256", "gfP6", "Neg", "bn256_gfP6_Neg", "", "gfP2"},
	{"pairing/bn256", "gfP6", "Square", "bn256_gfP6_Square", "", "gfP2"},
	{"pairing/bn256", "gfP12", "Mul", "bn256_gfP12_Mul", "", "gfP6"},
	{"pairing/bn256", "gfP12", "Square", "bn256_gfP12_Square", "", "gfP6"},
	{"pairing/bn256", "gfP12", "Conjugate", "bn256_gfP12_Conjugate", "", "gfP6"},
	{"pairing/bn256", "twistPoint", "Add", "bn256_twist_Add", "main", "gfP2"},
	{"pairing/bn256", "twistPoint", "Double", "bn256_twist_Double", "main", "gfP2"},
	{"pairing/bn254", "gfP2", "Mul", "bn254_gfP2_Mul", "", ""},
	{"pairing/bn254", "gfP2", "Square", "bn254_gfP2_Square", "", ""},
	{"pairing/bn254", "gfP2", "MulXi", "bn254_gfP2_MulXi", "", ""},
	{"pairing/bn254", "gfP6", "Mul", "bn254_gfP6_Mul", "", "gfP2"},
	{"pairing/bn254", "gfP6", "MulTau", "bn254_gfP6_MulTau", "", "gfP2"},
	{"pairing/bn254", "gfP12", "Mul", "bn254_gfP12_Mul", "", "gfP6"},
	{"pairing/bn254", "twistPoint", "Add", "bn254_twist_Add", "main", "gfP2"},
	{"pairing/bn254", "twistPoint", "Double", "bn254_twist_Double", "main", "gfP2"},
}

// primitive operations: callee name -> (op, number of source operands)
var prims = map[string]struct {
	op string
	n  int
}{
	"feAdd": {"add", 2}, "feSub": {"sub", 2}, "feMul": {"mul", 2}, "feSquare": {"sq", 1}, "feSquare2": {"sq2", 1},
	"feCopy": {"copy", 1}, "feNeg": {"neg", 1}, "feOne": {"one", 0}, "feZero": {"zero", 0},
	"gfpAdd": {"add", 2}, "gfpSub": {"sub", 2}, "gfpMul": {"mul", 2}, "gfpNeg": {"neg", 1},
}

// methods of mod.Int that set and return their receiver
var intMethods = map[string]struct {
	op string
	n  int
}{"Add": {"add", 2}, "Sub": {"sub", 2}, "Mul": {"mul", 2}, "Neg": {"neg", 1}, "Set": {"copy", 1}}

// methods of the tower types (gfP2, gfP6, gfP12) that set and return their receiver; used as primitive
// ring operations when a function one level up is translated
var towerMethods = map[string]struct {
	op string
	n  int
}{"Add": {"add", 2}, "Sub": {"sub", 2}, "Mul": {"mul", 2}, "Square": {"sq", 1}, "Neg": {"neg", 1}, "Set": {"copy", 1},
	"SetZero": {"zero", 0}, "SetOne": {"one", 0}, "MulXi": {"sp1", 1}, "MulTau": {"sp1", 1}, "Conjugate": {"sp2", 1}}

type xlate struct {
	prim string // receiver type name treated as primitive at this level
	prog   *ssa.Program
	out    []instr
	guards []string
	subst  map[ssa.Value]loc // parameter substitution for inlined calls
	locals map[*ssa.Alloc]string
	nloc   *int
	depth  int
	err    error
}

func (x *xlate) fail(format string, a ...any) {
	if x.err == nil {
		x.err = fmt.Errorf(format, a...)
	}
}

func isFieldElem(t types.Type) bool {
	s := t.String()
	for _, suf := range []string{"fieldElement", "mod.Int", ".gfP", ".gfP2", ".gfP6", ".gfP12", "kyber.Scalar"} {
		if strings.HasSuffix(s, suf) {
			return true
		}
	}
	return false
}

func fieldName(v *ssa.FieldAddr) string {
	st := v.X.Type().Underlying().(*types.Pointer).Elem().Underlying().(*types.Struct)
	return st.Field(v.Field).Name()
}

// loc resolves an SSA value denoting (a pointer to / an interface holding) a field element.
func (x *xlate) loc(v ssa.Value) (loc, bool) {
	if l, ok := x.subst[v]; ok {
		return l, true
	}
	switch v := v.(type) {
	case *ssa.Parameter:
		return loc{base: v.Name()}, true
	case *ssa.Alloc:
		name, ok := x.locals[v]
		if !ok {
			*x.nloc++
			name = fmt.Sprintf("%s_%d", strings.TrimSuffix(v.Comment, ""), *x.nloc)
			if v.Comment == "" || strings.Contains(v.Comment, " ") {
				name = fmt.Sprintf("tmp_%d", *x.nloc)
			}
			x.locals[v] = name
		}
		return loc{base: "local:" + name}, true
	case *ssa.Global:
		return loc{base: "global:" + v.Name()}, true
	case *ssa.FieldAddr:
		inner, ok := x.loc(v.X)
		if !ok {
			return loc{}, false
		}
		f := fieldName(v)
		if inner.fld != "" {
			f = inner.fld + "." + f
		}
		return loc{base: inner.base, fld: f}, true
	case *ssa.UnOp:
		if v.Op == token.MUL { // load of a pointer (e.g. P.c, or a global pointer such as curveB)
			return x.loc(v.X)
		}
	case *ssa.TypeAssert:
		return x.loc(v.X)
	case *ssa.MakeInterface:
		return x.loc(v.X)
	case *ssa.ChangeType:
		return x.loc(v.X)
	case *ssa.Call:
		// a mod.Int method returning its receiver: the value is the receiver's location
		if r, ok := x.callRecv(v); ok {
			return x.loc(r)
		}
	}
	return loc{}, false
}

// callRecv returns the receiver of a call to a receiver-returning mod.Int method.
func (x *xlate) callRecv(c *ssa.Call) (ssa.Value, bool) {
	cc := c.Common()
	if cc.IsInvoke() {
		if _, ok := intMethods[cc.Method.Name()]; ok {
			return cc.Value, true
		}
		return nil, false
	}
	if f := cc.StaticCallee(); f != nil && f.Signature.Recv() != nil {
		if _, ok := intMethods[f.Name()]; ok && strings.HasSuffix(f.Signature.Recv().Type().String(), "mod.Int") {
			return cc.Args[0], true
		}
		if x.prim != "" && strings.HasSuffix(f.Signature.Recv().Type().String(), "."+x.prim) {
			if _, ok := towerMethods[f.Name()]; ok {
				return cc.Args[0], true
			}
		}
	}
	return nil, false
}

func (x *xlate) emit(op string, dst ssa.Value, srcs ...ssa.Value) {
	d, ok := x.loc(dst)
	if !ok {
		x.fail("cannot resolve destination %s (%T)", dst, dst)
		return
	}
	in := instr{op: op, dst: d}
	for i, s := range srcs {
		l, ok := x.loc(s)
		if !ok {
			x.fail("cannot resolve operand %s (%T)", s, s)
			return
		}
		if i == 0 {
			in.a = l
		} else {
			in.b = l
		}
	}
	x.out = append(x.out, in)
}

// cond renders a branch condition in terms of locations (stable under renumbering of SSA temporaries).
func (x *xlate) cond(v ssa.Value, depth int) string {
	if depth > 6 {
		return "?"
	}
	switch v := v.(type) {
	case *ssa.Const:
		return v.Value.String()
	case *ssa.Call:
		if f := v.Common().StaticCallee(); f != nil && len(v.Common().Args) > 0 {
			if l, ok := x.loc(v.Common().Args[0]); ok {
				return f.Name() + "(" + l.String() + ")"
			}
			return f.Name() + "(?)"
		}
	case *ssa.BinOp:
		return x.cond(v.X, depth+1) + " " + v.Op.String() + " " + x.cond(v.Y, depth+1)
	case *ssa.UnOp:
		if v.Op == token.MUL {
			if l, ok := x.loc(v.X); ok {
				return l.String()
			}
			// load of a freshly built composite literal (e.g. gfP{0}): render its stores
			return "lit"
		}
		return v.Op.String() + x.cond(v.X, depth+1)
	case *ssa.Phi:
		parts := make([]string, len(v.Edges))
		for i, e := range v.Edges {
			parts[i] = x.cond(e, depth+1)
		}
		return "phi(" + strings.Join(parts, ",") + ")"
	}
	return "?"
}

func endsInReturn(b *ssa.BasicBlock) bool {
	if len(b.Instrs) == 0 {
		return false
	}
	_, ok := b.Instrs[len(b.Instrs)-1].(*ssa.Return)
	return ok
}

func (x *xlate) function(f *ssa.Function, mainPath bool) {
	if x.depth > 4 {
		x.fail("inlining too deep at %s", f.Name())
		return
	}
	if len(f.Blocks) == 0 {
		x.fail("%s has no body", f.Name())
		return
	}
	b := f.Blocks[0]
	seen := map[*ssa.BasicBlock]bool{}
	for b != nil && x.err == nil {
		if seen[b] {
			x.fail("loop in %s", f.Name())
			return
		}
		seen[b] = true
		var next *ssa.BasicBlock
		for _, in := range b.Instrs {
			switch in := in.(type) {
			case *ssa.Call:
				x.call(in)
			case *ssa.If:
				if !mainPath {
					x.fail("branch in %s (not a straight-line function)", f.Name())
					return
				}
				t, e := b.Succs[0], b.Succs[1]
				switch {
				case endsInReturn(t) && endsInReturn(e):
					// an early `return` against the rest of the function: the main path is the longer block
					next = e
					if len(t.Instrs) > len(e.Instrs) {
						next = t
					}
				case endsInReturn(t) && !endsInReturn(e):
					next = e
				case endsInReturn(e) && !endsInReturn(t):
					next = t
				case len(t.Instrs) <= 2 && len(t.Succs) == 1 && t.Succs[0] == e:
					next = e // `if c { cheap }` joining: not expected here
				default:
					// short-circuit && : both successors continue; follow the one leading to the longer path
					next = e
					if len(t.Succs) > 0 && !endsInReturn(t) {
						next = t
					}
				}
				x.guards = append(x.guards, fmt.Sprintf("%s: %s", f.Name(), x.cond(in.Cond, 0)))
			case *ssa.Jump:
				next = b.Succs[0]
			case *ssa.Return:
				next = nil
			case *ssa.Store:
				// stores of non-field values (curve pointers) are irrelevant; stores of field elements by value
				// (c.x = gfP{0}) are not supported on the translated paths
				if isFieldElem(in.Val.Type()) {
					if _, isLoad := in.Val.(*ssa.UnOp); isLoad {
						// *dst = *src : a copy
						x.emit("copy", in.Addr, in.Val.(*ssa.UnOp).X)
					} else {
						x.fail("unsupported store of %s in %s", in.Val.Type(), f.Name())
					}
				}
			case *ssa.Alloc, *ssa.FieldAddr, *ssa.UnOp, *ssa.TypeAssert, *ssa.MakeInterface, *ssa.ChangeType,
				*ssa.BinOp, *ssa.DebugRef, *ssa.Phi, *ssa.IndexAddr, *ssa.Extract, *ssa.Convert:
				// address computations / comparisons feeding guards: no field arithmetic
			default:
				x.fail("unsupported instruction %T in %s", in, f.Name())
			}
			if x.err != nil {
				return
			}
		}
		b = next
	}
}

func (x *xlate) call(c *ssa.Call) {
	cc := c.Common()
	if cc.IsInvoke() {
		m, ok := intMethods[cc.Method.Name()]
		if !ok {
			if cc.Method.Name() == "Equal" || cc.Method.Name() == "String" {
				return
			}
			x.fail("unsupported interface call %s", cc.Method.Name())
			return
		}
		x.emit(m.op, cc.Value, cc.Args[:m.n]...)
		return
	}
	f := cc.StaticCallee()
	if f == nil {
		x.fail("dynamic call %s", c)
		return
	}
	if p, ok := prims[f.Name()]; ok && f.Signature.Recv() == nil {
		x.emit(p.op, cc.Args[0], cc.Args[1:1+p.n]...)
		return
	}
	if f.Signature.Recv() != nil && strings.HasSuffix(f.Signature.Recv().Type().String(), "mod.Int") {
		if m, ok := intMethods[f.Name()]; ok {
			x.emit(m.op, cc.Args[0], cc.Args[1:1+m.n]...)
			return
		}
		x.fail("unsupported mod.Int method %s", f.Name())
		return
	}
	if f.Signature.Recv() != nil {
		rt := f.Signature.Recv().Type().String()
		if x.prim != "" && strings.HasSuffix(rt, "."+x.prim) {
			if m, ok := towerMethods[f.Name()]; ok {
				x.emit(m.op, cc.Args[0], cc.Args[1:1+m.n]...)
				return
			}
			if f.Name() == "IsZero" || f.Name() == "IsOne" {
				return
			}
			x.fail("unsupported %s method %s", x.prim, f.Name())
			return
		}
		if strings.HasSuffix(rt, ".gfP") && f.Name() == "Set" {
			x.emit("copy", cc.Args[0], cc.Args[1])
			return
		}
	}
	switch f.Name() {
	case "IsInfinity", "newGFp", "String", "IsZero", "IsOne":
		return // predicates feeding guards / constructors of constants
	}
	// inline a call to another function of the same package
	if f.Pkg != nil && c.Parent().Pkg == f.Pkg && len(f.Blocks) > 0 {
		sub := &xlate{prog: x.prog, prim: x.prim, subst: map[ssa.Value]loc{}, locals: x.locals, nloc: x.nloc, depth: x.depth + 1}
		for i, p := range f.Params {
			l, ok := x.loc(cc.Args[i])
			if !ok {
				x.fail("cannot resolve argument %d of inlined %s", i, f.Name())
				return
			}
			sub.subst[p] = l
		}
		sub.function(f, true)
		if sub.err != nil {
			x.fail("inlining %s: %v", f.Name(), sub.err)
			return
		}
		x.out = append(x.out, sub.out...)
		x.guards = append(x.guards, sub.guards...)
		return
	}
	x.fail("unsupported call to %s", f.Name())
}

// ---------------------------------------------------------------------------------------------
// Lean emission

type idTable struct {
	ids   map[string]int
	names []string
}

func (t *idTable) id(s string) int {
	if i, ok := t.ids[s]; ok {
		return i
	}
	if t.ids == nil {
		t.ids = map[string]int{}
	}
	t.ids[s] = len(t.names)
	t.names = append(t.names, s)
	return len(t.names) - 1
}

func leanIdent(s string) string {
	r := strings.NewReplacer(":", "_", ".", "_", "-", "_")
	return r.Replace(s)
}

func main() {
	repo := flag.String("repo", "/repo", "kyber source tree")
	out := flag.String("out", "/verif/lean/KyberModel/Generated", "output directory")
	flag.Parse()
	cfg := &packages.Config{Mode: packages.LoadSyntax | packages.NeedDeps | packages.NeedImports, Dir: *repo}
	pkgs, err := packages.Load(cfg, "./group/edwards25519", "./group/edwards25519vartime", "./pairing/bn256", "./pairing/bn254")
	if err != nil {
		fmt.Fprintln(os.Stderr, "extract: load:", err)
		os.Exit(1)
	}
	for _, p := range pkgs {
		for _, e := range p.Errors {
			fmt.Fprintln(os.Stderr, "extract: package error:", e)
			os.Exit(1)
		}
	}
	prog, spkgs := ssautil.Packages(pkgs, ssa.InstantiateGenerics)
	prog.Build()
	byPath := map[string]*ssa.Package{}
	for _, sp := range spkgs {
		if sp != nil {
			byPath[sp.Pkg.Path()] = sp
		}
	}

	var bases, flds idTable
	// fixed ids for the well-known bases so that theorem files can name them
	for _, b := range []string{"c", "p", "q", "r", "s", "t", "P", "CP1", "CP2", "CA", "a", "b",
		"global:d", "global:d2", "global:sqrtM1", "P.c.curve.a", "P.c.curve.d"} {
		bases.id(b)
	}
	for _, f := range []string{"", "X", "Y", "Z", "T", "yPlusX", "yMinusX", "T2d", "xy2d", "x", "y", "z", "t"} {
		flds.id(f)
	}
	normalize := func(l loc) (string, string) {
		// curve constants reached through the receiver's curve pointer are named bases
		if strings.HasPrefix(l.fld, "c.") {
			return "P.c." + strings.TrimPrefix(l.fld, "c."), ""
		}
		return l.base, l.fld
	}

	var sb strings.Builder
	sb.WriteString("import KyberModel.IR.Sem\n/-\nGENERATED by harness/cmd/extract from /repo — do not edit. Straight-line field-arithmetic programs of the\npure-Go group formulas (location-based IR). Theorems in Lib/IR*.lean are re-checked against this file.\n-/\nnamespace Kyber.IR.Gen\nopen Kyber.IR\n\n")
	var failed []string
	type done struct {
		name   string
		ins    []instr
		guards []string
	}
	var results []done
	for _, t := range targets {
		sp := byPath["go.dedis.ch/kyber/v4/"+t.pkg]
		if sp == nil {
			failed = append(failed, t.name+": package not loaded")
			continue
		}
		var fn *ssa.Function
		if tn := sp.Type(t.recv); tn != nil {
			fn = prog.LookupMethod(types.NewPointer(tn.Type()), sp.Pkg, t.fn)
		}
		if fn == nil {
			failed = append(failed, fmt.Sprintf("%s: %s.%s not found", t.name, t.recv, t.fn))
			continue
		}
		n := 0
		x := &xlate{prog: prog, prim: t.prim, subst: map[ssa.Value]loc{}, locals: map[*ssa.Alloc]string{}, nloc: &n}
		x.function(fn, t.paths == "main")
		if x.err != nil {
			failed = append(failed, fmt.Sprintf("%s: %v", t.name, x.err))
			continue
		}
		results = append(results, done{t.name, x.out, x.guards})
	}
	for _, r := range results {
		for _, in := range r.ins {
			for _, l := range []loc{in.dst, in.a, in.b} {
				b, f := normalize(l)
				if b != "" {
					bases.id(b)
					flds.id(f)
				}
			}
		}
	}
	sb.WriteString("/-! Location names: base (receiver / parameter / local / constant) and field. -/\n")
	for i, b := range bases.names {
		fmt.Fprintf(&sb, "abbrev B_%s : Nat := %d\n", leanIdent(b), i)
	}
	for i, f := range flds.names {
		if f != "" {
			fmt.Fprintf(&sb, "abbrev F_%s : Nat := %d\n", leanIdent(f), i)
		}
	}
	sb.WriteString("\n")
	locStr := func(l loc) string {
		b, f := normalize(l)
		if b == "" {
			return "⟨0, 0⟩"
		}
		fs := "0"
		if f != "" {
			fs = "F_" + leanIdent(f)
		}
		return fmt.Sprintf("⟨B_%s, %s⟩", leanIdent(b), fs)
	}
	for _, r := range results {
		if len(r.guards) > 0 {
			fmt.Fprintf(&sb, "/-- main path; guards skipped: %s -/\n", strings.ReplaceAll(strings.Join(r.guards, " ; "), "-/", "- /"))
		}
		fmt.Fprintf(&sb, "def %s_guards : List String := [", r.name)
		for i, g := range r.guards {
			if i > 0 {
				sb.WriteString(", ")
			}
			fmt.Fprintf(&sb, "%q", g)
		}
		sb.WriteString("]\n")
		fmt.Fprintf(&sb, "def %s : List Instr := [\n", r.name)
		for i, in := range r.ins {
			sep := ","
			if i == len(r.ins)-1 {
				sep = ""
			}
			fmt.Fprintf(&sb, "  ⟨.%s, %s, %s, %s⟩%s\n", in.op, locStr(in.dst), locStr(in.a), locStr(in.b), sep)
		}
		sb.WriteString("]\n\n")
	}
	// write-sets: which non-local bases each program writes (operands must not be among them)
	sb.WriteString("/-- For every translated program: the bases (receiver / parameters) it writes, locals excluded. -/\ndef writeSets : List (String × List Nat) := [\n")
	for i, r := range results {
		seen := map[string]bool{}
		var ws []string
		for _, in := range r.ins {
			b, _ := normalize(in.dst)
			if strings.HasPrefix(b, "local:") || seen[b] {
				continue
			}
			seen[b] = true
			ws = append(ws, "B_"+leanIdent(b))
		}
		sep := ","
		if i == len(results)-1 {
			sep = ""
		}
		fmt.Fprintf(&sb, "  (%q, [%s])%s\n", r.name, strings.Join(ws, ", "), sep)
	}
	sb.WriteString("]\n\n")
	sb.WriteString("/-- Bases that are locals (temporaries) of some translated function. -/\ndef localBases : List Nat := [")
	first := true
	for _, b := range bases.names {
		if strings.HasPrefix(b, "local:") {
			if !first {
				sb.WriteString(", ")
			}
			first = false
			sb.WriteString("B_" + leanIdent(b))
		}
	}
	sb.WriteString("]\n\n/-- All translated programs by name. -/\ndef programs : List (String × List Instr) := [\n")
	for i, r := range results {
		sep := ","
		if i == len(results)-1 {
			sep = ""
		}
		fmt.Fprintf(&sb, "  (%q, %s)%s\n", r.name, r.name, sep)
	}
	sb.WriteString("]\n\n")
	sb.WriteString("/-- Names of the programs translated on this run. -/\ndef translated : List String := [")
	for i, r := range results {
		if i > 0 {
			sb.WriteString(", ")
		}
		fmt.Fprintf(&sb, "%q", r.name)
	}
	sb.WriteString("]\n\nend Kyber.IR.Gen\n")
	writeIfChanged(filepath.Join(*out, "Formulas.lean"), sb.String())

	facts(prog, byPath, *out)

	sort.Strings(failed)
	for _, f := range failed {
		fmt.Println("UNTRANSLATABLE", f)
	}
	fmt.Printf("extract: %d programs translated, %d failed\n", len(results), len(failed))
	if len(failed) > 0 {
		os.Exit(3)
	}
}

func writeIfChanged(path, content string) {
	old, err := os.ReadFile(path)
	if err == nil && string(old) == content {
		return
	}
	os.MkdirAll(filepath.Dir(path), 0o755)
	if err := os.WriteFile(path, []byte(content), 0o644); err != nil {
		fmt.Fprintln(os.Stderr, "extract:", err)
		os.Exit(1)
	}
}

// ---------------------------------------------------------------------------------------------
// Constants

// feLimbs reads a package-level fieldElement composite literal initialiser (10 limbs of 25.5 bits)
// and returns its value.
func feValue(limbs []int64) *big.Int {
	v := new(big.Int)
	shift := uint(0)
	for i, l := range limbs {
		t := new(big.Int).Lsh(big.NewInt(l), shift)
		v.Add(v, t)
		if i%2 == 0 {
			shift += 26
		} else {
			shift += 25
		}
	}
	p := new(big.Int).Sub(new(big.Int).Lsh(big.NewInt(1), 255), big.NewInt(19))
	return v.Mod(v, p)
}

// globalInit finds the constant elements stored into a global array/struct by the package initialiser.
func globalLimbs(sp *ssa.Package, name string) ([]int64, bool) {
	g, ok := sp.Members[name].(*ssa.Global)
	if !ok {
		return nil, false
	}
	init := sp.Func("init")
	vals := map[int64]int64{}
	var walk func(addr ssa.Value) (int64, bool)
	walk = func(addr ssa.Value) (int64, bool) {
		// returns the flat index of an IndexAddr chain rooted at g
		switch a := addr.(type) {
		case *ssa.IndexAddr:
			if a.X == ssa.Value(g) {
				if c, ok := a.Index.(*ssa.Const); ok {
					i, _ := constant.Int64Val(c.Value)
					return i, true
				}
			}
			if base, ok := walk(a.X); ok {
				if c, ok := a.Index.(*ssa.Const); ok {
					i, _ := constant.Int64Val(c.Value)
					return base*10 + i, true
				}
			}
		case *ssa.FieldAddr:
			if a.X == ssa.Value(g) {
				return int64(a.Field), true
			}
		}
		return 0, false
	}
	for _, b := range init.Blocks {
		for _, in := range b.Instrs {
			if st, ok := in.(*ssa.Store); ok {
				if idx, ok := walk(st.Addr); ok {
					if c, ok := st.Val.(*ssa.Const); ok && c.Value != nil {
						v, _ := constant.Int64Val(c.Value)
						vals[idx] = v
					}
				}
			}
		}
	}
	if len(vals) == 0 {
		return nil, false
	}
	max := int64(0)
	for k := range vals {
		if k > max {
			max = k
		}
	}
	out := make([]int64, max+1)
	for k, v := range vals {
		out[k] = v
	}
	return out, true
}

// stringConstArg finds, in the initialiser, the string literal passed to the call that initialises
// global `name` (e.g. bigFromBase10("…"), SetString("…", 10)).
func stringInit(sp *ssa.Package, name string) (string, bool) {
	g, ok := sp.Members[name].(*ssa.Global)
	if !ok {
		return "", false
	}
	init := sp.Func("init")
	for _, b := range init.Blocks {
		for _, in := range b.Instrs {
			st, ok := in.(*ssa.Store)
			if !ok || st.Addr != ssa.Value(g) {
				continue
			}
			// look backwards from the stored value for a string constant argument
			var find func(v ssa.Value, depth int) (string, bool)
			find = func(v ssa.Value, depth int) (string, bool) {
				if depth > 6 {
					return "", false
				}
				switch v := v.(type) {
				case *ssa.Const:
					if v.Value != nil && v.Value.Kind() == constant.String {
						return constant.StringVal(v.Value), true
					}
				case *ssa.Call:
					for _, a := range v.Common().Args {
						if s, ok := find(a, depth+1); ok {
							return s, true
						}
					}
				case *ssa.Extract:
					return find(v.Tuple, depth+1)
				case *ssa.MakeInterface:
					return find(v.X, depth+1)
				case *ssa.UnOp:
					return find(v.X, depth+1)
				}
				return "", false
			}
			if s, ok := find(st.Val, 0); ok {
				return s, true
			}
		}
	}
	return "", false
}

func facts(prog *ssa.Program, byPath map[string]*ssa.Package, out string) {
	var sb strings.Builder
	sb.WriteString("/-\nGENERATED by harness/cmd/extract from /repo — do not edit. Constants the theorems depend on, as the Go\nsource states them now. Lib/Facts.lean proves they are the constants of the reference models.\n-/\nnamespace Kyber.Gen.Facts\n\n")
	ed := byPath["go.dedis.ch/kyber/v4/group/edwards25519"]
	if ed != nil {
		for _, n := range []string{"d", "d2", "sqrtM1"} {
			if l, ok := globalLimbs(ed, n); ok && len(l) == 10 {
				fmt.Fprintf(&sb, "def ed25519_%s : Nat := %s\n", n, feValue(l))
			} else {
				fmt.Fprintf(&sb, "-- ed25519 %s: not found\n", n)
			}
		}
		if l, ok := globalLimbs(ed, "baseext"); ok && len(l) >= 40 {
			for i, c := range []string{"X", "Y", "Z", "T"} {
				fmt.Fprintf(&sb, "def ed25519_base%s : Nat := %s\n", c, feValue(l[i*10:i*10+10]))
			}
		}
		if s, ok := stringInit(ed, "primeOrder"); ok {
			fmt.Fprintf(&sb, "def ed25519_primeOrder : Nat := %s\n", s)
		}
		if s, ok := stringInit(ed, "lMinus2"); ok {
			fmt.Fprintf(&sb, "def ed25519_lMinus2 : Nat := %s\n", s)
		}
	}
	for _, bn := range []string{"bn256", "bn254"} {
		sp := byPath["go.dedis.ch/kyber/v4/pairing/"+bn]
		if sp == nil {
			continue
		}
		for _, n := range []string{"p", "Order", "u"} {
			if s, ok := stringInit(sp, n); ok {
				fmt.Fprintf(&sb, "def %s_%s : Nat := %s\n", bn, n, s)
			}
		}
	}
	sb.WriteString("\nend Kyber.Gen.Facts\n")
	writeIfChanged(filepath.Join(out, "Facts.lean"), sb.String())
}
