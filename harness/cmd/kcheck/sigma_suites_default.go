//go:build !constantTime

package main

import (
	"go.dedis.ch/kyber/v4/group/edwards25519"
	"go.dedis.ch/kyber/v4/group/p256"
	"go.dedis.ch/kyber/v4/pairing/bn256"

	"verifharness/internal/kc"
)

// sigmaRealEnvs: the real groups the sigma-protocol checks run over (C14, C15).
func sigmaRealEnvs(r *kc.Rng) []*sgEnv {
	return []*sgEnv{
		sgRealEnv("ed25519", edwards25519.NewBlakeSHA256Ed25519(), r.Fork("stream/ed25519")),
		sgRealEnv("p256", p256.NewBlakeSHA256P256(), r.Fork("stream/p256")),
		sgRealEnv("bn256-g1", bn256.NewSuiteG1(), r.Fork("stream/bn256-g1")),
	}
}
