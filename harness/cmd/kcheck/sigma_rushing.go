package main

// C14, deniable protocol, the commit-then-reveal challenge mixing (proof/deniable.go: challengeStep): a
// rushing participant without a witness pre-simulates its Sigma transcript for a challenge c* of its
// choice, commits to junk (or to another key), waits for the honest keys and reveals
// key = mix* ⊕ (honest keys), which is not the key it committed to. The property's soundness clause
// ("if the prover's secrets do not satisfy the branch it claims, no accepted proof results") requires
// every honest participant's verifier of it not to accept. The harness plays the leader and the
// adversary; the honest participants are proof.DeniableProver instances.

import (
	"fmt"
	"sync"
	"time"

	"go.dedis.ch/kyber/v4"
	"go.dedis.ch/kyber/v4/proof"

	"verifharness/internal/kc"
)

type rushNode struct {
	e      *sgEnv
	seed   []byte
	outbox chan []byte
	inbox  chan [][]byte
	errs   []error
	done   chan struct{}
}

func (n *rushNode) Step(msg []byte) ([][]byte, error) {
	n.outbox <- append([]byte{}, msg...)
	v, ok := <-n.inbox
	if !ok {
		return nil, fmt.Errorf("leader stopped")
	}
	return v, nil
}
func (n *rushNode) Random() kyber.XOF { return n.e.suite.XOF(n.seed) }

// rushRun returns, per honest participant, whether it accepted the adversary's proof.
func rushRun(e *sgEnv, r *kc.Rng, n, adv int, commitKind string, falseAnd bool) (accepted []int, detail string) {
	s := e.suite
	B := s.Point().Base()
	B2 := s.Point().Mul(e.sc(sgUniform(r, e.q)), nil)
	// the adversary's statement: X = x·B for an X whose logarithm it does not use; with falseAnd also
	// Y = x·B2 for an unrelated Y (a false statement with overwhelming probability)
	X := s.Point().Mul(e.sc(sgUniform(r, e.q)), nil)
	Y := s.Point().Mul(e.sc(sgUniform(r, e.q)), nil)
	var pred proof.Predicate = proof.Rep("X", "x", "B")
	pub := map[string]kyber.Point{"X": X, "B": B}
	if falseAnd {
		pred = proof.And(proof.Rep("X", "x", "B"), proof.Rep("Y", "x", "B2"))
		pub["Y"], pub["B2"] = Y, B2
	}
	mixStar := r.Bytes(dnKeySize)
	replKey := r.Bytes(dnKeySize) // "replace-own": the key the honest node is told it committed to
	cStar := s.Scalar()
	if err := s.Read(s.XOF(mixStar), cStar); err != nil {
		return nil, "cannot derive challenge: " + err.Error()
	}
	resp := e.sc(sgUniform(r, e.q))
	// verifier: V = r·B + c·X
	var m0 []byte
	V := s.Point().Add(s.Point().Mul(cStar, X), s.Point().Mul(resp, B))
	vb, _ := V.MarshalBinary()
	m0 = append(m0, vb...)
	if falseAnd {
		V2 := s.Point().Add(s.Point().Mul(cStar, Y), s.Point().Mul(resp, B2))
		vb2, _ := V2.MarshalBinary()
		m0 = append(m0, vb2...)
	}
	m2, _ := resp.MarshalBinary()
	com := make([]byte, dnKeySize)
	switch commitKind {
	case "junk-commit":
	case "commit-to-other-key":
		s.XOF(r.Bytes(dnKeySize)).Read(com)
	case "random-commit":
		com = r.Bytes(dnKeySize)
	case "replace-own":
		// (two participants) the leader colludes: the honest node is shown its OWN commitment and key replaced
		// by values of the adversary's choice (commitment and key consistent with each other), so that the mix
		// is known beforehand; the adversary itself commits and reveals honestly
		s.XOF(advKeyFor(mixStar, replKey)).Read(com)
	case "own-key-only":
		// no rushing: the participant commits to mix* and reveals mix*; its simulated proof is for the
		// challenge derived from its own key alone, i.e. it bets that the honest keys are not mixed in
		s.XOF(mixStar).Read(com)
	}

	nodes := make([]*rushNode, n)
	for i := 0; i < n; i++ {
		if i == adv {
			continue
		}
		nd := &rushNode{e: e, seed: r.Bytes(16), outbox: make(chan []byte), inbox: make(chan [][]byte), done: make(chan struct{})}
		nodes[i] = nd
		x := e.sc(sgUniform(r, e.q))
		hp := proof.Rep("X", "x", "B")
		prover := hp.Prover(s, map[string]kyber.Scalar{"x": x}, map[string]kyber.Point{"X": s.Point().Mul(x, nil), "B": B}, nil)
		vrfs := make([]proof.Verifier, n)
		vrfs[adv] = pred.Verifier(s, pub)
		proto := proof.DeniableProver(s, i, prover, vrfs)
		go func() {
			defer close(nd.done)
			defer func() { recover() }()
			nd.errs = (func(proof.Context) []error)(proto)(nd)
		}()
	}
	deadline := make(chan struct{})
	dt := time.AfterFunc(20*time.Second, func() { close(deadline) })
	defer dt.Stop()
	finished := make([]bool, n)
	defer func() {
		for i, nd := range nodes {
			if nd != nil && !finished[i] {
				close(nd.inbox) // unblock Step
			}
		}
	}()
	for step := 0; step < 3; step++ {
		msgs := make([][]byte, n)
		live := 0
		for i, nd := range nodes {
			if nd == nil || finished[i] {
				continue
			}
			select {
			case m := <-nd.outbox:
				msgs[i] = m
				live++
			case <-nd.done:
				finished[i] = true
			case <-deadline:
				return nil, "timeout"
			}
		}
		if live == 0 {
			break
		}
		switch step {
		case 0:
			msgs[adv] = append(append([]byte{}, com...), m0...)
			if commitKind == "replace-own" {
				for i := range msgs {
					if i != adv && len(msgs[i]) >= dnKeySize {
						fake := make([]byte, dnKeySize)
						s.XOF(replKey).Read(fake)
						msgs[i] = append(fake, msgs[i][dnKeySize:]...)
					}
				}
			}
		case 1:
			key := append([]byte{}, mixStar...)
			for i, m := range msgs {
				if i != adv && len(m) >= dnKeySize && commitKind != "own-key-only" && commitKind != "replace-own" {
					for j := 0; j < dnKeySize; j++ {
						key[j] ^= m[j]
					}
				}
			}
			if commitKind == "replace-own" {
				key = advKeyFor(mixStar, replKey)
				for i := range msgs {
					if i != adv && msgs[i] != nil {
						msgs[i] = append([]byte{}, replKey...)
					}
				}
			}
			msgs[adv] = key
		case 2:
			msgs[adv] = append(make([]byte, dnKeySize), m2...)
		}
		for i, nd := range nodes {
			if nd == nil || finished[i] || msgs[i] == nil {
				continue
			}
			select {
			case nd.inbox <- msgs:
			case <-nd.done:
				finished[i] = true
			case <-deadline:
				return nil, "timeout"
			}
		}
	}
	final := make(chan struct{})
	time.AfterFunc(1500*time.Millisecond, func() { close(final) })
	for i, nd := range nodes {
		if nd == nil {
			continue
		}
		select {
		case <-nd.done:
			finished[i] = true
			if len(nd.errs) == n && nd.errs[adv] == nil {
				accepted = append(accepted, i)
			}
		case <-nd.outbox: // still wants to go on: it has not accepted within the three steps
		case <-final:
		}
	}
	return accepted, ""
}

func advKeyFor(mixStar, replKey []byte) []byte {
	k := make([]byte, len(mixStar))
	for i := range k {
		k[i] = mixStar[i] ^ replKey[i]
	}
	return k
}

func c14Rushing(t *sgRun, envs []*sgEnv) {
	c := t.c
	reps := c.N(3, 20)
	type job struct {
		e        *sgEnv
		r        *kc.Rng
		k, n     int
		adv      int
		ck       string
		falseAnd bool
		acc      []int
		detail   string
	}
	var jobs []*job
	for _, e := range envs {
		r := c.Rng.Fork("rushing/" + e.name)
		for k := 0; k < reps; k++ {
			for ci, ck := range []string{"junk-commit", "commit-to-other-key", "random-commit", "own-key-only", "replace-own"} {
				n := 2 + (k+ci)%3
				adv := r.Intn(n)
				if ck == "own-key-only" || ck == "replace-own" {
					// one honest participant, at either index
					n, adv = 2, k%2
				}
				jobs = append(jobs, &job{e: e, r: r.Fork(fmt.Sprint(k, ck)), k: k, n: n, adv: adv, ck: ck, falseAnd: (k+ci)%2 == 1})
			}
		}
	}
	// the runs mostly wait (an honest participant that detects the wrong key stops answering): the groups
	// run side by side
	var wg sync.WaitGroup
	for _, e := range envs {
		wg.Add(1)
		go func(e *sgEnv) { // one goroutine per group: a suite is not shared between concurrent runs
			defer wg.Done()
			for _, j := range jobs {
				if j.e == e {
					j.acc, j.detail = rushRun(j.e, j.r, j.n, j.adv, j.ck, j.falseAnd)
				}
			}
		}(e)
	}
	wg.Wait()
	for _, j := range jobs {
		e := j.e
		c.Eval(1)
		c.CountKind(fmt.Sprintf("%s:deniable-rushing-%s-n%d", e.name, j.ck, j.n))
		c.Nontrivial(fmt.Sprintf("rushing|%s|%d|%s|%d|%v", e.name, j.k, j.ck, j.n, j.falseAnd))
		if j.detail != "" {
			continue // no honest participant completed: nothing was accepted
		}
		if len(j.acc) > 0 {
			c.Violation("C14:deniable-rushing:accept", fmt.Sprintf("%s: a participant without a witness that steers or predicts the joint challenge (commitment kind %s) is accepted by honest participants %v (%d participants, false And-statement=%v)", e.name, j.ck, j.acc, j.n, j.falseAnd),
				map[string]any{"group": e.name, "participants": j.n, "adversary": j.adv, "commit": j.ck, "false_and": j.falseAnd, "seed": c.Seed, "k": j.k})
		}
	}
}
