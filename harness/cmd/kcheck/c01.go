package main

// C01 — group operations obey abelian-group and scalar-action laws in every group.
// (1) The property's identities are evaluated directly on the real code for all 20 group instances
//     (edge-biased scalars, points from Base/Pick/Embed/Hash/pairing outputs, non-normalised sums).
// (2) Straight-line programs are executed on every instance that has a Lean reference model
//     (Ed25519 ×4 implementations, P-256, BN256 G1, BN254 G1, BLS12-381 G1 ×3) and compared byte for
//     byte with the model, whose group laws are theorems (Props/C01.lean).

import (
	"fmt"
	"math/big"
	"time"

	"go.dedis.ch/kyber/v4"

	"verifharness/internal/groups"
	"verifharness/internal/kc"
)

type lawFail struct {
	Group string `json:"group"`
	Law   string `json:"law"`
	A     string `json:"a"`
	B     string `json:"b"`
	P     string `json:"P"`
	Q     string `json:"Q"`
	R     string `json:"R"`
	Got   string `json:"got"`
	Want  string `json:"want"`
}

// checkLaws evaluates every identity of C01 on (a, b, P, Q, R); returns the failures.
func checkLaws(g *groups.G, a, b *big.Int, Pb, Qb, Rb []byte) []lawFail {
	G := g.Group
	cp := groupCaps(g)
	sc := func(v *big.Int) kyber.Scalar { return G.Scalar().SetBytes(encScalar(g, new(big.Int).Mod(v, g.Q))) }
	pt := func(b []byte) kyber.Point {
		p := G.Point()
		if err := p.UnmarshalBinary(b); err != nil {
			panic("decode")
		}
		return p
	}
	var fails []lawFail
	chk := func(law string, got, want func() kyber.Point) {
		res := kc.Recover(func() string {
			x, y := got(), want()
			if x.Equal(y) && pointVal(x) == pointVal(y) {
				return ""
			}
			return pointVal(x) + "|" + pointVal(y)
		})
		if res != "" {
			fails = append(fails, lawFail{Group: g.Name, Law: law, A: kc.HexN(a), B: kc.HexN(b), P: kc.HexB(Pb), Q: kc.HexB(Qb), R: kc.HexB(Rb), Got: res})
		}
	}
	O := func() kyber.Point { return G.Point().Null() }
	P, Q, R := func() kyber.Point { return pt(Pb) }, func() kyber.Point { return pt(Qb) }, func() kyber.Point { return pt(Rb) }
	A, B := func() kyber.Scalar { return sc(a) }, func() kyber.Scalar { return sc(b) }
	chk("identity: P+O=P", func() kyber.Point { return G.Point().Add(P(), O()) }, P)
	chk("identity: O+P=P", func() kyber.Point { return G.Point().Add(O(), P()) }, P)
	chk("inverse: P+(-P)=O", func() kyber.Point { return G.Point().Add(P(), G.Point().Neg(P())) }, O)
	chk("inverse: P-P=O", func() kyber.Point { return G.Point().Sub(P(), P()) }, O)
	chk("sub: P-Q=P+(-Q)", func() kyber.Point { return G.Point().Sub(P(), Q()) }, func() kyber.Point { return G.Point().Add(P(), G.Point().Neg(Q())) })
	chk("commutativity", func() kyber.Point { return G.Point().Add(P(), Q()) }, func() kyber.Point { return G.Point().Add(Q(), P()) })
	chk("associativity", func() kyber.Point { return G.Point().Add(G.Point().Add(P(), Q()), R()) }, func() kyber.Point { return G.Point().Add(P(), G.Point().Add(Q(), R())) })
	chk("doubling: P+P=2P", func() kyber.Point { return G.Point().Add(P(), P()) }, func() kyber.Point { return G.Point().Mul(sc(big.NewInt(2)), P()) })
	chk("(a+b)P=aP+bP", func() kyber.Point { return G.Point().Mul(G.Scalar().Add(A(), B()), P()) },
		func() kyber.Point { return G.Point().Add(G.Point().Mul(A(), P()), G.Point().Mul(B(), P())) })
	chk("a(bP)=(ab)P", func() kyber.Point { return G.Point().Mul(A(), G.Point().Mul(B(), P())) },
		func() kyber.Point { return G.Point().Mul(G.Scalar().Mul(A(), B()), P()) })
	chk("a(P+Q)=aP+aQ", func() kyber.Point { return G.Point().Mul(A(), G.Point().Add(P(), Q())) },
		func() kyber.Point { return G.Point().Add(G.Point().Mul(A(), P()), G.Point().Mul(A(), Q())) })
	// the same element in different internal representations (non-normalised results of earlier arithmetic)
	S := func() kyber.Point { return G.Point().Add(P(), Q()) }
	renorm := func(x kyber.Point) kyber.Point {
		b, _ := x.MarshalBinary()
		y := G.Point()
		if err := y.UnmarshalBinary(b); err != nil {
			panic("decode")
		}
		return y
	}
	chk("non-normalised doubling: (P+Q)+(Q+P)=2(P+Q)", func() kyber.Point { return G.Point().Add(S(), G.Point().Add(Q(), P())) },
		func() kyber.Point { return G.Point().Mul(sc(big.NewInt(2)), S()) })
	chk("representation independence: S+norm(S)=2S", func() kyber.Point { return G.Point().Add(S(), renorm(S())) },
		func() kyber.Point { return G.Point().Mul(sc(big.NewInt(2)), S()) })
	chk("representation independence: S-norm(S)=O", func() kyber.Point { return G.Point().Sub(S(), renorm(S())) }, O)
	chk("representation independence: (P+Q)-Q=P", func() kyber.Point { return G.Point().Sub(S(), Q()) }, P)
	chk("representation independence: a*S=a*norm(S)", func() kyber.Point { return G.Point().Mul(A(), S()) },
		func() kyber.Point { return G.Point().Mul(A(), renorm(S())) })
	chk("0*P=O", func() kyber.Point { return G.Point().Mul(G.Scalar().Zero(), P()) }, O)
	chk("1*P=P", func() kyber.Point { return G.Point().Mul(G.Scalar().One(), P()) }, P)
	chk("(q-1)P=-P", func() kyber.Point { return G.Point().Mul(sc(new(big.Int).Sub(g.Q, big.NewInt(1))), P()) }, func() kyber.Point { return G.Point().Neg(P()) })
	chk("a*O=O", func() kyber.Point { return G.Point().Mul(A(), O()) }, O)
	// scalar multiplication against the API's own additions (double-and-add through Add only)
	chk("aP by repeated Add", func() kyber.Point { return G.Point().Mul(A(), P()) }, func() kyber.Point {
		acc := O()
		for i := a.BitLen() - 1; i >= 0; i-- {
			acc = G.Point().Add(acc, acc)
			if a.Bit(i) == 1 {
				acc = G.Point().Add(acc, P())
			}
		}
		return acc
	})
	if cp.base {
		chk("implicit generator = explicit base", func() kyber.Point { return G.Point().Mul(A(), nil) }, func() kyber.Point { return G.Point().Mul(A(), G.Point().Base()) })
		chk("(a+b)B=aB+bB", func() kyber.Point { return G.Point().Mul(G.Scalar().Add(A(), B()), nil) },
			func() kyber.Point { return G.Point().Add(G.Point().Mul(A(), nil), G.Point().Mul(B(), nil)) })
		chk("q*B=O via (q-1)B+B", func() kyber.Point {
			return G.Point().Add(G.Point().Mul(sc(new(big.Int).Sub(g.Q, big.NewInt(1))), nil), G.Point().Base())
		}, O)
	}
	return fails
}

func edgeScalars(q *big.Int) []*big.Int {
	one := big.NewInt(1)
	out := []*big.Int{big.NewInt(0), big.NewInt(1), big.NewInt(2), new(big.Int).Sub(q, one), new(big.Int).Sub(q, big.NewInt(2)),
		big.NewInt(15), big.NewInt(16), big.NewInt(17), big.NewInt(255), big.NewInt(256)}
	for _, k := range []uint{21, 42, 63, 64, 65, 127, 128, 129, 252, 253} {
		if int(k) < q.BitLen() {
			v := new(big.Int).Lsh(one, k)
			out = append(out, v, new(big.Int).Sub(v, one), new(big.Int).Add(v, one))
		}
	}
	return out
}

func runC01(c *kc.Ctx) {
	defer reportHungProbes(c)
	c.SetRule("law cases: (group, a, b, P, Q, R) with edge-biased scalars and points from generator multiples / Pick / Embed / Hash / pairing outputs, every identity of C01 evaluated through two API paths; non-trivial = P,Q,R not all identity and a,b not both in {0,1}; program cases: random straight-line programs (≤ N statements) compared byte-for-byte with the Lean model; distinct by canonical text")
	c.Assume("field-element limb code, Montgomery assembly, math/big, crypto/elliptic, kilic, CIRCL, gnark arithmetic are compared with the model, not proved",
		"G2, GT and the residue group have no byte-level Lean model yet: for them the identities are evaluated Go-to-Go only",
		"H_card25519 not needed here: laws are proved for all valid curve points")

	// (1) direct law evaluation on every group
	nLaw := c.N(12, 250)
	for _, g := range groups.All() {
		rng := c.Rng.Fork("laws/" + g.Name)
		src := pointSource(g, rng)
		es := edgeScalars(g.Q)
		for i := 0; i < nLaw; i++ {
			a, b := rng.BigBelow(g.Q), rng.BigBelow(g.Q)
			if c.Thorough() && i < len(es)*len(es) && i < 200 {
				a, b = es[i%len(es)], es[(i/len(es))%len(es)]
			}
			dgen := c.Watch(90*time.Second, g.Name+":pick/embed/hash", g.Name+": generating input points through Pick/Embed/Hash", map[string]string{"group": g.Name, "seed": fmt.Sprint(c.Seed)}, "proof")
			Pb, Qb, Rb := src(rng.Intn(8)), src(rng.Intn(8)), src(rng.Intn(8))
			dgen()
			switch rng.Intn(6) {
			case 0:
				Pb, _ = g.Group.Point().Null().MarshalBinary()
			case 1:
				Qb = Pb
			}
			done := c.Watch(90*time.Second, g.Name, g.Name+" laws", map[string]string{"group": g.Name, "a": kc.HexN(a), "b": kc.HexN(b), "P": kc.HexB(Pb), "Q": kc.HexB(Qb), "R": kc.HexB(Rb)}, "proof")
			fails := checkLaws(g, a, b, Pb, Qb, Rb)
			if i%4 == 0 {
				for _, m := range constantsStable(g, Pb) {
					fails = append(fails, lawFail{Law: "constants: " + m, A: kc.HexN(a), B: kc.HexN(b), Got: "changed"})
				}
			}
			done()
			c.Eval(1)
			c.CountKind("laws:" + g.Name)
			if a.Cmp(big.NewInt(1)) > 0 || b.Cmp(big.NewInt(1)) > 0 {
				c.Nontrivial(fmt.Sprintf("law|%s|%s|%s|%x|%x|%x", g.Name, a, b, Pb, Qb, Rb))
			}
			for _, f := range fails {
				c.Violation("law:"+g.Name+":"+f.Law, fmt.Sprintf("%s: %s fails for a=%s b=%s: %s", g.Name, f.Law, f.A, f.B, f.Got), f)
			}
			if i == 0 {
				c.Sample(map[string]string{"kind": "laws", "group": g.Name, "a": kc.HexN(a), "b": kc.HexN(b), "P": kc.HexB(Pb)})
			}
		}
	}

	// (2) programs against the Lean model
	nProg := c.N(24, 500)
	plen := c.N(12, 40)
	type pc struct {
		g    *groups.G
		line string
		got  string
		p    prog
	}
	var pcs []pc
	for _, f := range families() {
		if f.model == "" {
			continue
		}
		rng := c.Rng.Fork("prog/" + f.model)
		src := pointSource(f.insts[0], rng)
		// the use / overwrite / use-again patterns of C05 are histories too
		sweep := deriveOverwritePrograms(rng.Fork("sweep"), f.q, src, groupCaps(f.insts[0]).base)
		nProg := nProg / modelStride(c, f)
		for i := 0; i < nProg+len(sweep); i++ {
			dgen := c.Watch(90*time.Second, f.insts[0].Name+":pick/embed/hash", f.insts[0].Name+": generating input points through Pick/Embed/Hash", map[string]string{"group": f.insts[0].Name, "seed": fmt.Sprint(c.Seed)}, "proof")
			var p prog
			if i < nProg {
				p = genProg(rng.Fork(fmt.Sprint(i)), f.q, plen, src, true, true)
			} else {
				p = sweep[i-nProg]
			}
			dgen()
			line := "grp " + f.model + " " + p.String()
			for _, g := range f.insts {
				done := c.Watch(90*time.Second, g.Name, g.Name+" program "+p.String(), map[string]string{"group": g.Name, "program": p.String()}, "proof")
				got, _ := runProg(g, p, false, false)
				// the same program on objects with a history: destinations are reused as receivers, operands
				// are the live objects (not clones), so whatever an earlier call left in them is still there
				gotIn, _ := runProg(g, p, true, false)
				done()
				pcs = append(pcs, pc{g, line, got, p})
				if gotIn != got {
					c.Violation("law:"+g.Name+":history-dependence", fmt.Sprintf("%s: a program gives %s on fresh objects and %s when its destination objects are reused and its operands are the live objects", g.Name, got, gotIn),
						map[string]string{"group": g.Name, "program": p.String(), "fresh": got, "in_place": gotIn})
				}
			}
		}
	}
	lines := make([]string, len(pcs))
	for i, x := range pcs {
		lines[i] = x.line
	}
	outs := c.ModelDedup(lines)
	c.Program(len(pcs))
	c.Eval(len(pcs))
	for i, x := range pcs {
		c.CountKind("prog:" + x.g.Name)
		c.Nontrivial("prog|" + x.g.Name + "|" + x.line)
		if i%(len(pcs)/6+1) == 0 {
			c.Sample(map[string]string{"kind": "program", "group": x.g.Name, "line": x.line, "impl": x.got, "model": outs[i]})
		}
		if outs[i] == x.got {
			continue
		}
		c.Disagree(x.g.Name+" "+x.line, x.got, outs[i], "")
		c.DisChecked(1)
		// search 1: replay the program; at every statement recompute the result from operands normalised through
		// encode/decode. A difference means the operation's result depends on the internal representation of
		// its operands, i.e. the group law fails on those concrete operands.
		found := false
		if st, a, b, got, want := findRepresentationDependence(x.g, x.p); st != "" {
			c.Violation("law:"+x.g.Name+":representation-dependence", fmt.Sprintf("%s: `%s` gives %s on the operands as left by earlier arithmetic but %s on the same operands re-decoded from their encodings", x.g.Name, st, got, want),
				map[string]string{"group": x.g.Name, "program": x.p.String(), "statement": st, "operand_a": a, "operand_b": b, "direct": got, "normalised": want})
			found = true
		}
		// search 2: evaluate the laws on the operands the program used
		rng := c.Rng.Fork("search/" + x.line)
		src := pointSource(x.g, rng)
		for t := 0; t < 40 && !found; t++ {
			a, b := rng.BigBelow(x.g.Q), rng.BigBelow(x.g.Q)
			for _, s := range x.p.stmts {
				if s.op == "const" && rng.Intn(3) == 0 {
					a, _ = new(big.Int).SetString(s.lit, 16)
				}
			}
			for _, f := range checkLaws(x.g, a, b, src(rng.Intn(8)), src(rng.Intn(8)), src(rng.Intn(8))) {
				c.Violation("law:"+x.g.Name+":"+f.Law, fmt.Sprintf("%s: %s fails (found from program disagreement)", x.g.Name, f.Law), f)
				found = true
			}
		}
		if !found {
			c.Unshown("program:"+x.g.Name, "implementation and reference model disagree on a program, no law failure found: impl "+x.got+" model "+outs[i],
				map[string]string{"group": x.g.Name, "line": x.line, "impl": x.got, "model": outs[i]})
		}
	}
}

func init() { register("C01", "proof", runC01) }

// constantsStable: the identity, the generator, zero and one are values, not shared objects: accumulating in
// place into what Null()/Base()/Zero()/One() returned must not change what they return afterwards.
func constantsStable(g *groups.G, Pb []byte) (fails []string) {
	G := g.Group
	cp := groupCaps(g)
	res := kc.Recover(func() string {
		enc := func(p kyber.Point) string { b, _ := p.MarshalBinary(); return string(b) }
		base := func() kyber.Point { return cp.gen() } // Base(), or e(B1,B2) where the group has no Base()
		n0, b0 := enc(G.Point().Null()), enc(base())
		z0, o0 := scalarVal(g, G.Scalar().Zero()), scalarVal(g, G.Scalar().One())
		e := G.Point()
		if err := e.UnmarshalBinary(Pb); err != nil {
			e = base()
		}
		acc := G.Point().Null()
		acc.Add(acc, e)
		acc.Add(acc, base())
		gen := base()
		gen.Add(gen, gen)
		gen.Neg(gen)
		z := G.Scalar().Zero()
		z.Add(z, G.Scalar().One())
		o := G.Scalar().One()
		o.Add(o, o)
		o.Neg(o)
		if enc(G.Point().Null()) != n0 || !G.Point().Add(e, G.Point().Null()).Equal(e) {
			fails = append(fails, "Null() is no longer the identity after in-place accumulation into an earlier Null()")
		}
		if enc(base()) != b0 {
			fails = append(fails, "the generator changed after in-place arithmetic on an earlier generator value")
		}
		if scalarVal(g, G.Scalar().Zero()) != z0 || scalarVal(g, G.Scalar().One()) != o0 {
			fails = append(fails, "Zero()/One() changed after in-place arithmetic on an earlier Zero()/One()")
		}
		return ""
	})
	if res == "panic" {
		fails = append(fails, "panic")
	}
	return fails
}

// findRepresentationDependence replays p on g; returns the first statement whose result changes when its
// point operands are first normalised through MarshalBinary/UnmarshalBinary.
func findRepresentationDependence(g *groups.G, p prog) (stmtText, opA, opB, direct, normalised string) {
	st := &progState{pts: map[string]kyber.Point{}, scs: map[string]kyber.Scalar{}}
	for _, s := range p.stmts {
		var res string
		if s.dst[0] == 'p' && (s.op == "add" || s.op == "sub" || s.op == "neg" || s.op == "mul") {
			res = kc.Recover(func() string {
				norm := func(n string) kyber.Point {
					b, _ := st.pts[n].MarshalBinary()
					y := g.Group.Point()
					if err := y.UnmarshalBinary(b); err != nil {
						panic("decode")
					}
					return y
				}
				var r kyber.Point
				switch s.op {
				case "add":
					r = g.Group.Point().Add(norm(s.args[0]), norm(s.args[1]))
				case "sub":
					r = g.Group.Point().Sub(norm(s.args[0]), norm(s.args[1]))
				case "neg":
					r = g.Group.Point().Neg(norm(s.args[0]))
				case "mul":
					r = g.Group.Point().Mul(st.scs[s.args[0]].Clone(), norm(s.args[1]))
				}
				return pointVal(r)
			})
		}
		var a, b string
		if res != "" && res != "panic" {
			pa := s.args[len(s.args)-1]
			a = pointVal(st.pts[pa])
			if s.op == "add" || s.op == "sub" {
				a, b = pointVal(st.pts[s.args[0]]), pointVal(st.pts[s.args[1]])
			}
		}
		if kc.Recover(func() string { st.exec(g, s, false); return "" }) == "panic" {
			return "", "", "", "", ""
		}
		if res != "" && res != "panic" {
			if d := pointVal(st.pts[s.dst]); d != res {
				return s.String(), a, b, d, res
			}
		}
	}
	return "", "", "", "", ""
}
