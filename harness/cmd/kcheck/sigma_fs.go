package main

// Fiat–Shamir binding (proof/hash.go: the challenge XOF is reseeded with every prover message): every
// challenge depends on every byte of every prover message sent before it. An honest proof is verified once
// under a spying verifier context that notes how many proof bytes had been consumed when each challenge was
// drawn; then single bytes of the proof are altered — at the start, middle and end of every message, around
// every 512-byte boundary and in the last 96 bytes before each challenge — and the proof is verified again:
// the first challenge drawn after the altered byte must differ. (The altered proofs are rejected anyway; the
// point is that the challenge moved. A verifier whose challenges ignore part of a message lets a prover
// choose that part after seeing the challenge.)

import (
	"bytes"
	"fmt"

	"go.dedis.ch/kyber/v4/proof"

	"verifharness/internal/kc"
)

type fsSpy struct {
	e     *sgEnv
	inner proof.VerifierContext
	read  int
	marks []int
	chals []string
}

func (s *fsSpy) Get(m any) error {
	err := s.inner.Get(m)
	if err == nil {
		var b bytes.Buffer
		if s.e.suite.Write(&b, m) == nil {
			s.read += b.Len()
		}
	}
	return err
}

func (s *fsSpy) PubRand(d ...any) error {
	err := s.inner.PubRand(d...)
	if err == nil {
		var b bytes.Buffer
		_ = s.e.suite.Write(&b, d...)
		s.marks = append(s.marks, s.read)
		s.chals = append(s.chals, kc.HexB(b.Bytes()))
	}
	return err
}

func fsRun(e *sgEnv, name string, v proof.Verifier, pr []byte) (*fsSpy, string) {
	spy := &fsSpy{e: e}
	wrapped := proof.Verifier(func(ctx proof.VerifierContext) error {
		spy.inner = ctx
		return (func(proof.VerifierContext) error)(v)(spy)
	})
	res := kc.Recover(func() string {
		if proof.HashVerify(e.suite, name, wrapped, pr) != nil {
			return "reject"
		}
		return "accept"
	})
	return spy, res
}

// fsSensitivity returns a description of the first insensitive byte found ("" if none) and the number of
// conclusive probes.
func fsSensitivity(e *sgEnv, name string, mk func() proof.Verifier, pr []byte) (string, int) {
	base, res := fsRun(e, name, mk(), pr)
	if res != "accept" || len(base.marks) == 0 {
		return "", 0
	}
	last := base.marks[len(base.marks)-1]
	pos := map[int]bool{}
	prev := 0
	for _, m := range base.marks {
		for _, k := range []int{prev, prev + 1, (prev + m) / 2, m - 1, m - 2, m - 33} {
			if k >= prev && k < m {
				pos[k] = true
			}
		}
		for k := m - 96; k < m; k += 7 {
			if k >= prev {
				pos[k] = true
			}
		}
		for b := (prev/512 + 1) * 512; b < m; b += 512 {
			for _, k := range []int{b - 1, b, b + 1} {
				if k >= prev && k < m {
					pos[k] = true
				}
			}
		}
		prev = m
	}
	conclusive := 0
	for k := range pos {
		if k >= last || k >= len(pr) {
			continue
		}
		alt := append([]byte{}, pr...)
		alt[k] ^= 0x01
		got, _ := fsRun(e, name, mk(), alt)
		// index of the first challenge drawn after byte k
		j := 0
		for j < len(base.marks) && base.marks[j] <= k {
			j++
		}
		if j >= len(base.marks) || j >= len(got.chals) || got.marks[j] != base.marks[j] {
			continue // the altered bytes did not decode up to that challenge: inconclusive
		}
		conclusive++
		if got.chals[j] == base.chals[j] {
			return fmt.Sprintf("challenge %d (drawn after %d proof bytes) is unchanged when byte %d of the proof is altered", j, base.marks[j], k), conclusive
		}
	}
	return "", conclusive
}
