package main

// C02 — scalars behave exactly as integers modulo the group order.
// Correspondence: every scalar implementation against the Lean model `Kyber.Scalar` (Props/C02.lean)
// and, independently, against math/big.

import (
	"fmt"
	"math"
	"math/big"
	"os"
	"path/filepath"

	"go.dedis.ch/kyber/v4"
	"go.dedis.ch/kyber/v4/compatible/compatiblemod"
	"go.dedis.ch/kyber/v4/group/mod"

	"verifharness/internal/groups"
	"verifharness/internal/kc"
)

type scImpl struct {
	name   string
	q      *big.Int
	fresh  func() kyber.Scalar
	family string
	nrecv  int
}

func (im *scImpl) le() bool { return im.fresh().ByteOrder() == kyber.LittleEndian }

// enc returns the canonical fixed-width encoding of v in the implementation's byte order.
func (im *scImpl) enc(v *big.Int) []byte {
	n := im.fresh().MarshalSize()
	b := v.FillBytes(make([]byte, n))
	if im.le() {
		for i, j := 0, len(b)-1; i < j; i, j = i+1, j-1 {
			b[i], b[j] = b[j], b[i]
		}
	}
	return b
}

func (im *scImpl) from(v *big.Int) kyber.Scalar { return im.fresh().SetBytes(im.enc(v)) }

// recv returns the receiver of the next operation: alternately a new scalar and one that already holds a
// value (q-1, a large one, a small one) - what a receiver held before must not show in the result.
func (im *scImpl) recv() kyber.Scalar {
	im.nrecv++
	switch im.nrecv % 4 {
	case 1:
		return im.from(new(big.Int).Sub(im.q, big.NewInt(1)))
	case 2:
		return im.from(new(big.Int).Rsh(im.q, 1))
	case 3:
		return im.from(big.NewInt(3))
	}
	return im.fresh()
}

// via builds the scalar of value v along constructor path `mode` (operands must behave the same
// whichever constructor produced them).
func (im *scImpl) via(v *big.Int, mode int) kyber.Scalar {
	switch mode % 6 {
	case 1:
		if v.Sign() == 0 {
			return im.from(big.NewInt(3)).Zero()
		}
		if v.Cmp(big.NewInt(1)) == 0 {
			return im.from(big.NewInt(3)).One()
		}
	case 2:
		if v.IsInt64() {
			return im.fresh().SetInt64(v.Int64())
		}
		neg := new(big.Int).Sub(v, im.q)
		if neg.IsInt64() {
			return im.fresh().SetInt64(neg.Int64())
		}
	case 3:
		s := im.fresh()
		if s.UnmarshalBinary(im.enc(v)) == nil {
			return s
		}
	case 4:
		x := new(big.Int).Rsh(v, 1)
		y := new(big.Int).Sub(v, x)
		return im.fresh().Add(im.from(x), im.from(y))
	case 5:
		return im.from(v).Clone()
	}
	return im.from(v)
}

// val reads a scalar back through MarshalBinary; reports non-canonical results in-band.
func (im *scImpl) val(s kyber.Scalar) string {
	b, err := s.MarshalBinary()
	if err != nil {
		return "err:marshal"
	}
	if len(b) != s.MarshalSize() {
		return fmt.Sprintf("err:len%d", len(b))
	}
	var v *big.Int
	if im.le() {
		v = kc.LeN(b)
	} else {
		v = kc.BeN(b)
	}
	if v.Cmp(im.q) >= 0 {
		return "err:unreduced:" + kc.HexN(v)
	}
	return kc.HexN(v)
}

func scalarImpls() []*scImpl {
	var out []*scImpl
	for _, g := range groups.ScalarImpls() {
		g := g
		nm := g.Name
		if groups.BuildConfig != "default" {
			nm += "/" + groups.BuildConfig
		}
		out = append(out, &scImpl{name: nm, q: g.Q, fresh: g.Group.Scalar, family: g.Family})
	}
	// mod.Int used directly, both byte orders, assorted moduli (bigmod in the constantTime build).
	moduli := []string{"1000003", "65537", "7", "57896044618658097711785492504343953926634992332820282019728792003956564819949",
		"115792089210356248762697446949407573529996955224135760342422259061068512044369",
		"6703903964971298549787012499102923063739682910296196688861780721860882015036773488400937149083451713845015929093243025426876941405973284973216824503042159"}
	for _, ms := range moduli {
		m, _ := new(big.Int).SetString(ms, 10)
		for _, bo := range []kyber.ByteOrder{kyber.BigEndian, kyber.LittleEndian} {
			bo := bo
			mm := compatiblemod.FromBigInt(m)
			nm := fmt.Sprintf("modint-%dbit-%s", m.BitLen(), map[kyber.ByteOrder]string{kyber.BigEndian: "be", kyber.LittleEndian: "le"}[bo])
			out = append(out, &scImpl{name: nm + "/" + groups.BuildConfig, q: m, family: "modint",
				fresh: func() kyber.Scalar { return mod.NewIntBytes(nil, mm, bo) }})
		}
	}
	return out
}

type recStream struct {
	r    *kc.Rng
	used []byte
}

func (s *recStream) XORKeyStream(dst, src []byte) {
	k := s.r.Bytes(len(src))
	s.used = append(s.used, k...)
	for i := range src {
		dst[i] = src[i] ^ k[i]
	}
}

func c02Cases(c *kc.Ctx) []kc.Case {
	var cases []kc.Case
	nBin := c.N(60, 2500)
	for _, im := range scalarImpls() {
		im := im
		rng := c.Rng.Fork(im.name)
		q := im.q
		qh := kc.HexN(q)
		add := func(kind, line string, key string, f func() string, oracle *big.Int) {
			got := kc.Recover(f)
			o := ""
			if oracle != nil {
				o = kc.HexN(oracle)
			}
			cases = append(cases, kc.Case{Impl: im.name, Kind: kind, Line: "sc " + qh + " " + line, Got: got, Oracle: o, Key: key})
		}
		modq := func(v *big.Int) *big.Int { return v.Mod(v, q) }
		for i := 0; i < nBin; i++ {
			a, b := rng.BigBelow(q), rng.BigBelow(q)
			ma, mb := rng.Intn(6), rng.Intn(6)
			ah, bh := kc.HexN(a), kc.HexN(b)
			nt := ""
			if a.Sign() != 0 && b.Sign() != 0 {
				nt = fmt.Sprintf("%s,%s,%d,%d", ah, bh, ma, mb)
			}
			add("add", "add "+ah+" "+bh, "add:"+nt, func() string { return im.val(im.recv().Add(im.via(a, ma), im.via(b, mb))) }, modq(new(big.Int).Add(a, b)))
			add("sub", "sub "+ah+" "+bh, "sub:"+nt, func() string { return im.val(im.recv().Sub(im.via(a, ma), im.via(b, mb))) }, modq(new(big.Int).Sub(a, b)))
			add("mul", "mul "+ah+" "+bh, "mul:"+nt, func() string { return im.val(im.recv().Mul(im.via(a, ma), im.via(b, mb))) }, modq(new(big.Int).Mul(a, b)))
			add("neg", "neg "+ah, "neg:"+ah, func() string { return im.val(im.recv().Neg(im.via(a, ma))) }, modq(new(big.Int).Neg(a)))
			if b.Sign() != 0 && i%4 == 0 {
				inv := new(big.Int).ModInverse(b, q)
				add("inv", "inv "+bh, "inv:"+bh, func() string { return im.val(im.recv().Inv(im.via(b, mb))) }, inv)
				add("div", "div "+ah+" "+bh, "div:"+nt, func() string { return im.val(im.recv().Div(im.via(a, ma), im.via(b, mb))) }, modq(new(big.Int).Mul(a, inv)))
			}
			// Equal coincides with equality of residues, also for values reached along different paths
			if i%3 == 0 {
				x := im.fresh().Add(im.via(a, ma), im.via(b, mb))
				y := im.fresh().Sub(x, im.from(b))
				eq1 := kc.Recover(func() string { return fmt.Sprint(y.Equal(im.from(a))) })
				eq2 := kc.Recover(func() string { return fmt.Sprint(im.from(a).Equal(im.from(b))) })
				cases = append(cases, kc.Case{Impl: im.name, Kind: "equal", Line: "sc " + qh + " sub " + kc.HexN(modq(new(big.Int).Add(a, b))) + " " + bh,
					Got: map[string]string{"true": ah, "false": "err:equal-false-on-equal-residues", "panic": "panic"}[eq1], Oracle: ah, Key: "eqpath:" + nt})
				want := fmt.Sprint(a.Cmp(b) == 0)
				if eq2 != want {
					c.Violation(im.name+":equal", fmt.Sprintf("Equal(%s,%s)=%s", ah, bh, eq2), map[string]string{"impl": im.name, "a": ah, "b": bh})
				}
			}
		}
		add("zero", "zero", "", func() string { return im.val(im.from(big.NewInt(5)).Zero()) }, big.NewInt(0))
		add("one", "one", "", func() string { return im.val(im.from(big.NewInt(5)).One()) }, modq(big.NewInt(1)))
		// SetInt64
		ints := []int64{0, 1, -1, 2, -2, math.MaxInt64, math.MinInt64, math.MinInt64 + 1, math.MaxInt32, math.MinInt32, 1 << 21, -(1 << 21), 255, 256, -256}
		for i := 0; i < c.N(20, 400); i++ {
			ints = append(ints, int64(rng.U64())>>uint(rng.Intn(64)))
		}
		for _, v := range ints {
			v := v
			add("setint64", fmt.Sprintf("setint64 %d", v), fmt.Sprintf("int:%d", v), func() string { return im.val(im.recv().SetInt64(v)) }, modq(big.NewInt(v)))
		}
		// SetBytes: every length 0..96, several patterns
		op := "setbytesbe"
		if im.le() {
			op = "setbytesle"
		}
		reps := c.N(1, 12)
		for l := 0; l <= 96; l++ {
			pats := [][]byte{make([]byte, l), bytesOf(l, 0xff)}
			for r := 0; r < reps+1; r++ {
				pats = append(pats, rng.Bytes(l))
			}
			if l > 0 {
				p := make([]byte, l)
				p[0] = 1
				pats = append(pats, p)
				p2 := make([]byte, l)
				p2[l-1] = 1
				pats = append(pats, p2)
			}
			if l == im.fresh().MarshalSize() {
				for _, d := range []int64{-1, 0, 1} {
					pats = append(pats, im.enc(new(big.Int).Add(q, big.NewInt(d))))
				}
			}
			for _, p := range pats {
				p := p
				var o *big.Int
				if im.le() {
					o = kc.LeN(p)
				} else {
					o = kc.BeN(p)
				}
				add("setbytes", op+" "+kc.HexB(p), fmt.Sprintf("sb:%d:%x", l, p), func() string { return im.val(im.recv().SetBytes(p)) }, modq(o))
			}
		}
		// Pick: value in [0,q) determined solely by the bytes drawn
		for i := 0; i < c.N(20, 600); i++ {
			rs := &recStream{r: rng.Fork(fmt.Sprint("pick", i))}
			var s kyber.Scalar
			got := kc.Recover(func() string { s = im.recv().Pick(rs); return im.val(s) })
			if im.family == "circl" || im.family == "gnark" {
				// delegated samplers: only the property's wording is checked (range, determinism)
				rs2 := &recStream{r: rng.Fork(fmt.Sprint("pick", i))}
				got2 := kc.Recover(func() string { return im.val(im.recv().Pick(rs2)) })
				if got != got2 || len(got) > 4 && got[:4] == "err:" || got == "panic" {
					c.Violation(im.name+":pick", "Pick not deterministic / out of range: "+got+" vs "+got2, map[string]string{"impl": im.name, "stream": kc.HexB(rs.used)})
				}
				c.Eval(1)
				c.CountKind(im.name + ":pick-wording")
				continue
			}
			tail := rng.Bytes(8)
			line := "pick " + kc.HexB(append(append([]byte{}, rs.used...), tail...))
			cases = append(cases, kc.Case{Impl: im.name, Kind: "pick", Line: "sc " + qh + " " + line, Got: fmt.Sprintf("%s %d", got, len(rs.used)), Key: "pick:" + kc.HexB(rs.used)})
		}
	}
	return cases
}

func bytesOf(n int, b byte) []byte {
	out := make([]byte, n)
	for i := range out {
		out[i] = b
	}
	return out
}

func runC02(c *kc.Ctx) {
	c.SetRule("cases = (implementation, op, operands); generated edge-biased from one PRNG; non-trivial = binary ops with both operands non-zero, inv/div with non-zero divisor, SetBytes/SetInt64/Pick inputs; distinct by (impl, op, operand values)")
	c.Assume("limb/Montgomery/bigmod arithmetic is compared, not proved", "math/big is the independent oracle inside the harness",
		"CIRCL and gnark Pick delegate to library samplers: only range and determinism are checked for them")
	cases := c02Cases(c)
	if emitMode {
		kc.EmitCases(cases)
		os.Exit(0)
	}
	ct := filepath.Join(c.BinDir, "kcheck_ct")
	child, err := c.ChildCases(ct)
	if err != nil {
		c.Unshown("constantTime-build", "constantTime harness binary did not run: "+err.Error(), nil)
	}
	c.Extra("constant_time_build_cases", len(child))
	cases = append(cases, child...)
	c.CompareCases(cases, func(cs kc.Case) string {
		return ""
	})
}

func init() { register("C02", "proof", runC02) }
