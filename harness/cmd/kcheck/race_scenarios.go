//go:build !constantTime

package main

// C20 helper: the read-only method set as concurrent scenarios. This file is executed inside the
// race-instrumented build of kcheck (child mode): each scenario shares objects between N goroutines that
// only call methods of the read-only set, and compares every result with the sequential one.

import (
	"bytes"
	"fmt"
	"go.dedis.ch/kyber/v4/sign/anon"
	"go.dedis.ch/kyber/v4/util/key"
	"os"
	"strings"
	"sync"
	"sync/atomic"

	"go.dedis.ch/kyber/v4"
	"go.dedis.ch/kyber/v4/group/edwards25519"
	"go.dedis.ch/kyber/v4/group/edwards25519vartime"
	"go.dedis.ch/kyber/v4/group/p256"
	"go.dedis.ch/kyber/v4/pairing"
	"go.dedis.ch/kyber/v4/pairing/bls12381/circl"
	"go.dedis.ch/kyber/v4/pairing/bls12381/gnark"
	"go.dedis.ch/kyber/v4/pairing/bls12381/kilic"
	"go.dedis.ch/kyber/v4/pairing/bn254"
	"go.dedis.ch/kyber/v4/pairing/bn256"
	"go.dedis.ch/kyber/v4/proof"
	"go.dedis.ch/kyber/v4/share"
	"go.dedis.ch/kyber/v4/sign/bdn"
	"go.dedis.ch/kyber/v4/sign/bls"
	"go.dedis.ch/kyber/v4/sign/cosi"
	"go.dedis.ch/kyber/v4/sign/eddsa"
	"go.dedis.ch/kyber/v4/sign/schnorr"

	"verifharness/internal/groups"
	"verifharness/internal/kc"
)

type raceScenario struct {
	impl, method string
	variant      string // group / suite instance the scenario runs on (part of the finding key)
	// prepare builds the shared objects and returns the concurrent operation; each call of op returns
	// a canonical result string that must equal `want` (computed sequentially on separate copies).
	prepare func() (op func() string, want string)
}

type raceResult struct {
	Impl       string `json:"impl"`
	Method     string `json:"method"`
	Variant    string `json:"variant"`
	Calls      int    `json:"calls"`
	Mismatches int    `json:"mismatches"`
	Panics     int    `json:"panics"`
	Sample     string `json:"sample,omitempty"`
	Skipped    string `json:"skipped,omitempty"`
}

func raceRun(sc raceScenario, goroutines, rounds int) raceResult {
	res := raceResult{Impl: sc.impl, Method: sc.method, Variant: sc.variant}
	var op func() string
	var want string
	if st := kc.Recover(func() string { op, want = sc.prepare(); return "" }); st != "" || op == nil {
		res.Skipped = "prepare failed or unsupported"
		return res
	}
	id := sc.impl + "|" + sc.method + "|" + sc.variant
	fmt.Fprintln(os.Stderr, "C20-BEGIN "+id)
	var mism, pan int64
	var sample atomic.Value
	var wg sync.WaitGroup
	start := make(chan struct{})
	for g := 0; g < goroutines; g++ {
		wg.Add(1)
		go func() {
			defer wg.Done()
			<-start
			for r := 0; r < rounds; r++ {
				got := kc.Recover(op)
				if got == "panic" {
					atomic.AddInt64(&pan, 1)
				} else if got != want {
					atomic.AddInt64(&mism, 1)
					sample.Store(got)
				}
			}
		}()
	}
	close(start)
	wg.Wait()
	fmt.Fprintln(os.Stderr, "C20-END "+id)
	res.Calls = goroutines * rounds
	res.Mismatches = int(mism)
	res.Panics = int(pan)
	if s, ok := sample.Load().(string); ok {
		res.Sample = "got " + decTrunc(s) + " want " + decTrunc(want)
	}
	return res
}

func rmar(p kyber.Point) string {
	b, err := p.MarshalBinary()
	if err != nil {
		return "marshal-err"
	}
	return kc.HexB(b)
}

func rsmar(s kyber.Scalar) string {
	b, err := s.MarshalBinary()
	if err != nil {
		return "marshal-err"
	}
	return kc.HexB(b)
}

// racePointScenarios: shared NON-NORMALISED points (sums of multiples, left in whatever internal
// coordinates the implementation uses). Every scenario builds its own shared objects, and the expected
// value from a second, identical construction, so that no earlier call has normalised the shared one.
func racePointScenarios(g *groups.G) []raceScenario {
	G := g.Group
	rng := kc.NewRng(20).Fork(g.Name)
	s1, s2, s3 := G.Scalar().Pick(rng), G.Scalar().Pick(rng), G.Scalar().Pick(rng)
	base := func() kyber.Point {
		if g.Name == "kilic-gt" { // GT.Base unsupported: use a pairing value
			if p := groups.Pairings(); len(p) > 0 {
				for _, ps := range p {
					if ps.GT == g {
						return ps.Suite.Pair(ps.G1.Group.Point().Base(), ps.G2.Group.Point().Base())
					}
				}
			}
		}
		return G.Point().Base()
	}
	mk := func() kyber.Point { // (s1 + s2)·B, built as a sum: projective / extended coordinates with Z ≠ 1
		return G.Point().Add(G.Point().Mul(s1, base()), G.Point().Mul(s2, base()))
	}
	mkQ := func() kyber.Point { return G.Point().Add(G.Point().Mul(s3, base()), G.Point().Mul(s1, base())) }
	sc := func(method string, f func(P, Q kyber.Point) string) raceScenario {
		return raceScenario{g.Name, "Point." + method, g.Name, func() (func() string, string) {
			P, Q := mk(), mkQ()
			want := f(mk(), mkQ())
			return func() string { return f(P, Q) }, want
		}}
	}
	out := []raceScenario{
		sc("MarshalBinary", func(P, _ kyber.Point) string { return rmar(P) }),
		sc("MarshalTo", func(P, _ kyber.Point) string {
			var buf bytes.Buffer
			if _, err := P.MarshalTo(&buf); err != nil {
				return "err"
			}
			return kc.HexB(buf.Bytes())
		}),
		sc("String", func(P, _ kyber.Point) string { return P.String() }),
		sc("Equal", func(P, Q kyber.Point) string { return fmt.Sprint(P.Equal(Q), P.Equal(P), Q.Equal(P)) }),
		sc("Clone", func(P, _ kyber.Point) string { return rmar(P.Clone()) }),
		sc("MarshalSize", func(P, _ kyber.Point) string { return fmt.Sprint(P.MarshalSize()) }),
		sc("operand:Add", func(P, Q kyber.Point) string { return rmar(G.Point().Add(P, Q)) }),
		sc("operand:Sub", func(P, Q kyber.Point) string { return rmar(G.Point().Sub(P, Q)) }),
		sc("operand:Neg", func(P, _ kyber.Point) string { return rmar(G.Point().Neg(P)) }),
		sc("operand:Mul", func(P, _ kyber.Point) string { return rmar(G.Point().Mul(s3, P)) }),
		sc("operand:Set", func(P, _ kyber.Point) string { return rmar(G.Point().Set(P)) }),
	}
	// all read-only uses of the same two shared points at once: each call picks the next operation, so that
	// one goroutine's Sub/Neg/Equal/… runs while others encode or read the same operands (a method that writes
	// to an operand for a moment and restores it is seen by the readers even where the write itself is
	// invisible to the race detector, e.g. in assembly)
	out = append(out, raceScenario{g.Name, "Point.mixed read-only use", g.Name, func() (func() string, string) {
		P, Q := mk(), mkQ()
		wP, wQ := mk(), mkQ()
		ops := []func(P, Q kyber.Point) string{
			func(P, Q kyber.Point) string { return rmar(Q) },
			func(P, Q kyber.Point) string { return rmar(G.Point().Sub(P, Q)) },
			func(P, Q kyber.Point) string { return rmar(G.Point().Add(P, Q)) },
			func(P, Q kyber.Point) string { return rmar(G.Point().Neg(Q)) },
			func(P, Q kyber.Point) string { return fmt.Sprint(Q.Equal(Q), P.Equal(Q)) },
			func(P, Q kyber.Point) string { return rmar(G.Point().Sub(Q, P)) },
			func(P, Q kyber.Point) string { return rmar(P) },
			func(P, Q kyber.Point) string { return rmar(G.Point().Mul(s3, Q)) },
		}
		want := make([]string, len(ops))
		for i, f := range ops {
			want[i] = f(wP, wQ)
		}
		var ctr int64
		return func() string {
			i := int(atomic.AddInt64(&ctr, 1)) % len(ops)
			return fmt.Sprint(ops[i](P, Q) == want[i])
		}, "true"
	}})
	if g.CanEmbed {
		data := []byte("C20 shared data")
		mkE := func() kyber.Point { return G.Point().Embed(data, kc.NewRng(99)) }
		out = append(out, raceScenario{g.Name, "Point.Data", g.Name, func() (func() string, string) {
			P := mkE()
			f := func(P kyber.Point) string {
				d, err := P.Data()
				if err != nil {
					return "err"
				}
				return kc.HexB(d)
			}
			want := f(mkE())
			return func() string { return f(P) }, want
		}})
	}
	return out
}

func raceScalarScenarios(g *groups.G) []raceScenario {
	G := g.Group
	rng := kc.NewRng(21).Fork(g.Name)
	a, b := G.Scalar().Pick(rng), G.Scalar().Pick(rng)
	mk := func() (kyber.Scalar, kyber.Scalar) {
		// values reached through arithmetic (not freshly decoded)
		x := G.Scalar().Add(G.Scalar().Mul(a, b), a)
		y := G.Scalar().Sub(G.Scalar().Mul(b, b), a)
		return x, y
	}
	sc := func(method string, f func(x, y kyber.Scalar) string) raceScenario {
		return raceScenario{g.Family, "Scalar." + method, g.Name, func() (func() string, string) {
			x, y := mk()
			wx, wy := mk()
			want := f(wx, wy)
			return func() string { return f(x, y) }, want
		}}
	}
	return []raceScenario{
		sc("MarshalBinary", func(x, _ kyber.Scalar) string { return rsmar(x) }),
		sc("MarshalTo", func(x, _ kyber.Scalar) string {
			var buf bytes.Buffer
			if _, err := x.MarshalTo(&buf); err != nil {
				return "err"
			}
			return kc.HexB(buf.Bytes())
		}),
		sc("String", func(x, _ kyber.Scalar) string { return x.String() }),
		sc("Equal", func(x, y kyber.Scalar) string { return fmt.Sprint(x.Equal(y), x.Equal(x)) }),
		sc("Clone", func(x, _ kyber.Scalar) string { return rsmar(x.Clone()) }),
		sc("operand:Add", func(x, y kyber.Scalar) string { return rsmar(G.Scalar().Add(x, y)) }),
		sc("operand:Sub", func(x, y kyber.Scalar) string { return rsmar(G.Scalar().Sub(x, y)) }),
		sc("operand:Neg", func(x, _ kyber.Scalar) string { return rsmar(G.Scalar().Neg(x)) }),
		sc("operand:Mul", func(x, y kyber.Scalar) string { return rsmar(G.Scalar().Mul(x, y)) }),
		sc("operand:Div", func(x, y kyber.Scalar) string { return rsmar(G.Scalar().Div(x, y)) }),
		sc("operand:Inv", func(x, _ kyber.Scalar) string { return rsmar(G.Scalar().Inv(x)) }),
		sc("operand:Set", func(x, _ kyber.Scalar) string { return rsmar(G.Scalar().Set(x)) }),
	}
}

type raceSuite interface {
	kyber.Group
	kyber.HashFactory
	kyber.XOFFactory
	kyber.Random
}

// freshSuite builds a new suite object of the named group, untouched by earlier scenarios (an accessor
// that caches on first use has then not been called yet when the goroutines start).
func freshSuite(gname string) raceSuite {
	switch gname {
	case "ed25519":
		return edwards25519.NewBlakeSHA256Ed25519()
	case "ed25519vt-proj":
		return edwards25519vartime.NewBlakeSHA256Ed25519(false)
	case "p256":
		return p256.NewBlakeSHA256P256()
	case "qr512":
		return p256.NewBlakeSHA256QR512()
	}
	return nil
}

func freshPairing(name string) pairing.Suite {
	switch name {
	case "bn256":
		return bn256.NewSuite()
	case "bn254":
		return bn254.NewSuite()
	case "kilic":
		return kilic.NewBLS12381Suite()
	case "circl":
		return circl.NewSuite()
	case "gnark":
		return gnark.NewSuite()
	}
	return nil
}

// raceSchemeScenarios: suites, pairings and scheme objects with shared keys.
func raceSchemeScenarios() []raceScenario {
	var out []raceScenario
	msg := []byte("C20 message")
	// suites: constructors, random stream, hash, xof
	for _, gname := range []string{"ed25519", "ed25519vt-proj", "p256", "qr512"} {
		g := groups.ByName(gname)
		if g == nil {
			continue
		}
		s, ok := g.Suite.(raceSuite)
		if !ok {
			continue
		}
		out = append(out,
			raceScenario{"suite", "Point/Scalar constructors", gname, func() (func() string, string) {
				s := freshSuite(gname) // a suite object nothing has used yet
				if s == nil {
					return nil, ""
				}
				return func() string {
					p, x := s.Point(), s.Scalar()
					p.Base()
					x.One()
					return rmar(p) + rsmar(x)
				}, rmar(s.Point().Base()) + rsmar(s.Scalar().One())
			}},
			raceScenario{"suite", "RandomStream.XORKeyStream", gname, func() (func() string, string) {
				rs := s.RandomStream() // ONE shared stream object
				return func() string {
					b := make([]byte, 48)
					rs.XORKeyStream(b, b)
					z := true
					for _, v := range b {
						if v != 0 {
							z = false
						}
					}
					return fmt.Sprint(len(b), z)
				}, "48 false"
			}},
			raceScenario{"suite", "RandomStream", gname, func() (func() string, string) {
				// every goroutine asks the shared (new) suite for its stream and draws from it
				s := freshSuite(gname)
				if s == nil {
					return nil, ""
				}
				return func() string {
					b := make([]byte, 24)
					s.RandomStream().XORKeyStream(b, b)
					z := true
					for _, v := range b {
						if v != 0 {
							z = false
						}
					}
					return fmt.Sprint(len(b), z)
				}, "24 false"
			}},
			raceScenario{"suite", "key.NewKeyPair", gname, func() (func() string, string) {
				s := freshSuite(gname)
				if s == nil {
					return nil, ""
				}
				return func() string {
					kp := key.NewKeyPair(s)
					return fmt.Sprint(kp.Public.Equal(s.Point().Mul(kp.Private, nil)))
				}, "true"
			}},
			raceScenario{"suite", "Hash", gname, func() (func() string, string) {
				s, w := freshSuite(gname), freshSuite(gname)
				if s == nil {
					return nil, ""
				}
				f := func(s raceSuite) string { h := s.Hash(); h.Write(msg); return kc.HexB(h.Sum(nil)) }
				return func() string { return f(s) }, f(w)
			}},
			raceScenario{"suite", "XOF", gname, func() (func() string, string) {
				s, w := freshSuite(gname), freshSuite(gname)
				if s == nil {
					return nil, ""
				}
				f := func(s raceSuite) string { x := s.XOF(msg); b := make([]byte, 32); x.Read(b); return kc.HexB(b) }
				return func() string { return f(s) }, f(w)
			}},
		)
	}
	// pairings
	for _, p := range groups.Pairings() {
		p := p
		rng := kc.NewRng(22).Fork(p.Name)
		a, b := p.G1.Group.Scalar().Pick(rng), p.G1.Group.Scalar().Pick(rng)
		mk := func() (kyber.Point, kyber.Point) {
			P1 := p.G1.Group.Point().Add(p.G1.Group.Point().Mul(a, nil), p.G1.Group.Point().Mul(b, nil))
			P2 := p.G2.Group.Point().Add(p.G2.Group.Point().Mul(b, nil), p.G2.Group.Point().Mul(a, nil))
			return P1, P2
		}
		out = append(out, raceScenario{"pairing-" + p.Name, "Pair", p.Name, func() (func() string, string) {
			P1, P2 := mk()
			w1, w2 := mk()
			want := rmar(p.Suite.Pair(w1, w2))
			return func() string { return rmar(p.Suite.Pair(P1, P2)) }, want
		}})
		out = append(out, raceScenario{"pairing-" + p.Name, "ValidatePairing", p.Name, func() (func() string, string) {
			P1, P2 := mk()
			// e(P1, B2) == e(B1, (a+b)·B2)
			s := p.G1.Group.Scalar().Add(a, b)
			Q2 := p.G2.Group.Point().Mul(s, nil)
			B1, B2 := p.G1.Group.Point().Base(), p.G2.Group.Point().Base()
			_ = P2
			f := func() string { return fmt.Sprint(p.Suite.ValidatePairing(P1, B2, B1, Q2)) }
			return f, "true"
		}})
		// BLS with a shared public key and shared suite
		out = append(out, raceScenario{"bls", "Verify", p.Name, func() (func() string, string) {
			scheme := bls.NewSchemeOnG1(p.Suite)
			priv, pub := scheme.NewKeyPair(kc.NewRng(23))
			sig, err := scheme.Sign(priv, msg)
			if err != nil {
				return nil, ""
			}
			// a public key left in non-normalised coordinates
			pub2 := p.G2.Group.Point().Add(pub, p.G2.Group.Point().Null())
			return func() string { return fmt.Sprint(scheme.Verify(pub2, msg, sig) == nil) }, "true"
		}})
	}
	// a pairing suite nothing has used yet: its accessors, constructors and the first pairings run concurrently
	for _, p := range groups.Pairings() {
		p := p
		out = append(out, raceScenario{"pairing-" + p.Name, "Suite accessors", p.Name, func() (func() string, string) {
			s, w := freshPairing(p.Name), freshPairing(p.Name)
			if s == nil || w == nil {
				return nil, ""
			}
			f := func(s pairing.Suite) string {
				b1, b2 := s.G1().Point().Base(), s.G2().Point().Base()
				e := s.Pair(b1, b2)
				return rmar(b1) + rmar(b2) + rmar(e) + rmar(s.GT().Point().Null()) + rsmar(s.G1().Scalar().One())
			}
			return func() string { return f(s) }, f(w)
		}})
	}
	// suites whose hash-to-curve tags were configured by the caller (lengths that are and are not allocation
	// size classes, tags handed over in a buffer with spare capacity): hashing and BLS on the shared suite
	for _, pn := range []string{"bn254", "kilic"} {
		pn := pn
		if freshPairing(pn) == nil {
			continue
		}
		out = append(out, raceScenario{"pairing-" + pn, "Hash/BLS on a suite with configured tags", pn, func() (func() string, string) {
			mk := func() []pairing.Suite {
				var ss []pairing.Suite
				for _, l := range []int{1, 16, 20, 33, 43, 51, 100} {
					d1 := make([]byte, l, l+24)
					d2 := make([]byte, l, l+24)
					for i := range d1 {
						d1[i], d2[i] = byte('a'+i%26), byte('A'+i%26)
					}
					switch pn {
					case "bn254":
						s := bn254.NewSuite()
						s.SetDomainG1(d1)
						s.SetDomainG2(d2)
						ss = append(ss, s)
					case "kilic":
						ss = append(ss, kilic.NewBLS12381SuiteWithDST(d1, d2))
					}
				}
				return ss
			}
			f := func(ss []pairing.Suite) string {
				var sb strings.Builder
				for _, s := range ss {
					h1, ok1 := s.G1().Point().(kyber.HashablePoint)
					if ok1 {
						sb.WriteString(rmar(h1.Hash(msg)))
					}
					if h2, ok := s.G2().Point().(kyber.HashablePoint); ok {
						sb.WriteString(rmar(h2.Hash(msg)))
					}
					scheme := bls.NewSchemeOnG1(s)
					priv, pub := scheme.NewKeyPair(kc.NewRng(29))
					sig, err := scheme.Sign(priv, msg)
					sb.WriteString(kc.HexB(sig) + fmt.Sprint(err == nil && scheme.Verify(pub, msg, sig) == nil))
				}
				return sb.String()
			}
			shared, sep := mk(), mk()
			return func() string { return f(shared) }, f(sep)
		}})
	}
	// BDN mask clone on a shared mask
	if ps := groups.Pairings(); len(ps) > 0 {
		p := ps[0]
		out = append(out, raceScenario{"bdn", "Mask.Clone", p.Name, func() (func() string, string) {
			var pubs []kyber.Point
			for i := 0; i < 5; i++ {
				pubs = append(pubs, p.G2.Group.Point().Mul(p.G2.Group.Scalar().Pick(kc.NewRng(uint64(30+i))), nil))
			}
			m, err := bdn.NewMask(p.G2.Group, pubs, nil)
			if err != nil {
				return nil, ""
			}
			m.SetBit(1, true)
			m.SetBit(3, true)
			w, err := bdn.NewMask(p.G2.Group, pubs, nil)
			if err != nil {
				return nil, ""
			}
			w.SetBit(1, true)
			w.SetBit(3, true)
			f := func(m *bdn.Mask) string {
				c := m.Clone()
				return kc.HexB(c.Mask()) + fmt.Sprint(c.CountEnabled())
			}
			return func() string { return f(m) }, f(w)
		}})
	}
	// BDN: clones of one shared mask, each with its own bits, aggregated concurrently
	for _, p := range groups.Pairings() {
		p := p
		out = append(out, raceScenario{"bdn", "Mask.Clone+AggregatePublicKeys", p.Name, func() (func() string, string) {
			var pubs []kyber.Point
			for i := 0; i < 5; i++ {
				pubs = append(pubs, p.G2.Group.Point().Mul(p.G2.Group.Scalar().Pick(kc.NewRng(uint64(40+i))), nil))
			}
			base, err := bdn.NewMask(p.G2.Group, pubs, nil)
			ref, err2 := bdn.NewMask(p.G2.Group, pubs, nil)
			if err != nil || err2 != nil {
				return nil, ""
			}
			base.SetBit(0, true)
			ref.SetBit(0, true)
			scheme := bdn.NewSchemeOnG1(p.Suite)
			agg := func(m *bdn.Mask, k int) string {
				c := m.Clone()
				c.SetBit(1+k%4, true)
				c.SetBit(1+(k+1)%4, true)
				a, err := scheme.AggregatePublicKeys(c)
				if err != nil {
					return "err"
				}
				return rmar(a)
			}
			// expected values from a second mask object: the shared one is first used by the goroutines
			var want [4]string
			for k := range want {
				want[k] = agg(ref, k)
			}
			var ctr int64
			return func() string {
				k := int(atomic.AddInt64(&ctr, 1) % 4)
				return fmt.Sprint(agg(base, k) == want[k])
			}, "true"
		}})
	}
	// Schnorr / EdDSA / CoSi with shared keys
	for _, gname := range []string{"ed25519", "ed25519vt-proj", "p256", "bn256-g1"} {
		g := groups.ByName(gname)
		if g == nil {
			continue
		}
		out = append(out, raceScenario{"schnorr", "Verify", gname, func() (func() string, string) {
			suite := &decSuite{Group: g.Group, rnd: kc.NewRng(24)}
			priv := g.Group.Scalar().Pick(kc.NewRng(25))
			// the shared public key is a sum: not normalised
			pub := g.Group.Point().Add(g.Group.Point().Mul(priv, nil), g.Group.Point().Null())
			sig, err := schnorr.Sign(suite, priv, msg)
			if err != nil {
				return nil, ""
			}
			return func() string { return fmt.Sprint(schnorr.Verify(g.Group, pub, msg, sig) == nil) }, "true"
		}})
	}
	// ring signatures: the anonymity set (the members' public keys) and the signature are shared; verification
	// (unlinkable and linkable) and signing by one member run concurrently
	for _, gname := range []string{"ed25519", "ed25519-allowvt", "p256"} {
		gname := gname
		g := groups.ByName(gname)
		if g == nil {
			continue
		}
		as, ok := g.Suite.(anon.Suite)
		if !ok {
			continue
		}
		for _, linked := range []bool{false, true} {
			linked := linked
			method := "Verify"
			if linked {
				method = "Verify (linkable)"
			}
			out = append(out, raceScenario{"anon", method, gname, func() (func() string, string) {
				var scope []byte
				if linked {
					scope = []byte("C20 scope")
				}
				mk := func() (anon.Set, []byte, kyber.Scalar) {
					var set anon.Set
					var mine kyber.Scalar
					for i := 0; i < 3; i++ {
						x := g.Group.Scalar().Pick(kc.NewRng(uint64(40 + i)))
						// members' keys as they come out of arithmetic (not normalised)
						set = append(set, g.Group.Point().Add(g.Group.Point().Mul(x, nil), g.Group.Point().Null()))
						if i == 1 {
							mine = x
						}
					}
					return set, anon.Sign(as, msg, set, scope, 1, mine), mine
				}
				set, sig, mine := mk()
				wset, wsig, _ := mk()
				f := func(set anon.Set, sig []byte) string {
					tag, err := anon.Verify(as, msg, set, scope, sig)
					s2 := anon.Sign(as, msg, set, scope, 1, mine)
					_, err2 := anon.Verify(as, msg, set, scope, s2)
					return fmt.Sprint(err == nil, err2 == nil, kc.HexB(tag))
				}
				return func() string { return f(set, sig) }, f(wset, wsig)
			}})
		}
	}
	out = append(out, raceScenario{"eddsa", "Verify", "ed25519", func() (func() string, string) {
		e := eddsa.NewEdDSA(kc.NewRng(26))
		sig, err := e.Sign(msg)
		if err != nil {
			return nil, ""
		}
		return func() string { return fmt.Sprint(eddsa.Verify(e.Public, msg, sig) == nil) }, "true"
	}})
	for _, gname := range []string{"ed25519", "ed25519vt-proj"} {
		g := groups.ByName(gname)
		if g == nil {
			continue
		}
		out = append(out, raceScenario{"cosi", "Verify", gname, func() (func() string, string) {
			suite := &decSuite{Group: g.Group, rnd: kc.NewRng(27)}
			n := 3
			privs := make([]kyber.Scalar, n)
			pubs := make([]kyber.Point, n)
			for i := range privs {
				privs[i] = g.Group.Scalar().Pick(kc.NewRng(uint64(40 + i)))
				pubs[i] = g.Group.Point().Mul(privs[i], nil)
			}
			var bm [][]byte
			vs := make([]kyber.Scalar, n)
			Vs := make([]kyber.Point, n)
			for i := range privs {
				m, err := cosi.NewMask(suite, pubs, pubs[i])
				if err != nil {
					return nil, ""
				}
				bm = append(bm, m.Mask())
				vs[i], Vs[i] = cosi.Commit(suite)
			}
			aggV, aggMask, err := cosi.AggregateCommitments(suite, Vs, bm)
			if err != nil {
				return nil, ""
			}
			full, _ := cosi.NewMask(suite, pubs, nil)
			full.SetMask(aggMask)
			ch, _ := cosi.Challenge(suite, aggV, full.AggregatePublic, msg)
			rs := make([]kyber.Scalar, n)
			for i := range privs {
				rs[i], _ = cosi.Response(suite, privs[i], vs[i], ch)
			}
			aggR, _ := cosi.AggregateResponses(suite, rs)
			sig, err := cosi.Sign(suite, aggV, aggR, full)
			if err != nil {
				return nil, ""
			}
			return func() string { return fmt.Sprint(cosi.Verify(suite, pubs, msg, sig, nil) == nil) }, "true"
		}})
	}
	// public polynomials
	for _, gname := range []string{"ed25519", "ed25519vt-ext", "p256", "bn256-g1"} {
		g := groups.ByName(gname)
		if g == nil {
			continue
		}
		mkPoly := func() (*share.PriPoly, *share.PubPoly) {
			pri := share.NewPriPoly(g.Group, 3, nil, kc.NewRng(28))
			return pri, pri.Commit(nil)
		}
		out = append(out,
			raceScenario{"share", "PubPoly.Eval", gname, func() (func() string, string) {
				_, pub := mkPoly()
				_, w := mkPoly()
				f := func(p *share.PubPoly) string { return rmar(p.Eval(2).V) }
				want := f(w)
				return func() string { return f(pub) }, want
			}},
			raceScenario{"share", "PubPoly.Check", gname, func() (func() string, string) {
				pri, pub := mkPoly()
				sh := pri.Eval(1)
				return func() string { return fmt.Sprint(pub.Check(sh)) }, "true"
			}},
			raceScenario{"share", "PubPoly.Commit", gname, func() (func() string, string) {
				_, pub := mkPoly()
				_, w := mkPoly()
				return func() string { return rmar(pub.Commit()) }, rmar(w.Commit())
			}},
		)
	}
	// proof.HashVerify with shared public points
	for _, gname := range []string{"ed25519", "ed25519vt-proj"} {
		g := groups.ByName(gname)
		if g == nil {
			continue
		}
		out = append(out, raceScenario{"proof", "HashVerify", gname, func() (func() string, string) {
			suite := &decSuite{Group: g.Group, rnd: kc.NewRng(29)}
			x := g.Group.Scalar().Pick(kc.NewRng(31))
			B := g.Group.Point().Base()
			X := g.Group.Point().Add(g.Group.Point().Mul(x, nil), g.Group.Point().Null())
			pred := proof.Rep("X", "x", "B")
			pub := map[string]kyber.Point{"B": B, "X": X}
			pf, err := proof.HashProve(suite, "C20", pred.Prover(suite, map[string]kyber.Scalar{"x": x}, pub, nil))
			if err != nil {
				return nil, ""
			}
			return func() string {
				vs := &decSuite{Group: g.Group, rnd: kc.NewRng(32)}
				return fmt.Sprint(proof.HashVerify(vs, "C20", pred.Verifier(vs, pub), pf) == nil)
			}, "true"
		}})
	}
	return out
}

var _ pairing.Suite
