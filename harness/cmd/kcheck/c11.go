package main

// C11 — DKG (Pedersen, incl. resharing and fast-sync): honest parties agree on key, QUAL and
// consistent shares despite faults. In-process networks of real DistKeyGenerator objects; every
// participant's outputs AND internal state are compared with the Lean model `Kyber.Dkg`
// (Proto/Dkg.lean) after every call; the property's own predicates (agreement, shares on the
// polynomial, any t recover, key = sum of qualified contributions / unchanged after resharing,
// qualification rules, honest runs complete) are evaluated on the real outputs.

import (
	"bytes"
	"crypto/sha256"
	"errors"
	"fmt"
	"math/big"
	"sort"
	"strings"

	"go.dedis.ch/kyber/v4"
	"go.dedis.ch/kyber/v4/encrypt/ecies"
	"go.dedis.ch/kyber/v4/group/edwards25519"
	"go.dedis.ch/kyber/v4/share"
	dkg "go.dedis.ch/kyber/v4/share/dkg/pedersen"

	"verifharness/internal/dlgroup"
	"verifharness/internal/kc"
)

func c10SuiteEd(rng *kc.Rng) (*big.Int, vssSuite, string) {
	return dlgroup.L, edwards25519.NewBlakeSHA256Ed25519WithRand(rng), "ed25519"
}

// fault behaviours of one faulty party (deal phase / response phase / justification phase)
var c11DealFaults = []string{"none", "absent", "badShare", "misdirect", "wrongThreshold", "wrongSid", "dupBundle", "conflict", "badCommit", "unknownHolder", "badShareAll", "unknownHolderMid", "wrongReshare", "nonScalarShare"}
var c11RespFaults = []string{"none", "falseComplaint", "noResponse", "successStatus", "unknownDealer", "wrongSid", "dupBundle"}
var c11JustFaults = []string{"none", "badJust", "noJust", "wrongSid", "dupBundle", "unknownHolder", "unsolicitedWrongSid", "unsolicitedBadShare"}

type c11Fault struct{ deal, resp, just int }

func (f c11Fault) String() string {
	return c11DealFaults[f.deal] + "/" + c11RespFaults[f.resp] + "/" + c11JustFaults[f.just]
}
func (f c11Fault) honest() bool { return f.deal == 0 && f.resp == 0 && f.just == 0 }

type c11Spec struct {
	mock                bool
	n                   int
	t                   int
	fast                bool
	skipIdx             bool
	faults              map[int]c11Fault // position in the dealer list -> fault
	rawLists            bool             // deliver duplicates/conflicts as they are (no de-duplication by the sender set)
	reshare             string           // "" | same | overlap | disjoint | grow | shrink
	newT                int
	rfaults             map[int]c11Fault // faults in the resharing round (position in the old list)
	leaveFalseComplaint bool
}

func (s *c11Spec) String() string {
	var fs []string
	var ks []int
	for k := range s.faults {
		ks = append(ks, k)
	}
	sort.Ints(ks)
	for _, k := range ks {
		fs = append(fs, fmt.Sprintf("%d:%s", k, s.faults[k]))
	}
	var rs []string
	ks = nil
	for k := range s.rfaults {
		ks = append(ks, k)
	}
	sort.Ints(ks)
	for _, k := range ks {
		rs = append(rs, fmt.Sprintf("%d:%s", k, s.rfaults[k]))
	}
	return fmt.Sprintf("mock=%v n=%d t=%d fast=%v skip=%v faults=%v raw=%v reshare=%q newT=%d rfaults=%v", s.mock, s.n, s.t, s.fast, s.skipIdx, fs, s.rawLists, s.reshare, s.newT, rs)
}

type c11Round struct {
	c             *kc.Ctx
	w             *dkgWorld
	g             *dkgGroupSpec
	nodes         []*dkgNode // every party of the round (old ∪ new), dealers first in old order
	faults        map[*dkgNode]c11Fault
	rng           *kc.Rng
	desc          string
	raw           bool
	vkeys         []string
	targetLeaving bool // a false complaint is aimed at a dealer that leaves the group
}

func (r *c11Round) violation(key, what string, nd *dkgNode) {
	rp := map[string]any{"scenario": r.desc, "group": r.w.gname}
	if nd != nil {
		rp["node"] = nd.name
		rp["model_line"] = nd.line()
		rp["impl"] = nd.impl
	}
	r.vkeys = append(r.vkeys, key)
	r.c.Violation(key, what, rp)
}

func errClass(err error) string {
	if err == nil {
		return ""
	}
	var pe *dkg.PhaseError
	switch {
	case errors.Is(err, dkg.ErrEvicted):
		return "evicted"
	case errors.As(err, &pe), strings.Contains(err.Error(), "can only process justifications"), strings.Contains(err.Error(), "processdeals can only"):
		return "err" // called in the wrong phase
	case strings.Contains(err.Error(), "dkg abort"):
		return "abort"
	}
	return "fail" // computeResult could not produce a result
}

// encryptShare re-encrypts a share value for a holder key.
func (r *c11Round) encryptShare(v *big.Int, pub kyber.Point) []byte {
	msg, _ := big2sc(r.w.suite, r.w.q, v).MarshalBinary()
	ct, err := ecies.Encrypt(r.w.suite, pub, msg, sha256.New)
	if err != nil {
		panic(err)
	}
	return ct
}

func (r *c11Round) sign(n *dkgNode, p dkg.Packet) []byte {
	h, _ := p.Hash()
	sig, _ := n.conf.Auth.Sign(n.party.long, h)
	return sig
}

// run plays the three phases through the real objects.
func (r *c11Round) run() {
	w, g := r.w, r.g
	holders := g.newParties
	victimOf := func(n *dkgNode) uint32 { // an honest holder other than n
		var cand []uint32
		for _, x := range r.nodes {
			if x != n && x.inNew && !x.faulty {
				cand = append(cand, x.nidx)
			}
		}
		if len(cand) == 0 {
			return g.new[0].Index
		}
		return cand[r.rng.Intn(len(cand))]
	}
	// ---- deals
	var dealMsgs []*dkg.DealBundle
	for _, n := range r.nodes {
		canIssue := n.field("canIssue").Bool()
		f := r.faults[n]
		if !canIssue {
			continue
		}
		if c11DealFaults[f.deal] == "absent" {
			continue
		}
		b, err := n.gen.Deals()
		if err != nil {
			n.rec("D", "err", nil)
			continue
		}
		tok, ok := w.dealBundleTok(b, holders, true)
		if !ok {
			r.c.Unshown("harness:c11", "unknown logarithm in own deal bundle", r.desc)
			return
		}
		n.rec("D", "deals:"+tok, b)
		out := []*dkg.DealBundle{copyDealBundle(b)}
		m := out[0]
		dp := n.dpriv()
		shareFor := func(idx uint32) *big.Int {
			pp := share.CoefficientsToPriPoly(w.suite, dp)
			return sc2big(pp.Eval(idx).V)
		}
		setDeal := func(bb *dkg.DealBundle, idx uint32, ct []byte) {
			for k := range bb.Deals {
				if bb.Deals[k].ShareIndex == idx {
					bb.Deals[k].EncryptedShare = ct
				}
			}
		}
		switch c11DealFaults[f.deal] {
		case "badShare":
			v := victimOf(n)
			setDeal(m, v, r.encryptShare(addMod(shareFor(v), 1, w.q), holders[v].pub))
		case "badShareAll":
			for _, h := range g.new {
				if n.inNew && h.Index == n.nidx {
					continue
				}
				setDeal(m, h.Index, r.encryptShare(addMod(shareFor(h.Index), 2, w.q), holders[h.Index].pub))
			}
		case "misdirect":
			v := victimOf(n)
			setDeal(m, v, r.encryptShare(shareFor(v), n.party.pub))
		case "nonScalarShare":
			// an authentic ciphertext for one honest holder whose plaintext is not a scalar encoding (too short, or
			// 0xff…ff): it opens, but gives no share - the holder has to complain like for any other invalid share
			v := victimOf(n)
			pt := bytes.Repeat([]byte{0xff}, w.suite.ScalarLen())
			if r.rng.Bool() {
				pt = r.rng.Bytes(w.suite.ScalarLen() - 1)
			}
			ct, err := ecies.Encrypt(w.suite, holders[v].pub, pt, sha256.New)
			if err != nil {
				panic(err)
			}
			setDeal(m, v, ct)
		case "wrongThreshold":
			if r.rng.Bool() {
				m.Public = m.Public[:len(m.Public)-1]
			} else {
				m.Public = append(m.Public, w.pointOf(big.NewInt(7)))
			}
		case "wrongSid":
			m.SessionID = append([]byte{m.SessionID[0] ^ 0x80}, m.SessionID[1:]...)
		case "dupBundle":
			out = append(out, copyDealBundle(m))
		case "conflict":
			c2 := copyDealBundle(m)
			v := victimOf(n)
			setDeal(c2, v, r.encryptShare(addMod(shareFor(v), 5, w.q), holders[v].pub))
			out = append(out, c2)
		case "badCommit":
			k := len(m.Public) - 1
			lg, _ := w.logOf(m.Public[k])
			m.Public[k] = w.pointOf(addMod(lg, 1, w.q))
		case "wrongReshare":
			// a self-consistent deal of a polynomial with another free coefficient: harmless in a fresh run (the
			// dealer simply contributes another secret); in a resharing the dealer does not reshare its old share
			// and every member of the new group - holding an old share or not - has to drop it
			if g.resharing {
				lg, _ := w.logOf(m.Public[0])
				m.Public[0] = w.pointOf(addMod(lg, 1, w.q))
				for _, h := range g.new {
					setDeal(m, h.Index, r.encryptShare(addMod(shareFor(h.Index), 1, w.q), holders[h.Index].pub))
				}
			}
		case "unknownHolder":
			m.Deals = append(m.Deals, dkg.Deal{ShareIndex: 1000 + uint32(r.rng.Intn(5)), EncryptedShare: []byte{1, 2, 3}})
		case "unknownHolderMid":
			// a deal for an unknown holder in the MIDDLE of the list: receivers whose deal comes later never see it
			// (Hash() sorts the deals by share index, so the index must fall into a gap of the new group's indices)
			bogus := uint32(1000)
			var idxs []uint32
			for _, h := range g.new {
				idxs = append(idxs, h.Index)
			}
			for _, x := range idxs[:len(idxs)-1] {
				free := true
				for _, y := range idxs {
					if y == x+1 {
						free = false
					}
				}
				if free && r.rng.Intn(2) == 0 {
					bogus = x + 1
				}
			}
			k := len(m.Deals)
			for i, dl := range m.Deals {
				if dl.ShareIndex > bogus {
					k = i
					break
				}
			}
			nd := append([]dkg.Deal{}, m.Deals[:k]...)
			nd = append(nd, dkg.Deal{ShareIndex: bogus, EncryptedShare: []byte{1, 2, 3}})
			m.Deals = append(nd, m.Deals[k:]...)
		}
		for _, x := range out {
			x.Signature = r.sign(n, x)
		}
		dealMsgs = append(dealMsgs, out...)
	}
	deliverDeals := r.dedupDeals(dealMsgs)
	// ---- process deals -> responses
	var respMsgs []*dkg.ResponseBundle
	for _, n := range r.nodes {
		f := r.faults[n]
		if c11DealFaults[f.deal] == "absent" {
			continue
		}
		lst := make([]*dkg.DealBundle, len(deliverDeals))
		var toks []string
		for i, k := range rngPerm(r.rng, len(deliverDeals)) {
			lst[i] = copyDealBundle(deliverDeals[k])
			t, ok := w.dealBundleTok(lst[i], holders, false)
			if !ok {
				r.c.Unshown("harness:c11", "unknown logarithm in delivered deal bundle", r.desc)
				return
			}
			toks = append(toks, t)
		}
		resp, err := n.gen.ProcessDeals(lst)
		call := "PD:" + joinOrDash(toks, "|")
		switch {
		case err != nil:
			n.rec(call, "err", nil)
			n.lastErr = err.Error()
			continue
		case resp == nil:
			n.rec(call, "resp:nil", nil)
		default:
			n.rec(call, "resp:"+w.respBundleTok(resp, true), resp)
		}
		var out []*dkg.ResponseBundle
		if resp != nil {
			out = append(out, copyRespBundle(resp))
		}
		dealerIdxs := nodeIdxSorted(g.old)
		switch c11RespFaults[f.resp] {
		case "falseComplaint":
			if n.inNew {
				if len(out) == 0 {
					out = append(out, &dkg.ResponseBundle{ShareIndex: n.nidx, SessionID: g.nonce})
				}
				d := dealerIdxs[r.rng.Intn(len(dealerIdxs))]
				if r.targetLeaving {
					for _, x := range r.nodes {
						if x.inOld && !x.inNew && !x.faulty {
							d = x.oidx
						}
					}
				}
				found := false
				for k := range out[0].Responses {
					if out[0].Responses[k].DealerIndex == d {
						out[0].Responses[k].Status = dkg.Complaint
						found = true
					}
				}
				if !found {
					out[0].Responses = append(out[0].Responses, dkg.Response{DealerIndex: d, Status: dkg.Complaint})
				}
			}
		case "noResponse":
			out = nil
		case "successStatus":
			if n.inNew {
				if len(out) == 0 {
					out = append(out, &dkg.ResponseBundle{ShareIndex: n.nidx, SessionID: g.nonce})
				}
				out[0].Responses = append(out[0].Responses, dkg.Response{DealerIndex: dealerIdxs[0], Status: dkg.Success})
			}
		case "unknownDealer":
			if n.inNew {
				if len(out) == 0 {
					out = append(out, &dkg.ResponseBundle{ShareIndex: n.nidx, SessionID: g.nonce})
				}
				out[0].Responses = append(out[0].Responses, dkg.Response{DealerIndex: 1000, Status: dkg.Complaint})
			}
		case "wrongSid":
			if len(out) > 0 {
				out[0].SessionID = append([]byte{out[0].SessionID[0] ^ 0x40}, out[0].SessionID[1:]...)
			}
		case "dupBundle":
			if len(out) > 0 {
				out = append(out, copyRespBundle(out[0]))
			}
		}
		for _, x := range out {
			x.Signature = r.sign(n, x)
		}
		respMsgs = append(respMsgs, out...)
	}
	deliverResps := r.dedupResps(respMsgs)
	// ---- process responses -> results / justifications
	var justMsgs []*dkg.JustificationBundle
	for _, n := range r.nodes {
		f := r.faults[n]
		if c11DealFaults[f.deal] == "absent" {
			continue
		}
		lst := make([]*dkg.ResponseBundle, len(deliverResps))
		var toks []string
		for i, k := range rngPerm(r.rng, len(deliverResps)) {
			lst[i] = copyRespBundle(deliverResps[k])
			toks = append(toks, w.respBundleTok(lst[i], false))
		}
		res, just, err := n.gen.ProcessResponses(lst)
		call := "PR:" + joinOrDash(toks, "|")
		switch {
		case err != nil:
			cl := errClass(err)
			n.rec(call, cl, nil)
			n.lastErr = err.Error()
			if cl == "evicted" || cl == "fail" {
				n.finished = true
			}
			continue
		case res != nil:
			n.rec(call, w.resultTok(res), res)
			n.result, n.finished = res, true
		case just != nil:
			n.rec(call, "just:"+w.justBundleTok(just, true), just)
		default:
			if n.field("state").Int() == int64(dkg.FinishPhase) {
				n.rec(call, "done", nil)
				n.finished = true
			} else {
				n.rec(call, "just:nil", nil)
			}
		}
		var out []*dkg.JustificationBundle
		if just != nil {
			out = append(out, copyJustBundle(just))
		}
		switch c11JustFaults[f.just] {
		case "badJust":
			if len(out) > 0 && len(out[0].Justifications) > 0 {
				j := &out[0].Justifications[0]
				j.Share = big2sc(w.suite, w.q, addMod(sc2big(j.Share), 1, w.q))
			}
		case "noJust":
			out = nil
		case "wrongSid":
			if len(out) > 0 {
				out[0].SessionID = append([]byte{out[0].SessionID[0] ^ 0x20}, out[0].SessionID[1:]...)
			}
		case "dupBundle":
			if len(out) > 0 {
				out = append(out, copyJustBundle(out[0]))
			}
		case "unknownHolder":
			if len(out) > 0 {
				out[0].Justifications = append(out[0].Justifications, dkg.Justification{ShareIndex: 2000, Share: w.suite.Scalar().One()})
			}
		case "unsolicitedWrongSid", "unsolicitedBadShare":
			// a justification bundle nobody asked for (the dealer is a dealer of this round)
			if n.field("canIssue").Bool() {
				if len(out) == 0 {
					out = append(out, &dkg.JustificationBundle{DealerIndex: n.oidx, SessionID: append([]byte{}, g.nonce...)})
				}
				if c11JustFaults[f.just] == "unsolicitedWrongSid" {
					out[0].SessionID = append([]byte{out[0].SessionID[0] ^ 0x10}, out[0].SessionID[1:]...)
				} else {
					out[0].Justifications = append(out[0].Justifications, dkg.Justification{ShareIndex: g.new[0].Index, Share: w.suite.Scalar().One()})
				}
			}
		}
		for _, x := range out {
			x.Signature = r.sign(n, x)
		}
		justMsgs = append(justMsgs, out...)
	}
	deliverJusts := r.dedupJusts(justMsgs)
	// ---- process justifications
	for _, n := range r.nodes {
		f := r.faults[n]
		if c11DealFaults[f.deal] == "absent" || n.finished {
			continue
		}
		if n.field("state").Int() != int64(dkg.JustifPhase) {
			continue
		}
		lst := make([]*dkg.JustificationBundle, len(deliverJusts))
		var toks []string
		for i, k := range rngPerm(r.rng, len(deliverJusts)) {
			lst[i] = copyJustBundle(deliverJusts[k])
			toks = append(toks, w.justBundleTok(lst[i], false))
		}
		res, err := n.gen.ProcessJustifications(lst)
		call := "PJ:" + joinOrDash(toks, "|")
		switch {
		case err != nil:
			cl := errClass(err)
			n.rec(call, cl, nil)
			n.lastErr = err.Error()
		case res != nil:
			n.rec(call, w.resultTok(res), res)
			n.result = res
		default:
			n.rec(call, "nothing", nil)
		}
		n.finished = true
	}
}

func joinOrDash(l []string, sep string) string {
	if len(l) == 0 {
		return "-"
	}
	return strings.Join(l, sep)
}

// dedup*: what the senders' broadcasts look like to a receiver. With raw lists the duplicates and
// conflicting bundles are handed to Process* as they are (the DKG object's own seen-maps decide);
// otherwise the receiver-side `set` of the Protocol layer is emulated: identical packets collapse,
// a sender with two different packets is dropped.
func (r *c11Round) dedupDeals(ms []*dkg.DealBundle) []*dkg.DealBundle {
	if r.raw {
		return ms
	}
	by := map[uint32][]*dkg.DealBundle{}
	var order []uint32
	for _, m := range ms {
		if _, ok := by[m.DealerIndex]; !ok {
			order = append(order, m.DealerIndex)
		}
		by[m.DealerIndex] = append(by[m.DealerIndex], m)
	}
	var out []*dkg.DealBundle
	for _, k := range order {
		h0, _ := copyDealBundle(by[k][0]).Hash()
		same := true
		for _, m := range by[k][1:] {
			h, _ := copyDealBundle(m).Hash()
			if string(h) != string(h0) {
				same = false
			}
		}
		if same {
			out = append(out, by[k][0])
		}
	}
	return out
}

func (r *c11Round) dedupResps(ms []*dkg.ResponseBundle) []*dkg.ResponseBundle {
	if r.raw {
		return ms
	}
	by := map[uint32][]*dkg.ResponseBundle{}
	var order []uint32
	for _, m := range ms {
		if _, ok := by[m.ShareIndex]; !ok {
			order = append(order, m.ShareIndex)
		}
		by[m.ShareIndex] = append(by[m.ShareIndex], m)
	}
	var out []*dkg.ResponseBundle
	for _, k := range order {
		h0, _ := copyRespBundle(by[k][0]).Hash()
		same := true
		for _, m := range by[k][1:] {
			h, _ := copyRespBundle(m).Hash()
			if string(h) != string(h0) {
				same = false
			}
		}
		if same {
			out = append(out, by[k][0])
		}
	}
	return out
}

func (r *c11Round) dedupJusts(ms []*dkg.JustificationBundle) []*dkg.JustificationBundle {
	if r.raw {
		return ms
	}
	by := map[uint32][]*dkg.JustificationBundle{}
	var order []uint32
	for _, m := range ms {
		if _, ok := by[m.DealerIndex]; !ok {
			order = append(order, m.DealerIndex)
		}
		by[m.DealerIndex] = append(by[m.DealerIndex], m)
	}
	var out []*dkg.JustificationBundle
	for _, k := range order {
		h0, _ := copyJustBundle(by[k][0]).Hash()
		same := true
		for _, m := range by[k][1:] {
			h, _ := copyJustBundle(m).Hash()
			if string(h) != string(h0) {
				same = false
			}
		}
		if same {
			out = append(out, by[k][0])
		}
	}
	return out
}
