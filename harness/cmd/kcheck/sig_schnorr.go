package main

// C08, Schnorr part: sign/schnorr on every group instance (property predicates on the real code) and on
// the mock discrete-log group (exact correspondence with Proto/Schnorr.lean).

import (
	"crypto/sha512"
	"fmt"
	"math/big"

	"go.dedis.ch/kyber/v4"
	"go.dedis.ch/kyber/v4/sign/schnorr"

	"verifharness/internal/dlgroup"
	"verifharness/internal/groups"
	"verifharness/internal/kc"
)

// semEqualSig reports whether two signatures decode to the same (R, s) in group g.
func semEqualSig(g kyber.Group, a, b []byte) bool {
	pl, sl := g.Point().MarshalSize(), g.Scalar().MarshalSize()
	if len(a) != pl+sl || len(b) != pl+sl {
		return false
	}
	Ra, Rb := g.Point(), g.Point()
	sa, sb := g.Scalar(), g.Scalar()
	if Ra.UnmarshalBinary(a[:pl]) != nil || Rb.UnmarshalBinary(b[:pl]) != nil || sa.UnmarshalBinary(a[pl:]) != nil || sb.UnmarshalBinary(b[pl:]) != nil {
		return false
	}
	return Ra.Equal(Rb) && sa.Equal(sb)
}

func c08SchnorrReal(c *kc.Ctx) {
	for _, g := range groups.All() {
		g := g
		rng := c.Rng.Fork("schnorr/" + g.Name)
		suite := &sigSuite{Group: g.Group, rnd: rng.Fork("stream")}
		// capability probe: groups that document an unsupported base point / Pick are skipped, not alarmed
		probe := kc.Recover(func() string {
			x := g.Group.Scalar().Pick(rng.Fork("probe"))
			P := g.Group.Point().Mul(x, nil)
			if _, err := P.MarshalBinary(); err != nil {
				return "unsupported"
			}
			return "ok"
		})
		if probe != "ok" {
			c.CountKind("real:schnorr:" + g.Name + ":unsupported-base")
			continue
		}
		isEd := g.Kind == "edwards"
		n := c.N(3, 20)
		if g.Kind == "gt" || g.Kind == "residue" {
			n = c.N(1, 4)
		}
		for i := 0; i < n; i++ {
			x := g.Group.Scalar().Pick(rng)
			if i == 1 {
				x = g.Group.Scalar().One()
			}
			A := g.Group.Point().Mul(x, nil)
			msg := rng.Bytes([]int{0, 1, 33, 200, 4096}[i%5])
			var sig []byte
			res := kc.Recover(func() string {
				var err error
				sig, err = schnorr.Sign(suite, x, msg)
				if err != nil {
					return "err:" + err.Error()
				}
				return sigErrStr(schnorr.Verify(g.Group, A, msg, sig))
			})
			c.Eval(1)
			c.CountKind("real:schnorr:" + g.Name + ":honest")
			c.Nontrivial(fmt.Sprintf("schnorr|%s|%x", g.Name, sig))
			rp := map[string]string{"group": g.Name, "msg": kc.HexB(msg), "sig": kc.HexB(sig)}
			if res != "ok" {
				c.Violation("schnorr:"+g.Name+":honest-rejected", "schnorr.Verify rejects an honest signature ("+res+")", rp)
				continue
			}
			// the sign.Scheme object: a key is a value — the same Scheme signs with a private scalar that is then
			// updated in place, and the new signature verifies under the new public key
			if i%3 == 0 {
				sch := schnorr.NewScheme(suite)
				xk := x.Clone()
				s1, e1 := sch.Sign(xk, msg)
				X1 := g.Group.Point().Mul(xk, nil)
				v1 := "err"
				if e1 == nil {
					v1 = sigErrStr(sch.Verify(X1, msg, s1))
				}
				xk.Add(xk, g.Group.Scalar().One())
				s2, e2 := sch.Sign(xk, msg)
				X2 := g.Group.Point().Mul(xk, nil)
				v2 := "err"
				if e2 == nil {
					v2 = kc.Recover(func() string { return sigErrStr(sch.Verify(X2, msg, s2)) })
				}
				v3 := kc.Recover(func() string { return sigErrStr(schnorr.Verify(g.Group, X2, msg, s2)) })
				c.Eval(3)
				if v1 != "ok" || v2 != "ok" || v3 != "ok" {
					c.Violation("schnorr:"+g.Name+":scheme-key-updated-in-place", fmt.Sprintf("sign.Scheme: first signature %s; after the private scalar was updated in place the new signature verifies %s (Scheme.Verify) / %s (schnorr.Verify) under the new public key", v1, v2, v3), rp)
				}
			}
			// caller-owned buffers: verify, overwrite the message / signature buffer in place, verify again
			if len(msg) > 0 {
				mb, sb := append([]byte{}, msg...), append([]byte{}, sig...)
				v1 := kc.Recover(func() string { return sigErrStr(schnorr.Verify(g.Group, A, mb, sb)) })
				mb[len(mb)/2] ^= 0x40
				v2 := kc.Recover(func() string { return sigErrStr(schnorr.Verify(g.Group, A, mb, sb)) })
				mb[len(mb)/2] ^= 0x40
				sb[len(sb)-1] ^= 1
				v3 := kc.Recover(func() string { return sigErrStr(schnorr.Verify(g.Group, A, mb, sb)) })
				c.Eval(3)
				if v1 != "ok" || v2 == "ok" || v3 == "ok" {
					c.Violation("schnorr:"+g.Name+":reused-buffer", fmt.Sprintf("schnorr.Verify: %s on (m, sig); after overwriting the message buffer in place: %s; after restoring it and overwriting the signature buffer: %s", v1, v2, v3), rp)
				}
			}
			pub, _ := A.MarshalBinary()
			try := func(kind string, p, m, s []byte) {
				r := kc.Recover(func() string { return sigErrStr(schnorr.VerifyWithChecks(g.Group, p, m, s)) })
				c.Eval(1)
				c.CountKind("real:schnorr:" + g.Name + ":" + kind)
				if r == "err" {
					return
				}
				rp := map[string]string{"group": g.Name, "kind": kind, "pub": kc.HexB(p), "msg": kc.HexB(m), "sig": kc.HexB(s), "result": r}
				if r == "panic" {
					// not an acceptance; the crash comes from the group's decoder admitting / choking on malformed
					// bytes, which is property C04's subject (point decoding is total and admits only valid elements)
					c.CountKind("info:schnorr:" + g.Name + ":panic-on-malformed-input(C04):" + kind)
					_ = rp
					return
				}
				// accepted: a semantically different value is a violation; a second encoding of the same (R,s)
				// and key is pinned only for Ed25519
				if kind == "sig-bit" && sigBytesEq(p, pub) && sigBytesEq(m, msg) && semEqualSig(g.Group, sig, s) && !isEd {
					c.CountKind("info:schnorr:" + g.Name + ":second-encoding-accepted")
					return
				}
				if kind == "key-bit" && !isEd {
					B := g.Group.Point()
					if B.UnmarshalBinary(p) == nil && B.Equal(A) {
						c.CountKind("info:schnorr:" + g.Name + ":second-key-encoding-accepted")
						return
					}
				}
				c.Violation("schnorr:"+g.Name+":accepts:"+kind, "schnorr.VerifyWithChecks accepts a tampered input", rp)
			}
			nb := 8 * len(sig)
			if c.Thorough() && g.Kind != "gt" && g.Kind != "residue" && i < 4 {
				for bit := 0; bit < nb; bit++ {
					try("sig-bit", pub, msg, sigFlip(sig, bit))
				}
			} else {
				for j := 0; j < c.N(24, 64); j++ {
					try("sig-bit", pub, msg, sigFlip(sig, rng.Intn(nb)))
				}
				for _, bit := range []int{0, 7, nb - 1, nb - 8, 8*g.Group.Point().MarshalSize() - 1, 8 * g.Group.Point().MarshalSize()} {
					try("sig-bit", pub, msg, sigFlip(sig, bit))
				}
			}
			for j := 0; j < c.N(8, 32); j++ {
				try("key-bit", sigFlip(pub, rng.Intn(8*len(pub))), msg, sig)
			}
			if len(msg) > 0 {
				try("msg-bit", pub, sigFlip(msg, rng.Intn(8*len(msg))), sig)
				try("msg-truncated", pub, msg[:len(msg)-1], sig)
			}
			try("msg-extended", pub, sigCat(msg, []byte{0}), sig)
			other, _ := g.Group.Point().Mul(g.Group.Scalar().Pick(rng), nil).MarshalBinary()
			try("wrong-key", other, msg, sig)
			try("sig-len", pub, msg, sig[:len(sig)-1])
			try("sig-len", pub, msg, sigCat(sig, []byte{0}))
			try("sig-len", pub, msg, nil)
			try("key-len", pub[:len(pub)-1], msg, sig)
			try("key-len", nil, msg, sig)
			// s + q when it fits in the scalar encoding
			pl := g.Group.Point().MarshalSize()
			sl := g.Group.Scalar().MarshalSize()
			le := g.Group.Scalar().ByteOrder() == kyber.LittleEndian
			var sv *big.Int
			if le {
				sv = kc.LeN(sig[pl:])
			} else {
				sv = kc.BeN(sig[pl:])
			}
			sq := new(big.Int).Add(sv, g.Q)
			if sq.BitLen() <= 8*sl {
				var enc []byte
				if le {
					enc = sigLE(sq, sl)
				} else {
					enc = sq.FillBytes(make([]byte, sl))
				}
				s2 := sigCat(sig[:pl], enc)
				r := kc.Recover(func() string { return sigErrStr(schnorr.VerifyWithChecks(g.Group, pub, msg, s2)) })
				c.CountKind("real:schnorr:" + g.Name + ":s+q")
				if r != "err" {
					if isEd {
						c.Violation("schnorr:"+g.Name+":accepts:s+q", "non-canonical s accepted", map[string]string{"group": g.Name, "sig": kc.HexB(s2)})
					} else {
						c.CountKind("info:schnorr:" + g.Name + ":s+q-accepted")
					}
				}
			}
			// a signature by another key on the same message, and this key's signature on another message
			x2 := g.Group.Scalar().Pick(rng)
			if sig2, err := schnorr.Sign(suite, x2, msg); err == nil && !x2.Equal(x) {
				try("sig-of-other-key", pub, msg, sig2)
				try("R-of-other", pub, msg, sigCat(sig2[:pl], sig[pl:]))
				try("s-of-other", pub, msg, sigCat(sig[:pl], sig2[pl:]))
			}
		}
	}
}

// dlHash is the challenge as sign/schnorr computes it: SHA-512(R ‖ A ‖ msg) read by Scalar.SetBytes
// (mod.Int, big-endian for the mock group), reduced mod q.
func dlHash(q *big.Int, Rb, Ab, msg []byte) *big.Int {
	d := sha512.Sum512(sigCat(Rb, Ab, msg))
	h := new(big.Int).SetBytes(d[:])
	return h.Mod(h, q)
}

func c08SchnorrDL(c *kc.Ctx) {
	b := &sigBatch{c: c}
	qs := []*big.Int{dlgroup.L, big.NewInt(1000003), big.NewInt(65537), big.NewInt(251), big.NewInt(7)}
	layoutOK := true
	for _, q := range qs {
		rng := c.Rng.Fork("schnorr-dl/" + q.String())
		dl := dlgroup.New(q, rng.Fork("stream"))
		g := dl.G1()
		suite := &sigSuite{Group: g, rnd: rng.Fork("stream2")}
		pl, sl := g.PointLen(), g.ScalarLen()
		qh := kc.HexN(q)
		n := c.N(25, 400)
		for i := 0; i < n; i++ {
			xv := rng.BigBelow(q)
			x := dl.ScalarFromBig(xv)
			A := g.Point().Mul(x, nil)
			pub, _ := A.MarshalBinary()
			msg := rng.Bytes(rng.Intn(80))
			var sig []byte
			res := kc.Recover(func() string {
				var err error
				sig, err = schnorr.Sign(suite, x, msg)
				if err != nil {
					return "err:sign"
				}
				return sigErrStr(schnorr.Verify(g, A, msg, sig))
			})
			c.Eval(1)
			if res != "ok" {
				c.Violation("schnorr:dlgroup:honest-rejected", fmt.Sprintf("q=%s x=%s: %s", q, xv, res), map[string]string{"q": qh, "x": kc.HexN(xv), "msg": kc.HexB(msg)})
				continue
			}
			R := g.Point()
			if R.UnmarshalBinary(sig[:pl]) != nil {
				c.Unshown("schnorr:dlgroup:format", "signature does not start with a point", nil)
				return
			}
			kv := dlgroup.Log(R)
			sv := kc.BeN(sig[pl:])
			h := dlHash(q, sig[:pl], pub, msg)
			// cross-check the assumed hash layout algebraically: s = k + x·h
			chk := new(big.Int).Mul(xv, h)
			chk.Add(chk, kv).Mod(chk, q)
			if chk.Cmp(sv) != 0 {
				layoutOK = false
			}
			if !layoutOK {
				continue
			}
			b.add("dl-sign", fmt.Sprintf("sig dl-sign %s %s %s %s", qh, kc.HexN(xv), kc.HexN(kv), kc.HexN(h)),
				kc.HexN(kv)+" "+kc.HexN(sv), fmt.Sprintf("%s/%s/%s/%s", qh, xv, kv, h), false, nil)
			// verification: honest and mutated, real verdict vs model verdict
			type mut struct {
				kind     string
				pub, sig []byte
				msg      []byte
			}
			muts := []mut{{"honest", pub, sig, msg}}
			for j := 0; j < c.N(6, 16); j++ {
				muts = append(muts, mut{"sig-bit", pub, sigFlip(sig, rng.Intn(8*len(sig))), msg})
			}
			muts = append(muts, mut{"sig-bit", pub, sigFlip(sig, 0), msg}, mut{"sig-bit", pub, sigFlip(sig, 8*pl), msg},
				mut{"sig-bit", pub, sigFlip(sig, 8*len(sig)-1), msg})
			muts = append(muts, mut{"key-bit", sigFlip(pub, rng.Intn(8*len(pub))), sig, msg}, mut{"key-bit", sigFlip(pub, 0), sig, msg})
			muts = append(muts, mut{"msg", pub, sig, sigCat(msg, []byte{1})})
			muts = append(muts, mut{"sig-len", pub, sig[:len(sig)-1], msg}, mut{"sig-len", pub, sigCat(sig, []byte{0}), msg}, mut{"sig-len", pub, nil, msg})
			muts = append(muts, mut{"key-len", pub[:len(pub)-1], sig, msg}, mut{"key-len", sigCat(pub, []byte{0}), sig, msg})
			// out-of-range values: s + q, R + q (when they fit), s' = s+1 with R' = R+1 (valid only if the oracle ignored R)
			if v := new(big.Int).Add(sv, q); v.BitLen() <= 8*sl {
				muts = append(muts, mut{"s+q", pub, sigCat(sig[:pl], v.FillBytes(make([]byte, sl))), msg})
			}
			if v := new(big.Int).Add(kv, q); v.BitLen() <= 8*sl {
				muts = append(muts, mut{"R+q", pub, sigCat([]byte{sig[0]}, v.FillBytes(make([]byte, sl)), sig[pl:]), msg})
			}
			one := big.NewInt(1)
			r1 := new(big.Int).Mod(new(big.Int).Add(kv, one), q)
			s1 := new(big.Int).Mod(new(big.Int).Add(sv, one), q)
			muts = append(muts, mut{"R+1,s+1", pub, sigCat([]byte{sig[0]}, r1.FillBytes(make([]byte, sl)), s1.FillBytes(make([]byte, sl))), msg})
			// A' = A + d with s adjusted as if h were unchanged: s' = s + h·d
			d := rng.BigBelow(q)
			a2 := new(big.Int).Mod(new(big.Int).Add(xv, d), q)
			s2 := new(big.Int).Mod(new(big.Int).Add(sv, new(big.Int).Mul(h, d)), q)
			muts = append(muts, mut{"A+d,s+hd", sigCat([]byte{pub[0]}, a2.FillBytes(make([]byte, sl))), sigCat(sig[:pl], s2.FillBytes(make([]byte, sl))), msg})
			for _, m := range muts {
				m := m
				rv := kc.Recover(func() string { return sigErrStr(schnorr.VerifyWithChecks(g, m.pub, m.msg, m.sig)) })
				c.Eval(1)
				c.CountKind("real:schnorr:dlgroup:" + m.kind)
				bad := false
				rp := map[string]string{"q": qh, "kind": m.kind, "pub": kc.HexB(m.pub), "msg": kc.HexB(m.msg), "sig": kc.HexB(m.sig), "result": rv}
				if m.kind == "honest" && rv != "ok" {
					bad = true
					c.Violation("schnorr:dlgroup:honest-rejected", "VerifyWithChecks rejects an honest signature", rp)
				}
				if m.kind != "honest" && rv != "err" {
					// in tiny groups a tampered triple can be valid by coincidence (oracle collision); decide by the equation
					Rp, Ap := g.Point(), g.Point()
					okEq := false
					if len(m.sig) == pl+sl && Rp.UnmarshalBinary(m.sig[:pl]) == nil && Ap.UnmarshalBinary(m.pub) == nil {
						hh := dlHash(q, m.sig[:pl], m.pub, m.msg)
						lhs := new(big.Int).Mod(kc.BeN(m.sig[pl:]), q)
						rhs := new(big.Int).Mul(hh, dlgroup.Log(Ap))
						rhs.Add(rhs, dlgroup.Log(Rp)).Mod(rhs, q)
						okEq = lhs.Cmp(rhs) == 0 && kc.BeN(m.sig[pl:]).Cmp(q) < 0
					}
					if !okEq || rv == "panic" {
						bad = true
						c.Violation("schnorr:dlgroup:accepts:"+m.kind, "VerifyWithChecks accepts a tampered input that does not satisfy s•B = R + h•A", rp)
					} else {
						c.CountKind("info:schnorr:dlgroup:coincidental-valid-in-small-group")
					}
				}
				// oracle value for the model: the challenge at the decoded (R, A, msg) — 0 if undecodable (never consulted)
				hm := big.NewInt(0)
				if len(m.sig) >= pl {
					hm = dlHash(q, m.sig[:pl], m.pub, m.msg)
				}
				b.add("dl-verify:"+m.kind, fmt.Sprintf("sig dl-verify %s %x %s %s %s", qh, dlgroup.TagG1, kc.HexB(m.pub), kc.HexB(m.sig), kc.HexN(hm)),
					rv, fmt.Sprintf("%s|%x|%x|%x", qh, m.pub, m.sig, m.msg), bad, rp)
			}
		}
	}
	if !layoutOK {
		// harmless for the property (honest signatures verify, tampering is rejected — evaluated above on the
		// real code); the dlog-level correspondence is skipped because its oracle values cannot be computed
		c.CountKind("info:schnorr:hash-input-differs")
		c.Extra("schnorr_hash_layout", "differs from R‖A‖msg: dlog-level model comparison skipped (informational)")
		return
	}
	b.run(sigSameVerdict)
}

func c08Schnorr(c *kc.Ctx) {
	c08SchnorrReal(c)
	c08SchnorrDL(c)
}
