package main

// C10 extra families: random operation sequences over the whole API surface of one participant, and
// the "absent share scalar" decode probe.

import (
	"fmt"
	"math/big"

	"verifharness/internal/kc"
)

func rngPerm(r *kc.Rng, n int) []int {
	p := make([]int, n)
	for i := range p {
		p[i] = i
	}
	for i := n - 1; i > 0; i-- {
		j := r.Intn(i + 1)
		p[i], p[j] = p[j], p[i]
	}
	return p
}

// c10Fuzz: random op sequences (all op kinds, deals drawn from a pool of honest and mutated deals,
// several sessions) applied to one verifier or the dealer; state compared after every op.
func c10Fuzz(c *kc.Ctx, rng *kc.Rng) {
	var pend []c10Pending
	runs := c.N(300, 6000)
	for it := 0; it < runs; it++ {
		variant := []string{"p", "r"}[it%2]
		mock := it%8 != 7
		n := 3 + rng.Intn(4)
		t := 2 + rng.Intn(n-1)
		fr := rng.Fork(fmt.Sprint("fz", it))
		be, q, gname := c10Backend(variant, mock, fr)
		if err := be.setup(n, t); err != nil {
			c.Unshown("harness:fuzz", err.Error(), nil)
			continue
		}
		old, err := be.newSession()
		if err != nil {
			c.Unshown("harness:fuzz", err.Error(), nil)
			continue
		}
		r := &c10Run{c: c, be: be, gname: gname, q: q, n: n, t: t, st: &sidTable{}, nodes: map[int]*c10Node{},
			desc: []string{fmt.Sprintf("fuzz %s mock=%v n=%d t=%d", variant, mock, n, t)}, consistent: map[int]bool{}, approvedOwn: map[int]bool{}, faulty: true}
		r.st.tok(be.dealerSID())
		id := rng.Intn(n+1) - 1
		r.node(id)
		me := id
		if me < 0 {
			me = 0
		}
		mutate := func(d *mdeal) *mdeal {
			switch fr.Intn(9) {
			case 0:
				d.v = addMod(d.v, 1, q)
			case 1:
				d.t = uint32(fr.Intn(n + 3))
			case 2:
				d.sid = append([]byte{1}, d.sid...)
			case 3:
				d.i = uint32(fr.Intn(n + 2))
				d.ri = d.i
			case 4:
				if variant == "r" {
					d.ri = uint32(fr.Intn(n))
				}
			case 5:
				if len(d.cpts) > 1 {
					d.cpts = d.cpts[:len(d.cpts)-1]
					d.clogs = d.clogs[:len(d.clogs)-1]
				}
			}
			return d
		}
		pick := func() *mdeal {
			src := be
			if fr.Intn(5) == 0 {
				src = old
			}
			i := fr.Intn(n)
			if fr.Intn(2) == 0 {
				i = me
			}
			return mutate(src.plain(i))
		}
		steps := 4 + fr.Intn(12)
		for s := 0; s < steps; s++ {
			switch k := fr.Intn(14); {
			case k < 3 && id >= 0:
				d := pick()
				e, err := be.encFor(id, d)
				if err != nil {
					continue
				}
				r.opDeal(id, e, true, true, d, "fuzz")
			case k < 7:
				sid := be.dealerSID()
				if fr.Intn(6) == 0 {
					sid = old.dealerSID()
				}
				idx := uint32(fr.Intn(n + 1))
				m := &mresp{sid: sid, idx: idx, approved: fr.Intn(3) != 0, sigOK: idx < uint32(n) && fr.Intn(6) != 0}
				if m.sigOK {
					m.sig = be.signResp(int(idx), sid, idx, m.approved)
				} else {
					m.sig = []byte("garbage-signature-of-some-length-0123456789abcdef0123456789abcdef01")
				}
				r.opResp(id, m, "fuzz")
			case k < 10 && id >= 0:
				d := pick()
				idx := d.i
				if fr.Intn(3) == 0 {
					idx = uint32(fr.Intn(n + 1))
				}
				j := &mjust{sid: d.sid, idx: idx, deal: d, sigOK: fr.Intn(3) != 0, kind: "fuzz"}
				if j.sigOK {
					j.sig = be.signJust(j.sid, j.idx, d)
				} else {
					j.sig = []byte("garbage")
				}
				hon := be.plain(int(d.i) % n)
				valid := d.i < uint32(n) && hon.v.Cmp(d.v) == 0 && string(hon.sid) == string(d.sid) && d.t == hon.t && len(d.clogs) == len(hon.clogs) && d.ri == d.i
				switch {
				case !j.sigOK && d.i != idx:
					j.kind = "othergarbage"
				case !j.sigOK && valid:
					j.kind = "garbage"
				case d.i != idx && valid:
					j.kind = "other"
				}
				r.opJust(id, j)
			case k == 10:
				r.opTimeout(id)
			case k == 11:
				idx, ap := uint32(fr.Intn(n+1)), fr.Bool()
				r.rec(id, fmt.Sprintf("U:%x:%s", idx, b01(ap)), "U", be.unsafeSet(id, idx, ap))
			case k == 12:
				tt := uint32(fr.Intn(n + 2))
				r.rec(id, fmt.Sprintf("S:%x", tt), "S", be.setThreshold(id, tt))
			case k == 13:
				d, incl := pick(), fr.Bool()
				out, _ := be.verifyDeal(id, d, incl)
				r.rec(id, fmt.Sprintf("V:%s:%s", b01(incl), d.line(r.st)), "V", out)
			}
		}
		nd := r.nodes[id]
		if len(nd.ops) > 0 {
			pend = append(pend, c10Pending{r, nd})
			c.Nontrivial(r.line(nd, true))
		}
	}
	c.Extra("scenarios_family_C_fuzz", runs)
	c10Flush(c, pend)
}

// ---- protobuf surgery (wire format only; the codec under test is kyber's) ------------------------

type pbField struct {
	num  uint64
	wt   uint64
	vint uint64
	data []byte
}

func pbVarint(b []byte) (uint64, int) {
	var v uint64
	for i := 0; i < len(b) && i < 10; i++ {
		v |= uint64(b[i]&0x7f) << (7 * uint(i))
		if b[i] < 0x80 {
			return v, i + 1
		}
	}
	return 0, 0
}

func pbPutVarint(v uint64) []byte {
	var o []byte
	for v >= 0x80 {
		o = append(o, byte(v)|0x80)
		v >>= 7
	}
	return append(o, byte(v))
}

func pbParse(b []byte) ([]pbField, bool) {
	var fs []pbField
	for len(b) > 0 {
		tag, k := pbVarint(b)
		if k == 0 {
			return nil, false
		}
		b = b[k:]
		f := pbField{num: tag >> 3, wt: tag & 7}
		switch f.wt {
		case 0:
			v, k := pbVarint(b)
			if k == 0 {
				return nil, false
			}
			f.vint = v
			b = b[k:]
		case 2:
			l, k := pbVarint(b)
			if k == 0 || int(l) > len(b)-k {
				return nil, false
			}
			f.data = b[k : k+int(l)]
			b = b[k+int(l):]
		case 5:
			if len(b) < 4 {
				return nil, false
			}
			f.data = b[:4]
			b = b[4:]
		case 1:
			if len(b) < 8 {
				return nil, false
			}
			f.data = b[:8]
			b = b[8:]
		default:
			return nil, false
		}
		fs = append(fs, f)
	}
	return fs, true
}

func pbEncode(fs []pbField) []byte {
	var o []byte
	for _, f := range fs {
		o = append(o, pbPutVarint(f.num<<3|f.wt)...)
		switch f.wt {
		case 0:
			o = append(o, pbPutVarint(f.vint)...)
		case 2:
			o = append(o, pbPutVarint(uint64(len(f.data)))...)
			o = append(o, f.data...)
		default:
			o = append(o, f.data...)
		}
	}
	return o
}

// dropInner removes field `inner` from the embedded message held in field `outer`.
func pbDropInner(msg []byte, outer, inner uint64) ([]byte, bool) {
	fs, ok := pbParse(msg)
	if !ok {
		return nil, false
	}
	done := false
	for i := range fs {
		if fs[i].num == outer && fs[i].wt == 2 {
			in, ok := pbParse(fs[i].data)
			if !ok {
				return nil, false
			}
			var keep []pbField
			for _, f := range in {
				if f.num == inner {
					done = true
					continue
				}
				keep = append(keep, f)
			}
			fs[i].data = pbEncode(keep)
		}
	}
	return pbEncode(fs), done
}

// c10NilScalar: a deal whose share scalar is absent on the wire, sent through the real encryption
// path. The property demands a complaint or an error — not a crash.
func c10NilScalar(c *kc.Ctx, rng *kc.Rng) {
	for _, variant := range []string{"p", "r"} {
		for _, mock := range []bool{true, false} {
			outerFields := []uint64{2}
			if variant == "r" {
				outerFields = []uint64{2, 3}
			}
			for _, outer := range outerFields {
				for rep := 0; rep < c.N(2, 10); rep++ {
					n := 3 + rng.Intn(4)
					t := 2 + rng.Intn(n-1)
					be, q, gname := c10Backend(variant, mock, rng.Fork(fmt.Sprint("ns", variant, mock, outer, rep)))
					if err := be.setup(n, t); err != nil {
						c.Unshown("harness:nilscalar", err.Error(), nil)
						continue
					}
					r := &c10Run{c: c, be: be, gname: gname, q: q, n: n, t: t, st: &sidTable{}, nodes: map[int]*c10Node{}}
					i := rng.Intn(n)
					pt, err := be.marshalDeal(be.plain(i))
					if err != nil {
						c.Unshown("harness:nilscalar", err.Error(), nil)
						continue
					}
					// sanity: the unmodified re-encoding is accepted (the surgery itself is sound)
					fs, ok := pbParse(pt)
					if !ok || string(pbEncode(fs)) != string(pt) {
						c.Unshown("harness:nilscalar", "protobuf re-encoding differs", nil)
						continue
					}
					mut, done := pbDropInner(pt, outer, 2)
					if !done {
						c.Unshown("harness:nilscalar", "share scalar field not found on the wire", nil)
						continue
					}
					e, err := be.encRaw(i, mut)
					if err != nil {
						c.Unshown("harness:nilscalar", err.Error(), nil)
						continue
					}
					out, _, msg := be.procDeal(i, e)
					c.Eval(1)
					c.CountKind(r.vname() + ":absent-scalar:" + out)
					c.Nontrivial(fmt.Sprintf("nilscalar %s %s %d %d %d %x", variant, gname, n, t, outer, mut))
					if out == "panic" || out == "approve" {
						which := "SecShare"
						if outer == 3 {
							which = "RndShare"
						}
						key := fmt.Sprintf("%s:ProcessEncryptedDeal:absent-%s-scalar-%s", r.vname(), which, out)
						c.Violation(key, fmt.Sprintf("deal with absent %s.V for verifier %d: %s (%s)", which, i, out, msg),
							map[string]any{"variant": r.vname(), "group": gname, "n": n, "t": t, "verifier": i, "plaintext_deal_hex": fmt.Sprintf("%x", mut)})
					}
					// control: the untouched plaintext through the same raw path is approved
					be2, _, _ := c10Backend(variant, mock, rng.Fork(fmt.Sprint("ns", variant, mock, outer, rep)))
					if be2.setup(n, t) == nil {
						pt2, _ := be2.marshalDeal(be2.plain(i))
						if e2, err := be2.encRaw(i, pt2); err == nil {
							if o2, _, _ := be2.procDeal(i, e2); o2 != "approve" {
								c.Unshown("harness:nilscalar-control", "unmodified raw deal not approved: "+o2, nil)
							}
						}
					}
				}
			}
		}
	}
	_ = big.NewInt
}
