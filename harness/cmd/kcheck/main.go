// kcheck runs the correspondence / search side of one property check and writes its evidence file.
// It is invoked by /verif/bin/check after the Lean obligations have been rebuilt.
package main

import (
	"encoding/json"
	"flag"
	"fmt"
	"os"
	"sort"
	"strconv"

	"verifharness/internal/groups"
	"verifharness/internal/kc"
)

type check struct {
	level string // evidence level
	run   func(c *kc.Ctx)
}

var checks = map[string]check{}

// replayHook re-executes a recorded case (set by grp_replay.go; absent in the build-variant binaries).
var replayHook func(c *kc.Ctx, prop string) bool

// emitMode: print cases as JSON lines instead of comparing (used for the constantTime child binary).
var emitMode bool

func register(id, level string, run func(c *kc.Ctx)) { checks[id] = check{level, run} }

func main() {
	prop := flag.String("prop", "", "property id")
	tier := flag.String("tier", "quick", "quick|thorough")
	driver := flag.String("driver", "/verif/lean/.lake/build/bin/kdriver", "model driver")
	leanRep := flag.String("lean", "", "JSON report of the Lean obligations (from bin/check)")
	replay := flag.String("replay", "", "replay file to re-execute")
	bindir := flag.String("bindir", "/verif/harness/bin", "directory holding the sibling harness binaries (kcheck_ct, kcheck_generic)")
	build := flag.String("build", "", "name of this build variant (child mode)")
	list := flag.Bool("list", false, "list registered checks")
	flag.BoolVar(&emitMode, "emit", false, "child mode: emit cases as JSON lines")
	flag.Parse()
	if *list {
		var ids []string
		for id := range checks {
			ids = append(ids, id)
		}
		sort.Strings(ids)
		for _, id := range ids {
			fmt.Println(id)
		}
		return
	}
	ck, ok := checks[*prop]
	if !ok {
		fmt.Fprintf(os.Stderr, "kcheck: no check registered for %q\n", *prop)
		os.Exit(2)
	}
	if *build != "" {
		groups.BuildConfig = *build
	}
	seed := uint64(1)
	if s := os.Getenv("VERIF_SEED"); s != "" {
		if v, err := strconv.ParseInt(s, 10, 64); err == nil {
			seed = uint64(v)
		}
	}
	c := kc.NewCtx(*prop, *tier, seed, *driver)
	c.ReplayFile = *replay
	c.BinDir = *bindir
	if *leanRep != "" {
		b, err := os.ReadFile(*leanRep)
		if err == nil {
			json.Unmarshal(b, &c.Lean)
		}
	}
	// Broken Lean obligations: the property is no longer shown by proof (DESIGN §4). The
	// correspondence and search still run; if they find no failing input the verdict is
	// VIOLATION … no-failing-input-found.
	if c.ReplayFile != "" && replayHook != nil {
		replayHook(c, *prop)
	}
	ck.run(c)
	if emitMode {
		os.Exit(0)
	}
	if !c.Lean.BuildOK || len(c.Lean.Failed) > 0 || len(c.Lean.BadAxioms) > 0 || len(c.Lean.GrepHits) > 0 {
		if c.Violations() == 0 {
			c.Unshown("lean-obligations", "Lean obligations no longer check", map[string]any{
				"failed_theorems_or_modules": c.Lean.Failed, "bad_axioms": c.Lean.BadAxioms, "grep_hits": c.Lean.GrepHits,
				"build_log_tail": c.Lean.BuildLog})
		}
	}
	os.Exit(c.Finish(ck.level))
}
