package main

// C15, continued: the simple shuffle on its own, the sequence shuffle and the biffle.

import (
	"fmt"
	"math/big"
	"strings"

	"go.dedis.ch/kyber/v4"
	"go.dedis.ch/kyber/v4/compatible/compatiblemod"
	"go.dedis.ch/kyber/v4/proof"
	"go.dedis.ch/kyber/v4/shuffle"
	"go.dedis.ch/kyber/v4/util/random"

	"verifharness/internal/kc"
)

type shLine struct {
	line  string
	check func(out string)
}

// modelBatch sends lines and hands every output to its checker.
func (t *shRun) modelBatch(ls []shLine) {
	lines := make([]string, len(ls))
	for i, l := range ls {
		lines[i] = l.line
	}
	outs := t.c.Model(lines)
	t.c.Program(len(lines))
	for i, l := range ls {
		l.check(outs[i])
	}
}

// ---------------------------------------------------------------------------------------------
// simple shuffle

func c15Simple(t *shRun, envs []*sgEnv) {
	c := t.c
	var batch []shLine
	kmax := c.N(12, 40)
	for _, e := range envs {
		e := e
		r := c.Rng.Fork("simple/" + e.name)
		z := zq{e.q}
		for k := 2; k <= kmax; k++ {
			if k > 8 && k%4 != 0 && !c.Thorough() {
				continue
			}
			k := k
			g := big.NewInt(1)
			if r.Intn(3) == 0 {
				g = sgUniform(r, e.q)
			}
			gamma := sgUniform(r, e.q)
			x := rndVec(r, e.q, k)
			pi := sgPerm(r, k)
			y := make([]*big.Int, k)
			for i := range y {
				y[i] = z.mul(gamma, x[pi[i]])
			}
			G := e.pt(g)
			// verify: runs the real verifier; returns verdict and the observed challenges
			verify := func(G, Gamma kyber.Point, pr []byte) (string, [][]*big.Int) {
				ss := (&shuffle.SimpleShuffle{}).Init(e.suite, k)
				ver, spy := sgSpyVerifier(e, func(ctx proof.VerifierContext) error { return ss.Verify(G, Gamma, ctx) })
				v := kc.Recover(func() string {
					if proof.HashVerify(e.suite, "SimpleShuffle", ver, pr) != nil {
						return "reject"
					}
					return "accept"
				})
				return v, spy.rounds
			}
			// one case: real verdict, property predicate, model verdict
			vcase := func(kind string, g, gm *big.Int, pr, mock []byte, expect string) {
				verdict, rounds := verify(e.pt(g), e.pt(gm), pr)
				c.Eval(1)
				c.CountKind(e.name + ":simple:" + kind)
				rep := map[string]any{"group": e.name, "kind": kind, "k": k, "g": kc.HexN(g), "Gamma": kc.HexN(gm), "proof": kc.HexB(pr), "verdict": verdict}
				if expect != "" && verdict != expect {
					c.Violation("C15:simple:"+kind+":"+verdict, fmt.Sprintf("%s: simple shuffle %s (k=%d): verifier says %s, property says %s", e.name, kind, k, verdict, expect), rep)
				}
				if mock == nil {
					return
				}
				line := fmt.Sprintf("shuffle sverify %s %x %s %s %s %s", kc.HexN(e.q), k, kc.HexN(g), kc.HexN(gm), kc.HexB(mock), roundsStr(rounds))
				batch = append(batch, shLine{line, func(out string) {
					if strings.SplitN(stripClass(out), " ", 2)[0] != verdict {
						c.Disagree(line, verdict, out, kind)
						c.DisChecked(1)
						c.Unshown("correspondence:simple-verify:"+kind, fmt.Sprintf("%s: simple shuffle %s: real %s, model %s", e.name, kind, verdict, out), rep)
					}
				}})
			}
			// honest run of the real prover on (x, y) — y a γ-permutation of x or not
			prove := func(x, y []*big.Int) (pr []byte, cells []sgCell, spy *sgSpyP) {
				ss := (&shuffle.SimpleShuffle{}).Init(e.suite, k)
				prover, sp := sgSpyProver(e, func(ctx proof.ProverContext) error {
					return ss.Prove(G, e.sc(gamma), e.scs(x), e.scs(y), e.suite.RandomStream(), ctx)
				})
				kc.Recover(func() string {
					b, err := proof.HashProve(e.suite, "SimpleShuffle", prover)
					if err == nil {
						pr = b
					}
					return ""
				})
				for _, m := range sp.puts {
					cells = append(cells, m...)
				}
				return pr, cells, sp
			}
			pr, cells, spy := prove(x, y)
			if pr == nil {
				c.Violation("C15:simple:prove-fails", fmt.Sprintf("%s: honest SimpleShuffle.Prove fails, k=%d", e.name, k), nil)
				continue
			}
			pline := fmt.Sprintf("shuffle sprove %s %x %s %s %s %s %s %s", kc.HexN(e.q), k, kc.HexN(g), kc.HexN(gamma), hexList(x), hexList(y), hexList(spy.pri), roundsStr(spy.rounds))
			var mock []byte
			// the prover line must be settled before the verifier lines are built: run it now
			out := c.Model([]string{pline})[0]
			c.Program(1)
			if strings.HasPrefix(out, "ok ") {
				if b, err := hexDecode(out[3:]); err == nil && ((e.mock && string(b) == string(pr)) || (!e.mock && e.sameTranscript(b, cells))) {
					mock = b
				}
			}
			if mock == nil {
				c.Disagree(pline, kc.HexB(pr), out, "simple prover transcript")
				c.Unshown("correspondence:simple-prove", fmt.Sprintf("%s: model simple-shuffle prover differs from the real one (k=%d)", e.name, k), map[string]any{"line": pline})
				continue
			}
			c.Nontrivial(fmt.Sprintf("simple|%s|%d|%v|%s", e.name, k, pi, hexList(x)))
			gm := z.mul(gamma, g)
			vcase("honest", g, gm, pr, mock, "accept")
			vcase("other-Gamma", g, z.mul(sgUniform(r, e.q), g), pr, mock, "reject")
			vcase("other-G", sgUniform(r, e.q), gm, pr, mock, "reject")
			spans := sgCellSpans(cells)
			for m := 0; m < 4; m++ {
				mut := append([]byte{}, pr...)
				kind := "mut-bitflip"
				if m == 3 {
					mut = mut[:r.Intn(len(mut))]
					kind = "truncate"
				} else if m == 2 {
					// the claimed Y_j replaced: the proof then speaks about another instance
					sp := spans[k+r.Intn(k)]
					b, _ := e.pt(sgUniform(r, e.q)).MarshalBinary()
					copy(mut[sp[0]:sp[1]], b)
					kind = "claimed-y-replaced"
				} else {
					mut[r.Intn(len(mut))] ^= 1 << uint(r.Intn(8))
				}
				ex := ""
				if len(mut) < len(pr) || (&sgProof{env: e, real: pr, cells: cells}).semDiff(mut) {
					ex = "reject"
				}
				mm, _, ok := sgMockOf(e, pr, cells, mock, mut)
				if !ok {
					mm = nil
				}
				vcase(kind, g, gm, mut, mm, ex)
			}
			// instances that are not shuffles: the honest algorithm, and a witness for every chain equation
			bad := append([]*big.Int{}, y...)
			switch r.Intn(3) {
			case 0:
				bad[r.Intn(k)] = sgUniform(r, e.q)
			case 1:
				bad[0] = bad[1]
			default:
				bad[0] = z.add(bad[0], bad[1])
			}
			if pr2, _, _ := prove(x, bad); pr2 != nil {
				vcase("not-a-shuffle/honest-algorithm", g, gm, pr2, nil, "reject")
			}
			for _, skip := range []int{0, r.Intn(k), k, k + r.Intn(k), 2*k - 1} {
				if skip < 0 || skip > 2*k-1 {
					continue
				}
				var fp, rec []byte
				kc.Recover(func() string {
					b, err := proof.HashProve(e.suite, "SimpleShuffle", func(ctx proof.ProverContext) error {
						return ssForge(e, r, ctx, k, g, gamma, x, bad, skip, &rec)
					})
					if err == nil {
						fp = b
					}
					return ""
				})
				if fp != nil {
					vcase("not-a-shuffle/forged-skip-eq", g, gm, fp, rec, "reject")
				}
			}
		}
	}
	t.modelBatch(batch)
}

// ---------------------------------------------------------------------------------------------
// sequences

func c15Sequences(t *shRun, envs []*sgEnv) {
	c := t.c
	var batch []shLine
	for _, e := range envs {
		e := e
		r := c.Rng.Fork("seq/" + e.name)
		z := zq{e.q}
		for nq := 1; nq <= 4; nq++ {
			for _, k := range []int{2, 3, 5} {
				if k == 5 && nq%2 == 0 && !c.Thorough() {
					continue
				}
				nq, k := nq, k
				g, h := big.NewInt(1), sgUniform(r, e.q)
				G, H := e.pt(g), e.pt(h)
				x := make([][]*big.Int, nq)
				y := make([][]*big.Int, nq)
				X := make([][]kyber.Point, nq)
				Y := make([][]kyber.Point, nq)
				for j := 0; j < nq; j++ {
					x[j], y[j] = rndVec(r, e.q, k), rndVec(r, e.q, k)
					X[j], Y[j] = e.pts(x[j]), e.pts(y[j])
				}
				seed := r.U64()
				var xBar, yBar [][]kyber.Point
				var getProver func(e []kyber.Scalar) (proof.Prover, error)
				if kc.Recover(func() string {
					xBar, yBar, getProver = shuffle.SequencesShuffle(e.suite, G, H, X, Y, kc.NewRng(seed))
					return "ok"
				}) != "ok" {
					c.Violation("C15:seq:shuffle-panics", fmt.Sprintf("%s: SequencesShuffle panics (nq=%d k=%d)", e.name, nq, k), nil)
					continue
				}
				// the permutation and blinding factors SequencesShuffle drew, re-derived from an equal stream
				r2 := kc.NewRng(seed)
				pi := make([]int, k)
				for i := range pi {
					pi[i] = i
				}
				for i := int64(k - 1); i > 0; i-- {
					j := random.Int(compatiblemod.NewInt(i+1), r2).Int64()
					if j != i {
						pi[i], pi[j] = pi[j], pi[i]
					}
				}
				beta := make([][]*big.Int, nq)
				for j := 0; j < nq; j++ {
					beta[j] = make([]*big.Int, k)
					for i := 0; i < k; i++ {
						beta[j][i] = e.scBig(e.suite.Scalar().Pick(r2))
					}
				}
				xb := make([][]*big.Int, nq)
				yb := make([][]*big.Int, nq)
				known := true
				for j := 0; j < nq; j++ {
					xb[j] = make([]*big.Int, k)
					yb[j] = make([]*big.Int, k)
					for i := 0; i < k; i++ {
						xb[j][i] = z.add(x[j][pi[i]], z.mul(beta[j][pi[i]], g))
						yb[j][i] = z.add(y[j][pi[i]], z.mul(beta[j][pi[i]], h))
						if !e.pt(xb[j][i]).Equal(xBar[j][i]) || !e.pt(yb[j][i]).Equal(yBar[j][i]) {
							known = false
						}
					}
				}
				if !known {
					c.CountKind(e.name + ":seq:permutation-not-rederived")
				}
				ev := rndVec(r, e.q, nq)
				eS := e.scs(ev)
				var pr []byte
				var spy *sgSpyP
				var cells []sgCell
				res := kc.Recover(func() string {
					p, err := getProver(eS)
					if err != nil {
						return "err"
					}
					prover, sp := sgSpyProver(e, p)
					spy = sp
					b, err := proof.HashProve(e.suite, "PairShuffle", prover)
					if err != nil {
						return "err"
					}
					pr = b
					return "ok"
				})
				c.Eval(1)
				c.CountKind(fmt.Sprintf("%s:seq:prove-nq%d", e.name, nq))
				if res != "ok" {
					c.Violation("C15:seq:prove-fails", fmt.Sprintf("%s: sequence shuffle prover fails (%s), nq=%d k=%d", e.name, res, nq, k), nil)
					continue
				}
				for _, m := range spy.puts {
					cells = append(cells, m...)
				}
				verify := func(xBar, yBar [][]kyber.Point) (string, [][]*big.Int, [4][]kyber.Point) {
					var up [4][]kyber.Point
					var rounds [][]*big.Int
					v := kc.Recover(func() string {
						a, b, cc, d := shuffle.GetSequenceVerifiable(e.suite, X, Y, xBar, yBar, eS)
						up = [4][]kyber.Point{a, b, cc, d}
						ver, sp := sgSpyVerifier(e, shuffle.Verifier(e.suite, G, H, a, b, cc, d))
						err := proof.HashVerify(e.suite, "PairShuffle", ver, pr)
						rounds = sp.rounds
						if err != nil {
							return "reject"
						}
						return "accept"
					})
					return v, rounds, up
				}
				verdict, rounds, up := verify(xBar, yBar)
				rep := map[string]any{"group": e.name, "nq": nq, "k": k, "e": hexList(ev), "proof": kc.HexB(pr)}
				if verdict != "accept" {
					c.Violation("C15:seq:honest-rejected", fmt.Sprintf("%s: honest sequence shuffle rejected (nq=%d k=%d)", e.name, nq, k), rep)
				}
				// one output ciphertext of one sequence replaced
				tj, ti := r.Intn(nq), r.Intn(k)
				xBar2 := make([][]kyber.Point, nq)
				for j := range xBar2 {
					xBar2[j] = append([]kyber.Point{}, xBar[j]...)
				}
				xBar2[tj][ti] = e.pt(sgUniform(r, e.q))
				v2, _, _ := verify(xBar2, yBar)
				c.Eval(2)
				c.CountKind(fmt.Sprintf("%s:seq:verify-nq%d", e.name, nq))
				if v2 != "reject" {
					c.Violation("C15:seq:accepted:output-replace", fmt.Sprintf("%s: sequence shuffle with a replaced output ciphertext accepted (nq=%d k=%d)", e.name, nq, k), rep)
				}
				// a mixer that drops a column of every sequence (or a whole sequence) and shuffles and proves honestly
				// for what is left: the claimed output is not a permutation of re-encryptions of the input
				for _, drop := range []string{"column", "sequence"} {
					var Xr, Yr [][]kyber.Point
					er := eS
					switch {
					case drop == "column" && k >= 3:
						for j := 0; j < nq; j++ {
							Xr = append(Xr, X[j][:k-1])
							Yr = append(Yr, Y[j][:k-1])
						}
					case drop == "sequence" && nq >= 2:
						Xr, Yr, er = X[:nq-1], Y[:nq-1], eS[:nq-1]
					default:
						continue
					}
					var xb2, yb2 [][]kyber.Point
					var pr2 []byte
					if kc.Recover(func() string {
						var gp func(e []kyber.Scalar) (proof.Prover, error)
						xb2, yb2, gp = shuffle.SequencesShuffle(e.suite, G, H, Xr, Yr, kc.NewRng(seed+1))
						p, err := gp(er)
						if err != nil {
							return "err"
						}
						pr2, err = proof.HashProve(e.suite, "PairShuffle", p)
						if err != nil {
							return "err"
						}
						return "ok"
					}) != "ok" {
						continue
					}
					v3 := kc.Recover(func() string {
						a, b, cc, d := shuffle.GetSequenceVerifiable(e.suite, X, Y, xb2, yb2, eS)
						if proof.HashVerify(e.suite, "PairShuffle", shuffle.Verifier(e.suite, G, H, a, b, cc, d), pr2) != nil {
							return "reject"
						}
						return "accept"
					})
					c.Eval(1)
					c.CountKind(fmt.Sprintf("%s:seq:dropped-%s:%s", e.name, drop, v3))
					if v3 == "accept" {
						c.Violation("C15:seq:accepted:dropped-"+drop, fmt.Sprintf("%s: a sequence shuffle whose output lacks a %s of the input is accepted (nq=%d k=%d)", e.name, drop, nq, k), rep)
					}
				}
				if !known {
					continue
				}
				// model: the combination of GetSequenceVerifiable, then the pair shuffle on the combined vectors
				flat := func(m [][]*big.Int) string {
					var all []*big.Int
					for _, row := range m {
						all = append(all, row...)
					}
					return hexList(all)
				}
				comb := make([][]*big.Int, 5) // xUp yUp xDown yDown beta2, filled by the model
				srcs := []string{flat(x), flat(y), flat(xb), flat(yb), flat(beta)}
				var lines []string
				for _, s := range srcs {
					lines = append(lines, fmt.Sprintf("shuffle seq %s %x %x %s %s", kc.HexN(e.q), k, nq, hexList(ev), s))
				}
				outs := c.Model(lines)
				c.Program(len(lines))
				okc := true
				for i, o := range outs {
					for _, f := range strings.Split(o, ",") {
						v, ok := new(big.Int).SetString(f, 16)
						if !ok {
							okc = false
							break
						}
						comb[i] = append(comb[i], v)
					}
					if len(comb[i]) != k {
						okc = false
					}
				}
				if okc {
					for w := 0; w < 4 && okc; w++ {
						for i := 0; i < k; i++ {
							if !e.pt(comb[w][i]).Equal(up[w][i]) {
								okc = false
							}
						}
					}
				}
				if !okc {
					c.Disagree(lines[0], "GetSequenceVerifiable", strings.Join(outs, " "), "sequence combination")
					c.Unshown("correspondence:seq-combine", fmt.Sprintf("%s: model combination of sequences differs from GetSequenceVerifiable (nq=%d k=%d)", e.name, nq, k), rep)
					continue
				}
				pline := fmt.Sprintf("shuffle pprove %s %x %s %s %s %s %s %s %s %s", kc.HexN(e.q), k, kc.HexN(g), kc.HexN(h), permStr(pi),
					hexList(comb[4]), hexList(comb[0]), hexList(comb[1]), hexList(spy.pri), roundsStr(spy.rounds))
				in := &shInst{k: k, g: g, h: h, x: comb[0], y: comb[1], xbar: comb[2], ybar: comb[3]}
				batch = append(batch, shLine{pline, func(out string) {
					ok := false
					if strings.HasPrefix(out, "ok ") {
						if b, err := hexDecode(out[3:]); err == nil {
							ok = (e.mock && string(b) == string(pr)) || (!e.mock && e.sameTranscript(b, cells))
						}
					}
					if !ok {
						c.Disagree(pline, kc.HexB(pr), out, "sequence prover transcript")
						c.Unshown("correspondence:seq-prove", fmt.Sprintf("%s: model prover for the sequence shuffle differs (nq=%d k=%d)", e.name, nq, k), rep)
					} else {
						c.Nontrivial(fmt.Sprintf("seq|%s|%d|%d|%v|%s", e.name, nq, k, pi, hexList(ev)))
					}
				}})
				if e.mock {
					cs := &shCase{env: e, kind: fmt.Sprintf("seq-honest-nq%d", nq), in: in, proofB: pr, mockB: pr, verdict: verdict, rounds: rounds, replay: rep}
					t.cases = append(t.cases, cs)
				}
			}
		}
	}
	t.modelBatch(batch)
}

// ---------------------------------------------------------------------------------------------
// biffle

func c15Biffle(t *shRun, envs []*sgEnv) {
	c := t.c
	var batch []shLine
	n := c.N(12, 60)
	for _, e := range envs {
		e := e
		r := c.Rng.Fork("biffle/" + e.name)
		z := zq{e.q}
		for it := 0; it < n; it++ {
			g, h := big.NewInt(1), sgUniform(r, e.q)
			if it%3 == 0 {
				g = sgUniform(r, e.q)
			}
			G, H := e.pt(g), e.pt(h)
			x, y := rndVec(r, e.q, 2), rndVec(r, e.q, 2)
			X := [2]kyber.Point{e.pt(x[0]), e.pt(x[1])}
			Y := [2]kyber.Point{e.pt(y[0]), e.pt(y[1])}
			seed := r.U64()
			var Xbar, Ybar [2]kyber.Point
			var prover proof.Prover
			if kc.Recover(func() string {
				Xbar, Ybar, prover = shuffle.Biffle(e.suite, G, H, X, Y, kc.NewRng(seed))
				return "ok"
			}) != "ok" {
				c.Violation("C15:biffle:panics", e.name+": Biffle panics", nil)
				continue
			}
			// bit and blinding factors re-derived from an equal stream
			r2 := kc.NewRng(seed)
			var buf [1]byte
			random.Bytes(buf[:], r2)
			bit := int(buf[0] & 1)
			beta := []*big.Int{e.scBig(e.suite.Scalar().Pick(r2)), e.scBig(e.suite.Scalar().Pick(r2))}
			xb := make([]*big.Int, 2)
			yb := make([]*big.Int, 2)
			known := true
			for i := 0; i < 2; i++ {
				p := i ^ bit
				xb[i] = z.add(x[p], z.mul(beta[p], g))
				yb[i] = z.add(y[p], z.mul(beta[p], h))
				if !e.pt(xb[i]).Equal(Xbar[i]) || !e.pt(yb[i]).Equal(Ybar[i]) {
					known = false
				}
			}
			sp, spy := sgSpyProver(e, prover)
			var pr []byte
			if kc.Recover(func() string {
				b, err := proof.HashProve(e.suite, "Biffle", sp)
				if err != nil {
					return "err"
				}
				pr = b
				return "ok"
			}) != "ok" {
				c.Violation("C15:biffle:prove-fails", e.name+": honest Biffle prover fails", nil)
				continue
			}
			var cells []sgCell
			for _, m := range spy.puts {
				cells = append(cells, m...)
			}
			c.Eval(1)
			c.CountKind(fmt.Sprintf("%s:biffle:prove-bit%d", e.name, bit))
			var mock []byte
			if known {
				pline := fmt.Sprintf("shuffle bprove %s %s %s %s %s %s %s %s %x %s %s", kc.HexN(e.q), kc.HexN(g), kc.HexN(h), hexList(x), hexList(y),
					hexList(xb), hexList(yb), hexList(beta), bit, hexList(spy.pri), kc.HexN(sgFirst(spy.pub)))
				out := c.Model([]string{pline})[0]
				c.Program(1)
				if strings.HasPrefix(out, "ok ") {
					if b, err := hexDecode(out[3:]); err == nil && ((e.mock && string(b) == string(pr)) || (!e.mock && e.sameTranscript(b, cells))) {
						mock = b
					}
				}
				if mock == nil {
					c.Disagree(pline, kc.HexB(pr), out, "biffle prover transcript")
					c.Unshown("correspondence:biffle-prove", e.name+": model biffle prover differs from the real one", map[string]any{"line": pline})
				} else {
					c.Nontrivial(fmt.Sprintf("biffle|%s|%d|%s", e.name, bit, hexList(beta)))
				}
			} else {
				c.CountKind(e.name + ":biffle:bit-not-rederived")
			}
			vcase := func(kind string, xb, yb []*big.Int, expect string) {
				XB := [2]kyber.Point{e.pt(xb[0]), e.pt(xb[1])}
				YB := [2]kyber.Point{e.pt(yb[0]), e.pt(yb[1])}
				ver, vs := sgSpyVerifier(e, shuffle.BiffleVerifier(e.suite, G, H, X, Y, XB, YB))
				verdict := kc.Recover(func() string {
					if proof.HashVerify(e.suite, "Biffle", ver, pr) != nil {
						return "reject"
					}
					return "accept"
				})
				c.Eval(1)
				c.CountKind(e.name + ":biffle:" + kind)
				rep := map[string]any{"group": e.name, "kind": kind, "x": hexList(x), "y": hexList(y), "xbar": hexList(xb), "ybar": hexList(yb), "proof": kc.HexB(pr), "verdict": verdict}
				if expect != "" && verdict != expect {
					c.Violation("C15:biffle:"+kind+":"+verdict, fmt.Sprintf("%s: biffle %s: verifier says %s, property says %s", e.name, kind, verdict, expect), rep)
				}
				if mock == nil {
					return
				}
				line := fmt.Sprintf("shuffle bverify %s %s %s %s %s %s %s %s %s", kc.HexN(e.q), kc.HexN(g), kc.HexN(h), hexList(x), hexList(y), hexList(xb), hexList(yb),
					kc.HexB(mock), kc.HexN(sgFirst(vs.pub)))
				batch = append(batch, shLine{line, func(out string) {
					if stripClass(out) != verdict {
						c.Disagree(line, verdict, out, kind)
						c.DisChecked(1)
						c.Unshown("correspondence:biffle-verify:"+kind, fmt.Sprintf("%s: biffle %s: real %s, model %s", e.name, kind, verdict, out), rep)
					}
				}})
			}
			if !known {
				continue
			}
			vcase("honest", xb, yb, "accept")
			cl := func(l []*big.Int) []*big.Int { return append([]*big.Int{}, l...) }
			a, b := cl(xb), cl(yb)
			a[0] = sgUniform(r, e.q)
			vcase("output-replace", a, b, "reject")
			a, b = cl(xb), cl(yb)
			a[0], b[0] = a[1], b[1]
			vcase("output-duplicate", a, b, "reject")
			a, b = cl(xb), cl(yb)
			a[0], b[0] = z.add(a[0], a[1]), z.add(b[0], b[1])
			vcase("output-homomorphic-sum", a, b, "reject")
			a, b = cl(xb), cl(yb)
			a[0], a[1], b[0], b[1] = a[1], a[0], b[1], b[0]
			vcase("output-swap-no-reproof", a, b, "")
			a, b = cl(xb), cl(yb)
			b[1] = z.add(b[1], big.NewInt(1))
			vcase("output-plaintext-shift", a, b, "reject")
		}
	}
	t.modelBatch(batch)
}
