package main

// Shared pieces of the C10 (VSS) and C11 (Rabin DKG) harness: a variant-neutral view of the two vss
// packages, conversions between kyber scalars and big.Int, model-line rendering.

import (
	"encoding/binary"
	"fmt"
	"math/big"
	"strings"

	"go.dedis.ch/kyber/v4"

	"verifharness/internal/kc"
)

// vssSuite is the method set both vss packages require of a suite.
type vssSuite interface {
	kyber.Group
	kyber.HashFactory
	kyber.XOFFactory
	kyber.Random
}

func revBytes(b []byte) []byte {
	o := make([]byte, len(b))
	for i := range b {
		o[len(b)-1-i] = b[i]
	}
	return o
}

// sc2big reads a scalar through its canonical encoding.
func sc2big(s kyber.Scalar) *big.Int {
	b, err := s.MarshalBinary()
	if err != nil {
		panic("sc2big: " + err.Error())
	}
	if s.ByteOrder() == kyber.LittleEndian {
		b = revBytes(b)
	}
	return new(big.Int).SetBytes(b)
}

// big2sc builds the scalar of value v mod q.
func big2sc(g kyber.Group, q, v *big.Int) kyber.Scalar {
	s := g.Scalar()
	b := new(big.Int).Mod(v, q).FillBytes(make([]byte, s.MarshalSize()))
	if s.ByteOrder() == kyber.LittleEndian {
		b = revBytes(b)
	}
	return s.SetBytes(b)
}

// mdeal is a deal in harness-neutral form together with the discrete-log view the model needs.
type mdeal struct {
	sid    []byte
	i      uint32
	v      *big.Int // SecShare.V (nil = absent scalar)
	ri     uint32
	rv     *big.Int
	t      uint32
	cpts   []kyber.Point
	clogs  []*big.Int // model logarithms of cpts (surrogate homomorphic image on real groups)
	nilSec bool
	// csid: the session identifier the deal's content yields when it differs from the announced one
	// (an equivocating dealer); nil = the deal announces its own identifier
	csid []byte
}

func (d *mdeal) clone() *mdeal {
	c := *d
	c.sid = append([]byte{}, d.sid...)
	if d.csid != nil {
		c.csid = append([]byte{}, d.csid...)
	}
	if d.v != nil {
		c.v = new(big.Int).Set(d.v)
	}
	if d.rv != nil {
		c.rv = new(big.Int).Set(d.rv)
	}
	c.cpts = append([]kyber.Point{}, d.cpts...)
	c.clogs = make([]*big.Int, len(d.clogs))
	for k := range d.clogs {
		c.clogs[k] = new(big.Int).Set(d.clogs[k])
	}
	return &c
}

// sidTable interns session identifiers as small model tokens (1, 2, …).
type sidTable struct{ m map[string]int }

func (t *sidTable) tok(b []byte) string {
	if t.m == nil {
		t.m = map[string]int{}
	}
	k := string(b)
	if _, ok := t.m[k]; !ok {
		t.m[k] = len(t.m) + 1
	}
	return fmt.Sprintf("%x", t.m[k])
}

func (d *mdeal) line(st *sidTable) string {
	z := big.NewInt(0)
	v, rv := d.v, d.rv
	if v == nil {
		v = z
	}
	if rv == nil {
		rv = z
	}
	line := fmt.Sprintf("%s/%x/%s/%x/%s/%x/%s", st.tok(d.sid), d.i, kc.HexN(v), d.ri, kc.HexN(rv), d.t, kc.HexNList(d.clogs))
	if d.csid != nil {
		line += "/" + st.tok(d.csid)
	}
	return line
}

func b01(b bool) string {
	if b {
		return "1"
	}
	return "0"
}

// mresp is a response in neutral form.
type mresp struct {
	sid      []byte
	idx      uint32
	approved bool
	sig      []byte
	sigOK    bool // ground truth known to the harness (who signed what)
}

func (r *mresp) line(st *sidTable) string {
	return fmt.Sprintf("R:%s:%x:%s:%s", st.tok(r.sid), r.idx, b01(r.approved), b01(r.sigOK))
}

// mjust is a justification in neutral form.
type mjust struct {
	sid   []byte
	idx   uint32
	deal  *mdeal
	sig   []byte
	sigOK bool
	kind  string // good | bad | other | garbage | othergarbage | noise
}

func (j *mjust) line(st *sidTable) string {
	return fmt.Sprintf("J:%x:%s:%s", j.idx, b01(j.sigOK), j.deal.line(st))
}

// aggSnap is the aggregation state of a participant in canonical form (same rendering as
// Drive/Vss.lean: `<cert>/<enough|->/<bad>,<timeout>,<t>,<sid|n>,<hasDeal>,<responses>`).
type aggSnap struct {
	present   bool
	cert      string // "1" | "0" | "panic"
	enough    string // "1" | "0" | "-" | "panic"
	bad       bool
	timeout   bool
	t         uint32
	sid       []byte
	sidNil    bool
	hasDeal   bool
	responses map[uint32]bool
}

func (s *aggSnap) render(st *sidTable) string {
	if !s.present {
		return s.cert + "/-/nil"
	}
	sid := "n"
	if !s.sidNil {
		sid = st.tok(s.sid)
	}
	var sb strings.Builder
	n := 0
	for i := uint32(0); n < len(s.responses) && i < 1<<16; i++ {
		if a, ok := s.responses[i]; ok {
			n++
			if a {
				fmt.Fprintf(&sb, "%x+", i)
			} else {
				fmt.Fprintf(&sb, "%x-", i)
			}
		}
	}
	rs := sb.String()
	if rs == "" {
		rs = "-"
	}
	return fmt.Sprintf("%s/%s/%s,%s,%x,%s,%s,%s", s.cert, s.enough, b01(s.bad), b01(s.timeout), s.t, sid, b01(s.hasDeal), rs)
}

func (s *aggSnap) approvals() int {
	k := 0
	for _, a := range s.responses {
		if a {
			k++
		}
	}
	return k
}

func (s *aggSnap) openComplaint() bool {
	for _, a := range s.responses {
		if !a {
			return true
		}
	}
	return false
}

// vssBackend hides the differences between share/vss/pedersen and share/vss/rabin.
// Node ids: 0..n-1 are the verifiers, -1 is the dealer.
type vssBackend interface {
	variant() string // "p" | "r"
	// setup creates n verifier key pairs, an honest dealer (real NewDealer) and the n verifiers.
	setup(n, t int) error
	// newSession creates another honest dealer with the same keys (an older session, for replays).
	newSession() (vssBackend, error)
	hlog() *big.Int
	plain(i int) *mdeal // the honest dealer's plaintext deal for i with its model view
	secret() *big.Int   // the honest dealer's secret
	dealerSID() []byte
	// contentSID: the session identifier the deal's content yields (dealer key, verifier keys, commitments, t),
	// computed as share/vss/*: sessionID does
	contentSID(d *mdeal) []byte
	encHonest(i int) (any, error)        // real EncryptedDeal(i)
	encFor(i int, d *mdeal) (any, error) // hook: arbitrary deal through the real encryption path
	encRaw(i int, pt []byte) (any, error)
	marshalDeal(d *mdeal) ([]byte, error)
	tamperSig(e any) any
	// operations; every call runs under recover and returns a coarse outcome:
	// approve | complain | ok | justif | err | panic
	procDeal(v int, e any) (string, *mresp, string)
	procResp(node int, r *mresp) (string, *mjust, string)
	procJust(v int, j *mjust) (string, string)
	setTimeout(node int) string
	unsafeSet(node int, idx uint32, approved bool) string
	setThreshold(node int, t uint32) string
	verifyDeal(node int, d *mdeal, incl bool) (string, string)
	snap(node int) *aggSnap
	signResp(j int, sid []byte, idx uint32, approved bool) []byte
	signJust(sid []byte, idx uint32, d *mdeal) []byte
	// certified deal of verifier v (nil if not certified) as (sid, index, share)
	certDeal(v int) (ok bool, sid []byte, idx uint32, share *big.Int)
	// recover runs the package's RecoverSecret over the certified deals of the given verifiers
	recover(vs []int) (*big.Int, error)
	dealerSecretCommitOK() (certified bool, ok bool)
}

// coarse maps the model's fine outcome to the level compared with the implementation
// (error text is not pinned by the property).
func coarse(out string) string {
	if strings.HasPrefix(out, "err:") {
		return "err"
	}
	return out
}

// vssContentSID mirrors share/vss/{pedersen,rabin}: sessionID.
func vssContentSID(suite vssSuite, dealer kyber.Point, verifiers []kyber.Point, d *mdeal) []byte {
	h := suite.Hash()
	_, _ = dealer.MarshalTo(h)
	for _, v := range verifiers {
		_, _ = v.MarshalTo(h)
	}
	for _, c := range d.cpts {
		_, _ = c.MarshalTo(h)
	}
	_ = binary.Write(h, binary.LittleEndian, d.t)
	return h.Sum(nil)
}
