package main

// Forged shuffle transcripts (C15). With the discrete logarithms of all points known to the harness
// (mock group, and real groups whose points the harness generated from scalars), a transcript that
// satisfies any chosen subset of the verification equations is obtained by solving those equations
// mod q. Each forging prover is a proof.Prover: it Puts messages with the layout of the real proof and
// obtains its challenges from the real Fiat–Shamir context, so the result is a genuine proof string.
//
// The verification equations of Neff's pair shuffle (shuffle/pair.go, shuffle/simple.go):
//   ss(j), j = 0..2k-1 : the chain equations of the embedded simple shuffle
//   bind               : the simple shuffle's vectors are A + λB and C + λD
//   e33(i)             : σ_i Γ = W_i + D_i
//   e34, e35           : Λ1 + τG = Σ σ_i X̄_i − ρ_i X_i  and the same with Λ2, H, Ȳ, Y
// A witness for equation E passes every equation except E, for an output that is not a permutation of
// re-encryptions of the input. A verifier that accepts a witness has skipped E.

import (
	"math/big"

	"go.dedis.ch/kyber/v4"
	"go.dedis.ch/kyber/v4/proof"

	"verifharness/internal/kc"
)

type zq struct{ q *big.Int }

func (z zq) mod(a *big.Int) *big.Int    { return new(big.Int).Mod(a, z.q) }
func (z zq) add(a, b *big.Int) *big.Int { return z.mod(new(big.Int).Add(a, b)) }
func (z zq) sub(a, b *big.Int) *big.Int { return z.mod(new(big.Int).Sub(a, b)) }
func (z zq) mul(a, b *big.Int) *big.Int { return z.mod(new(big.Int).Mul(a, b)) }
func (z zq) neg(a *big.Int) *big.Int    { return z.mod(new(big.Int).Neg(a)) }
func (z zq) inv(a *big.Int) *big.Int    { return new(big.Int).ModInverse(z.mod(a), z.q) }
func (z zq) div(a, b *big.Int) *big.Int { return z.mul(a, z.inv(b)) }
func (z zq) dot(a, b []*big.Int) *big.Int {
	s := new(big.Int)
	for i := range a {
		s.Add(s, new(big.Int).Mul(a[i], b[i]))
	}
	return z.mod(s)
}

// shInst: a pair-shuffle statement in the discrete-log representation.
type shInst struct {
	k          int
	g, h       *big.Int   // logs of G, H
	x, y       []*big.Int // logs of the input pairs
	xbar, ybar []*big.Int // logs of the claimed output
}

func (e *sgEnv) pts(l []*big.Int) []kyber.Point {
	out := make([]kyber.Point, len(l))
	for i, v := range l {
		out[i] = e.pt(v)
	}
	return out
}
func (e *sgEnv) scs(l []*big.Int) []kyber.Scalar {
	out := make([]kyber.Scalar, len(l))
	for i, v := range l {
		out[i] = e.sc(v)
	}
	return out
}

func rndVec(r *kc.Rng, q *big.Int, n int) []*big.Int {
	out := make([]*big.Int, n)
	for i := range out {
		out[i] = sgUniform(r, q)
	}
	return out
}

// solve2 solves a11 u + a12 v = b1, a21 u + a22 v = b2 (nil if singular).
func (z zq) solve2(a11, a12, a21, a22, b1, b2 *big.Int) (u, v *big.Int) {
	det := z.sub(z.mul(a11, a22), z.mul(a12, a21))
	if det.Sign() == 0 {
		return nil, nil
	}
	u = z.div(z.sub(z.mul(b1, a22), z.mul(a12, b2)), det)
	v = z.div(z.sub(z.mul(a11, b2), z.mul(b1, a21)), det)
	return
}

// ---------------------------------------------------------------------------------------------
// simple shuffle

// ssForge runs the simple-shuffle prover formulas on (x, y) — a valid instance or not — leaving out
// chain equation `skip` (skip < 0: none is left out, which is the honest prover). Responses before
// `skip` are propagated forward from the challenge, those from `skip` on backward.
func ssForge(e *sgEnv, r *kc.Rng, ctx proof.ProverContext, k int, g, gamma *big.Int, x, y []*big.Int, skip int, rec *[]byte) error {
	z := zq{e.q}
	X := make([]*big.Int, k)
	Y := make([]*big.Int, k)
	for i := 0; i < k; i++ {
		X[i] = z.mul(x[i], g)
		Y[i] = z.mul(y[i], g)
	}
	if err := e.putP(ctx, rec, append(append([]*big.Int{}, X...), Y...)); err != nil {
		return err
	}
	ts := make([]kyber.Scalar, 1)
	if err := ctx.PubRand(ts); err != nil {
		return err
	}
	t := e.scBig(ts[0])
	xh := make([]*big.Int, k)
	yh := make([]*big.Int, k)
	for i := 0; i < k; i++ {
		xh[i] = z.sub(x[i], t)
		yh[i] = z.sub(y[i], z.mul(gamma, t))
		if xh[i].Sign() == 0 || yh[i].Sign() == 0 {
			return errDegenerate
		}
	}
	thlen := 2*k - 1
	th := rndVec(r, e.q, thlen)
	Th := make([]*big.Int, thlen+1)
	Th[0] = z.mul(z.neg(z.mul(th[0], yh[0])), g)
	for i := 1; i < k; i++ {
		Th[i] = z.mul(z.sub(z.mul(th[i-1], xh[i]), z.mul(th[i], yh[i])), g)
	}
	for i := k; i < thlen; i++ {
		Th[i] = z.mul(z.sub(z.mul(th[i-1], gamma), th[i]), g)
	}
	Th[thlen] = z.mul(z.mul(th[thlen-1], gamma), g)
	if err := e.putP(ctx, rec, Th); err != nil {
		return err
	}
	cs := make([]kyber.Scalar, 1)
	if err := ctx.PubRand(cs); err != nil {
		return err
	}
	c := e.scBig(cs[0])
	// coefficient of c in alpha_i: forward F_i, backward B_i
	F := make([]*big.Int, thlen)
	F[0] = z.div(xh[0], yh[0])
	for i := 1; i < k; i++ {
		F[i] = z.div(z.mul(F[i-1], xh[i]), yh[i])
	}
	for i := k; i < thlen; i++ {
		F[i] = z.mul(F[i-1], gamma)
	}
	B := make([]*big.Int, thlen)
	B[thlen-1] = z.inv(gamma)
	for i := thlen - 1; i >= 1; i-- {
		if i >= k {
			B[i-1] = z.div(B[i], gamma)
		} else {
			B[i-1] = z.div(z.mul(B[i], yh[i]), xh[i])
		}
	}
	al := make([]*big.Int, thlen)
	for i := 0; i < thlen; i++ {
		co := B[i]
		if skip >= 0 && i < skip {
			co = F[i]
		}
		if skip < 0 {
			// honest prover: forward up to k-1, backward after (simple.go)
			if i < k {
				co = F[i]
			}
		}
		al[i] = z.add(th[i], z.mul(c, co))
	}
	return e.putS(ctx, rec, al)
}

// putP / putS send points / scalars given by their logs and append their mock encoding to rec.
func (e *sgEnv) putP(ctx proof.ProverContext, rec *[]byte, logs []*big.Int) error {
	if rec != nil {
		for _, v := range logs {
			*rec = append(*rec, e.mockP(v)...)
		}
	}
	return ctx.Put(e.pts(logs))
}
func (e *sgEnv) putS(ctx proof.ProverContext, rec *[]byte, vals []*big.Int) error {
	if rec != nil {
		for _, v := range vals {
			*rec = append(*rec, e.mockS(v)...)
		}
	}
	return ctx.Put(e.scs(vals))
}

func bindish(skip string) bool { return skip == "bind" || skip == "bindX" || skip == "bindY" }

type degErr struct{}

func (degErr) Error() string { return "degenerate challenge" }

var errDegenerate = degErr{}

// ---------------------------------------------------------------------------------------------
// pair shuffle

// pairForgeOpts selects the equation the forged transcript leaves unsatisfied.
type pairForgeOpts struct {
	skip   string // "bind" | "e33" | "ss"
	index  int    // e33: which i; ss: which chain equation
	public bool   // bind only: use no discrete logs (output must be M·input for an invertible M, given as rows)
	m      [][]*big.Int
}

// pairForge builds a proof for the statement `in` (whose output need not be a shuffle of its input)
// that satisfies every verification equation except the one selected.
func pairForge(e *sgEnv, r *kc.Rng, in *shInst, o pairForgeOpts, rec *[]byte) proof.Prover {
	return func(ctx proof.ProverContext) error {
		z := zq{e.q}
		k := in.k
		gamma := sgUniform(r, e.q)
		Gamma := z.mul(gamma, in.g)
		a := rndVec(r, e.q, k) // logs of A (as points: a_i·G)
		u := rndVec(r, e.q, k)
		w := rndVec(r, e.q, k)
		cc := rndVec(r, e.q, k) // logs of C relative to G
		A := make([]*big.Int, k)
		C := make([]*big.Int, k)
		U := make([]*big.Int, k)
		W := make([]*big.Int, k)
		// a hidden permutation for the parts that stay honest
		pi := sgPerm(r, k)
		for i := 0; i < k; i++ {
			A[i] = z.mul(a[i], in.g)
			U[i] = z.mul(u[i], in.g)
			W[i] = z.mul(z.mul(gamma, w[i]), in.g)
			if bindish(o.skip) {
				C[i] = z.mul(cc[i], in.g)
			} else {
				C[i] = z.mul(z.mul(gamma, a[pi[i]]), in.g)
			}
		}
		l := sgUniform(r, e.q)
		L1, L2 := z.mul(l, in.g), z.mul(l, in.h)
		p1 := append([]*big.Int{Gamma}, A...)
		p1 = append(append(append(p1, C...), U...), W...)
		p1 = append(p1, L1, L2)
		if err := e.putP(ctx, rec, p1); err != nil {
			return err
		}
		rhoS := make([]kyber.Scalar, k)
		if err := ctx.PubRand(rhoS); err != nil {
			return err
		}
		rho := make([]*big.Int, k)
		b := make([]*big.Int, k)
		for i := range rho {
			rho[i] = e.scBig(rhoS[i])
			b[i] = z.sub(rho[i], u[i])
		}
		// responses sigma, tau satisfying (34) and (35) for the claimed output
		sigma := make([]*big.Int, k)
		var tau *big.Int
		if o.public {
			// sigma = M^{-T} rho is computed by the caller as rows of M^{-T}
			for i := 0; i < k; i++ {
				sigma[i] = z.dot(o.m[i], rho)
			}
			tau = z.neg(l)
		} else {
			for i := range sigma {
				if bindish(o.skip) {
					sigma[i] = sgUniform(r, e.q)
				} else {
					sigma[i] = z.add(w[i], b[pi[i]]) // the value (33) and the binding force
				}
			}
			j0 := o.index % k
			solved := false
			for try := 0; try < k && !solved; try++ {
				j := (j0 + try) % k
				if o.skip == "ss" || bindish(o.skip) {
					j = try % k
				}
				// unknowns sigma_j and tau
				r1 := z.add(z.dot(rho, in.x), L1)
				r2 := z.add(z.dot(rho, in.y), L2)
				for i := 0; i < k; i++ {
					if i != j {
						r1 = z.sub(r1, z.mul(sigma[i], in.xbar[i]))
						r2 = z.sub(r2, z.mul(sigma[i], in.ybar[i]))
					}
				}
				// sigma_j xbar_j − tau g = r1 ; sigma_j ybar_j − tau h = r2
				sj, tj := z.solve2(in.xbar[j], z.neg(in.g), in.ybar[j], z.neg(in.h), r1, r2)
				if sj != nil {
					sigma[j], tau = sj, tj
					solved = true
				}
			}
			if !solved {
				return errDegenerate
			}
		}
		D := make([]*big.Int, k)
		d := make([]*big.Int, k)
		for i := 0; i < k; i++ {
			if o.skip == "e33" {
				d[i] = z.mul(gamma, b[pi[i]]) // honest D: (33) fails exactly where sigma was re-solved
			} else {
				d[i] = z.sub(z.mul(sigma[i], gamma), z.mul(gamma, w[i])) // (33): sigma_i Γ = W_i + D_i
			}
			D[i] = z.mul(d[i], in.g)
		}
		if err := e.putP(ctx, rec, D); err != nil {
			return err
		}
		lamS := make([]kyber.Scalar, 1)
		if err := ctx.PubRand(lamS); err != nil {
			return err
		}
		lam := e.scBig(lamS[0])
		if err := e.putS(ctx, rec, append(append([]*big.Int{}, sigma...), tau)); err != nil {
			return err
		}
		// embedded simple shuffle
		rr := make([]*big.Int, k)
		ss := make([]*big.Int, k)
		switch o.skip {
		case "bindY":
			// the first link holds (the simple shuffle's X vector is A + λB), its Y vector is a valid simple
			// shuffle of that but not C + λD
			p2 := sgPerm(r, k)
			for i := 0; i < k; i++ {
				rr[i] = z.add(a[i], z.mul(lam, b[i]))
			}
			for i := 0; i < k; i++ {
				ss[i] = z.mul(gamma, rr[p2[i]])
			}
			return ssForge(e, r, ctx, k, in.g, gamma, rr, ss, -1, rec)
		case "bindX":
			// the second link holds (Y vector C + λD), the X vector is whatever makes the simple shuffle valid
			p2 := sgPerm(r, k)
			for i := 0; i < k; i++ {
				ss[i] = z.add(cc[i], z.mul(lam, d[i]))
			}
			for i := 0; i < k; i++ {
				rr[p2[i]] = z.div(ss[i], gamma)
			}
			return ssForge(e, r, ctx, k, in.g, gamma, rr, ss, -1, rec)
		case "bind":
			// any valid simple shuffle w.r.t. (G, Γ): its vectors are unrelated to A, B, C, D
			x0 := rndVec(r, e.q, k)
			p2 := sgPerm(r, k)
			for i := 0; i < k; i++ {
				rr[i] = x0[i]
				ss[i] = z.mul(gamma, x0[p2[i]])
			}
			return ssForge(e, r, ctx, k, in.g, gamma, rr, ss, -1, rec)
		default:
			// the vectors the binding forces: r = a + λ b, s = (c + λ d)/g-log
			for i := 0; i < k; i++ {
				rr[i] = z.add(a[i], z.mul(lam, b[i]))
				ss[i] = z.add(z.mul(gamma, a[pi[i]]), z.mul(lam, d[i]))
			}
			skip := -1
			if o.skip == "ss" {
				skip = o.index % (2 * k)
			}
			return ssForge(e, r, ctx, k, in.g, gamma, rr, ss, skip, rec)
		}
	}
}
