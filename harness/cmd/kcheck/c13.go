package main

// C13 — PVSS and DLEQ: only correct shares verify; any t verified shares recover.
//
// The real share/pvss and proof/dleq packages run over Ed25519, P-256 (thorough: more) and the mock
// discrete-log group through a suite wrapper that (a) makes RandomStream deterministic, so that the
// harness can re-derive every scalar the real code drew (coefficients, DLEQ commitments) by replaying
// the same stream through kyber's own NewPriPoly / Pick, and (b) records every digest produced through
// suite.Hash(), which gives the Fiat–Shamir oracle value of each call. With these the Lean model
// (Proto/Pvss.lean, theorems Props/C13.lean) predicts every output field in the discrete-log
// representation; points are compared with one real Mul. Independently of the model, the property
// predicate is evaluated on the real code: honest objects verify, every single-field mutation and
// cross-trustee swap is rejected and excluded from the batch results, recovery from >= t verified
// shares gives secret·G and never a wrong point, fewer than t are refused.

import (
	"crypto/cipher"
	"crypto/sha256"
	"fmt"
	"hash"
	"io"
	"math/big"
	"reflect"
	"runtime/debug"
	"strings"

	"go.dedis.ch/fixbuf"
	"go.dedis.ch/kyber/v4"
	"go.dedis.ch/kyber/v4/proof/dleq"
	"go.dedis.ch/kyber/v4/share"
	"go.dedis.ch/kyber/v4/share/pvss"
	"go.dedis.ch/kyber/v4/xof/blake2xb"

	"verifharness/internal/kc"
)

// pvSuite implements pvss.Suite / dleq.Suite over any kyber.Group.
type pvSuite struct {
	kyber.Group
	rnd     *kc.Rng
	digests [][]byte
}

type pvHash struct {
	hash.Hash
	s *pvSuite
}

func (h *pvHash) Sum(b []byte) []byte {
	d := h.Hash.Sum(nil)
	h.s.digests = append(h.s.digests, d)
	return append(b, d...)
}

func (s *pvSuite) Hash() hash.Hash                      { return &pvHash{sha256.New(), s} }
func (s *pvSuite) XOF(seed []byte) kyber.XOF            { return blake2xb.New(seed) }
func (s *pvSuite) RandomStream() cipher.Stream          { return s.rnd }
func (s *pvSuite) Read(r io.Reader, objs ...any) error  { return fixbuf.Read(r, s, objs...) }
func (s *pvSuite) Write(w io.Writer, objs ...any) error { return fixbuf.Write(w, objs...) }
func (s *pvSuite) New(t reflect.Type) any {
	switch t {
	case reflect.TypeFor[kyber.Scalar]():
		return s.Scalar()
	case reflect.TypeFor[kyber.Point]():
		return s.Point()
	}
	return nil
}

// pvLog is a PubVerShare in the discrete-log representation.
type pvLog struct {
	I               uint32
	V, C, R, VG, VH *big.Int
}

func (l pvLog) tok() string {
	return fmt.Sprintf("%x:%s:%s:%s:%s:%s", l.I, kc.HexN(l.V), kc.HexN(l.C), kc.HexN(l.R), kc.HexN(l.VG), kc.HexN(l.VH))
}

func pvToks(l []pvLog) string {
	if len(l) == 0 {
		return "-"
	}
	s := make([]string, len(l))
	for i := range l {
		s[i] = l[i].tok()
	}
	return strings.Join(s, ",")
}

func pvParseTok(s string) (pvLog, bool) {
	f := strings.Split(s, ":")
	if len(f) != 6 {
		return pvLog{}, false
	}
	v := make([]*big.Int, 6)
	for i := range f {
		x, ok := new(big.Int).SetString(f[i], 16)
		if !ok {
			return pvLog{}, false
		}
		v[i] = x
	}
	return pvLog{uint32(v[0].Uint64()), v[1], v[2], v[3], v[4], v[5]}, true
}

type pvScen struct {
	h        *shG
	su       *pvSuite
	n, t     int
	hl       *big.Int // log of H
	H        kyber.Point
	xs       []*big.Int // private keys
	X        []kyber.Point
	secret   *big.Int
	coeffs   []*big.Int
	enc      []*pvss.PubVerShare // real dealer output
	encL     []pvLog             // its discrete logs (model prediction, verified)
	pub      *share.PubPoly
	sH       []kyber.Point
	sHL      []*big.Int
	c        *big.Int // global challenge (observed)
	dec      []*pvss.PubVerShare
	decL     []pvLog
	bindFlag string     // "<bindEnc><bindDec>" as probed on the real code
	vs       []*big.Int // the dealer's proof nonces (replayed random stream)
}

// real builds the real object for a share in discrete-log form.
func (sc *pvScen) real(l pvLog) *pvss.PubVerShare {
	h := sc.h
	return &pvss.PubVerShare{S: share.PubShare{I: l.I, V: h.pt(l.V)},
		P: dleq.Proof{C: h.sc(l.C), R: h.sc(l.R), VG: h.pt(l.VG), VH: h.pt(l.VH)}}
}

func (sc *pvScen) reals(l []pvLog) []*pvss.PubVerShare {
	out := make([]*pvss.PubVerShare, len(l))
	for i := range l {
		out[i] = sc.real(l[i])
	}
	return out
}

// matches: real share equals the discrete-log form.
func (sc *pvScen) matches(r *pvss.PubVerShare, l pvLog) bool {
	h := sc.h
	return r != nil && r.S.I == l.I && h.isLog(r.S.V, l.V) && h.big(r.P.C).Cmp(l.C) == 0 && h.big(r.P.R).Cmp(l.R) == 0 &&
		h.isLog(r.P.VG, l.VG) && h.isLog(r.P.VH, l.VH)
}

// chal converts a recorded digest into the oracle value (Pick(XOF(digest)), as the code derives it).
func (sc *pvScen) chal(d []byte) *big.Int {
	return sc.h.big(sc.h.g.Scalar().Pick(blake2xb.New(d)))
}

type pvCase struct {
	kind   string
	line   string
	got    string // exact output, or "" when check != nil
	check  func(model string) bool
	pred   string // failed predicate ("" = holds / not applicable)
	key    string // violation key for pred
	nt     bool
	replay map[string]any
}

type pvRun struct {
	c     *kc.Ctx
	cases []pvCase
}

func (r *pvRun) add(cs pvCase) { r.cases = append(r.cases, cs) }

func pvHexBigs(l []*big.Int) string { return kc.HexNList(l) }

func pvNonzero(rng *kc.Rng, q *big.Int) *big.Int {
	for {
		v := rng.BigBelow(q)
		if v.Sign() != 0 {
			return v
		}
	}
}

func pvBoolOfErr(err error) string { return fmt.Sprint(err == nil) }

// newPvScen deals one PVSS instance with the real EncShares and establishes all discrete logs.
func newPvScen(r *pvRun, h *shG, rng *kc.Rng, n, t int, secretMode int) *pvScen {
	sc := &pvScen{h: h, n: n, t: t, su: &pvSuite{Group: h.g}}
	q := h.q
	sc.hl = pvNonzero(rng, q)
	sc.H = h.pt(sc.hl)
	seen := map[string]bool{}
	for len(sc.xs) < n {
		x := pvNonzero(rng, q)
		if seen[x.String()] {
			continue
		}
		seen[x.String()] = true
		sc.xs = append(sc.xs, x)
		sc.X = append(sc.X, h.pt(x))
	}
	switch secretMode {
	case 0:
		sc.secret = big.NewInt(0)
	case 1:
		sc.secret = new(big.Int).Sub(q, big.NewInt(1))
	default:
		sc.secret = rng.BigBelow(q)
	}
	seed := rng.U64()
	sc.su.rnd = kc.NewRng(seed)
	sc.su.digests = nil
	enc, pub, err := pvss.EncShares(sc.su, sc.H, sc.X, h.sc(sc.secret), uint32(t))
	if err != nil || len(sc.su.digests) != 1 || len(enc) != n {
		r.c.Violation("C13:EncShares:honest", fmt.Sprintf("EncShares failed on honest input: %v", err), nil)
		return nil
	}
	sc.enc, sc.pub = enc, pub
	sc.c = h.big(enc[0].P.C)
	// replay the random stream through kyber's own NewPriPoly / Pick
	rp := kc.NewRng(seed)
	pp := share.NewPriPoly(h.g, uint32(t), h.sc(sc.secret), rp)
	for _, cf := range pp.Coefficients() {
		sc.coeffs = append(sc.coeffs, h.big(cf))
	}
	vs := make([]*big.Int, n)
	for i := range vs {
		vs[i] = h.big(h.g.Scalar().Pick(rp))
	}
	sc.vs = vs
	line := fmt.Sprintf("pvss %s enc %s %s %s %s %s", kc.HexN(q), kc.HexN(sc.hl), pvHexBigs(sc.xs), pvHexBigs(sc.coeffs), pvHexBigs(vs), kc.HexN(sc.c))
	_, commits := pub.Info()
	r.add(pvCase{kind: "EncShares", line: line, nt: true, check: func(model string) bool {
		f := strings.Fields(model)
		if len(f) != 2 {
			return false
		}
		toks := strings.Split(f[0], ",")
		if len(toks) != n {
			return false
		}
		sc.encL = nil
		for i, tk := range toks {
			l, ok := pvParseTok(tk)
			if !ok || !sc.matches(enc[i], l) {
				return false
			}
			sc.encL = append(sc.encL, l)
		}
		return h.pointsMatch(commits, f[1])
	}})
	return sc
}

// c13OffsetDealer: a dealer that builds the batch itself and adds offsetting errors +D / -D to two encrypted
// shares, with the global challenge and all responses computed over the altered list. Each altered share
// fails its own consistency equation (vH_i = r_i X_i + c sX_i is off by c·D) and must be excluded from the
// batch result; only the sum of the equations still balances.
func c13OffsetDealer(r *pvRun, sc *pvScen, rng *kc.Rng) {
	h, n := sc.h, sc.n
	if n < 2 || len(sc.vs) != n || len(sc.coeffs) == 0 {
		return
	}
	i := rng.Intn(n)
	j := (i + 1 + rng.Intn(n-1)) % n
	D := h.pt(pvNonzero(rng, h.q))
	pp := share.CoefficientsToPriPoly(h.g, func() []kyber.Scalar {
		var cs []kyber.Scalar
		for _, c := range sc.coeffs {
			cs = append(cs, h.sc(c))
		}
		return cs
	}())
	enc := make([]*pvss.PubVerShare, n)
	sH := make([]kyber.Point, n)
	for k := 0; k < n; k++ {
		cp := *sc.enc[k]
		cp.S.V = sc.enc[k].S.V.Clone()
		if k == i {
			cp.S.V.Add(cp.S.V, D)
		}
		if k == j {
			cp.S.V.Sub(cp.S.V, D)
		}
		enc[k] = &cp
		sH[k] = sc.pub.Eval(uint32(k)).V
	}
	// the global challenge over the altered list, as pvss.computeGlobalChallenge does
	hh := sc.su.Hash()
	for k := 0; k < n; k++ {
		sH[k].MarshalTo(hh)
	}
	for k := 0; k < n; k++ {
		enc[k].S.V.MarshalTo(hh)
	}
	for k := 0; k < n; k++ {
		enc[k].P.VG.MarshalTo(hh)
	}
	for k := 0; k < n; k++ {
		enc[k].P.VH.MarshalTo(hh)
	}
	c := h.g.Scalar().Pick(sc.su.XOF(hh.Sum(nil)))
	for k := 0; k < n; k++ {
		sk := pp.Eval(uint32(k)).V
		enc[k].P.C = c.Clone()
		enc[k].P.R = h.g.Scalar().Sub(h.sc(sc.vs[k]), h.g.Scalar().Mul(sk, c))
	}
	var E []*pvss.PubVerShare
	var err error
	pvGuard(r.c, "VerifyEncShareBatch/offset-dealer", func() { _, E, err = pvss.VerifyEncShareBatch(sc.su, sc.H, sc.X, sH, sc.pub, enc) })
	r.c.Eval(1)
	r.c.CountKind(h.name + ":offset-dealer")
	if err != nil {
		return // refusing the whole batch excludes the altered shares too
	}
	kept := map[uint32]bool{}
	for _, e := range E {
		kept[e.S.I] = true
	}
	// control: the unaltered positions are consistent with the new challenge and are kept
	others := 0
	for k := 0; k < n; k++ {
		if k != i && k != j && kept[uint32(k)] {
			others++
		}
	}
	if kept[uint32(i)] || kept[uint32(j)] {
		r.c.Violation("C13:VerifyEncShareBatch:offsetting-errors-accepted", fmt.Sprintf("%s: n=%d t=%d: encrypted shares %d and %d were altered by +D / -D (challenge and responses recomputed by the dealer) and are in the batch result", h.name, n, sc.t, i, j),
			map[string]any{"group": h.name, "n": n, "t": sc.t, "i": i, "j": j})
	} else if others != n-2 {
		r.c.Unshown("harness:c13-offset-dealer", fmt.Sprintf("%s: n=%d: the %d unaltered shares of the dealer-built batch should verify, %d do", h.name, n, n-2, others), nil)
	}
}

// c13ObjectHistory: verification is a function of the object's present contents and of the arguments of this
// call: a share object that verified once is altered in place, or checked under another trustee's key, or handed
// to another trustee for decryption — and must then be refused.
func c13ObjectHistory(r *pvRun, sc *pvScen, rng *kc.Rng) {
	h := sc.h
	if len(sc.enc) < 1 {
		return
	}
	i := rng.Intn(sc.n)
	sH := sc.pub.Eval(uint32(i)).V
	c := sc.enc[i].P.C
	obj := &pvss.PubVerShare{S: share.PubShare{I: sc.enc[i].S.I, V: sc.enc[i].S.V.Clone()},
		P: dleq.Proof{C: sc.enc[i].P.C.Clone(), R: sc.enc[i].P.R.Clone(), VG: sc.enc[i].P.VG.Clone(), VH: sc.enc[i].P.VH.Clone()}}
	fail := func(key, what string) {
		r.c.Violation("C13:object-history:"+key, fmt.Sprintf("%s: n=%d t=%d share %d: %s", h.name, sc.n, sc.t, i, what), map[string]any{"group": h.name, "n": sc.n, "t": sc.t, "share": i})
	}
	pvGuard(r.c, "VerifyEncShare/object-history", func() {
		if err := pvss.VerifyEncShare(sc.su, sc.H, sc.X[i], sH, c, obj); err != nil {
			return // the honest share must verify: reported elsewhere
		}
		r.c.Eval(1)
		r.c.CountKind(h.name + ":object-history")
		// under another trustee's key
		if sc.n > 1 {
			j := (i + 1 + rng.Intn(sc.n-1)) % sc.n
			if pvss.VerifyEncShare(sc.su, sc.H, sc.X[j], sH, c, obj) == nil {
				fail("other-key", fmt.Sprintf("an encrypted share that verified for trustee %d also verifies under the key of trustee %d", i, j))
			}
			if _, err := pvss.DecShare(sc.su, sc.H, sc.X[j], sH, h.sc(sc.xs[j]), c, obj); err == nil {
				fail("other-trustee-decrypts", fmt.Sprintf("trustee %d 'decrypts' the share of trustee %d (its consistency check passed)", j, i))
			}
		}
		// altered in place after it verified
		obj.P.R.Add(obj.P.R, h.g.Scalar().One())
		if pvss.VerifyEncShare(sc.su, sc.H, sc.X[i], sH, c, obj) == nil {
			fail("altered-response", "an encrypted share whose proof response was altered in place after a successful check still verifies")
		}
		obj.P.R.Sub(obj.P.R, h.g.Scalar().One())
		obj.S.V.Add(obj.S.V, h.g.Point().Base())
		if pvss.VerifyEncShare(sc.su, sc.H, sc.X[i], sH, c, obj) == nil {
			fail("altered-share", "an encrypted share whose value was altered in place after a successful check still verifies")
		}
		if K, E, err := pvss.VerifyEncShareBatch(sc.su, sc.H, sc.X[i:i+1], []kyber.Point{sH}, sc.pub, []*pvss.PubVerShare{obj}); err == nil && (len(K) != 0 || len(E) != 0) && sc.n == 1 {
			fail("altered-share-batch", "the batch keeps an encrypted share altered in place after a successful check")
		}
	})
}

// c13DecBatch: DecShareBatch is DecShare applied to every element of the lists: the triples it returns are exactly
// those for which DecShare succeeds on (X[i], sH[i], challenge[i], encShares[i]), in order, with the same
// decrypted values. The lists mix the trustee's own share with tuples carrying another trustee's key, another
// commitment, and complete tuples of other trustees.
func c13DecBatch(r *pvRun, sc *pvScen, rng *kc.Rng) {
	h := sc.h
	if len(sc.enc) < 2 || sc.n < 2 {
		return
	}
	j := rng.Intn(sc.n)
	i := (j + 1 + rng.Intn(sc.n-1)) % sc.n
	x := h.sc(sc.xs[j])
	c := sc.enc[j].P.C // the global challenge of the dealing
	sHof := func(k int) kyber.Point { return sc.pub.Eval(uint32(k)).V }
	type ent struct {
		X, sH kyber.Point
		e     *pvss.PubVerShare
		what  string
	}
	ents := []ent{
		{sc.X[j], sHof(j), sc.enc[j], "own share"},
		{sc.X[i], sHof(j), sc.enc[j], "own share listed under another trustee's key"},
		{sc.X[j], sHof(i), sc.enc[j], "own share listed with another commitment"},
		{sc.X[i], sHof(i), sc.enc[i], "another trustee's complete tuple"},
		{sc.X[j], sHof(j), sc.enc[j], "own share again"},
		{sc.X[j], sHof(j), sc.enc[i], "another trustee's share listed under the own key"},
	}
	// the first element stays the honest one; the others in random order
	for a := len(ents) - 1; a > 1; a-- {
		b := 1 + rng.Intn(a)
		ents[a], ents[b] = ents[b], ents[a]
	}
	var X, sH []kyber.Point
	var cs []kyber.Scalar
	var E []*pvss.PubVerShare
	var want []int
	var wantV []kyber.Point
	pvGuard(r.c, "DecShareBatch", func() {
		for k, en := range ents {
			X, sH, cs, E = append(X, en.X), append(sH, en.sH), append(cs, c), append(E, en.e)
			if d, err := pvss.DecShare(sc.su, sc.H, en.X, en.sH, x, c, en.e); err == nil {
				want = append(want, k)
				wantV = append(wantV, d.S.V)
			}
		}
		K, EE, D, err := pvss.DecShareBatch(sc.su, sc.H, X, sH, x, cs, E)
		r.c.Eval(len(ents))
		r.c.CountKind(h.name + ":DecShareBatch")
		rep := map[string]any{"group": h.name, "n": sc.n, "t": sc.t, "trustee": j, "other": i}
		var order []string
		for _, en := range ents {
			order = append(order, en.what)
		}
		rep["elements"] = order
		bad := ""
		switch {
		case err != nil:
			bad = "error " + err.Error()
		case len(K) != len(want) || len(EE) != len(want) || len(D) != len(want):
			bad = fmt.Sprintf("returns %d/%d/%d triples, DecShare succeeds on %d elements (%v)", len(K), len(EE), len(D), len(want), want)
		default:
			for k, w := range want {
				if !K[k].Equal(ents[w].X) || EE[k] != ents[w].e || !D[k].S.V.Equal(wantV[k]) || D[k].S.I != ents[w].e.S.I {
					bad = fmt.Sprintf("triple %d is not the result of DecShare on element %d (%s)", k, w, ents[w].what)
					break
				}
			}
		}
		if bad != "" {
			r.c.Violation("C13:DecShareBatch:not-elementwise", fmt.Sprintf("%s: DecShareBatch %s", h.name, bad), rep)
		}
	})
}

// c13WeakFS: a trustee that knows its key but wants a WRONG decrypted share accepted. The decryption proof is a
// Fiat–Shamir proof whose statement contains a value the prover picks itself (the decrypted share): if the
// challenge does not cover every part of statement and commitment, the part left out can be solved for after
// the challenge is known. Two attempts, each of which must be refused:
//
//	"V last":  commit (VG = vG, VH arbitrary), learn c, r = v - c·x, then V' = r^-1 (VH - c·sX);
//	"VH last": pick a wrong V', commit VG = vG, learn c, r = v - c·x, then VH = r·V' + c·sX.
//
// The challenge the code expects is read off the code itself: VerifyDecShare is called on a dummy proof and
// the digest it computes is recorded by the suite's hash wrapper.
func c13WeakFS(r *pvRun, sc *pvScen, rng *kc.Rng) {
	h := sc.h
	if len(sc.enc) == 0 {
		return
	}
	i := rng.Intn(sc.n)
	x := h.sc(sc.xs[i])
	X, enc := sc.X[i], sc.enc[i]
	G := h.g.Point().Base()
	for _, hyp := range []string{"V-last", "VH-last"} {
		v := h.sc(pvNonzero(rng, h.q))
		VG := h.g.Point().Mul(v, nil)
		oracle := func(V, VH kyber.Point) kyber.Scalar {
			sc.su.digests = nil
			dummy := &pvss.PubVerShare{S: share.PubShare{I: enc.S.I, V: V}, P: dleq.Proof{C: h.g.Scalar().Zero(), R: h.g.Scalar().Zero(), VG: VG, VH: VH}}
			_ = pvss.VerifyDecShare(sc.su, nil, X, enc, dummy)
			if len(sc.su.digests) == 0 {
				return nil
			}
			return h.g.Scalar().Pick(sc.su.XOF(sc.su.digests[len(sc.su.digests)-1]))
		}
		var V, VH kyber.Point
		var c, rr kyber.Scalar
		switch hyp {
		case "V-last":
			VH = h.pt(pvNonzero(rng, h.q))
			c = oracle(G, VH)
			if c == nil {
				continue
			}
			rr = h.g.Scalar().Sub(v, h.g.Scalar().Mul(c, x))
			V = h.g.Point().Mul(h.g.Scalar().Inv(rr), h.g.Point().Sub(VH, h.g.Point().Mul(c, enc.S.V)))
		case "VH-last":
			V = h.pt(pvNonzero(rng, h.q))
			c = oracle(V, G)
			if c == nil {
				continue
			}
			rr = h.g.Scalar().Sub(v, h.g.Scalar().Mul(c, x))
			VH = h.g.Point().Add(h.g.Point().Mul(rr, V), h.g.Point().Mul(c, enc.S.V))
		}
		truth := h.g.Point().Mul(h.g.Scalar().Inv(x), enc.S.V)
		if V.Equal(truth) {
			continue
		}
		forged := &pvss.PubVerShare{S: share.PubShare{I: enc.S.I, V: V}, P: dleq.Proof{C: c, R: rr, VG: VG, VH: VH}}
		var err error
		pvGuard(r.c, "VerifyDecShare/weak-fiat-shamir", func() { err = pvss.VerifyDecShare(sc.su, nil, X, enc, forged) })
		r.c.Eval(1)
		r.c.CountKind(h.name + ":weak-fs:" + hyp)
		if err == nil {
			r.c.Violation("C13:VerifyDecShare:weak-fiat-shamir:"+hyp, fmt.Sprintf("%s: n=%d t=%d: trustee %d gets a wrong decrypted share accepted: the challenge does not cover the part of the proof it fixed last (%s)", h.name, sc.n, sc.t, i, hyp),
				map[string]any{"group": h.name, "n": sc.n, "t": sc.t, "trustee": i, "attack": hyp})
		}
	}
}

// finish is called after the model confirmed the logs of the dealer output (encL set).
func (sc *pvScen) ready() bool { return len(sc.encL) == sc.n }

// mutation of one field of a share in log form
type pvMut struct {
	name string
	f    func(l pvLog, other pvLog) pvLog
}

func pvAddOne(v *big.Int, q *big.Int) *big.Int {
	r := new(big.Int).Add(v, big.NewInt(1))
	return r.Mod(r, q)
}

func pvMutations(q *big.Int) []pvMut {
	return []pvMut{
		{"I", func(l, o pvLog) pvLog { l.I = o.I; return l }},
		{"V+1", func(l, o pvLog) pvLog { l.V = pvAddOne(l.V, q); return l }},
		{"V-swap", func(l, o pvLog) pvLog { l.V = o.V; return l }},
		{"C+1", func(l, o pvLog) pvLog { l.C = pvAddOne(l.C, q); return l }},
		{"R+1", func(l, o pvLog) pvLog { l.R = pvAddOne(l.R, q); return l }},
		{"R-swap", func(l, o pvLog) pvLog { l.R = o.R; return l }},
		{"VG+1", func(l, o pvLog) pvLog { l.VG = pvAddOne(l.VG, q); return l }},
		{"VG-swap", func(l, o pvLog) pvLog { l.VG = o.VG; return l }},
		{"VH+1", func(l, o pvLog) pvLog { l.VH = pvAddOne(l.VH, q); return l }},
		{"VH-swap", func(l, o pvLog) pvLog { l.VH = o.VH; return l }},
		{"proof-swap", func(l, o pvLog) pvLog { l.C, l.R, l.VG, l.VH = o.C, o.R, o.VG, o.VH; return l }},
		{"share-swap", func(l, o pvLog) pvLog { return o }},
		{"S-swap", func(l, o pvLog) pvLog { l.I, l.V = o.I, o.V; return l }},
	}
}

// pvClass says what a mutation actually changed: "" (nothing: the values coincide, e.g. all shares of a
// constant polynomial are equal), "I" (only the index field) or "fields".
func pvClass(orig, mut pvLog) string {
	vals := orig.V.Cmp(mut.V) != 0 || orig.C.Cmp(mut.C) != 0 || orig.R.Cmp(mut.R) != 0 || orig.VG.Cmp(mut.VG) != 0 || orig.VH.Cmp(mut.VH) != 0
	switch {
	case vals:
		return "fields"
	case orig.I != mut.I:
		return "I"
	}
	return ""
}

// predicate bookkeeping for a mutated object: it must be rejected; the index field is the known gap.
// class is pvClass(original, mutated) ("" = the mutation changed nothing: the object must be accepted).
func pvMutPred(what, mut, class string, accepted bool) (pred, key string) {
	switch {
	case class == "" && !accepted:
		return what + " rejects an unaltered honest share", "C13:" + what + ":honest"
	case class == "" || !accepted:
		return "", ""
	case class == "I":
		return what + " accepts a share whose index field was altered", "C13:" + what + ":index-unbound"
	}
	return fmt.Sprintf("%s accepts a share with altered %s", what, mut), "C13:" + what + ":" + mut
}

// c13Stage2 runs after the dealer output's discrete logs are confirmed by the model.
func c13Stage2(r *pvRun, sc *pvScen, rng *kc.Rng, qh string) {
	h, su, n, t := sc.h, sc.su, sc.n, sc.t
	q := h.q
	if !sc.ready() {
		return // EncShares disagreement already reported
	}
	bindEnc := sc.bindFlag[:1]
	// sH_i = commit.Eval(i).V ; logs s_i*hl from the confirmed V = s_i*x_i
	for i := 0; i < n; i++ {
		sc.sH = append(sc.sH, sc.pub.Eval(uint32(i)).V)
		xinv := new(big.Int).ModInverse(sc.xs[i], q)
		si := h.mulq(sc.encL[i].V, xinv)
		sc.sHL = append(sc.sHL, h.mulq(si, sc.hl))
		if !h.isLog(sc.sH[i], sc.sHL[i]) {
			r.c.Violation("C13:EncShares:commit-eval", "commit.Eval(i) is not s_i*H for the share encrypted for trustee i", nil)
			return
		}
	}
	xsL := make([]*big.Int, n)
	for i := range xsL {
		xsL[i] = sc.xs[i]
	}
	pubL := pvHexBigs(xsL) // logs of X_i are x_i
	muts := pvMutations(q)

	// --- VerifyEncShare: honest and mutated --------------------------------------------------
	verEnc := func(i int, l pvLog, hl, xl, sHl, expC *big.Int, mut string) {
		class := pvClass(sc.encL[i], l)
		if hl.Cmp(sc.hl) != 0 || xl.Cmp(sc.xs[i]) != 0 || sHl.Cmp(sc.sHL[i]) != 0 || expC.Cmp(sc.c) != 0 {
			class = "fields"
		}
		H, X, sHp := sc.H, sc.X[i], sc.sH[i]
		if hl.Cmp(sc.hl) != 0 {
			H = h.pt(hl)
		}
		if xl.Cmp(sc.xs[i]) != 0 {
			X = h.pt(xl)
		}
		if sHl.Cmp(sc.sHL[i]) != 0 {
			sHp = h.pt(sHl)
		}
		var e *pvss.PubVerShare
		if mut == "" {
			e = sc.enc[i]
		} else {
			e = sc.real(l)
		}
		err := pvss.VerifyEncShare(su, H, X, sHp, h.sc(expC), e)
		cs := pvCase{kind: "VerifyEncShare", got: pvBoolOfErr(err), nt: true,
			line:   fmt.Sprintf("pvss %s verifyenc %s %s %s %s %s", qh, kc.HexN(hl), kc.HexN(xl), kc.HexN(sHl), kc.HexN(expC), l.tok()),
			replay: map[string]any{"group": h.name, "n": n, "t": t, "trustee": i, "mutation": mut}}
		if mut == "" && err != nil {
			cs.pred, cs.key = "honest encrypted share rejected", "C13:VerifyEncShare:honest"
		}
		if mut != "" {
			cs.pred, cs.key = pvMutPred("VerifyEncShare", mut, class, err == nil)
		}
		r.add(cs)
	}
	for i := 0; i < n; i++ {
		verEnc(i, sc.encL[i], sc.hl, sc.xs[i], sc.sHL[i], sc.c, "")
	}
	for k := 0; k < 2 && n >= 2; k++ {
		i := rng.Intn(n)
		j := (i + 1 + rng.Intn(n-1)) % n
		for _, m := range muts {
			ml := m.f(sc.encL[i], sc.encL[j])
			verEnc(i, ml, sc.hl, sc.xs[i], sc.sHL[i], sc.c, m.name)
		}
		// statement mutations
		verEnc(i, sc.encL[i], pvAddOne(sc.hl, q), sc.xs[i], sc.sHL[i], sc.c, "H+1")
		verEnc(i, sc.encL[i], sc.hl, sc.xs[j], sc.sHL[i], sc.c, "X-swap")
		verEnc(i, sc.encL[i], sc.hl, sc.xs[i], sc.sHL[j], sc.c, "sH-swap")
		verEnc(i, sc.encL[i], sc.hl, sc.xs[i], pvAddOne(sc.sHL[i], q), sc.c, "sH+1")
		verEnc(i, sc.encL[i], sc.hl, sc.xs[i], sc.sHL[i], pvAddOne(sc.c, q), "expC+1")
	}

	// --- VerifyEncShareBatch -----------------------------------------------------------------
	encBatch := func(ls []pvLog, useReal bool, pub *share.PubPoly, mut string, mutPos int) {
		class := "fields"
		if mutPos >= 0 && mut != "commit+1" && mut != "exchange" {
			class = pvClass(sc.encL[mutPos], ls[mutPos])
		}
		var es []*pvss.PubVerShare
		if useReal {
			es = sc.enc
		} else {
			es = sc.reals(ls)
		}
		su.digests = nil
		K, E, err := pvss.VerifyEncShareBatch(su, sc.H, sc.X, sc.sH, pub, es)
		cs := pvCase{kind: "VerifyEncShareBatch", nt: true, replay: map[string]any{"group": h.name, "n": n, "t": t, "mutation": mut, "position": mutPos}}
		if err != nil || len(su.digests) != 1 {
			cs.got = "err"
			cs.line = fmt.Sprintf("pvss %s verifyencbatch %s %s %s %s %s 0", qh, bindEnc, kc.HexN(sc.hl), pubL, pvHexBigs(sc.sHL), pvToks(ls))
			if mut == "" {
				cs.pred, cs.key = "VerifyEncShareBatch failed on the honest dealer output", "C13:VerifyEncShareBatch:honest"
			}
			r.add(cs)
			return
		}
		chal := sc.chal(su.digests[0])
		// positions kept: E entries are pointers into es
		var kept []*big.Int
		pos := map[*pvss.PubVerShare]int{}
		for i, e := range es {
			pos[e] = i
		}
		okKE := len(K) == len(E)
		for k, e := range E {
			p, ok := pos[e]
			if !ok || !K[k].Equal(sc.X[p]) {
				okKE = false
			}
			kept = append(kept, big.NewInt(int64(p)))
		}
		cs.got = kc.HexNList(kept)
		cs.line = fmt.Sprintf("pvss %s verifyencbatch %s %s %s %s %s %s", qh, bindEnc, kc.HexN(sc.hl), pubL, pvHexBigs(sc.sHL), pvToks(ls), kc.HexN(chal))
		switch {
		case !okKE:
			cs.pred, cs.key = "VerifyEncShareBatch returns keys that do not correspond to the returned shares", "C13:VerifyEncShareBatch:KE"
		case mut == "" && len(E) != n:
			cs.pred, cs.key = "VerifyEncShareBatch dropped honest shares", "C13:VerifyEncShareBatch:honest"
		case mut != "":
			acc := false
			for _, kp := range kept {
				if int(kp.Int64()) == mutPos {
					acc = true
				}
			}
			cs.pred, cs.key = pvMutPred("VerifyEncShareBatch", mut, class, acc)
		}
		r.add(cs)
	}
	encBatch(sc.encL, true, sc.pub, "", -1)
	if n >= 2 {
		i := rng.Intn(n)
		j := (i + 1 + rng.Intn(n-1)) % n
		for _, m := range muts {
			ls := append([]pvLog{}, sc.encL...)
			ls[i] = m.f(sc.encL[i], sc.encL[j])
			encBatch(ls, false, sc.pub, m.name, i)
		}
		// two shares exchanged between trustees
		ls := append([]pvLog{}, sc.encL...)
		ls[i], ls[j] = ls[j], ls[i]
		if pvClass(sc.encL[i], sc.encL[j]) == "fields" {
			encBatch(ls, false, sc.pub, "exchange", i)
		}
		// a commitment of the polynomial altered
		_, cm := sc.pub.Info()
		cm2 := make([]kyber.Point, len(cm))
		for k := range cm {
			cm2[k] = cm[k].Clone()
		}
		k := rng.Intn(len(cm2))
		cm2[k] = h.g.Point().Add(cm2[k], h.g.Point().Base())
		encBatch(sc.encL, false, share.NewPubPoly(h.g, sc.H, cm2), "commit+1", 0)
	}

	// --- DecShare ------------------------------------------------------------------------------
	for i := 0; i < n; i++ {
		seed := rng.U64()
		su.rnd = kc.NewRng(seed)
		su.digests = nil
		d, err := pvss.DecShare(su, sc.H, sc.X[i], sc.sH[i], h.sc(sc.xs[i]), h.sc(sc.c), sc.enc[i])
		if err != nil || len(su.digests) != 1 {
			r.c.Violation("C13:DecShare:honest", fmt.Sprintf("DecShare failed on an honest share: %v", err), map[string]any{"group": h.name, "n": n, "t": t, "trustee": i})
			return
		}
		v := h.big(h.g.Scalar().Pick(kc.NewRng(seed)))
		cp := h.big(d.P.C)
		sc.dec = append(sc.dec, d)
		sc.decL = append(sc.decL, pvLog{})
		cs := pvCase{kind: "DecShare", nt: true,
			line: fmt.Sprintf("pvss %s dec %s %s %s %s %s %s %s %s", qh, kc.HexN(sc.hl), kc.HexN(sc.xs[i]), kc.HexN(sc.sHL[i]), kc.HexN(sc.xs[i]), kc.HexN(sc.c), sc.encL[i].tok(), kc.HexN(v), kc.HexN(cp)),
			check: func(model string) bool {
				l, ok := pvParseTok(model)
				if !ok || !sc.matches(d, l) {
					return false
				}
				sc.decL[i] = l
				return true
			}}
		// S_i = s_i*G
		xinv := new(big.Int).ModInverse(sc.xs[i], q)
		if !h.isLog(d.S.V, h.mulq(sc.encL[i].V, xinv)) || d.S.I != uint32(i) {
			cs.pred, cs.key = "DecShare does not return (i, s_i*G)", "C13:DecShare:value"
		}
		r.add(cs)
		// the oracle derivation the harness mirrors gives the challenge the prover stored
		if sc.chal(su.digests[0]).Cmp(cp) != 0 {
			r.c.Unshown("C13:oracle-derivation", "Pick(XOF(digest)) no longer reproduces the stored challenge; oracle values cannot be observed", nil)
			return
		}
	}
	// DecShare on mutated encrypted shares: refused, or (index) propagates the index
	for k := 0; k < 1 && n >= 2; k++ {
		i := rng.Intn(n)
		j := (i + 1 + rng.Intn(n-1)) % n
		for _, m := range muts {
			ml := m.f(sc.encL[i], sc.encL[j])
			seed := rng.U64()
			su.rnd = kc.NewRng(seed)
			su.digests = nil
			d, err := pvss.DecShare(su, sc.H, sc.X[i], sc.sH[i], h.sc(sc.xs[i]), h.sc(sc.c), sc.real(ml))
			v := h.big(h.g.Scalar().Pick(kc.NewRng(seed)))
			cp := big.NewInt(0)
			if err == nil {
				cp = h.big(d.P.C)
			}
			cs := pvCase{kind: "DecShare-mutated", nt: true,
				line:   fmt.Sprintf("pvss %s dec %s %s %s %s %s %s %s %s", qh, kc.HexN(sc.hl), kc.HexN(sc.xs[i]), kc.HexN(sc.sHL[i]), kc.HexN(sc.xs[i]), kc.HexN(sc.c), ml.tok(), kc.HexN(v), kc.HexN(cp)),
				replay: map[string]any{"group": h.name, "n": n, "t": t, "trustee": i, "mutation": m.name}}
			if err != nil {
				cs.got = "err"
			} else {
				dd := d
				cs.check = func(model string) bool {
					l, ok := pvParseTok(model)
					return ok && sc.matches(dd, l)
				}
			}
			cs.pred, cs.key = pvMutPred("DecShare", m.name, pvClass(sc.encL[i], ml), err == nil)
			r.add(cs)
		}
	}
	r.c.CountKind(h.name + ":dec-stage")
}

// c13Stage3 runs after the model confirmed the logs of the decrypted shares.
func c13Stage3(r *pvRun, sc *pvScen, rng *kc.Rng, qh string, exhaustive bool) {
	h, su, n, t := sc.h, sc.su, sc.n, sc.t
	q := h.q
	if len(sc.decL) != n {
		return
	}
	for i := range sc.decL {
		if sc.decL[i].V == nil {
			return
		}
	}
	bindDec := sc.bindFlag[1:]
	muts := pvMutations(q)
	one := big.NewInt(1)
	// --- VerifyDecShare: honest and mutated ---------------------------------------------------
	verDec := func(i int, dl pvLog, el pvLog, xl, gl *big.Int, mut string) {
		class := pvClass(sc.decL[i], dl)
		// of the encrypted share only V (and, with the index check, I) enters VerifyDecShare
		if el.V.Cmp(sc.encL[i].V) != 0 || xl.Cmp(sc.xs[i]) != 0 || gl.Cmp(one) != 0 {
			class = "fields"
		} else if class == "" && el.I != sc.encL[i].I {
			class = "I"
		}
		var G kyber.Point // nil = standard base (as RecoverSecret callers pass it)
		if gl.Cmp(one) != 0 {
			G = h.pt(gl)
		} else if rng.Bool() {
			G = h.g.Point().Base()
		}
		X := sc.X[i]
		if xl.Cmp(sc.xs[i]) != 0 {
			X = h.pt(xl)
		}
		var e, d *pvss.PubVerShare
		if mut == "" {
			e, d = sc.enc[i], sc.dec[i]
		} else {
			e, d = sc.real(el), sc.real(dl)
		}
		su.digests = nil
		err := pvss.VerifyDecShare(su, G, X, e, d)
		chal := big.NewInt(0)
		if len(su.digests) == 1 {
			chal = sc.chal(su.digests[0])
		}
		cs := pvCase{kind: "VerifyDecShare", got: pvBoolOfErr(err), nt: true,
			line:   fmt.Sprintf("pvss %s verifydec %s %s %s %s %s %s", qh, bindDec, kc.HexN(gl), kc.HexN(xl), el.tok(), dl.tok(), kc.HexN(chal)),
			replay: map[string]any{"group": h.name, "n": n, "t": t, "trustee": i, "mutation": mut}}
		if mut == "" && err != nil {
			cs.pred, cs.key = "honest decrypted share rejected", "C13:VerifyDecShare:honest"
		}
		if mut != "" {
			cs.pred, cs.key = pvMutPred("VerifyDecShare", mut, class, err == nil)
		}
		r.add(cs)
	}
	for i := 0; i < n; i++ {
		verDec(i, sc.decL[i], sc.encL[i], sc.xs[i], one, "")
	}
	for k := 0; k < 2 && n >= 2; k++ {
		i := rng.Intn(n)
		j := (i + 1 + rng.Intn(n-1)) % n
		for _, m := range muts {
			verDec(i, m.f(sc.decL[i], sc.decL[j]), sc.encL[i], sc.xs[i], one, m.name)
		}
		verDec(i, sc.decL[i], sc.encL[j], sc.xs[i], one, "enc-swap")
		verDec(i, sc.decL[i], sc.encL[i], sc.xs[j], one, "X-swap")
		verDec(i, sc.decL[i], sc.encL[j], sc.xs[j], one, "slot-swap")
		verDec(i, sc.decL[i], sc.encL[i], sc.xs[i], big.NewInt(2), "G*2")
		em := sc.encL[i]
		em.V = pvAddOne(em.V, q)
		verDec(i, sc.decL[i], em, sc.xs[i], one, "enc.V+1")
	}

	// --- VerifyDecShareBatch / RecoverSecret on lists of triples ----------------------------------
	type triple struct {
		x    *big.Int
		e, d pvLog
		good bool   // honest triple
		idx  int    // trustee
		cls  string // for a mutated triple: what the mutation changed (pvClass)
	}
	doRecover := func(tr []triple, tt int, desc, mut string) {
		var X []kyber.Point
		var E, D []*pvss.PubVerShare
		var xl []*big.Int
		var el, dl []pvLog
		goodIdx := map[int]bool{}
		anyBad := false
		for _, x := range tr {
			X = append(X, h.pt(x.x))
			E = append(E, sc.real(x.e))
			D = append(D, sc.real(x.d))
			xl = append(xl, x.x)
			el = append(el, x.e)
			dl = append(dl, x.d)
			if x.good {
				goodIdx[x.idx] = true
			} else {
				anyBad = true
			}
		}
		// oracle value of every entry, observed on the single-share function (an entry rejected before
		// anything is hashed has none; 0 is passed to the model for it)
		var chals []*big.Int
		for k := range X {
			su.digests = nil
			_ = pvss.VerifyDecShare(su, nil, X[k], E[k], D[k])
			if len(su.digests) == 1 {
				chals = append(chals, sc.chal(su.digests[0]))
			} else {
				chals = append(chals, big.NewInt(0))
			}
		}
		// batch
		got, err := pvss.VerifyDecShareBatch(su, nil, X, E, D)
		bc := pvCase{kind: "VerifyDecShareBatch", nt: true,
			line:   fmt.Sprintf("pvss %s verifydecbatch %s 1 %s %s %s %s", qh, bindDec, pvHexBigs(xl), pvToks(el), pvToks(dl), pvHexBigs(chals)),
			replay: map[string]any{"group": h.name, "n": n, "t": t, "desc": desc, "mutation": mut}}
		if err != nil {
			bc.got = "err"
		} else {
			pos := map[*pvss.PubVerShare]int{}
			for i, d := range D {
				pos[d] = i
			}
			var kept []*big.Int
			for _, d := range got {
				kept = append(kept, big.NewInt(int64(pos[d])))
				if x := tr[pos[d]]; !x.good && x.cls != "" && x.cls != "inherited" {
					bc.pred, bc.key = pvMutPred("VerifyDecShareBatch", mut, x.cls, true)
				}
			}
			nGood := 0
			for _, x := range tr {
				if x.good {
					nGood++
				}
			}
			if bc.pred == "" && len(got) < nGood {
				bc.pred, bc.key = "VerifyDecShareBatch dropped honest shares", "C13:VerifyDecShareBatch:honest"
			}
			bc.got = kc.HexNList(kept)
		}
		r.add(bc)
		// recover
		pt, err := pvss.RecoverSecret(su, nil, X, E, D, uint32(tt), uint32(n))
		rc := pvCase{kind: "RecoverSecret", nt: true,
			line:   fmt.Sprintf("pvss %s recover %s 1 %s %s %s %s %x", qh, bindDec, pvHexBigs(xl), pvToks(el), pvToks(dl), pvHexBigs(chals), tt),
			replay: map[string]any{"group": h.name, "n": n, "t": t, "threshold_arg": tt, "desc": desc, "mutation": mut, "triples": fmt.Sprint(len(tr))}}
		if err != nil {
			rc.got = "err"
			if !anyBad && len(goodIdx) >= tt && tt >= 1 {
				rc.pred, rc.key = "RecoverSecret refused >= t verified shares", "C13:RecoverSecret:refused"
			}
		} else {
			p := pt
			rc.check = func(model string) bool {
				v, ok := new(big.Int).SetString(model, 16)
				return ok && h.isLog(p, v)
			}
			correct := h.isLog(pt, sc.secret)
			switch {
			case tt == t && !correct:
				// whatever was fed in, a point other than secret*G must never come out silently
				what := "RecoverSecret returned a point other than secret*G without error"
				key := "C13:RecoverSecret:wrong"
				if mut == "I" {
					key = "C13:RecoverSecret:decshare-index"
					what += " (index field of a decrypted share altered)"
				}
				if mut == "enc.I" {
					key = "C13:RecoverSecret:encshare-index"
					what += " (index field of an encrypted share altered; the decrypted share inherits it)"
				}
				rc.pred, rc.key = what, key
			case len(goodIdx) < tt && !anyBad:
				rc.pred, rc.key = "RecoverSecret accepted fewer than t shares", "C13:RecoverSecret:too-few"
			}
		}
		r.add(rc)
	}
	honest := func(i int) triple { return triple{sc.xs[i], sc.encL[i], sc.decL[i], true, i, ""} }
	shuffle := func(tr []triple) {
		for j := len(tr) - 1; j > 0; j-- {
			k := rng.Intn(j + 1)
			tr[j], tr[k] = tr[k], tr[j]
		}
	}
	if exhaustive {
		for mask := 0; mask < 1<<n; mask++ {
			var tr []triple
			for i := 0; i < n; i++ {
				if mask>>i&1 == 1 {
					tr = append(tr, honest(i))
				}
			}
			doRecover(tr, t, "subset", "")
			if len(tr) >= 2 {
				tr2 := append([]triple{}, tr...)
				shuffle(tr2)
				doRecover(tr2, t, "subset-shuffled", "")
			}
		}
	} else {
		for k := 0; k < 4; k++ {
			var tr []triple
			for i := 0; i < n; i++ {
				if rng.Intn(3) != 0 {
					tr = append(tr, honest(i))
				}
			}
			shuffle(tr)
			doRecover(tr, t, "subset-sampled", "")
		}
		var all []triple
		for i := 0; i < n; i++ {
			all = append(all, honest(i))
		}
		doRecover(all[:t], t, "first-t", "")
		if t >= 2 {
			doRecover(all[:t-1], t, "t-1", "")
		}
		doRecover(all[n-t:], t, "last-t", "")
	}
	// repeated triples: fewer than t distinct although len(D) >= t
	if t >= 2 {
		var tr []triple
		for k := 0; k < t; k++ {
			tr = append(tr, honest(0))
		}
		doRecover(tr, t, "repeated", "")
	}
	// mutated decrypted shares among exactly t triples (so that an accepted one is used)
	if n >= 2 {
		for _, m := range muts {
			i := rng.Intn(t)
			// partner outside the first t if possible, so that an altered index is not a duplicate
			j := (i + 1) % n
			if n > t {
				j = t + rng.Intn(n-t)
			}
			var tr []triple
			for k := 0; k < t; k++ {
				tr = append(tr, honest(k))
			}
			md := m.f(sc.decL[i], sc.decL[j])
			tr[i] = triple{sc.xs[i], sc.encL[i], md, false, i, pvClass(sc.decL[i], md)}
			if tr[i].cls == "" {
				continue
			}
			doRecover(tr, t, "t-with-mutated-dec", m.name)
			// with surplus honest shares the mutated one must simply be dropped
			var tr2 []triple
			for k := 0; k < n; k++ {
				tr2 = append(tr2, honest(k))
			}
			tr2[i] = tr[i]
			shuffle(tr2)
			doRecover(tr2, t, "all-with-mutated-dec", m.name)
		}
		// slot exchange: decrypted shares of two trustees exchanged
		if t >= 2 {
			var tr []triple
			for k := 0; k < t; k++ {
				tr = append(tr, honest(k))
			}
			tr[0].d, tr[1].d = tr[1].d, tr[0].d
			tr[0].good, tr[1].good = false, false
			tr[0].cls, tr[1].cls = pvClass(tr[1].d, tr[0].d), pvClass(tr[1].d, tr[0].d)
			doRecover(tr, t, "dec-exchanged", "exchange")
		}
		// altered index on the ENCRYPTED share, then honest decryption: the decrypted share inherits it
		{
			i := rng.Intn(t)
			j := (i + 1) % n
			if n > t {
				j = t + rng.Intn(n-t)
			}
			em := sc.encL[i]
			em.I = uint32(j)
			seed := rng.U64()
			su.rnd = kc.NewRng(seed)
			su.digests = nil
			d, err := pvss.DecShare(su, sc.H, sc.X[i], sc.sH[i], h.sc(sc.xs[i]), h.sc(sc.c), sc.real(em))
			if err == nil {
				dl := pvLog{d.S.I, sc.decL[i].V, h.big(d.P.C), h.big(d.P.R), nil, nil}
				v := h.big(h.g.Scalar().Pick(kc.NewRng(seed)))
				dl.VG = v
				dl.VH = h.mulq(v, sc.decL[i].V)
				if sc.matches(d, dl) {
					var tr []triple
					for k := 0; k < t; k++ {
						tr = append(tr, honest(k))
					}
					tr[i] = triple{sc.xs[i], em, dl, false, i, "inherited"}
					doRecover(tr, t, "t-with-enc-index-altered", "enc.I")
				}
			}
		}
	}
	r.c.CountKind(h.name + ":recover-stage")
}

func c13Compare(r *pvRun, from int) {
	c := r.c
	cases := r.cases[from:]
	lines := make([]string, len(cases))
	for i := range cases {
		lines[i] = cases[i].line
	}
	outs := c.Model(lines)
	c.Eval(len(cases))
	c.Program(len(cases))
	step := len(cases)/6 + 1
	for i := range cases {
		cs := &cases[i]
		c.CountKind(cs.kind)
		if cs.replay != nil {
			if m, ok := cs.replay["mutation"].(string); ok && m != "" {
				c.CountKind("mutation:" + m)
			}
		}
		if cs.nt {
			c.Nontrivial(cs.line)
		}
		agree := false
		impl := cs.got
		if cs.check != nil {
			agree = cs.check(outs[i])
			impl = "<real objects>"
			if agree {
				impl = "dlog:" + outs[i]
			}
		} else {
			agree = outs[i] == cs.got
		}
		if i%step == 0 {
			c.Sample(map[string]any{"kind": cs.kind, "line": cs.line, "impl_out": impl, "model_out": outs[i]})
		}
		if cs.pred != "" {
			rp := map[string]any{"line": cs.line, "impl": impl}
			for k, v := range cs.replay {
				rp[k] = v
			}
			c.Violation(cs.key, cs.pred, rp)
		}
		if agree {
			continue
		}
		c.Disagree(cs.line, impl, outs[i], cs.kind)
		c.DisChecked(1)
		if cs.pred == "" {
			c.Unshown("correspondence:"+cs.kind, fmt.Sprintf("model and implementation disagree while the property predicate holds: %s -> impl %s, model %s", cs.line, impl, outs[i]), cs.replay)
		}
	}
}

// c13Probe finds out, on the real code, whether the index fields are bound (before / after the fixes).
func c13Probe(h *shG) string {
	su := &pvSuite{Group: h.g, rnd: kc.NewRng(7)}
	H := h.pt(big.NewInt(5))
	xs := []*big.Int{big.NewInt(3), big.NewInt(4)}
	X := []kyber.Point{h.pt(xs[0]), h.pt(xs[1])}
	enc, pub, err := pvss.EncShares(su, H, X, h.sc(big.NewInt(9)), 2)
	if err != nil {
		return "00"
	}
	sH := []kyber.Point{pub.Eval(0).V, pub.Eval(1).V}
	d, err := pvss.DecShare(su, H, X[0], sH[0], h.sc(xs[0]), enc[0].P.C, enc[0])
	if err != nil {
		return "00"
	}
	bindDec := "1"
	d.S.I = 1
	if pvss.VerifyDecShare(su, nil, X[0], enc[0], d) == nil {
		bindDec = "0"
	}
	bindEnc := "1"
	enc[0].S.I = 1
	if _, E, err := pvss.VerifyEncShareBatch(su, H, X, sH, pub, enc); err == nil && len(E) == 2 {
		bindEnc = "0"
	}
	return bindEnc + bindDec
}

func c13Dleq(r *pvRun, h *shG, rng *kc.Rng, count int) {
	q := h.q
	qh := kc.HexN(q)
	su := &pvSuite{Group: h.g}
	for it := 0; it < count; it++ {
		gl, hl, x := pvNonzero(rng, q), pvNonzero(rng, q), rng.BigBelow(q)
		G, H := h.pt(gl), h.pt(hl)
		seed := rng.U64()
		su.rnd = kc.NewRng(seed)
		su.digests = nil
		p, xG, xH, err := dleq.NewDLEQProof(su, G, H, h.sc(x))
		if err != nil || len(su.digests) != 1 {
			r.c.Violation("C13:dleq:prove", "NewDLEQProof failed", nil)
			continue
		}
		v := h.big(h.g.Scalar().Pick(kc.NewRng(seed)))
		cc := h.big(p.C)
		pp, xg, xh := p, xG, xH
		cs := pvCase{kind: "NewDLEQProof", nt: true,
			line: fmt.Sprintf("pvss %s dleqprove %s %s %s %s %s", qh, kc.HexN(gl), kc.HexN(hl), kc.HexN(x), kc.HexN(v), kc.HexN(cc)),
			check: func(model string) bool {
				f := strings.Fields(model)
				if len(f) != 3 {
					return false
				}
				pf := strings.Split(f[0], ":")
				if len(pf) != 4 {
					return false
				}
				val := func(s string) *big.Int { v, _ := new(big.Int).SetString(s, 16); return v }
				return h.big(pp.C).Cmp(val(pf[0])) == 0 && h.big(pp.R).Cmp(val(pf[1])) == 0 && h.isLog(pp.VG, val(pf[2])) &&
					h.isLog(pp.VH, val(pf[3])) && h.isLog(xg, val(f[1])) && h.isLog(xh, val(f[2]))
			}}
		if p.Verify(su, G, H, xG, xH) != nil {
			cs.pred, cs.key = "proof created for x does not verify for (xG, xH)", "C13:dleq:completeness"
		}
		r.add(cs)
		// verify: honest and every single component / claimed point changed
		pl := [4]*big.Int{cc, h.big(p.R), h.mulq(v, gl), h.mulq(v, hl)}
		st := [4]*big.Int{gl, hl, h.mulq(x, gl), h.mulq(x, hl)}
		names := []string{"", "C", "R", "VG", "VH", "G", "H", "xG", "xH"}
		for m, name := range names {
			a, b := pl, st
			if m >= 1 && m <= 4 {
				a[m-1] = pvAddOne(a[m-1], q)
			} else if m >= 5 {
				b[m-5] = pvAddOne(b[m-5], q)
			}
			pr := &dleq.Proof{C: h.sc(a[0]), R: h.sc(a[1]), VG: h.pt(a[2]), VH: h.pt(a[3])}
			err := pr.Verify(su, h.pt(b[0]), h.pt(b[1]), h.pt(b[2]), h.pt(b[3]))
			vc := pvCase{kind: "dleq.Verify", got: pvBoolOfErr(err), nt: true,
				line:   fmt.Sprintf("pvss %s dleqverify %s:%s:%s:%s %s %s %s %s", qh, kc.HexN(a[0]), kc.HexN(a[1]), kc.HexN(a[2]), kc.HexN(a[3]), kc.HexN(b[0]), kc.HexN(b[1]), kc.HexN(b[2]), kc.HexN(b[3])),
				replay: map[string]any{"group": h.name, "mutation": name}}
			// changing G or H alone is harmless when the response is 0, xG/xH when the challenge is 0
			degenerate := (m >= 5 && m <= 6 && a[1].Sign() == 0) || (m >= 7 && a[0].Sign() == 0) || (m == 1 && x.Sign() == 0)
			if name == "" && err != nil {
				vc.pred, vc.key = "honest DLEQ proof rejected", "C13:dleq:completeness"
			}
			if name != "" && err == nil && !degenerate {
				vc.pred, vc.key = "DLEQ proof verifies after "+name+" was changed", "C13:dleq:"+name
			}
			r.add(vc)
		}
		// batch prover
		if it%4 == 0 {
			k := 1 + rng.Intn(4)
			var gs, hs, xsb []*big.Int
			var Gs, Hs []kyber.Point
			var S []kyber.Scalar
			for j := 0; j < k; j++ {
				a, b, s := pvNonzero(rng, q), pvNonzero(rng, q), rng.BigBelow(q)
				gs, hs, xsb = append(gs, a), append(hs, b), append(xsb, s)
				Gs, Hs, S = append(Gs, h.pt(a)), append(Hs, h.pt(b)), append(S, h.sc(s))
			}
			seed := rng.U64()
			su.rnd = kc.NewRng(seed)
			ps, xGs, xHs, err := dleq.NewDLEQProofBatch(su, Gs, Hs, S)
			if err != nil {
				r.c.Violation("C13:dleq:batch", "NewDLEQProofBatch failed", nil)
				continue
			}
			rp := kc.NewRng(seed)
			var vs []*big.Int
			for j := 0; j < k; j++ {
				vs = append(vs, h.big(h.g.Scalar().Pick(rp)))
			}
			bc := pvCase{kind: "NewDLEQProofBatch", nt: true,
				line: fmt.Sprintf("pvss %s dleqbatch %s %s %s %s %s", qh, pvHexBigs(gs), pvHexBigs(hs), pvHexBigs(xsb), pvHexBigs(vs), kc.HexN(h.big(ps[0].C))),
				check: func(model string) bool {
					f := strings.Fields(model)
					if len(f) != 3 {
						return false
					}
					pf := strings.Split(f[0], ",")
					if len(pf) != k || !h.pointsMatch(xGs, f[1]) || !h.pointsMatch(xHs, f[2]) {
						return false
					}
					for j := range pf {
						l, ok := pvParseTok("0:0:" + pf[j])
						if !ok || h.big(ps[j].C).Cmp(l.C) != 0 || h.big(ps[j].R).Cmp(l.R) != 0 || !h.isLog(ps[j].VG, l.VG) || !h.isLog(ps[j].VH, l.VH) {
							return false
						}
					}
					return true
				}}
			for j := range ps {
				if ps[j].Verify(su, Gs[j], Hs[j], xGs[j], xHs[j]) != nil {
					bc.pred, bc.key = "batch proof does not verify", "C13:dleq:completeness"
				}
			}
			r.add(bc)
			// different lengths
			if _, _, _, err := dleq.NewDLEQProofBatch(su, Gs, Hs[:k-1], S); err == nil {
				r.c.Violation("C13:dleq:batch-lengths", "NewDLEQProofBatch accepts inputs of different lengths", nil)
			}
		}
	}
}

// pvGuard runs a stage of the check; a panic of the real code on these well-typed inputs is a finding.
func pvGuard(c *kc.Ctx, what string, f func()) {
	defer func() {
		if r := recover(); r != nil {
			c.Violation("C13:panic:"+what, fmt.Sprintf("the real code panicked during %s: %v", what, r), map[string]any{"stack": string(debug.Stack())})
		}
	}()
	f()
}

func runC13(c *kc.Ctx) {
	c.SetRule("case = one call of the real pvss/dleq package (group, function, dealer instance given by n, t, keys, base H, secret, recorded randomness; for verification calls the object with at most one altered field, swapped component or exchanged slot; for recovery the list of triples as given); all are non-trivial; distinct by model line")
	c.Assume("H_RO: a Fiat–Shamir challenge is the oracle value observed from the real run (digest recorded through suite.Hash, turned into a scalar as the code does)",
		"the harness re-derives the scalars the real code drew by replaying the same deterministic stream through kyber's NewPriPoly/Pick; the discrete logs so obtained are confirmed against the real outputs before use",
		"soundness of DLEQ (a verified decrypted share is s_i*G) is computational; the recovery theorem takes it as hypothesis, the check exercises it through forged/mutated shares only")
	groupsL := shGroups(c, c.Rng.Fork("c13-mock-stream"))
	r := &pvRun{c: c}
	probe := ""
	for _, h := range groupsL {
		if h.name == "ed25519" || probe == "" {
			probe = c13Probe(h)
		}
	}
	c.Extra("index_bound_probe", map[string]string{"VerifyEncShareBatch": probe[:1], "VerifyDecShare": probe[1:]})
	var stage2 []func()
	var scens []*pvScen
	type st3 struct {
		sc  *pvScen
		rng *kc.Rng
		exh bool
	}
	var stage3 []st3
	for _, h := range groupsL {
		if c.ReplayFile != "" {
			break
		}
		rng := c.Rng.Fork("c13/" + h.name)
		var ns []int
		perN := 1
		exhN := 0
		switch {
		case h.mock != nil:
			ns, perN, exhN = []int{2, 3, 4, 5, 6, 7, 8, 9, 10}, c.N(2, 8), c.N(5, 7)
		case h.name == "ed25519":
			ns, exhN = []int{2, 3, 4, 5, 7, 10}, c.N(4, 5)
			if c.Thorough() {
				ns, perN = []int{2, 3, 4, 5, 6, 7, 8, 9, 10}, 2
			}
		default:
			ns, exhN = []int{2, 3, 5}, c.N(3, 4)
			if c.Thorough() {
				ns = []int{2, 3, 4, 5, 7, 10}
			}
		}
		qh := kc.HexN(h.q)
		for _, n := range ns {
			for t := 1; t <= n; t++ {
				for rep := 0; rep < perN; rep++ {
					var sc *pvScen
					pvGuard(c, "EncShares", func() { sc = newPvScen(r, h, rng.Fork(fmt.Sprint("scen", n, t, rep)), n, t, (n+t+rep)%4) })
					if sc == nil {
						continue
					}
					sc.bindFlag = probe
					c13OffsetDealer(r, sc, rng.Fork(fmt.Sprint("offset", n, t, rep)))
					c13WeakFS(r, sc, rng.Fork(fmt.Sprint("weakfs", n, t, rep)))
					c13ObjectHistory(r, sc, rng.Fork(fmt.Sprint("objhist", n, t, rep)))
					c13DecBatch(r, sc, rng.Fork(fmt.Sprint("decbatch", n, t, rep)))
					srng := rng.Fork(fmt.Sprint("mut", n, t, rep))
					stage2 = append(stage2, func() { c13Stage2(r, sc, srng, qh) })
					stage3 = append(stage3, st3{sc, rng.Fork(fmt.Sprint("rec", n, t, rep)), n <= exhN})
					scens = append(scens, sc)
					c.CountKind(h.name + ":scenario")
				}
			}
		}
		pvGuard(c, "dleq", func() { c13Dleq(r, h, rng.Fork("dleq"), c.N(40, 400)) })
	}
	if c.ReplayFile != "" {
		fmt.Println("C13 replays are re-executed by re-running the check with the same VERIF_SEED (cases are derived from named forks of the seed); the replay file names group, n, t and mutation")
	}
	// stage 1: dealer outputs (and DLEQ) against the model; this establishes the discrete logs
	c13Compare(r, 0)
	from := len(r.cases)
	for _, f := range stage2 {
		pvGuard(c, "verify-enc/dec-share stage", f)
	}
	c13Compare(r, from)
	from = len(r.cases)
	for _, s := range stage3 {
		s := s
		pvGuard(c, "verify-dec/recover stage", func() { c13Stage3(r, s.sc, s.rng, kc.HexN(s.sc.h.q), s.exh) })
	}
	c13Compare(r, from)
	c.Extra("scenarios", len(scens))
}

func init() { register("C13", "proof", runC13) }
