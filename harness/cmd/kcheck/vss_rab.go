package main

// Rabin VSS backend for the C10 harness (share/vss/rabin). Generated from the same template as
// vss_ped.go; the differences are the random share, the second base H and the nil aggregator.

import (
	"errors"
	"math/big"

	"go.dedis.ch/kyber/v4"
	"go.dedis.ch/kyber/v4/share"
	rvss "go.dedis.ch/kyber/v4/share/vss/rabin"
	"go.dedis.ch/kyber/v4/sign/schnorr"

	"verifharness/internal/dlgroup"
)

type rabBackend struct {
	suite  vssSuite
	q      *big.Int
	n, t   int
	vsecs  []kyber.Scalar
	vpubs  []kyber.Point
	dlong  kyber.Scalar
	dpub   kyber.Point
	sec    *big.Int
	dealer *rvss.Dealer
	vers   []*rvss.Verifier
	flog   []*big.Int // coefficients of the dealer's secret polynomial f
	glog   []*big.Int // coefficients of the blinding polynomial g
	h      *big.Int   // model logarithm of H (true log on the mock group, surrogate otherwise)
	hpt    kyber.Point
}

func newRabBackend(suite vssSuite, q *big.Int) *rabBackend { return &rabBackend{suite: suite, q: q} }

func (b *rabBackend) variant() string   { return "r" }
func (b *rabBackend) hlog() *big.Int    { return b.h }
func (b *rabBackend) secret() *big.Int  { return b.sec }
func (b *rabBackend) dealerSID() []byte { return b.dealer.SessionID() }

func (b *rabBackend) setup(n, t int) error {
	b.n, b.t = n, t
	rs := b.suite.RandomStream()
	for i := 0; i < n; i++ {
		s := b.suite.Scalar().Pick(rs)
		b.vsecs = append(b.vsecs, s)
		b.vpubs = append(b.vpubs, b.suite.Point().Mul(s, nil))
	}
	b.dlong = b.suite.Scalar().Pick(rs)
	b.dpub = b.suite.Point().Mul(b.dlong, nil)
	if err := b.mkDealer(); err != nil {
		return err
	}
	for i := 0; i < n; i++ {
		v, err := rvss.NewVerifier(b.suite, b.vsecs[i], b.dpub, b.vpubs)
		if err != nil {
			return err
		}
		b.vers = append(b.vers, v)
	}
	return nil
}

func (b *rabBackend) mkDealer() error {
	sec := b.suite.Scalar().Pick(b.suite.RandomStream())
	d, err := rvss.NewDealer(b.suite, b.dlong, sec, b.vpubs, uint32(b.t))
	if err != nil {
		return err
	}
	b.dealer = d
	b.sec = sc2big(sec)
	b.hpt = rvss.VerifDeriveH(b.suite, b.vpubs)
	if _, mock := b.suite.(*dlgroup.Suite); mock {
		b.h = dlgroup.Log(b.hpt)
	} else if b.h == nil {
		// real group: log_G H is unknown; the model sees the homomorphic image a·G + b·H -> a + b·h'
		// for a random h' (every point of the scenario is built by the harness from known (a, b))
		b.h = sc2big(b.suite.Scalar().Pick(b.suite.RandomStream()))
	}
	// recover f and g from the plaintext deals, check them against the published commitments
	fs := make([]*share.PriShare, b.t)
	gs := make([]*share.PriShare, b.t)
	var cpts []kyber.Point
	for i := 0; i < b.t; i++ {
		pd, err := d.PlaintextDeal(i)
		if err != nil {
			return err
		}
		fs[i], gs[i], cpts = pd.SecShare, pd.RndShare, pd.Commitments
	}
	fp, err := share.RecoverPriPoly(b.suite, fs, uint32(b.t), uint32(b.n))
	if err != nil {
		return err
	}
	gp, err := share.RecoverPriPoly(b.suite, gs, uint32(b.t), uint32(b.n))
	if err != nil {
		return err
	}
	b.flog, b.glog = nil, nil
	fc, gc := fp.Coefficients(), gp.Coefficients()
	if len(fc) != len(cpts) || len(gc) != len(cpts) {
		return errors.New("harness: dealer polynomial shape")
	}
	for k := range fc {
		b.flog = append(b.flog, sc2big(fc[k]))
		b.glog = append(b.glog, sc2big(gc[k]))
		c := b.suite.Point().Add(b.suite.Point().Mul(fc[k], nil), b.suite.Point().Mul(gc[k], b.hpt))
		if !c.Equal(cpts[k]) {
			return errors.New("harness: interpolated polynomials do not match the dealer's commitments")
		}
	}
	if b.flog[0].Cmp(b.sec) != 0 {
		return errors.New("harness: dealer secret is not f(0)")
	}
	return nil
}

func (b *rabBackend) newSession() (vssBackend, error) {
	c := *b
	c.vers = nil
	if err := c.mkDealer(); err != nil {
		return nil, err
	}
	return &c, nil
}

func (b *rabBackend) plain(i int) *mdeal {
	pd, err := b.dealer.PlaintextDeal(i)
	if err != nil {
		panic(err)
	}
	d := &mdeal{sid: pd.SessionID, i: pd.SecShare.I, v: sc2big(pd.SecShare.V), ri: pd.RndShare.I, rv: sc2big(pd.RndShare.V),
		t: pd.T, cpts: pd.Commitments}
	for k, f := range b.flog {
		c := new(big.Int).Mul(b.glog[k], b.h)
		d.clogs = append(d.clogs, c.Add(c, f).Mod(c, b.q))
	}
	return d.clone()
}

func (b *rabBackend) real(d *mdeal) *rvss.Deal {
	var v kyber.Scalar
	if !d.nilSec {
		v = big2sc(b.suite, b.q, d.v)
	}
	rv := d.rv
	if rv == nil {
		rv = big.NewInt(0)
	}
	return &rvss.Deal{SessionID: d.sid, SecShare: &share.PriShare{I: d.i, V: v}, RndShare: &share.PriShare{I: d.ri, V: big2sc(b.suite, b.q, rv)},
		T: d.t, Commitments: d.cpts}
}

func (b *rabBackend) marshalDeal(d *mdeal) ([]byte, error) { return b.real(d).Marshal() }

func (b *rabBackend) encHonest(i int) (any, error) { return b.dealer.EncryptedDeal(i) }
func (b *rabBackend) encFor(i int, d *mdeal) (any, error) {
	return b.dealer.EncryptDealFor(i, b.real(d))
}
func (b *rabBackend) encRaw(i int, pt []byte) (any, error) { return b.dealer.EncryptRawFor(i, pt) }

func (b *rabBackend) tamperSig(e any) any {
	x := *(e.(*rvss.EncryptedDeal))
	x.Signature = append([]byte{}, x.Signature...)
	x.Signature[len(x.Signature)/2] ^= 0x40
	return &x
}

func (b *rabBackend) procDeal(v int, e any) (string, *mresp, string) {
	var mr *mresp
	out, msg := guard(func() (string, string) {
		r, err := b.vers[v].ProcessEncryptedDeal(e.(*rvss.EncryptedDeal))
		if err != nil {
			return "err", err.Error()
		}
		mr = &mresp{sid: r.SessionID, idx: r.Index, approved: r.Approved, sig: r.Signature, sigOK: true}
		if r.Approved {
			return "approve", ""
		}
		return "complain", ""
	})
	return out, mr, msg
}

func (b *rabBackend) realResp(r *mresp) *rvss.Response {
	return &rvss.Response{SessionID: r.sid, Index: r.idx, Approved: r.approved, Signature: r.sig}
}

func (b *rabBackend) procResp(node int, r *mresp) (string, *mjust, string) {
	var mj *mjust
	out, msg := guard(func() (string, string) {
		if node >= 0 {
			return errOut(b.vers[node].ProcessResponse(b.realResp(r)), "ok")
		}
		j, err := b.dealer.ProcessResponse(b.realResp(r))
		if err != nil {
			return "err", err.Error()
		}
		if j == nil {
			return "ok", ""
		}
		d := b.plain(int(j.Index))
		if d.i != j.Deal.SecShare.I || sc2big(j.Deal.SecShare.V).Cmp(d.v) != 0 || sc2big(j.Deal.RndShare.V).Cmp(d.rv) != 0 {
			return "err", "harness: dealer justification does not carry its stored deal"
		}
		mj = &mjust{sid: j.SessionID, idx: j.Index, deal: d, sig: j.Signature, sigOK: true, kind: "good"}
		return "justif", ""
	})
	return out, mj, msg
}

func (b *rabBackend) procJust(v int, j *mjust) (string, string) {
	return guard(func() (string, string) {
		return errOut(b.vers[v].ProcessJustification(&rvss.Justification{SessionID: j.sid, Index: j.idx, Deal: b.real(j.deal), Signature: j.sig}), "ok")
	})
}

func (b *rabBackend) setTimeout(node int) string {
	o, _ := guard(func() (string, string) {
		if node >= 0 {
			b.vers[node].SetTimeout()
		} else {
			b.dealer.SetTimeout()
		}
		return "ok", ""
	})
	return o
}

func (b *rabBackend) unsafeSet(node int, idx uint32, approved bool) string {
	o, _ := guard(func() (string, string) {
		if node >= 0 {
			b.vers[node].UnsafeSetResponseDKG(idx, approved)
		} else {
			b.dealer.UnsafeSetResponseDKG(idx, approved)
		}
		return "ok", ""
	})
	return o
}

func (b *rabBackend) setThreshold(node int, t uint32) string { return "unsupported" }

func (b *rabBackend) verifyDeal(node int, d *mdeal, incl bool) (string, string) {
	return guard(func() (string, string) {
		if node >= 0 {
			return errOut(b.vers[node].VerifyDeal(b.real(d), incl), "ok")
		}
		return errOut(b.dealer.VerifyDeal(b.real(d), incl), "ok")
	})
}

func (b *rabBackend) snap(node int) *aggSnap {
	var st rvss.VerifAggState
	var certF, enF func() bool
	if node >= 0 {
		st = b.vers[node].VerifState()
		certF, enF = b.vers[node].DealCertified, b.vers[node].EnoughApprovals
	} else {
		st = b.dealer.VerifState()
		certF, enF = b.dealer.DealCertified, b.dealer.EnoughApprovals
	}
	cert, _ := guard(func() (string, string) { return b01(certF()), "" })
	en := "-"
	if st.Present {
		en, _ = guard(func() (string, string) { return b01(enF()), "" })
	}
	return &aggSnap{present: st.Present, cert: cert, enough: en, bad: st.BadDealer, t: st.T,
		sid: st.SID, sidNil: st.SID == nil, hasDeal: st.HasDeal, responses: st.Responses}
}

func (b *rabBackend) signResp(j int, sid []byte, idx uint32, approved bool) []byte {
	r := &rvss.Response{SessionID: sid, Index: idx, Approved: approved}
	sig, err := schnorr.Sign(b.suite, b.vsecs[j], r.Hash(b.suite))
	if err != nil {
		panic(err)
	}
	return sig
}

func (b *rabBackend) signJust(sid []byte, idx uint32, d *mdeal) []byte {
	j := &rvss.Justification{SessionID: sid, Index: idx, Deal: b.real(d)}
	sig, err := schnorr.Sign(b.suite, b.dlong, j.Hash(b.suite))
	if err != nil {
		panic(err)
	}
	return sig
}

func (b *rabBackend) vdeal(v int) (d *rvss.Deal) {
	defer func() {
		if recover() != nil { // nil aggregator: Deal() dereferences it
			d = nil
		}
	}()
	return b.vers[v].Deal()
}

func (b *rabBackend) certDeal(v int) (bool, []byte, uint32, *big.Int) {
	d := b.vdeal(v)
	if d == nil {
		return false, nil, 0, nil
	}
	return true, d.SessionID, d.SecShare.I, sc2big(d.SecShare.V)
}

func (b *rabBackend) recover(vs []int) (*big.Int, error) {
	var deals []*rvss.Deal
	for _, v := range vs {
		d := b.vdeal(v)
		if d == nil {
			return nil, errors.New("harness: verifier not certified")
		}
		deals = append(deals, d)
	}
	s, err := rvss.RecoverSecret(b.suite, deals, uint32(b.n), uint32(b.t))
	if err != nil {
		return nil, err
	}
	return sc2big(s), nil
}

func (b *rabBackend) dealerSecretCommitOK() (bool, bool) {
	sc := b.dealer.SecretCommit()
	if sc == nil {
		return false, true
	}
	want := b.suite.Point().Mul(big2sc(b.suite, b.q, b.sec), nil)
	cs := b.dealer.Commits()
	return true, sc.Equal(want) && len(cs) > 0 && cs[0].Equal(want)
}

func (b *rabBackend) contentSID(d *mdeal) []byte { return vssContentSID(b.suite, b.dpub, b.vpubs, d) }
