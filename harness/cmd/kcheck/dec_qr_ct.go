//go:build constantTime

package main

import (
	"math/big"

	"verifharness/internal/kc"

	"verifharness/internal/groups"
)

func decQrParams(g *groups.G) (*big.Int, *big.Int) { return nil, nil }

func c04Composite(c *kc.Ctx) {}
