package main

// C05 — value semantics: receiver set, operands intact, aliasing safe; Clone/Set independent.
// Every program is run twice on the real code: in the API's in-place style (the destination object
// is the receiver even when it is also an operand; the receiver — not the returned value — is what
// is observed) and on fresh, unaliased copies. All variables are compared after EVERY statement.
// For families with a Lean model the final state is also compared with the model, which is
// value-semantic by construction (Props/C05.lean: frame and read-before-write theorems).

import (
	"fmt"
	"math/big"
	"time"

	"verifharness/internal/groups"
	"verifharness/internal/kc"
)

func runAliased(g *groups.G, p prog) (final string, steps []string, retMismatch []string) {
	st := &progState{pts: map[string]kyberPoint{}, scs: map[string]kyberScalar{}, useReceiver: true}
	for i, s := range p.stmts {
		res := kc.Recover(func() string { st.exec(g, s, true); return "" })
		if res == "panic" {
			return fmt.Sprintf("panic@%d:%s", i, s.String()), steps, st.retMismatch
		}
		steps = append(steps, st.snapshot(g))
	}
	return st.snapshot(g), steps, st.retMismatch
}

func runC05(c *kc.Ctx) {
	defer reportHungProbes(c)
	c.SetRule("cases: (group, program) — random straight-line programs over ≤6 point and ≤4 scalar variables with Add/Sub/Neg/Mul/Null/Base/Set/Clone/dec and scalar ops; the generator reuses variables as destination and operands, so every aliasing pattern (r=a, r=b, a=b, r=a=b) occurs; non-trivial = program contains at least one statement whose destination is one of its operands; distinct by program text")
	c.Assume("adapters over math/big, kilic, CIRCL, gnark: differential only", "model side: Lean interpreter is value-semantic by construction")
	nProg := c.N(40, 1500)
	plen := c.N(14, 40)
	type mc struct {
		g    *groups.G
		line string
		got  string
	}
	var mcs []mc
	for _, f := range families() {
		for _, g := range f.insts {
			rng := c.Rng.Fork("c05/" + g.Name)
			src := pointSource(g, rng)
			cp := groupCaps(g)
			// exhaustive sweep of "derive X from Y, then overwrite X in place": Y must not change
			// (catches storage shared between a result and its operand, whatever the random programs hit)
			progs := deriveOverwritePrograms(rng, f.q, src, cp.base)
			for i := 0; i < nProg+len(progs); i++ {
				if i >= nProg {
					p := progs[i-nProg]
					done := c.Watch(90*time.Second, g.Name, g.Name+" program "+p.String(), map[string]string{"group": g.Name, "program": p.String()}, "proof")
					afinal, asteps, retMis := runAliased(g, p)
					ffinal, fsteps := runProg(g, p, false, true)
					done()
					c.Eval(1)
					c.Program(1)
					c.CountKind("derive-overwrite:" + g.Name)
					c.Nontrivial(g.Name + "|" + p.String())
					k := 0
					for k < len(asteps) && k < len(fsteps) && asteps[k] == fsteps[k] {
						k++
					}
					if (afinal != ffinal || k < len(asteps) || k < len(fsteps)) && len(retMis) == 0 {
						st := "?"
						if k < len(p.stmts) {
							st = p.stmts[k].String()
						}
						c.Violation("aliasing:"+g.Name+":"+stmtOp(st), fmt.Sprintf("%s: in-place execution differs from execution on fresh copies at step %d `%s`", g.Name, k, st),
							map[string]any{"group": g.Name, "program": p.String(), "step": k, "statement": st, "aliased": afinal, "fresh": ffinal})
					}
					for _, m := range retMis {
						c.Violation("receiver-not-set:"+g.Name+":"+stmtOp(m), fmt.Sprintf("%s: after `%s` the receiver differs from the returned value", g.Name, m),
							map[string]string{"group": g.Name, "program": p.String(), "statement": m})
					}
					continue
				}
				dgen := c.Watch(90*time.Second, g.Name+":pick/embed/hash", g.Name+": generating input points through Pick/Embed/Hash", map[string]string{"group": g.Name, "seed": fmt.Sprint(c.Seed), "program_index": fmt.Sprint(i)}, "proof")
				p := genProgX(rng.Fork(fmt.Sprint(i)), f.q, plen, src, cp.base, true, true)
				dgen()
				done := c.Watch(90*time.Second, g.Name, g.Name+" program "+p.String(), map[string]string{"group": g.Name, "program": p.String()}, "proof")
				afinal, asteps, retMis := runAliased(g, p)
				ffinal, fsteps := runProg(g, p, false, true)
				done()
				c.Eval(1)
				c.Program(1)
				c.CountKind("prog:" + g.Name)
				aliasedStmt := false
				for _, s := range p.stmts {
					for _, a := range s.args {
						if a == s.dst {
							aliasedStmt = true
						}
					}
				}
				if aliasedStmt {
					c.Nontrivial(g.Name + "|" + p.String())
				}
				if i == 0 {
					c.Sample(map[string]string{"group": g.Name, "program": p.String(), "aliased": afinal, "fresh": ffinal})
				}
				for _, m := range retMis {
					s := stmtOp(m)
					c.Violation("receiver-not-set:"+g.Name+":"+s, fmt.Sprintf("%s: after `%s` the receiver differs from the returned value", g.Name, m),
						map[string]string{"group": g.Name, "program": p.String(), "statement": m})
				}
				// compare after EVERY statement: a corrupted operand may be overwritten later
				k := 0
				for k < len(asteps) && k < len(fsteps) && asteps[k] == fsteps[k] {
					k++
				}
				if afinal != ffinal || k < len(asteps) || k < len(fsteps) {
					st := "?"
					if k < len(p.stmts) {
						st = p.stmts[k].String()
					}
					if len(retMis) == 0 || stmtOp(st) != stmtOp(retMis[0]) {
						c.Violation("aliasing:"+g.Name+":"+stmtOp(st), fmt.Sprintf("%s: in-place execution differs from execution on fresh copies at step %d `%s`", g.Name, k, st),
							map[string]any{"group": g.Name, "program": p.String(), "step": k, "statement": st, "aliased": afinal, "fresh": ffinal})
					}
					continue
				}
				if f.model != "" && !hasOp(p, "pick") && i%modelStride(c, f) == 0 {
					mcs = append(mcs, mc{g, "grp " + f.model + " " + modelText(p), afinal})
				}
			}
		}
	}
	lines := make([]string, len(mcs))
	for i, x := range mcs {
		lines[i] = x.line
	}
	outs := c.ModelDedup(lines)
	for i, x := range mcs {
		if outs[i] != x.got {
			c.Disagree(x.g.Name+" "+x.line, x.got, outs[i], "")
			c.DisChecked(1)
			// aliased == fresh on the real code, so the value-semantics predicate holds on this input;
			// the difference is a C01-type arithmetic disagreement (or a model defect)
			c.Unshown("model:"+x.g.Name, "value-semantic runs agree with each other but not with the reference model", map[string]string{"group": x.g.Name, "line": x.line, "impl": x.got, "model": outs[i]})
		}
	}
}

func stmtOp(s string) string {
	// "p1=add:p0,p1" -> "p.add"
	kind := s[:1]
	for i := 0; i < len(s); i++ {
		if s[i] == '=' {
			j := i + 1
			for j < len(s) && s[j] != ':' {
				j++
			}
			return kind + "." + s[i+1:j]
		}
	}
	return kind + ".?"
}

func hasOp(p prog, op string) bool {
	for _, s := range p.stmts {
		if s.op == op {
			return true
		}
	}
	return false
}

// modelText renders the program for the model (clone is set there).
func modelText(p prog) string {
	q := prog{}
	for _, s := range p.stmts {
		if s.op == "clone" {
			s.op = "set"
		}
		q.stmts = append(q.stmts, s)
	}
	return q.String()
}

func init() { register("C05", "proof", runC05) }

// deriveOverwritePrograms enumerates every (derive, overwrite) pair on points and on scalars.
func deriveOverwritePrograms(rng *kc.Rng, q *big.Int, src func(i int) []byte, withBase bool) []prog {
	var out []prog
	lit := func(i int) stmt { return stmt{dst: fmt.Sprintf("p%d", i), op: "dec", lit: kc.HexB(src(i))} }
	k1, k2 := kc.HexN(rng.BigBelow(q)), kc.HexN(rng.BigBelow(q))
	derive := [][]stmt{
		{{dst: "p1", op: "neg", args: []string{"p0"}}},
		{{dst: "p1", op: "set", args: []string{"p0"}}},
		{{dst: "p1", op: "clone", args: []string{"p0"}}},
		{{dst: "p1", op: "add", args: []string{"p0", "p2"}}, {dst: "p1", op: "sub", args: []string{"p1", "p2"}}},
		{{dst: "p1", op: "mul", args: []string{"s0", "p0"}}},
		{{dst: "p1", op: "null"}, {dst: "p1", op: "add", args: []string{"p1", "p0"}}},
	}
	overwrite := [][]stmt{
		{{dst: "p1", op: "set", args: []string{"p2"}}},
		{{dst: "p1", op: "null"}},
		{{dst: "p1", op: "neg", args: []string{"p1"}}},
		{{dst: "p1", op: "add", args: []string{"p1", "p2"}}},
		{{dst: "p1", op: "mul", args: []string{"s1", "p1"}}},
		{{dst: "p1", op: "dec", lit: kc.HexB(src(3))}},
	}
	if withBase {
		overwrite = append(overwrite, []stmt{{dst: "p1", op: "base"}})
	}
	for _, d := range derive {
		for _, o := range overwrite {
			var p prog
			p.stmts = append(p.stmts, stmt{dst: "s0", op: "const", lit: k1}, stmt{dst: "s1", op: "const", lit: k2}, lit(0), lit(1), lit(2))
			p.stmts = append(p.stmts, d...)
			p.stmts = append(p.stmts, o...)
			// ... and whatever was overwritten is then used again as an operand (a value that remembers something
			// about its previous contents - a cached table, a lazily normalised form - shows up here)
			uses := func(x string, at int) []stmt {
				d := func(i int) string { return fmt.Sprintf("p%d", at+i) }
				return []stmt{{dst: d(0), op: "mul", args: []string{"s1", x}}, {dst: d(1), op: "add", args: []string{x, "p2"}},
					{dst: d(2), op: "sub", args: []string{"p2", x}}, {dst: d(3), op: "neg", args: []string{x}}, {dst: d(4), op: "mul", args: []string{"s0", x}}}
			}
			p.stmts = append(p.stmts, uses("p1", 4)...)
			// and the mirror image: overwrite the source, the derived value must not change
			out = append(out, p)
			var m prog
			m.stmts = append(m.stmts, stmt{dst: "s0", op: "const", lit: k1}, stmt{dst: "s1", op: "const", lit: k2}, lit(0), lit(1), lit(2))
			m.stmts = append(m.stmts, d...)
			for _, st := range o {
				st2 := st
				st2.dst = "p0"
				st2.args = append([]string{}, st.args...)
				for i := range st2.args {
					if st2.args[i] == "p1" {
						st2.args[i] = "p0"
					}
				}
				m.stmts = append(m.stmts, st2)
			}
			m.stmts = append(m.stmts, uses("p0", 4)...)
			m.stmts = append(m.stmts, uses("p1", 9)...)
			out = append(out, m)
		}
	}
	// scalars
	sder := [][]stmt{
		{{dst: "s3", op: "neg", args: []string{"s2"}}},
		{{dst: "s3", op: "set", args: []string{"s2"}}},
		{{dst: "s3", op: "add", args: []string{"s2", "s0"}}},
		{{dst: "s3", op: "mul", args: []string{"s2", "s1"}}},
	}
	sover := [][]stmt{
		{{dst: "s3", op: "set", args: []string{"s0"}}},
		{{dst: "s3", op: "neg", args: []string{"s3"}}},
		{{dst: "s3", op: "add", args: []string{"s3", "s1"}}},
		{{dst: "s3", op: "mul", args: []string{"s3", "s3"}}},
		{{dst: "s3", op: "const", lit: k2}},
	}
	for _, d := range sder {
		for _, o := range sover {
			var p prog
			p.stmts = append(p.stmts, stmt{dst: "s0", op: "const", lit: k1}, stmt{dst: "s1", op: "const", lit: k2}, stmt{dst: "s2", op: "const", lit: kc.HexN(rng.BigBelow(q))})
			p.stmts = append(p.stmts, d...)
			p.stmts = append(p.stmts, o...)
			out = append(out, p)
		}
	}
	return out
}
