package main

// C14, interactive part: proof.DeniableProver over a clique of 2–4 participants (proof/deniable.go,
// proof/clique.go). The harness is the leader: it collects one message per participant and step and
// hands every participant its view of all messages (optionally altered for the other recipients).

import (
	"fmt"
	"math/big"
	"time"

	"go.dedis.ch/kyber/v4"
	"go.dedis.ch/kyber/v4/proof"

	"verifharness/internal/kc"
)

const dnKeySize = 128 // deniable.go: keySize

type dnNode struct {
	i        int
	e        *sgEnv
	seed     []byte
	outbox   chan []byte
	inbox    chan [][]byte
	done     bool
	panicked bool
	errs     []error
	in       *sgInst
	choice   []int
	spyP     *sgSpyP
	spyV     []*sgSpyV
	sent     [][]byte // own message of every step
}

func (n *dnNode) Step(msg []byte) ([][]byte, error) {
	n.sent = append(n.sent, append([]byte{}, msg...))
	n.outbox <- msg
	return <-n.inbox, nil
}
func (n *dnNode) Random() kyber.XOF { return n.e.suite.XOF(n.seed) }

// dnAlter changes what the *other* participants receive from `from` in step `step`.
type dnAlter struct {
	step, from int
	kind       string
	f          func(msg []byte) []byte
}

type dnResult struct {
	nodes []*dnNode
	hang  bool
	steps int
	views [][][][]byte // views[step][recipient][sender]
}

func dnRun(e *sgEnv, insts []*sgInst, choices [][]int, seeds [][]byte, alter *dnAlter) *dnResult {
	n := len(insts)
	res := &dnResult{}
	for i := 0; i < n; i++ {
		nd := &dnNode{i: i, e: e, seed: seeds[i], outbox: make(chan []byte), inbox: make(chan [][]byte), in: insts[i], choice: choices[i]}
		cm := map[proof.Predicate]int{}
		pred := insts[i].tree.build(choices[i], true, cm)
		prover, spy := sgSpyProver(e, pred.Prover(e.suite, e.smap(insts[i].sval), e.pmap(insts[i].pval), cm))
		nd.spyP = spy
		vrfs := make([]proof.Verifier, n)
		nd.spyV = make([]*sgSpyV, n)
		for j := 0; j < n; j++ {
			if j == i {
				continue
			}
			vp := insts[j].tree.build(nil, false, nil)
			vrfs[j], nd.spyV[j] = sgSpyVerifier(e, vp.Verifier(e.suite, e.pmap(insts[j].pval)))
		}
		proto := proof.DeniableProver(e.suite, i, prover, vrfs)
		res.nodes = append(res.nodes, nd)
		go func() {
			defer func() {
				if r := recover(); r != nil {
					nd.panicked = true
				}
				nd.done = true
				nd.outbox <- nil
			}()
			nd.errs = (func(proof.Context) []error)(proto)(nd)
		}()
	}
	active := make([]bool, n)
	for i := range active {
		active[i] = true
	}
	timeout := time.After(30 * time.Second)
	for step := 0; ; step++ {
		msgs := make([][]byte, n)
		any := false
		for i, nd := range res.nodes {
			if !active[i] {
				continue
			}
			any = true
			select {
			case m := <-nd.outbox:
				if nd.done {
					active[i] = false
				} else {
					msgs[i] = m
				}
			case <-timeout:
				res.hang = true
				return res
			}
		}
		if !any {
			res.steps = step
			return res
		}
		views := make([][][]byte, n)
		for i, nd := range res.nodes {
			view := make([][]byte, n)
			copy(view, msgs)
			if alter != nil && alter.step == step && alter.from != i && msgs[alter.from] != nil {
				view[alter.from] = alter.f(append([]byte{}, msgs[alter.from]...))
			}
			views[i] = view
			if !active[i] {
				continue
			}
			select {
			case nd.inbox <- view:
			case <-timeout:
				res.hang = true
				return res
			}
		}
		res.views = append(res.views, views)
	}
}

func c14Deniable(t *sgRun, envs []*sgEnv) {
	c := t.c
	type vcase struct {
		line, got, kind, env string
		replay               map[string]any
	}
	var plines []string
	type pref struct {
		e   *sgEnv
		nd  *dnNode
		res *dnResult
	}
	var prefs []pref
	type pending struct {
		e          *sgEnv
		res        *dnResult
		alter      *dnAlter
		insts      []*sgInst
		firstProve int
	}
	var runs []pending
	nRuns := c.N(24, 160)
	for _, e := range envs {
		r := c.Rng.Fork("deniable/" + e.name)
		for k := 0; k < nRuns; k++ {
			n := 2 + k%3
			var insts []*sgInst
			var choices [][]int
			var seeds [][]byte
			for i := 0; i < n; i++ {
				var in *sgInst
				for {
					in = sgGen(r, e.q, sgGenOpts{maxBranches: 3, maxTerms: 3, maxReps: 3})
					if in.tree.wellFormed(false) {
						break
					}
				}
				chs := in.tree.choices()
				insts = append(insts, in)
				choices = append(choices, chs[r.Intn(len(chs))])
				seeds = append(seeds, r.Bytes(16))
			}
			var alter *dnAlter
			if k%2 == 1 {
				alter = dnPickAlter(r, n)
			}
			res := dnRun(e, insts, choices, seeds, alter)
			c.Eval(1)
			kind := "deniable-honest"
			if alter != nil {
				kind = "deniable-" + alter.kind
			}
			c.CountKind(fmt.Sprintf("%s:%s-n%d", e.name, kind, n))
			if res.hang {
				c.Unshown("deniable-hang", fmt.Sprintf("%s: deniable run with %d participants did not terminate (%s)", e.name, n, kind), nil)
				continue
			}
			runs = append(runs, pending{e, res, alter, insts, len(plines)})
			for _, nd := range res.nodes {
				plines = append(plines, fmt.Sprintf("sigma dprove %s %s %s %s %s %s %s", kc.HexN(e.q), nd.in.tree.model(), hexList(nd.in.sval),
					hexList(nd.in.pval), intList(nd.choice), hexList(nd.spyP.pri), kc.HexN(sgFirst(nd.spyP.pub))))
				prefs = append(prefs, pref{e, nd, res})
			}
		}
	}
	pouts := c.Model(plines)
	c.Program(len(plines))
	var vlines []string
	var vcases []vcase
	for _, run := range runs {
		e, res := run.e, run.res
		n := len(res.nodes)
		// model transcripts of every participant
		mock := make([][2][]byte, n)
		good := make([]bool, n)
		for j, nd := range res.nodes {
			o := pouts[run.firstProve+j]
			var f []string
			for _, x := range splitSpaces(o) {
				f = append(f, x)
			}
			rep := map[string]any{"group": e.name, "participant": j, "predicate": nd.in.tree.String(), "line": plines[run.firstProve+j]}
			if nd.panicked || len(nd.sent) < 3 || len(nd.errs) != n {
				c.Unshown("deniable-run", fmt.Sprintf("%s: participant %d did not complete (panicked=%v, steps=%d)", e.name, j, nd.panicked, len(nd.sent)), rep)
				continue
			}
			if len(f) != 3 || f[0] != "ok" {
				c.Disagree(plines[run.firstProve+j], "ok", o, "deniable prover")
				c.Unshown("correspondence:deniable-prove", "model deniable prover fails: "+o, rep)
				continue
			}
			m1, _ := hexDecode(f[1])
			m2, _ := hexDecode(f[2])
			var puts [2][]sgCell
			for i := 0; i < 2 && i < len(nd.spyP.puts); i++ {
				puts[i] = nd.spyP.puts[i]
			}
			ok := false
			if e.mock {
				ok = string(m1) == string(nd.sent[0][dnKeySize:]) && string(m2) == string(nd.sent[2][dnKeySize:])
			} else {
				ok = e.sameTranscript(m1, puts[0]) && e.sameTranscript(m2, puts[1])
			}
			if !ok {
				c.Disagree(plines[run.firstProve+j], kc.HexB(nd.sent[0])+" "+kc.HexB(nd.sent[2]), o, "deniable transcript")
				c.Unshown("correspondence:deniable-transcript", fmt.Sprintf("%s: model messages differ from the real ones (participant %d)", e.name, j), rep)
				continue
			}
			mock[j] = [2][]byte{m1, m2}
			good[j] = true
			if nd.errs[j] != nil {
				c.Violation("C14:deniable-prover-error", fmt.Sprintf("%s: honest participant %d reports an error for itself: %v", e.name, j, nd.errs[j]), rep)
			}
		}
		// every verifier's verdict
		for i, nd := range res.nodes {
			if nd.panicked || len(nd.errs) != n {
				continue
			}
			for j := 0; j < n; j++ {
				if j == i || !good[j] {
					continue
				}
				pj := res.nodes[j]
				claim := pj.in.tree.claimHolds(e.q, pj.in.sval, pj.in.pval, pj.choice)
				verdict := "accept"
				if nd.errs[j] != nil {
					verdict = "reject"
				}
				// payloads as delivered to i
				d1, d2 := res.views[0][i][j], res.views[2][i][j]
				if len(d1) < dnKeySize || len(d2) < dnKeySize {
					continue
				}
				d1, d2 = d1[dnKeySize:], d2[dnKeySize:]
				var puts [2][]sgCell
				for x := 0; x < 2 && x < len(pj.spyP.puts); x++ {
					puts[x] = pj.spyP.puts[x]
				}
				altered := run.alter != nil && run.alter.from == j
				kind := "deniable-verify"
				expect := "reject"
				if claim {
					expect = "accept"
				}
				if altered {
					kind = "deniable-" + run.alter.kind
					o1, o2 := pj.sent[0][dnKeySize:], pj.sent[2][dnKeySize:]
					diff := (len(d1) < len(o1) || len(d2) < len(o2)) ||
						(len(d1) == len(o1) && (&sgProof{env: e, real: o1, cells: puts[0]}).semDiff(d1)) ||
						(len(d2) == len(o2) && (&sgProof{env: e, real: o2, cells: puts[1]}).semDiff(d2))
					if diff && !pj.in.degenerate {
						expect = "reject"
					} else if diff {
						expect = ""
					} else if string(d1) != string(o1) || string(d2) != string(o2) {
						expect = ""
					}
				}
				rep := map[string]any{"group": e.name, "verifier": i, "prover": j, "predicate": pj.in.tree.String(), "claim_true": claim,
					"kind": kind, "delivered_1": kc.HexB(d1), "delivered_2": kc.HexB(d2), "verdict": verdict}
				c.Eval(1)
				if expect != "" && verdict != expect {
					c.Violation("C14:"+kind+":"+verdict, fmt.Sprintf("%s: participant %d's verifier of participant %d says %s, property says %s (%s)", e.name, i, j, verdict, expect, pj.in.tree), rep)
				}
				if claim && !altered {
					c.Nontrivial(fmt.Sprintf("deniable|%s|%d|%d|%s|%s", e.name, i, j, pj.in.tree.shape(), hexList(pj.in.sval)))
				}
				k1, _, ok1 := sgMockOf(e, pj.sent[0][dnKeySize:], puts[0], mock[j][0], d1)
				k2, _, ok2 := sgMockOf(e, pj.sent[2][dnKeySize:], puts[1], mock[j][1], d2)
				if !ok1 || !ok2 {
					c.CountKind(e.name + ":unmodelled-" + kind)
					continue
				}
				ch := sgFirst(nd.spyV[j].pub)
				vlines = append(vlines, fmt.Sprintf("sigma dverify %s %s %s %s %s %s", kc.HexN(e.q), pj.in.tree.model(), hexList(pj.in.pval), kc.HexB(k1), kc.HexB(k2), kc.HexN(ch)))
				vcases = append(vcases, vcase{line: vlines[len(vlines)-1], got: verdict, kind: kind, env: e.name, replay: rep})
			}
		}
	}
	vouts := c.Model(vlines)
	c.Program(len(vlines))
	for i, vc := range vcases {
		if stripClass(vouts[i]) == vc.got {
			continue
		}
		c.Disagree(vc.line, vc.got, vouts[i], vc.kind)
		c.DisChecked(1)
		c.Unshown("correspondence:"+vc.kind, fmt.Sprintf("%s: %s: real verifier %s, model %s", vc.env, vc.kind, vc.got, vouts[i]), vc.replay)
	}
}

func splitSpaces(s string) []string {
	var out []string
	cur := ""
	for _, ch := range s {
		if ch == ' ' {
			if cur != "" {
				out = append(out, cur)
			}
			cur = ""
		} else {
			cur += string(ch)
		}
	}
	if cur != "" {
		out = append(out, cur)
	}
	return out
}

// dnPickAlter: alter the payload (after the 128-byte randomness commitment) of one participant's
// commit message (step 0) or response message (step 2), as seen by everyone else.
func dnPickAlter(r *kc.Rng, n int) *dnAlter {
	a := &dnAlter{from: r.Intn(n), step: 2 * r.Intn(2)}
	seed := r.U64()
	switch r.Intn(4) {
	case 0:
		a.kind = "mut-bitflip"
		a.f = func(m []byte) []byte {
			if len(m) > dnKeySize {
				i := dnKeySize + int(seed%uint64(len(m)-dnKeySize))
				m[i] ^= 1 << (seed >> 32 % 8)
			}
			return m
		}
	case 1:
		a.kind = "truncate"
		a.f = func(m []byte) []byte {
			if len(m) > dnKeySize {
				return m[:dnKeySize+int(seed%uint64(len(m)-dnKeySize))]
			}
			return m
		}
	case 2:
		a.kind = "mut-zero-tail"
		a.f = func(m []byte) []byte {
			for i := len(m) - 1; i >= dnKeySize && i >= len(m)-8; i-- {
				m[i] = 0
			}
			return m
		}
	default:
		a.kind = "mut-scalar-plus-one"
		a.f = func(m []byte) []byte {
			// add one to the last byte (big-endian scalars) or the byte 32 from the end (little-endian)
			if len(m) > dnKeySize+32 {
				if seed&1 == 0 {
					m[len(m)-1]++
				} else {
					m[len(m)-32]++
				}
			}
			return m
		}
	}
	return a
}

var _ = big.NewInt
