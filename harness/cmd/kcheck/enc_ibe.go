package main

// C16, Boneh–Franklin IBE (encrypt/ibe): CCA on G1 and on G2, CPA on G1.

import (
	"bytes"
	"fmt"
	"math/big"

	"go.dedis.ch/kyber/v4"
	"go.dedis.ch/kyber/v4/encrypt/ibe"
	"go.dedis.ch/kyber/v4/pairing"

	"verifharness/internal/dlgroup"
	"verifharness/internal/groups"
	"verifharness/internal/kc"
)

type ibeSuite struct {
	name string
	s    pairing.Suite
	mock *dlgroup.Suite
}

func ibeSuites(c *kc.Ctx, rng *kc.Rng) []ibeSuite {
	mock := dlgroup.New(dlgroup.L, rng.Fork("mock"))
	out := []ibeSuite{{"dlgroup", mock, mock}}
	for _, p := range groups.Pairings() {
		out = append(out, ibeSuite{p.Name, p.Suite, nil})
	}
	return out
}

// ibeVariant abstracts "on G1" / "on G2".
type ibeVariant struct {
	name     string
	keyGroup func(s pairing.Suite) kyber.Group // group of master key and U
	idGroup  func(s pairing.Suite) kyber.Group // group of H(ID) and the private key
	enc      func(s pairing.Suite, master kyber.Point, id, msg []byte) (*ibe.Ciphertext, error)
	dec      func(s pairing.Suite, private kyber.Point, c *ibe.Ciphertext) ([]byte, error)
	pair     func(s pairing.Suite, u, priv kyber.Point) kyber.Point
}

var ibeVariants = []ibeVariant{
	{"G1", pairing.Suite.G1, pairing.Suite.G2, ibe.EncryptCCAonG1, ibe.DecryptCCAonG1,
		func(s pairing.Suite, u, priv kyber.Point) kyber.Point { return s.Pair(u, priv) }},
	{"G2", pairing.Suite.G2, pairing.Suite.G1, ibe.EncryptCCAonG2, ibe.DecryptCCAonG2,
		func(s pairing.Suite, u, priv kyber.Point) kyber.Point { return s.Pair(priv, u) }},
}

func ibeDecStr(v ibeVariant, s pairing.Suite, priv kyber.Point, ct *ibe.Ciphertext) string {
	return kc.Recover(func() string {
		cp := &ibe.Ciphertext{U: ct.U.Clone(), V: append([]byte{}, ct.V...), W: append([]byte{}, ct.W...)}
		pt, err := v.dec(s, priv, cp)
		// decryption reads the ciphertext: the same object decrypts to the same plaintext a second time and
		// still holds the bytes it held
		pt2, err2 := v.dec(s, priv, cp)
		if (err == nil) != (err2 == nil) || !bytes.Equal(pt, pt2) || !cp.U.Equal(ct.U) || !bytes.Equal(cp.V, ct.V) || !bytes.Equal(cp.W, ct.W) {
			return "err:ciphertext-object-changed-by-decryption"
		}
		if err != nil {
			return "err"
		}
		return "ok " + kc.HexB(pt)
	})
}

// lendIbe answers h2 / h3 / h4 with the package's own hash functions (hook), on the mock suite.
func lendIbe(m *dlgroup.Suite) func(string) (string, error) {
	hs := m.Hash().Size()
	return func(q string) (string, error) {
		f := splitQ(q)
		switch {
		case f[0] == "h2" && len(f) == 2:
			g, ok := unhexN(f[1])
			if !ok {
				return "", fmt.Errorf("bad gt")
			}
			d, err := ibe.VerifGtToHash(m, dlgroup.FromLog(m.GT(), g), hs)
			if err != nil {
				return "", err
			}
			return kc.HexB(d), nil
		case f[0] == "h4" && len(f) == 2:
			sg, err := unhexB(f[1])
			if err != nil {
				return "", err
			}
			d, err := ibe.VerifH4(m, sg, hs)
			if err != nil {
				return "", err
			}
			return kc.HexB(d), nil
		case f[0] == "h3" && len(f) == 3:
			sg, e1 := unhexB(f[1])
			msg, e2 := unhexB(f[2])
			if e1 != nil || e2 != nil {
				return "", fmt.Errorf("bad hex")
			}
			r, err := ibe.VerifH3(m, sg, msg)
			if err != nil {
				return "!", nil
			}
			return kc.HexN(dlgroup.ScalarBig(r)), nil
		}
		return "", fmt.Errorf("unknown query")
	}
}

func xorB(a, b []byte) []byte {
	o := make([]byte, len(a))
	for i := range a {
		o[i] = a[i] ^ b[i]
	}
	return o
}

func c16Ibe(c *kc.Ctx) {
	rng := c.Rng.Fork("ibe")
	var cases []*encCase
	for _, s := range ibeSuites(c, rng) {
		srng := rng.Fork(s.name)
		hs := s.s.Hash().Size()
		for _, v := range ibeVariants {
			ibeCCA(c, s, v, srng.Fork(v.name), hs, &cases)
		}
		// CPA
		lens := []int{0, 1, 16, hs - 1, hs, hs + 1, hs + 8, 48, 64, 100, 1000, 4096, 65535, 65536}
		if s.mock != nil || c.Thorough() {
			for l := 0; l <= 2*hs+2; l++ {
				lens = append(lens, l)
			}
		}
		for _, l := range lens {
			ibeCPACase(c, s, srng.Fork("cpa"), srng.Bytes(l), &cases)
		}
	}
	c.Extra("ibe_lend_rounds", resolveEnc(c, cases))
	compareEnc(c, cases)
}

func hashTo(g kyber.Group, id []byte) (kyber.Point, bool) {
	h, ok := g.Point().(kyber.HashablePoint)
	if !ok {
		return nil, false
	}
	return h.Hash(id), true
}

func ibeCCA(c *kc.Ctx, s ibeSuite, v ibeVariant, rng *kc.Rng, hs int, cases *[]*encCase) {
	tagOf := "ibe-cca-" + v.name
	kg, ig := v.keyGroup(s.s), v.idGroup(s.s)
	var qid kyber.Point
	id := rng.Bytes(1 + rng.Intn(20))
	if kc.Recover(func() string {
		var ok bool
		qid, ok = hashTo(ig, id)
		if !ok {
			return "nohash"
		}
		return "ok"
	}) != "ok" {
		// the suite does not implement what this variant needs (documented): Encrypt must refuse, not panic
		res := kc.Recover(func() string {
			_, err := v.enc(s.s, kg.Point().Base(), id, []byte{1})
			if err != nil {
				return "err"
			}
			return "ok"
		})
		c.CountKind("ibe:" + s.name + ":" + v.name + ":unsupported-" + res)
		if res == "panic" {
			c.Violation(tagOf+":panic", s.name+": Encrypt panics on a suite without hash-to-point", map[string]string{"family": "ibe-cca", "suite": s.name})
		}
		return
	}
	xs := kg.Scalar().Pick(rng)
	master := kg.Point().Mul(xs, nil)
	priv := ig.Point().Mul(xs, qid)
	id2 := append(append([]byte{}, id...), 'x')
	qid2, _ := hashTo(ig, id2)
	priv2 := ig.Point().Mul(xs, qid2)
	var lens []int
	switch {
	case s.mock != nil || c.Thorough():
		for l := 0; l <= hs+3; l++ {
			lens = append(lens, l)
		}
		lens = append(lens, 48, 64, 100, 4096)
	default:
		lens = []int{0, 1, 2, 15, 16, hs - 1, hs, hs + 1, 48, 4096}
	}
	q := ""
	var gidLog *big.Int
	if s.mock != nil {
		q = kc.HexN(s.mock.Q)
		gidLog = new(big.Int).Mul(dlgroup.ScalarBig(xs), dlgroup.Log(qid))
		gidLog.Mod(gidLog, s.mock.Q)
	}
	decCase := func(p kyber.Point, ct *ibe.Ciphertext, got, kind string) {
		if s.mock == nil {
			return
		}
		*cases = append(*cases, &encCase{scheme: tagOf, kind: "decrypt-" + kind,
			prefix: fmt.Sprintf("enc ibe-d %s %x %s %s %s %s", q, hs, kc.HexN(dlgroup.Log(p)), kc.HexN(dlgroup.Log(ct.U)), kc.HexB(ct.V), kc.HexB(ct.W)),
			got:    got, lend: lendIbe(s.mock), key: fmt.Sprintf("dec|%s|%x|%x|%s", dlgroup.Log(ct.U).Text(16), ct.V, ct.W, dlgroup.Log(p).Text(16)),
			replay: map[string]string{"family": "ibe-dec", "variant": v.name}})
	}
	for _, L := range lens {
		msg := rng.Bytes(L)
		rp := map[string]string{"family": "ibe-cca", "suite": s.name, "variant": v.name, "id": kc.HexB(id), "msg": kc.HexB(msg)}
		var ct *ibe.Ciphertext
		res := kc.Recover(func() string {
			var err error
			ct, err = v.enc(s.s, master, id, append([]byte{}, msg...))
			if err != nil {
				return "err"
			}
			return "ok"
		})
		c.Eval(1)
		c.CountKind("ibe:" + s.name + ":cca-" + v.name + ":encrypt")
		c.Nontrivial(fmt.Sprintf("%s|%s|%x", tagOf, s.name, msg))
		if res == "panic" {
			c.Violation(tagOf+":panic", fmt.Sprintf("%s: Encrypt of %d bytes panics", s.name, L), rp)
			continue
		}
		if L > hs {
			if res != "err" {
				c.Violation(tagOf+":long-accepted", fmt.Sprintf("%s: a %d-byte message (hash size %d) is accepted", s.name, L, hs), rp)
			}
			if s.mock != nil {
				*cases = append(*cases, &encCase{scheme: tagOf, kind: "encrypt-too-long",
					prefix: fmt.Sprintf("enc ibe-e %s %x %s %s %s", q, hs, kc.HexN(gidLog), kc.HexB(rng.Bytes(L)), kc.HexB(msg)),
					got:    "err", lend: lendIbe(s.mock), key: fmt.Sprintf("enc-long|%x", msg), replay: rp})
			}
			continue
		}
		if res != "ok" {
			c.Violation(tagOf+":encrypt-refused", fmt.Sprintf("%s: a %d-byte message (hash size %d) is refused", s.name, L, hs), rp)
			continue
		}
		// round trip
		got := ibeDecStr(v, s.s, priv, ct)
		if got != "ok "+kc.HexB(msg) {
			c.Violation(tagOf+":roundtrip", fmt.Sprintf("%s: %d-byte message decrypts to %s", s.name, L, trunc(got)), rp)
		}
		decCase(priv, ct, got, "honest")
		// scan
		for _, part := range [][]byte{ct.V, ct.W} {
			if hit := plainInCipher(msg, part, 0); hit != "" {
				c.Violation(tagOf+":plaintext-in-ciphertext", s.name+": "+hit, rp)
			}
		}
		// another identity's key: never a different plaintext; an error for messages of ≥ 8 bytes
		// (a shorter σ-pad can coincide by chance: 2^-8·len — the FO check then still yields the SAME message)
		got2 := ibeDecStr(v, s.s, priv2, ct)
		if got2 != "err" && (got2 != "ok "+kc.HexB(msg) || L >= 8) {
			key := tagOf + ":wrong-identity-accepted"
			if got2 == "panic" {
				key = tagOf + ":panic"
			}
			c.Violation(key, fmt.Sprintf("%s: %d-byte message under another identity's key: %s", s.name, L, trunc(got2)), rp)
		}
		decCase(priv2, ct, got2, "wrong-identity")
		c.Eval(2)
		// encryption correspondence (mock): recover σ, then the model must reproduce (U, V, W)
		if s.mock != nil {
			pad, err := ibe.VerifGtToHash(s.s, v.pair(s.s, ct.U, priv), len(ct.V))
			if err == nil && len(pad) == len(ct.V) {
				sigma := xorB(ct.V, pad)
				*cases = append(*cases, &encCase{scheme: tagOf, kind: "encrypt",
					prefix: fmt.Sprintf("enc ibe-e %s %x %s %s %s", q, hs, kc.HexN(gidLog), kc.HexB(sigma), kc.HexB(msg)),
					got:    fmt.Sprintf("ok %s,%s,%s", kc.HexN(dlgroup.Log(ct.U)), kc.HexB(ct.V), kc.HexB(ct.W)),
					lend:   lendIbe(s.mock), key: fmt.Sprintf("enc|%x|%x", sigma, msg), replay: rp})
			}
		}
		// tampering: every bit of V and W, every truncation, altered U
		if s.mock == nil && !c.Thorough() && !(L == 1 || L == hs) {
			continue
		}
		var alts []struct {
			what string
			ct   *ibe.Ciphertext
		}
		add := func(what string, u kyber.Point, vv, ww []byte) {
			alts = append(alts, struct {
				what string
				ct   *ibe.Ciphertext
			}{what, &ibe.Ciphertext{U: u, V: vv, W: ww}})
		}
		for i := 0; i < 8*len(ct.V); i++ {
			t := append([]byte{}, ct.V...)
			t[i/8] ^= 1 << uint(i%8)
			add(fmt.Sprintf("V-flip-bit-%d", i), ct.U, t, ct.W)
		}
		for i := 0; i < 8*len(ct.W); i++ {
			t := append([]byte{}, ct.W...)
			t[i/8] ^= 1 << uint(i%8)
			add(fmt.Sprintf("W-flip-bit-%d", i), ct.U, ct.V, t)
		}
		for l := 0; l < len(ct.W); l++ {
			add(fmt.Sprintf("VW-truncate-to-%d", l), ct.U, ct.V[:l], ct.W[:l])
			add(fmt.Sprintf("W-truncate-to-%d", l), ct.U, ct.V, ct.W[:l])
			add(fmt.Sprintf("V-truncate-to-%d", l), ct.U, ct.V[:l], ct.W)
		}
		add("VW-extend", ct.U, append(append([]byte{}, ct.V...), 7), append(append([]byte{}, ct.W...), 9))
		add("U-plus-base", kg.Point().Add(ct.U, kg.Point().Base()), ct.V, ct.W)
		add("U-base", kg.Point().Base(), ct.V, ct.W)
		add("U-null", kg.Point().Null(), ct.V, ct.W)
		add("U-neg", kg.Point().Neg(ct.U), ct.V, ct.W)
		add("U-random", kg.Point().Mul(kg.Scalar().Pick(rng), nil), ct.V, ct.W)
		for _, a := range alts {
			if L == 0 && a.what == "VW-extend" {
				// still an alteration; kept
			}
			got := ibeDecStr(v, s.s, priv, a.ct)
			c.Eval(1)
			c.CountKind("ibe:" + s.name + ":cca-" + v.name + ":tampered-decrypt")
			if got != "err" {
				key := tagOf + ":tamper-accepted"
				if got == "panic" {
					key = tagOf + ":panic"
				}
				c.Violation(key, fmt.Sprintf("%s: %d-byte message, %s: Decrypt gives %s", s.name, L, a.what, trunc(got)), rp)
			}
			decCase(priv, a.ct, got, "tampered")
		}
	}
}

var cpaVar = "?"

// cpaVariant: "" = model of EncryptCPAonG1 as it stands (only guard: len>>16), "+" = model of the
// repaired function (refuses len > hash size). One probe call on the mock suite selects it.
func cpaVariant() string {
	if cpaVar == "?" {
		cpaVar = ""
		m := dlgroup.New(dlgroup.L, kc.NewRng(7))
		_, err := ibe.EncryptCPAonG1(m, m.G1().Point().Base(), m.G1().Point().Base(), []byte("id"), make([]byte, m.Hash().Size()+1))
		if err != nil {
			cpaVar = "+"
		}
	}
	return cpaVar
}

// ibeCPACase: one CPA encryption of msg on suite s with the property's predicates; model cases appended
// when the suite is the mock group.
func ibeCPACase(c *kc.Ctx, s ibeSuite, rng *kc.Rng, msg []byte, cases *[]*encCase) {
	hs := s.s.Hash().Size()
	L := len(msg)
	id := rng.Bytes(1 + rng.Intn(20))
	qid, ok := hashTo(s.s.G2(), id)
	rp := map[string]string{"family": "ibe-cpa", "suite": s.name, "msg": kc.HexB(msg)}
	if !ok {
		res := kc.Recover(func() string {
			_, err := ibe.EncryptCPAonG1(s.s, s.s.G1().Point().Base(), s.s.G1().Point().Base(), id, msg)
			if err != nil {
				return "err"
			}
			return "ok"
		})
		c.CountKind("ibe:" + s.name + ":cpa:unsupported-" + res)
		if res == "panic" {
			c.Violation("ibe-cpa:panic", s.name+": EncryptCPAonG1 panics on a suite without hash-to-G2", rp)
		}
		return
	}
	g1 := s.s.G1()
	b := g1.Scalar().Pick(rng)
	base := g1.Point().Mul(b, nil)
	xs := g1.Scalar().Pick(rng)
	pub := g1.Point().Mul(xs, base)
	priv := s.s.G2().Point().Mul(xs, qid)
	var ct *ibe.CiphertextCPA
	res := kc.Recover(func() string {
		var err error
		ct, err = ibe.EncryptCPAonG1(s.s, base, pub, id, append([]byte{}, msg...))
		if err != nil {
			return "err"
		}
		return "ok"
	})
	c.Eval(1)
	c.CountKind("ibe:" + s.name + ":cpa:encrypt-" + res)
	c.Nontrivial(fmt.Sprintf("ibe-cpa|%s|%x", s.name, msg))
	if res == "panic" {
		c.Violation("ibe-cpa:panic", fmt.Sprintf("%s: EncryptCPAonG1 of %d bytes panics", s.name, L), rp)
		return
	}
	if res == "err" {
		// refusing is always allowed by the property ("messages the scheme cannot protect are refused");
		// refusing something within the hash size would be a round-trip failure
		if L <= hs {
			c.Violation("ibe-cpa:encrypt-refused", fmt.Sprintf("%s: a %d-byte message (hash size %d) is refused", s.name, L, hs), rp)
		}
	} else {
		got := kc.Recover(func() string {
			cp := &ibe.CiphertextCPA{RP: ct.RP.Clone(), C: append([]byte{}, ct.C...)}
			pt, err := ibe.DecryptCPAonG1(s.s, priv, cp)
			pt2, err2 := ibe.DecryptCPAonG1(s.s, priv, cp)
			if (err == nil) != (err2 == nil) || !bytes.Equal(pt, pt2) || !cp.RP.Equal(ct.RP) || !bytes.Equal(cp.C, ct.C) {
				return "err:ciphertext-object-changed-by-decryption"
			}
			if err != nil {
				return "err"
			}
			return "ok " + kc.HexB(pt)
		})
		if got != "ok "+kc.HexB(msg) {
			c.Violation("ibe-cpa:roundtrip", fmt.Sprintf("%s: %d-byte message decrypts to %s", s.name, L, trunc(got)), rp)
		}
		if hit := plainInCipher(msg, ct.C, 0); hit != "" {
			c.Violation("ibe.EncryptCPAonG1:plaintext-in-ciphertext",
				fmt.Sprintf("%s: %d-byte message (hash size %d): %s", s.name, L, hs, hit), rp)
		}
		c.Eval(1)
		if c.ReplayFile != "" {
			fmt.Printf("replay ibe-cpa %s: msg %s\n ciphertext C %s\n", s.name, trunc(kc.HexB(msg)), trunc(kc.HexB(ct.C)))
		}
	}
	if s.mock == nil || cases == nil {
		return
	}
	q := s.mock.Q
	// r·base = RP  ⇒  r = log(RP)·b⁻¹
	rpLog, cHex := "", ""
	r := new(big.Int)
	if res == "ok" {
		binv := new(big.Int).ModInverse(dlgroup.ScalarBig(b), q)
		r.Mul(dlgroup.Log(ct.RP), binv).Mod(r, q)
		rpLog, cHex = kc.HexN(dlgroup.Log(ct.RP)), kc.HexB(ct.C)
	}
	got := "err"
	if res == "ok" {
		got = "ok " + rpLog + "," + cHex
	}
	*cases = append(*cases, &encCase{scheme: "ibe-cpa", kind: "encrypt-" + res,
		prefix: fmt.Sprintf("enc cpa-e%s %s %x %s %s %s %s %s", cpaVariant(), kc.HexN(q), hs, kc.HexN(dlgroup.Log(base)), kc.HexN(dlgroup.Log(pub)),
			kc.HexN(dlgroup.Log(qid)), kc.HexN(r), kc.HexB(msg)),
		got: got, lend: lendIbe(s.mock), key: fmt.Sprintf("cpa-enc|%x", msg), replay: rp})
	if res == "ok" {
		*cases = append(*cases, &encCase{scheme: "ibe-cpa", kind: "decrypt",
			prefix: fmt.Sprintf("enc cpa-d %s %x %s %s %s", kc.HexN(q), hs, kc.HexN(dlgroup.Log(priv)), rpLog, cHex),
			got:    "ok " + kc.HexB(msg), lend: lendIbe(s.mock), key: fmt.Sprintf("cpa-dec|%x", ct.C), replay: rp})
	}
}
