package main

// C04 helper: an independent math/big oracle for curve membership over Fp and Fp2 = Fp[i]/(i²+1)
// (BN twists, BLS12-381 G1/G2), used (a) to decide acceptance where no Lean decoder exists (BLS12-381 G2)
// and (b) to manufacture adversarial encodings: on-curve points outside the prime-order subgroup.
// Nothing here calls kyber or the pairing libraries.

import (
	"math/big"
)

type decFp2 struct{ a, b *big.Int } // a + b·i

type decFp2Field struct{ p *big.Int }

func decBi(s string) *big.Int {
	v, ok := new(big.Int).SetString(s, 0)
	if !ok {
		panic("bad constant " + s)
	}
	return v
}

func (f decFp2Field) mod(v *big.Int) *big.Int { return v.Mod(v, f.p) }
func (f decFp2Field) add(x, y decFp2) decFp2 {
	return decFp2{f.mod(new(big.Int).Add(x.a, y.a)), f.mod(new(big.Int).Add(x.b, y.b))}
}
func (f decFp2Field) sub(x, y decFp2) decFp2 {
	return decFp2{f.mod(new(big.Int).Sub(x.a, y.a)), f.mod(new(big.Int).Sub(x.b, y.b))}
}
func (f decFp2Field) neg(x decFp2) decFp2 {
	return decFp2{f.mod(new(big.Int).Neg(x.a)), f.mod(new(big.Int).Neg(x.b))}
}
func (f decFp2Field) mul(x, y decFp2) decFp2 {
	re := new(big.Int).Mul(x.a, y.a)
	re.Sub(re, new(big.Int).Mul(x.b, y.b))
	im := new(big.Int).Mul(x.a, y.b)
	im.Add(im, new(big.Int).Mul(x.b, y.a))
	return decFp2{f.mod(re), f.mod(im)}
}
func (f decFp2Field) inv(x decFp2) decFp2 {
	n := new(big.Int).Mul(x.a, x.a)
	n.Add(n, new(big.Int).Mul(x.b, x.b))
	n.Mod(n, f.p)
	n = new(big.Int).ModInverse(n, f.p)
	if n == nil {
		return decFp2{big.NewInt(0), big.NewInt(0)}
	}
	return decFp2{f.mod(new(big.Int).Mul(x.a, n)), f.mod(new(big.Int).Mul(new(big.Int).Neg(x.b), n))}
}
func (f decFp2Field) isZero(x decFp2) bool { return x.a.Sign() == 0 && x.b.Sign() == 0 }
func (f decFp2Field) eq(x, y decFp2) bool  { return x.a.Cmp(y.a) == 0 && x.b.Cmp(y.b) == 0 }

// sqrt in Fp2 for p ≡ 3 (mod 4) by the "complex method"; ok=false if x is not a square.
func (f decFp2Field) sqrt(x decFp2) (decFp2, bool) {
	zero := big.NewInt(0)
	if x.b.Sign() == 0 {
		if r := new(big.Int).ModSqrt(x.a, f.p); r != nil {
			return decFp2{r, zero}, true
		}
		na := f.mod(new(big.Int).Neg(x.a))
		if r := new(big.Int).ModSqrt(na, f.p); r != nil {
			return decFp2{zero, r}, true // (r i)² = -r² = x.a
		}
		return decFp2{}, false
	}
	norm := new(big.Int).Mul(x.a, x.a)
	norm.Add(norm, new(big.Int).Mul(x.b, x.b))
	norm.Mod(norm, f.p)
	n := new(big.Int).ModSqrt(norm, f.p)
	if n == nil {
		return decFp2{}, false
	}
	inv2 := new(big.Int).ModInverse(big.NewInt(2), f.p)
	for _, sgn := range []int64{1, -1} {
		t := new(big.Int).Add(x.a, new(big.Int).Mul(big.NewInt(sgn), n))
		t.Mul(t, inv2)
		t.Mod(t, f.p)
		x0 := new(big.Int).ModSqrt(t, f.p)
		if x0 == nil || x0.Sign() == 0 {
			continue
		}
		x1 := new(big.Int).ModInverse(new(big.Int).Lsh(x0, 1), f.p)
		x1.Mul(x1, x.b)
		x1.Mod(x1, f.p)
		r := decFp2{x0, x1}
		if f.eq(f.mul(r, r), x) {
			return r, true
		}
	}
	return decFp2{}, false
}

// short Weierstrass curve y² = x³ + b over Fp2, affine points; inf = point at infinity.
type decPt2 struct {
	x, y decFp2
	inf  bool
}

type decCurve2 struct {
	f decFp2Field
	b decFp2
}

func (c decCurve2) onCurve(P decPt2) bool {
	if P.inf {
		return true
	}
	l := c.f.mul(P.y, P.y)
	r := c.f.add(c.f.mul(c.f.mul(P.x, P.x), P.x), c.b)
	return c.f.eq(l, r)
}

func (c decCurve2) add(P, Q decPt2) decPt2 {
	f := c.f
	if P.inf {
		return Q
	}
	if Q.inf {
		return P
	}
	var lam decFp2
	if f.eq(P.x, Q.x) {
		if f.isZero(f.add(P.y, Q.y)) {
			return decPt2{inf: true}
		}
		xx := f.mul(P.x, P.x)
		lam = f.mul(f.add(f.add(xx, xx), xx), f.inv(f.add(P.y, P.y)))
	} else {
		lam = f.mul(f.sub(Q.y, P.y), f.inv(f.sub(Q.x, P.x)))
	}
	x3 := f.sub(f.mul(lam, lam), f.add(P.x, Q.x))
	y3 := f.sub(f.mul(lam, f.sub(P.x, x3)), P.y)
	return decPt2{x: x3, y: y3}
}

func (c decCurve2) mul(k *big.Int, P decPt2) decPt2 {
	R := decPt2{inf: true}
	for i := k.BitLen() - 1; i >= 0; i-- {
		R = c.add(R, R)
		if k.Bit(i) == 1 {
			R = c.add(R, P)
		}
	}
	return R
}

// randPoint returns a uniformly chosen x with a point on the curve (almost surely outside the
// prime-order subgroup when the cofactor is large).
func (c decCurve2) randPoint(rng interface{ Bytes(int) []byte }) decPt2 {
	for {
		n := (c.f.p.BitLen() + 7) / 8
		x := decFp2{new(big.Int).Mod(new(big.Int).SetBytes(rng.Bytes(n+8)), c.f.p), new(big.Int).Mod(new(big.Int).SetBytes(rng.Bytes(n+8)), c.f.p)}
		rhs := c.f.add(c.f.mul(c.f.mul(x, x), x), c.b)
		if y, ok := c.f.sqrt(rhs); ok {
			return decPt2{x: x, y: y}
		}
	}
}

// curve over Fp, y² = x³ + a x + b
type decCurve1 struct{ p, a, b *big.Int }

type decPt1 struct {
	x, y *big.Int
	inf  bool
}

func (c decCurve1) onCurve(P decPt1) bool {
	if P.inf {
		return true
	}
	l := new(big.Int).Mul(P.y, P.y)
	l.Mod(l, c.p)
	r := new(big.Int).Mul(P.x, P.x)
	r.Mul(r, P.x)
	r.Add(r, new(big.Int).Mul(c.a, P.x))
	r.Add(r, c.b)
	r.Mod(r, c.p)
	return l.Cmp(r) == 0
}

func (c decCurve1) add(P, Q decPt1) decPt1 {
	if P.inf {
		return Q
	}
	if Q.inf {
		return P
	}
	lam := new(big.Int)
	if P.x.Cmp(Q.x) == 0 {
		s := new(big.Int).Add(P.y, Q.y)
		if s.Mod(s, c.p).Sign() == 0 {
			return decPt1{inf: true}
		}
		num := new(big.Int).Mul(P.x, P.x)
		num.Mul(num, big.NewInt(3))
		num.Add(num, c.a)
		den := new(big.Int).Lsh(P.y, 1)
		den.ModInverse(den.Mod(den, c.p), c.p)
		lam.Mul(num, den)
	} else {
		num := new(big.Int).Sub(Q.y, P.y)
		den := new(big.Int).Sub(Q.x, P.x)
		den.ModInverse(den.Mod(den, c.p), c.p)
		lam.Mul(num, den)
	}
	lam.Mod(lam, c.p)
	x3 := new(big.Int).Mul(lam, lam)
	x3.Sub(x3, P.x)
	x3.Sub(x3, Q.x)
	x3.Mod(x3, c.p)
	y3 := new(big.Int).Sub(P.x, x3)
	y3.Mul(y3, lam)
	y3.Sub(y3, P.y)
	y3.Mod(y3, c.p)
	return decPt1{x: x3, y: y3}
}

func (c decCurve1) mul(k *big.Int, P decPt1) decPt1 {
	R := decPt1{inf: true}
	for i := k.BitLen() - 1; i >= 0; i-- {
		R = c.add(R, R)
		if k.Bit(i) == 1 {
			R = c.add(R, P)
		}
	}
	return R
}

func (c decCurve1) randPoint(rng interface{ Bytes(int) []byte }) decPt1 {
	for {
		n := (c.p.BitLen() + 7) / 8
		x := new(big.Int).Mod(new(big.Int).SetBytes(rng.Bytes(n+8)), c.p)
		rhs := new(big.Int).Mul(x, x)
		rhs.Mul(rhs, x)
		rhs.Add(rhs, new(big.Int).Mul(c.a, x))
		rhs.Add(rhs, c.b)
		rhs.Mod(rhs, c.p)
		if y := new(big.Int).ModSqrt(rhs, c.p); y != nil {
			return decPt1{x: x, y: y}
		}
	}
}

// ---- constants (typed in here independently of kyber and of the Lean model) ----

var (
	decBlsP   = decBi("0x1a0111ea397fe69a4b1ba7b6434bacd764774b84f38512bf6730d2a0f6b0f6241eabfffeb153ffffb9feffffffffaaab")
	decBlsR   = decBi("0x73eda753299d7d483339d80809a1d80553bda402fffe5bfeffffffff00000001")
	decBn256P = decBi("65000549695646603732796438742359905742825358107623003571877145026864184071783")
	decBn256N = decBi("65000549695646603732796438742359905742570406053903786389881062969044166799969")
	decBn254P = decBi("21888242871839275222246405745257275088696311157297823662689037894645226208583")
	decBn254N = decBi("21888242871839275222246405745257275088548364400416034343698204186575808495617")
	decP256P  = decBi("0xffffffff00000001000000000000000000000000ffffffffffffffffffffffff")
	decP256B  = decBi("0x5ac635d8aa3a93e7b3ebbd55769886bc651d06b0cc53b0f63bce3c3e27d2604b")
	decEdP    = new(big.Int).Sub(new(big.Int).Lsh(big.NewInt(1), 255), big.NewInt(19))
)

func decBlsG1Curve() decCurve1 { return decCurve1{decBlsP, big.NewInt(0), big.NewInt(4)} }
func decBlsG2Curve() decCurve2 {
	return decCurve2{decFp2Field{decBlsP}, decFp2{big.NewInt(4), big.NewInt(4)}}
}

// twist b = 3/(i+k)
func decBnTwist(p *big.Int, k int64) decCurve2 {
	f := decFp2Field{p}
	xi := decFp2{big.NewInt(k), big.NewInt(1)}
	return decCurve2{f, f.mul(decFp2{big.NewInt(3), big.NewInt(0)}, f.inv(xi))}
}

// lexLargest reports whether y is the lexicographically larger of {y, -y} (ZCash: compare c1 first).
func decLexLargestFp(y, p *big.Int) bool {
	h := new(big.Int).Rsh(new(big.Int).Sub(p, big.NewInt(1)), 1)
	return y.Cmp(h) > 0
}
func decLexLargestFp2(y decFp2, p *big.Int) bool {
	if y.b.Sign() != 0 {
		return decLexLargestFp(y.b, p)
	}
	return decLexLargestFp(y.a, p)
}

// decBlsG1Compress / decBlsG2Compress: ZCash compressed encodings of affine points (no subgroup test).
func decBlsG1Compress(P decPt1) []byte {
	out := make([]byte, 48)
	if P.inf {
		out[0] = 0xc0
		return out
	}
	P.x.FillBytes(out)
	out[0] |= 0x80
	if decLexLargestFp(P.y, decBlsP) {
		out[0] |= 0x20
	}
	return out
}
func decBlsG2Compress(P decPt2) []byte {
	out := make([]byte, 96)
	if P.inf {
		out[0] = 0xc0
		return out
	}
	P.x.b.FillBytes(out[:48])
	P.x.a.FillBytes(out[48:])
	out[0] |= 0x80
	if decLexLargestFp2(P.y, decBlsP) {
		out[0] |= 0x20
	}
	return out
}

// decBlsG2Oracle is the acceptance specification of the 96-byte ZCash compressed G2 form:
// returns ("err", nil) or ("ok", canonical re-encoding).
func decBlsG2Oracle(b []byte) (string, []byte) {
	if len(b) != 96 {
		return "err", nil
	}
	if b[0]&0x80 == 0 {
		return "err", nil
	}
	if b[0]&0x40 != 0 {
		if b[0] != 0xc0 {
			return "err", nil
		}
		for _, v := range b[1:] {
			if v != 0 {
				return "err", nil
			}
		}
		return "ok", decBlsG2Compress(decPt2{inf: true})
	}
	big_ := b[0]&0x20 != 0
	c1b := append([]byte{}, b[:48]...)
	c1b[0] &= 0x1f
	c1 := new(big.Int).SetBytes(c1b)
	c0 := new(big.Int).SetBytes(b[48:])
	if c1.Cmp(decBlsP) >= 0 || c0.Cmp(decBlsP) >= 0 {
		return "err", nil
	}
	c := decBlsG2Curve()
	x := decFp2{c0, c1}
	rhs := c.f.add(c.f.mul(c.f.mul(x, x), x), c.b)
	y, ok := c.f.sqrt(rhs)
	if !ok {
		return "err", nil
	}
	if decLexLargestFp2(y, decBlsP) != big_ {
		y = c.f.neg(y)
	}
	P := decPt2{x: x, y: y}
	if !c.mul(decBlsR, P).inf {
		return "err", nil
	}
	return "ok", decBlsG2Compress(P)
}

// decBlsG2OracleFor: kilic reads exactly the 96-byte compressed form; CIRCL and gnark-crypto `SetBytes`
// additionally accept over-long input (tail ignored) and the uncompressed 192-byte form
// `x.c1 ‖ x.c0 ‖ y.c1 ‖ y.c0` (never produced by kyber); gnark represents O as affine (0,0) and so also
// accepts 192 zero bytes.
func decBlsG2OracleFor(backend string, b []byte) (string, []byte) {
	if backend != "gnark-g2" {
		// kilic; CIRCL is as lenient as gnark (and panics) on the unchanged tree: C04 finding,
		// fixes/C04-circl-unmarshal-length.patch; the specification is the compressed form.
		return decBlsG2Oracle(b)
	}
	if len(b) < 96 {
		return "err", nil
	}
	f := b[0] >> 5
	if f == 1 || f == 3 || f == 7 {
		return "err", nil
	}
	if f >= 4 {
		return decBlsG2Oracle(b[:96])
	}
	if len(b) < 192 {
		return "err", nil
	}
	if f == 2 {
		if b[0] != 0x40 {
			return "err", nil
		}
		for _, v := range b[1:192] {
			if v != 0 {
				return "err", nil
			}
		}
		return "ok", decBlsG2Compress(decPt2{inf: true})
	}
	c1, c0 := new(big.Int).SetBytes(b[:48]), new(big.Int).SetBytes(b[48:96])
	y1, y0 := new(big.Int).SetBytes(b[96:144]), new(big.Int).SetBytes(b[144:192])
	for _, v := range []*big.Int{c1, c0, y1, y0} {
		if v.Cmp(decBlsP) >= 0 {
			return "err", nil
		}
	}
	if backend == "gnark-g2" && c1.Sign() == 0 && c0.Sign() == 0 && y1.Sign() == 0 && y0.Sign() == 0 {
		return "ok", decBlsG2Compress(decPt2{inf: true})
	}
	c := decBlsG2Curve()
	P := decPt2{x: decFp2{c0, c1}, y: decFp2{y0, y1}}
	if !c.onCurve(P) || !c.mul(decBlsR, P).inf {
		return "err", nil
	}
	return "ok", decBlsG2Compress(P)
}
