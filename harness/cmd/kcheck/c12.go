package main

// C12 — Threshold Schnorr (DSS) yields one standard signature from any t partials.
//
// The real sign/dss package runs over Ed25519, P-256 and the mock discrete-log group (thorough: more),
// with distributed keys built directly from share.PriPoly values chosen by the harness and, on Ed25519,
// also from real Rabin and Pedersen DKG runs (whose polynomial is read back with share.RecoverPriPoly).
// Every history (a combiner, the arrival order of partial signatures, injected invalid / forged /
// cross-session / duplicate / out-of-range / re-indexed partials, PartialSig() at any position or
// never) is executed on the real code and on the Lean model (Proto/Dss.lean, theorems Props/C12.lean);
// results of every step, EnoughPartialSig and the final (R, gamma) are compared. Independently of the
// model: accepted count tracks EnoughPartialSig, bad partials are rejected, the final signature verifies
// with dss.Verify / eddsa / crypto/ed25519 (Ed25519) and by the Schnorr equation gamma*B = R + h*A (all
// groups), all combiners agree byte for byte, fewer than t partials give no signature.

import (
	"bytes"
	"crypto/ed25519"
	"crypto/sha512"
	"errors"
	"fmt"
	"math/big"
	"strings"

	"go.dedis.ch/kyber/v4"
	"go.dedis.ch/kyber/v4/share"
	pdkg "go.dedis.ch/kyber/v4/share/dkg/pedersen"
	rdkg "go.dedis.ch/kyber/v4/share/dkg/rabin"
	"go.dedis.ch/kyber/v4/sign/dss"
	"go.dedis.ch/kyber/v4/sign/eddsa"
	"go.dedis.ch/kyber/v4/sign/schnorr"

	"verifharness/internal/kc"
)

type dssKS struct {
	sh *share.PriShare
	cm []kyber.Point
}

func (k *dssKS) PriShare() *share.PriShare  { return k.sh }
func (k *dssKS) Commitments() []kyber.Point { return k.cm }

type dssScen struct {
	h            *shG
	su           *pvSuite
	n, t         int
	source       string
	secs         []*big.Int
	parts        []kyber.Point
	long, rnd    []dss.DistKeyShare
	longC, randC []*big.Int
	alpha, beta  []*big.Int
	msg          []byte
	hval         *big.Int
	sid          *big.Int
	honest       []*dss.PartialSig
	sigs         map[string]string // combiner/history -> signature hex (agreement)
	firstSig     []byte
}

func dssSidN(b []byte) *big.Int { return kc.BeN(append([]byte{1}, b...)) }

func (sc *dssScen) node(j int) *dss.DSS {
	d, err := dss.NewDSS(sc.su, sc.h.sc(sc.secs[j]), sc.parts, sc.long[j], sc.rnd[j], sc.msg, uint32(sc.t))
	if err != nil {
		panic("NewDSS: " + err.Error())
	}
	return d
}

// dssPolyKeys builds the two distributed keys from polynomials chosen by the harness.
func dssPolyKeys(h *shG, rng *kc.Rng, n, t int) (long, rnd []dss.DistKeyShare, lc, rc []*big.Int) {
	mk := func() ([]dss.DistKeyShare, []*big.Int) {
		co := make([]*big.Int, t)
		sc := make([]kyber.Scalar, t)
		for i := range co {
			co[i] = rng.BigBelow(h.q)
			if i == 0 && co[i].Sign() == 0 {
				co[i] = big.NewInt(1)
			}
			sc[i] = h.sc(co[i])
		}
		p := share.CoefficientsToPriPoly(h.g, sc)
		_, cm := p.Commit(nil).Info()
		out := make([]dss.DistKeyShare, n)
		for i, s := range p.Shares(uint32(n)) {
			out[i] = &dssKS{s, cm}
		}
		return out, co
	}
	long, lc = mk()
	rnd, rc = mk()
	return
}

// readBack recovers the coefficient logs of a DKG output from all private shares (share.RecoverPriPoly)
// and confirms them against the public commitments.
func dssReadBack(h *shG, ks []dss.DistKeyShare, t int) ([]*big.Int, error) {
	var shares []*share.PriShare
	for _, k := range ks {
		shares = append(shares, k.PriShare())
	}
	p, err := share.RecoverPriPoly(h.g, shares, uint32(t), uint32(len(ks)))
	if err != nil {
		return nil, err
	}
	var out []*big.Int
	cm := ks[0].Commitments()
	if len(cm) != len(p.Coefficients()) {
		return nil, errors.New("commitments and recovered polynomial differ in length")
	}
	for i, c := range p.Coefficients() {
		v := h.big(c)
		if !h.isLog(cm[i], v) {
			return nil, errors.New("commitment is not the recovered coefficient times the base")
		}
		out = append(out, v)
	}
	return out, nil
}

func dssRabin(su *pvSuite, h *shG, secs []*big.Int, parts []kyber.Point, t int) ([]dss.DistKeyShare, error) {
	n := len(secs)
	gens := make([]*rdkg.DistKeyGenerator, n)
	for i := range gens {
		g, err := rdkg.NewDistKeyGenerator(su, h.sc(secs[i]), parts, uint32(t))
		if err != nil {
			return nil, err
		}
		gens[i] = g
	}
	var resps []*rdkg.Response
	for _, g := range gens {
		deals, err := g.Deals()
		if err != nil {
			return nil, err
		}
		for i, d := range deals {
			r, err := gens[i].ProcessDeal(d)
			if err != nil {
				return nil, err
			}
			resps = append(resps, r)
		}
	}
	for _, r := range resps {
		for k, g := range gens {
			if r.Response.Index == uint32(k) {
				continue
			}
			if _, err := g.ProcessResponse(r); err != nil {
				return nil, err
			}
		}
	}
	for i, g := range gens {
		scs, err := g.SecretCommits()
		if err != nil {
			return nil, err
		}
		for j, g2 := range gens {
			if i != j {
				if _, err := g2.ProcessSecretCommits(scs); err != nil {
					return nil, err
				}
			}
		}
	}
	out := make([]dss.DistKeyShare, n)
	for i, g := range gens {
		k, err := g.DistKeyShare()
		if err != nil {
			return nil, err
		}
		out[i] = k
	}
	return out, nil
}

func dssPedersen(su *pvSuite, h *shG, rng *kc.Rng, secs []*big.Int, parts []kyber.Point, t int) ([]dss.DistKeyShare, error) {
	n := len(secs)
	nodes := make([]pdkg.Node, n)
	for i := range nodes {
		nodes[i] = pdkg.Node{Index: uint32(i), Public: parts[i]}
	}
	nonce := rng.Bytes(pdkg.NonceLength)
	gens := make([]*pdkg.DistKeyGenerator, n)
	for i := range gens {
		g, err := pdkg.NewDistKeyHandler(&pdkg.Config{Suite: su, Longterm: h.sc(secs[i]), NewNodes: nodes, Threshold: uint32(t),
			Nonce: nonce, Auth: schnorr.NewScheme(su)})
		if err != nil {
			return nil, err
		}
		gens[i] = g
	}
	var deals []*pdkg.DealBundle
	for _, g := range gens {
		d, err := g.Deals()
		if err != nil {
			return nil, err
		}
		deals = append(deals, d)
	}
	var resps []*pdkg.ResponseBundle
	for _, g := range gens {
		r, err := g.ProcessDeals(deals)
		if err != nil {
			return nil, err
		}
		if r != nil {
			resps = append(resps, r)
		}
	}
	out := make([]dss.DistKeyShare, n)
	for i, g := range gens {
		res, just, err := g.ProcessResponses(resps)
		if err != nil || res == nil || just != nil {
			return nil, fmt.Errorf("pedersen dkg did not finish after the response phase: %v", err)
		}
		out[i] = res.Key
	}
	return out, nil
}

func newDssScen(c *kc.Ctx, h *shG, rng *kc.Rng, n, t int, source string) *dssScen {
	sc := &dssScen{h: h, n: n, t: t, source: source, su: &pvSuite{Group: h.g, rnd: kc.NewRng(rng.U64())}, sigs: map[string]string{}}
	seen := map[string]bool{}
	for len(sc.secs) < n {
		x := pvNonzero(rng, h.q)
		if seen[x.String()] {
			continue
		}
		seen[x.String()] = true
		sc.secs = append(sc.secs, x)
		sc.parts = append(sc.parts, h.pt(x))
	}
	// message lengths: short ones and lengths around the block sizes of SHA-512 (the signature is an EdDSA
	// signature on the message itself, whatever its length)
	sc.msg = rng.Bytes([]int{0, 1, 31, 32, 33, 63, 64, 111, 112, 127, 128, 129, 200, 255, 256, 257, 1000}[rng.Intn(17)] + rng.Intn(2))
	var err error
	switch source {
	case "poly":
		sc.long, sc.rnd, sc.longC, sc.randC = dssPolyKeys(h, rng, n, t)
	case "rabin":
		if sc.long, err = dssRabin(sc.su, h, sc.secs, sc.parts, t); err == nil {
			sc.rnd, err = dssRabin(sc.su, h, sc.secs, sc.parts, t)
		}
	case "pedersen":
		if sc.long, err = dssPedersen(sc.su, h, rng, sc.secs, sc.parts, t); err == nil {
			sc.rnd, err = dssPedersen(sc.su, h, rng, sc.secs, sc.parts, t)
		}
	}
	if err == nil && source != "poly" {
		if sc.longC, err = dssReadBack(h, sc.long, t); err == nil {
			sc.randC, err = dssReadBack(h, sc.rnd, t)
		}
	}
	if err != nil {
		c.Unshown("C12:keys:"+source, "could not produce distributed keys from a real "+source+" DKG run: "+err.Error(), map[string]any{"group": h.name, "n": n, "t": t})
		return nil
	}
	for i := 0; i < n; i++ {
		sc.alpha = append(sc.alpha, h.big(sc.long[i].PriShare().V))
		sc.beta = append(sc.beta, h.big(sc.rnd[i].PriShare().V))
	}
	// honest partials (each from a fresh node)
	for i := 0; i < n; i++ {
		ps, err := sc.node(i).PartialSig()
		if err != nil {
			c.Violation("C12:PartialSig", "PartialSig failed: "+err.Error(), nil)
			return nil
		}
		sc.honest = append(sc.honest, ps)
	}
	sc.sid = dssSidN(sc.honest[0].SessionID)
	// h: observed from an honest partial (gamma_i = h*alpha_i + beta_i), else recomputed as the code does
	for i := 0; i < n && sc.hval == nil; i++ {
		if sc.alpha[i].Sign() != 0 {
			g := h.big(sc.honest[i].Partial.V)
			d := new(big.Int).Sub(g, sc.beta[i])
			sc.hval = h.mulq(d.Mod(d, h.q), new(big.Int).ModInverse(sc.alpha[i], h.q))
		}
	}
	if sc.hval == nil {
		hh := sha512.New()
		_, _ = sc.rnd[0].Commitments()[0].MarshalTo(hh)
		_, _ = sc.long[0].Commitments()[0].MarshalTo(hh)
		hh.Write(sc.msg)
		sc.hval = h.big(h.g.Scalar().SetBytes(hh.Sum(nil)))
	}
	return sc
}

// one event of a history, with the real object and its model token
type dssEv struct {
	sign   bool
	ps     *dss.PartialSig
	kind   string // honest | wrongV | forged | garbage-sig | other-session | out-of-range | reindexed | reindexed-resigned | sid-resigned
	sender int
}

func (sc *dssScen) clonePS(ps *dss.PartialSig) *dss.PartialSig {
	return &dss.PartialSig{Partial: &share.PriShare{I: ps.Partial.I, V: ps.Partial.V.Clone()},
		SessionID: append([]byte{}, ps.SessionID...), Signature: append([]byte{}, ps.Signature...)}
}

func (sc *dssScen) resign(ps *dss.PartialSig, signer int) {
	sig, err := schnorr.Sign(sc.su, sc.h.sc(sc.secs[signer]), ps.Hash(sc.su))
	if err != nil {
		panic(err)
	}
	ps.Signature = sig
}

// bad builds an injected partial of the given kind from sender i.
func (sc *dssScen) bad(kind string, i int, rng *kc.Rng, other *dssScen) dssEv {
	ps := sc.clonePS(sc.honest[i])
	k := (i + 1 + rng.Intn(sc.n-1)) % sc.n
	switch kind {
	case "wrongV":
		ps.Partial.V = sc.h.g.Scalar().Add(ps.Partial.V, sc.h.g.Scalar().One())
		sc.resign(ps, i)
	case "forged":
		sc.resign(ps, k)
	case "garbage-sig":
		ps.Signature = rng.Bytes(len(ps.Signature))
	case "other-session":
		ps = sc.clonePS(other.honest[i])
	case "out-of-range":
		ps.Partial.I = uint32(sc.n + rng.Intn(3))
		if rng.Intn(4) == 0 {
			ps.Partial.I = 1<<32 - 1
		}
		sc.resign(ps, i)
	case "reindexed":
		ps.Partial.I = uint32(k)
	case "reindexed-resigned":
		ps.Partial.I = uint32(k)
		sc.resign(ps, k)
	case "sid-resigned":
		ps.SessionID = append([]byte{}, ps.SessionID...)
		ps.SessionID[0] ^= 1
		sc.resign(ps, i)
	}
	return dssEv{ps: ps, kind: kind, sender: i}
}

var dssBadKinds = []string{"wrongV", "forged", "garbage-sig", "other-session", "out-of-range", "reindexed", "reindexed-resigned", "sid-resigned"}

func dssErrClass(err error) string {
	switch {
	case err == nil:
		return "ok"
	case errors.Is(err, dss.ErrInvalidSignatureIndex):
		return "errIndex"
	case strings.Contains(err.Error(), "session id"):
		return "errSession"
	case strings.Contains(err.Error(), "already received"):
		return "errDup"
	case strings.Contains(err.Error(), "not valid"):
		return "errInvalid"
	}
	return "errAuth"
}

// dssFixOwn is "1" when the real PartialSig() does not store the node's own partial a second time
// (fixes/C12-own-partial-counted-twice.patch landed), "0" for the code as it stands; probed at start.
var dssFixOwn = "0"

// dssProbe: node 0 receives its own partial (issued by another instance) and then signs, t = 2, n = 3.
func dssProbe(c *kc.Ctx, h *shG) string {
	sc := newDssScen(c, h, kc.NewRng(12), 3, 2, "poly")
	if sc == nil {
		return "0"
	}
	d := sc.node(0)
	if d.ProcessPartialSig(sc.clonePS(sc.honest[0])) != nil {
		return "0"
	}
	if _, err := d.PartialSig(); err != nil || d.EnoughPartialSig() {
		return "0"
	}
	return "1"
}

type dssCase struct {
	panicked bool // the real code panicked; the rest of the history was not executed and is not compared
	line     string
	got      string // verdict string as the model prints it, verdict classes folded to ok/err
	gotFull  string // with the error classes of the real code
	pred     string
	key      string
	replay   map[string]any
}

// play runs one history at combiner j on the real code.
func (sc *dssScen) play(j int, evs []dssEv, desc string) dssCase {
	h := sc.h
	d := sc.node(j)
	cs := dssCase{replay: map[string]any{"group": h.name, "n": sc.n, "t": sc.t, "keys": sc.source, "combiner": j, "history": desc}}
	var toks, res, resFull []string
	accepted := map[uint32]bool{}
	signedYet, ownViaNetwork := false, false
	fail := func(key, what string) {
		if cs.pred == "" {
			cs.pred, cs.key = what, key
		}
	}
	for _, ev := range evs {
		if ev.sign {
			ps, err := d.PartialSig()
			if err != nil {
				fail("C12:PartialSig", "PartialSig failed")
				continue
			}
			toks = append(toks, "s")
			r := fmt.Sprintf("P:%x:%s", ps.Partial.I, kc.HexN(h.big(ps.Partial.V)))
			res, resFull = append(res, r), append(resFull, r)
			accepted[uint32(j)] = true
			signedYet = true
		} else {
			ps := sc.clonePS(ev.ps)
			auth := "0"
			if int(ps.Partial.I) < sc.n && kc.Recover(func() string {
				return fmt.Sprint(schnorr.Verify(sc.su, sc.parts[ps.Partial.I], ps.Hash(sc.su), ps.Signature) == nil)
			}) == "true" {
				auth = "1"
			}
			toks = append(toks, fmt.Sprintf("r:%x:%s:%s:%s", ps.Partial.I, kc.HexN(h.big(ps.Partial.V)), kc.HexN(dssSidN(ps.SessionID)), auth))
			var err error
			if kc.Recover(func() string { err = d.ProcessPartialSig(ps); return "" }) == "panic" {
				// not a rejection: the process dies on an untrusted message; the state of d is undefined from here on
				fail("C12:ProcessPartialSig:panic:"+h.name, "ProcessPartialSig panics on a partial signature ("+ev.kind+") instead of rejecting it")
				cs.panicked = true
				break
			}
			cl := dssErrClass(err)
			resFull = append(resFull, cl)
			if err == nil {
				res = append(res, "ok")
			} else {
				res = append(res, "err")
			}
			// predicate: a partial is valid iff it carries the index, value and session id of the honest partial
			// of that index and authenticates under that participant's key (whatever way it was produced);
			// valid partials of a new index are accepted, everything else is rejected
			valid := auth == "1" && int(ps.Partial.I) < sc.n && ps.Partial.V.Equal(sc.honest[ps.Partial.I].Partial.V) &&
				bytes.Equal(ps.SessionID, sc.honest[ps.Partial.I].SessionID)
			wantOK := valid && !accepted[ps.Partial.I]
			if wantOK && err != nil {
				fail("C12:ProcessPartialSig:honest-rejected", "a valid partial signature was rejected: "+err.Error())
			}
			if !wantOK && err == nil {
				what := ev.kind
				if valid {
					what = "a duplicate"
				}
				fail("C12:ProcessPartialSig:"+ev.kind, "a partial signature that is "+what+" was accepted")
			}
			if err == nil && int(ps.Partial.I) == j && !signedYet {
				ownViaNetwork = true
			}
			if err == nil {
				accepted[ps.Partial.I] = true
			}
		}
		if d.EnoughPartialSig() != (len(accepted) >= sc.t) {
			key := "C12:EnoughPartialSig"
			if ownViaNetwork && signedYet {
				// the node's own partial arrived over the network (from another instance of the node) before PartialSig()
				key = "C12:EnoughPartialSig:own-partial-counted-twice"
			}
			fail(key, fmt.Sprintf("EnoughPartialSig = %v with %d accepted partials, t = %d", d.EnoughPartialSig(), len(accepted), sc.t))
		}
		// asking for the signature early is a query: it is refused while partials are missing and takes nothing
		// away from what later partials make possible
		if !cs.panicked {
			var qe error
			if kc.Recover(func() string { _, qe = d.Signature(); return "" }) == "panic" {
				fail("C12:Signature:panic-early", "Signature() panics when asked before all partials are in")
			} else if (qe == nil) != d.EnoughPartialSig() {
				fail("C12:Signature:early-query", fmt.Sprintf("Signature() error=%v although EnoughPartialSig=%v", qe, d.EnoughPartialSig()))
			}
		}
	}
	sig, err := d.Signature()
	sg := "err"
	if err == nil {
		pl := h.g.PointLen()
		R, s := h.g.Point(), h.g.Scalar()
		if len(sig) != pl+h.g.ScalarLen() || R.UnmarshalBinary(sig[:pl]) != nil || s.UnmarshalBinary(sig[pl:]) != nil {
			fail("C12:Signature:format", "Signature is not R || gamma")
		} else {
			if !h.isLog(R, sc.randC[0]) {
				fail("C12:Signature:R", "R is not the one-time distributed public key")
			}
			sg = kc.HexN(sc.randC[0]) + ":" + kc.HexN(h.big(s))
			// Schnorr / EdDSA equation on the real group: gamma*B = R + h*A
			A := sc.long[0].Commitments()[0]
			right := h.g.Point().Add(R, h.g.Point().Mul(h.sc(sc.hval), A))
			if !h.g.Point().Mul(s, nil).Equal(right) {
				fail("C12:Signature:equation", "gamma*B != R + h*A")
			}
			if h.name == "ed25519" {
				if dss.Verify(A, sc.msg, sig) != nil || eddsa.Verify(A, sc.msg, sig) != nil {
					fail("C12:Signature:eddsa", "signature does not verify with dss.Verify / eddsa.Verify")
				}
				pk, _ := A.MarshalBinary()
				if !ed25519.Verify(ed25519.PublicKey(pk), sc.msg, sig) {
					fail("C12:Signature:crypto-ed25519", "signature does not verify with crypto/ed25519")
				}
			}
			if sc.firstSig == nil {
				sc.firstSig = sig
			} else if !bytes.Equal(sc.firstSig, sig) {
				fail("C12:Signature:agreement", "two combiners / histories produced different signatures for the same keys and message")
			}
		}
		if len(accepted) < sc.t {
			fail("C12:Signature:too-few", "a signature was produced from fewer than t partials")
		}
	} else if len(accepted) >= sc.t {
		fail("C12:Signature:refused", "no signature although t valid partials were accepted: "+err.Error())
	}
	seenL := "?" // not observable on the real code
	_ = seenL
	ops := "-"
	if len(toks) > 0 {
		ops = strings.Join(toks, ",")
	}
	cs.line = fmt.Sprintf("dss %s run %s %x %x %x %s %s %s %s %s %s %s", kc.HexN(h.q), dssFixOwn, j, sc.n, sc.t, kc.HexN(sc.alpha[j]), kc.HexN(sc.beta[j]),
		kc.HexNList(sc.longC), kc.HexNList(sc.randC), kc.HexN(sc.hval), kc.HexN(sc.sid), ops)
	r := "-"
	rf := "-"
	if len(res) > 0 {
		r, rf = strings.Join(res, ","), strings.Join(resFull, ",")
	}
	cs.got = fmt.Sprintf("%s %v %s", r, d.EnoughPartialSig(), sg)
	cs.gotFull = fmt.Sprintf("%s %v %s", rf, d.EnoughPartialSig(), sg)
	return cs
}

// dssFold maps the model output "<results> <seen> <enough> <sig>" to the comparable forms.
func dssFold(model string) (folded, full string) {
	f := strings.Fields(model)
	if len(f) != 4 {
		return model, model
	}
	rs := strings.Split(f[0], ",")
	fd := make([]string, len(rs))
	for i, r := range rs {
		fd[i] = r
		if strings.HasPrefix(r, "err") {
			fd[i] = "err"
		}
	}
	return fmt.Sprintf("%s %s %s", strings.Join(fd, ","), f[2], f[3]), fmt.Sprintf("%s %s %s", f[0], f[2], f[3])
}

func dssHistories(c *kc.Ctx, sc, other *dssScen, rng *kc.Rng, exhaustive bool, sampled int, out *[]dssCase) {
	n := sc.n
	hon := func(i int) dssEv { return dssEv{ps: sc.honest[i], kind: "honest", sender: i} }
	if exhaustive {
		// every combiner, every subset of the other participants, every arrival order, own partial first / last / never
		for j := 0; j < n; j++ {
			var others []uint32
			for i := 0; i < n; i++ {
				if i != j {
					others = append(others, uint32(i))
				}
			}
			for mask := 0; mask < 1<<len(others); mask++ {
				var sub []uint32
				for b := range others {
					if mask>>b&1 == 1 {
						sub = append(sub, others[b])
					}
				}
				shPermutations(sub, func(p []uint32) {
					var evs []dssEv
					for _, i := range p {
						evs = append(evs, hon(int(i)))
					}
					desc := fmt.Sprint("order ", p)
					*out = append(*out, sc.play(j, append([]dssEv{{sign: true}}, evs...), desc+" sign-first"))
					*out = append(*out, sc.play(j, append(append([]dssEv{}, evs...), dssEv{sign: true}), desc+" sign-last"))
					if len(p) > 0 {
						*out = append(*out, sc.play(j, evs, desc+" no-sign"))
					}
				})
				c.CountKind(sc.h.name + ":exhaustive-subsets")
			}
		}
	}
	for it := 0; it < sampled; it++ {
		j := rng.Intn(n)
		var evs []dssEv
		// a random subset of honest partials, in random order, with injected bad ones, duplicates, own partial replayed
		perm := make([]int, 0, n)
		for i := 0; i < n; i++ {
			if i != j && rng.Intn(4) != 0 {
				perm = append(perm, i)
			}
		}
		for a := len(perm) - 1; a > 0; a-- {
			b := rng.Intn(a + 1)
			perm[a], perm[b] = perm[b], perm[a]
		}
		for _, i := range perm {
			evs = append(evs, hon(i))
		}
		ins := func(e dssEv) {
			p := rng.Intn(len(evs) + 1)
			evs = append(evs, dssEv{})
			copy(evs[p+1:], evs[p:])
			evs[p] = e
		}
		var feats []string
		for k := rng.Intn(4); k > 0; k-- {
			kind := dssBadKinds[rng.Intn(len(dssBadKinds))]
			i := rng.Intn(n)
			ins(sc.bad(kind, i, rng, other))
			feats = append(feats, kind)
		}
		if len(perm) > 0 && rng.Intn(3) == 0 {
			ins(hon(perm[rng.Intn(len(perm))])) // duplicate (before or after the original)
			feats = append(feats, "duplicate")
		}
		if rng.Intn(6) == 0 {
			ins(hon(j)) // the combiner's own partial coming back over the network
			feats = append(feats, "own-replayed")
		}
		switch rng.Intn(4) {
		case 0:
		case 1:
			ins(dssEv{sign: true})
			ins(dssEv{sign: true})
			feats = append(feats, "sign-twice")
		default:
			ins(dssEv{sign: true})
		}
		for _, f := range feats {
			c.CountKind("history-feature:" + f)
		}
		*out = append(*out, sc.play(j, evs, "sampled "+strings.Join(feats, "+")))
	}
}

func runC12(c *kc.Ctx) {
	c.SetRule("case = one history of one DSS object on the real code (group, key source, n, t, combiner, sequence of PartialSig() / ProcessPartialSig(partial) events with the partials as given); all non-trivial; distinct by model line")
	c.Assume("H_RO: the message hash h = H(R || A || msg) is an oracle value, observed from an honest partial (gamma_i = h*alpha_i + beta_i)",
		"the Schnorr signature authenticating a partial is C08's; its verdict is obtained from the real schnorr.Verify on the same bytes and given to the model",
		"keys from real DKG runs: the polynomial is read back from all n private shares with share.RecoverPriPoly and confirmed against the public commitments",
		"error classes of ProcessPartialSig are compared for information only (op kind class-mismatch); the verdict accept/reject, EnoughPartialSig and the signature are binding")
	groupsL := shGroups(c, c.Rng.Fork("c12-mock-stream"))
	var cases []dssCase
	scen := 0
	dssFixOwn = dssProbe(c, groupsL[0])
	c.Extra("own_partial_dedup_probe", dssFixOwn)
	for _, h := range groupsL {
		if !(h.mock != nil || h.name == "ed25519" || h.name == "p256" || c.Thorough()) {
			continue
		}
		rng := c.Rng.Fork("c12/" + h.name)
		var ns []int
		exhN, sampled := 0, 0
		sources := []string{"poly"}
		switch {
		case h.mock != nil:
			ns, exhN, sampled = []int{3, 4, 5, 6, 7}, c.N(5, 6), c.N(150, 1000)
		case h.name == "ed25519":
			ns, exhN, sampled = []int{3, 4, 5, 6, 7}, c.N(4, 5), c.N(60, 400)
			sources = []string{"poly", "rabin", "pedersen"}
		default:
			ns, exhN, sampled = []int{3, 5}, c.N(3, 4), c.N(20, 100)
			if c.Thorough() {
				ns = []int{3, 4, 5, 7}
			}
		}
		for _, n := range ns {
			for t := 1; t <= n; t++ {
				for _, src := range sources {
					if src != "poly" && (t < 2 || (src == "pedersen" && t < int(pdkg.MinimumT(uint32(n))))) {
						continue // the DKG packages constrain t
					}
					if src != "poly" && !c.Thorough() && n > 5 {
						continue
					}
					r := rng.Fork(fmt.Sprint(n, t, src))
					sc := newDssScen(c, h, r, n, t, src)
					if sc == nil {
						continue
					}
					// a second session over the same participants (another one-time key), for cross-session partials
					other := &dssScen{h: h, n: n, t: t, source: "poly", su: sc.su, secs: sc.secs, parts: sc.parts, msg: sc.msg, long: sc.long, longC: sc.longC}
					_, other.rnd, _, other.randC = dssPolyKeys(h, r, n, t)
					for i := 0; i < n; i++ {
						ps, err := other.node(i).PartialSig()
						if err != nil {
							panic(err)
						}
						other.honest = append(other.honest, ps)
					}
					smp := sampled
					if src != "poly" {
						smp = sampled / 3
					}
					dssHistories(c, sc, other, r, n <= exhN && src == "poly", smp, &cases)
					scen++
					c.CountKind(h.name + ":keys-" + src)
				}
			}
		}
	}
	lines := make([]string, len(cases))
	for i := range cases {
		lines[i] = cases[i].line
	}
	outs := c.Model(lines)
	c.Eval(len(cases))
	c.Program(len(cases))
	step := len(cases)/8 + 1
	for i := range cases {
		cs := &cases[i]
		c.CountKind("history")
		c.Nontrivial(cs.line)
		folded, full := dssFold(outs[i])
		if i%step == 0 {
			c.Sample(map[string]any{"line": cs.line, "impl_out": cs.gotFull, "model_out": outs[i], "history": cs.replay["history"]})
		}
		if cs.pred != "" {
			rp := map[string]any{"line": cs.line, "impl": cs.gotFull}
			for k, v := range cs.replay {
				rp[k] = v
			}
			c.Violation(cs.key, cs.pred, rp)
		}
		if cs.panicked {
			c.CountKind("panicked-history")
			continue
		}
		if full != cs.gotFull && folded == cs.got {
			c.CountKind("class-mismatch")
		}
		if folded == cs.got {
			continue
		}
		c.Disagree(cs.line, cs.gotFull, outs[i], fmt.Sprint(cs.replay["history"]))
		c.DisChecked(1)
		if cs.pred == "" {
			c.Unshown("correspondence:history", fmt.Sprintf("model and implementation disagree while the property predicate holds: %s -> impl %s, model %s", cs.line, cs.gotFull, outs[i]), cs.replay)
		}
	}
	c.Extra("scenarios", scen)
}

func init() { register("C12", "proof", runC12) }
