//go:build !constantTime

package main

// C17 — Pick, Embed and hash-to-group give group members; Embed is lossless.
//
// Correspondence: Embed / Data / Pick of every group that supports them against the Lean model
// (Groups/Embed.lean: the result and the number of stream bytes consumed as a function of the bytes
// drawn), on seeded streams and on adversarial stream PREFIXES (all-00 / all-ff / crafted blocks forcing
// retries) followed by a seeded stream; RFC 9380 hash-to-curve of edwards25519 piecewise
// (expand_message_xmd, hash_to_field, the Elligator 2 map through the verif hook, the whole Hash)
// against Groups/HashToCurve.lean, including the RFC's vectors and the corpus of past disagreements;
// try-and-increment hashing of BN256 G1. The property's own predicates are evaluated on the real code:
// q•P = O, determinism, Data(Embed d) = d[:EmbedLen] also after re-encoding, Data error iff the length
// field is out of range, distinct messages give distinct points. Every op runs under a timeout.

import (
	"bufio"
	"bytes"
	"crypto/cipher"
	"fmt"
	"go.dedis.ch/kyber/v4/sign/anon"
	"math/big"
	"os"
	"path/filepath"
	"strings"
	"time"

	"go.dedis.ch/kyber/v4"
	"go.dedis.ch/kyber/v4/group/edwards25519"

	"verifharness/internal/groups"
	"verifharness/internal/kc"
)

// embStream: a chosen finite prefix followed by a seeded stream; records what was drawn.
type embStream struct {
	prefix []byte
	pos    int
	r      *kc.Rng
	used   []byte
}

func (s *embStream) XORKeyStream(dst, src []byte) {
	for i := range src {
		var k byte
		if s.pos < len(s.prefix) {
			k = s.prefix[s.pos]
		} else {
			k = s.r.Bytes(1)[0]
		}
		s.pos++
		s.used = append(s.used, k)
		dst[i] = src[i] ^ k
	}
}

var _ cipher.Stream = (*embStream)(nil)

// embTimeout runs f under recover with a time limit; a panic that documents an unsupported operation
// is reported as "unsupported" (DESIGN §4: not an alarm).
func embTimeout(f func() string) string {
	ch := make(chan string, 1)
	go func() {
		defer func() {
			if r := recover(); r != nil {
				if strings.Contains(fmt.Sprint(r), "unsupported operation") {
					ch <- "unsupported"
				} else {
					ch <- "panic"
				}
			}
		}()
		ch <- f()
	}()
	select {
	case r := <-ch:
		return r
	case <-time.After(20 * time.Second):
		return "timeout"
	}
}

func embModelName(g *groups.G) string {
	switch g.Name {
	case "ed25519", "ed25519-allowvt", "ed25519vt-proj", "ed25519vt-ext":
		return "ed25519"
	case "p256":
		return "p256"
	case "qr512":
		if P, Q := decQrParams(g); P != nil {
			return "residue " + kc.HexN(P) + " " + kc.HexN(Q)
		}
	case "bn256-g1":
		return "bn256g1"
	}
	return ""
}

// embValue renders a point the way the model's `embed` line does.
func embValue(g *groups.G, p kyber.Point) string {
	b, err := p.MarshalBinary()
	if err != nil {
		return "marshal-err"
	}
	switch g.Name {
	case "p256":
		return kc.HexN(kc.BeN(b[1:33])) + " " + kc.HexN(kc.BeN(b[33:65]))
	case "qr512":
		return kc.HexN(kc.BeN(b))
	}
	return kc.HexB(b)
}

func embDataTok(d []byte) string {
	if d == nil {
		return "nil"
	}
	return kc.HexB(d)
}

// orderTest: q•P = O on the real code.
func embOrderTest(g *groups.G, p kyber.Point) string {
	return embTimeout(func() string {
		G := g.Group
		qm1 := new(big.Int).Sub(g.Q, big.NewInt(1))
		s := G.Scalar().SetBytes(scBytes(G, qm1)) // q-1
		// (q-1)•P + P = O
		if !G.Point().Add(G.Point().Mul(s, p), p).Equal(G.Point().Null()) {
			return "not-in-subgroup"
		}
		return ""
	})
}

type embCase struct {
	g      *groups.G
	data   []byte
	fam    string
	prefix []byte
	got    string // "ok <value> <used>" | "panic" | "timeout"
	line   string
	used   []byte
	pt     kyber.Point
}

func embPrefixes(g *groups.G, rng *kc.Rng) map[string][]byte {
	blk := g.Group.PointLen()
	if g.Name == "p256" {
		blk = 33
	}
	out := map[string][]byte{"seeded": nil}
	for k := 1; k <= 3; k++ {
		out[fmt.Sprintf("zeros-x%d", k)] = decFill(k*blk, 0)
		out[fmt.Sprintf("ff-x%d", k)] = decFill(k*blk, 0xff)
	}
	out["zeros-odd"] = decFill(blk+5, 0)
	out["ff-odd"] = decFill(blk-3, 0xff)
	switch g.Name {
	case "p256":
		// x = p + x0 ≥ p for small x0: the candidate is used as drawn
		for x0 := int64(0); x0 < 12; x0++ {
			x := new(big.Int).Add(decP256P, big.NewInt(x0))
			out[fmt.Sprintf("x-geq-p-%d", x0)] = decCat(decBE(x, 32), []byte{0})
			out[fmt.Sprintf("x-geq-p-neg-%d", x0)] = decCat(decBE(x, 32), []byte{0x80})
		}
	case "ed25519", "ed25519-allowvt", "ed25519vt-proj", "ed25519vt-ext":
		// torsion points (cofactor clearing gives the identity → retry), y ≥ p, "-0"
		for i, h := range []string{
			"0100000000000000000000000000000000000000000000000000000000000000",
			"ecffffffffffffffffffffffffffffffffffffffffffffffffffffffffffff7f",
			"0000000000000000000000000000000000000000000000000000000000000080",
			"26e8958fc2b227b045c3f489f2ef98f0d5dfac05d3c63339b13802886d53fc05",
			"c7176a703d4dd84fba3c0b760d10670f2a2053fa2c39ccc64ec7fd7792ac03fa",
			"0100000000000000000000000000000000000000000000000000000000000080",
			"eeffffffffffffffffffffffffffffffffffffffffffffffffffffffffffff7f"} {
			out[fmt.Sprintf("torsion-or-noncanonical-%d", i)] = mustHex(h)
		}
	case "qr512":
		if P, _ := decQrParams(g); P != nil {
			out["value-P"] = decBE(P, 64)
			out["value-P-minus-1"] = decBE(new(big.Int).Sub(P, big.NewInt(1)), 64)
			out["value-1"] = decBE(big.NewInt(1), 64)
			out["value-0"] = decBE(big.NewInt(0), 64)
		}
	}
	_ = rng
	return out
}

func c17Embed(c *kc.Ctx) {
	var cases []*embCase
	for _, g := range groups.All() {
		model := embModelName(g)
		if model == "" {
			continue
		}
		rng := c.Rng.Fork("embed/" + g.Name)
		el := 0
		if r := embTimeout(func() string { el = g.Group.Point().EmbedLen(); return "" }); r != "" {
			continue
		}
		c.Extra("embedlen:"+g.Name, el)
		var datas [][]byte
		datas = append(datas, nil, []byte{})
		for l := 1; l <= el+8; l++ {
			datas = append(datas, rng.Bytes(l))
		}
		datas = append(datas, decFill(el, 0), decFill(el, 0xff), decFill(el+3, 0xff), rng.Bytes(300))
		prefixes := embPrefixes(g, rng)
		reps := c.N(1, 6)
		for _, d := range datas {
			for fam, pre := range prefixes {
				if fam != "seeded" && d != nil && len(d) != 0 && len(d) != el && len(d) != 3 && !c.Thorough() {
					continue // quick: adversarial prefixes with data lengths nil, 0, 3, EmbedLen
				}
				n := 1
				if fam == "seeded" {
					n = reps
				}
				for r := 0; r < n; r++ {
					cs := &embCase{g: g, data: d, fam: fam, prefix: pre}
					st := &embStream{prefix: pre, r: rng.Fork(fmt.Sprint("s", len(cases)))}
					cs.got = embTimeout(func() string {
						cs.pt = g.Group.Point().Embed(d, st)
						return "ok " + embValue(g, cs.pt)
					})
					cs.used = append([]byte{}, st.used...)
					if strings.HasPrefix(cs.got, "ok ") {
						cs.got += fmt.Sprintf(" %d", len(cs.used))
					}
					tail := rng.Bytes(40)
					cs.line = "embed " + model + " " + embDataTok(d) + " " + kc.HexB(decCat(cs.used, tail))
					cases = append(cases, cs)
				}
			}
		}
	}
	lines := make([]string, len(cases))
	for i, cs := range cases {
		lines[i] = cs.line
	}
	outs := c.ModelDedup(lines)
	var dataLines []string
	var dataIdx []int
	for i, cs := range cases {
		g := cs.g
		c.Eval(1)
		c.Program(1)
		kind := "embed"
		if cs.data == nil {
			kind = "pick"
		}
		c.CountKind(g.Name + ":" + kind + ":" + strings.SplitN(cs.fam, "-", 2)[0])
		c.CountKindN("candidates-consumed", len(cs.used)/g.Group.PointLen())
		c.Nontrivial("emb|" + g.Name + "|" + embDataTok(cs.data) + "|" + kc.HexB(cs.used))
		if i%(len(cases)/4+1) == 0 {
			c.Sample(map[string]string{"group": g.Name, "data": embDataTok(cs.data), "stream": cs.fam, "consumed": kc.HexB(cs.used), "impl": cs.got, "model": outs[i]})
		}
		rep := map[string]any{"group": g.Name, "op": "Embed", "data": embDataTok(cs.data), "stream_family": cs.fam, "stream_consumed": kc.HexB(cs.used), "impl": cs.got, "model": outs[i]}
		if cs.got == "panic" || cs.got == "timeout" {
			c.Violation(g.Name+":embed-"+cs.got+":"+strings.SplitN(cs.fam, "-", 2)[0], fmt.Sprintf("%s Embed(%s) on stream %s…: %s", g.Name, embDataTok(cs.data), decTrunc(kc.HexB(cs.used)), cs.got), rep)
			continue
		}
		// the property's predicates on the real code
		var fails []string
		p := cs.pt
		if g.Name == "p256" {
			if f := strings.Fields(cs.got); len(f) >= 3 {
				if x, ok := new(big.Int).SetString(f[1], 16); ok && x.Cmp(decP256P) >= 0 {
					late := embOrderTest(g, p)
					rep["use_of_the_point"] = late
					c.Violation("p256:embed:x-coordinate-not-in-field", fmt.Sprintf("p256 Embed(%s) on stream %s returns a point with x = %s ≥ p (not a field element; using it: %s)", embDataTok(cs.data), cs.fam, f[1], late), rep)
					continue
				}
			}
		}
		if r := embOrderTest(g, p); r != "" {
			fails = append(fails, "order-test:"+r)
		}
		if r := embTimeout(func() string {
			b, err := p.MarshalBinary()
			if err != nil {
				return "marshal-err"
			}
			q := g.Group.Point()
			if err := q.UnmarshalBinary(b); err != nil {
				return "reencoding-rejected"
			}
			if !q.Equal(p) {
				return "reencoding-not-equal"
			}
			if cs.data != nil {
				want := cs.data
				if len(want) > g.Group.Point().EmbedLen() {
					want = want[:g.Group.Point().EmbedLen()]
				}
				d1, err := p.Data()
				if err != nil {
					return "data-error"
				}
				if !bytes.Equal(d1, want) {
					return "data-differs"
				}
				d2, err := q.Data()
				if err != nil || !bytes.Equal(d2, want) {
					return "data-after-reencoding-differs"
				}
			}
			return ""
		}); r != "" {
			fails = append(fails, r)
		}
		// determinism: the same bytes give the same point
		if r := embTimeout(func() string {
			st := &embStream{prefix: cs.used, r: kc.NewRng(7)}
			q := g.Group.Point().Embed(cs.data, st)
			if !q.Equal(p) || len(st.used) != len(cs.used) {
				return "not-deterministic"
			}
			return ""
		}); r != "" {
			fails = append(fails, r)
		}
		for _, f := range fails {
			c.Violation(g.Name+":embed:"+f+":"+strings.SplitN(cs.fam, "-", 2)[0], fmt.Sprintf("%s Embed(%s) on stream %s: %s", g.Name, embDataTok(cs.data), cs.fam, f), rep)
		}
		if cs.got != outs[i] {
			c.Disagree(cs.line, cs.got, outs[i], g.Name)
			c.DisChecked(1)
			if len(fails) == 0 {
				c.Unshown("correspondence:"+g.Name+":embed", fmt.Sprintf("%s Embed(%s): impl %s, model %s", g.Name, embDataTok(cs.data), cs.got, outs[i]), rep)
			}
			continue
		}
		// Data of the model on the resulting value (random first byte when no data was embedded:
		// error iff the length field exceeds EmbedLen)
		if f := strings.Fields(cs.got); len(f) >= 3 {
			switch g.Name {
			case "p256":
				dataLines = append(dataLines, "data p256 "+f[1])
			case "qr512":
				P, _ := decQrParams(g)
				dataLines = append(dataLines, "data residue "+kc.HexN(P)+" "+f[1])
			case "bn256-g1":
				dataLines = append(dataLines, "data bn256g1 "+f[1])
			default:
				dataLines = append(dataLines, "data ed25519 "+f[1])
			}
			dataIdx = append(dataIdx, i)
		}
	}
	douts := c.ModelDedup(dataLines)
	for k, o := range douts {
		cs := cases[dataIdx[k]]
		c.Eval(1)
		c.Program(1)
		got := embTimeout(func() string {
			d, err := cs.pt.Data()
			if err != nil {
				return "err"
			}
			return "ok " + kc.HexB(d)
		})
		c.CountKind(cs.g.Name + ":data:" + strings.SplitN(got, " ", 2)[0])
		if got != o {
			rep := map[string]any{"group": cs.g.Name, "op": "Data", "point": cs.got, "impl": got, "model": o}
			c.Disagree(dataLines[k], got, o, cs.g.Name)
			c.DisChecked(1)
			if got == "panic" || got == "timeout" {
				c.Violation(cs.g.Name+":data-"+got, "Data() "+got, rep)
			} else {
				c.Violation(cs.g.Name+":data-differs-from-spec", fmt.Sprintf("%s Data() = %s, specification (length field vs EmbedLen) %s", cs.g.Name, got, o), rep)
			}
		}
	}
}

// c17LinkageBase: the base point of a linkable ring signature's tag (sign/anon/sig.go) is
// Pick(suite.XOF(scope)) in the signing suite's own group: a deterministic function of the scope and of the
// suite. The same scope is used on several groups in one process, in both orders; the tag a verifier returns
// must be x·Pick(XOF(scope)) computed independently in that group.
func c17LinkageBase(c *kc.Ctx) {
	rng := c.Rng.Fork("c17/linkage")
	names := []string{"ed25519", "p256", "ed25519vt-proj", "qr512", "ed25519", "p256"}
	for si, scope := range [][]byte{[]byte("C17 linkage scope"), {}, rng.Bytes(40)} {
		order := names
		if si%2 == 1 {
			order = []string{"p256", "qr512", "ed25519", "ed25519vt-ext", "p256"}
		}
		for _, name := range order {
			g := groups.ByName(name)
			if g == nil {
				continue
			}
			suite := &decSuite{Group: g.Group, rnd: rng.Fork("stream" + name)}
			x := g.Group.Scalar().Pick(rng)
			X := g.Group.Point().Mul(x, nil)
			other := g.Group.Point().Mul(g.Group.Scalar().Pick(rng), nil)
			ring := anon.Set{other, X}
			msg := rng.Bytes(20)
			res := embTimeout(func() string {
				sig := anon.Sign(suite, msg, ring, scope, 1, x)
				tag, err := anon.Verify(suite, msg, ring, scope, sig)
				if err != nil {
					return "verify-error: " + err.Error()
				}
				want := g.Group.Point().Mul(x, g.Group.Point().Pick(suite.XOF(scope)))
				wb, _ := want.MarshalBinary()
				if !bytes.Equal(tag, wb) {
					return "tag differs from x·Pick(XOF(scope))"
				}
				return "ok"
			})
			c.Eval(1)
			c.CountKind(name + ":linkage-base")
			c.Nontrivial(fmt.Sprintf("link|%s|%x|%x", name, scope, msg))
			if res != "ok" {
				c.Violation(name+":linkage-base", fmt.Sprintf("%s: linkable ring signature with scope %x (the same scope was used on other groups before): %s", name, scope, res),
					map[string]any{"group": name, "scope": kc.HexB(scope), "order": order})
			}
		}
	}
}

// c17DataLengthSweep: Data() on points that were not produced by Embed — decoded from encodings whose length
// field (the low byte of an Edwards encoding) takes every interesting value around EmbedLen and PointLen —
// against the specification (error iff the length field exceeds EmbedLen).
func c17DataLengthSweep(c *kc.Ctx) {
	rng := c.Rng.Fork("c17/data-length")
	var lines []string
	type dcase struct {
		g  *groups.G
		pt kyber.Point
	}
	var cases []dcase
	for _, name := range []string{"ed25519", "ed25519-allowvt", "ed25519vt-proj", "ed25519vt-ext"} {
		g := groups.ByName(name)
		if g == nil {
			continue
		}
		for _, l := range []int{0, 1, 2, 27, 28, 29, 30, 31, 32, 33, 34, 63, 64, 127, 128, 200, 254, 255} {
			for tries, found := 0, 0; tries < 400 && found < 2; tries++ {
				b := rng.Bytes(32)
				b[0] = byte(l)
				b[31] &= 0x7f
				p := g.Group.Point()
				if kc.Recover(func() string {
					if p.UnmarshalBinary(b) != nil {
						return "err"
					}
					return ""
				}) != "" {
					continue
				}
				found++
				lines = append(lines, "data ed25519 "+kc.HexB(b))
				cases = append(cases, dcase{g, p})
			}
		}
	}
	outs := c.ModelDedup(lines)
	for k, o := range outs {
		cs := cases[k]
		c.Eval(1)
		c.Program(1)
		got := embTimeout(func() string {
			d, err := cs.pt.Data()
			if err != nil {
				return "err"
			}
			return "ok " + kc.HexB(d)
		})
		c.CountKind(cs.g.Name + ":data-length-sweep:" + strings.SplitN(got, " ", 2)[0])
		if got != o {
			rep := map[string]any{"group": cs.g.Name, "op": "Data", "line": lines[k], "impl": got, "model": o}
			c.Disagree(lines[k], got, o, cs.g.Name)
			c.DisChecked(1)
			c.Violation(cs.g.Name+":data-differs-from-spec", fmt.Sprintf("%s Data() on a decoded point = %s, specification (length field vs EmbedLen) %s", cs.g.Name, got, o), rep)
		}
	}
}

// c17Pick: Pick on every group: determinism, membership, distinct streams give distinct points.
func c17Pick(c *kc.Ctx) {
	var lines []string
	var wants []string
	var names []string
	for _, g := range groups.All() {
		rng := c.Rng.Fork("pick/" + g.Name)
		seen := map[string]string{}
		n := c.N(6, 60)
		if g.Kind == "gt" {
			n = c.N(2, 8)
		}
		for i := 0; i < n; i++ {
			var pre []byte
			switch i % 3 {
			case 1:
				pre = decFill(g.Group.PointLen(), 0)
			case 2:
				pre = decFill(g.Group.PointLen()+1, 0xff)
			}
			st := &embStream{prefix: pre, r: rng.Fork(fmt.Sprint(i))}
			var p kyber.Point
			got := embTimeout(func() string { p = g.Group.Point().Pick(st); return "ok " + embValue(g, p) })
			c.Eval(1)
			c.CountKind(g.Name + ":pick-all")
			rep := map[string]any{"group": g.Name, "op": "Pick", "stream_consumed": kc.HexB(st.used), "impl": got}
			if got == "unsupported" {
				c.CountKind(g.Name + ":pick-unsupported") // documented unsupported (BLS12-381 GT)
				continue
			}
			if got == "panic" || got == "timeout" {
				c.Violation(g.Name+":pick-"+got, fmt.Sprintf("%s Pick: %s", g.Name, got), rep)
				continue
			}
			c.Nontrivial("pick|" + g.Name + "|" + kc.HexB(st.used))
			if r := embOrderTest(g, p); r != "" {
				c.Violation(g.Name+":pick:order-test", fmt.Sprintf("%s Pick result fails q•P = O (%s)", g.Name, r), rep)
			}
			used := append([]byte{}, st.used...)
			if r := embTimeout(func() string {
				st2 := &embStream{prefix: used, r: kc.NewRng(9)}
				q := g.Group.Point().Pick(st2)
				if !q.Equal(p) {
					return "not-deterministic"
				}
				return ""
			}); r != "" {
				c.Violation(g.Name+":pick:"+r, fmt.Sprintf("%s Pick is not a function of the bytes drawn", g.Name), rep)
			}
			// the point is a function of the bytes drawn: the same point from DIFFERENT consumed bytes of a
			// seeded stream would be a collision (identical adversarial prefixes legitimately coincide)
			if prev, dup := seen[got]; dup && prev != kc.HexB(used) && len(pre) == 0 {
				c.Violation(g.Name+":pick:collision", fmt.Sprintf("%s Pick returns the same point for different streams", g.Name), rep)
			}
			seen[got] = kc.HexB(used)
			if g.Name == "bn256-g1" {
				lines = append(lines, "pick bn256g1 "+kc.HexB(decCat(used, rng.Bytes(8))))
				wants = append(wants, fmt.Sprintf("%s %d", got, len(used)))
				names = append(names, g.Name)
			}
		}
	}
	outs := c.ModelDedup(lines)
	for i, o := range outs {
		c.Program(1)
		if o != wants[i] {
			c.Disagree(lines[i], wants[i], o, names[i])
			c.DisChecked(1)
			c.Unshown("correspondence:"+names[i]+":pick", fmt.Sprintf("Pick: impl %s, model %s", wants[i], o), map[string]any{"line": lines[i]})
		}
	}
}

// ---- hash to group ----

type h2cVector struct{ msg, dst, px, py string }

// RFC 9380 appendix J.5.1 (edwards25519_XMD:SHA-512_ELL2_RO_)
var rfc9380Ed25519 = []h2cVector{
	{"", "QUUX-V01-CS02-with-edwards25519_XMD:SHA-512_ELL2_RO_",
		"3c3da6925a3c3c268448dcabb47ccde5439559d9599646a8260e47b1e4822fc6", "09a6c8561a0b22bef63124c588ce4c62ea83a3c899763af26d795302e115dc21"},
	{"abc", "QUUX-V01-CS02-with-edwards25519_XMD:SHA-512_ELL2_RO_",
		"608040b42285cc0d72cbb3985c6b04c935370c7361f4b7fbdb1ae7f8c1a8ecad", "1a8395b88338f22e435bbd301183e7f20a5f9de643f11882fb237f88268a5531"},
}

func edEncode(x, y *big.Int) []byte {
	v := new(big.Int).Set(y)
	if x.Bit(0) == 1 {
		v.SetBit(v, 255, 1)
	}
	return decLE(v, 32)
}

type hashable interface {
	Hash(m []byte, dst string) kyber.Point
}

// corpusU reads harness/corpus/c17_elligator_u.txt: little-endian hex field elements, one per line.
func corpusU() [][]byte {
	var out [][]byte
	f, err := os.Open(filepath.Join(kc.Root, "harness", "corpus", "c17_elligator_u.txt"))
	if err != nil {
		return nil
	}
	defer f.Close()
	sc := bufio.NewScanner(f)
	for sc.Scan() {
		l := strings.TrimSpace(sc.Text())
		if l == "" || l[0] == '#' {
			continue
		}
		if b := mustHex(strings.Fields(l)[0]); len(b) == 32 {
			out = append(out, b)
		}
	}
	return out
}

func c17HashEd(c *kc.Ctx) {
	g := groups.ByName("ed25519")
	if g == nil {
		return
	}
	rng := c.Rng.Fork("h2c")
	// (1) the Elligator 2 map at field level through the hook
	var us [][]byte
	corpus := corpusU()
	us = append(us, corpus...)
	c.Extra("elligator_corpus_entries", len(corpus))
	for _, v := range []int64{0, 1, 2, 3, 4, 5, 19, 486662, 486664} {
		us = append(us, decLE(big.NewInt(v), 32), decLE(new(big.Int).Sub(decEdP, big.NewInt(v+1)), 32))
	}
	// square roots of -1/2 would make xd = 0 (impossible: 2 is a non-residue); u with u² = ±1, small multiples
	for i := 0; i < c.N(3000, 200000); i++ {
		switch i % 4 {
		case 0:
			us = append(us, decLE(new(big.Int).Mod(new(big.Int).SetBytes(rng.Bytes(40)), decEdP), 32))
		case 1: // sparse limbs: few non-zero limbs (the shape of the known failing inputs)
			v := new(big.Int)
			for k := 0; k < 3; k++ {
				t := new(big.Int).Lsh(big.NewInt(int64(rng.Intn(1<<20))), uint(rng.Intn(10))*25+uint(rng.Intn(2)))
				v.Add(v, t)
			}
			v.Add(v, new(big.Int).Lsh(new(big.Int).SetBytes(rng.Bytes(16)), 128))
			us = append(us, decLE(v.Mod(v, decEdP), 32))
		case 2:
			v := new(big.Int).Lsh(big.NewInt(1), uint(rng.Intn(255)))
			v.Add(v, big.NewInt(int64(rng.Intn(5))-2))
			us = append(us, decLE(v.Mod(v, decEdP), 32))
		default:
			v := new(big.Int).SetBytes(rng.Bytes(32))
			us = append(us, decLE(v.Mod(v, decEdP), 32))
		}
	}
	lines := make([]string, len(us))
	gots := make([]string, len(us))
	for i, u := range us {
		var ub [32]byte
		copy(ub[:], u)
		lines[i] = "h2c ell2 " + kc.HexN(kc.LeN(u))
		gots[i] = embTimeout(func() string {
			p := edwards25519.VerifMapToCurveElligator2(ub)
			b, err := p.MarshalBinary()
			if err != nil {
				return "marshal-err"
			}
			return "ok " + kc.HexB(b)
		})
	}
	outs := c.ModelDedup(lines)
	for i := range us {
		c.Eval(1)
		c.Program(1)
		c.CountKind("ed25519:elligator2-map")
		c.Nontrivial("ell2|" + kc.HexB(us[i]))
		if i%(len(us)/3+1) == 0 {
			c.Sample(map[string]string{"op": "mapToCurveElligator2Ed25519", "u_le": kc.HexB(us[i]), "impl": gots[i], "model": outs[i]})
		}
		if gots[i] == outs[i] {
			continue
		}
		c.Disagree(lines[i], gots[i], outs[i], "elligator2")
		c.DisChecked(1)
		rep := map[string]any{"op": "mapToCurveElligator2Ed25519 (hook VerifMapToCurveElligator2)", "u_little_endian": kc.HexB(us[i]), "impl": gots[i], "model": outs[i]}
		// the property's predicate: is the implementation's output on the curve? (decode its encoding)
		onCurve := false
		if strings.HasPrefix(gots[i], "ok ") {
			q := g.Group.Point()
			onCurve = q.UnmarshalBinary(mustHex(gots[i][3:])) == nil
		}
		rep["impl_output_decodes"] = onCurve
		if !onCurve {
			c.Violation("ed25519:elligator2:off-curve", fmt.Sprintf("mapToCurveElligator2Ed25519(u = %s LE) returns %s, which is not a point of the curve (model: %s)", kc.HexB(us[i]), gots[i], outs[i]), rep)
		} else {
			c.Violation("ed25519:elligator2:wrong-point", fmt.Sprintf("mapToCurveElligator2Ed25519(u = %s LE) returns %s, RFC 9380 map gives %s", kc.HexB(us[i]), gots[i], outs[i]), rep)
		}
	}

	// (2) expand_message_xmd, hash_to_field, Hash: messages and tags of length 0..300
	type hcase struct {
		msg, dst []byte
	}
	var hs []hcase
	for _, v := range rfc9380Ed25519 {
		hs = append(hs, hcase{[]byte(v.msg), []byte(v.dst)})
	}
	for l := 0; l <= 300; l += c.N(7, 1) {
		hs = append(hs, hcase{rng.Bytes(l), []byte("C17-dst")}, hcase{[]byte("msg"), rng.Bytes(l)})
	}
	for _, l := range []int{0, 1, 63, 64, 111, 112, 127, 128, 129, 254, 255, 256, 257, 300} {
		hs = append(hs, hcase{rng.Bytes(l), rng.Bytes(l)}, hcase{decFill(l, 0), decFill(l, 'A')})
	}
	var hl []string
	var hg []string
	var hk []string
	seen := map[string]string{}
	for _, h := range hs {
		mh, dh := kc.HexB(h.msg), kc.HexB(h.dst)
		// whole Hash
		got := embTimeout(func() string {
			p := g.Group.Point().(hashable).Hash(h.msg, string(h.dst))
			b, err := p.MarshalBinary()
			if err != nil {
				return "marshal-err"
			}
			if r := embOrderTest(g, p); r != "" {
				return "ok-but-" + r + " " + kc.HexB(b)
			}
			return "ok " + kc.HexB(b)
		})
		hl = append(hl, "h2c hash "+mh+" "+dh)
		hg = append(hg, got)
		hk = append(hk, "hash")
		if strings.HasPrefix(got, "ok ") {
			k := mh + "|" + dh
			for k2, v2 := range seen {
				if v2 == got && k2 != k {
					c.Violation("ed25519:hash:collision", "Hash gives the same point for different (msg, dst)", map[string]any{"a": k, "b": k2})
				}
			}
			seen[k] = got
		}
		if len(h.dst) > 0 {
			got2 := embTimeout(func() string {
				u0, u1 := edwards25519.VerifHashToField(h.msg, string(h.dst))
				return "ok " + kc.HexN(kc.LeN(u0[:])) + " " + kc.HexN(kc.LeN(u1[:]))
			})
			hl = append(hl, "h2c field "+mh+" "+dh)
			hg = append(hg, got2)
			hk = append(hk, "field")
		}
		for _, n := range []int{96, 1, 64, 65, 200} {
			n := n
			got3 := embTimeout(func() string {
				b, err := edwards25519.VerifExpandMessageXMD(h.msg, string(h.dst), uint64(n))
				if err != nil {
					return "err"
				}
				return "ok " + kc.HexB(b)
			})
			hl = append(hl, fmt.Sprintf("h2c xmd %s %s %x", mh, dh, n))
			hg = append(hg, got3)
			hk = append(hk, "xmd")
			if !c.Thorough() {
				break
			}
		}
	}
	// length limits of expand_message_xmd
	for _, n := range []int{0, 2040, 2041, 65535, 65536} {
		n := n
		got := embTimeout(func() string {
			b, err := edwards25519.VerifExpandMessageXMD([]byte("m"), "d", uint64(n))
			if err != nil {
				return "err"
			}
			return "ok " + kc.HexB(b)
		})
		hl = append(hl, fmt.Sprintf("h2c xmd 6d 64 %x", n))
		hg = append(hg, got)
		hk = append(hk, "xmd")
	}
	ho := c.ModelDedup(hl)
	for i := range hl {
		c.Eval(1)
		c.Program(1)
		c.CountKind("ed25519:h2c-" + hk[i])
		c.Nontrivial("h2c|" + hl[i])
		if hg[i] == ho[i] {
			continue
		}
		c.Disagree(hl[i], hg[i], ho[i], "h2c")
		c.DisChecked(1)
		rep := map[string]any{"line": hl[i], "impl": decTrunc(hg[i]), "model": decTrunc(ho[i])}
		switch {
		case hg[i] == "panic" || hg[i] == "timeout":
			key := "ed25519:h2c-" + hk[i] + ":" + hg[i]
			if strings.HasSuffix(hl[i], " -") && hk[i] == "hash" {
				key += ":empty-dst"
			}
			c.Violation(key, fmt.Sprintf("%s: %s (model: %s)", hl[i], hg[i], decTrunc(ho[i])), rep)
		case strings.HasPrefix(hg[i], "ok-but-"):
			c.Violation("ed25519:hash:order-test", "Hash output fails L•P = O: "+hl[i], rep)
		default:
			// the model is the RFC: a byte-level difference on a case where the reference fixes the value
			c.Violation("ed25519:h2c-"+hk[i]+":differs-from-rfc9380", fmt.Sprintf("%s: impl %s, RFC 9380 model %s", decTrunc(hl[i]), decTrunc(hg[i]), decTrunc(ho[i])), rep)
		}
	}
	// (3) the RFC's vectors, directly
	for _, v := range rfc9380Ed25519 {
		x, _ := new(big.Int).SetString(v.px, 16)
		y, _ := new(big.Int).SetString(v.py, 16)
		want := "ok " + kc.HexB(edEncode(x, y))
		got := embTimeout(func() string {
			b, _ := g.Group.Point().(hashable).Hash([]byte(v.msg), v.dst).MarshalBinary()
			return "ok " + kc.HexB(b)
		})
		c.Eval(1)
		c.CountKind("ed25519:rfc9380-vector")
		if got != want {
			c.Violation("ed25519:hash:rfc9380-vector", fmt.Sprintf("Hash(%q) = %s, RFC 9380 J.5.1 %s", v.msg, got, want), map[string]any{"msg": v.msg, "dst": v.dst})
		}
	}
}

// hashReceivers: points with a history, to be used as receivers of Hash (prev: an earlier Hash result).
type hashRecv struct {
	name string
	mk   func() kyber.Point
}

func hashReceivers(g *groups.G, prev kyber.Point, rng *kc.Rng) []hashRecv {
	G := g.Group
	s := G.Scalar().Pick(rng)
	return []hashRecv{
		{"Base().Clone()", func() kyber.Point { return G.Point().Base().Clone() }},
		{"Point().Set(Base())", func() kyber.Point { return G.Point().Set(G.Point().Base()) }},
		{"Point().Null()", func() kyber.Point { return G.Point().Null() }},
		{"Point().Null().Clone()", func() kyber.Point { return G.Point().Null().Clone() }},
		{"Point().Add(B, B)", func() kyber.Point { return G.Point().Add(G.Point().Base(), G.Point().Base()) }},
		{"Point().Mul(s, nil).Clone()", func() kyber.Point { return G.Point().Mul(s, nil).Clone() }},
		{"Point().Neg(B)", func() kyber.Point { return G.Point().Neg(G.Point().Base()) }},
		{"an earlier Hash result", func() kyber.Point { return prev }},
		{"a clone of an earlier Hash result", func() kyber.Point { return prev.Clone() }},
		{"a decoded point", func() kyber.Point {
			b, _ := G.Point().Base().MarshalBinary()
			q := G.Point()
			_ = q.UnmarshalBinary(b)
			return q
		}},
		{"a clone of a decoded point", func() kyber.Point {
			b, _ := G.Point().Base().MarshalBinary()
			q := G.Point()
			_ = q.UnmarshalBinary(b)
			return q.Clone()
		}},
	}
}

// c17HashOthers: Hash of every other hashable group: determinism, membership, distinctness;
// BN256 G1 try-and-increment against the model; the three BLS12-381 back-ends against each other.
func c17HashOthers(c *kc.Ctx) {
	type hp interface {
		Hash(m []byte) kyber.Point
	}
	rng := c.Rng.Fork("hash-others")
	var msgs [][]byte
	for l := 0; l <= 300; l += c.N(13, 3) {
		msgs = append(msgs, rng.Bytes(l))
	}
	msgs = append(msgs, []byte{}, []byte("abc"), decFill(64, 0), decFill(300, 0xff))
	byMath := map[string]map[string]map[string]string{} // math -> msg -> backend -> point
	var lines, wants []string
	for _, g := range groups.All() {
		if !g.CanHash {
			continue
		}
		seen := map[string]string{}
		for mi, m := range msgs {
			var p kyber.Point
			got := embTimeout(func() string {
				h, ok := g.Group.Point().(hp)
				if !ok {
					return "unsupported"
				}
				p = h.Hash(m)
				return "ok " + embValue(g, p)
			})
			c.Eval(1)
			c.CountKind(g.Name + ":hash")
			rep := map[string]any{"group": g.Name, "op": "Hash", "msg": kc.HexB(m), "impl": got}
			if got == "unsupported" {
				continue
			}
			if got == "panic" || got == "timeout" {
				c.Violation(g.Name+":hash-"+got, fmt.Sprintf("%s Hash(%s): %s", g.Name, decTrunc(kc.HexB(m)), got), rep)
				continue
			}
			c.Nontrivial("hash|" + g.Name + "|" + kc.HexB(m))
			if r := embOrderTest(g, p); r != "" {
				c.Violation(g.Name+":hash:order-test", fmt.Sprintf("%s Hash output fails q•P = O", g.Name), rep)
			}
			got2 := embTimeout(func() string { return "ok " + embValue(g, g.Group.Point().(hp).Hash(append([]byte{}, m...))) })
			if got2 != got {
				c.Violation(g.Name+":hash:not-deterministic", fmt.Sprintf("%s Hash gives different points for the same message", g.Name), rep)
			}
			// the result is a function of (message, tag), not of what the receiver held or how it was made
			if mi < 3 || mi >= len(msgs)-4 {
				for _, rv := range hashReceivers(g, p, rng) {
					got3 := embTimeout(func() string {
						h, ok := rv.mk().(hp)
						if !ok {
							return got
						}
						return "ok " + embValue(g, h.Hash(append([]byte{}, m...)))
					})
					c.Eval(1)
					c.CountKind(g.Name + ":hash:receiver:" + rv.name)
					if got3 != got {
						rep["receiver"] = rv.name
						c.Violation(g.Name+":hash:receiver-history", fmt.Sprintf("%s Hash(%s) on a receiver obtained as %s gives %s, on a fresh point %s",
							g.Name, decTrunc(kc.HexB(m)), rv.name, decTrunc(got3), decTrunc(got)), rep)
					}
				}
			}
			if prev, dup := seen[got]; dup && prev != kc.HexB(m) {
				c.Violation(g.Name+":hash:collision", fmt.Sprintf("%s Hash gives the same point for different messages", g.Name), rep)
			}
			seen[got] = kc.HexB(m)
			if g.Name == "bn256-g1" {
				lines = append(lines, "h2c bn256 "+kc.HexB(m))
				wants = append(wants, got)
			}
			if strings.HasPrefix(g.Math, "bls12381") {
				if byMath[g.Math] == nil {
					byMath[g.Math] = map[string]map[string]string{}
				}
				if byMath[g.Math][kc.HexB(m)] == nil {
					byMath[g.Math][kc.HexB(m)] = map[string]string{}
				}
				byMath[g.Math][kc.HexB(m)][g.Name] = got
			}
		}
	}
	outs := c.ModelDedup(lines)
	for i, o := range outs {
		c.Program(1)
		if o != wants[i] {
			c.Disagree(lines[i], wants[i], o, "bn256-g1")
			c.DisChecked(1)
			c.Unshown("correspondence:bn256-g1:hash", fmt.Sprintf("Hash: impl %s, try-and-increment model %s", wants[i], o), map[string]any{"line": lines[i]})
		}
	}
	// independent implementations of the same RFC 9380 suite must agree (default tags)
	diff := 0
	for math, per := range byMath {
		for m, be := range per {
			var first, fname string
			for n, v := range be {
				if first == "" {
					first, fname = v, n
				} else if v != first {
					diff++
					c.Violation(math+":hash:backends-differ", fmt.Sprintf("Hash(%s): %s gives %s, %s gives %s", decTrunc(m), fname, first, n, v), map[string]any{"msg": m, "outputs": be})
				}
			}
		}
	}
	c.Extra("bls12381_hash_backend_differences", diff)
}

func runC17(c *kc.Ctx) {
	c.SetRule("cases = (group, operation, data or message, stream bytes drawn); data lengths nil, 0..EmbedLen+8, 300; streams seeded or all-00 / all-ff / crafted prefixes followed by a seeded stream; messages and tags of length 0..300; field elements for the Elligator map random, sparse-limb, near powers of two, plus the corpus; non-trivial = every completed Embed/Pick/Hash/map evaluation; distinct by (group, op, inputs, bytes drawn)")
	c.Assume("H_card25519: #E(F_p) = 8·L enters only the statement 'cofactor-cleared points have order dividing L' (Props/C17.lean); on the real code q•P = O is tested directly",
		"SHA-512 and SHA-256 are the Lean models of Core/Sha512.lean, Core/Sha256.lean (validated against crypto/sha512, crypto/sha256 by their own correspondence)",
		"BLS12-381 hash-to-curve (kilic, CIRCL, gnark) and BN254 SvdW are not modelled: determinism, membership, distinctness and agreement of the three back-ends only",
		"limb arithmetic of fe.go is compared at field level, not proved")
	c17Embed(c)
	c17DataLengthSweep(c)
	c17LinkageBase(c)
	c17Pick(c)
	c17HashEd(c)
	c17HashOthers(c)
	c17ResidueParams(c)
	c17InPlaceData(c)
}

func init() { register("C17", "proof", runC17) }
