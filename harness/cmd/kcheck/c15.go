package main

// C15 — verifiable shuffles verify only re-encryption permutations of the input.
//
// Correspondence with the Lean model Proto/Shuffle.lean (theorems in Props/C15.lean) for the pair
// shuffle, the simple shuffle, the sequence shuffle and (through Proto/Sigma.lean) the biffle, on the
// mock discrete-log suite (exact proof bytes and verdicts) and on Ed25519 and P-256 (transcripts
// compared value by value). The reference verdict is the *repaired* pair-shuffle verifier of the model
// (`bound = 1`); the model of the verifier as coded (`bound = 0`) is consulted to tell the known defect
// (the embedded simple shuffle is not tied to A + λB, C + λD) from any other disagreement.
//
// Independently of the model every case evaluates the property's predicate on the real code: honest
// shuffle ⇒ accepted; claimed output that is not a permutation of re-encryptions, altered proof or
// altered parameters ⇒ rejected — including forged transcripts that satisfy all verification
// equations but one (shuffle_forge.go).

import (
	"fmt"
	"math/big"
	"strings"

	"go.dedis.ch/kyber/v4/proof"
	"go.dedis.ch/kyber/v4/shuffle"

	"verifharness/internal/kc"
)

const c15KnownKey = "C15:pair:forged-accepted:simple-shuffle-unbound"

func sgPerm(r *kc.Rng, k int) []int {
	p := make([]int, k)
	for i := range p {
		p[i] = i
	}
	for i := k - 1; i > 0; i-- {
		j := r.Intn(i + 1)
		p[i], p[j] = p[j], p[i]
	}
	return p
}

func roundsStr(rounds [][]*big.Int) string {
	if len(rounds) == 0 {
		return "-"
	}
	s := make([]string, len(rounds))
	for i, r := range rounds {
		s[i] = hexList(r)
	}
	return strings.Join(s, "/")
}

func permStr(p []int) string { return intList(p) }

// isShuffle: is (xbar, ybar) a permutation of re-encryptions of (x, y) under (g, h)? Decided in the
// discrete-log representation: xbar_i − x_j = β g and ybar_i − y_j = β h for a perfect matching.
func (in *shInst) isShuffle(q *big.Int) bool {
	z := zq{q}
	k := in.k
	ok := make([][]bool, k)
	for i := 0; i < k; i++ {
		ok[i] = make([]bool, k)
		for j := 0; j < k; j++ {
			// (xbar_i − x_j) h == (ybar_i − y_j) g
			ok[i][j] = z.mul(z.sub(in.xbar[i], in.x[j]), in.h).Cmp(z.mul(z.sub(in.ybar[i], in.y[j]), in.g)) == 0
		}
	}
	// bipartite perfect matching (k is small)
	match := make([]int, k)
	for i := range match {
		match[i] = -1
	}
	var try func(i int, seen []bool) bool
	try = func(i int, seen []bool) bool {
		for j := 0; j < k; j++ {
			if ok[i][j] && !seen[j] {
				seen[j] = true
				if match[j] < 0 || try(match[j], seen) {
					match[j] = i
					return true
				}
			}
		}
		return false
	}
	for i := 0; i < k; i++ {
		if !try(i, make([]bool, k)) {
			return false
		}
	}
	return true
}

type shCase struct {
	env     *sgEnv
	kind    string
	in      *shInst
	proofB  []byte
	mockB   []byte // model encoding of proofB (nil: not modellable)
	verdict string
	rounds  [][]*big.Int
	expect  string
	replay  map[string]any
}

type shRun struct {
	c     *kc.Ctx
	cases []*shCase
	// honest provers to compare with the model prover
	plines []string
	pcheck []func(out string)
}

func (t *shRun) instStr(in *shInst) map[string]any {
	return map[string]any{"k": in.k, "g": kc.HexN(in.g), "h": kc.HexN(in.h), "x": hexList(in.x), "y": hexList(in.y),
		"xbar": hexList(in.xbar), "ybar": hexList(in.ybar)}
}

// verifyPair runs the real verifier on (statement, proof).
func (t *shRun) verifyPair(e *sgEnv, kind string, in *shInst, pr []byte, cells []sgCell, origReal, origMock []byte, expect string) *shCase {
	cs := &shCase{env: e, kind: kind, in: in, proofB: pr, expect: expect}
	G, H := e.pt(in.g), e.pt(in.h)
	ver, spy := sgSpyVerifier(e, shuffle.Verifier(e.suite, G, H, e.pts(in.x), e.pts(in.y), e.pts(in.xbar), e.pts(in.ybar)))
	cs.verdict = kc.Recover(func() string {
		if proof.HashVerify(e.suite, "PairShuffle", ver, pr) != nil {
			return "reject"
		}
		return "accept"
	})
	cs.rounds = spy.rounds
	cs.replay = map[string]any{"group": e.name, "kind": kind, "statement": t.instStr(in), "proof": kc.HexB(pr), "verdict": cs.verdict,
		"is_shuffle": in.isShuffle(e.q)}
	t.c.Eval(1)
	t.c.CountKind(e.name + ":pair:" + kind)
	if e.mock {
		cs.mockB = pr
	} else if cells != nil {
		if m, _, ok := sgMockOf(e, origReal, cells, origMock, pr); ok {
			cs.mockB = m
		}
	}
	t.cases = append(t.cases, cs)
	return cs
}

// judge applies the property predicate to a pair-shuffle case; forged transcripts that violate only
// the (missing) binding equations are the known finding.
func (t *shRun) judge(cs *shCase, key string) {
	if cs.expect == "" || cs.verdict == cs.expect {
		return
	}
	what := fmt.Sprintf("%s: %s (k=%d): verifier says %s, property says %s", cs.env.name, cs.kind, cs.in.k, cs.verdict, cs.expect)
	t.c.Violation(key, what, cs.replay)
}

// ---------------------------------------------------------------------------------------------

func (t *shRun) genInst(e *sgEnv, r *kc.Rng, k int) (*shInst, []int, []*big.Int) {
	z := zq{e.q}
	in := &shInst{k: k, g: big.NewInt(1), h: sgUniform(r, e.q)}
	if r.Intn(3) == 0 {
		in.g = sgUniform(r, e.q)
	}
	in.x = rndVec(r, e.q, k)
	in.y = rndVec(r, e.q, k)
	pi := sgPerm(r, k)
	beta := rndVec(r, e.q, k)
	if r.Intn(6) == 0 {
		beta[r.Intn(k)] = new(big.Int)
	}
	in.xbar = make([]*big.Int, k)
	in.ybar = make([]*big.Int, k)
	for i := 0; i < k; i++ {
		in.xbar[i] = z.add(in.x[pi[i]], z.mul(beta[pi[i]], in.g))
		in.ybar[i] = z.add(in.y[pi[i]], z.mul(beta[pi[i]], in.h))
	}
	return in, pi, beta
}

type shHonest struct {
	in    *shInst
	pi    []int
	beta  []*big.Int
	real  []byte
	cells []sgCell
	mock  []byte
	spy   *sgSpyP
}

// provePair runs the real PairShuffle.Prove under HashProve.
func (t *shRun) provePair(e *sgEnv, in *shInst, pi []int, beta []*big.Int, tag string) *shHonest {
	hn := &shHonest{in: in, pi: pi, beta: beta}
	ps := shuffle.PairShuffle{}
	G, H := e.pt(in.g), e.pt(in.h)
	X, Y := e.pts(in.x), e.pts(in.y)
	res := kc.Recover(func() string {
		ps.Init(e.suite, in.k)
		prover, spy := sgSpyProver(e, func(ctx proof.ProverContext) error {
			return ps.Prove(pi, G, H, e.scs(beta), X, Y, e.suite.RandomStream(), ctx)
		})
		hn.spy = spy
		b, err := proof.HashProve(e.suite, "PairShuffle", prover)
		if err != nil {
			return "err"
		}
		hn.real = b
		return "ok"
	})
	t.c.Eval(1)
	t.c.CountKind(e.name + ":pair:prove-" + tag)
	if res != "ok" {
		t.c.Violation("C15:pair:prove-fails", fmt.Sprintf("%s: honest PairShuffle.Prove fails (%s), k=%d", e.name, res, in.k), t.instStr(in))
		return nil
	}
	for _, m := range hn.spy.puts {
		hn.cells = append(hn.cells, m...)
	}
	line := fmt.Sprintf("shuffle pprove %s %x %s %s %s %s %s %s %s %s", kc.HexN(e.q), in.k, kc.HexN(in.g), kc.HexN(in.h), permStr(pi),
		hexList(beta), hexList(in.x), hexList(in.y), hexList(hn.spy.pri), roundsStr(hn.spy.rounds))
	t.plines = append(t.plines, line)
	t.pcheck = append(t.pcheck, func(out string) {
		ok := false
		if strings.HasPrefix(out, "ok ") {
			if b, err := hexDecode(out[3:]); err == nil {
				hn.mock = b
				if e.mock {
					ok = string(b) == string(hn.real)
				} else {
					ok = e.sameTranscript(b, hn.cells)
				}
			}
		}
		if !ok {
			hn.mock = nil
			t.c.Disagree(line, kc.HexB(hn.real), out, "pair prover transcript")
			t.c.Unshown("correspondence:pair-prove", fmt.Sprintf("%s: model pair-shuffle prover transcript differs from the real one (k=%d, pi=%v)", e.name, in.k, pi),
				map[string]any{"line": line})
		} else {
			t.c.Nontrivial(fmt.Sprintf("pair|%s|%d|%v|%s", e.name, in.k, pi, hexList(beta)))
		}
	})
	return hn
}

// tamperings of the claimed output (logs): each returns a statement that is not a shuffle.
func shTamper(r *kc.Rng, q *big.Int, in *shInst) (kinds []string, outs []*shInst) {
	z := zq{q}
	cl := func() *shInst {
		c := *in
		c.xbar = append([]*big.Int{}, in.xbar...)
		c.ybar = append([]*big.Int{}, in.ybar...)
		return &c
	}
	k := in.k
	i := r.Intn(k)
	j := (i + 1 + r.Intn(k-1)) % k
	add := func(kind string, c *shInst) {
		kinds = append(kinds, kind)
		outs = append(outs, c)
	}
	c := cl()
	c.xbar[i] = sgUniform(r, q)
	add("replace-x", c)
	c = cl()
	c.ybar[i] = sgUniform(r, q)
	add("replace-y", c)
	c = cl()
	c.xbar[i], c.ybar[i] = sgUniform(r, q), sgUniform(r, q)
	add("replace-pair", c)
	c = cl()
	c.xbar[i], c.ybar[i] = c.xbar[j], c.ybar[j]
	add("duplicate", c)
	c = cl()
	c.xbar[i], c.ybar[i] = z.add(c.xbar[i], c.xbar[j]), z.add(c.ybar[i], c.ybar[j])
	add("homomorphic-sum", c)
	c = cl()
	m := big.NewInt(int64(2 + r.Intn(5)))
	c.xbar[i], c.ybar[i] = z.mul(m, c.xbar[i]), z.mul(m, c.ybar[i])
	add("scalar-multiple", c)
	c = cl()
	c.ybar[i] = z.add(c.ybar[i], big.NewInt(1))
	add("plaintext-shift", c)
	// changes that cancel when the two halves of the output (or two outputs) are added up
	c = cl()
	d := sgUniform(r, q)
	c.xbar[i], c.ybar[i] = z.add(c.xbar[i], d), z.sub(c.ybar[i], d)
	add("offset-x-plus-y-minus", c)
	c = cl()
	c.xbar[i], c.xbar[j] = z.add(c.xbar[i], d), z.sub(c.xbar[j], d)
	add("offset-two-outputs-x", c)
	c = cl()
	c.ybar[i], c.ybar[j] = z.add(c.ybar[i], d), z.sub(c.ybar[j], d)
	add("offset-two-outputs-y", c)
	c = cl()
	c.xbar, c.ybar = c.ybar, c.xbar
	add("halves-exchanged", c)
	return
}

func runC15(c *kc.Ctx) {
	c.SetRule("case = (group, protocol, k, permutation, blinding, claimed output, proof bytes); non-trivial = an honest proof whose model transcript equals the real one; distinct by (group, protocol, k, permutation, blinding)")
	c.Assume("H_RO: Fiat-Shamir challenges are oracle values (observed from the real run, supplied to the model)",
		"Neff's probabilistic soundness argument (Schwartz-Zippel over the challenges) is not formalised: soundness is approached by forged transcripts, one family per verification equation",
		"discrete logs of all points are chosen by the harness (real groups included), so forged transcripts are built by solving the verification equations mod q")
	t := &shRun{c: c}
	envs := []*sgEnv{sgMockEnv(c.Rng.Fork("mock-stream"))}
	for _, e := range sigmaRealEnvs(c.Rng) {
		if e.name == "ed25519" || e.name == "p256" {
			envs = append(envs, e)
		}
	}
	var names []string
	for _, e := range envs {
		names = append(names, e.name)
	}
	c.Extra("groups", names)
	kmax := c.N(12, 40)
	var honest []*shHonest
	henv := map[*shHonest]*sgEnv{}
	for _, e := range envs {
		r := c.Rng.Fork("pair/" + e.name)
		// all permutations for k <= 5 (k = 5 on the mock group in the quick tier)
		for k := 2; k <= 5; k++ {
			if k == 5 && !e.mock && !c.Thorough() {
				continue
			}
			for _, pi := range allPerms(k) {
				in, _, beta := t.genInst(e, r, k)
				z := zq{e.q}
				for i := 0; i < k; i++ {
					in.xbar[i] = z.add(in.x[pi[i]], z.mul(beta[pi[i]], in.g))
					in.ybar[i] = z.add(in.y[pi[i]], z.mul(beta[pi[i]], in.h))
				}
				if hn := t.provePair(e, in, pi, beta, "all-perms"); hn != nil {
					honest = append(honest, hn)
					henv[hn] = e
				}
			}
		}
		reps := c.N(1, 3)
		for k := 2; k <= kmax; k++ {
			for rep := 0; rep < reps; rep++ {
				in, pi, beta := t.genInst(e, r, k)
				if hn := t.provePair(e, in, pi, beta, "random-perm"); hn != nil {
					honest = append(honest, hn)
					henv[hn] = e
				}
			}
		}
	}
	// model transcripts of the honest proofs
	pouts := c.Model(t.plines)
	c.Program(len(t.plines))
	for i, f := range t.pcheck {
		f(pouts[i])
	}
	// verification variants
	for hi, hn := range honest {
		e := henv[hn]
		r := c.Rng.Fork(fmt.Sprintf("variants/%s/%d", e.name, hi))
		cs := t.verifyPair(e, "honest", hn.in, hn.real, hn.cells, hn.real, hn.mock, "accept")
		t.judge(cs, "C15:pair:honest-rejected")
		if hi%3 == 0 || hn.in.k >= 8 {
			in := hn.in
			mk := func() proof.Verifier {
				return shuffle.Verifier(e.suite, e.pt(in.g), e.pt(in.h), e.pts(in.x), e.pts(in.y), e.pts(in.xbar), e.pts(in.ybar))
			}
			if what, n := fsSensitivity(e, "PairShuffle", mk, hn.real); what != "" {
				t.c.Violation("C15:pair:challenge-insensitive", fmt.Sprintf("%s: pair shuffle k=%d: %s", e.name, in.k, what), map[string]any{"group": e.name, "k": in.k, "proof": kc.HexB(hn.real)})
			} else {
				t.c.CountKindN(e.name+":pair:fs-sensitivity-probes", n)
			}
		}
		full := hi%3 == 0 || hn.in.k <= 3
		if !full {
			continue
		}
		// claimed output altered, proof unchanged
		kinds, outs := shTamper(r, e.q, hn.in)
		for i := range kinds {
			if outs[i].isShuffle(e.q) {
				continue
			}
			cs := t.verifyPair(e, "output-"+kinds[i], outs[i], hn.real, hn.cells, hn.real, hn.mock, "reject")
			t.judge(cs, "C15:pair:accepted:output-"+kinds[i])
		}
		// two outputs swapped without re-proof (still a shuffle, but not the proven one)
		if hn.in.k >= 2 {
			sw := *hn.in
			sw.xbar = append([]*big.Int{}, hn.in.xbar...)
			sw.ybar = append([]*big.Int{}, hn.in.ybar...)
			sw.xbar[0], sw.xbar[1] = sw.xbar[1], sw.xbar[0]
			sw.ybar[0], sw.ybar[1] = sw.ybar[1], sw.ybar[0]
			t.verifyPair(e, "output-swap-no-reproof", &sw, hn.real, hn.cells, hn.real, hn.mock, "")
		}
		// other generator / public key / input
		{
			o := *hn.in
			o.h = sgUniform(r, e.q)
			cs := t.verifyPair(e, "other-H", &o, hn.real, hn.cells, hn.real, hn.mock, "reject")
			t.judge(cs, "C15:pair:accepted:other-H")
			o = *hn.in
			o.x = append([]*big.Int{}, hn.in.x...)
			o.x[r.Intn(o.k)] = sgUniform(r, e.q)
			cs = t.verifyPair(e, "other-input", &o, hn.real, hn.cells, hn.real, hn.mock, "reject")
			t.judge(cs, "C15:pair:accepted:other-input")
		}
		// proof bytes altered
		spans := sgCellSpans(hn.cells)
		for m := 0; m < 6; m++ {
			mut := append([]byte{}, hn.real...)
			kind := "mut-bitflip"
			switch m {
			case 0, 1, 2:
				mut[r.Intn(len(mut))] ^= 1 << uint(r.Intn(8))
			case 3:
				sp := spans[r.Intn(len(spans))]
				copy(mut[sp[0]:sp[1]], r.Bytes(sp[1]-sp[0]))
				kind = "mut-cell-random"
			case 4:
				mut = mut[:r.Intn(len(mut))]
				kind = "truncate"
			case 5:
				a, b := r.Intn(len(spans)), r.Intn(len(spans))
				if hn.cells[a].isPoint() != hn.cells[b].isPoint() || a == b {
					continue
				}
				copy(mut[spans[a][0]:spans[a][1]], hn.real[spans[b][0]:spans[b][1]])
				kind = "mut-cell-copy"
			}
			ex := ""
			if len(mut) < len(hn.real) || (&sgProof{env: e, real: hn.real, cells: hn.cells}).semDiff(mut) {
				ex = "reject"
			}
			cs := t.verifyPair(e, kind, hn.in, mut, hn.cells, hn.real, hn.mock, ex)
			t.judge(cs, "C15:pair:accepted:"+kind)
		}
		// transcript splicing between two honest proofs of the same input
		if hi%6 == 0 {
			in2 := *hn.in
			pi2 := sgPerm(r, hn.in.k)
			beta2 := rndVec(r, e.q, hn.in.k)
			z := zq{e.q}
			in2.xbar = make([]*big.Int, in2.k)
			in2.ybar = make([]*big.Int, in2.k)
			for i := 0; i < in2.k; i++ {
				in2.xbar[i] = z.add(in2.x[pi2[i]], z.mul(beta2[pi2[i]], in2.g))
				in2.ybar[i] = z.add(in2.y[pi2[i]], z.mul(beta2[pi2[i]], in2.h))
			}
			plBefore := len(t.plines)
			hn2 := t.provePair(e, &in2, pi2, beta2, "splice-partner")
			t.plines, t.pcheck = t.plines[:plBefore], t.pcheck[:plBefore] // not compared again
			if hn2 != nil && len(hn2.real) == len(hn.real) {
				// pair part of proof 1, simple-shuffle part of proof 2
				cut := spans[4*hn.in.k+3+hn.in.k+hn.in.k+1-1][1]
				sp := append(append([]byte{}, hn.real[:cut]...), hn2.real[cut:]...)
				cs := t.verifyPair(e, "splice", hn.in, sp, nil, nil, nil, "reject")
				t.judge(cs, "C15:pair:accepted:splice")
				if e.mock {
					cs.mockB = sp
				}
			}
		}
		// forged transcripts: every verification equation but one, for outputs that are not shuffles
		if hi%2 == 0 {
			for i := range kinds {
				if outs[i].isShuffle(e.q) || (i+hi)%3 != 0 {
					continue
				}
				t.forgeries(e, r, outs[i], kinds[i])
			}
		}
	}
	c15Public(t, envs)
	c15Simple(t, envs)
	c15Sequences(t, envs)
	c15Biffle(t, envs)
	t.settle()
}

// forgeries builds, for one non-shuffle statement, a witness for each family of verification
// equations and runs the real verifier on it.
func (t *shRun) forgeries(e *sgEnv, r *kc.Rng, in *shInst, outKind string) {
	type fam struct {
		name string
		o    pairForgeOpts
	}
	k := in.k
	fams := []fam{{"bind", pairForgeOpts{skip: "bind"}}, {"bindX", pairForgeOpts{skip: "bindX"}}, {"bindY", pairForgeOpts{skip: "bindY"}}, {"e33", pairForgeOpts{skip: "e33", index: r.Intn(k)}},
		{"ss", pairForgeOpts{skip: "ss", index: r.Intn(2 * k)}}, {"ss", pairForgeOpts{skip: "ss", index: k}}}
	for _, f := range fams {
		var pr, rec []byte
		res := kc.Recover(func() string {
			b, err := proof.HashProve(e.suite, "PairShuffle", pairForge(e, r, in, f.o, &rec))
			if err != nil {
				return "err"
			}
			pr = b
			return "ok"
		})
		if res != "ok" {
			t.c.CountKind(e.name + ":pair:forge-degenerate")
			continue
		}
		cs := t.verifyPair(e, "forged-skip-"+f.name+"/"+outKind, in, pr, nil, nil, nil, "reject")
		cs.mockB = rec
		cs.replay["skipped_equation"] = f.name
		cs.replay["index"] = f.o.index
		key := "C15:pair:forged-accepted:skip-" + f.name
		if f.name == "bind" {
			key = c15KnownKey
		}
		t.judge(cs, key)
	}
}

// c15Public: the forgery that needs no secret at all — outputs that are public invertible linear
// recombinations of the inputs (k = 2: (X0+X1, X1)).
func c15Public(t *shRun, envs []*sgEnv) {
	for _, e := range envs {
		r := t.c.Rng.Fork("public/" + e.name)
		z := zq{e.q}
		for k := 2; k <= 4; k++ {
			in, _, _ := t.genInst(e, r, k)
			// M = identity + one off-diagonal entry; M^{-T} = identity − that entry transposed
			a, b := 0, 1+r.Intn(k-1)
			in.xbar = append([]*big.Int{}, in.x...)
			in.ybar = append([]*big.Int{}, in.y...)
			in.xbar[a] = z.add(in.x[a], in.x[b])
			in.ybar[a] = z.add(in.y[a], in.y[b])
			mit := make([][]*big.Int, k)
			for i := range mit {
				mit[i] = make([]*big.Int, k)
				for j := range mit[i] {
					mit[i][j] = new(big.Int)
				}
				mit[i][i] = big.NewInt(1)
			}
			mit[b][a] = z.neg(big.NewInt(1)) // sigma_b = rho_b − rho_a
			if in.isShuffle(e.q) {
				continue
			}
			var pr, rec []byte
			res := kc.Recover(func() string {
				b, err := proof.HashProve(e.suite, "PairShuffle", pairForge(e, r, in, pairForgeOpts{skip: "bind", public: true, m: mit}, &rec))
				if err != nil {
					return "err"
				}
				pr = b
				return "ok"
			})
			if res != "ok" {
				continue
			}
			cs := t.verifyPair(e, "forged-no-secrets/homomorphic-sum", in, pr, nil, nil, nil, "reject")
			cs.mockB = rec
			cs.replay["skipped_equation"] = "bind"
			t.judge(cs, c15KnownKey)
		}
	}
}

// settle compares every recorded pair-shuffle verification with the model.
func (t *shRun) settle() {
	c := t.c
	var lines []string
	var refs []*shCase
	for _, cs := range t.cases {
		if cs.mockB == nil {
			c.CountKind(cs.env.name + ":pair:unmodelled")
			continue
		}
		for _, bound := range []string{"1", "0"} {
			lines = append(lines, fmt.Sprintf("shuffle pverify %s %x %s %s %s %s %s %s %s %s %s", kc.HexN(cs.env.q), cs.in.k, kc.HexN(cs.in.g),
				kc.HexN(cs.in.h), hexList(cs.in.x), hexList(cs.in.y), hexList(cs.in.xbar), hexList(cs.in.ybar), bound, kc.HexB(cs.mockB), roundsStr(cs.rounds)))
		}
		refs = append(refs, cs)
	}
	outs := c.Model(lines)
	c.Program(len(lines))
	for i, cs := range refs {
		repaired, coded := stripClass(outs[2*i]), stripClass(outs[2*i+1])
		if cs.verdict == repaired {
			continue
		}
		if cs.verdict == coded && cs.verdict == "accept" {
			// the code behaves like the model of the verifier *as coded*, which lacks the binding check
			if c.Known(c15KnownKey, "") {
				continue
			}
		}
		c.Disagree(lines[2*i], cs.verdict, outs[2*i]+" | as coded: "+outs[2*i+1], cs.kind)
		c.DisChecked(1)
		c.Unshown("correspondence:pair-verify:"+strings.SplitN(cs.kind, "/", 2)[0], fmt.Sprintf("%s: %s: real verifier %s, model (repaired) %s, model (as coded) %s",
			cs.env.name, cs.kind, cs.verdict, outs[2*i], outs[2*i+1]), cs.replay)
	}
}

func allPerms(k int) [][]int {
	var out [][]int
	p := make([]int, k)
	used := make([]bool, k)
	var rec func(i int)
	rec = func(i int) {
		if i == k {
			out = append(out, append([]int{}, p...))
			return
		}
		for v := 0; v < k; v++ {
			if !used[v] {
				used[v] = true
				p[i] = v
				rec(i + 1)
				used[v] = false
			}
		}
	}
	rec(0)
	return out
}

func init() { register("C15", "proof", runC15) }
