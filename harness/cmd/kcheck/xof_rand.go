package main

// C19, second half: util/random — Bits, Int and the multi-reader random stream.

import (
	"crypto/cipher"
	"crypto/sha256"
	"errors"
	"fmt"
	"io"
	"math"
	"math/big"
	"sort"
	"strconv"
	"strings"

	"go.dedis.ch/kyber/v4/compatible/compatiblemod"
	"go.dedis.ch/kyber/v4/util/random"
	"golang.org/x/crypto/blake2b"

	"verifharness/internal/kc"
)

// preStream serves a chosen prefix, then a seeded continuation (never a constant stream: DESIGN §2.5),
// and records every key-stream byte it handed out.
type preStream struct {
	pre  []byte
	r    *kc.Rng
	used []byte
}

func (s *preStream) XORKeyStream(dst, src []byte) {
	for i := range src {
		var k byte
		if len(s.pre) > 0 {
			k, s.pre = s.pre[0], s.pre[1:]
		} else {
			k = s.r.Bytes(1)[0]
		}
		s.used = append(s.used, k)
		dst[i] = src[i] ^ k
	}
}

var bitsVar = "?"

// bitsVariant: "" = model of random.Bits as it stands (bitlen 0 with exact indexes an empty slice),
// "+" = model of the repaired function (fixes/C19-bits-zero-exact.patch). Selected by one probe call.
func bitsVariant() string {
	if bitsVar == "?" {
		bitsVar = ""
		if kc.Recover(func() string { random.Bits(0, true, kc.NewRng(1)); return "" }) != "panic" {
			bitsVar = "+"
		}
	}
	return bitsVar
}

type randCase struct {
	kind, key, line, got string
	replay               map[string]string
	// pred: property predicate on the real result; returns (violation key, message) or "".
	viol, msg string
}

// bitsCase runs random.Bits once on the real code and evaluates the property's statement on the result.
func bitsCase(c *kc.Ctx, bl int, exact bool, pre []byte, r *kc.Rng) randCase {
	if r == nil {
		r = kc.NewRng(1)
	}
	st := &preStream{pre: append([]byte{}, pre...), r: r}
	var out []byte
	res := kc.Recover(func() string {
		out = random.Bits(uint(bl), exact, st)
		return kc.HexB(out)
	})
	ex := "0"
	if exact {
		ex = "1"
	}
	used := append([]byte{}, st.used...)
	rc := randCase{kind: "bits", key: fmt.Sprintf("bits:%d:%v:%x", bl, exact, used),
		line:   fmt.Sprintf("rnd bits%s %x %s %s", bitsVariant(), bl, ex, kc.HexB(append(used, 0x5a, 0xa5))),
		got:    fmt.Sprintf("%s %d", res, len(used)),
		replay: map[string]string{"family": "bits", "bitlen": strconv.Itoa(bl), "exact": fmt.Sprint(exact), "stream": kc.HexB(used)}}
	fail := func(what string) {
		rc.viol = "random.Bits:range"
		if bl == 0 && exact {
			rc.viol = "random.Bits:exact-bitlen0"
		}
		rc.msg = fmt.Sprintf("random.Bits(%d, %v): %s (result %s)", bl, exact, what, trunc(res))
	}
	v := new(big.Int).SetBytes(out)
	switch {
	case res == "panic":
		fail("panics")
	case len(out) != (bl+7)/8:
		fail(fmt.Sprintf("returns %d bytes", len(out)))
	case v.BitLen() > bl:
		fail(fmt.Sprintf("value has %d bits", v.BitLen()))
	case exact && v.BitLen() != bl:
		fail(fmt.Sprintf("exact, but value has %d bits", v.BitLen()))
	}
	if c.ReplayFile != "" {
		fmt.Printf("replay random.Bits(%d,%v) stream=%s -> %s\n", bl, exact, kc.HexB(used), rc.got)
		if rc.viol != "" {
			c.Violation(rc.viol, rc.msg, rc.replay)
		}
	}
	return rc
}

// compareRand sends the cases to the model and applies the verdict policy: a failed property predicate on
// the real code is a violation; a bare model/implementation difference leaves the property unshown.
func compareRand(c *kc.Ctx, cases []randCase) {
	lines := make([]string, len(cases))
	for i := range cases {
		lines[i] = cases[i].line
	}
	outs := c.Model(lines)
	for i, cs := range cases {
		c.Program(1)
		c.Eval(1)
		c.CountKind("random:" + cs.kind)
		c.Nontrivial(cs.key)
		if i%(len(cases)/3+1) == 1 {
			c.Sample(map[string]string{"line": trunc(cs.line), "impl_out": trunc(cs.got), "model_out": trunc(outs[i])})
		}
		if cs.viol != "" {
			c.Violation(cs.viol, cs.msg, cs.replay)
		}
		if outs[i] != cs.got {
			c.Disagree(trunc(cs.line), trunc(cs.got), trunc(outs[i]), "")
			c.DisChecked(1)
			if cs.viol == "" {
				c.Unshown("correspondence:random."+cs.kind, fmt.Sprintf("%s -> impl %s, model %s", trunc(cs.line), trunc(cs.got), trunc(outs[i])), cs.replay)
			}
		}
	}
}

func c19Bits(c *kc.Ctx) {
	rng := c.Rng.Fork("bits")
	c.Extra("bits_model_variant", map[string]string{"": "as-coded (Random.bits guard=false)", "+": "repaired (Random.bits guard=true)"}[bitsVariant()])
	var cases []randCase
	reps := c.N(3, 20)
	for bl := 0; bl <= 1030; bl++ {
		for _, exact := range []bool{false, true} {
			nb := (bl + 7) / 8
			pres := [][]byte{make([]byte, nb), bytesOf(nb, 0xff)}
			for i := 0; i < reps; i++ {
				pres = append(pres, rng.Bytes(nb))
			}
			for _, p := range pres {
				cases = append(cases, bitsCase(c, bl, exact, p, rng.Fork("cont")))
			}
		}
	}
	compareRand(c, cases)
}

func c19Moduli(c *kc.Ctx, rng *kc.Rng) []*big.Int {
	one := big.NewInt(1)
	var ms []*big.Int
	seen := map[string]bool{}
	add := func(m *big.Int) {
		if m.Sign() > 0 && m.BitLen() <= 521 && !seen[m.String()] {
			seen[m.String()] = true
			ms = append(ms, m)
		}
	}
	for k := 1; k <= 521; k++ {
		p := new(big.Int).Lsh(one, uint(k-1)) // smallest k-bit number
		add(p)
		add(new(big.Int).Add(p, one))
		add(new(big.Int).Sub(new(big.Int).Lsh(one, uint(k)), one)) // largest k-bit number
		for i := 0; i < c.N(1, 6); i++ {
			v := new(big.Int).SetBytes(rng.Bytes((k + 7) / 8))
			v.Mod(v, p).Add(v, p) // random k-bit
			add(v)
		}
	}
	for _, s := range []string{"3", "5", "6", "7", "255", "256", "257", "65535", "65536", "65537",
		"7237005577332262213973186563042994240857116359379907606001950938285454250989",
		"115792089210356248762697446949407573529996955224135760342422259061068512044369",
		"52435875175126190479447740508185965837690552500527637822603658699938581184513"} {
		m, _ := new(big.Int).SetString(s, 10)
		add(m)
	}
	return ms
}

func c19Int(c *kc.Ctx) {
	rng := c.Rng.Fork("int")
	var cases []randCase
	for _, m := range c19Moduli(c, rng) {
		m := m
		mod := compatiblemod.FromBigInt(m)
		nb := (m.BitLen() + 7) / 8
		for i := 0; i < c.N(3, 12); i++ {
			// prefixes that force rejections first: all-ones candidates, the modulus itself, modulus-1
			var pre []byte
			switch i {
			case 0:
				pre = append(bytesOf(nb*rng.Intn(3), 0xff), m.FillBytes(make([]byte, nb))...)
				pre = append(pre, new(big.Int).Sub(m, big.NewInt(1)).FillBytes(make([]byte, nb))...)
			case 1:
				pre = make([]byte, nb)
			}
			st := &preStream{pre: pre, r: rng.Fork(fmt.Sprint(m, i))}
			var v *big.Int
			res := kc.Recover(func() string {
				v = random.Int(mod, st).ToBigInt()
				return kc.HexN(v)
			})
			used := append([]byte{}, st.used...)
			rc := randCase{kind: "int", key: fmt.Sprintf("int:%s:%x", m.Text(16), used),
				line:   "rnd int " + kc.HexN(m) + " " + kc.HexB(append(used, 0x5a, 0xa5, 0x5a)),
				got:    fmt.Sprintf("%s %d", res, len(used)),
				replay: map[string]string{"family": "int", "modulus": m.Text(16), "stream": kc.HexB(used)}}
			if res == "panic" {
				rc.viol, rc.msg = "random.Int:panic", "random.Int panics for modulus "+m.Text(16)
			} else if v.Sign() < 0 || v.Cmp(m) >= 0 {
				rc.viol, rc.msg = "random.Int:range", fmt.Sprintf("random.Int(%s) = %s is not below the modulus", m.Text(16), v.Text(16))
			}
			cases = append(cases, rc)
		}
	}
	compareRand(c, cases)
	// frequency sanity check on small moduli (fixed seeds: deterministic). 6 sigma.
	for _, mi := range []int64{2, 3, 5, 6, 7, 11} {
		n := c.N(6000, 60000)
		cnt := make([]int, mi)
		mod := compatiblemod.FromBigInt(big.NewInt(mi))
		st := rng.Fork(fmt.Sprint("freq", mi))
		for i := 0; i < n; i++ {
			cnt[random.Int(mod, st).ToBigInt().Int64()]++
		}
		exp := float64(n) / float64(mi)
		sd := math.Sqrt(exp * (1 - 1/float64(mi)))
		for v, k := range cnt {
			if math.Abs(float64(k)-exp) > 6*sd {
				c.Violation("random.Int:bias", fmt.Sprintf("modulus %d: value %d drawn %d times in %d (expected %.0f ± %.0f)", mi, v, k, n, exp, sd),
					map[string]string{"family": "freq", "modulus": fmt.Sprint(mi)})
			}
		}
		c.Eval(n)
		c.CountKindN("random:int-frequency-draws", n)
	}
}

// ---------------------------------------------------------------------------------------------
// randstream

var errScripted = errors.New("scripted reader failure")

// scriptReader delivers `data` in pieces of at most `chunk` bytes and then fails with `err`
// (together with the last piece when `errWithData`).
type scriptReader struct {
	data        []byte
	pos         int
	chunk       int
	err         error
	errWithData bool
}

func (s *scriptReader) Read(p []byte) (int, error) {
	if s.pos >= len(s.data) {
		return 0, s.err
	}
	n := len(p)
	if n > s.chunk {
		n = s.chunk
	}
	if n > len(s.data)-s.pos {
		n = len(s.data) - s.pos
	}
	copy(p, s.data[s.pos:s.pos+n])
	s.pos += n
	if s.pos == len(s.data) && s.errWithData {
		return n, s.err
	}
	return n, nil
}

type readerSpec struct {
	data        []byte
	chunk       int
	eof         bool
	errWithData bool
}

func mkReaders(specs []readerSpec) ([]io.Reader, []*scriptReader) {
	var rs []io.Reader
	var ss []*scriptReader
	for _, sp := range specs {
		e := errScripted
		if sp.eof {
			e = io.EOF
		}
		s := &scriptReader{data: sp.data, chunk: sp.chunk, err: e, errWithData: sp.errWithData}
		rs = append(rs, s)
		ss = append(ss, s)
	}
	return rs, ss
}

type streamCall struct {
	dl  int
	src []byte
}

// runStream executes the calls on the real randstream; returns per call the output and, per reader, what
// it could still deliver when the call started (capped at 40 bytes: the model must ignore bytes 32…).
func runStream(specs []readerSpec, calls []streamCall) (outs []string, avail [][][]byte) {
	rs, ss := mkReaders(specs)
	var s cipher.Stream
	if kc.Recover(func() string { s = random.New(rs...); return "" }) == "panic" {
		return nil, nil
	}
	for _, cl := range calls {
		var av [][]byte
		for _, r := range ss {
			a := r.data[r.pos:]
			if len(a) > 40 {
				a = a[:40]
			}
			av = append(av, append([]byte{}, a...))
		}
		avail = append(avail, av)
		dst := make([]byte, cl.dl)
		outs = append(outs, kc.Recover(func() string {
			s.XORKeyStream(dst, append([]byte{}, cl.src...))
			return "ok " + kc.HexB(dst)
		}))
	}
	return
}

type streamCase struct {
	specs []readerSpec
	calls []streamCall
	idx   int // which call this line is about
	avail [][]byte
	got   string
	sha   map[string]string
	table map[string][]byte
	model string
	done  bool
}

func (sc *streamCase) line() string {
	av := make([]string, len(sc.avail))
	for i, a := range sc.avail {
		av[i] = kc.HexB(a)
	}
	rd := strings.Join(av, ",")
	if len(av) == 0 {
		rd = "none"
	}
	sh := "-"
	if len(sc.sha) > 0 {
		var p []string
		for k, v := range sc.sha {
			p = append(p, k+":"+v)
		}
		sort.Strings(p)
		sh = strings.Join(p, ";")
	}
	tb := "-"
	if len(sc.table) > 0 {
		var p []string
		for k, v := range sc.table {
			p = append(p, k+":"+kc.HexB(v))
		}
		sort.Strings(p)
		tb = strings.Join(p, ";")
	}
	cl := sc.calls[sc.idx]
	return fmt.Sprintf("rnd stream %s %x %s %s %s", rd, cl.dl, kc.HexB(cl.src), sh, tb)
}

func blake2xbPrim(key, abs []byte, n int) ([]byte, error) {
	x, err := blake2b.NewXOF(blake2b.OutputLengthUnknown, key)
	if err != nil {
		return nil, err
	}
	x.Write(abs)
	out := make([]byte, n)
	if m, err := x.Read(out); m != n || err != nil {
		return nil, fmt.Errorf("short primitive read")
	}
	return out, nil
}

func c19Stream(c *kc.Ctx) {
	rng := c.Rng.Fork("stream")
	var cases []*streamCase
	genSpec := func(ncalls int) readerSpec {
		sp := readerSpec{chunk: 64, eof: rng.Bool(), errWithData: rng.Intn(4) == 0}
		if rng.Intn(3) == 0 {
			sp.chunk = 1 + rng.Intn(9)
		}
		switch rng.Intn(7) {
		case 0: // fails at once
			sp.data = nil
		case 1: // short on the first call
			sp.data = rng.Bytes(1 + rng.Intn(31))
		case 2: // good for some calls, then short
			sp.data = rng.Bytes(32*rng.Intn(ncalls+1) + rng.Intn(32))
		case 3: // exactly enough
			sp.data = rng.Bytes(32 * ncalls)
		default:
			sp.data = rng.Bytes(32*ncalls + rng.Intn(50))
		}
		return sp
	}
	for i := 0; i < c.N(1500, 20000); i++ {
		nr := 1 + rng.Intn(4)
		ncalls := 1 + rng.Intn(3)
		var specs []readerSpec
		for j := 0; j < nr; j++ {
			specs = append(specs, genSpec(ncalls))
		}
		var calls []streamCall
		for j := 0; j < ncalls; j++ {
			l := xofChunk(rng)
			if rng.Intn(3) == 0 {
				l = 16 + rng.Intn(48)
			}
			cl := streamCall{dl: l, src: xofData(rng, l)}
			if rng.Intn(25) == 0 {
				cl.dl = l + 1 // mismatched buffers: panics as coded (not pinned by the property)
			}
			calls = append(calls, cl)
		}
		outs, avail := runStream(specs, calls)
		if outs == nil {
			c.Violation("randstream:new", "random.New panics", map[string]string{"family": "stream"})
			continue
		}
		for j := range calls {
			cases = append(cases, &streamCase{specs: specs, calls: calls, idx: j, avail: avail[j], got: outs[j], sha: map[string]string{}, table: map[string][]byte{}})
		}
		// property predicates on the real code
		outs2, _ := runStream(specs, calls)
		if strings.Join(outs, "|") != strings.Join(outs2, "|") {
			c.Violation("randstream:determinism", "same reader bytes, different stream", map[string]string{"family": "stream", "case": fmt.Sprint(i)})
		}
		for j, cl := range calls {
			if cl.dl != len(cl.src) {
				break // later calls see shifted reader positions only if this one read; keep predicates simple
			}
			allFail := true
			for _, a := range avail[j] {
				if len(a) >= 32 {
					allFail = false
				}
			}
			if (outs[j] == "panic") != allFail {
				c.Violation("randstream:panic", fmt.Sprintf("call %d: all readers failed = %v but result %s", j, allFail, trunc(outs[j])),
					map[string]string{"family": "stream", "case": fmt.Sprint(i)})
			}
			if allFail || len(cl.src) < 16 {
				continue
			}
			// depends on every reader: flipping one delivered bit of any one reader changes the output
			for ri := range specs {
				n := len(avail[j][ri])
				if n > 32 {
					n = 32
				}
				if n == 0 {
					continue
				}
				mut := make([]readerSpec, len(specs))
				copy(mut, specs)
				d := append([]byte{}, specs[ri].data...)
				// start of this call's window in the reader's data
				start := 0
				for jj := 0; jj < j; jj++ {
					st := len(avail[jj][ri])
					if st > 32 {
						st = 32
					}
					start += st
				}
				d[start+rng.Intn(n)] ^= 1 << uint(rng.Intn(8))
				mut[ri].data = d
				o3, _ := runStream(mut, calls)
				if o3 != nil && o3[j] == outs[j] {
					c.Violation("randstream:reader-ignored", fmt.Sprintf("call %d: changing a byte delivered by reader %d does not change the stream", j, ri),
						map[string]string{"family": "stream", "case": fmt.Sprint(i)})
				}
				c.Eval(1)
			}
		}
	}
	// model rounds: needsha -> need -> ok
	for round := 0; round < 4; round++ {
		var todo []*streamCase
		for _, sc := range cases {
			if !sc.done {
				todo = append(todo, sc)
			}
		}
		if len(todo) == 0 {
			break
		}
		lines := make([]string, len(todo))
		for i, sc := range todo {
			lines[i] = sc.line()
		}
		outs := c.Model(lines)
		for i, sc := range todo {
			o := outs[i]
			switch {
			case strings.HasPrefix(o, "needsha "):
				in, err := unhexB(o[8:])
				if err != nil {
					sc.model, sc.done = "err:needsha", true
					break
				}
				d := sha256.Sum256(in)
				sc.sha[o[8:]] = kc.HexB(d[:])
			case strings.HasPrefix(o, "need "):
				if err := lend(blake2xbPrim, sc.table, o[5:]); err != nil {
					sc.model, sc.done = "err:"+err.Error(), true
				}
			default:
				sc.model, sc.done = o, true
			}
		}
	}
	for i, sc := range cases {
		c.Program(1)
		c.Eval(1)
		kind := "ok"
		if sc.got == "panic" {
			kind = "all-readers-failed-or-mismatch"
		}
		c.CountKind(fmt.Sprintf("randstream:%d-readers:%s", len(sc.specs), kind))
		c.Nontrivial("stream|" + sc.line())
		if i%(len(cases)/3+1) == 1 {
			c.Sample(map[string]string{"line": trunc(sc.line()), "impl_out": trunc(sc.got), "model_out": trunc(sc.model)})
		}
		if !sc.done {
			sc.model = "err:rounds"
		}
		if sc.got != sc.model {
			c.Disagree(trunc(sc.line()), trunc(sc.got), trunc(sc.model), "")
			c.DisChecked(1)
			c.Unshown("correspondence:randstream", fmt.Sprintf("%s -> impl %s, model %s", trunc(sc.line()), trunc(sc.got), trunc(sc.model)),
				map[string]string{"family": "stream", "line": sc.line()})
		}
	}
}
