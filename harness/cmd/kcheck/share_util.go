package main

// Helpers shared by the share-based protocol checks (C07 Shamir, C13 PVSS, C12 DSS): a group adapter
// that converts between big.Int and kyber scalars, builds points from discrete logs the harness
// chose, and compares a real point with a discrete log predicted by the Lean model (one real Mul).

import (
	"fmt"
	"math/big"
	"strings"

	"go.dedis.ch/kyber/v4"

	"verifharness/internal/dlgroup"
	"verifharness/internal/groups"
	"verifharness/internal/kc"
)

type shG struct {
	name  string
	g     kyber.Group
	q     *big.Int
	mock  *dlgroup.Suite // non-nil for the mock group
	suite any            // the suite of a real group (hash / xof / random), may be nil
}

func (h *shG) le() bool { return h.g.Scalar().ByteOrder() == kyber.LittleEndian }

// sc builds the scalar of value v (mod q).
func (h *shG) sc(v *big.Int) kyber.Scalar {
	v = new(big.Int).Mod(v, h.q)
	if h.mock != nil {
		return h.mock.ScalarFromBig(v)
	}
	s := h.g.Scalar()
	b := v.FillBytes(make([]byte, s.MarshalSize()))
	if h.le() {
		for i, j := 0, len(b)-1; i < j; i, j = i+1, j-1 {
			b[i], b[j] = b[j], b[i]
		}
	}
	return s.SetBytes(b)
}

// big reads a scalar back through its canonical encoding.
func (h *shG) big(s kyber.Scalar) *big.Int {
	b, err := s.MarshalBinary()
	if err != nil {
		panic("scalar does not marshal: " + err.Error())
	}
	if h.le() {
		return kc.LeN(b)
	}
	return kc.BeN(b)
}

// pt returns d·B for the standard base B.
func (h *shG) pt(d *big.Int) kyber.Point {
	if h.mock != nil {
		return dlgroup.FromLog(h.g, d)
	}
	return h.g.Point().Mul(h.sc(d), nil)
}

// isLog reports whether p = d·B.
func (h *shG) isLog(p kyber.Point, d *big.Int) bool {
	if p == nil {
		return false
	}
	if h.mock != nil {
		return dlgroup.Log(p).Cmp(new(big.Int).Mod(d, h.q)) == 0
	}
	return p.Equal(h.pt(d))
}

func (h *shG) mulq(a, b *big.Int) *big.Int {
	v := new(big.Int).Mul(a, b)
	return v.Mod(v, h.q)
}

func (h *shG) addq(a, b *big.Int) *big.Int {
	v := new(big.Int).Add(a, b)
	return v.Mod(v, h.q)
}

// shGroups lists the groups the share-based checks run on: Ed25519, P-256, BN256 G1, a BLS12-381 G2
// and the mock discrete-log group (thorough: every G1/G2/curve instance of the build).
func shGroups(c *kc.Ctx, mockRng *kc.Rng) []*shG {
	var out []*shG
	names := []string{"ed25519", "p256", "bn256-g1", "kilic-g2"}
	if c.Thorough() {
		names = append(names, "ed25519vt-ext", "bn256-g2", "bn254-g1", "circl-g2", "gnark-g1", "kilic-g1")
	}
	for _, n := range names {
		if g := groups.ByName(n); g != nil {
			out = append(out, &shG{name: g.Name, g: g.Group, q: g.Q, suite: g.Suite})
		}
	}
	m := dlgroup.New(dlgroup.L, mockRng)
	out = append(out, &shG{name: "mock", g: m.G1(), q: m.Q, mock: m})
	return out
}

// shParseLogs parses a model output that is a comma list of hex discrete logs ("-" = empty).
func shParseLogs(s string) ([]*big.Int, bool) {
	if s == "-" {
		return nil, true
	}
	var out []*big.Int
	for _, f := range strings.Split(s, ",") {
		v, ok := new(big.Int).SetString(f, 16)
		if !ok {
			return nil, false
		}
		out = append(out, v)
	}
	return out, true
}

// shPointsMatch compares real points with the discrete logs the model predicts.
func (h *shG) pointsMatch(pts []kyber.Point, model string) bool {
	logs, ok := shParseLogs(model)
	if !ok || len(logs) != len(pts) {
		return false
	}
	for i := range pts {
		if !h.isLog(pts[i], logs[i]) {
			return false
		}
	}
	return true
}

func shHexU(i uint32) string { return fmt.Sprintf("%x", i) }
