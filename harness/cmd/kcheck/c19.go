package main

// C19 — XOFs and random streams are deterministic, chunk-independent and range-exact.
//
// Correspondence: the real kyber wrappers (xof/blake2xb, xof/blake2xs, xof/keccak) against the Lean
// wrapper model `Kyber.Xof` (Proto/Xof.lean, theorems in Props/C19.lean). The model assembles the
// primitive's inputs (key, absorbed, length); the harness lends the primitive's output bytes, obtained
// DIRECTLY from golang.org/x/crypto (not through kyber), in rounds: a line answers `need …` until its
// table covers the run. Independently of the model, the property's own predicates are evaluated on the
// real code for every case: single-shot reference (all adjacent reads merged), clone twin, Reseed then
// Write, Reset against a fresh instance.

import (
	"encoding/hex"
	"encoding/json"
	"fmt"
	"os"
	"sort"
	"strconv"
	"strings"

	"go.dedis.ch/kyber/v4"
	"go.dedis.ch/kyber/v4/xof/blake2xb"
	"go.dedis.ch/kyber/v4/xof/blake2xs"
	"go.dedis.ch/kyber/v4/xof/keccak"
	"golang.org/x/crypto/blake2b"
	"golang.org/x/crypto/blake2s"
	"golang.org/x/crypto/sha3"

	"verifharness/internal/kc"
)

type xofKind struct {
	name string
	tag  string
	hs   int
	mk   func(seed []byte) kyber.XOF
	// variant: "" = the model of the code as it stands (Reset keeps the current impl's key), "+" = the
	// model of the repaired wrapper (fixes/C19-blake2x-reset-after-reseed.patch). Chosen by probeXofVariant
	// and recorded in the evidence; every case is then compared against the chosen model in full.
	variant string
	// prim: n output bytes of the primitive for (key, absorbed), straight from x/crypto
	prim func(key, abs []byte, n int) ([]byte, error)
}

// probeXofVariant: does Reset after Reseed re-key with the key New was given (repaired) or keep the
// reseed key (as coded)? Only selects which of the two Lean models the wrapper is compared with.
func probeXofVariant(k *xofKind) string {
	if k.hs == 0 {
		return "" // no key: the two models coincide
	}
	seed := make([]byte, 100)
	ops := []xop{{k: 'r', n: 16}, {k: 's'}, {k: 'z'}, {k: 'r', n: 16}}
	outs, _ := runXofImpl(k, seed, ops)
	fresh, _ := runXofImpl(k, seed, ops[:1])
	if outs[3] == fresh[0] {
		return "+"
	}
	return ""
}

func xofKinds() []*xofKind {
	ks := xofKindsRaw()
	for _, k := range ks {
		k.variant = probeXofVariant(k)
	}
	return ks
}

func xofKindsRaw() []*xofKind {
	return []*xofKind{
		{"blake2xb", "b", blake2b.Size, blake2xb.New, "", func(key, abs []byte, n int) ([]byte, error) {
			x, err := blake2b.NewXOF(blake2b.OutputLengthUnknown, key)
			if err != nil {
				return nil, err
			}
			x.Write(abs)
			out := make([]byte, n)
			if m, err := x.Read(out); m != n || err != nil {
				return nil, fmt.Errorf("short primitive read")
			}
			return out, nil
		}},
		{"blake2xs", "s", blake2s.Size, blake2xs.New, "", func(key, abs []byte, n int) ([]byte, error) {
			x, err := blake2s.NewXOF(blake2s.OutputLengthUnknown, key)
			if err != nil {
				return nil, err
			}
			x.Write(abs)
			out := make([]byte, n)
			if m, err := x.Read(out); m != n || err != nil {
				return nil, fmt.Errorf("short primitive read")
			}
			return out, nil
		}},
		{"keccak", "k", 0, keccak.New, "", func(key, abs []byte, n int) ([]byte, error) {
			if len(key) != 0 {
				return nil, fmt.Errorf("SHAKE256 has no key")
			}
			x := sha3.NewShake256()
			x.Write(abs)
			out := make([]byte, n)
			if m, err := x.Read(out); m != n || err != nil {
				return nil, fmt.Errorf("short primitive read")
			}
			return out, nil
		}},
	}
}

// xop: one operation of a sequence. k: w r x s z c.
type xop struct {
	k    byte
	inst int
	n    int    // read length / dst length of xor
	data []byte // write data / xor src
}

func (o xop) String() string {
	i := strconv.FormatInt(int64(o.inst), 16)
	switch o.k {
	case 'w':
		return "w" + i + ":" + kc.HexB(o.data)
	case 'r':
		return "r" + i + ":" + strconv.FormatInt(int64(o.n), 16)
	case 'x':
		return "x" + i + ":" + strconv.FormatInt(int64(o.n), 16) + ":" + kc.HexB(o.data)
	}
	return string(o.k) + i
}

func opsString(ops []xop) string {
	if len(ops) == 0 {
		return "-"
	}
	s := make([]string, len(ops))
	for i, o := range ops {
		s[i] = o.String()
	}
	return strings.Join(s, ",")
}

func unhexB(s string) ([]byte, error) {
	if s == "-" {
		return nil, nil
	}
	return hex.DecodeString(s)
}

func parseXops(s string) ([]xop, error) {
	if s == "-" {
		return nil, nil
	}
	var ops []xop
	for _, t := range strings.Split(s, ",") {
		f := strings.Split(t, ":")
		if len(f[0]) < 2 {
			return nil, fmt.Errorf("bad op %q", t)
		}
		inst, err := strconv.ParseInt(f[0][1:], 16, 32)
		if err != nil {
			return nil, err
		}
		o := xop{k: f[0][0], inst: int(inst)}
		switch {
		case o.k == 'w' && len(f) == 2:
			o.data, err = unhexB(f[1])
		case o.k == 'r' && len(f) == 2:
			var n int64
			n, err = strconv.ParseInt(f[1], 16, 32)
			o.n = int(n)
		case o.k == 'x' && len(f) == 3:
			var n int64
			n, err = strconv.ParseInt(f[1], 16, 32)
			o.n = int(n)
			if err == nil {
				o.data, err = unhexB(f[2])
			}
		case (o.k == 's' || o.k == 'z' || o.k == 'c') && len(f) == 1:
		default:
			err = fmt.Errorf("bad op %q", t)
		}
		if err != nil {
			return nil, err
		}
		ops = append(ops, o)
	}
	return ops, nil
}

var xofChunkEdges = []int{0, 0, 1, 2, 31, 32, 33, 63, 64, 65, 127, 128, 129, 135, 136, 137, 255, 256, 272, 599, 600}

func xofChunk(r *kc.Rng) int {
	switch r.Intn(4) {
	case 0:
		return xofChunkEdges[r.Intn(len(xofChunkEdges))]
	case 1:
		return r.Intn(40)
	default:
		return r.Intn(601)
	}
}

func xofData(r *kc.Rng, n int) []byte {
	switch r.Intn(6) {
	case 0:
		return make([]byte, n)
	case 1:
		return bytesOf(n, 0xff)
	}
	return r.Bytes(n)
}

func xofSeed(r *kc.Rng, hs int) []byte {
	var n int
	switch r.Intn(4) {
	case 0:
		e := []int{0, 1, hs - 1, hs, hs + 1, 2 * hs, 2*hs + 1, 31, 32, 33, 63, 64, 65, 100, 128, 136, 299, 300}
		n = e[r.Intn(len(e))]
		if n < 0 {
			n = 0
		}
	default:
		n = r.Intn(301)
	}
	return xofData(r, n)
}

// genXops draws an op sequence of at most maxOps steps. `reading` is only a generation hint so that
// most writes land where they are legal (some are drawn after reads on purpose: they must panic).
func genXops(r *kc.Rng, maxOps int) []xop {
	n := 1 + r.Intn(maxOps)
	reading := []bool{false}
	var ops []xop
	for len(ops) < n {
		i := r.Intn(len(reading))
		switch p := r.Intn(100); {
		case p < 30:
			ops = append(ops, xop{k: 'r', inst: i, n: xofChunk(r)})
			reading[i] = true
		case p < 48:
			l := xofChunk(r)
			dl := l
			switch r.Intn(12) {
			case 0:
				dl = l + 1 + r.Intn(9)
			case 1:
				if l > 0 {
					dl = r.Intn(l) // dst too short: must panic, state untouched
				}
			}
			ops = append(ops, xop{k: 'x', inst: i, n: dl, data: xofData(r, l)})
			if dl >= l {
				reading[i] = true
			}
		case p < 70:
			if reading[i] && r.Intn(8) != 0 {
				continue
			}
			ops = append(ops, xop{k: 'w', inst: i, data: xofData(r, xofChunk(r))})
		case p < 80:
			ops = append(ops, xop{k: 's', inst: i})
			reading[i] = false
		case p < 90:
			if len(reading) >= 6 {
				continue
			}
			ops = append(ops, xop{k: 'c', inst: i})
			reading = append(reading, reading[i])
		default:
			ops = append(ops, xop{k: 'z', inst: i})
			reading[i] = false
		}
	}
	return ops
}

// applyXop executes one op on the real code; canonical output as printed by the model driver.
func applyXop(insts *[]kyber.XOF, o xop) string {
	if o.inst < 0 || o.inst >= len(*insts) {
		return "err:noinst"
	}
	x := (*insts)[o.inst]
	return kc.Recover(func() string {
		switch o.k {
		case 'w':
			n, err := x.Write(o.data)
			if err != nil || n != len(o.data) {
				return "err:write"
			}
			return "u"
		case 'r':
			buf := make([]byte, o.n)
			n, err := x.Read(buf)
			if err != nil || n != o.n {
				return fmt.Sprintf("err:read:%d/%d", n, o.n)
			}
			return kc.HexB(buf)
		case 'x':
			dst := bytesOf(o.n, 0xa5)
			src := append([]byte{}, o.data...)
			x.XORKeyStream(dst, src)
			for _, b := range dst[len(src):] {
				if b != 0xa5 {
					return "err:dst-tail-written"
				}
			}
			if string(src) != string(o.data) {
				return "err:src-modified"
			}
			return kc.HexB(dst[:len(src)])
		case 's':
			x.Reseed()
			return "u"
		case 'z':
			x.Reset()
			return "u"
		case 'c':
			*insts = append(*insts, x.Clone())
			return "u"
		}
		return "err:op"
	})
}

func runXofImpl(k *xofKind, seed []byte, ops []xop) ([]string, []kyber.XOF) {
	insts := []kyber.XOF{k.mk(append([]byte{}, seed...))}
	outs := make([]string, len(ops))
	for i, o := range ops {
		outs[i] = applyXop(&insts, o)
	}
	return outs, insts
}

// runXofOneShot: the single-shot reference on the real code. For every instance, maximal runs of
// adjacent Read/XORKeyStream calls (adjacent in that instance's own history, a Clone of it counts as a
// boundary) are replaced by ONE Read of the total length; the expected outputs of the chunked calls
// are cut out of it (XOR-ed with src for XORKeyStream).
func runXofOneShot(k *xofKind, seed []byte, ops []xop) []string {
	insts := []kyber.XOF{k.mk(append([]byte{}, seed...))}
	outs := make([]string, len(ops))
	pending := map[int][]int{}
	flush := func(i int) {
		idx := pending[i]
		if len(idx) == 0 {
			return
		}
		delete(pending, i)
		total := 0
		for _, j := range idx {
			if ops[j].k == 'r' {
				total += ops[j].n
			} else {
				total += len(ops[j].data)
			}
		}
		big := applyXop(&insts, xop{k: 'r', inst: i, n: total})
		raw, err := unhexB(big)
		if err != nil || len(raw) != total {
			for _, j := range idx {
				outs[j] = big
			}
			return
		}
		for _, j := range idx {
			if ops[j].k == 'r' {
				outs[j] = kc.HexB(raw[:ops[j].n])
				raw = raw[ops[j].n:]
			} else {
				l := len(ops[j].data)
				b := make([]byte, l)
				for t := range b {
					b[t] = ops[j].data[t] ^ raw[t]
				}
				outs[j] = kc.HexB(b)
				raw = raw[l:]
			}
		}
	}
	for j, o := range ops {
		switch {
		case o.k == 'r' || (o.k == 'x' && o.n >= len(o.data)):
			pending[o.inst] = append(pending[o.inst], j)
		case o.k == 'x':
			outs[j] = applyXop(&insts, o) // dst too short: panics before touching the stream
		default:
			flush(o.inst)
			outs[j] = applyXop(&insts, o)
		}
	}
	var rest []int
	for i := range pending {
		rest = append(rest, i)
	}
	sort.Ints(rest)
	for _, i := range rest {
		flush(i)
	}
	return outs
}

type xofCase struct {
	kind  *xofKind
	seed  []byte
	ops   []xop
	got   []string
	table map[string][]byte // "<keyhex>:<abshex>" -> lent stream prefix
	model string
	done  bool
}

func (cs *xofCase) line() string {
	t := "-"
	if len(cs.table) > 0 {
		keys := make([]string, 0, len(cs.table))
		for k := range cs.table {
			keys = append(keys, k)
		}
		sort.Strings(keys)
		parts := make([]string, len(keys))
		for i, k := range keys {
			parts[i] = k + ":" + kc.HexB(cs.table[k])
		}
		t = strings.Join(parts, ";")
	}
	return "xof " + cs.kind.tag + cs.kind.variant + " " + kc.HexB(cs.seed) + " " + opsString(cs.ops) + " " + t
}

func (cs *xofCase) replay() map[string]string {
	return map[string]string{"family": "xof", "kind": cs.kind.name, "seed": kc.HexB(cs.seed), "ops": opsString(cs.ops)}
}

// lend answers the model's `need k:a:n;…` from x/crypto.
func lend(prim func(key, abs []byte, n int) ([]byte, error), table map[string][]byte, needs string) error {
	for _, nd := range strings.Split(needs, ";") {
		f := strings.Split(nd, ":")
		if len(f) != 3 {
			return fmt.Errorf("bad need %q", nd)
		}
		key, e1 := unhexB(f[0])
		abs, e2 := unhexB(f[1])
		n, e3 := strconv.ParseInt(f[2], 16, 32)
		if e1 != nil || e2 != nil || e3 != nil {
			return fmt.Errorf("bad need %q", nd)
		}
		id := f[0] + ":" + f[1]
		if v, ok := table[id]; ok && len(v) >= int(n) {
			continue
		}
		out, err := prim(key, abs, int(n))
		if err != nil {
			return fmt.Errorf("primitive refused the model's request %q: %v", nd, err)
		}
		table[id] = out
	}
	return nil
}

// resolveXof runs the need/lend rounds until every case has a model answer.
func resolveXof(c *kc.Ctx, cases []*xofCase) (rounds int) {
	for rounds = 0; rounds < 64; rounds++ {
		var todo []*xofCase
		for _, cs := range cases {
			if !cs.done {
				todo = append(todo, cs)
			}
		}
		if len(todo) == 0 {
			return
		}
		lines := make([]string, len(todo))
		for i, cs := range todo {
			lines[i] = cs.line()
		}
		outs := c.Model(lines)
		for i, cs := range todo {
			o := outs[i]
			if strings.HasPrefix(o, "need ") {
				if err := lend(cs.kind.prim, cs.table, o[5:]); err != nil {
					cs.model, cs.done = "err:"+err.Error(), true
				}
				continue
			}
			cs.model, cs.done = o, true
		}
	}
	for _, cs := range cases {
		if !cs.done {
			cs.model, cs.done = "err:rounds", true
		}
	}
	return
}

// xofPredicates evaluates the property's own statements on the real code for one case.
func xofPredicates(c *kc.Ctx, cs *xofCase, r *kc.Rng) {
	k := cs.kind
	// P1 single-shot reference / XORKeyStream = src xor Read / determinism
	ref := runXofOneShot(k, cs.seed, cs.ops)
	for j := range ref {
		if ref[j] != cs.got[j] {
			c.Violation(k.name+":chunking", fmt.Sprintf("op %d (%s): chunked %s, single-shot %s", j, cs.ops[j], trunc(cs.got[j]), trunc(ref[j])), cs.replay())
			break
		}
	}
	c.Eval(1)
	// P2 clone twin: every live instance and a fresh clone of it continue identically
	_, insts := runXofImpl(k, cs.seed, cs.ops)
	tail := []xop{{k: 'r', n: xofChunk(r)}, {k: 'x', n: 40, data: r.Bytes(40)}, {k: 'w', data: r.Bytes(1 + r.Intn(70))}, {k: 's'},
		{k: 'w', data: r.Bytes(r.Intn(200))}, {k: 'r', n: 1 + xofChunk(r)}, {k: 's'}, {k: 'r', n: 33}}
	for i := range insts {
		pair := []kyber.XOF{insts[i]}
		if res := applyXop(&pair, xop{k: 'c', inst: 0}); res != "u" || len(pair) != 2 {
			c.Violation(k.name+":clone", "Clone failed: "+res, cs.replay())
			continue
		}
		for _, o := range tail {
			o0, o1 := o, o
			o0.inst, o1.inst = 0, 1
			a, b := applyXop(&pair, o0), applyXop(&pair, o1)
			if a != b {
				c.Violation(k.name+":clone", fmt.Sprintf("after the case's ops, instance %d and its clone differ on %s: %s vs %s", i, o, trunc(a), trunc(b)), cs.replay())
				break
			}
		}
		c.Eval(1)
	}
	// P3 Reseed makes the XOF writable again (whatever its history)
	_, insts = runXofImpl(k, cs.seed, cs.ops)
	for i := range insts {
		one := []kyber.XOF{insts[i]}
		applyXop(&one, xop{k: 'r', n: 5})
		if res := applyXop(&one, xop{k: 's'}); res != "u" {
			c.Violation(k.name+":reseed-write", "Reseed: "+res, cs.replay())
		} else if res := applyXop(&one, xop{k: 'w', data: []byte{1, 2, 3}}); res != "u" {
			c.Violation(k.name+":reseed-write", fmt.Sprintf("Write after Reseed on instance %d: %s", i, res), cs.replay())
		}
		c.Eval(1)
	}
	// P4 Reset of the factory-made instance returns it to its seeded initial state
	_, insts = runXofImpl(k, cs.seed, cs.ops)
	one := []kyber.XOF{insts[0]}
	fresh := []kyber.XOF{k.mk(append([]byte{}, cs.seed...))}
	reseeded := false
	for _, o := range cs.ops {
		if o.inst == 0 && o.k == 's' {
			reseeded = true
		}
	}
	applyXop(&one, xop{k: 'z'})
	var a, b string
	if r.Bool() { // initial state = same outputs AND writable
		w := xop{k: 'w', data: r.Bytes(r.Intn(80))}
		a, b = applyXop(&one, w), applyXop(&fresh, w)
	}
	rd := xop{k: 'r', n: 1 + r.Intn(200)}
	a, b = a+applyXop(&one, rd), b+applyXop(&fresh, rd)
	if a != b {
		key := k.name + ":reset"
		if reseeded {
			key = k.name + ":reset-after-reseed"
		}
		c.Violation(key, fmt.Sprintf("after the case's ops, Reset() then Read gives %s, a fresh New(seed) gives %s", trunc(a), trunc(b)), cs.replay())
	}
	c.Eval(1)
}

func trunc(s string) string {
	if len(s) > 48 {
		return s[:48] + "…"
	}
	return s
}

func c19Xof(c *kc.Ctx) {
	var cases []*xofCase
	variants := map[string]string{}
	for _, k := range xofKinds() {
		variants[k.name] = map[string]string{"": "as-coded (Xof.new retain=false)", "+": "repaired (Xof.new retain=true)"}[k.variant]
	}
	c.Extra("xof_model_variant", variants)
	add := func(k *xofKind, seed []byte, ops []xop) {
		cases = append(cases, &xofCase{kind: k, seed: seed, ops: ops, table: map[string][]byte{}})
	}
	for _, k := range xofKinds() {
		rng := c.Rng.Fork("xof/" + k.name)
		// fixed corpus: histories the design singled out
		z100 := make([]byte, 100)
		add(k, z100, []xop{{k: 'r', n: 16}, {k: 's'}, {k: 'z'}, {k: 'r', n: 16}})
		add(k, z100, []xop{{k: 'r', n: 16}, {k: 'z'}, {k: 'r', n: 16}})
		add(k, nil, []xop{{k: 'r', n: 0}, {k: 'w', data: []byte{1}}, {k: 'r', n: 600}})
		add(k, []byte{7}, []xop{{k: 'w', data: nil}, {k: 'r', n: 1}, {k: 'w', data: nil}, {k: 'c'}, {k: 'z', inst: 1}, {k: 'r', inst: 1, n: 8}, {k: 'r', n: 8}})
		add(k, bytesOf(300, 0xff), []xop{{k: 'x', n: 0, data: nil}, {k: 'w', data: []byte{1}}, {k: 's'}, {k: 'w', data: []byte{1}}, {k: 'x', n: 64, data: make([]byte, 64)}})
		// every seed length 0..300 once with a short program
		for l := 0; l <= 300; l++ {
			add(k, xofData(rng, l), genXops(rng, 6))
		}
		for i := 0; i < c.N(1500, 25000); i++ {
			add(k, xofSeed(rng, k.hs), genXops(rng, 30))
		}
	}
	for _, cs := range cases {
		cs.got, _ = runXofImpl(cs.kind, cs.seed, cs.ops)
	}
	rounds := resolveXof(c, cases)
	c.Extra("xof_lend_rounds", rounds)
	lent := 0
	for _, cs := range cases {
		for _, v := range cs.table {
			lent += len(v)
		}
	}
	c.Extra("xof_primitive_bytes_lent", lent)
	prng := c.Rng.Fork("xof/predicates")
	for i, cs := range cases {
		c.Program(1)
		c.Eval(1)
		nontrivial := false
		for j, o := range cs.ops {
			c.CountKind(cs.kind.name + ":" + map[byte]string{'w': "write", 'r': "read", 'x': "xorkeystream", 's': "reseed", 'z': "reset", 'c': "clone"}[o.k])
			if cs.got[j] == "panic" {
				c.CountKind(cs.kind.name + ":panic-" + string(o.k))
			}
			if (o.k == 'r' && o.n > 0) || (o.k == 'x' && len(o.data) > 0 && o.n >= len(o.data)) {
				nontrivial = true
			}
		}
		if nontrivial {
			c.Nontrivial(cs.kind.name + "|" + kc.HexB(cs.seed) + "|" + opsString(cs.ops))
		}
		got := "ok " + strings.Join(cs.got, ",")
		if len(cs.got) == 0 {
			got = "ok -"
		}
		if i%(len(cases)/6+1) == 0 {
			c.Sample(map[string]string{"impl": cs.kind.name, "seed": trunc(kc.HexB(cs.seed)), "ops": trunc(opsString(cs.ops)), "impl_out": trunc(got), "model_out": trunc(cs.model)})
		}
		before := c.Violations()
		xofPredicates(c, cs, prng)
		if got != cs.model {
			c.Disagree(cs.kind.name+" seed="+trunc(kc.HexB(cs.seed))+" ops="+opsString(cs.ops), trunc(got), trunc(cs.model), "")
			c.DisChecked(1)
			if c.Violations() == before {
				// the property's predicates hold on the real code for this case, yet the wrapper is no
				// longer the modelled function of (seed, writes): the proof no longer speaks about it
				c.Unshown("correspondence:"+cs.kind.name, "model and implementation differ: impl "+firstDiff(cs.got, cs.model), cs.replay())
			}
		}
	}
}

func firstDiff(got []string, model string) string {
	m := strings.Split(strings.TrimPrefix(model, "ok "), ",")
	for i := range got {
		if i >= len(m) || got[i] != m[i] {
			mm := "(none)"
			if i < len(m) {
				mm = m[i]
			}
			return fmt.Sprintf("op %d: impl %s, model %s", i, trunc(got[i]), trunc(mm))
		}
	}
	return trunc(model)
}

func c19Replay(c *kc.Ctx) bool {
	if c.ReplayFile == "" {
		return false
	}
	b, err := os.ReadFile(c.ReplayFile)
	if err != nil {
		fmt.Fprintln(os.Stderr, "kcheck: cannot read replay:", err)
		os.Exit(2)
	}
	var doc struct {
		Replay map[string]string `json:"replay"`
	}
	if json.Unmarshal(b, &doc) != nil || doc.Replay == nil {
		fmt.Fprintln(os.Stderr, "kcheck: replay file has no replay object")
		os.Exit(2)
	}
	switch doc.Replay["family"] {
	case "xof":
		for _, k := range xofKinds() {
			if k.name != doc.Replay["kind"] {
				continue
			}
			seed, e1 := unhexB(doc.Replay["seed"])
			ops, e2 := parseXops(doc.Replay["ops"])
			if e1 != nil || e2 != nil {
				fmt.Fprintln(os.Stderr, "kcheck: bad replay")
				os.Exit(2)
			}
			cs := &xofCase{kind: k, seed: seed, ops: ops, table: map[string][]byte{}}
			cs.got, _ = runXofImpl(k, seed, ops)
			resolveXof(c, []*xofCase{cs})
			fmt.Printf("replay %s seed=%s ops=%s\n impl : %s\n model: %s\n", k.name, doc.Replay["seed"], doc.Replay["ops"], strings.Join(cs.got, ","), cs.model)
			xofPredicates(c, cs, c.Rng.Fork("replay"))
		}
	case "bits":
		bl, _ := strconv.Atoi(doc.Replay["bitlen"])
		st, _ := unhexB(doc.Replay["stream"])
		bitsCase(c, bl, doc.Replay["exact"] == "true", st, nil)
	default:
		fmt.Fprintln(os.Stderr, "kcheck: replay family not re-executable: "+doc.Replay["family"])
		os.Exit(2)
	}
	return true
}

func runC19(c *kc.Ctx) {
	c.SetRule("xof case = (wrapper, seed, op sequence over ≤6 instances); non-trivial = at least one Read/XORKeyStream of ≥1 byte; distinct by (wrapper, seed, ops). " +
		"rand case = (bitlen, exact, stream) / (modulus, stream) / (reader scripts, src); all non-trivial; distinct by inputs")
	c.Assume("BLAKE2Xb, BLAKE2Xs (x/crypto), SHAKE256 and SHA-256 are abstract in the theorems (prim: key → absorbed → infinite stream); their bytes are lent to the model driver by the harness straight from x/crypto / crypto/sha256",
		"the 256 GiB / 128 GiB output limit of BLAKE2X with unknown length is not modelled",
		"Reset is claimed for factory-made instances only (Clone as coded drops the retained seed; modelled, compared, not claimed)",
		"uniformity of random.Int is the counting theorem about the rejection sampler the code is shown to correspond to; a small frequency test is run as a sanity check only")
	if c19Replay(c) {
		return
	}
	c19Xof(c)
	c19Bits(c)
	c19Int(c)
	c19Stream(c)
}

func init() { register("C19", "proof", runC19) }
