package main

// C14 — sigma-protocol proofs: complete for true statements, reject false or altered.
//
// Correspondence with the Lean model Proto/Sigma.lean (theorems in Props/C14.lean): the real
// proof.HashProve / proof.HashVerify and the deniable clique protocol run over the mock discrete-log
// suite (exact: proof bytes and verdicts) and over Ed25519, P-256 and BN256 G1 (proof transcripts
// compared value by value: scalars by value, points by dlog·Base; verdicts compared). Challenges and
// private randomness are observed through context wrappers (sigma_env.go) and given to the model.
//
// Independently of the model, every case evaluates the property's own predicate on the real code:
// true claim ⇒ accepted; false claim, semantically altered or truncated proof, other public points,
// other predicate, other protocol name ⇒ rejected.

import (
	"fmt"
	"math/big"
	"os"
	"strings"

	"go.dedis.ch/kyber/v4"
	"go.dedis.ch/kyber/v4/proof"

	"verifharness/internal/kc"
)

type sgVariant struct {
	kind      string
	tree      *sgNode
	pval      []*big.Int
	name      string
	realProof []byte
	mockProof []byte // filled once the model transcript is known
	modelable bool
	verdict   string // accept | reject | panic
	chal      *big.Int
	npub      int
	expect    string // "", "accept", "reject": the property's own predicate
}

type sgProof struct {
	env      *sgEnv
	inst     *sgInst
	choice   []int
	name     string
	real     []byte
	cells    []sgCell
	spy      *sgSpyP
	proveErr string
	claim    bool
	line     string
	mock     []byte
	variants []*sgVariant
	tag      string
	shared   bool // structurally identical sub-trees are one proof.Predicate object (not expressible in the model)
}

type sgRun struct {
	c      *kc.Ctx
	proofs []*sgProof
}

func hexList(l []*big.Int) string { return kc.HexNList(l) }
func intList(l []int) string {
	if len(l) == 0 {
		return "-"
	}
	s := make([]string, len(l))
	for i, v := range l {
		s[i] = fmt.Sprintf("%x", v)
	}
	return strings.Join(s, ",")
}

func (e *sgEnv) pmap(pval []*big.Int) map[string]kyber.Point {
	m := map[string]kyber.Point{}
	for i, v := range pval {
		m[pName(i)] = e.pt(v)
	}
	return m
}
func (e *sgEnv) smap(sval []*big.Int) map[string]kyber.Scalar {
	m := map[string]kyber.Scalar{}
	for i, v := range sval {
		m[sName(i)] = e.sc(v)
	}
	return m
}

// prove runs the real HashProve under observation.
func (t *sgRun) prove(e *sgEnv, in *sgInst, choice []int, name, tag string) *sgProof {
	p := &sgProof{env: e, inst: in, choice: choice, name: name, tag: tag, shared: tag == "shared-object"}
	cm := map[proof.Predicate]int{}
	var memo map[string]proof.Predicate
	if p.shared {
		memo = map[string]proof.Predicate{}
	}
	pred := in.tree.buildShared(choice, true, cm, memo)
	prover, spy := sgSpyProver(e, pred.Prover(e.suite, e.smap(in.sval), e.pmap(in.pval), cm))
	p.spy = spy
	res := kc.Recover(func() string {
		b, err := proof.HashProve(e.suite, name, prover)
		if err != nil {
			return "err"
		}
		p.real = b
		return "ok"
	})
	if res != "ok" {
		p.proveErr = res
	}
	for _, m := range spy.puts {
		p.cells = append(p.cells, m...)
	}
	p.claim = in.tree.wellFormed(false) && in.tree.claimHolds(e.q, in.sval, in.pval, choice)
	p.line = fmt.Sprintf("sigma prove %s %s %s %s %s %s %s", kc.HexN(e.q), in.tree.model(), hexList(in.sval), hexList(in.pval),
		intList(choice), hexList(spy.pri), kc.HexN(sgFirst(spy.pub)))
	t.proofs = append(t.proofs, p)
	return p
}

// verify runs the real HashVerify on (tree, pval, name, proof) under observation.
func (t *sgRun) verify(p *sgProof, kind string, tree *sgNode, pval []*big.Int, name string, pr []byte, expect string) *sgVariant {
	e := p.env
	v := &sgVariant{kind: kind, tree: tree, pval: pval, name: name, realProof: pr, expect: expect, modelable: true}
	var memo map[string]proof.Predicate
	if p.shared {
		memo = map[string]proof.Predicate{}
	}
	pred := tree.buildShared(nil, false, nil, memo)
	ver, spy := sgSpyVerifier(e, pred.Verifier(e.suite, e.pmap(pval)))
	v.verdict = kc.Recover(func() string {
		if err := proof.HashVerify(e.suite, name, ver, pr); err != nil {
			return "reject"
		}
		return "accept"
	})
	v.chal = sgFirst(spy.pub)
	v.npub = spy.npub
	p.variants = append(p.variants, v)
	t.c.Eval(1)
	t.c.CountKind(e.name + ":" + kind)
	// the property's own predicate, on the real code
	if expect != "" && v.verdict != expect {
		what := fmt.Sprintf("%s: %s: verifier says %s, property says %s; predicate %s, claimed branch %v", e.name, kind, v.verdict, expect, tree, p.choice)
		key := "C14:" + kind + ":" + v.verdict
		if p.shared {
			key = "C14:shared-predicate-object:" + kind + ":" + v.verdict
		}
		t.c.Violation(key, what, t.replay(p, v))
	}
	return v
}

func (t *sgRun) replay(p *sgProof, v *sgVariant) map[string]any {
	r := map[string]any{"group": p.env.name, "predicate": p.inst.tree.String(), "predicate_model": p.inst.tree.model(),
		"secrets": hexList(p.inst.sval), "point_dlogs": hexList(p.inst.pval), "choice": p.choice, "name": p.name,
		"proof": kc.HexB(p.real), "prove_line": p.line}
	if v != nil {
		r["variant"] = v.kind
		r["verify_predicate"] = v.tree.String()
		r["verify_point_dlogs"] = hexList(v.pval)
		r["verify_name"] = v.name
		r["verify_proof"] = kc.HexB(v.realProof)
		r["verdict"] = v.verdict
	}
	return r
}

// cellSpans returns the byte spans of the cells of the honest real proof.
func (p *sgProof) cellSpans() [][2]int { return sgCellSpans(p.cells) }

func sgCellSpans(cells []sgCell) [][2]int {
	var out [][2]int
	off := 0
	for _, c := range cells {
		n := len(sgCellBytes(c))
		out = append(out, [2]int{off, off + n})
		off += n
	}
	return out
}

// mockOf maps a (mutated / truncated / extended) real proof to the mock encoding the model reads.
// semSame reports that every cell still denotes its original value. ok=false: a point cell decodes
// to a point of unknown discrete log (the case is then judged by the property predicate only).
func (p *sgProof) mockOf(mut []byte) (mock []byte, semSame bool, ok bool) {
	return sgMockOf(p.env, p.real, p.cells, p.mock, mut)
}

func sgMockOf(e *sgEnv, real []byte, cells []sgCell, origMock []byte, mut []byte) (mock []byte, semSame bool, ok bool) {
	if e.mock {
		return mut, false, true
	}
	p := &sgProof{env: e, real: real, cells: cells, mock: origMock}
	spans := p.cellSpans()
	mcells, good := e.splitMock(p.mock, p.cells)
	if !good {
		return nil, false, false
	}
	semSame = true
	for i, sp := range spans {
		if len(mut) < sp[1] {
			semSame = false
			if len(mut) > sp[0] {
				mock = append(mock, 0) // fragment of a cell
			}
			return mock, semSame, true
		}
		cell := mut[sp[0]:sp[1]]
		orig := p.cells[i]
		if string(cell) == string(p.real[sp[0]:sp[1]]) {
			mock = append(mock, mcells[i]...)
			continue
		}
		if orig.isPoint() {
			q := e.suite.Point()
			if kc.Recover(func() string {
				if q.UnmarshalBinary(cell) != nil {
					return "err"
				}
				return "ok"
			}) != "ok" {
				mock = append(mock, e.badP()...)
				semSame = false
				continue
			}
			if !q.Equal(orig.p) {
				return nil, false, false
			}
			mock = append(mock, mcells[i]...)
		} else {
			s := e.suite.Scalar()
			if s.UnmarshalBinary(cell) != nil {
				mock = append(mock, e.badS()...)
				semSame = false
				continue
			}
			v := e.scBig(s)
			if v.Cmp(e.scBig(orig.s)) != 0 {
				semSame = false
			}
			mock = append(mock, e.mockS(v)...)
		}
	}
	if len(spans) > 0 && len(mut) > spans[len(spans)-1][1] {
		mock = append(mock, mut[spans[len(spans)-1][1]:]...)
	}
	return mock, semSame, true
}

// semDiff decides (on the real encoding) whether a same-length mutation changed the meaning of any
// cell; a cell that no longer decodes counts as changed.
func (p *sgProof) semDiff(mut []byte) bool {
	e := p.env
	for i, sp := range p.cellSpans() {
		if len(mut) < sp[1] {
			return true
		}
		cell := mut[sp[0]:sp[1]]
		if string(cell) == string(p.real[sp[0]:sp[1]]) {
			continue
		}
		orig := p.cells[i]
		if orig.isPoint() {
			q := e.suite.Point()
			r := kc.Recover(func() string {
				if q.UnmarshalBinary(cell) != nil {
					return "err"
				}
				if q.Equal(orig.p) {
					return "same"
				}
				return "diff"
			})
			if r != "same" {
				return true
			}
		} else {
			s := e.suite.Scalar()
			if s.UnmarshalBinary(cell) != nil || e.scBig(s).Cmp(e.scBig(orig.s)) != 0 {
				return true
			}
		}
	}
	return false
}

// structural modifications of the predicate the proof is checked against
func sgPredMods(r *kc.Rng, in *sgInst) (kinds []string, trees []*sgNode, certain []bool) {
	add := func(k string, t *sgNode, cert bool) {
		kinds = append(kinds, k)
		trees = append(trees, t)
		certain = append(certain, cert)
	}
	base := in.tree
	// scopes: the And / Rep nodes directly below the top Or (or the top node itself)
	top := base.clone()
	if top.kind == sgOr {
		if len(top.subs) >= 2 {
			t := top.clone()
			i := r.Intn(len(t.subs))
			t.subs = append(t.subs[:i], t.subs[i+1:]...)
			add("pred-drop-branch", t, true)
		}
		t := top.clone()
		t.subs = append(t.subs, t.subs[r.Intn(len(t.subs))].clone())
		add("pred-add-branch", t, true)
	}
	// drop / add a Rep inside an And
	for try := 0; try < 4; try++ {
		t := top.clone()
		var ands []*sgNode
		var walk func(n *sgNode)
		walk = func(n *sgNode) {
			if n.kind == sgAnd {
				ands = append(ands, n)
			}
			for _, s := range n.subs {
				walk(s)
			}
		}
		walk(t)
		if len(ands) == 0 {
			break
		}
		a := ands[r.Intn(len(ands))]
		if try%2 == 0 && len(a.subs) >= 2 {
			i := r.Intn(len(a.subs))
			a.subs = append(a.subs[:i], a.subs[i+1:]...)
			add("pred-drop-term", t, true)
		} else if try%2 == 1 {
			a.subs = append(a.subs, a.subs[r.Intn(len(a.subs))].clone())
			add("pred-add-term", t, true)
		}
	}
	// And <-> Or at the top
	if top.kind == sgAnd && len(top.subs) >= 2 {
		t := top.clone()
		t.kind = sgOr
		add("pred-and-to-or", t, true)
	}
	if top.kind == sgOr && len(top.subs) >= 2 {
		flat := true
		for _, s := range top.subs {
			if s.kind == sgOr {
				flat = false
			}
		}
		if flat {
			t := top.clone()
			t.kind = sgAnd
			add("pred-or-to-and", t, true)
		}
	}
	// a Rep proving another point / using another base / another secret name
	reps := top.reps()
	if len(reps) > 0 {
		t := top.clone()
		rp := t.reps()[r.Intn(len(reps))]
		old := rp.p
		rp.p = r.Intn(len(in.pval))
		add("pred-other-point", t, in.pval[rp.p].Cmp(in.pval[old]) != 0)
		t = top.clone()
		rp = t.reps()[r.Intn(len(reps))]
		if len(rp.terms) > 0 {
			i := r.Intn(len(rp.terms))
			old := rp.terms[i][1]
			rp.terms[i][1] = r.Intn(len(in.pval))
			add("pred-other-base", t, in.pval[rp.terms[i][1]].Cmp(in.pval[old]) != 0)
		}
		t = top.clone()
		rp = t.reps()[r.Intn(len(reps))]
		if len(rp.terms) > 0 {
			i := r.Intn(len(rp.terms))
			rp.terms[i][0] = r.Intn(len(in.sval))
			add("pred-other-secret-name", t, false) // may be the same statement: model decides
		}
	}
	return
}

// variants runs every verification variant of one honest proof on the real code.
func (t *sgRun) variants(p *sgProof, r *kc.Rng, full bool) {
	e, in := p.env, p.inst
	exp := "reject"
	if p.claim {
		exp = "accept"
	}
	t.verify(p, "verify-claim-"+map[bool]string{true: "true", false: "false"}[p.claim], in.tree, in.pval, p.name, p.real, exp)
	if !p.claim || !full {
		return
	}
	rej := "reject"
	if in.degenerate {
		rej = "" // see sgInst.degenerate: compared with the model only
	}
	// every challenge depends on every byte sent before it (sigma_fs.go)
	mk := func() proof.Verifier { return in.tree.build(nil, false, nil).Verifier(e.suite, e.pmap(in.pval)) }
	if what, n := fsSensitivity(e, p.name, mk, p.real); what != "" {
		t.c.Violation("C14:challenge-insensitive", fmt.Sprintf("%s: %s: %s", e.name, in.tree, what), map[string]any{"group": e.name, "predicate": in.tree.String(), "proof": kc.HexB(p.real)})
	} else {
		t.c.CountKindN(e.name+":fs-sensitivity-probes", n)
	}
	// other protocol name
	t.verify(p, "other-name", in.tree, in.pval, p.name+"x", p.real, rej)
	t.verify(p, "other-name", in.tree, in.pval, "", p.real, rej)
	// other public points: one used point variable moved
	used := map[int]bool{}
	for _, rp := range in.tree.reps() {
		used[rp.p] = true
		for _, tm := range rp.terms {
			used[tm[1]] = true
		}
	}
	var usedL []int
	for i := range in.pval {
		if used[i] {
			usedL = append(usedL, i)
		}
	}
	for k := 0; k < 3 && len(usedL) > 0; k++ {
		i := usedL[r.Intn(len(usedL))]
		pv := append([]*big.Int{}, in.pval...)
		pv[i] = new(big.Int).Mod(new(big.Int).Add(pv[i], sgUniform(r, e.q)), e.q)
		kind := "other-point-proven"
		if i < in.nb {
			kind = "other-point-base"
		}
		t.verify(p, kind, in.tree, pv, p.name, p.real, rej)
	}
	// other predicate
	kinds, trees, cert := sgPredMods(r, in)
	for i := range kinds {
		ex := ""
		if cert[i] {
			ex = rej
		}
		t.verify(p, kinds[i], trees[i], in.pval, p.name, p.real, ex)
	}
	// proof mutations
	spans := p.cellSpans()
	if len(p.real) == 0 || len(spans) == 0 {
		return
	}
	mutate := func(kind string, mut []byte) {
		ex := ""
		if len(mut) < len(p.real) || (len(mut) == len(p.real) && p.semDiff(mut) && !in.degenerate) {
			ex = "reject"
		}
		t.verify(p, kind, in.tree, in.pval, p.name, mut, ex)
	}
	nflip := 6
	for k := 0; k < nflip; k++ {
		m := append([]byte{}, p.real...)
		i := r.Intn(len(m))
		m[i] ^= 1 << uint(r.Intn(8))
		mutate("mut-bitflip", m)
	}
	for k := 0; k < 2; k++ { // one cell replaced by random bytes / zeros / another cell of the same kind
		sp := spans[r.Intn(len(spans))]
		m := append([]byte{}, p.real...)
		copy(m[sp[0]:sp[1]], r.Bytes(sp[1]-sp[0]))
		mutate("mut-cell-random", m)
		m = append([]byte{}, p.real...)
		for j := sp[0]; j < sp[1]; j++ {
			m[j] = 0
		}
		mutate("mut-cell-zero", m)
	}
	for k := 0; k < 3 && len(spans) >= 2; k++ {
		i, j := r.Intn(len(spans)), r.Intn(len(spans))
		if i == j || p.cells[i].isPoint() != p.cells[j].isPoint() {
			continue
		}
		m := append([]byte{}, p.real...)
		copy(m[spans[i][0]:spans[i][1]], p.real[spans[j][0]:spans[j][1]])
		mutate("mut-cell-copy", m)
		m2 := append([]byte{}, m...)
		copy(m2[spans[j][0]:spans[j][1]], p.real[spans[i][0]:spans[i][1]])
		mutate("mut-cell-swap", m2)
	}
	// response of one variable shifted by a constant (a valid scalar, different value)
	for k := 0; k < 2; k++ {
		i := r.Intn(len(spans))
		if p.cells[i].isPoint() {
			continue
		}
		s := e.suite.Scalar().Add(p.cells[i].s, e.sc(big.NewInt(1)))
		b, _ := s.MarshalBinary()
		m := append([]byte{}, p.real...)
		copy(m[spans[i][0]:spans[i][1]], b)
		mutate("mut-scalar-plus-one", m)
	}
	// truncations: every cell boundary (sampled) and cuts inside cells
	cuts := map[int]bool{0: true, len(p.real) - 1: true}
	for k := 0; k < 4; k++ {
		sp := spans[r.Intn(len(spans))]
		cuts[sp[0]] = true
		cuts[sp[0]+1+r.Intn(sp[1]-sp[0]-1)] = true
	}
	for n := range cuts {
		if n >= 0 && n < len(p.real) {
			mutate("truncate", p.real[:n])
		}
	}
	// extension: the verifier ignores trailing bytes (not pinned by the property; model must agree)
	mutate("extend", append(append([]byte{}, p.real...), r.Bytes(1+r.Intn(40))...))
}

func stripClass(s string) string {
	if i := strings.IndexByte(s, ':'); i >= 0 {
		return s[:i]
	}
	return s
}

// settle sends all prover lines, then all verifier lines, to the model and compares.
func (t *sgRun) settle() {
	c := t.c
	lines := make([]string, len(t.proofs))
	for i, p := range t.proofs {
		lines[i] = p.line
	}
	sgDump("prove", lines)
	outs := c.Model(lines)
	c.Program(len(lines))
	for i, p := range t.proofs {
		o := outs[i]
		c.Eval(1)
		c.CountKind(p.env.name + ":prove-" + p.tag)
		if p.shared {
			// object identity is not a notion of the model (trees are values): this family is judged by the
			// property predicate on the real code only
			p.mock = nil
			continue
		}
		if p.proveErr != "" {
			if stripClass(o) != "err" {
				c.Disagree(p.line, p.proveErr, o, "prover error")
				c.Unshown("correspondence:prove-error", fmt.Sprintf("real prover fails (%s) but the model says %s for %s", p.proveErr, o, p.inst.tree), t.replay(p, nil))
			}
			continue
		}
		ok := false
		if strings.HasPrefix(o, "ok ") {
			b, err := hexDecode(o[3:])
			if err == nil {
				p.mock = b
				if p.env.mock {
					ok = string(b) == string(p.real)
				} else {
					ok = p.env.sameTranscript(b, p.cells)
				}
			}
		}
		if !ok {
			p.mock = nil
			c.Disagree(p.line, kc.HexB(p.real), o, "prover transcript")
			c.Unshown("correspondence:prove-transcript", fmt.Sprintf("%s: the model prover's transcript differs from the real one for %s choice %v", p.env.name, p.inst.tree, p.choice), t.replay(p, nil))
			continue
		}
		if i%(len(t.proofs)/6+1) == 0 {
			c.Sample(map[string]any{"group": p.env.name, "predicate": p.inst.tree.String(), "choice": p.choice, "claim_true": p.claim, "proof_bytes": len(p.real), "model_line": p.line[:min(len(p.line), 200)]})
		}
		if p.claim {
			c.Nontrivial(fmt.Sprintf("%s|%s|%v|%s|%s", p.env.name, p.inst.tree.shape(), p.choice, hexList(p.inst.sval), p.tag))
		}
	}
	// verifier lines
	type ref struct {
		p *sgProof
		v *sgVariant
	}
	var refs []ref
	var vl []string
	for _, p := range t.proofs {
		if p.mock == nil {
			continue
		}
		for _, v := range p.variants {
			mock, _, ok := p.mockOf(v.realProof)
			if !ok {
				c.CountKind(p.env.name + ":unmodelled-" + v.kind)
				continue
			}
			v.mockProof = mock
			refs = append(refs, ref{p, v})
			vl = append(vl, fmt.Sprintf("sigma verify %s %s %s %s %s", kc.HexN(p.env.q), v.tree.model(), hexList(v.pval), kc.HexB(mock), kc.HexN(v.chal)))
		}
	}
	sgDump("verify", vl)
	vo := c.Model(vl)
	c.Program(len(vl))
	for i, rf := range refs {
		got := rf.v.verdict
		if stripClass(vo[i]) == got {
			if got == "accept" && rf.v.kind != "verify-claim-true" {
				c.CountKind(rf.p.env.name + ":accepted-" + rf.v.kind)
			}
			continue
		}
		c.Disagree(vl[i], got, vo[i], rf.v.kind)
		c.DisChecked(1)
		// the property predicate was already evaluated on the real code for this case (verify());
		// nothing failed there, so the correspondence itself is what no longer holds
		c.Unshown("correspondence:"+rf.v.kind, fmt.Sprintf("%s: %s: real verifier %s, model %s; predicate %s", rf.p.env.name, rf.v.kind, got, vo[i], rf.v.tree), t.replay(rf.p, rf.v))
	}
}

// sgDump writes the model lines to $VERIF_DUMP_DIR (debugging aid, off by default).
func sgDump(tag string, lines []string) {
	dir := os.Getenv("VERIF_DUMP_DIR")
	if dir == "" {
		return
	}
	os.WriteFile(dir+"/c14-"+tag+".txt", []byte(strings.Join(lines, "\n")+"\n"), 0o644)
}

func hexDecode(s string) ([]byte, error) {
	if s == "-" {
		return nil, nil
	}
	b := make([]byte, len(s)/2)
	_, err := fmt.Sscanf(s, "%x", &b)
	if err != nil {
		return nil, err
	}
	return b, nil
}

func runC14(c *kc.Ctx) {
	c.SetRule("case = (group, predicate tree, assignment, claimed branch, protocol name, proof bytes, verification variant); non-trivial = an honest proof of a true claim whose model transcript equals the real one; distinct by (group, tree shape, branch, secrets)")
	c.Assume("H_RO: Fiat-Shamir challenges are oracle values (observed from the real run, supplied to the model)",
		"real-group runs: discrete logs of all public points are chosen by the harness; mutated point cells of unknown discrete log are judged by the property predicate only")
	t := &sgRun{c: c}
	envs := []*sgEnv{sgMockEnv(c.Rng.Fork("mock-stream"))}
	envs = append(envs, sigmaRealEnvs(c.Rng)...)
	var names []string
	for _, e := range envs {
		names = append(names, e.name)
	}
	c.Extra("groups", names)
	nInst := c.N(60, 500)
	for _, e := range envs {
		r := c.Rng.Fork("inst/" + e.name)
		for i := 0; i < nInst; i++ {
			o := sgGenOpts{maxBranches: 4, maxTerms: 4, maxReps: 3, nested: i%5 == 4, illFormed: i%14 == 13, degenerate: i%6 == 5}
			in := sgGen(r, e.q, o)
			name := fmt.Sprintf("proto-%d", r.Intn(3))
			if i%7 == 3 {
				// long protocol names (the name keys the challenge derivation in full, whatever its length):
				// around the block sizes of the hashes and XOFs in use
				name = strings.Repeat("protocol-name/", 40)[:[]int{63, 64, 65, 127, 128, 129, 136, 168, 200, 513}[(i/7)%10]] + fmt.Sprint(r.Intn(3))
			}
			chs := in.tree.choices()
			for ci, ch := range chs {
				p := t.prove(e, in, ch, name, "honest")
				if p.proveErr == "" {
					t.variants(p, r, ci == i%len(chs))
				}
			}
			if !in.tree.wellFormed(false) {
				// the verifier side of an ill-formed predicate
				p := t.prove(e, in, nil, name, "illformed")
				_ = p
				continue
			}
			// the same statement, with structurally identical sub-trees built as one shared Predicate object
			if i%4 == 1 {
				d := in.clone()
				if d.tree.kind == sgOr && len(d.tree.subs) >= 1 {
					j := r.Intn(len(d.tree.subs))
					if d.tree.subs[j].kind != sgOr {
						d.tree.subs = append(d.tree.subs, d.tree.subs[j].clone())
					}
				} else if d.tree.kind == sgAnd {
					d.tree.subs = append(d.tree.subs, d.tree.subs[r.Intn(len(d.tree.subs))].clone())
				}
				for _, ch := range d.tree.choices() {
					p := t.prove(e, d, ch, name, "shared-object")
					if p.proveErr == "" {
						t.variants(p, r, false)
					}
				}
			}
			// out-of-range / missing branch choice
			if in.tree.kind == sgOr && i%7 == 0 {
				t.prove(e, in, nil, name, "no-choice")
				t.prove(e, in, []int{len(in.tree.subs)}, name, "bad-choice")
			}
			// falsified secrets: one variable of the claimed branch moved
			for k := 0; k < 2; k++ {
				ch := chs[r.Intn(len(chs))]
				if !in.tree.claimHolds(e.q, in.sval, in.pval, ch) {
					continue
				}
				node := in.tree
				for _, j := range ch {
					node = node.subs[j]
				}
				var vs []int
				for v := range node.svarsOf() {
					vs = append(vs, v)
				}
				if len(vs) == 0 {
					continue
				}
				sortInts(vs)
				f := in.clone()
				v := vs[r.Intn(len(vs))]
				f.sval[v] = new(big.Int).Mod(new(big.Int).Add(f.sval[v], sgUniform(r, e.q)), e.q)
				p := t.prove(e, f, ch, name, "falsified")
				if p.proveErr == "" {
					t.variants(p, r, false)
				}
			}
		}
	}
	c14CrossTree(t, envs)
	c14Deniable(t, envs)
	c14Rushing(t, envs)
	t.settle()
}

func sortInts(l []int) {
	for i := 1; i < len(l); i++ {
		for j := i; j > 0 && l[j] < l[j-1]; j-- {
			l[j], l[j-1] = l[j-1], l[j]
		}
	}
}

func init() { register("C14", "proof", runC14) }
