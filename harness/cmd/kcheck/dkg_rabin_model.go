package main

// Correspondence of the Rabin DKG's first phase with its Lean model (lean/KyberModel/Proto/RabinDkg.lean):
// in the mock discrete-log world every participant's calls (own deal, ProcessDeal, ProcessResponse,
// ProcessJustification, SetTimeout) are recorded as model ops with the ground truth the harness knows
// (plaintext of every deal, who signed what), and after every call the outcome class, Certified(), QUAL() and
// the aggregation state of every VSS verifier the generator holds are compared with the model's.

import (
	"bytes"
	"fmt"
	"reflect"
	"sort"
	"strings"
	"unsafe"

	"go.dedis.ch/kyber/v4"
	"go.dedis.ch/kyber/v4/share"
	rdkg "go.dedis.ch/kyber/v4/share/dkg/rabin"
	rvss "go.dedis.ch/kyber/v4/share/vss/rabin"
	"go.dedis.ch/kyber/v4/sign/schnorr"

	"verifharness/internal/dlgroup"
	"verifharness/internal/kc"
)

type rabDealMeta struct {
	plain *rvss.Deal
	to    int
}

type rabTrace struct {
	w    *dkgWorld
	n, t int
	desc string
	meta map[*rvss.EncryptedDeal]rabDealMeta
}

type rabNodeTrace struct {
	st     sidTable
	ops    []string
	impl   []string
	broken string
}

func (tr *rabTrace) reg(e *rvss.EncryptedDeal, plain *rvss.Deal, to int) {
	if tr != nil && e != nil {
		tr.meta[e] = rabDealMeta{plain, to}
	}
}

func (n *rabNode) mdealOf(dealer uint32, pd *rvss.Deal) (*mdeal, bool) {
	if pd == nil || pd.SecShare == nil || pd.RndShare == nil || pd.SecShare.V == nil || pd.RndShare.V == nil {
		return nil, false
	}
	d := &mdeal{sid: pd.SessionID, i: pd.SecShare.I, v: sc2big(pd.SecShare.V), ri: pd.RndShare.I, rv: sc2big(pd.RndShare.V), t: pd.T, cpts: pd.Commitments}
	for _, c := range pd.Commitments {
		d.clogs = append(d.clogs, dlgroup.Log(c))
	}
	if int(dealer) < len(n.pubs) {
		if cs, err := rvss.VerifSessionID(n.tr.w.suite, n.pubs[dealer], n.pubs, pd.Commitments, pd.T); err == nil && !bytes.Equal(cs, pd.SessionID) {
			d.csid = cs
		}
	}
	return d, true
}

func (n *rabNode) verifiers() map[uint32]*rvss.Verifier {
	rf := reflect.ValueOf(n.gen).Elem().FieldByName("verifiers")
	return reflect.NewAt(rf.Type(), unsafe.Pointer(rf.UnsafeAddr())).Elem().Interface().(map[uint32]*rvss.Verifier)
}

func (n *rabNode) stateTok() string {
	cert, _ := guard(func() (string, string) { return b01(n.gen.Certified()), "" })
	var q []uint32
	guard(func() (string, string) { q = n.gen.QUAL(); return "", "" })
	sort.Slice(q, func(a, b int) bool { return q[a] < q[b] })
	qs := make([]string, len(q))
	for i, x := range q {
		qs[i] = fmt.Sprintf("%x", x)
	}
	ql := "-"
	if len(qs) > 0 {
		ql = strings.Join(qs, ",")
	}
	vm := n.verifiers()
	var idx []int
	for i := range vm {
		idx = append(idx, int(i))
	}
	sort.Ints(idx)
	var vs []string
	for _, i := range idx {
		v := vm[uint32(i)]
		st := v.VerifState()
		c, _ := guard(func() (string, string) { return b01(v.DealCertified()), "" })
		en := "-"
		if st.Present {
			en, _ = guard(func() (string, string) { return b01(v.EnoughApprovals()), "" })
		}
		sn := &aggSnap{present: st.Present, cert: c, enough: en, bad: st.BadDealer, t: st.T, sid: st.SID, sidNil: st.SID == nil, hasDeal: st.HasDeal, responses: st.Responses}
		vs = append(vs, fmt.Sprintf("%x=%s", i, sn.render(&n.nt.st)))
	}
	vl := "-"
	if len(vs) > 0 {
		vl = strings.Join(vs, ";")
	}
	// second phase
	fin, _ := guard(func() (string, string) { return b01(n.gen.Finished()), "" })
	field := func(name string) reflect.Value {
		rf := reflect.ValueOf(n.gen).Elem().FieldByName(name)
		return reflect.NewAt(rf.Type(), unsafe.Pointer(rf.UnsafeAddr())).Elem()
	}
	cm := field("commitments").Interface().(map[uint32]*share.PubPoly)
	var ck []int
	for i := range cm {
		ck = append(ck, int(i))
	}
	sort.Ints(ck)
	var cs []string
	for _, i := range ck {
		l := "-"
		if pp := cm[uint32(i)]; pp != nil {
			_, pts := pp.Info()
			var ls []string
			for _, pt := range pts {
				ls = append(ls, kc.HexN(dlgroup.Log(pt)))
			}
			if len(ls) > 0 {
				l = strings.Join(ls, ",")
			}
		}
		cs = append(cs, fmt.Sprintf("%x=%s", i, l))
	}
	pm := field("pendingReconstruct").Interface().(map[uint32][]*rdkg.ReconstructCommits)
	var pk []int
	for i := range pm {
		pk = append(pk, int(i))
	}
	sort.Ints(pk)
	var ps []string
	for _, i := range pk {
		var rs []string
		for _, r := range pm[uint32(i)] {
			rs = append(rs, fmt.Sprintf("%x.%s.%x.%s", r.Index, n.nt.st.tok(r.SessionID), r.Share.I, kc.HexN(sc2big(r.Share.V))))
		}
		l := "-"
		if len(rs) > 0 {
			l = strings.Join(rs, ",")
		}
		ps = append(ps, fmt.Sprintf("%x=%s", i, l))
	}
	rm := field("reconstructed").Interface().(map[uint32]bool)
	var rk []int
	for i := range rm {
		rk = append(rk, int(i))
	}
	sort.Ints(rk)
	var rl []string
	for _, i := range rk {
		rl = append(rl, fmt.Sprintf("%x", i))
	}
	j := func(l []string, sep string) string {
		if len(l) == 0 {
			return "-"
		}
		return strings.Join(l, sep)
	}
	// the node's own VSS dealer
	dl := n.dealer()
	dst := dl.VerifState()
	dc, _ := guard(func() (string, string) { return b01(dl.DealCertified()), "" })
	den := "-"
	if dst.Present {
		den, _ = guard(func() (string, string) { return b01(dl.EnoughApprovals()), "" })
	}
	dsn := &aggSnap{present: dst.Present, cert: dc, enough: den, bad: dst.BadDealer, t: dst.T, sid: dst.SID, sidNil: dst.SID == nil, hasDeal: dst.HasDeal, responses: dst.Responses}
	return cert + "#" + ql + "#" + vl + "#" + fin + "#" + j(cs, ";") + "#" + j(ps, ";") + "#" + j(rl, ",") + "#" + dsn.render(&n.nt.st)
}

func logsTok(pts []kyber.Point) string {
	if len(pts) == 0 {
		return "-"
	}
	ls := make([]string, len(pts))
	for i, p := range pts {
		ls[i] = kc.HexN(dlgroup.Log(p))
	}
	return strings.Join(ls, ",")
}

func (n *rabNode) sigOK(idx uint32, msg, sig []byte) bool {
	return int(idx) < len(n.pubs) && schnorr.Verify(n.tr.w.suite, n.pubs[idx], msg, sig) == nil
}

func (n *rabNode) secretCommits() (sc *rdkg.SecretCommits, err error) {
	n.record(func() string { return "S:" + logsTok(n.dealer().Commits()) }, func() string {
		sc, err = n.gen.SecretCommits()
		if err != nil {
			return "err"
		}
		return "ok"
	})
	return sc, err
}

func (n *rabNode) processSecretCommits(sc *rdkg.SecretCommits) (cc *rdkg.ComplaintCommits, err error) {
	n.record(func() string {
		if sc == nil {
			return "?"
		}
		return fmt.Sprintf("C:%x:%s:%s:%s", sc.Index, n.nt.st.tok(sc.SessionID), b01(n.sigOK(sc.Index, sc.Hash(n.tr.w.suite), sc.Signature)), logsTok(sc.Commitments))
	}, func() string {
		cc, err = n.gen.ProcessSecretCommits(sc)
		switch {
		case err != nil:
			return "err"
		case cc != nil:
			return "complaintcommits"
		}
		return "ok"
	})
	return cc, err
}

func (n *rabNode) processComplaintCommits(cc *rdkg.ComplaintCommits) (rc *rdkg.ReconstructCommits, err error) {
	n.record(func() string {
		if cc == nil {
			return "?"
		}
		md, ok := n.mdealOf(cc.DealerIndex, cc.Deal)
		if !ok {
			return "?"
		}
		return fmt.Sprintf("P:%x:%x:%s:%s", cc.Index, cc.DealerIndex, b01(n.sigOK(cc.Index, cc.Hash(n.tr.w.suite), cc.Signature)), md.line(&n.nt.st))
	}, func() string {
		rc, err = n.gen.ProcessComplaintCommits(cc)
		switch {
		case err != nil:
			return "err"
		case rc != nil:
			return "reconstructcommits"
		}
		return "ok"
	})
	return rc, err
}

func (n *rabNode) processReconstructCommits(rc *rdkg.ReconstructCommits) (err error) {
	n.record(func() string {
		if rc == nil {
			return "?"
		}
		has, si, sv := rc.Share != nil && rc.Share.V != nil, uint32(0), "0"
		if has {
			si, sv = rc.Share.I, kc.HexN(sc2big(rc.Share.V))
		}
		return fmt.Sprintf("X:%s:%x:%x:%s:%x:%s:%s", n.nt.st.tok(rc.SessionID), rc.Index, rc.DealerIndex, b01(has), si, sv,
			b01(n.sigOK(rc.Index, rc.Hash(n.tr.w.suite), rc.Signature)))
	}, func() string {
		err = n.gen.ProcessReconstructCommits(rc)
		if err != nil {
			return "err"
		}
		return "ok"
	})
	return err
}

// keyQuery records what DistKeyShare() answers now (share and commitments of the distributed key, or an error).
func (n *rabNode) keyQuery() {
	n.record(func() string { return "K" }, func() string {
		dks, err := n.gen.DistKeyShare()
		if err != nil || dks == nil || dks.Share == nil {
			return "err"
		}
		return "key:" + kc.HexN(sc2big(dks.Share.V)) + ":" + logsTok(dks.Commits)
	})
}

// record runs one call of the real generator and appends (model op, outcome class + state) to the trace.
func (n *rabNode) record(op func() string, call func() string) {
	if n.nt == nil {
		call()
		return
	}
	// the op is described BEFORE the call: the library keeps the message objects it is handed and updates them later
	o := "?"
	if n.nt.broken == "" {
		guard(func() (string, string) { o = op(); return "", "" })
		if o == "?" {
			n.nt.broken = "an operation the harness cannot describe to the model"
		}
	}
	out := "panic"
	defer func() {
		n.nt.ops = append(n.nt.ops, o)
		n.nt.impl = append(n.nt.impl, out+"#"+n.stateTok())
	}()
	out = call()
}

func (n *rabNode) deals() (deals map[int]*rdkg.Deal, err error) {
	n.record(func() string {
		pd, e := n.dealer().PlaintextDeal(n.i)
		if e != nil {
			return "?"
		}
		md, ok := n.mdealOf(uint32(n.i), pd)
		if !ok {
			return "?"
		}
		return "O:" + md.line(&n.nt.st)
	}, func() string {
		deals, err = n.gen.Deals()
		if err != nil {
			return "err"
		}
		return "ok"
	})
	if n.tr != nil {
		for j, dd := range deals {
			if pd, e := n.dealer().PlaintextDeal(j); e == nil && dd != nil {
				n.tr.reg(dd.Deal, pd, j)
			}
		}
	}
	return deals, err
}

func (n *rabNode) processDeal(dd *rdkg.Deal) (r *rdkg.Response, err error) {
	n.record(func() string {
		m, ok := n.tr.meta[dd.Deal]
		if !ok {
			return "?"
		}
		md, ok := n.mdealOf(dd.Index, m.plain)
		if !ok {
			return "?"
		}
		return fmt.Sprintf("D:%x:1:%s:%s", dd.Index, b01(m.to == n.i), md.line(&n.nt.st))
	}, func() string {
		r, err = n.gen.ProcessDeal(dd)
		switch {
		case err != nil:
			return "err"
		case r != nil && r.Response != nil && r.Response.Approved:
			return "approve"
		}
		return "complain"
	})
	return r, err
}

func (n *rabNode) processResponse(r *rdkg.Response) (j *rdkg.Justification, err error) {
	n.record(func() string {
		if r == nil || r.Response == nil {
			return "?"
		}
		vr := r.Response
		sigOK := int(vr.Index) < len(n.pubs) && schnorr.Verify(n.tr.w.suite, n.pubs[vr.Index], vr.Hash(n.tr.w.suite), vr.Signature) == nil
		own := "-"
		if int(r.Index) == n.i && !vr.Approved && int(vr.Index) < len(n.pubs) {
			if pd, e := n.dealer().PlaintextDeal(int(vr.Index)); e == nil {
				if md, ok := n.mdealOf(r.Index, pd); ok {
					own = md.line(&n.nt.st)
				}
			}
		}
		return fmt.Sprintf("R:%x:%s:%x:%s:%s:%s", r.Index, n.nt.st.tok(vr.SessionID), vr.Index, b01(vr.Approved), b01(sigOK), own)
	}, func() string {
		j, err = n.gen.ProcessResponse(r)
		switch {
		case err != nil:
			return "err"
		case j != nil:
			return "justif"
		}
		return "ok"
	})
	return j, err
}

func (n *rabNode) processJustification(j *rdkg.Justification) (err error) {
	n.record(func() string {
		if j == nil {
			return "?"
		}
		wf := j.Justification != nil && j.Justification.Deal != nil && int(j.Index) < len(n.pubs)
		if !wf {
			return fmt.Sprintf("J:%x:0:0:0:0/0/0/0/0/0/-", j.Index)
		}
		vj := j.Justification
		md, ok := n.mdealOf(j.Index, vj.Deal)
		if !ok {
			return "?"
		}
		sigOK := schnorr.Verify(n.tr.w.suite, n.pubs[j.Index], vj.Hash(n.tr.w.suite), vj.Signature) == nil
		return fmt.Sprintf("J:%x:1:%s:%x:%s", j.Index, b01(sigOK), vj.Index, md.line(&n.nt.st))
	}, func() string {
		err = n.gen.ProcessJustification(j)
		if err != nil {
			return "err"
		}
		return "ok"
	})
	return err
}

func (n *rabNode) setTimeout() {
	n.record(func() string { return "T" }, func() string { n.gen.SetTimeout(); return "ok" })
}

func (n *rabNode) modelLine() string {
	h := dlgroup.Log(rvss.VerifDeriveH(n.tr.w.suite, n.pubs))
	return fmt.Sprintf("rdkg 1 %x %s %s %x %x %s %s", n.tr.n, kc.HexN(n.tr.w.q), kc.HexN(h), n.i, n.tr.t,
		n.nt.st.tok(n.dealer().SessionID()), strings.Join(n.nt.ops, " "))
}

type rabPending struct {
	n    *rabNode
	line string
}

var rabPend []rabPending

// rabTraceDone queues the traces of a finished scenario for comparison with the model.
func rabTraceDone(c *kc.Ctx, nodes []*rabNode) {
	for _, x := range nodes {
		if x.nt == nil || len(x.nt.ops) == 0 {
			continue
		}
		if x.nt.broken != "" {
			c.CountKind("rabin-model:untraceable")
			continue
		}
		// the dealer's session identifier must be the first token interned on the model line's own table: the line
		// is rendered now, after the ops (which interned theirs while they were recorded) - interning is by value,
		// so the order does not matter
		rabPend = append(rabPend, rabPending{x, x.modelLine()})
	}
}

func rabCoarse(out string) string {
	if strings.HasPrefix(out, "key:") {
		return out
	}
	if strings.HasPrefix(out, "err") || strings.HasPrefix(out, "vss-") {
		return "err"
	}
	return out
}

func rabFlush(c *kc.Ctx) {
	if len(rabPend) == 0 {
		return
	}
	lines := make([]string, len(rabPend))
	for i, p := range rabPend {
		lines[i] = p.line
	}
	outs := c.ModelDedup(lines)
	c.Program(len(rabPend))
	bad := 0
	for i, p := range rabPend {
		mt := strings.Fields(outs[i])
		impl := p.n.nt.impl
		at := -1
		if len(mt) != len(impl) {
			at = 0
		} else {
			for k := range impl {
				mo, rest, _ := strings.Cut(mt[k], "#")
				if strings.HasPrefix(mo, "key:") {
					c.CountKind("rabin-model-out:key")
				} else {
					c.CountKind("rabin-model-out:" + mo)
				}
				c.Eval(1)
				if at < 0 && rabCoarse(mo)+"#"+rest != impl[k] {
					at = k
				}
			}
		}
		if i%(len(rabPend)/4+1) == 0 {
			c.Sample(map[string]string{"line": lines[i], "impl": strings.Join(impl, " "), "model": outs[i]})
		}
		c.Nontrivial("rdkg|" + lines[i])
		if at < 0 {
			continue
		}
		bad++
		c.Disagree(lines[i], strings.Join(impl, " "), outs[i], fmt.Sprintf("Rabin DKG node %d, first difference at op %d (%s)", p.n.i, at, p.n.tr.desc))
		c.DisChecked(1)
		if bad <= 3 {
			mo, io := "(length differs)", ""
			if at < len(mt) && at < len(impl) {
				mo, io = mt[at], impl[at]
			}
			c.Unshown("correspondence:rabin-dkg", fmt.Sprintf("the Rabin DKG model and share/dkg/rabin differ at op %d (%s) of node %d in %s: model %s, implementation %s",
				at, p.n.nt.ops[min(at, len(p.n.nt.ops)-1)], p.n.i, p.n.tr.desc, decTrunc(mo), decTrunc(io)),
				map[string]any{"line": lines[i], "impl": strings.Join(impl, " "), "model": outs[i], "scenario": p.n.tr.desc})
		}
	}
	c.Extra("rabin_dkg_model_traces", len(rabPend))
	c.Extra("rabin_dkg_model_disagreements", bad)
	rabPend = nil
}
