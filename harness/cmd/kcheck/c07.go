package main

// C07 — Shamir sharing: any t valid shares reconstruct; commitments bind shares.
//
// Correspondence of the real share package (share/poly.go) with the Lean model Kyber.Share
// (lean/KyberModel/Proto/Share.lean, theorems in Props/C07.lean) over Ed25519, P-256, BN256 G1, a
// BLS12-381 G2 and the mock discrete-log group, plus the property predicate evaluated directly on
// the real code (recovered == dealt, fewer than t refused, Check <=> share on the polynomial,
// Eval/Commit additive, Eval multiplicative), so that a failing input is found without the model.
//
// Points: the harness chose every scalar, so it knows every discrete log; the model predicts the
// discrete log of each resulting point and the comparison costs one real Mul (exact on the mock group).

import (
	"encoding/json"
	"fmt"
	"math/big"
	"os"
	"runtime"
	"sort"
	"strconv"
	"strings"
	"sync"

	"go.dedis.ch/kyber/v4"
	"go.dedis.ch/kyber/v4/share"

	"verifharness/internal/kc"
)

// c07Spec is one replayable call into the real code together with its model line.
type c07Spec struct {
	Group  string   `json:"group"`
	Op     string   `json:"op"`
	T      uint32   `json:"t"`
	N      uint32   `json:"n"`                // the `n` argument (a capacity hint in Go)
	Coeffs []string `json:"coeffs"`           // dealer polynomial, hex
	Base   string   `json:"base"`             // discrete log of the base point, or "nil"
	Slice  []string `json:"slice,omitempty"`  // nil | idx:val | idx:nil ; val = private value, or discrete log of the public value
	Honest bool     `json:"honest,omitempty"` // every usable entry is a genuine share at an index < 2^32-1, t >= 1, len(coeffs) == t
	Other  []string `json:"other,omitempty"`  // second polynomial (add, mul)
	I      uint32   `json:"i,omitempty"`
	V      string   `json:"v,omitempty"`
	Desc   string   `json:"desc,omitempty"`
}

type c07Case struct {
	h     *shG
	spec  c07Spec
	line  string
	got   string
	isPts bool
	pts   []kyber.Point
	pred  string // non-empty: the property predicate failed on the real code
	nt    bool   // counts as a non-trivial case
}

func shHexList(l []*big.Int) []string {
	out := make([]string, len(l))
	for i, v := range l {
		out[i] = kc.HexN(v)
	}
	return out
}

func shJoin(l []string) string {
	if len(l) == 0 {
		return "-"
	}
	return strings.Join(l, ",")
}

func shUnhex(s string) *big.Int {
	v, ok := new(big.Int).SetString(s, 16)
	if !ok {
		panic("bad hex " + s)
	}
	return v
}

func shUnhexList(l []string) []*big.Int {
	out := make([]*big.Int, len(l))
	for i, s := range l {
		out[i] = shUnhex(s)
	}
	return out
}

type c07Tok struct {
	nilPtr, vNil bool
	idx          uint32
	val          *big.Int
}

func shParseTok(s string) c07Tok {
	if s == "nil" {
		return c07Tok{nilPtr: true}
	}
	f := strings.SplitN(s, ":", 2)
	i, err := strconv.ParseUint(f[0], 16, 32)
	if err != nil {
		panic("bad token " + s)
	}
	if f[1] == "nil" {
		return c07Tok{idx: uint32(i), vNil: true}
	}
	return c07Tok{idx: uint32(i), val: shUnhex(f[1])}
}

// shDistinctUsable counts the distinct indices among usable entries.
func shDistinctUsable(slice []string) int {
	seen := map[uint32]bool{}
	for _, s := range slice {
		t := shParseTok(s)
		if !t.nilPtr && !t.vNil {
			seen[t.idx] = true
		}
	}
	return len(seen)
}

func shScalarsOut(h *shG, l []kyber.Scalar) string {
	out := make([]string, len(l))
	for i, s := range l {
		out[i] = kc.HexN(h.big(s))
	}
	return shJoin(out)
}

// c07Exec runs one spec on the real code and evaluates the property predicate where it applies.
func c07Exec(h *shG, sp c07Spec) c07Case {
	cs := c07Case{h: h, spec: sp}
	q := kc.HexN(h.q)
	coeffs := shUnhexList(sp.Coeffs)
	var base *big.Int
	var baseP kyber.Point
	baseLog := big.NewInt(1)
	if sp.Base != "nil" {
		base = shUnhex(sp.Base)
		baseP = h.pt(base)
		baseLog = base
	}
	cl := shJoin(sp.Coeffs)
	commitLogs := make([]*big.Int, len(coeffs))
	for i, cf := range coeffs {
		commitLogs[i] = h.mulq(cf, baseLog)
	}
	mkPoly := func(l []*big.Int) *share.PriPoly {
		s := make([]kyber.Scalar, len(l))
		for i, v := range l {
			s[i] = h.sc(v)
		}
		return share.CoefficientsToPriPoly(h.g, s)
	}
	enough := shDistinctUsable(sp.Slice) >= int(sp.T)
	priSlice := func() []*share.PriShare {
		out := make([]*share.PriShare, len(sp.Slice))
		for i, s := range sp.Slice {
			t := shParseTok(s)
			switch {
			case t.nilPtr:
			case t.vNil:
				out[i] = &share.PriShare{I: t.idx}
			default:
				out[i] = &share.PriShare{I: t.idx, V: h.sc(t.val)}
			}
		}
		return out
	}
	pubSlice := func() []*share.PubShare {
		out := make([]*share.PubShare, len(sp.Slice))
		for i, s := range sp.Slice {
			t := shParseTok(s)
			switch {
			case t.nilPtr:
			case t.vNil:
				out[i] = &share.PubShare{I: t.idx}
			default:
				out[i] = &share.PubShare{I: t.idx, V: h.pt(t.val)}
			}
		}
		return out
	}
	sl := shJoin(sp.Slice)
	cs.got = kc.Recover(func() string {
		switch sp.Op {
		case "shares":
			cs.line = fmt.Sprintf("share %s shares %s %x", q, cl, sp.N)
			sh := mkPoly(coeffs).Shares(sp.N)
			out := make([]string, len(sh))
			for i, s := range sh {
				if s.I != uint32(i) {
					cs.pred = fmt.Sprintf("Shares(%d)[%d].I = %d", sp.N, i, s.I)
				}
				out[i] = kc.HexN(h.big(s.V))
			}
			cs.nt = len(coeffs) >= 2 && sp.N >= 1
			return shJoin(out)
		case "eval":
			cs.line = fmt.Sprintf("share %s eval %s %x", q, cl, sp.I)
			s := mkPoly(coeffs).Eval(sp.I)
			if s.I != sp.I {
				cs.pred = "Eval returned another index"
			}
			cs.nt = len(coeffs) >= 2
			return kc.HexN(h.big(s.V))
		case "commit":
			cs.line = fmt.Sprintf("share %s commit %s %s", q, cl, sp.Base)
			pb, cm := mkPoly(coeffs).Commit(baseP).Info()
			if (pb == nil) != (baseP == nil) || (pb != nil && !pb.Equal(baseP)) {
				cs.pred = "Commit stores another base"
			}
			for i := range cm {
				if !h.isLog(cm[i], commitLogs[i]) {
					cs.pred = fmt.Sprintf("commits[%d] != coeffs[%d]*b", i, i)
				}
			}
			cs.isPts, cs.pts = true, cm
			cs.nt = len(coeffs) >= 1
			return ""
		case "pubshares":
			// line carries the commitment logs; predicate: PubPoly.Eval(i) = Mul(PriPoly.Eval(i).V, b)
			cs.line = fmt.Sprintf("share %s pubshares %s %x", q, shJoin(shHexList(commitLogs)), sp.N)
			p := mkPoly(coeffs)
			ps := p.Commit(baseP).Shares(sp.N)
			pts := make([]kyber.Point, len(ps))
			for i, s := range ps {
				pts[i] = s.V
				want := h.g.Point().Mul(p.Eval(uint32(i)).V, baseP)
				if s.I != uint32(i) || !s.V.Equal(want) {
					cs.pred = fmt.Sprintf("PubPoly.Eval(%d) is not the commitment of private share %d", i, i)
				}
			}
			cs.isPts, cs.pts = true, pts
			cs.nt = len(coeffs) >= 2 && sp.N >= 1
			return ""
		case "pubeval":
			cs.line = fmt.Sprintf("share %s pubeval %s %x", q, shJoin(shHexList(commitLogs)), sp.I)
			p := mkPoly(coeffs)
			pub := p.Commit(baseP)
			s := pub.Eval(sp.I)
			want := h.g.Point().Mul(p.Eval(sp.I).V, baseP)
			if s.I != sp.I || !s.V.Equal(want) {
				cs.pred = fmt.Sprintf("PubPoly.Eval(%d) is not the commitment of private share %d", sp.I, sp.I)
			}
			// the evaluation holds at any time: values handed out earlier belong to the caller, who may
			// overwrite them (accumulate into them) without changing what the polynomial evaluates to
			s1, s2 := pub.Eval(sp.I), pub.Eval(sp.I)
			s1.V.Add(s1.V, h.g.Point().Base())
			s2.V.Null()
			priv := p.Eval(sp.I)
			pv := priv.V.Clone()
			priv.V.Add(priv.V, h.g.Scalar().One())
			if s3 := pub.Eval(sp.I); !s3.V.Equal(want) || !pub.Check(&share.PriShare{I: sp.I, V: pv}) || !p.Eval(sp.I).V.Equal(pv) {
				cs.pred = fmt.Sprintf("PubPoly.Eval(%d)/Check/PriPoly.Eval change after the caller overwrote values returned by earlier evaluations", sp.I)
			}
			cs.isPts, cs.pts = true, []kyber.Point{s.V}
			cs.nt = len(coeffs) >= 2
			return ""
		case "add":
			other := shUnhexList(sp.Other)
			cs.line = fmt.Sprintf("share %s add %s %s", q, cl, shJoin(sp.Other))
			p, r := mkPoly(coeffs), mkPoly(other)
			sum, err := p.Add(r)
			// Commit is additive: p.Commit(b).Add(r.Commit(b)) = (p+r).Commit(b)
			// the two commitments are made for the same base held in two objects (a base point is a value)
			baseP2 := baseP
			if baseP != nil {
				baseP2 = baseP.Clone()
			}
			cp, cr := p.Commit(baseP), r.Commit(baseP2)
			csum, err2 := cp.Add(cr)
			if (err == nil) != (len(coeffs) == len(other)) || (err == nil) != (err2 == nil) {
				cs.pred = "Add error does not coincide with a threshold mismatch"
			}
			if err != nil {
				return "err"
			}
			for _, i := range []uint32{0, 1, sp.I} {
				want := h.g.Scalar().Add(p.Eval(i).V, r.Eval(i).V)
				if !sum.Eval(i).V.Equal(want) {
					cs.pred = fmt.Sprintf("Eval(p+r, %d) != Eval(p)+Eval(r)", i)
				}
				wantP := h.g.Point().Add(cp.Eval(i).V, cr.Eval(i).V)
				if !csum.Eval(i).V.Equal(wantP) {
					cs.pred = fmt.Sprintf("PubPoly.Add: Eval(%d) not additive", i)
				}
			}
			if !csum.Equal(sum.Commit(baseP)) {
				cs.pred = "Commit(p+r) != Commit(p)+Commit(r)"
			}
			for _, i := range []uint32{0, sp.I} {
				if !csum.Check(sum.Eval(i)) {
					cs.pred = fmt.Sprintf("the sum of two commitments to the same base rejects share %d of the sum polynomial", i)
				}
			}
			cs.nt = len(coeffs) >= 1
			return shScalarsOut(h, sum.Coefficients())
		case "mul":
			other := shUnhexList(sp.Other)
			cs.line = fmt.Sprintf("share %s mul %s %s", q, cl, shJoin(sp.Other))
			p, r := mkPoly(coeffs), mkPoly(other)
			prod := p.Mul(r)
			for _, i := range []uint32{0, 1, sp.I} {
				want := h.g.Scalar().Mul(p.Eval(i).V, r.Eval(i).V)
				if !prod.Eval(i).V.Equal(want) {
					cs.pred = fmt.Sprintf("Eval(p*r, %d) != Eval(p)*Eval(r)", i)
				}
			}
			cs.nt = len(coeffs) >= 2 && len(other) >= 2
			return shScalarsOut(h, prod.Coefficients())
		case "check":
			v := shUnhex(sp.V)
			cs.line = fmt.Sprintf("share %s check %s %s %x %s", q, shJoin(shHexList(commitLogs)), sp.Base, sp.I, sp.V)
			p := mkPoly(coeffs)
			ok := p.Commit(baseP).Check(&share.PriShare{I: sp.I, V: h.sc(v)})
			onPoly := h.big(p.Eval(sp.I).V).Cmp(new(big.Int).Mod(v, h.q)) == 0
			if ok != onPoly {
				cs.pred = fmt.Sprintf("Check = %v but share on polynomial = %v", ok, onPoly)
			}
			cs.nt = true
			return fmt.Sprint(ok)
		case "recsecret":
			cs.line = fmt.Sprintf("share %s recsecret %x %s", q, sp.T, sl)
			s, err := share.RecoverSecret(h.g, priSlice(), sp.T, sp.N)
			if sp.Honest {
				if enough && (err != nil || h.big(s).Cmp(coeffs[0]) != 0) {
					cs.pred = "RecoverSecret did not return the dealt secret from >= t distinct shares"
				}
				if !enough && err == nil {
					cs.pred = "RecoverSecret accepted fewer than t distinct shares"
				}
			}
			cs.nt = sp.T >= 2 || !enough
			if err != nil {
				return "err"
			}
			return kc.HexN(h.big(s))
		case "recpripoly":
			cs.line = fmt.Sprintf("share %s recpripoly %x %s", q, sp.T, sl)
			p, err := share.RecoverPriPoly(h.g, priSlice(), sp.T, sp.N)
			if sp.Honest {
				if enough {
					if err != nil || p == nil || !p.Equal(mkPoly(coeffs)) {
						cs.pred = "RecoverPriPoly did not return the dealt polynomial from >= t distinct shares"
					}
				} else if err == nil {
					cs.pred = "RecoverPriPoly accepted fewer than t distinct shares"
				}
			}
			cs.nt = sp.T >= 2 || !enough
			if err != nil {
				return "err"
			}
			if p == nil {
				return "-"
			}
			return shScalarsOut(h, p.Coefficients())
		case "reccommit":
			cs.line = fmt.Sprintf("share %s reccommit %x %s", q, sp.T, sl)
			pt, err := share.RecoverCommit(h.g, pubSlice(), sp.T, sp.N)
			if sp.Honest {
				if enough && (err != nil || !h.isLog(pt, commitLogs[0])) {
					cs.pred = "RecoverCommit did not return the secret commitment from >= t distinct shares"
				}
				if !enough && err == nil {
					cs.pred = "RecoverCommit accepted fewer than t distinct shares"
				}
			}
			cs.nt = sp.T >= 2 || !enough
			if err != nil {
				return "err"
			}
			cs.isPts, cs.pts = true, []kyber.Point{pt}
			return ""
		case "recpubpoly":
			cs.line = fmt.Sprintf("share %s recpubpoly %x %s", q, sp.T, sl)
			pp, err := share.RecoverPubPoly(h.g, pubSlice(), sp.T, sp.N)
			if sp.Honest {
				if enough {
					if err != nil || pp == nil || !pp.Equal(mkPoly(coeffs).Commit(baseP)) {
						cs.pred = "RecoverPubPoly did not return the commitment polynomial from >= t distinct shares"
					}
				} else if err == nil {
					cs.pred = "RecoverPubPoly accepted fewer than t distinct shares"
				}
			}
			cs.nt = sp.T >= 2 || !enough
			if err != nil {
				return "err"
			}
			if pp == nil {
				cs.isPts = true
				return ""
			}
			_, cm := pp.Info()
			cs.isPts, cs.pts = true, cm
			return ""
		}
		panic("unknown op " + sp.Op)
	})
	if cs.got == "panic" {
		cs.isPts = false
		if sp.Honest {
			cs.pred = "panic on well-formed input"
		}
	}
	return cs
}

// c07Scenario: one dealer polynomial over one group; caches the real shares by index.
type c07Scenario struct {
	h      *shG
	t      uint32
	coeffs []*big.Int
	base   string
	poly   *share.PriPoly
	pri    map[uint32]*big.Int
	bl     *big.Int
}

func newC07Scenario(h *shG, coeffs []*big.Int, base *big.Int) *c07Scenario {
	s := &c07Scenario{h: h, t: uint32(len(coeffs)), coeffs: coeffs, base: "nil", pri: map[uint32]*big.Int{}, bl: big.NewInt(1)}
	if base != nil {
		s.base = kc.HexN(base)
		s.bl = base
	}
	sc := make([]kyber.Scalar, len(coeffs))
	for i, v := range coeffs {
		sc[i] = h.sc(v)
	}
	s.poly = share.CoefficientsToPriPoly(h.g, sc)
	return s
}

// priVal is the value of the real private share at idx (from the real Eval).
func (s *c07Scenario) priVal(idx uint32) *big.Int {
	if v, ok := s.pri[idx]; ok {
		return v
	}
	v := s.h.big(s.poly.Eval(idx).V)
	s.pri[idx] = v
	return v
}

func (s *c07Scenario) tok(idx uint32, pub bool) string {
	v := s.priVal(idx)
	if pub {
		v = s.h.mulq(v, s.bl)
	}
	return shHexU(idx) + ":" + kc.HexN(v)
}

func (s *c07Scenario) spec(op string, t, n uint32, slice []string, honest bool, desc string) c07Spec {
	return c07Spec{Group: s.h.name, Op: op, T: t, N: n, Coeffs: shHexList(s.coeffs), Base: s.base, Slice: slice, Honest: honest, Desc: desc}
}

var c07RecOps = []string{"recsecret", "reccommit", "recpripoly", "recpubpoly"}

func isPubOp(op string) bool { return op == "reccommit" || op == "recpubpoly" }

// shPermutations calls f with every permutation of idx (Heap's algorithm).
func shPermutations(idx []uint32, f func([]uint32)) {
	a := append([]uint32{}, idx...)
	var rec func(k int)
	rec = func(k int) {
		if k <= 1 {
			f(a)
			return
		}
		for i := 0; i < k; i++ {
			rec(k - 1)
			if k%2 == 0 {
				a[i], a[k-1] = a[k-1], a[i]
			} else {
				a[0], a[k-1] = a[k-1], a[0]
			}
		}
	}
	rec(len(a))
}

func c07Coeffs(rng *kc.Rng, q *big.Int, t int, secretMode int) []*big.Int {
	out := make([]*big.Int, t)
	for i := range out {
		out[i] = rng.BigBelow(q)
	}
	switch secretMode {
	case 0:
		out[0] = big.NewInt(0)
	case 1:
		out[0] = new(big.Int).Sub(q, big.NewInt(1))
	case 2: // top coefficient zero (degree below t-1)
		out[t-1] = big.NewInt(0)
	case 3:
		b := rng.Bytes((q.BitLen() + 7 + 64) / 8)
		out[0] = new(big.Int).Mod(new(big.Int).SetBytes(b), q)
	}
	return out
}

func c07Base(rng *kc.Rng, q *big.Int) *big.Int {
	switch rng.Intn(4) {
	case 0:
		return nil
	case 1:
		return big.NewInt(1 + int64(rng.Intn(3)))
	}
	for {
		b := rng.BigBelow(q)
		if b.Sign() != 0 {
			return b
		}
	}
}

// c07Exhaustive: every subset of the n contiguous shares (also the too-small ones), in the positional
// layout with nil for the missing entries and in compact orders (all shPermutations up to permN).
func c07Exhaustive(c *kc.Ctx, h *shG, rng *kc.Rng, nMax, permN int, add func(c07Spec)) {
	for n := 1; n <= nMax; n++ {
		for t := 1; t <= n; t++ {
			sc := newC07Scenario(h, c07Coeffs(rng, h.q, t, (n+t)%5), c07Base(rng, h.q))
			for mask := 0; mask < 1<<n; mask++ {
				var sub []uint32
				for i := 0; i < n; i++ {
					if mask>>i&1 == 1 {
						sub = append(sub, uint32(i))
					}
				}
				for _, op := range c07RecOps {
					pub := isPubOp(op)
					// positional layout: shares[i] = share i or nil
					pos := make([]string, n)
					for i := range pos {
						pos[i] = "nil"
					}
					for _, i := range sub {
						pos[i] = sc.tok(i, pub)
					}
					add(sc.spec(op, uint32(t), uint32(n), pos, true, "exhaustive-positional"))
					emit := func(p []uint32) {
						sl := make([]string, len(p))
						for j, i := range p {
							sl[j] = sc.tok(i, pub)
						}
						add(sc.spec(op, uint32(t), uint32(n), sl, true, "exhaustive-order"))
					}
					if len(sub) <= 1 {
						continue
					}
					if n <= permN {
						shPermutations(sub, emit)
					} else {
						rev := make([]uint32, len(sub))
						for j := range sub {
							rev[j] = sub[len(sub)-1-j]
						}
						emit(rev)
						for k := 0; k < 2; k++ {
							p := append([]uint32{}, sub...)
							for j := len(p) - 1; j > 0; j-- {
								r := rng.Intn(j + 1)
								p[j], p[r] = p[r], p[j]
							}
							emit(p)
						}
					}
				}
				c.CountKind(h.name + ":exhaustive-subsets")
			}
		}
	}
}

var c07EdgeIdx = []uint32{0, 1, 2, 3, 5, 7, 8, 15, 16, 100, 255, 256, 1000, 65535, 65536, 1 << 20, 1<<31 - 1, 1 << 31, 1<<32 - 3, 1<<32 - 2}

// c07Sampled: random (t, n), contiguous or scattered indices, subsets of any size, any order, nil
// entries, nil values, repeated shares, surplus; plus a few inputs outside the property's quantifier
// (conflicting duplicates, index 2^32-1, t = 0) that are compared with the model only.
func c07Sampled(c *kc.Ctx, h *shG, rng *kc.Rng, count, nMax int, add func(c07Spec)) {
	for it := 0; it < count; it++ {
		n := 1 + rng.Intn(nMax)
		var t int
		switch rng.Intn(5) {
		case 0:
			t = 1
		case 1:
			t = n
		case 2:
			t = n/2 + 1
		default:
			t = 1 + rng.Intn(n)
		}
		sc := newC07Scenario(h, c07Coeffs(rng, h.q, t, rng.Intn(8)), c07Base(rng, h.q))
		// index set
		idx := make([]uint32, 0, n)
		scattered := rng.Intn(3) == 0
		seen := map[uint32]bool{}
		for len(idx) < n {
			var i uint32
			if !scattered {
				i = uint32(len(idx))
			} else if rng.Bool() {
				i = c07EdgeIdx[rng.Intn(len(c07EdgeIdx))]
			} else {
				i = uint32(rng.U64() % (1<<32 - 1))
			}
			if !seen[i] {
				seen[i] = true
				idx = append(idx, i)
			}
		}
		// subset size around the threshold
		var k int
		switch rng.Intn(6) {
		case 0:
			k = t - 1
		case 1:
			k = t
		case 2:
			k = t + 1
		case 3:
			k = n
		default:
			k = rng.Intn(n + 1)
		}
		if k > n {
			k = n
		}
		perm := append([]uint32{}, idx...)
		for j := len(perm) - 1; j > 0; j-- {
			r := rng.Intn(j + 1)
			perm[j], perm[r] = perm[r], perm[j]
		}
		chosen := perm[:k]
		if rng.Intn(4) == 0 {
			chosen = append([]uint32{}, chosen...)
			sort.Slice(chosen, func(a, b int) bool { return chosen[a] < chosen[b] })
		}
		for _, op := range c07RecOps {
			pub := isPubOp(op)
			var sl []string
			for _, i := range chosen {
				sl = append(sl, sc.tok(i, pub))
			}
			desc := "sampled"
			honest := true
			tt := uint32(t)
			ins := func(tok string) {
				p := rng.Intn(len(sl) + 1)
				sl = append(sl, "")
				copy(sl[p+1:], sl[p:])
				sl[p] = tok
			}
			if rng.Intn(2) == 0 { // nil entries
				for j := rng.Intn(4); j >= 0; j-- {
					ins("nil")
				}
				desc += "+nil"
			}
			if rng.Intn(4) == 0 { // entries whose value is nil (index used or not)
				ins(shHexU(idx[rng.Intn(n)]) + ":nil")
				desc += "+nilvalue"
			}
			if len(chosen) > 0 && rng.Intn(3) == 0 { // the same share several times
				for j := rng.Intn(3); j >= 0; j-- {
					ins(sc.tok(chosen[rng.Intn(len(chosen))], pub))
				}
				desc += "+dup"
			}
			usable := 0
			for _, s := range sl {
				if s != "nil" {
					usable++
				}
			}
			switch rng.Intn(40) {
			case 0: // conflicting duplicate: outside the quantifier; model mirrors the stable insertion sort Go uses up to 12 elements
				if len(chosen) > 0 && usable < 12 {
					i := chosen[rng.Intn(len(chosen))]
					ins(shHexU(i) + ":" + kc.HexN(rng.BigBelow(h.q)))
					honest = false
					desc += "+conflict"
				}
			case 1: // index 2^32-1: Eval uses x = 2^32, recovery uses uint32(idx+1) = 0
				ins(sc.tok(1<<32-1, pub))
				honest = false
				desc += "+idxwrap"
			case 2: // t = 0
				tt = 0
				honest = false
				desc += "+t0"
			}
			nArg := []uint32{uint32(n), 0, uint32(len(sl)), 1}[rng.Intn(4)]
			add(sc.spec(op, tt, nArg, sl, honest, desc))
		}
		// Check: honest, tampered value, value of another index
		i := idx[rng.Intn(n)]
		chk := func(v *big.Int, desc string) {
			sp := sc.spec("check", uint32(t), uint32(n), nil, true, desc)
			sp.I, sp.V = i, kc.HexN(v)
			add(sp)
		}
		chk(sc.priVal(i), "check-honest")
		chk(sc.h.addq(sc.priVal(i), big.NewInt(1+int64(rng.Intn(3)))), "check-tampered")
		chk(sc.priVal(idx[rng.Intn(n)]), "check-other-index")
		chk(rng.BigBelow(h.q), "check-random")
		// Eval / Shares / Commit / PubPoly.Eval
		ev := sc.spec("eval", uint32(t), uint32(n), nil, true, "")
		ev.I = i
		add(ev)
		pe := sc.spec("pubeval", uint32(t), uint32(n), nil, true, "")
		pe.I = i
		add(pe)
		if it%4 == 0 {
			add(sc.spec("shares", uint32(t), uint32(n), nil, true, ""))
			add(sc.spec("pubshares", uint32(t), uint32(n), nil, true, ""))
			add(sc.spec("commit", uint32(t), uint32(n), nil, true, ""))
			// Add / Mul with a second polynomial
			lo := t
			if rng.Intn(5) == 0 {
				lo = 1 + rng.Intn(n)
			}
			other := c07Coeffs(rng, h.q, lo, rng.Intn(8))
			ad := sc.spec("add", uint32(t), uint32(n), nil, true, "")
			ad.Other, ad.I = shHexList(other), i
			add(ad)
			mu := sc.spec("mul", uint32(t), uint32(n), nil, true, "")
			mu.Other, mu.I = shHexList(c07Coeffs(rng, h.q, 1+rng.Intn(n), rng.Intn(8))), i
			add(mu)
		}
	}
}

func c07Compare(c *kc.Ctx, cases []c07Case) {
	lines := make([]string, len(cases))
	for i := range cases {
		lines[i] = cases[i].line
	}
	outs := c.Model(lines)
	c.Eval(len(cases))
	c.Program(len(cases))
	step := len(cases)/10 + 1
	for i := range cases {
		cs := &cases[i]
		kind := cs.h.name + ":" + cs.spec.Op
		c.CountKind(kind)
		if strings.Contains(cs.spec.Desc, "+") {
			for _, f := range strings.Split(cs.spec.Desc, "+")[1:] {
				c.CountKind("slice-feature:" + f)
			}
		}
		if cs.nt {
			c.Nontrivial(cs.h.name + "|" + cs.line)
		}
		impl := cs.got
		agree := false
		if cs.isPts && cs.got == "" {
			agree = cs.h.pointsMatch(cs.pts, outs[i])
			impl = fmt.Sprintf("<%d points>", len(cs.pts))
			if agree {
				impl = "dlog:" + outs[i]
			}
		} else {
			agree = outs[i] == cs.got
		}
		if i%step == 0 {
			c.Sample(map[string]any{"group": cs.h.name, "line": cs.line, "impl_out": impl, "model_out": outs[i], "desc": cs.spec.Desc})
		}
		if cs.pred != "" {
			c.Violation("C07:"+cs.spec.Op+":"+cs.h.name, cs.pred+" ["+cs.line+"]", cs.spec)
		}
		if agree {
			continue
		}
		c.Disagree(cs.h.name+" "+cs.line, impl, outs[i], cs.spec.Desc)
		c.DisChecked(1)
		if cs.pred == "" {
			c.Unshown("correspondence:"+kind, fmt.Sprintf("model and implementation disagree, property predicate holds or does not apply: %s -> impl %s, model %s", cs.line, impl, outs[i]), cs.spec)
		}
	}
}

func runC07(c *kc.Ctx) {
	c.SetRule("case = one call of the real share package (group, op, t, dealer coefficients, base, share slice as given: order, nil entries, nil values, repeats, surplus); non-trivial = recovery with t >= 2 or a refused slice, Check, Eval/Shares/Commit with >= 2 coefficients, Add, Mul with two non-constant factors; distinct by (group, model line)")
	c.Assume("real groups: every point is built from a scalar chosen by the harness; the model's predicted discrete log is compared with one real Mul",
		"Go's sort.Sort is an insertion sort (stable) up to 12 elements; conflicting duplicates (outside the property's quantifier) are only generated below that size",
		"index 2^32-1, t = 0 and conflicting duplicates are outside the quantifier and compared with the model only",
		"the base point stored in a PubPoly returned by RecoverPubPoly is an arbitrary share value (map iteration order) and is not compared; PubPoly.Equal ignores it")
	groupsL := shGroups(c, c.Rng.Fork("c07-mock-stream"))
	byName := map[string]*shG{}
	for _, h := range groupsL {
		byName[h.name] = h
	}
	if c.ReplayFile != "" {
		b, err := os.ReadFile(c.ReplayFile)
		var rf struct {
			Replay c07Spec `json:"replay"`
		}
		if err != nil || json.Unmarshal(b, &rf) != nil || byName[rf.Replay.Group] == nil {
			fmt.Fprintln(os.Stderr, "kcheck: cannot read replay", c.ReplayFile)
			os.Exit(2)
		}
		cs := c07Exec(byName[rf.Replay.Group], rf.Replay)
		fmt.Printf("replay: %s -> impl %q predicate-failure %q\n", cs.line, cs.got, cs.pred)
		c07Compare(c, []c07Case{cs})
		return
	}
	// one generator goroutine per (group, family): the real code runs concurrently on independent
	// group instances; every stream is forked from the run seed by name, so the cases do not depend
	// on scheduling.
	exh := map[string]int{}
	type job struct {
		h   *shG
		run func(add func(c07Spec))
		out []c07Case
	}
	var jobs []*job
	for _, h := range groupsL {
		h := h
		rng := c.Rng.Fork("c07/" + h.name)
		var nExh, permN, count, nMax int
		switch {
		case h.mock != nil:
			nExh, permN, count, nMax = c.N(6, 7), c.N(6, 7), c.N(3000, 30000), c.N(12, 24)
		case h.name == "ed25519":
			nExh, permN, count, nMax = c.N(6, 7), c.N(5, 6), c.N(600, 6000), c.N(12, 24)
		default:
			nExh, permN, count, nMax = c.N(5, 7), c.N(4, 5), c.N(200, 1500), c.N(12, 24)
		}
		exh[h.name] = nExh
		jobs = append(jobs, &job{h: h, run: func(add func(c07Spec)) { c07Exhaustive(c, h, rng.Fork("exh"), nExh, permN, add) }})
		const shards = 4
		for s := 0; s < shards; s++ {
			s := s
			jobs = append(jobs, &job{h: h, run: func(add func(c07Spec)) {
				c07Sampled(c, h, rng.Fork(fmt.Sprint("smp", s)), count/shards, nMax, add)
			}})
		}
	}
	var wg sync.WaitGroup
	sem := make(chan struct{}, runtime.NumCPU())
	for _, j := range jobs {
		j := j
		wg.Add(1)
		go func() {
			defer wg.Done()
			sem <- struct{}{}
			defer func() { <-sem }()
			j.run(func(sp c07Spec) { j.out = append(j.out, c07Exec(j.h, sp)) })
		}()
	}
	wg.Wait()
	var cases []c07Case
	for _, j := range jobs {
		cases = append(cases, j.out...)
	}
	c.Extra("exhaustive_subsets_n_max", exh)
	c.Extra("groups", func() []string {
		var n []string
		for _, h := range groupsL {
			n = append(n, h.name)
		}
		return n
	}())
	c07Compare(c, cases)
}

func init() { register("C07", "proof", runC07) }
