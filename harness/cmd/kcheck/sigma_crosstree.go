package main

// C14: Predicate objects are values that may be shared between predicate trees and reused. A leaf used in
// several trees, with provers and verifiers of the other trees set up between the set-up and the run of one tree,
// must not change any verdict: honest proofs of true statements are accepted by verifiers created before and
// after, proofs of one tree's statement do not verify another tree's, and a false statement stays rejected.

import (
	"fmt"

	"go.dedis.ch/kyber/v4"
	"go.dedis.ch/kyber/v4/proof"

	"verifharness/internal/kc"
)

func c14CrossTree(t *sgRun, envs []*sgEnv) {
	c := t.c
	for _, e := range envs {
		r := c.Rng.Fork("crosstree/" + e.name)
		su := e.suite
		for it := 0; it < c.N(12, 80); it++ {
			B := su.Point().Base()
			names := []string{"x", "y", "z"}
			sval := map[string]kyber.Scalar{}
			pval := map[string]kyber.Point{"B": B}
			for _, n := range names {
				sval[n] = su.Scalar().Pick(r)
				pval["P"+n] = su.Point().Mul(sval[n], nil)
			}
			// a second base with a two-variable representation
			h := su.Scalar().Pick(r)
			pval["H"] = su.Point().Mul(h, nil)
			pval["Q"] = su.Point().Add(su.Point().Mul(sval["x"], nil), su.Point().Mul(sval["z"], pval["H"]))
			a := proof.Rep("Px", "x", "B")
			b := proof.Rep("Py", "y", "B")
			cc := proof.Rep("Pz", "z", "B")
			d := proof.Rep("Q", "x", "B", "z", "H")
			type tree struct {
				name string
				p    proof.Predicate
				ch   map[proof.Predicate]int
			}
			orbc := proof.Or(b, cc)
			trees := []tree{
				{"And(a,b)", proof.And(a, b), nil},
				{"b", b, nil},
				{"And(b,a)", proof.And(b, a), nil},
				{"And(c,d,b)", proof.And(cc, d, b), nil},
				{"Or(b,c)", orbc, map[proof.Predicate]int{orbc: 0}},
				{"And(d,a)", proof.And(d, a), nil},
			}
			i, j := r.Intn(len(trees)), r.Intn(len(trees))
			for j == i {
				j = r.Intn(len(trees))
			}
			ti, tj := trees[i], trees[j]
			rep := map[string]any{"group": e.name, "first": ti.name, "other": tj.name}
			res := kc.Recover(func() string {
				name := "crosstree"
				pi := ti.p.Prover(su, sval, pval, ti.ch)
				vi := ti.p.Verifier(su, pval)
				// the other tree is set up (and used) in between
				pj := tj.p.Prover(su, sval, pval, tj.ch)
				vj := tj.p.Verifier(su, pval)
				if r.Intn(2) == 0 {
					prj, err := proof.HashProve(su, name, pj)
					if err != nil {
						return "proving " + tj.name + " fails: " + err.Error()
					}
					if err := proof.HashVerify(su, name, vj, prj); err != nil {
						return "honest proof of " + tj.name + " rejected: " + err.Error()
					}
				}
				pri, err := proof.HashProve(su, name, pi)
				if err != nil {
					return "proving " + ti.name + " after " + tj.name + " was set up fails: " + err.Error()
				}
				if err := proof.HashVerify(su, name, vi, pri); err != nil {
					return "honest proof of " + ti.name + " rejected by the verifier created before " + tj.name + " was set up: " + err.Error()
				}
				if err := proof.HashVerify(su, name, ti.p.Verifier(su, pval), pri); err != nil {
					return "honest proof of " + ti.name + " rejected by a verifier created after " + tj.name + " was set up: " + err.Error()
				}
				// a fresh prover of the first tree, now that both have been used
				pr2, err := proof.HashProve(su, name, ti.p.Prover(su, sval, pval, ti.ch))
				if err != nil || proof.HashVerify(su, name, ti.p.Verifier(su, pval), pr2) != nil {
					return "second honest proof of " + ti.name + " fails after both trees were used"
				}
				// ONE verifier value for several proofs: a second honest proof is accepted, and an altered copy of the
				// first (its last response byte changed) is refused - by this verifier as by a fresh one
				vr := ti.p.Verifier(su, pval)
				if proof.HashVerify(su, name, vr, pri) != nil {
					return "honest proof of " + ti.name + " rejected by a verifier value about to be reused"
				}
				if err := proof.HashVerify(su, name, vr, pr2); err != nil {
					return "second honest proof of " + ti.name + " rejected by a verifier value that has verified another proof before: " + err.Error()
				}
				for _, pos := range []int{len(pri) - 1, len(pri) / 2, len(pri) - su.ScalarLen() - 1} {
					if pos < 0 || pos >= len(pri) {
						continue
					}
					alt := append([]byte{}, pri...)
					alt[pos] ^= 0x01
					fresh := proof.HashVerify(su, name, ti.p.Verifier(su, pval), alt) == nil
					reused := proof.HashVerify(su, name, vr, alt) == nil
					if reused != fresh {
						return fmt.Sprintf("a proof of %s altered at byte %d: fresh verifier accepts=%v, reused verifier value accepts=%v", ti.name, pos, fresh, reused)
					}
				}
				trunc := pri[:len(pri)-su.ScalarLen()]
				if proof.HashVerify(su, name, vr, trunc) == nil {
					return "a truncated proof of " + ti.name + " is accepted by a reused verifier value"
				}
				// a false statement (one public value moved) stays rejected
				bad := map[string]kyber.Point{}
				for k, v := range pval {
					bad[k] = v
				}
				bad["Py"] = su.Point().Add(pval["Py"], B)
				if ti.name != "And(d,a)" && ti.name != "Or(b,c)" { // the trees whose statement becomes false with it
					if proof.HashVerify(su, name, ti.p.Verifier(su, bad), pri) == nil {
						return "proof of " + ti.name + " accepted for another public value of Py"
					}
				}
				return ""
			})
			c.Eval(4)
			c.CountKind("crosstree:" + e.name)
			c.Nontrivial(fmt.Sprintf("crosstree|%s|%s|%s|%d", e.name, ti.name, tj.name, it))
			if res != "" {
				c.Violation("C14:shared-leaf-across-trees", fmt.Sprintf("%s: %s", e.name, res), rep)
			}
		}
	}
}
