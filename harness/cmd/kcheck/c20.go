//go:build !constantTime

package main

// C20 — shared read-only use of values, suites and schemes is free of data races (partial).
//
// Model side: Proto/Effects.lean + Props/C20.lean (calls that write only call-fresh locations are race-free
// and return their sequential results under every schedule) instantiated by a write-set table of the
// read-only method set. Correspondence side, here: the harness builds a second, race-instrumented
// binary of itself (`go build -race`) and runs it in child mode; the child shares non-normalised points,
// scalars, suites, keys, masks and polynomials between N goroutines that call only the read-only method
// set, compares every result with the sequential one and brackets each scenario with markers on
// stderr, so that every "WARNING: DATA RACE" report of the Go race detector is attributed to one
// (implementation, method). A race or a differing result on a method the table classifies `pure`/`fresh`
// is a failure of the property; a `sharedWrite` entry is expected to race (known finding).

import (
	"bufio"
	"bytes"
	"encoding/json"
	"fmt"
	"os"
	"os/exec"
	"path/filepath"
	"strings"

	"verifharness/internal/groups"
	"verifharness/internal/kc"
)

// c20Child: runs the scenarios of one batch inside the race-instrumented binary.
func c20Child() {
	batch := os.Getenv("C20_BATCH")
	goroutines, rounds := 8, 40
	fmt.Sscan(os.Getenv("C20_ROUNDS"), &rounds)
	var scs []raceScenario
	switch {
	case batch == "schemes":
		scs = raceSchemeScenarios()
	case strings.HasPrefix(batch, "scalars:"):
		for _, g := range groups.ScalarImpls() {
			if g.Name == strings.TrimPrefix(batch, "scalars:") {
				scs = raceScalarScenarios(g)
			}
		}
	default:
		if g := groups.ByName(batch); g != nil {
			scs = racePointScenarios(g)
		}
	}
	enc := json.NewEncoder(os.Stdout)
	for _, sc := range scs {
		r := goroutines
		n := rounds
		if strings.HasPrefix(sc.impl, "pairing") || sc.impl == "bls" || strings.HasSuffix(batch, "-gt") {
			n = rounds/8 + 1 // pairings and GT exponentiations are slow under the race detector
		}
		enc.Encode(raceRun(sc, r, n))
	}
}

type c20Outcome struct {
	res   raceResult
	races int
	first string // first lines of the first race report
}

// c20RunBatch runs one child and attributes race reports to scenarios.
func c20RunBatch(bin, batch string, rounds int) ([]c20Outcome, error) {
	cmd := exec.Command(bin, "-prop", "C20", "-tier", "quick", "-emit")
	cmd.Env = append(os.Environ(), "C20_BATCH="+batch, fmt.Sprintf("C20_ROUNDS=%d", rounds), "GORACE=halt_on_error=0")
	var stdout, stderr bytes.Buffer
	cmd.Stdout = &stdout
	cmd.Stderr = &stderr
	err := cmd.Run()
	// exit status 66 = races were reported (the race runtime's default exit code): not an error here
	if err != nil {
		if ee, ok := err.(*exec.ExitError); !ok || ee.ExitCode() != 66 {
			return nil, fmt.Errorf("%v: %s", err, decTrunc(stderr.String()))
		}
	}
	byID := map[string]*c20Outcome{}
	var order []string
	dec := json.NewDecoder(&stdout)
	for dec.More() {
		var r raceResult
		if dec.Decode(&r) != nil {
			break
		}
		id := r.Impl + "|" + r.Method + "|" + r.Variant
		byID[id] = &c20Outcome{res: r}
		order = append(order, id)
	}
	cur := ""
	sc := bufio.NewScanner(&stderr)
	sc.Buffer(make([]byte, 1<<20), 1<<26)
	capture := 0
	for sc.Scan() {
		l := sc.Text()
		switch {
		case strings.HasPrefix(l, "C20-BEGIN "):
			cur = strings.TrimPrefix(l, "C20-BEGIN ")
		case strings.HasPrefix(l, "C20-END "):
			cur = ""
		case strings.Contains(l, "WARNING: DATA RACE"):
			if o := byID[cur]; o != nil {
				o.races++
				if o.races == 1 {
					capture = 14
				}
			} else if cur == "" {
				// a report outside every scenario (set-up code): attribute to the batch
				if byID["(setup)|"+batch] == nil {
					byID["(setup)|"+batch] = &c20Outcome{res: raceResult{Impl: "(setup)", Method: batch}}
					order = append(order, "(setup)|"+batch)
				}
				byID["(setup)|"+batch].races++
			}
		default:
			if capture > 0 {
				if o := byID[cur]; o != nil {
					o.first += strings.TrimSpace(l) + " / "
				}
				capture--
			}
		}
	}
	var out []c20Outcome
	for _, id := range order {
		out = append(out, *byID[id])
	}
	return out, nil
}

func runC20(c *kc.Ctx) {
	if emitMode {
		c20Child()
		os.Exit(0)
	}
	c.SetRule("cases = (implementation, method of the read-only set) scenarios; each shares freshly built non-normalised objects between 8 goroutines × R rounds under the Go race detector and compares every result with the sequential one; non-trivial = scenarios that ran; distinct by (implementation, method)")
	c.Assume("PARTIAL: the Lean theorem is about the effect abstraction (Proto/Effects.lean); that the write-set table over-approximates the real writes rests on reading the code and on the race detector's sampled schedules",
		"the Go race detector reports only races that occur on the explored schedules (8 goroutines, repeated rounds)",
		"external libraries (math/big, kilic, CIRCL, gnark-crypto, crypto/elliptic) follow the receiver-writes convention: summarised in the table, observed by the detector")
	// 1. the write-set table from the model
	nl := c.Model([]string{"effects count"})
	var n int
	fmt.Sscan(nl[0], &n)
	if n == 0 {
		c.Unshown("correspondence:effects-table", "the model driver returned no write-set table", nil)
		return
	}
	q := make([]string, n)
	for i := range q {
		q[i] = fmt.Sprintf("effects entry %d", i)
	}
	class := map[string]string{}
	for _, l := range c.Model(q) {
		f := strings.Split(l, "|")
		if len(f) == 3 {
			class[f[0]+"|"+f[1]] = f[2]
		}
	}
	c.Extra("write_set_table_entries", len(class))
	// 2. the race-instrumented build of this harness
	bin := filepath.Join(c.BinDir, "kcheck_race")
	os.Remove(bin)
	args := []string{"build", "-race", "-tags", "verif", "-o", bin, "./cmd/kcheck"}
	if mf := filepath.Join(c.BinDir, "go.mod"); kc.Repo() != "/repo" {
		// seeded-change run (bin/check with VERIF_REPO): build against the tree under test
		args = append([]string{"build", "-modfile=" + mf}, args[1:]...)
	}
	build := exec.Command("go", args...)
	build.Dir = filepath.Join(kc.Root, "harness")
	if h := os.Getenv("VERIF_HARNESS"); h != "" {
		build.Dir = h
	}
	if out, err := build.CombinedOutput(); err != nil {
		c.Unshown("correspondence:race-build", "go build -race of the harness failed: "+decTrunc(string(out)), nil)
		return
	}
	// 3. batches
	var batches []string
	for _, g := range groups.All() {
		batches = append(batches, g.Name)
	}
	for _, g := range groups.ScalarImpls() {
		batches = append(batches, "scalars:"+g.Name)
	}
	batches = append(batches, "schemes")
	rounds := c.N(40, 400)
	type br struct {
		batch string
		outs  []c20Outcome
		err   error
	}
	ch := make(chan br, len(batches))
	sem := make(chan struct{}, 6)
	for _, b := range batches {
		go func(b string) {
			sem <- struct{}{}
			defer func() { <-sem }()
			o, err := c20RunBatch(bin, b, rounds)
			ch <- br{b, o, err}
		}(b)
	}
	seen := map[string]bool{}
	for range batches {
		r := <-ch
		if r.err != nil {
			c.Unshown("correspondence:race-child:"+r.batch, "race-instrumented child failed: "+r.err.Error(), nil)
			continue
		}
		for _, o := range r.outs {
			tid := o.res.Impl + "|" + o.res.Method // key into the write-set table
			id := tid
			if o.res.Variant != "" && o.res.Variant != o.res.Impl && !strings.HasSuffix(o.res.Impl, o.res.Variant) {
				id = tid + "|" + o.res.Variant // finding key: the instance it ran on
			}
			// One root cause, one key: every race / wrong result that comes from the in-place normalize()
			// of edwards25519vartime (directly, or through a scheme that marshals a shared key of that
			// group) is reported under "<instance>|normalize".
			if strings.HasPrefix(o.res.Variant, "ed25519vt-") &&
				(class[tid] == "sharedWrite" || strings.Contains(o.first, ").normalize()") || o.res.Impl != o.res.Variant) {
				if o.races > 0 || o.res.Mismatches > 0 || o.res.Panics > 0 {
					id = o.res.Variant + "|normalize"
				}
			}
			cls, known := class[tid]
			c.Eval(o.res.Calls)
			c.Program(1)
			c.CountKind("scenario:" + o.res.Impl)
			if o.res.Skipped != "" {
				c.CountKind("skipped:" + id)
				continue
			}
			c.Nontrivial("c20|" + r.batch + "|" + id)
			seen[tid] = true
			if len(seen)%40 == 1 {
				c.Sample(map[string]any{"batch": r.batch, "impl": o.res.Impl, "method": o.res.Method, "table_class": cls, "calls": o.res.Calls, "race_reports": o.races, "result_mismatches": o.res.Mismatches})
			}
			rep := map[string]any{"batch": r.batch, "impl": o.res.Impl, "method": o.res.Method, "variant": o.res.Variant, "table_class": cls, "calls": o.res.Calls,
				"race_reports": o.races, "result_mismatches": o.res.Mismatches, "panics": o.res.Panics, "first_report": o.first, "sample": o.res.Sample}
			if !known && o.res.Impl != "(setup)" {
				c.Unshown("correspondence:effects-table:missing:"+tid, "scenario without a write-set table entry: "+tid, rep)
			}
			raced := o.races > 0
			bad := o.res.Mismatches > 0 || o.res.Panics > 0
			switch {
			case raced:
				if cls == "sharedWrite" {
					c.CountKind("expected-race:" + id)
				} else {
					c.Disagree(id, "race", cls, r.batch)
					c.DisChecked(1)
				}
				c.Violation(id+":data-race", fmt.Sprintf("%s %s on shared objects: %d data race report(s) from the Go race detector (table class: %s); %s", o.res.Impl, o.res.Method, o.races, cls, decTrunc(o.first)), rep)
			case cls == "sharedWrite":
				// the table may over-approximate (that is sound for the theorem, whose hypothesis excludes
				// the entry); e.g. after the corresponding fix has landed
				c.CountKind("sharedWrite-entry-without-race:" + tid)
			}
			if bad {
				c.Violation(id+":result-differs", fmt.Sprintf("%s %s: %d of %d concurrent calls returned a result different from the sequential one (%d panics); %s", o.res.Impl, o.res.Method, o.res.Mismatches, o.res.Calls, o.res.Panics, o.res.Sample), rep)
			}
		}
	}
	// every table entry about points/scalars must have been exercised on some instance
	missing := 0
	for id := range class {
		if !seen[id] {
			missing++
			c.CountKind("table-entry-not-exercised:" + id)
		}
	}
	c.Extra("table_entries_not_exercised", missing)
}

func init() { register("C20", "proof", runC20) }
