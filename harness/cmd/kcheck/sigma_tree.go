package main

// Predicate trees for C14: one description from which both the kyber proof.Predicate and the line
// syntax of the Lean model (Drive/Sigma.lean) are produced.

import (
	"fmt"
	"math/big"
	"strings"

	"go.dedis.ch/kyber/v4/proof"

	"verifharness/internal/kc"
)

const (
	sgRep = 0
	sgAnd = 1
	sgOr  = 2
)

type sgNode struct {
	kind  int
	p     int      // rep: point variable proven
	terms [][2]int // rep: (scalar variable, base point variable)
	subs  []*sgNode
}

func (n *sgNode) clone() *sgNode {
	c := &sgNode{kind: n.kind, p: n.p}
	for _, t := range n.terms {
		c.terms = append(c.terms, t)
	}
	for _, s := range n.subs {
		c.subs = append(c.subs, s.clone())
	}
	return c
}

func sName(i int) string { return fmt.Sprintf("x%d", i) }
func pName(i int) string { return fmt.Sprintf("P%d", i) }

// model writes the prefix form understood by the driver.
func (n *sgNode) model() string {
	var out []string
	var walk func(n *sgNode)
	walk = func(n *sgNode) {
		switch n.kind {
		case sgRep:
			out = append(out, "0", fmt.Sprintf("%x", n.p), fmt.Sprintf("%x", len(n.terms)))
			for _, t := range n.terms {
				out = append(out, fmt.Sprintf("%x", t[0]), fmt.Sprintf("%x", t[1]))
			}
		default:
			out = append(out, fmt.Sprintf("%x", n.kind), fmt.Sprintf("%x", len(n.subs)))
			for _, s := range n.subs {
				walk(s)
			}
		}
	}
	walk(n)
	return strings.Join(out, ",")
}

func (n *sgNode) String() string {
	switch n.kind {
	case sgRep:
		var ts []string
		for _, t := range n.terms {
			ts = append(ts, sName(t[0])+"*"+pName(t[1]))
		}
		return pName(n.p) + "=" + strings.Join(ts, "+")
	case sgAnd:
		var ss []string
		for _, s := range n.subs {
			ss = append(ss, s.String())
		}
		return "And(" + strings.Join(ss, ", ") + ")"
	default:
		var ss []string
		for _, s := range n.subs {
			ss = append(ss, s.String())
		}
		return "Or(" + strings.Join(ss, ", ") + ")"
	}
}

// shape is a canonical key ignoring variable values (used for the distinct-case count).
func (n *sgNode) shape() string { return n.model() }

// build produces the kyber predicate; `choice` is the list of branch choices along the
// proof-obligated path and is turned into the pointer-keyed map the API wants.
func (n *sgNode) build(choice []int, obligated bool, cm map[proof.Predicate]int) proof.Predicate {
	return n.buildShared(choice, obligated, cm, nil)
}

// buildShared: with a non-nil memo, structurally identical Rep / And sub-trees become ONE
// proof.Predicate object occurring several times in the tree (the package documents predicates as
// immutable and safe to share or reuse).
func (n *sgNode) buildShared(choice []int, obligated bool, cm map[proof.Predicate]int, memo map[string]proof.Predicate) proof.Predicate {
	if memo != nil && n.kind != sgOr {
		if p, ok := memo[n.model()]; ok {
			return p
		}
	}
	switch n.kind {
	case sgRep:
		var sb []string
		for _, t := range n.terms {
			sb = append(sb, sName(t[0]), pName(t[1]))
		}
		p := proof.Rep(pName(n.p), sb...)
		if memo != nil {
			memo[n.model()] = p
		}
		return p
	case sgAnd:
		var subs []proof.Predicate
		for _, s := range n.subs {
			subs = append(subs, s.buildShared(nil, false, cm, memo))
		}
		p := proof.And(subs...)
		if memo != nil {
			memo[n.model()] = p
		}
		return p
	default:
		ch := -1
		var rest []int
		if obligated && len(choice) > 0 {
			ch = choice[0]
			rest = choice[1:]
		}
		var subs []proof.Predicate
		for i, s := range n.subs {
			subs = append(subs, s.buildShared(rest, obligated && i == ch, cm, memo))
		}
		or := proof.Or(subs...)
		if ch >= 0 && cm != nil {
			cm[or] = ch
		}
		return or
	}
}

// holds evaluates the statement in the discrete-log representation.
func (n *sgNode) holds(q *big.Int, sval, pval []*big.Int) bool {
	switch n.kind {
	case sgRep:
		sum := new(big.Int)
		for _, t := range n.terms {
			sum.Add(sum, new(big.Int).Mul(sval[t[0]], pval[t[1]]))
		}
		sum.Mod(sum, q)
		return sum.Cmp(pval[n.p]) == 0
	case sgAnd:
		for _, s := range n.subs {
			if !s.holds(q, sval, pval) {
				return false
			}
		}
		return true
	default:
		for _, s := range n.subs {
			if s.holds(q, sval, pval) {
				return true
			}
		}
		return false
	}
}

// claimHolds: does the assignment satisfy the branch the prover claims (the obligated path)?
func (n *sgNode) claimHolds(q *big.Int, sval, pval []*big.Int, choice []int) bool {
	if n.kind != sgOr {
		return n.holds(q, sval, pval)
	}
	if len(choice) == 0 || choice[0] < 0 || choice[0] >= len(n.subs) {
		return false
	}
	return n.subs[choice[0]].claimHolds(q, sval, pval, choice[1:])
}

// wellFormed: Or nodes only above And/Rep nodes (what proof.go supports).
func (n *sgNode) wellFormed(underAnd bool) bool {
	switch n.kind {
	case sgRep:
		return true
	case sgAnd:
		for _, s := range n.subs {
			if !s.wellFormed(true) {
				return false
			}
		}
		return true
	default:
		if underAnd || len(n.subs) == 0 {
			return false
		}
		for _, s := range n.subs {
			if !s.wellFormed(false) {
				return false
			}
		}
		return true
	}
}

// reps lists the Rep nodes of a subtree.
func (n *sgNode) reps() []*sgNode {
	if n.kind == sgRep {
		return []*sgNode{n}
	}
	var out []*sgNode
	for _, s := range n.subs {
		out = append(out, s.reps()...)
	}
	return out
}

// svarsOf: scalar variables used below n.
func (n *sgNode) svarsOf() map[int]bool {
	m := map[int]bool{}
	for _, r := range n.reps() {
		for _, t := range r.terms {
			m[t[0]] = true
		}
	}
	return m
}

// choices enumerates every obligated path (one choice per Or along it).
func (n *sgNode) choices() [][]int {
	if n.kind != sgOr {
		return [][]int{nil}
	}
	var out [][]int
	for i, s := range n.subs {
		for _, rest := range s.choices() {
			out = append(out, append([]int{i}, rest...))
		}
	}
	return out
}

// ---------------------------------------------------------------------------------------------

// sgInst is a predicate with values: secrets and the discrete logs of all public points.
type sgInst struct {
	tree *sgNode
	sval []*big.Int
	pval []*big.Int
	nb   int // point variables 0..nb-1 are bases; the others are proven points
	// degenerate: the statement may contain a Rep with a repeated base or an identity proven point.
	// Then individual responses / the challenge are not bound by the statement itself (P = (x+y)·B is
	// proved by any r_x, r_y with the right sum; P = O is proved for any challenge), so altered proofs
	// can be valid proofs: such cases are compared with the model only.
	degenerate bool
}

func (in *sgInst) clone() *sgInst {
	c := &sgInst{tree: in.tree.clone(), nb: in.nb, degenerate: in.degenerate}
	for _, v := range in.sval {
		c.sval = append(c.sval, new(big.Int).Set(v))
	}
	for _, v := range in.pval {
		c.pval = append(c.pval, new(big.Int).Set(v))
	}
	return c
}

type sgGenOpts struct {
	maxBranches, maxTerms, maxReps int
	nested                         bool // allow And inside And, Or inside Or
	illFormed                      bool // put an Or under an And
	degenerate                     bool // allow repeated bases inside a Rep and identity proven points
}

// sgGen draws a random predicate tree with shared variables and a full assignment. Every Rep gets its
// own proven point, set to the value that makes it true or (with probability pFalse per Or-branch) a
// random value.
func sgGen(r *kc.Rng, q *big.Int, o sgGenOpts) *sgInst {
	ns := 1 + r.Intn(5)
	nb := 3 + r.Intn(2)
	if o.degenerate {
		nb = 1 + r.Intn(4)
	}
	in := &sgInst{nb: nb, degenerate: o.degenerate}
	for i := 0; i < ns; i++ {
		v := r.BigBelow(q)
		if r.Intn(8) != 0 && v.Sign() == 0 {
			v = big.NewInt(1)
		}
		in.sval = append(in.sval, v)
	}
	for i := 0; i < nb; i++ {
		// bases are uniform (not edge-biased): a coincidence such as B0 + B1 = O would make the response
		// of a variable multiplying B0 + B1 meaningless, which is a property of the statement, not of kyber
		in.pval = append(in.pval, sgUniform(r, q))
	}
	newRep := func(truth bool) *sgNode {
		n := &sgNode{kind: sgRep}
		sum := new(big.Int)
		for try := 0; ; try++ {
			n.terms = nil
			sum.SetInt64(0)
			k := 1 + r.Intn(o.maxReps)
			if !o.degenerate && k > nb {
				k = nb
			}
			usedB := map[int]bool{}
			for i := 0; i < k; i++ {
				t := [2]int{r.Intn(ns), r.Intn(nb)}
				for !o.degenerate && usedB[t[1]] {
					t[1] = r.Intn(nb)
				}
				usedB[t[1]] = true
				n.terms = append(n.terms, t)
				sum.Add(sum, new(big.Int).Mul(in.sval[t[0]], in.pval[t[1]]))
			}
			sum.Mod(sum, q)
			if o.degenerate || sum.Sign() != 0 || try > 50 {
				if sum.Sign() == 0 {
					in.degenerate = true
				}
				break
			}
		}
		if !truth {
			sum.Add(sum, sgUniform(r, q)).Mod(sum, q)
		}
		n.p = len(in.pval)
		in.pval = append(in.pval, sum)
		return n
	}
	var newAnd func(truth bool, depth int) *sgNode
	newAnd = func(truth bool, depth int) *sgNode {
		n := &sgNode{kind: sgAnd}
		k := 1 + r.Intn(o.maxTerms)
		bad := -1
		if !truth {
			bad = r.Intn(k)
		}
		for i := 0; i < k; i++ {
			if o.nested && depth < 2 && r.Intn(5) == 0 {
				n.subs = append(n.subs, newAnd(i != bad, depth+1))
			} else {
				n.subs = append(n.subs, newRep(i != bad))
			}
		}
		return n
	}
	scope := func(truth bool) *sgNode {
		if r.Intn(3) == 0 {
			return newRep(truth)
		}
		return newAnd(truth, 0)
	}
	var newOr func(depth int) *sgNode
	newOr = func(depth int) *sgNode {
		n := &sgNode{kind: sgOr}
		k := 1 + r.Intn(o.maxBranches)
		for i := 0; i < k; i++ {
			if o.nested && depth < 1 && r.Intn(5) == 0 {
				n.subs = append(n.subs, newOr(depth+1))
			} else {
				n.subs = append(n.subs, scope(r.Intn(3) != 0))
			}
		}
		return n
	}
	switch r.Intn(6) {
	case 0:
		in.tree = scope(true)
	default:
		in.tree = newOr(0)
	}
	if o.illFormed {
		// an Or below an And: proof.go refuses it at commit / verify time
		a := &sgNode{kind: sgAnd, subs: []*sgNode{newRep(true), {kind: sgOr, subs: []*sgNode{newRep(true), newRep(true)}}}}
		if r.Bool() {
			in.tree = a
		} else {
			in.tree = &sgNode{kind: sgOr, subs: []*sgNode{newRep(true), a}}
		}
	}
	return in
}

// sgUniform returns a uniformly random non-zero value below q.
func sgUniform(r *kc.Rng, q *big.Int) *big.Int {
	for {
		v := new(big.Int).SetBytes(r.Bytes((q.BitLen() + 7 + 64) / 8))
		v.Mod(v, q)
		if v.Sign() != 0 {
			return v
		}
	}
}
