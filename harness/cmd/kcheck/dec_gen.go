package main

// C04 helper: the malformed-stream generator (DESIGN §2.5). For one group it yields byte strings of
// lengths 0..2·size+40 from the families {random, all-00, all-ff, valid encodings, valid with bit flips,
// truncated, over-long, coordinate ≥ field modulus, off-curve, wrong subgroup, wrong format byte}.

import (
	"math/big"

	"go.dedis.ch/kyber/v4"

	"verifharness/internal/groups"
	"verifharness/internal/kc"
)

type decInput struct {
	fam string
	b   []byte
}

func decFill(n int, v byte) []byte {
	b := make([]byte, n)
	for i := range b {
		b[i] = v
	}
	return b
}

func decBE(v *big.Int, n int) []byte {
	if v.BitLen() > 8*n {
		v = new(big.Int).Mod(v, new(big.Int).Lsh(big.NewInt(1), uint(8*n)))
	}
	return v.FillBytes(make([]byte, n))
}

func decLE(v *big.Int, n int) []byte {
	b := decBE(v, n)
	for i, j := 0, len(b)-1; i < j; i, j = i+1, j-1 {
		b[i], b[j] = b[j], b[i]
	}
	return b
}

func decCat(parts ...[]byte) []byte {
	var out []byte
	for _, p := range parts {
		out = append(out, p...)
	}
	return out
}

// decValidPoints returns encodings the library itself produced (identity, base, multiples, sums).
func decValidPoints(g *groups.G, rng *kc.Rng, n int) [][]byte {
	var out [][]byte
	add := func(p kyber.Point) {
		b, err := p.MarshalBinary()
		if err == nil {
			out = append(out, b)
		}
	}
	kc.Recover(func() string { add(g.Group.Point().Null()); return "" })
	kc.Recover(func() string { add(g.Group.Point().Base()); return "" })
	for i := 0; i < n; i++ {
		kc.Recover(func() string {
			s := g.Group.Scalar().Pick(rng)
			add(g.Group.Point().Mul(s, nil))
			return ""
		})
	}
	return out
}

// fieldOf returns the coordinate field modulus and the coordinate layout of a group's encoding:
// offsets of big-endian coordinates of width w (empty for groups without such a layout).
func decCoordLayout(g *groups.G) (p *big.Int, w int, offs []int) {
	switch g.Math {
	case "p256":
		return decP256P, 32, []int{1, 33}
	case "bn256g1":
		return decBn256P, 32, []int{0, 32}
	case "bn254g1":
		return decBn254P, 32, []int{0, 32}
	case "bn256g2":
		return decBn256P, 32, []int{0, 32, 64, 96}
	case "bn254g2":
		return decBn254P, 32, []int{0, 32, 64, 96}
	case "bn256gt":
		o := make([]int, 12)
		for i := range o {
			o[i] = 32 * i
		}
		return decBn256P, 32, o
	case "bn254gt":
		o := make([]int, 12)
		for i := range o {
			o[i] = 32 * i
		}
		return decBn254P, 32, o
	case "bls12381g1":
		return decBlsP, 48, []int{0}
	case "bls12381g2":
		return decBlsP, 48, []int{0, 48}
	case "bls12381gt":
		o := make([]int, 12)
		for i := range o {
			o[i] = 48 * i
		}
		return decBlsP, 48, o
	}
	return nil, 0, nil
}

func genDecInputs(g *groups.G, rng *kc.Rng, reps int, qrP *big.Int) []decInput {
	size := g.Group.PointLen()
	var out []decInput
	add := func(fam string, b []byte) { out = append(out, decInput{fam, b}) }

	// (a) every length 0..2·size+40
	maxLen := 2*size + 40
	step := 1
	if size > 200 { // GT: 384 / 576 bytes; every length around the boundaries, strided elsewhere
		step = 7
	}
	for l := 0; l <= maxLen; l++ {
		if step > 1 && l%step != 0 && !(l <= 2 || (l >= size-2 && l <= size+2) || l >= maxLen-1) {
			continue
		}
		add("len-zeros", decFill(l, 0))
		add("len-ff", decFill(l, 0xff))
		for r := 0; r < reps; r++ {
			add("len-random", rng.Bytes(l))
		}
	}
	// (b) valid encodings and their mutations
	valid := decValidPoints(g, rng, 3+reps)
	for _, v := range valid {
		add("valid", v)
		for r := 0; r < 4*reps+4; r++ {
			m := append([]byte{}, v...)
			nflip := 1 + rng.Intn(2)
			for k := 0; k < nflip; k++ {
				if len(m) > 0 {
					m[rng.Intn(len(m))] ^= 1 << uint(rng.Intn(8))
				}
			}
			add("bitflip", m)
		}
		// flips of the top bits of the first and last byte (format / flag / sign bits)
		if len(v) > 0 {
			for bit := 0; bit < 8; bit++ {
				m := append([]byte{}, v...)
				m[0] ^= 1 << uint(bit)
				add("flip-first-byte", m)
				m2 := append([]byte{}, v...)
				m2[len(v)-1] ^= 1 << uint(bit)
				add("flip-last-byte", m2)
			}
		}
		for _, cut := range []int{0, 1, len(v) / 2, len(v) - 1} {
			if cut >= 0 && cut < len(v) {
				add("truncated", v[:cut])
			}
		}
		for _, ext := range []int{1, 2, 8, 40, len(v)} {
			add("overlong-zero", decCat(v, decFill(ext, 0)))
			add("overlong-random", decCat(v, rng.Bytes(ext)))
		}
	}
	// (c) coordinates ≥ field modulus, (d) off-curve, on big-endian coordinate layouts
	if p, w, offs := decCoordLayout(g); p != nil && len(valid) > 1 {
		for _, v := range valid {
			for _, o := range offs {
				if o+w > len(v) {
					continue
				}
				c := new(big.Int).SetBytes(v[o : o+w])
				flags := byte(0)
				if g.Math[:3] == "bls" && o == 0 {
					flags = v[0] & 0xe0
					cb := append([]byte{}, v[o:o+w]...)
					cb[0] &= 0x1f
					c = new(big.Int).SetBytes(cb)
				}
				for _, k := range []int64{1, 2} {
					cp := new(big.Int).Add(c, new(big.Int).Mul(big.NewInt(k), p))
					if cp.BitLen() <= 8*w && (flags == 0 || cp.BitLen() <= 8*w-3) {
						m := append([]byte{}, v...)
						copy(m[o:o+w], decBE(cp, w))
						m[o] |= flags
						add("coord-plus-p", m)
					}
				}
				for _, d := range []int64{1, -1} {
					cd := new(big.Int).Add(c, big.NewInt(d))
					cd.Mod(cd, p)
					m := append([]byte{}, v...)
					copy(m[o:o+w], decBE(cd, w))
					m[o] |= flags
					add("coord-off-by-one", m)
				}
				// the modulus itself and modulus-1 in this coordinate
				for _, d := range []int64{0, -1} {
					m := append([]byte{}, v...)
					copy(m[o:o+w], decBE(new(big.Int).Add(p, big.NewInt(d)), w))
					m[o] |= flags
					add("coord-modulus", m)
				}
			}
		}
		for r := 0; r < 8*reps+8; r++ {
			m := append([]byte{}, valid[1]...)
			for _, o := range offs {
				if o+w > len(m) {
					continue
				}
				c := new(big.Int).Mod(new(big.Int).SetBytes(rng.Bytes(w+8)), p)
				fl := m[o] & 0xe0
				copy(m[o:o+w], decBE(c, w))
				if g.Math[:3] == "bls" && o == 0 {
					m[o] |= fl
				}
			}
			add("random-coords-in-range", m)
		}
	}
	// group specific families
	switch g.Math {
	case "ed25519":
		for _, v := range valid {
			if len(v) != 32 {
				continue
			}
			// y + p where it still fits below 2^255; sign-bit flips
			n := kc.LeN(v)
			sign := new(big.Int).Rsh(n, 255)
			y := new(big.Int).Mod(n, new(big.Int).Lsh(big.NewInt(1), 255))
			yp := new(big.Int).Add(y, decEdP)
			if yp.BitLen() <= 255 {
				add("coord-plus-p", decLE(new(big.Int).Add(yp, new(big.Int).Lsh(sign, 255)), 32))
			}
			m := append([]byte{}, v...)
			m[31] ^= 0x80
			add("sign-flip", m)
		}
		// "-0": x = 0 with the sign bit set (y = 1 and y = p-1), non-canonical y = p, p+1 .. p+18, 2^255-1
		for _, y := range []*big.Int{big.NewInt(1), new(big.Int).Sub(decEdP, big.NewInt(1)), big.NewInt(0)} {
			add("minus-zero", decLE(new(big.Int).Add(y, new(big.Int).Lsh(big.NewInt(1), 255)), 32))
			add("plus-zero", decLE(y, 32))
		}
		for d := int64(0); d < 19; d++ {
			yp := new(big.Int).Add(decEdP, big.NewInt(d))
			add("y-geq-p", decLE(yp, 32))
			add("y-geq-p", decLE(new(big.Int).Add(yp, new(big.Int).Lsh(big.NewInt(1), 255)), 32))
		}
		// the eight torsion points (small order; on the curve, outside the prime-order subgroup)
		for _, h := range []string{
			"0100000000000000000000000000000000000000000000000000000000000000",
			"ecffffffffffffffffffffffffffffffffffffffffffffffffffffffffffff7f",
			"0000000000000000000000000000000000000000000000000000000000000000",
			"0000000000000000000000000000000000000000000000000000000000000080",
			"26e8958fc2b227b045c3f489f2ef98f0d5dfac05d3c63339b13802886d53fc05",
			"26e8958fc2b227b045c3f489f2ef98f0d5dfac05d3c63339b13802886d53fc85",
			"c7176a703d4dd84fba3c0b760d10670f2a2053fa2c39ccc64ec7fd7792ac037a",
			"c7176a703d4dd84fba3c0b760d10670f2a2053fa2c39ccc64ec7fd7792ac03fa"} {
			add("small-order", mustHex(h))
		}
		// near misses of the decoder's final comparison: for a y with no point (u/v a non-square) the candidate
		// root x satisfies v·x² = ±√-1·u, so the two values the decoder tests against zero are (±√-1 - 1)·u and
		// (±√-1 + 1)·u. Choose u so that one of them is a sparse value δ (a single bit, a multiple of 2^k with
		// the low words zero, a value confined to one word): a comparison that skips or folds away part of
		// the field element accepts such a y although nothing lies on the curve there.
		{
			P := decEdP
			rho := new(big.Int).Exp(big.NewInt(2), new(big.Int).Rsh(new(big.Int).Sub(P, big.NewInt(1)), 2), P)
			var deltas []*big.Int
			for _, k := range []uint{0, 1, 8, 25, 26, 51, 63, 64, 102, 128, 153, 191, 192, 200, 204, 224, 230, 248, 254} {
				deltas = append(deltas, new(big.Int).Lsh(big.NewInt(1), k))
				deltas = append(deltas, new(big.Int).Lsh(new(big.Int).SetUint64(rng.U64()>>2|1), k))
			}
			cnt := 0
			for _, d := range deltas {
				d = new(big.Int).Mod(d, P)
				for _, sg := range []int64{1, -1} {
					for _, off := range []int64{-1, 1} {
						f := new(big.Int).Mul(rho, big.NewInt(sg))
						f.Add(f, big.NewInt(off)).Mod(f, P)
						u := new(big.Int).Mul(d, new(big.Int).ModInverse(f, P))
						u.Mod(u, P)
						y := new(big.Int).ModSqrt(new(big.Int).Add(u, big.NewInt(1)), P)
						if y == nil {
							continue
						}
						for _, yy := range []*big.Int{y, new(big.Int).Sub(P, y)} {
							add("final-check-near-miss", decLE(yy, 32))
							add("final-check-near-miss", decLE(new(big.Int).Add(yy, new(big.Int).Lsh(big.NewInt(1), 255)), 32))
							cnt++
						}
					}
				}
			}
			_ = cnt
		}
		for r := 0; r < 16*reps+16; r++ {
			add("random-32", rng.Bytes(32))
		}
	case "p256":
		one := decBE(big.NewInt(1), 32)
		add("off-curve-1-1", decCat([]byte{4}, one, one))
		add("off-curve", decCat([]byte{4}, decBE(big.NewInt(0), 32), one))
		add("x-zero-y-sqrt-b", decCat([]byte{4}, decBE(big.NewInt(0), 32), decBE(new(big.Int).ModSqrt(decP256B, decP256P), 32)))
		for _, fb := range []byte{0, 1, 2, 3, 5, 6, 7, 0x84, 0xff} {
			if len(valid) > 1 {
				m := append([]byte{}, valid[1]...)
				m[0] = fb
				add("format-byte", m)
			}
			add("format-byte", decCat([]byte{fb}, decFill(64, 0)))
		}
		for r := 0; r < 8*reps+8; r++ {
			add("random-65", decCat([]byte{4}, rng.Bytes(64)))
		}
		// Curve points whose x is small enough that x+p still fits in 32 bytes (p is just below 2^256, so a
		// random point never has one): the unreduced encoding must be rejected, and if it is accepted the
		// value must still be usable (decUsePoint).
		cnt := 0
		for i := int64(0); cnt < 6+reps && i < 4000; i++ {
			x := big.NewInt(i)
			if i >= 40 {
				x = new(big.Int).Rsh(new(big.Int).SetBytes(rng.Bytes(32)), uint(33+rng.Intn(180)))
			}
			y2 := new(big.Int).Exp(x, big.NewInt(3), decP256P)
			y2.Sub(y2, new(big.Int).Mul(big.NewInt(3), x))
			y2.Add(y2, decP256B)
			y2.Mod(y2, decP256P)
			y := new(big.Int).ModSqrt(y2, decP256P)
			if y == nil {
				continue
			}
			cnt++
			if cnt%2 == 0 {
				y.Sub(decP256P, y)
			}
			add("small-x-valid", decCat([]byte{4}, decBE(x, 32), decBE(y, 32)))
			add("coord-plus-p", decCat([]byte{4}, decBE(new(big.Int).Add(x, decP256P), 32), decBE(y, 32)))
		}
	case "qr512":
		if qrP != nil {
			n := (qrP.BitLen() + 7) / 8
			for _, d := range []int64{-2, -1, 0, 1} {
				add("near-modulus", decBE(new(big.Int).Add(qrP, big.NewInt(d)), n))
			}
			for _, v := range []int64{0, 1, 2, 3, 4, 5, 9} {
				add("small", decBE(big.NewInt(v), n))
				add("small-short", big.NewInt(v).Bytes())
				add("small-long", decBE(big.NewInt(v), n+9))
			}
			for r := 0; r < 8*reps+8; r++ {
				v := new(big.Int).Mod(new(big.Int).SetBytes(rng.Bytes(n+8)), qrP)
				add("random-in-range", decBE(v, n)) // half of them non-residues
				sq := new(big.Int).Mul(v, v)
				add("random-square", decBE(sq.Mod(sq, qrP), n))
				add("random-square-long", decBE(sq, n+3))
			}
		}
	case "bls12381g1":
		c := decBlsG1Curve()
		for r := 0; r < 4*reps+4; r++ {
			P := c.randPoint(rng)
			add("wrong-subgroup", decBlsG1Compress(P))
			// uncompressed forms (never produced by kyber; CIRCL and gnark read them)
			add("uncompressed-wrong-subgroup", decCat(decBE(P.x, 48), decBE(P.y, 48)))
			add("uncompressed-off-curve", decCat(decBE(P.x, 48), decBE(new(big.Int).Add(P.y, big.NewInt(1)), 48)))
		}
		for _, v := range valid {
			// decompress with the oracle and hand out the uncompressed form
			if len(v) == 48 && v[0]&0x40 == 0 {
				xb := append([]byte{}, v...)
				xb[0] &= 0x1f
				x := new(big.Int).SetBytes(xb)
				rhs := new(big.Int).Exp(x, big.NewInt(3), decBlsP)
				rhs.Add(rhs, big.NewInt(4))
				if y := new(big.Int).ModSqrt(rhs.Mod(rhs, decBlsP), decBlsP); y != nil {
					if decLexLargestFp(y, decBlsP) != (v[0]&0x20 != 0) {
						y.Sub(decBlsP, y)
					}
					add("uncompressed-valid", decCat(decBE(x, 48), decBE(y, 48)))
					add("uncompressed-valid-long", decCat(decBE(x, 48), decBE(y, 48), rng.Bytes(5)))
				}
			}
		}
		add("uncompressed-zero", decFill(96, 0))
		add("uncompressed-infinity", decCat([]byte{0x40}, decFill(95, 0)))
		add("uncompressed-infinity-dirty", decCat([]byte{0x40}, decFill(94, 0), []byte{1}))
		for _, fb := range []byte{0x00, 0x20, 0x40, 0x60, 0x80, 0xa0, 0xc0, 0xe0} {
			add("flag-byte", decCat([]byte{fb}, decFill(47, 0)))
			m := rng.Bytes(48)
			m[0] = fb | (m[0] & 0x1f)
			add("flag-byte", m)
			add("flag-byte-one", decCat([]byte{fb}, decFill(46, 0), []byte{1}))
			add("flag-byte-long", decCat([]byte{fb}, decFill(48, 0)))
			add("flag-byte-long", decCat([]byte{fb}, decFill(94, 0)))
			add("flag-byte-long", decCat([]byte{fb}, decFill(95, 0)))
			add("flag-byte-long", decCat([]byte{fb}, decFill(100, 0)))
		}
	case "bls12381g2":
		c := decBlsG2Curve()
		for r := 0; r < 4*reps+4; r++ {
			add("wrong-subgroup", decBlsG2Compress(c.randPoint(rng)))
		}
		for _, fb := range []byte{0x00, 0x20, 0x40, 0x60, 0x80, 0xa0, 0xc0, 0xe0} {
			add("flag-byte", decCat([]byte{fb}, decFill(95, 0)))
			m := rng.Bytes(96)
			m[0] = fb | (m[0] & 0x1f)
			add("flag-byte", m)
			add("flag-byte-long", decCat([]byte{fb}, decFill(96, 0)))
			add("flag-byte-long", decCat([]byte{fb}, decFill(190, 0)))
			add("flag-byte-long", decCat([]byte{fb}, decFill(191, 0)))
			add("flag-byte-long", decCat([]byte{fb}, decFill(200, 0)))
		}
	case "bn254g2", "bn256g2":
		p, k := decBn254P, int64(9)
		if g.Math == "bn256g2" {
			p, k = decBn256P, 3
		}
		c := decBnTwist(p, k)
		for r := 0; r < 4*reps+4; r++ {
			P := c.randPoint(rng)
			add("wrong-subgroup", decCat(decBE(P.x.b, 32), decBE(P.x.a, 32), decBE(P.y.b, 32), decBE(P.y.a, 32)))
		}
	}
	return out
}
