package main

// C08, Ed25519 part: canonicity / small-order predicates, EdDSA sign byte-for-byte, verification under
// structured mutations (real sign/eddsa, real sign/schnorr on edwards25519, crypto/ed25519, Lean model).

import (
	"crypto/ed25519"
	"crypto/sha512"
	"encoding/hex"
	"fmt"
	"math/big"

	"go.dedis.ch/kyber/v4"
	"go.dedis.ch/kyber/v4/group/edwards25519"
	"go.dedis.ch/kyber/v4/sign/eddsa"
	"go.dedis.ch/kyber/v4/sign/schnorr"

	"verifharness/internal/dlgroup"
	"verifharness/internal/kc"
)

var edGroup = edwards25519.NewBlakeSHA256Ed25519()
var edL = dlgroup.L
var edP = new(big.Int).Sub(new(big.Int).Lsh(big.NewInt(1), 255), big.NewInt(19))

type edPointChecks interface {
	IsCanonical(b []byte) bool
	HasSmallOrder() bool
}
type edScalarChecks interface {
	IsCanonical(b []byte) bool
}

func sigMustHex(s string) []byte {
	b, err := hex.DecodeString(s)
	if err != nil {
		panic(err)
	}
	return b
}

// The five y values of points of order dividing 8 (canonical, sign bit clear).
var edWeakY = [][]byte{
	sigMustHex("0000000000000000000000000000000000000000000000000000000000000000"),
	sigMustHex("0100000000000000000000000000000000000000000000000000000000000000"),
	sigMustHex("26e8958fc2b227b045c3f489f2ef98f0d5dfac05d3c63339b13802886d53fc05"),
	sigMustHex("c7176a703d4dd84fba3c0b760d10670f2a2053fa2c39ccc64ec7fd7792ac037a"),
	sigMustHex("ecffffffffffffffffffffffffffffffffffffffffffffffffffffffffffff7f"),
}

func sigWithSign(b []byte) []byte {
	o := sigClone(b)
	o[31] |= 0x80
	return o
}

// edTorsion returns the 8 canonical encodings of the 8-torsion points (identity first) and a list of
// non-canonical encodings of torsion points ("-0" forms and y+p forms).
func edTorsion() (canon [][]byte, noncanon [][]byte) {
	canon = append(canon, edWeakY[1])                                             // O
	canon = append(canon, edWeakY[4])                                             // order 2
	canon = append(canon, edWeakY[0], sigWithSign(edWeakY[0]))                    // order 4
	canon = append(canon, edWeakY[2], sigWithSign(edWeakY[2]))                    // order 8
	canon = append(canon, edWeakY[3], sigWithSign(edWeakY[3]))                    // order 8
	noncanon = append(noncanon, sigWithSign(edWeakY[1]), sigWithSign(edWeakY[4])) // x = 0 with sign bit
	for _, y := range []int64{0, 1} {                                             // y + p still fits in 255 bits
		v := new(big.Int).Add(edP, big.NewInt(y))
		e := sigLE(v, 32)
		noncanon = append(noncanon, e, sigWithSign(e))
	}
	return
}

func edDecode(b []byte) kyber.Point {
	p := edGroup.Point()
	if err := p.UnmarshalBinary(b); err != nil {
		return nil
	}
	return p
}

func edEnc(p kyber.Point) []byte {
	b, _ := p.MarshalBinary()
	return b
}

func sigBoolStr(b bool) string {
	if b {
		return "true"
	}
	return "false"
}

// ---------------------------------------------------------------------------------------------
// predicates

func c08EdPredicates(c *kc.Ctx) {
	rng := c.Rng.Fork("edpred")
	b := &sigBatch{c: c}
	pt := edGroup.Point().(edPointChecks)
	sc := edGroup.Scalar().(edScalarChecks)
	two255 := new(big.Int).Lsh(big.NewInt(1), 255)
	two256 := new(big.Int).Lsh(big.NewInt(1), 256)

	// point.IsCanonical(bs) <=> len 32 and y(bs) < p
	var pin [][]byte
	addV := func(v *big.Int) {
		if v.Sign() >= 0 && v.Cmp(two256) < 0 {
			pin = append(pin, sigLE(v, 32))
		}
	}
	for d := int64(-40); d <= 40; d++ {
		addV(new(big.Int).Add(edP, big.NewInt(d)))
		addV(new(big.Int).Add(new(big.Int).Add(edP, two255), big.NewInt(d)))
		addV(new(big.Int).Add(two255, big.NewInt(d)))
		addV(new(big.Int).Add(two256, big.NewInt(d)))
		addV(big.NewInt(d))
	}
	// exactly one of the 32 bytes differs from the encoding of p / of 2^255-1 (all byte values at sampled positions)
	for _, basev := range []*big.Int{edP, new(big.Int).Sub(two255, big.NewInt(1)), new(big.Int).Sub(two256, big.NewInt(1))} {
		e := sigLE(basev, 32)
		for i := 0; i < 32; i++ {
			vals := []int{0, 1, 0x7e, 0x7f, 0x80, 0xec, 0xed, 0xee, 0xfe, 0xff}
			if c.Thorough() {
				vals = nil
				for v := 0; v < 256; v++ {
					vals = append(vals, v)
				}
			}
			for _, v := range vals {
				o := sigClone(e)
				o[i] = byte(v)
				pin = append(pin, o)
			}
		}
	}
	for i := 0; i < c.N(300, 5000); i++ {
		pin = append(pin, rng.Bytes(32))
	}
	for _, l := range []int{0, 1, 31, 33, 64} {
		pin = append(pin, bytesOf(l, 0xff), make([]byte, l))
	}
	for _, in := range pin {
		in := in
		want := len(in) == 32
		if want {
			y := kc.LeN(in)
			y.Mod(y, two255)
			want = y.Cmp(edP) < 0
		}
		got := kc.Recover(func() string { return sigBoolStr(pt.IsCanonical(in)) })
		bad := got != sigBoolStr(want)
		if bad {
			c.Violation("ed25519:point-iscanonical", fmt.Sprintf("point.IsCanonical(%x) = %s, y<p is %v", in, got, want), map[string]string{"bytes": kc.HexB(in)})
		}
		b.add("ptcanon", "sig ptcanon "+kc.HexB(in), got, kc.HexB(in), bad, nil)
	}

	// scalar.IsCanonical(sb) <=> len 32 and value < L
	var sin [][]byte
	addS := func(v *big.Int) {
		if v.Sign() >= 0 && v.Cmp(two256) < 0 {
			sin = append(sin, sigLE(v, 32))
		}
	}
	two252 := new(big.Int).Lsh(big.NewInt(1), 252)
	for d := int64(-40); d <= 40; d++ {
		addS(new(big.Int).Add(edL, big.NewInt(d)))
		addS(new(big.Int).Add(two252, big.NewInt(d)))
		addS(new(big.Int).Add(two256, big.NewInt(d)))
		addS(big.NewInt(d))
		for k := int64(2); k <= 15; k++ {
			addS(new(big.Int).Add(new(big.Int).Mul(edL, big.NewInt(k)), big.NewInt(d)))
		}
	}
	le := sigLE(edL, 32)
	for i := 0; i < 32; i++ {
		deltas := []int{-1, 1}
		if c.Thorough() {
			deltas = nil
			for v := -255; v <= 255; v++ {
				deltas = append(deltas, v)
			}
		}
		for _, d := range deltas {
			v := int(le[i]) + d
			if v < 0 || v > 255 || d == 0 {
				continue
			}
			o := sigClone(le)
			o[i] = byte(v)
			sin = append(sin, o)
			// and everything below that byte saturated the other way
			o2 := sigClone(o)
			for j := 0; j < i; j++ {
				if d < 0 {
					o2[j] = 0xff
				} else {
					o2[j] = 0
				}
			}
			sin = append(sin, o2)
		}
	}
	for i := 0; i < c.N(300, 5000); i++ {
		r := rng.Bytes(32)
		switch i % 4 {
		case 1:
			r[31] &= 0x1f
		case 2:
			r[31] = 0x10
			copy(r[16:31], le[16:31])
		}
		sin = append(sin, r)
	}
	for _, l := range []int{0, 1, 31, 33, 64} {
		sin = append(sin, bytesOf(l, 0xff), make([]byte, l))
	}
	for _, in := range sin {
		in := in
		want := len(in) == 32 && kc.LeN(in).Cmp(edL) < 0
		got := kc.Recover(func() string { return sigBoolStr(sc.IsCanonical(in)) })
		bad := got != sigBoolStr(want)
		if bad {
			c.Violation("ed25519:scalar-iscanonical", fmt.Sprintf("scalar.IsCanonical(%x) = %s, s<L is %v", in, got, want), map[string]string{"bytes": kc.HexB(in)})
		}
		b.add("sccanon", "sig sccanon "+kc.HexB(in), got, kc.HexB(in), bad, nil)
	}

	// HasSmallOrder(P) <=> 8•P = O, on torsion points (every encoding), random subgroup points and mixed-order points
	canon, noncanon := edTorsion()
	var hin [][]byte
	hin = append(hin, canon...)
	hin = append(hin, noncanon...)
	var tors []kyber.Point
	for _, e := range canon {
		p := edDecode(e)
		if p == nil {
			c.Unshown("ed25519:torsion-table", fmt.Sprintf("torsion encoding %x does not decode", e), nil)
			return
		}
		tors = append(tors, p)
	}
	for i := 0; i < c.N(12, 150); i++ {
		k := edGroup.Scalar().Pick(rng)
		P := edGroup.Point().Mul(k, nil)
		hin = append(hin, edEnc(P))
		hin = append(hin, edEnc(edGroup.Point().Add(P, tors[1+i%7])))
	}
	hin = append(hin, edEnc(edGroup.Point().Base()))
	eight := edGroup.Scalar().SetInt64(8)
	null := edGroup.Point().Null()
	for _, in := range hin {
		in := in
		P := edDecode(in)
		if P == nil {
			b.add("smallorder", "sig smallorder "+kc.HexB(in), "err:decode", kc.HexB(in), false, nil)
			continue
		}
		// 8•P by three doublings through Add (Mul takes the scalar mod L path; Add is the group law)
		d := edGroup.Point().Add(P, P)
		d = edGroup.Point().Add(d, d)
		d = edGroup.Point().Add(d, d)
		want := d.Equal(null)
		_ = eight
		got := kc.Recover(func() string { return sigBoolStr(P.(edPointChecks).HasSmallOrder()) })
		bad := got != sigBoolStr(want)
		if bad {
			c.Violation("ed25519:hassmallorder", fmt.Sprintf("HasSmallOrder(%x) = %s, 8P=O is %v", in, got, want), map[string]string{"bytes": kc.HexB(in)})
		}
		b.add("smallorder", "sig smallorder "+kc.HexB(in), got, kc.HexB(in), bad, nil)
	}
	b.run(nil)
}

// ---------------------------------------------------------------------------------------------
// EdDSA

type edKey struct {
	seed []byte
	e    *eddsa.EdDSA
	pub  []byte
	priv ed25519.PrivateKey
	a    *big.Int // clamped secret scalar
}

func edKeyFromSeed(c *kc.Ctx, seed []byte, path int) *edKey {
	k := &edKey{seed: sigClone(seed)}
	if path%2 == 0 {
		k.e = &eddsa.EdDSA{}
		buf := sigCat(seed, make([]byte, 32))
		if err := k.e.UnmarshalBinary(buf); err != nil {
			c.Violation("eddsa:unmarshal", "EdDSA.UnmarshalBinary failed: "+err.Error(), nil)
			return nil
		}
		// the caller's buffer is the caller's: it is reused for something else once the key is loaded
		for i := range buf {
			buf[i] ^= 0xa5
		}
	} else {
		k.e = eddsa.NewEdDSA(&sigFixedStream{buf: sigClone(seed), tail: kc.NewRng(1)})
	}
	k.pub = edEnc(k.e.Public)
	k.priv = ed25519.NewKeyFromSeed(seed)
	d := sha512.Sum512(seed)
	d[0] &= 0xf8
	d[31] &= 0x7f
	d[31] |= 0x40
	k.a = kc.LeN(d[:32])
	return k
}

func edChallenge(Rb, Ab, msg []byte) *big.Int {
	d := sha512.Sum512(sigCat(Rb, Ab, msg))
	h := kc.LeN(d[:])
	return h.Mod(h, edL)
}

func edMsgLens(c *kc.Ctx) []int {
	return []int{0, 1, 2, 3, 31, 32, 33, 47, 48, 63, 64, 65, 79, 80, 95, 96, 97, 111, 112, 127, 128, 129, 175, 176, 191, 192, 193, 255, 256, 1023, 1024, 4095, 4096}
}

type edV struct {
	kind       string
	pub        []byte
	msg        []byte
	sig        []byte
	mustAccept bool
	mustReject bool
}

// edEvaluate runs the three real verifiers on one triple, evaluates the property predicates, and
// (when model) queues the model lines.
func edEvaluate(c *kc.Ctx, b *sigBatch, v edV, model int) {
	kv := kc.Recover(func() string { return sigErrStr(eddsa.VerifyWithChecks(v.pub, v.msg, v.sig)) })
	sv := kc.Recover(func() string { return sigErrStr(schnorr.VerifyWithChecks(edGroup, v.pub, v.msg, v.sig)) })
	gv := "false"
	if len(v.pub) == ed25519.PublicKeySize {
		gv = kc.Recover(func() string { return sigBoolStr(ed25519.Verify(ed25519.PublicKey(v.pub), v.msg, v.sig)) })
	}
	rp := map[string]string{"kind": v.kind, "pub": kc.HexB(v.pub), "msg": kc.HexB(v.msg), "sig": kc.HexB(v.sig), "eddsa": kv, "schnorr": sv, "crypto/ed25519": gv}
	bad := false
	fail := func(key, what string) {
		bad = true
		c.Violation(key, what+fmt.Sprintf(" [%s] pub=%x msg=%s sig=%x", v.kind, v.pub, sigTrunc(kc.HexB(v.msg), 64), v.sig), rp)
	}
	if kv == "panic" || sv == "panic" || gv == "panic" {
		fail("eddsa:panic:"+v.kind, "verifier panicked")
	}
	if v.mustAccept {
		if kv != "ok" {
			fail("eddsa:honest-rejected", "eddsa.VerifyWithChecks rejects an honest signature")
		}
		if sv != "ok" {
			fail("schnorr-ed25519:honest-rejected", "schnorr.VerifyWithChecks(edwards25519) rejects an honest signature")
		}
		if gv != "true" {
			fail("eddsa:honest-rejected-by-go", "crypto/ed25519 rejects an honest signature")
		}
	}
	if v.mustReject {
		if kv == "ok" {
			fail("eddsa:accepts:"+v.kind, "eddsa.VerifyWithChecks accepts a tampered / non-canonical / small-order input")
		}
		if sv == "ok" {
			fail("schnorr-ed25519:accepts:"+v.kind, "schnorr.VerifyWithChecks(edwards25519) accepts a tampered / non-canonical / small-order input")
		}
	}
	if kv == "ok" && gv != "true" {
		fail("eddsa:accepts-but-go-rejects:"+v.kind, "eddsa.VerifyWithChecks accepts what crypto/ed25519 rejects")
	}
	if sv == "ok" && gv != "true" {
		fail("schnorr-ed25519:accepts-but-go-rejects:"+v.kind, "schnorr.VerifyWithChecks(edwards25519) accepts what crypto/ed25519 rejects")
	}
	c.Eval(3)
	c.CountKind("real:edverify:" + v.kind)
	key := fmt.Sprintf("%x|%x|%x", v.pub, sha512.Sum512(v.msg), v.sig)
	c.Nontrivial("edv|" + key)
	args := kc.HexB(v.pub) + " " + kc.HexB(v.msg) + " " + kc.HexB(v.sig)
	if model&1 != 0 {
		b.add("edverify:"+v.kind, "sig edverify "+args, kv, key, bad, rp)
	}
	if model&2 != 0 {
		b.add("goverify:"+v.kind, "sig goverify "+args, gv, key, bad, rp)
	}
	if model&4 != 0 {
		b.add("schnorr-ed-verify:"+v.kind, "sig schnorr-ed-verify "+args, sv, key, bad, rp)
	}
}

// edMutations lists the structured mutations of one honest (key, msg, sig).
func edMutations(c *kc.Ctx, rng *kc.Rng, k *edKey, other *edKey, msg, sig []byte, allBits bool) []edV {
	var out []edV
	rej := func(kind string, pub, m, s []byte) {
		out = append(out, edV{kind: kind, pub: pub, msg: m, sig: s, mustReject: true})
	}
	out = append(out, edV{kind: "honest", pub: k.pub, msg: msg, sig: sig, mustAccept: true})
	// every / sampled bit of sigma
	if allBits {
		for i := 0; i < 512; i++ {
			rej("sig-bit", k.pub, msg, sigFlip(sig, i))
		}
	} else {
		for _, i := range []int{0, 7, 8, 248, 254, 255, 256, 263, 504, 508, 509, 510, 511} {
			rej("sig-bit", k.pub, msg, sigFlip(sig, i))
		}
		for j := 0; j < 20; j++ {
			rej("sig-bit", k.pub, msg, sigFlip(sig, rng.Intn(512)))
		}
	}
	// R + T for every 8-torsion point T != O
	canon, noncanon := edTorsion()
	R := edDecode(sig[:32])
	A := edDecode(k.pub)
	for _, te := range canon[1:] {
		T := edDecode(te)
		rej("R+torsion", k.pub, msg, sigCat(edEnc(edGroup.Point().Add(R, T)), sig[32:]))
		rej("A+torsion", edEnc(edGroup.Point().Add(A, T)), msg, sig)
	}
	// s + kL while it fits in 256 bits
	s := kc.LeN(sig[32:])
	for kk := int64(1); kk <= 15; kk++ {
		v := new(big.Int).Add(s, new(big.Int).Mul(edL, big.NewInt(kk)))
		if v.BitLen() <= 256 {
			rej("s+kL", k.pub, msg, sigCat(sig[:32], sigLE(v, 32)))
		}
	}
	// -R, -A (sign bit), s -> L - s
	rej("R-negated", k.pub, msg, sigCat(sigFlip(sig[:32], 255), sig[32:]))
	rej("A-negated", sigFlip(k.pub, 255), msg, sig)
	rej("s-negated", k.pub, msg, sigCat(sig[:32], sigLE(new(big.Int).Mod(new(big.Int).Neg(s), edL), 32)))
	// non-canonical y for R / A when it fits (y + p < 2^255 only for y < 19): tried on whatever this signature has
	for _, part := range []int{0, 1} {
		src := sig[:32]
		if part == 1 {
			src = k.pub
		}
		y := kc.LeN(src)
		signBit := y.Bit(255)
		y.SetBit(y, 255, 0)
		if y.Cmp(big.NewInt(19)) < 0 {
			e := sigLE(new(big.Int).Add(y, edP), 32)
			e[31] |= byte(signBit << 7)
			if part == 0 {
				rej("R-noncanonical-y", k.pub, msg, sigCat(e, sig[32:]))
			} else {
				rej("A-noncanonical-y", e, msg, sig)
			}
		}
	}
	// message changes
	if len(msg) > 0 {
		rej("msg-bit", k.pub, sigFlip(msg, rng.Intn(8*len(msg))), sig)
		rej("msg-bit", k.pub, sigFlip(msg, 0), sig)
		rej("msg-truncated", k.pub, msg[:len(msg)-1], sig)
	}
	rej("msg-extended", k.pub, sigCat(msg, []byte{0}), sig)
	rej("msg-prefixed", k.pub, sigCat([]byte{0}, msg), sig)
	// wrong key / key bits
	rej("wrong-key", other.pub, msg, sig)
	if allBits {
		for i := 0; i < 256; i++ {
			rej("key-bit", sigFlip(k.pub, i), msg, sig)
		}
	} else {
		for _, i := range []int{0, 1, 7, 128, 254, 255} {
			rej("key-bit", sigFlip(k.pub, i), msg, sig)
		}
		for j := 0; j < 8; j++ {
			rej("key-bit", sigFlip(k.pub, rng.Intn(256)), msg, sig)
		}
	}
	// lengths
	rej("sig-len", k.pub, msg, sig[:63])
	rej("sig-len", k.pub, msg, sigCat(sig, []byte{0}))
	rej("sig-len", k.pub, msg, nil)
	rej("sig-len", k.pub, msg, sig[:32])
	rej("key-len", k.pub[:31], msg, sig)
	rej("key-len", sigCat(k.pub, []byte{0}), msg, sig)
	rej("key-len", nil, msg, sig)
	rej("sig-const", k.pub, msg, make([]byte, 64))
	rej("sig-const", k.pub, msg, bytesOf(64, 0xff))
	// swapped halves, R of another signature
	rej("sig-swapped", k.pub, msg, sigCat(sig[32:], sig[:32]))
	if os2, err := other.e.Sign(msg); err == nil {
		rej("R-of-other", k.pub, msg, sigCat(os2[:32], sig[32:]))
		rej("s-of-other", k.pub, msg, sigCat(sig[:32], os2[32:]))
	}

	// Equation-valid signatures that must still be rejected.
	// (a) R = O in each of its encodings, s = h·a: s•B = O + h•A holds.
	encO := append([][]byte{canon[0]}, noncanon[0])
	for _, e := range noncanon[2:] {
		if new(big.Int).Mod(new(big.Int).SetBit(kc.LeN(e), 255, 0), edP).Cmp(big.NewInt(1)) == 0 {
			encO = append(encO, e)
		}
	}
	for _, e := range encO {
		h := edChallenge(e, k.pub, msg)
		sv := new(big.Int).Mod(new(big.Int).Mul(h, k.a), edL)
		rej("R=identity-equation-valid", k.pub, msg, sigCat(e, sigLE(sv, 32)))
	}
	// (b) small-order public key T (every encoding), R = r•B, s = r, with r ground until h•T = O.
	allT := append(append([][]byte{}, canon...), noncanon...)
	for ti, te := range allT {
		T := edDecode(te)
		if T == nil {
			continue
		}
		for r := int64(1 + rng.Intn(1000)); ; r++ {
			rs := edGroup.Scalar().SetInt64(r)
			Rb := edEnc(edGroup.Point().Mul(rs, nil))
			h := edChallenge(Rb, te, msg)
			hs := edGroup.Scalar().SetBytes(sigLE(h, 32))
			if edGroup.Point().Mul(hs, T).Equal(edGroup.Point().Null()) {
				// note: Mul reduces nothing here (h < L); h•T = O iff ord(T) | h
				rej(fmt.Sprintf("small-order-key-equation-valid:%d", ti), te, msg, sigCat(Rb, sigLE(big.NewInt(r), 32)))
				break
			}
		}
	}
	// (c) mixed-order key A + T with h ≡ 0 (mod 8): equation-valid, key not of small order; the property
	// does not ask for rejection — only that the verifiers stay consistent (accept-implication, model).
	for _, te := range canon[1:] {
		T := edDecode(te)
		Am := edEnc(edGroup.Point().Add(A, T))
		for r := int64(1 + rng.Intn(1000)); ; r++ {
			rs := edGroup.Scalar().SetInt64(r)
			Rb := edEnc(edGroup.Point().Mul(rs, nil))
			h := edChallenge(Rb, Am, msg)
			if new(big.Int).Mod(h, big.NewInt(8)).Sign() == 0 {
				sv := new(big.Int).Mod(new(big.Int).Add(big.NewInt(r), new(big.Int).Mul(h, k.a)), edL)
				out = append(out, edV{kind: "mixed-order-key-equation-valid", pub: Am, msg: msg, sig: sigCat(Rb, sigLE(sv, 32))})
				break
			}
		}
	}
	// (e) mixed-order R' = r•B + T made by the signer, s = r + H(R',A,m)·a: satisfies only the COFACTORED equation
	// [8]s•B = [8]R' + [8]h•A. crypto/ed25519 (cofactorless) rejects it, so kyber must reject it too.
	for ti, te := range canon[1:] {
		T := edDecode(te)
		rs := edGroup.Scalar().SetInt64(int64(1000 + rng.Intn(1000000)))
		Rp := edGroup.Point().Add(edGroup.Point().Mul(rs, nil), T)
		Rb := edEnc(Rp)
		h := edChallenge(Rb, k.pub, msg)
		rv := kc.LeN(func() []byte { b, _ := rs.MarshalBinary(); return b }())
		sv := new(big.Int).Mod(new(big.Int).Add(rv, new(big.Int).Mul(h, k.a)), edL)
		rej(fmt.Sprintf("mixed-order-R-cofactored-only:%d", ti), k.pub, msg, sigCat(Rb, sigLE(sv, 32)))
	}
	// (d) small-order R = T with honest key: the equation fails anyway, but the small-order check must fire first
	for _, te := range allT {
		rej("small-order-R", k.pub, msg, sigCat(te, sig[32:]))
	}
	return out
}

var rfc8032Vectors = []struct{ seed, pub, msg, sig string }{
	{"9d61b19deffd5a60ba844af492ec2cc44449c5697b326919703bac031cae7f60", "d75a980182b10ab7d54bfed3c964073a0ee172f3daa62325af021a68f707511a", "",
		"e5564300c360ac729086e2cc806e828a84877f1eb8e5d974d873e065224901555fb8821590a33bacc61e39701cf9b46bd25bf5f0595bbe24655141438e7a100b"},
	{"4ccd089b28ff96da9db6c346ec114e0f5b8a319f35aba624da8cf6ed4fb8a6fb", "3d4017c3e843895a92b70aa74d1b7ebc9c982ccf2ec4968cc0cd55f12af4660c", "72",
		"92a009a9f0d4cab8720e820b5f642540a2b27b5416503f8fb3762223ebdb69da085ac1e43e15996e458f3613d0f11d8c387b2eaeb4302aeeb00d291612bb0c00"},
	{"c5aa8df43f9f837bedb7442f31dcb7b166d38535076f094b85ce3a2e0b4458f7", "fc51cd8e6218a1a38da47ed00230f0580816ed13ba3303ac5deb911548908025", "af82",
		"6291d657deec24024827e69c3abe01a30ce548a284743a445e3680d7db5ac3ac18ff9b538d16f290ae67f760984dc6594a7c15e9716ed28dc027beceea1ec40a"},
	{"833fe62409237b9d62ec77587520911e9a759cec1d19755b7da901b96dca3d42", "ec172b93ad5e563bf4932c70e1245034c35467ef2efd4d64ebf819683467e2bf",
		"ddaf35a193617abacc417349ae20413112e6fa4e89a97ea20a9eeee64b55d39a2192992a274fc1a836ba3c23a3feebbd454d4423643ce80e2a9ac94fa54ca49f",
		"dc2a4459e7369633a52b1bf277839a00201009a3efbf3ecb69bea2186c26b58909351fc9ac90b3ecfdfbc7c66431e0303dca179c138ac17ad9bef1177331a704"},
}

func c08EdDSA(c *kc.Ctx) {
	rng := c.Rng.Fork("eddsa")
	b := &sigBatch{c: c}

	// --- RFC 8032 §7.1 vectors through every implementation ---
	for i, v := range rfc8032Vectors {
		seed, msg := sigMustHex(v.seed), sigMustHex(v.msg)
		k := edKeyFromSeed(c, seed, i)
		if k == nil {
			continue
		}
		sg, err := k.e.Sign(msg)
		if err != nil || kc.HexB(sg) != v.sig || hex.EncodeToString(k.pub) != v.pub {
			c.Violation("eddsa:rfc8032-vector", fmt.Sprintf("sign/eddsa differs from RFC 8032 test vector %d: pub %x sig %x", i, k.pub, sg), v)
		}
		if gs := ed25519.Sign(k.priv, msg); kc.HexB(gs) != v.sig {
			c.Unshown("rfc8032-vector-constant", fmt.Sprintf("crypto/ed25519 differs from the typed-in RFC vector %d", i), v)
		}
		b.add("edsign:rfc-vector", "sig edsign "+kc.HexB(seed)+" "+kc.HexB(msg), v.pub+" "+v.sig, fmt.Sprint("rfc", i), false, v)
		b.add("edrfc:rfc-vector", "sig edrfc "+kc.HexB(seed)+" "+kc.HexB(msg), v.sig, fmt.Sprint("rfc", i), false, v)
	}

	// --- signing: sign/eddsa == crypto/ed25519 for every message length 0..4096 (real code only) ---
	nSeeds := c.N(2, 12)
	for si := 0; si < nSeeds; si++ {
		seed := rng.Bytes(32)
		switch si {
		case 0:
			seed = make([]byte, 32)
		case 1:
			seed = bytesOf(32, 0xff)
		}
		k := edKeyFromSeed(c, seed, si)
		if k == nil {
			continue
		}
		if !sigBytesEq(k.pub, k.priv.Public().(ed25519.PublicKey)) {
			c.Violation("eddsa:pubkey-differs-from-go", fmt.Sprintf("seed %x: public key %x, crypto/ed25519 %x", seed, k.pub, k.priv.Public()), map[string]string{"seed": kc.HexB(seed)})
		}
		for l := 0; l <= 4096; l++ {
			msg := rng.Bytes(l)
			s1, err := k.e.Sign(msg)
			s2, _ := k.e.Sign(msg)
			gs := ed25519.Sign(k.priv, msg)
			c.Eval(1)
			if err != nil || !sigBytesEq(s1, gs) || !sigBytesEq(s1, s2) {
				c.Violation("eddsa:sign-differs-from-go", fmt.Sprintf("seed %x len %d: sign/eddsa %x, again %x, crypto/ed25519 %x", seed, l, s1, s2, gs),
					map[string]string{"seed": kc.HexB(seed), "msg": kc.HexB(msg)})
				break
			}
			if l%64 == 0 || l < 8 {
				if kc.Recover(func() string { return sigErrStr(eddsa.Verify(k.e.Public, msg, s1)) }) != "ok" {
					c.Violation("eddsa:honest-rejected", fmt.Sprintf("seed %x len %d", seed, l), map[string]string{"seed": kc.HexB(seed), "msg": kc.HexB(msg)})
				}
			}
		}
		c.CountKindN("real:edsign-vs-go", 4097)
	}

	// --- signing: model vs sign/eddsa vs crypto/ed25519, byte for byte ---
	var lens []int
	if c.Thorough() {
		for l := 0; l <= 4096; l++ {
			lens = append(lens, l)
		}
	} else {
		lens = edMsgLens(c)
		for i := 0; i < 12; i++ {
			lens = append(lens, rng.Intn(700))
		}
	}
	for i, l := range lens {
		seed := rng.Bytes(32)
		if i%97 == 5 {
			seed = make([]byte, 32)
		}
		msg := rng.Bytes(l)
		k := edKeyFromSeed(c, seed, i)
		if k == nil {
			continue
		}
		sg, err := k.e.Sign(msg)
		gs := ed25519.Sign(k.priv, msg)
		bad := false
		if err != nil || !sigBytesEq(sg, gs) || !sigBytesEq(k.pub, k.priv.Public().(ed25519.PublicKey)) {
			bad = true
			c.Violation("eddsa:sign-differs-from-go", fmt.Sprintf("seed %x len %d: sign/eddsa %x, crypto/ed25519 %x", seed, l, sg, gs),
				map[string]string{"seed": kc.HexB(seed), "msg": kc.HexB(msg)})
		}
		b.add("edsign", "sig edsign "+kc.HexB(seed)+" "+kc.HexB(msg), kc.HexB(k.pub)+" "+kc.HexB(sg), fmt.Sprintf("%x/%d", seed, l), bad, nil)
		if i%8 == 0 {
			b.add("edrfc", "sig edrfc "+kc.HexB(seed)+" "+kc.HexB(msg), kc.HexB(gs), fmt.Sprintf("%x/%d", seed, l), bad, nil)
		}
	}

	// --- verification: structured mutations, real code + model ---
	nBase := c.N(3, 4)
	for bi := 0; bi < nBase; bi++ {
		seed := rng.Bytes(32)
		k := edKeyFromSeed(c, seed, bi)
		other := edKeyFromSeed(c, rng.Bytes(32), bi+1)
		if k == nil || other == nil {
			continue
		}
		msg := rng.Bytes([]int{0, 1, 32, 100, 129, 300}[bi%6])
		sg, err := k.e.Sign(msg)
		if err != nil {
			c.Violation("eddsa:sign-error", err.Error(), nil)
			continue
		}
		for vi, v := range edMutations(c, rng, k, other, msg, sg, c.Thorough()) {
			model := 1
			if c.Thorough() || vi%2 == 0 || v.kind != "sig-bit" && v.kind != "key-bit" {
				model |= 2
			}
			if c.Thorough() && vi%2 == 0 || vi%3 == 0 || v.kind != "sig-bit" && v.kind != "key-bit" && vi%2 == 0 {
				model |= 4
			}
			edEvaluate(c, b, v, model)
		}
	}
	// --- verification: many more honest signatures, every bit of sigma, real code only ---
	nWide := c.N(25, 150)
	for bi := 0; bi < nWide; bi++ {
		k := edKeyFromSeed(c, rng.Bytes(32), bi)
		other := edKeyFromSeed(c, rng.Bytes(32), bi)
		if k == nil || other == nil {
			continue
		}
		msg := rng.Bytes(rng.Intn(200))
		if bi%10 == 0 {
			msg = rng.Bytes(3000 + rng.Intn(1097))
		}
		sg, err := k.e.Sign(msg)
		if err != nil {
			continue
		}
		for _, v := range edMutations(c, rng, k, other, msg, sg, true) {
			edEvaluate(c, sigNilBatch, v, 0)
		}
	}
	// --- Schnorr signatures made by sign/schnorr on edwards25519 are EdDSA-valid; model of schnorr.Sign ---
	for i := 0; i < c.N(6, 60); i++ {
		x := edGroup.Scalar().Pick(rng)
		A := edGroup.Point().Mul(x, nil)
		msg := rng.Bytes(rng.Intn(150))
		st := rng.Fork(fmt.Sprint("schnorr-ed-k", i))
		st2 := *st
		kk := edGroup.Scalar().Pick(&st2) // the nonce Sign will pick first from the same stream
		suite := &sigSuite{Group: edGroup, rnd: st}
		sg, err := schnorr.Sign(suite, x, msg)
		if err != nil {
			c.Violation("schnorr-ed25519:sign-error", err.Error(), nil)
			continue
		}
		edEvaluate(c, b, edV{kind: "schnorr-honest", pub: edEnc(A), msg: msg, sig: sg, mustAccept: true}, 7)
		xb, _ := x.MarshalBinary()
		kb, _ := kk.MarshalBinary()
		// informational: depends on Sign drawing the nonce first from RandomStream
		want := kc.HexB(sg)
		if !sigBytesEq(edEnc(edGroup.Point().Mul(kk, nil)), sg[:32]) {
			c.CountKind("info:schnorr-nonce-not-first-draw")
			continue
		}
		b.add("schnorr-ed-sign", "sig schnorr-ed-sign "+kc.HexN(kc.LeN(xb))+" "+kc.HexN(kc.LeN(kb))+" "+kc.HexB(msg), want, kc.HexB(sg), false, nil)
	}
	b.run(sigSameVerdict)
}

// sigNilBatch: edEvaluate with model == 0 never touches the batch.
var sigNilBatch *sigBatch

func sigBytesEq(a, b []byte) bool { return string(a) == string(b) }
