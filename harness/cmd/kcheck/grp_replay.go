package main

// Replay of the cases recorded by C01, C02, C03, C05 and C18: re-executes the recorded input on the
// current tree (real code and model) and reports whether the failure is still there.

import (
	"encoding/json"
	"fmt"
	"os"
	"strings"

	"verifharness/internal/groups"
	"verifharness/internal/kc"
)

type replayFile struct {
	Property string          `json:"property"`
	Key      string          `json:"key"`
	What     string          `json:"what"`
	Replay   json.RawMessage `json:"replay"`
}

func init() { replayHook = tryReplay }

// tryReplay handles -replay for the group-program based checks (C01, C02, C03, C05, C18); other
// properties handle the flag themselves.
func tryReplay(c *kc.Ctx, prop string) bool {
	switch prop {
	case "C01", "C02", "C03", "C05", "C18":
	default:
		return false
	}
	b, err := os.ReadFile(c.ReplayFile)
	if err != nil {
		fmt.Fprintln(os.Stderr, "replay:", err)
		os.Exit(2)
	}
	var rf replayFile
	if err := json.Unmarshal(b, &rf); err != nil {
		fmt.Fprintln(os.Stderr, "replay:", err)
		os.Exit(2)
	}
	var m map[string]any
	json.Unmarshal(rf.Replay, &m)
	str := func(k string) string {
		if v, ok := m[k].(string); ok {
			return v
		}
		return ""
	}
	fmt.Printf("replaying %s (%s)\n", rf.Key, c.ReplayFile)
	still := false
	switch {
	case str("program") != "" && str("group") != "":
		g := groups.ByName(str("group"))
		if g == nil {
			fmt.Println("unknown group", str("group"))
			os.Exit(2)
		}
		p := parseProg(str("program"))
		af, _, ret := runAliased(g, p)
		ff, _ := runProg(g, p, false, false)
		fmt.Println("in-place :", af)
		fmt.Println("fresh    :", ff)
		if len(ret) > 0 {
			fmt.Println("receiver differs from returned value at:", ret)
		}
		still = af != ff || len(ret) > 0
		if g.Grp != "" && !hasOp(p, "pick") {
			out := c.Model([]string{"grp " + g.Grp + " " + modelText(p)})
			fmt.Println("model    :", out[0])
			still = still || out[0] != ff
		}
	case str("line") != "":
		out := c.Model([]string{str("line")})
		fmt.Println("line :", str("line"))
		fmt.Println("model:", out[0])
		fmt.Println("recorded implementation output:", str("got")+str("impl")+str("impl_out"))
		still = out[0] != str("got") && str("got") != ""
	case str("law") != "":
		g := groups.ByName(str("group"))
		a, _ := newBig(str("a"))
		bb, _ := newBig(str("b"))
		fails := checkLaws(g, a, bb, mustHex(str("P")), mustHex(str("Q")), mustHex(str("R")))
		for _, f := range fails {
			fmt.Printf("law fails: %s: %s\n", f.Law, f.Got)
		}
		still = len(fails) > 0
	default:
		fmt.Println("this replay file has no re-executable input; recorded description:")
		fmt.Println(string(rf.Replay))
		os.Exit(0)
	}
	if still {
		fmt.Printf("VIOLATION property=%s replay=%s\n", c.Prop, c.ReplayFile)
		os.Exit(1)
	}
	fmt.Println("not reproduced on the current tree")
	os.Exit(0)
	return true
}

func parseProg(s string) prog {
	var p prog
	for _, t := range strings.Split(s, ";") {
		if t == "" {
			continue
		}
		eq := strings.Index(t, "=")
		st := stmt{dst: t[:eq]}
		rhs := t[eq+1:]
		if i := strings.Index(rhs, ":"); i >= 0 {
			st.op = rhs[:i]
			arg := rhs[i+1:]
			switch st.op {
			case "const", "dec", "setbytes", "pick":
				st.lit = arg
			default:
				st.args = strings.Split(arg, ",")
			}
		} else {
			st.op = rhs
		}
		p.stmts = append(p.stmts, st)
	}
	return p
}
