package main

// C09 — BLS, threshold BLS, BDN and CoSi multi-signatures verify iff honestly formed.
//
// Correspondence with the Lean models Proto/Bls.lean, Proto/Mask.lean, Proto/Cosi.lean (theorems in
// Props/C09.lean) on the mock discrete-log suite (exact) and on the five real pairing suites, both
// group assignments. Every case also evaluates the property's own predicate on the real code, so a
// failing input is found without the model.
//
// Discrete logs on real suites: key-group points are built as x·B from scalars the harness chose.
// Signature-group points are built as s·H(m); the model's oracle value for H(m) is 1 for the
// scenario's main message and an independent random value for any other message (H_RO: hash points of
// distinct messages are independent) — verdicts do not depend on the value.

import (
	"fmt"
	"math/big"

	"go.dedis.ch/kyber/v4"
	"go.dedis.ch/kyber/v4/share"
	"go.dedis.ch/kyber/v4/sign"
	"go.dedis.ch/kyber/v4/sign/bdn"
	"go.dedis.ch/kyber/v4/sign/bls"
	"go.dedis.ch/kyber/v4/sign/tbls"

	"verifharness/internal/dlgroup"
	"verifharness/internal/kc"
)

type blsSide struct {
	env        *blsEnv
	sg         string // "g1" | "g2": the group carrying signatures
	name       string
	sigG, keyG kyber.Group
	bls        sign.Scheme
	tbls       sign.ThresholdScheme
	bdn        *bdn.Scheme
	q          *big.Int
}

func blsSides(envs []*blsEnv) []*blsSide {
	var all []*blsSide
	for _, e := range envs {
		all = append(all,
			&blsSide{env: e, sg: "g1", name: e.name + "/sigG1", sigG: e.suite.G1(), keyG: e.suite.G2(), q: e.q,
				bls: bls.NewSchemeOnG1(e.suite), tbls: tbls.NewThresholdSchemeOnG1(e.suite), bdn: bdn.NewSchemeOnG1(e.suite)},
			&blsSide{env: e, sg: "g2", name: e.name + "/sigG2", sigG: e.suite.G2(), keyG: e.suite.G1(), q: e.q,
				bls: bls.NewSchemeOnG2(e.suite), tbls: tbls.NewThresholdSchemeOnG2(e.suite), bdn: bdn.NewSchemeOnG2(e.suite)})
	}
	// a group assignment is supported only if the signature group can hash to a point (bn256's G2 cannot)
	var out []*blsSide
	for _, sd := range all {
		if _, ok := sd.sigG.Point().(kyber.HashablePoint); ok {
			out = append(out, sd)
		}
	}
	return out
}

// blsMsg is a message with its hash point and the model's oracle value for it.
type blsMsg struct {
	m []byte
	H kyber.Point
	h *big.Int
}

func (sd *blsSide) msg(m []byte, main bool, rng *kc.Rng) *blsMsg {
	H := sd.sigG.Point().(kyber.HashablePoint).Hash(m)
	var h *big.Int
	switch {
	case sd.env.mock != nil:
		h = dlgroup.Log(H)
	case main:
		h = big.NewInt(1)
	default:
		h = new(big.Int).Add(big.NewInt(2), new(big.Int).SetBytes(rng.Bytes(16)))
	}
	return &blsMsg{m: m, H: H.Clone(), h: h}
}

// sigPointOf converts a model value (discrete log in the units of main message mm) to a point.
func (sd *blsSide) sigPointOf(v *big.Int, mm *blsMsg) kyber.Point {
	if sd.env.mock != nil {
		return dlgroup.FromLog(sd.sigG, v)
	}
	return blsMul(sd.sigG, sd.q, v, mm.H)
}

// convSig maps a model output "ok:<log>" to "ok:<point bytes>" (other outputs unchanged).
func (sd *blsSide) convSig(mm *blsMsg) func(string) string {
	return func(o string) string {
		if len(o) > 3 && o[:3] == "ok:" {
			v, ok := new(big.Int).SetString(o[3:], 16)
			if !ok {
				return o
			}
			return "ok:" + blsHex(sd.sigPointOf(v, mm))
		}
		return o
	}
}

func (sd *blsSide) convKey(o string) string {
	if len(o) > 3 && o[:3] == "ok:" {
		v, ok := new(big.Int).SetString(o[3:], 16)
		if !ok {
			return o
		}
		return "ok:" + blsHex(blsMulBase(sd.keyG, sd.q, v))
	}
	return o
}

// decodeSig tries to unmarshal signature bytes; for the mock suite it also returns the logarithm.
func (sd *blsSide) decodeSig(b []byte) (kyber.Point, bool) {
	p, ok, _ := sd.decodeSig3(b)
	return p, ok
}

// decodeSig3 additionally reports that UnmarshalBinary panicked on the bytes (C04's finding on the
// circl back-end: flag byte 0x40 makes CIRCL's SetBytes slice beyond the buffer).
func (sd *blsSide) decodeSig3(b []byte) (kyber.Point, bool, bool) {
	p := sd.sigG.Point()
	r := kc.Recover(func() string {
		if p.UnmarshalBinary(b) != nil {
			return "err"
		}
		return "ok"
	})
	return p, r == "ok", r == "panic"
}

// keyDecodePanic: a signature / partial whose bytes make the signature group's UnmarshalBinary panic
// takes Verify / VerifyPartial / Recover down with it.
func (sd *blsSide) keyDecodePanic() string {
	return sd.env.name + ".Point.UnmarshalBinary/panics-on-malformed-signature-bytes"
}

func blsErrStr(err error) string {
	if err != nil {
		return "false"
	}
	return "true"
}

// ---------------------------------------------------------------------------------------------
// plain BLS

func c09Bls(c *kc.Ctx, sd *blsSide, rng *kc.Rng, b *blsBatch, iters int) {
	q, qh := sd.q, kc.HexN(sd.q)
	for it := 0; it < iters; it++ {
		x := rng.BigBelow(q)
		mm := sd.msg(rng.Bytes(rng.Intn(40)), true, rng)
		xs := blsScalar(sd.keyG, q, x)
		var sig []byte
		got := kc.Recover(func() string {
			s, err := sd.bls.Sign(xs, mm.m)
			if err != nil {
				return "e"
			}
			sig = s
			return "ok:" + fmt.Sprintf("%x", s)
		})
		honest := blsMul(sd.sigG, q, x, mm.H) // x·H(m) through the group API, independent of Sign
		predSign := got == "ok:"+blsHex(honest)
		if !predSign {
			blsViolation(c, "bls.Sign/not-x-times-H", fmt.Sprintf("%s: Sign(x,m) != x·H(m): %s", sd.name, got), map[string]string{"side": sd.name, "x": kc.HexN(x), "msg": kc.HexB(mm.m)})
		}
		b.expect(sd.name+":bls-sign", fmt.Sprintf("c09 bls sign %s %s %s", qh, kc.HexN(x), kc.HexN(mm.h)), got, predSign, func(o string) string { return sd.convSig(mm)("ok:" + o) })
		if sig == nil {
			continue
		}
		// verification variants: (key log, message, signature bytes, signature log or nil)
		type vcase struct {
			tag  string
			xk   *big.Int
			m    *blsMsg
			sig  []byte
			slog *big.Int
		}
		x2 := rng.BigBelow(q)
		m2 := sd.msg(append(append([]byte{}, mm.m...), byte(it)), false, rng)
		s2 := rng.BigBelow(q)
		cases := []vcase{
			{"honest", x, mm, sig, blsMulq(q, x, mm.h)},
			{"wrong-key", x2, mm, sig, blsMulq(q, x, mm.h)},
			{"wrong-msg", x, m2, sig, blsMulq(q, x, mm.h)},
			{"other-sig", x, mm, blsPB(blsMul(sd.sigG, q, s2, mm.H)), blsMulq(q, s2, mm.h)},
			{"identity-sig", x, mm, blsPB(sd.sigG.Point().Null()), big.NewInt(0)},
			{"neg-sig", x, mm, blsPB(sd.sigG.Point().Neg(honest)), blsModq(q, new(big.Int).Neg(blsMulq(q, x, mm.h)))},
			{"sig-for-other-msg", x, mm, blsPB(blsMul(sd.sigG, q, x, m2.H)), blsMulq(q, x, m2.h)},
			{"truncated", x, mm, sig[:len(sig)-1-rng.Intn(len(sig)-1)], nil},
			{"extended", x, mm, append(append([]byte{}, sig...), byte(rng.Intn(256))), nil},
			{"empty", x, mm, []byte{}, nil},
			{"garbage", x, mm, rng.Bytes(len(sig)), nil},
		}
		for _, vc := range cases {
			vc := vc
			Xk := blsMulBase(sd.keyG, q, vc.xk)
			pt, dec, decPanic := sd.decodeSig3(vc.sig)
			slog := vc.slog
			if slog == nil && dec {
				if sd.env.mock == nil {
					continue // random bytes that decode on a real suite: logarithm unknown, skip
				}
				slog = dlgroup.Log(pt)
			}
			if !dec {
				slog = nil
			}
			verdict := kc.Recover(func() string { return blsErrStr(sd.bls.Verify(Xk, vc.m.m, vc.sig)) })
			// property predicate: accepted exactly when the bytes decode to xk·H(m)
			want := dec && pt.Equal(blsMul(sd.sigG, q, vc.xk, vc.m.H))
			pred := verdict == fmt.Sprint(want)
			if !pred {
				var sp kyber.Point
				if dec {
					sp = pt
				}
				vk := sd.idKey("bls.Verify/"+vc.tag, sp, Xk)
				if verdict == "panic" && decPanic {
					vk = sd.keyDecodePanic()
				}
				blsViolation(c, vk, fmt.Sprintf("%s: Verify = %s but signature %s x·H(m)", sd.name, verdict, map[bool]string{true: "is", false: "is not"}[want]),
					map[string]string{"side": sd.name, "case": vc.tag, "x": kc.HexN(vc.xk), "msg": kc.HexB(vc.m.m), "sig": kc.HexB(vc.sig)})
			}
			sl := "x"
			if slog != nil {
				sl = kc.HexN(slog)
			}
			line := fmt.Sprintf("c09 bls verify %s %s %s %s %s", qh, sd.sg, kc.HexN(vc.xk), kc.HexN(vc.m.h), sl)
			b.expect(sd.name+":bls-verify-"+vc.tag, line, verdict, pred, nil)
			if vc.xk.Sign() != 0 && vc.m.h.Sign() != 0 {
				c.Nontrivial(fmt.Sprintf("%s|verify|%s|%s|%x|%x", sd.name, vc.tag, kc.HexN(vc.xk), vc.m.m, vc.sig))
			}
		}
		// the caller's message buffer is reused: verify m, overwrite the same slice with another message of
		// the same length, verify again with the signature on m ("fails for any other message")
		if len(mm.m) > 0 {
			buf := append([]byte{}, mm.m...)
			other := append([]byte{}, mm.m...)
			other[rng.Intn(len(other))] ^= byte(1 + rng.Intn(255))
			om := sd.msg(other, false, rng)
			Xh := blsMulBase(sd.keyG, q, x)
			v1 := kc.Recover(func() string { return blsErrStr(sd.bls.Verify(Xh, buf, sig)) })
			copy(buf, other)
			v2 := kc.Recover(func() string { return blsErrStr(sd.bls.Verify(Xh, buf, sig)) })
			c.Eval(2)
			// the signature x·H(m) is valid for the other message exactly when x·H(other) is the same point (x = 0)
			want2 := fmt.Sprint(honest.Equal(blsMul(sd.sigG, q, x, om.H)))
			if v1 != "true" || v2 != want2 {
				blsViolation(c, "bls.Verify/reused-message-buffer", fmt.Sprintf("%s: Verify(m)=%s, then Verify of another message written into the same buffer = %s", sd.name, v1, v2),
					map[string]string{"side": sd.name, "x": kc.HexN(x), "msg": kc.HexB(mm.m), "other": kc.HexB(other), "sig": kc.HexB(sig)})
			}
		}
		if it < 2 {
			c.Sample(map[string]string{"side": sd.name, "kind": "bls", "x": kc.HexN(x), "msg": kc.HexB(mm.m), "sig": kc.HexB(sig)})
		}
	}
}

// ---------------------------------------------------------------------------------------------
// threshold BLS

// tEntry is one element of the list handed to Recover, with what the harness knows about it.
type tEntry struct {
	tag      string
	bytes    []byte
	idx      int      // -1: fewer than two bytes
	vlog     *big.Int // nil: value does not unmarshal
	valid    bool     // honestly formed partial for its index: decodes and equals f(idx+1)·H(m)
	decPanic bool     // UnmarshalBinary panics on the value bytes
}

func (e *tEntry) model() string {
	i, v := "x", "x"
	if e.idx >= 0 {
		i = fmt.Sprintf("%x", e.idx)
	}
	if e.vlog != nil {
		v = kc.HexN(e.vlog)
	}
	return i + ":" + v
}

type tblsScn struct {
	sd     *blsSide
	t, n   int
	coeffs []*big.Int
	poly   *share.PriPoly
	pub    *share.PubPoly
	mm     *blsMsg
	m2     *blsMsg
	parts  [][]byte // honest partials of shares 0..n-1 produced by tbls.Sign
	group  []byte   // BLS signature of the group secret
}

func (s *tblsScn) shareLog(idx int) *big.Int {
	x := big.NewInt(int64(idx) + 1)
	acc := new(big.Int)
	for j := len(s.coeffs) - 1; j >= 0; j-- {
		acc = blsAddq(s.sd.q, blsMulq(s.sd.q, acc, x), s.coeffs[j])
	}
	return acc
}

func blsIdxPrefix(idx int) []byte { return []byte{byte(idx >> 8), byte(idx)} }

// finish fills idx / vlog / valid of an entry from its bytes (and the known logarithm, if any).
func (s *tblsScn) finish(e *tEntry, known *big.Int) (*tEntry, bool) {
	sd := s.sd
	e.idx = -1
	if len(e.bytes) >= 2 {
		e.idx = int(e.bytes[0])<<8 | int(e.bytes[1])
		pt, dec, dp := sd.decodeSig3(e.bytes[2:])
		e.decPanic = dp
		if dec {
			switch {
			case sd.env.mock != nil:
				e.vlog = dlgroup.Log(pt)
			case known != nil:
				if e.tag != "other-message" && !pt.Equal(blsMul(sd.sigG, sd.q, known, s.mm.H)) {
					return nil, false // decoded to something else than constructed (lenient decoder)
				}
				e.vlog = known
			default:
				return nil, false // decodes on a real suite with unknown logarithm
			}
			want := sd.sigG.Point().Mul(s.poly.Eval(uint32(e.idx)).V, s.mm.H)
			e.valid = pt.Equal(want)
		}
	}
	return e, true
}

func (s *tblsScn) entry(kind int, rng *kc.Rng) *tEntry {
	sd, q := s.sd, s.sd.q
	for {
		i := rng.Intn(s.n)
		var e *tEntry
		var known *big.Int
		switch kind {
		case 0: // honest partial
			e, known = &tEntry{tag: "valid", bytes: s.parts[i]}, blsMulq(q, s.shareLog(i), s.mm.h)
		case 1: // honest partial for an index outside 0..n-1
			idx := []int{s.n, s.n + 1 + rng.Intn(5), 255, 256, 65535}[rng.Intn(5)]
			known = blsMulq(q, s.shareLog(idx), s.mm.h)
			e = &tEntry{tag: "valid-high-index", bytes: append(blsIdxPrefix(idx), blsPB(blsMul(sd.sigG, q, s.shareLog(idx), s.mm.H))...)}
		case 2: // right index, wrong value
			r := rng.BigBelow(q)
			known = blsMulq(q, r, s.mm.h)
			e = &tEntry{tag: "wrong-value", bytes: append(blsIdxPrefix(i), blsPB(blsMul(sd.sigG, q, r, s.mm.H))...)}
		case 3: // value of another share under this index
			j := (i + 1 + rng.Intn(s.n)) % s.n
			known = blsMulq(q, s.shareLog(j), s.mm.h)
			e = &tEntry{tag: "wrong-index", bytes: append(blsIdxPrefix(i), s.parts[j][2:]...)}
		case 4: // partial on another message
			known = blsMulq(q, s.shareLog(i), s.m2.h)
			e = &tEntry{tag: "other-message", bytes: append(blsIdxPrefix(i), blsPB(blsMul(sd.sigG, q, s.shareLog(i), s.m2.H))...)}
		case 5: // truncated / extended
			p := s.parts[i]
			cut := []int{0, 1, 2, 3, len(p) - 1, len(p) / 2}[rng.Intn(6)]
			if rng.Intn(5) == 0 {
				e, known = &tEntry{tag: "extended", bytes: append(append([]byte{}, p...), 0)}, blsMulq(q, s.shareLog(i), s.mm.h)
			} else {
				e = &tEntry{tag: "truncated", bytes: append([]byte{}, p[:cut]...)}
			}
		case 6: // garbage value
			e = &tEntry{tag: "garbage", bytes: append(blsIdxPrefix(i), rng.Bytes(len(s.parts[i])-2)...)}
		case 7: // identity point
			known = big.NewInt(0)
			e = &tEntry{tag: "identity", bytes: append(blsIdxPrefix(i), blsPB(sd.sigG.Point().Null())...)}
		default: // negated honest value
			known = blsModq(q, new(big.Int).Neg(blsMulq(q, s.shareLog(i), s.mm.h)))
			neg := sd.sigG.Point().Neg(blsMul(sd.sigG, q, s.shareLog(i), s.mm.H))
			e = &tEntry{tag: "negated", bytes: append(blsIdxPrefix(i), blsPB(neg)...)}
		}
		if e, ok := s.finish(e, known); ok {
			return e
		}
	}
}

func (s *tblsScn) honest(i int) *tEntry {
	e, _ := s.finish(&tEntry{tag: "valid", bytes: s.parts[i]}, blsMulq(s.sd.q, s.shareLog(i), s.mm.h))
	return e
}

const keyTblsDup = "tbls.Recover/duplicate-partials-counted-toward-t"

// keyCirclIdentity: kyber's circl suite answers ValidatePairing = true whenever one of the two G1
// operands is the identity (CIRCL's ProdPairFrac normalises all G1 inputs with one shared inversion).
const keyCirclIdentity = "circl.ValidatePairing/identity-G1-operand-accepted"

// idKey returns keyCirclIdentity instead of `key` when the failing call reached circl's
// ValidatePairing with an identity G1 operand: the signature point (signatures on G1) or the public
// key (signatures on G2).
func (sd *blsSide) idKey(key string, sigPt, keyPt kyber.Point) string {
	if sd.env.name != "circl" {
		return key
	}
	if sd.sg == "g1" && sigPt != nil && sigPt.Equal(sd.sigG.Point().Null()) {
		return keyCirclIdentity
	}
	if sd.sg == "g2" && keyPt != nil && keyPt.Equal(sd.keyG.Point().Null()) {
		return keyCirclIdentity
	}
	return key
}

const keyBdnOwn = "bdn.NewMask/own-key-mask-has-no-coefficients"

// recoverCase runs Recover on the list, evaluates the property predicate and queues the model line.
func (s *tblsScn) recoverCase(c *kc.Ctx, b *blsBatch, tag string, list []*tEntry) {
	sd := s.sd
	sigs := make([][]byte, len(list))
	var models, tags []string
	distinct := map[int]bool{}
	for i, e := range list {
		sigs[i] = e.bytes
		models = append(models, e.model())
		tags = append(tags, e.tag)
		if e.valid {
			distinct[e.idx] = true
		}
	}
	var res []byte
	got := kc.Recover(func() string {
		r, err := sd.tbls.Recover(s.pub, s.mm.m, sigs, uint32(s.t), uint32(s.n))
		if err != nil {
			return "e"
		}
		res = r
		return fmt.Sprintf("ok:%x", r)
	})
	enough := len(distinct) >= s.t
	pred := true
	// an identity-valued entry (relevant for the circl finding: such a partial is accepted as valid)
	var idPt, idKey kyber.Point
	for _, e := range list {
		if e.vlog != nil && e.vlog.Sign() == 0 {
			idPt = sd.sigG.Point().Null()
		}
		if e.idx >= 0 && s.shareLog(e.idx).Sign() == 0 { // public share X_idx is the identity
			idKey = sd.keyG.Point().Null()
		}
	}
	replay := map[string]any{"side": sd.name, "t": s.t, "n": s.n, "coeffs": blsHexList(s.coeffs), "msg": kc.HexB(s.mm.m), "entries": tags, "sigs": blsHexBytesList(sigs), "result": got}
	switch {
	case enough && got == "e":
		pred = false
		// cause analysis: is a duplicate index among the first t valid entries (the as-coded loop)?
		seen, cnt, dup := map[int]bool{}, 0, false
		for _, e := range list {
			if e.valid && cnt < s.t {
				if seen[e.idx] {
					dup = true
				}
				seen[e.idx] = true
				cnt++
			}
		}
		key := "tbls.Recover/refuses-t-valid-distinct-partials"
		if dup {
			key = keyTblsDup
		}
		blsViolation(c, sd.idKey(key, idPt, idKey), fmt.Sprintf("%s: Recover fails although %d valid partials with distinct indices are present (t=%d): %v", sd.name, len(distinct), s.t, tags), replay)
	case got == "panic":
		pred = false
		k := "tbls.Recover/panic"
		for _, e := range list {
			if e.decPanic {
				k = sd.keyDecodePanic()
			}
		}
		blsViolation(c, k, sd.name+": Recover panics", replay)
	case enough:
		if fmt.Sprintf("%x", res) != fmt.Sprintf("%x", s.group) {
			pred = false
			blsViolation(c, sd.idKey("tbls.Recover/not-the-group-signature", idPt, idKey), sd.name+": recovered signature differs from the signature under the group secret", replay)
		} else if sd.tbls.VerifyRecovered(s.pub.Commit(), s.mm.m, res) != nil {
			pred = false
			blsViolation(c, "tbls.VerifyRecovered/rejects-recovered", sd.name+": recovered signature does not verify under the group key", replay)
		}
	case got != "e":
		pred = false
		blsViolation(c, sd.idKey("tbls.Recover/accepts-fewer-than-t", idPt, idKey), fmt.Sprintf("%s: Recover returns %s with only %d valid distinct partials (t=%d)", sd.name, got, len(distinct), s.t), replay)
	}
	line := fmt.Sprintf("c09 bls recover %s %s %s %s %x %s", kc.HexN(sd.q), sd.sg, blsHexList(s.coeffs), kc.HexN(s.mm.h), s.t, blsJoinOr(models, ",", "-"))
	conv := sd.convSig(s.mm)
	b.add(line, func(out string) {
		c.CountKind(sd.name + ":tbls-recover-" + tag)
		var asCoded, fixed string
		fmt.Sscanf(out, "%s %s", &asCoded, &fixed)
		asCoded, fixed = conv(asCoded), conv(fixed)
		switch {
		case got == asCoded:
			c.CountKind("tbls-recover-matches-model-as-coded")
		case got == fixed:
			c.CountKind("tbls-recover-matches-model-with-repair")
		default:
			c.Disagree(line, got, asCoded+" | "+fixed, "tbls-recover")
			c.DisChecked(1)
			if pred {
				c.Unshown("correspondence:tbls-recover", "model and implementation disagree on Recover although the predicate holds: "+line+" -> "+got, replay)
			}
		}
	})
	if len(distinct) > 0 {
		c.Nontrivial(fmt.Sprintf("%s|recover|%d|%d|%v|%x", sd.name, s.t, s.n, tags, sigs))
	}
}

func blsHexBytesList(l [][]byte) []string {
	out := make([]string, len(l))
	for i, b := range l {
		out[i] = kc.HexB(b)
	}
	return out
}

func newTblsScn(sd *blsSide, t, n int, rng *kc.Rng) *tblsScn {
	q := sd.q
	s := &tblsScn{sd: sd, t: t, n: n}
	secret := rng.BigBelow(q)
	s.poly = share.NewPriPoly(sd.keyG, uint32(t), blsScalar(sd.keyG, q, secret), rng.Fork("poly"))
	for _, cf := range s.poly.Coefficients() {
		s.coeffs = append(s.coeffs, blsBig(cf))
	}
	s.pub = s.poly.Commit(sd.keyG.Point().Base())
	s.mm = sd.msg(rng.Bytes(1+rng.Intn(24)), true, rng)
	s.m2 = sd.msg(append([]byte("other:"), s.mm.m...), false, rng)
	for _, sh := range s.poly.Shares(uint32(n)) {
		p, err := sd.tbls.Sign(sh, s.mm.m)
		if err != nil {
			panic(err)
		}
		s.parts = append(s.parts, p)
	}
	g, err := sd.bls.Sign(s.poly.Secret(), s.mm.m)
	if err != nil {
		panic(err)
	}
	s.group = g
	return s
}

// blsSubsets of size k of {0..n-1}
func blsSubsets(n, k int) [][]int {
	var out [][]int
	var rec func(start int, cur []int)
	rec = func(start int, cur []int) {
		if len(cur) == k {
			out = append(out, append([]int{}, cur...))
			return
		}
		for i := start; i < n; i++ {
			rec(i+1, append(cur, i))
		}
	}
	rec(0, nil)
	return out
}

func blsPermutations(l []int) [][]int {
	if len(l) <= 1 {
		return [][]int{append([]int{}, l...)}
	}
	var out [][]int
	for i := range l {
		rest := append(append([]int{}, l[:i]...), l[i+1:]...)
		for _, p := range blsPermutations(rest) {
			out = append(out, append([]int{l[i]}, p...))
		}
	}
	return out
}

func blsShuffleEntries(l []*tEntry, rng *kc.Rng) {
	for i := len(l) - 1; i > 0; i-- {
		j := rng.Intn(i + 1)
		l[i], l[j] = l[j], l[i]
	}
}

func c09Tbls(c *kc.Ctx, sd *blsSide, rng *kc.Rng, b *blsBatch) {
	mock := sd.env.mock != nil
	qh := kc.HexN(sd.q)
	// (t,n) configurations: the property's range 2 ≤ t ≤ n ≤ 8 plus t = 1
	var cfgs [][2]int
	maxN := 8
	for n := 1; n <= maxN; n++ {
		for t := 1; t <= n; t++ {
			cfgs = append(cfgs, [2]int{t, n})
		}
	}
	if !mock {
		// real suites: a sample of the configurations per run (the mock suite runs all of them)
		keep := c.N(4, 20)
		for i := len(cfgs) - 1; i > 0; i-- {
			j := rng.Intn(i + 1)
			cfgs[i], cfgs[j] = cfgs[j], cfgs[i]
		}
		cfgs = append([][2]int{{3, 5}}, cfgs[:keep]...)
	}
	for _, cfg := range cfgs {
		t, n := cfg[0], cfg[1]
		s := newTblsScn(sd, t, n, rng.Fork(fmt.Sprint("scn", t, n)))
		// Sign and VerifyPartial of every honest share; IndexOf
		for i := 0; i < n; i++ {
			e := s.honest(i)
			want := append(blsIdxPrefix(i), blsPB(blsMul(sd.sigG, sd.q, s.shareLog(i), s.mm.H))...)
			if fmt.Sprintf("%x", s.parts[i]) != fmt.Sprintf("%x", want) {
				blsViolation(c, "tbls.Sign/not-index-prefixed-share-signature", sd.name+": Sign(share) != i || x_i·H(m)", map[string]any{"side": sd.name, "i": i, "got": kc.HexB(s.parts[i])})
			}
			if idx, err := sd.tbls.IndexOf(s.parts[i]); err != nil || idx != i {
				blsViolation(c, "tbls.IndexOf/honest", sd.name+": IndexOf of an honest partial", map[string]any{"side": sd.name, "i": i})
			}
			if !e.valid {
				blsViolation(c, "tbls.Sign/invalid", sd.name+": honest partial is not f(i+1)·H(m)", map[string]any{"side": sd.name, "i": i})
			}
		}
		nVP := c.N(6, 30)
		if mock {
			nVP = c.N(20, 120)
		}
		for k := 0; k < nVP; k++ {
			e := s.entry(rng.Intn(9), rng)
			verdict := kc.Recover(func() string { return blsErrStr(sd.tbls.VerifyPartial(s.pub, s.mm.m, e.bytes)) })
			pred := verdict == fmt.Sprint(e.valid)
			if !pred {
				var sp kyber.Point
				if e.vlog != nil && e.vlog.Sign() == 0 {
					sp = sd.sigG.Point().Null()
				}
				var kp kyber.Point
				if e.idx >= 0 && s.shareLog(e.idx).Sign() == 0 {
					kp = sd.keyG.Point().Null()
				}
				vk := sd.idKey("tbls.VerifyPartial/"+e.tag, sp, kp)
				if verdict == "panic" && e.decPanic {
					vk = sd.keyDecodePanic()
				}
				blsViolation(c, vk, fmt.Sprintf("%s: VerifyPartial = %s on a %s partial (honestly formed: %v)", sd.name, verdict, e.tag, e.valid),
					map[string]any{"side": sd.name, "t": t, "n": n, "coeffs": blsHexList(s.coeffs), "msg": kc.HexB(s.mm.m), "sig": kc.HexB(e.bytes)})
			}
			b.expect(sd.name+":tbls-vpartial-"+e.tag, fmt.Sprintf("c09 bls vpartial %s %s %s %s %s", qh, sd.sg, blsHexList(s.coeffs), kc.HexN(s.mm.h), e.model()), verdict, pred, nil)
			c.Nontrivial(fmt.Sprintf("%s|vpartial|%x", sd.name, e.bytes))
		}
		// A: t-blsSubsets in every order (all for n ≤ 6 on the mock suite, sampled to 8 and on real suites)
		subs := blsSubsets(n, t)
		type ord struct{ idx []int }
		var orders []ord
		if mock && n <= 6 && (c.Thorough() || n <= 5) {
			for _, sub := range subs {
				for _, p := range blsPermutations(sub) {
					orders = append(orders, ord{p})
				}
			}
		} else {
			cnt := c.N(6, 40)
			if mock {
				cnt = c.N(40, 400)
			}
			for k := 0; k < cnt; k++ {
				sub := append([]int{}, subs[rng.Intn(len(subs))]...)
				for i := len(sub) - 1; i > 0; i-- {
					j := rng.Intn(i + 1)
					sub[i], sub[j] = sub[j], sub[i]
				}
				orders = append(orders, ord{sub})
			}
		}
		for _, o := range orders {
			var list []*tEntry
			for _, i := range o.idx {
				list = append(list, s.honest(i))
			}
			s.recoverCase(c, b, "subset-order", list)
		}
		// B: valid partials mixed with invalid / duplicate / truncated / wrong-index / garbage entries
		nMix := c.N(10, 60)
		if mock {
			nMix = c.N(60, 600)
		}
		for k := 0; k < nMix; k++ {
			var list []*tEntry
			nv := rng.Intn(n + 1)
			switch rng.Intn(4) {
			case 0:
				nv = t
			case 1:
				if t > 1 {
					nv = t - 1
				}
			}
			if nv > n {
				nv = n
			}
			perm := blsPermutations3(n, rng)
			for _, i := range perm[:nv] {
				list = append(list, s.honest(i))
			}
			for d := rng.Intn(4); d > 0 && len(list) > 0; d-- { // duplicates of entries already present
				list = append(list, list[rng.Intn(len(list))])
			}
			for j := rng.Intn(5); j > 0; j-- {
				list = append(list, s.entry(1+rng.Intn(8), rng))
			}
			blsShuffleEntries(list, rng)
			if rng.Intn(6) == 0 && len(list) > 1 { // duplicates up front
				list = append([]*tEntry{list[0]}, list...)
			}
			s.recoverCase(c, b, "mixed", list)
		}
		// C: the confirmed history [p0,p0,p1,…,p_{t}] and its relatives
		if n > t && t >= 2 {
			list := []*tEntry{s.honest(0), s.honest(0)}
			for i := 1; i <= t; i++ {
				list = append(list, s.honest(i))
			}
			s.recoverCase(c, b, "dup-first", list)
		}
		if t >= 2 {
			// exactly t distinct valid partials, one of them repeated before the last: must still succeed
			list := []*tEntry{}
			for i := 0; i < t; i++ {
				list = append(list, s.honest(i))
				if i == 0 {
					list = append(list, s.honest(0))
				}
			}
			s.recoverCase(c, b, "dup-exact-t", list)
			// t-1 distinct valid partials repeated many times: must be refused
			list = nil
			for r := 0; r < 3; r++ {
				for i := 0; i < t-1; i++ {
					list = append(list, s.honest(i))
				}
			}
			s.recoverCase(c, b, "below-threshold-repeated", list)
		}
		s.recoverCase(c, b, "empty", nil)
		c.Program(1)
		if t == 3 && n == 5 {
			c.Sample(map[string]any{"side": sd.name, "kind": "tbls", "t": t, "n": n, "coeffs": blsHexList(s.coeffs), "msg": kc.HexB(s.mm.m)})
		}
		b.flush()
	}
}

// blsPermutations3 returns a random permutation of 0..n-1.
func blsPermutations3(n int, rng *kc.Rng) []int {
	p := make([]int, n)
	for i := range p {
		p[i] = i
	}
	for i := n - 1; i > 0; i-- {
		j := rng.Intn(i + 1)
		p[i], p[j] = p[j], p[i]
	}
	return p
}

func runC09(c *kc.Ctx) {
	c.SetRule("cases = (suite, signature group, scenario): BLS verify variants; TBLS (t,n), polynomial, list of partials (subset, order, injected entries); BDN mask history + aggregation; CoSi run + tampering; non-trivial = at least one honestly formed signature/partial/participant involved and non-zero key; distinct by the full input bytes")
	c.Assume("H_bilinear: the pairing of each real suite is bilinear and non-degenerate (tested in C06, not proved)",
		"H_RO: hash-to-group values of distinct messages, BDN coefficients and the CoSi challenge are oracle values; on real suites the model is run with independent values for distinct messages",
		"share.RecoverCommit / PubPoly.Eval are the model functions of Proto/Share.lean (C07)")
	if emitMode {
		return
	}
	defer blsPinDriver(c)()
	replayKey := blsReplay(c)
	defer func() { blsReplayReport(c, replayKey) }()
	envs := blsEnvs(c.Rng)
	sides := blsSides(envs)
	b := &blsBatch{c: c}
	for _, sd := range sides {
		rng := c.Rng.Fork(sd.name)
		iters := c.N(6, 120)
		if sd.env.mock != nil {
			iters = c.N(60, 1500)
		}
		c09Bls(c, sd, rng.Fork("bls"), b, iters)
		b.flush()
		c09Tbls(c, sd, rng.Fork("tbls"), b)
		b.flush()
		c09Bdn(c, sd, rng.Fork("bdn"), b)
		b.flush()
	}
	c09Cosi(c, c.Rng.Fork("cosi"), b)
	b.flush()
	c.Extra("sides", len(sides))
}

func init() { register("C09", "proof", runC09) }
