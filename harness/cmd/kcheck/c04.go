package main

// C04 — decoding untrusted bytes never panics and admits only valid group elements.
//
// Correspondence: the malformed-stream generator (dec_gen.go) against every UnmarshalBinary /
// UnmarshalFrom of every group in groups.All() and every scalar implementation. The outcome
// (`err`, `panic`, `ok <re-encoding>`) is compared with the Lean decoder `dec` of the group
// (Groups/Decode.lean, theorems in Props/C04.lean) or, where no Lean decoder exists (BLS12-381 G2),
// with an independent math/big oracle (dec_oracle.go); GT groups: totality, usability and agreement of
// the three BLS12-381 back-ends only. Every accepted value is then used (Add, Mul, Neg, Sub, Equal,
// Clone, String, MarshalBinary under kc.Recover) to expose late panics, re-encoded and re-decoded.
// Composite entry points: dec_composite.go.
//
// Verdict (DESIGN §4): a panic, an accepted non-member, a late panic or a failing re-encoding round trip
// is a failure of the property's own predicate on the real code → VIOLATION (or KNOWN-FINDING by key).
// Any other model/implementation difference is a broken correspondence → no-failing-input-found.

import (
	"bytes"
	"encoding/hex"
	"fmt"
	"math/big"
	"sync"

	"go.dedis.ch/kyber/v4"

	"verifharness/internal/groups"
	"verifharness/internal/kc"
)

// decPanicClass names the class of a panicking input: its length relative to PointLen and, for the
// flag-byte formats, the three flag bits.
func decPanicClass(g *groups.G, b []byte) string {
	size := g.Group.PointLen()
	k := "len=size"
	switch {
	case len(b) == 0:
		return "empty"
	case len(b) < size:
		k = "len<size"
	case len(b) > size:
		k = "len>size"
	}
	if len(g.Math) > 3 && g.Math[:3] == "bls" {
		k += fmt.Sprintf(":flags%02x", b[0]&0xe0)
	}
	return k
}

// decModelLine returns the model line prefix for a group ("" = no Lean decoder).
func decModelLine(g *groups.G) string {
	switch g.Name {
	case "ed25519", "ed25519-allowvt":
		return "dec ed25519 "
	case "ed25519vt-proj", "ed25519vt-ext":
		return "dec ed25519vt "
	case "p256":
		return "dec p256 "
	case "qr512":
		if P, Q := decQrParams(g); P != nil {
			return "dec residue " + kc.HexN(P) + " " + kc.HexN(Q) + " "
		}
	case "bn256-g1":
		return "dec bn256g1 "
	case "bn254-g1":
		return "dec bn254g1 "
	case "bn256-g2":
		return "dec bn256g2 "
	case "bn254-g2":
		return "dec bn254g2 "
	case "kilic-g1", "circl-g1":
		// CIRCL's SetBytes is more lenient (and panics) on the unchanged tree: C04 finding,
		// fixes/C04-circl-unmarshal-length.patch; the specification is the compressed form.
		return "dec bls12381g1 "
	case "gnark-g1":
		return "dec bls12381g1-gnark "
	case "kilic-g2", "circl-g2":
		// the 96-byte compressed form (Groups/BlsG2.lean, Lib/BlsG2Dec.lean: accepted ⇒ valid member);
		// gnark-g2 also reads the uncompressed form: decided by the math/big oracle below
		return "dec bls12381g2 "
	}
	return ""
}

// decExactLen reports whether the group's decoder specification demands exactly PointLen bytes.
func decExactLen(g *groups.G) bool {
	switch g.Math {
	case "ed25519", "p256", "bls12381g1", "bls12381g2":
		return true
	}
	return false
}

type decResult struct {
	out string      // "err" | "panic" | "ok <hex>" | "ok marshal-panic" | "ok marshal-err"
	p   kyber.Point // accepted value
	enc []byte
}

func implDecodePoint(g *groups.G, b []byte) decResult {
	var r decResult
	st := kc.Recover(func() string {
		p := g.Group.Point()
		if err := p.UnmarshalBinary(append([]byte{}, b...)); err != nil {
			return "err"
		}
		r.p = p
		return "ok"
	})
	if st != "ok" {
		r.p = nil
		r.out = st
		return r
	}
	r.out = kc.Recover(func() string {
		m, err := r.p.MarshalBinary()
		if err != nil {
			return "ok marshal-err"
		}
		r.enc = m
		return "ok " + kc.HexB(m)
	})
	if r.out == "panic" {
		r.out = "ok marshal-panic"
	}
	return r
}

// decUsePoint exercises an accepted value; returns the labels of failed predicates.
// scBytes encodes a small integer in the scalar byte order of the group.
func scBytes(G kyber.Group, v *big.Int) []byte {
	b := v.Bytes()
	if G.Scalar().ByteOrder() == kyber.LittleEndian {
		for i, j := 0, len(b)-1; i < j; i, j = i+1, j-1 {
			b[i], b[j] = b[j], b[i]
		}
	}
	return b
}

func decUsePoint(g *groups.G, p kyber.Point, enc []byte, rng *kc.Rng) []string {
	var fails []string
	G := g.Group
	try := func(label string, f func() string) {
		if r := kc.Recover(f); r != "" {
			if r == "panic" {
				fails = append(fails, "late-panic:"+label)
			} else {
				fails = append(fails, label+":"+r)
			}
		}
	}
	if enc != nil && len(enc) != G.PointLen() {
		fails = append(fails, fmt.Sprintf("marshal-size:%d", len(enc)))
	}
	try("redecode", func() string {
		if enc == nil {
			return ""
		}
		q := G.Point()
		if err := q.UnmarshalBinary(enc); err != nil {
			return "rejected"
		}
		if !q.Equal(p) || !p.Equal(q) {
			return "not-equal"
		}
		m, err := q.MarshalBinary()
		if err != nil || !bytes.Equal(m, enc) {
			return "reencoding-differs"
		}
		return ""
	})
	try("clone-equal", func() string {
		if !p.Clone().Equal(p) {
			return "false"
		}
		return ""
	})
	try("string", func() string { _ = p.String(); return "" })
	var sum, dbl kyber.Point
	try("add", func() string {
		sum = G.Point().Add(p, p)
		_, err := sum.MarshalBinary()
		if err != nil {
			return "marshal-err"
		}
		return ""
	})
	try("mul", func() string {
		dbl = G.Point().Mul(G.Scalar().SetInt64(2), p)
		if sum != nil && !dbl.Equal(sum) {
			return "2P-differs-from-P+P"
		}
		return ""
	})
	if g.Kind == "gt" {
		// The property promises no membership test for GT (0 ∈ Fp12 is accepted by several
		// implementations): only the absence of panics is checked on the remaining operations.
		try("gt-ops", func() string {
			_ = G.Point().Mul(G.Scalar().Pick(rng), p)
			_ = G.Point().Neg(p)
			_ = G.Point().Sub(p, p)
			return ""
		})
		return fails
	}
	try("mul-random", func() string {
		// integer scalars without wrap-around: holds in every abelian group, also outside the
		// prime-order subgroup (Ed25519 torsion points, twist points of BN256 G2)
		a, b := new(big.Int).SetBytes(rng.Bytes(15)), new(big.Int).SetBytes(rng.Bytes(15))
		sa := G.Scalar().SetBytes(scBytes(G, a))
		sb := G.Scalar().SetBytes(scBytes(G, b))
		sc := G.Scalar().SetBytes(scBytes(G, new(big.Int).Add(a, b)))
		l := G.Point().Add(G.Point().Mul(sa, p), G.Point().Mul(sb, p))
		if !l.Equal(G.Point().Mul(sc, p)) {
			return "aP+bP-differs-from-(a+b)P"
		}
		return ""
	})
	try("add-base", func() string {
		a := G.Point().Add(p, G.Point().Base())
		b := G.Point().Sub(a, G.Point().Base())
		if !b.Equal(p) {
			return "P+B-B-differs"
		}
		return ""
	})
	try("neg-sub", func() string {
		n := G.Point().Neg(p)
		if !G.Point().Add(p, n).Equal(G.Point().Null()) {
			return "P+(-P)-not-null"
		}
		if !G.Point().Sub(p, p).Equal(G.Point().Null()) {
			return "P-P-not-null"
		}
		return ""
	})
	try("set", func() string {
		if !G.Point().Set(p).Equal(p) {
			return "false"
		}
		return ""
	})
	if g.CanEmbed {
		try("data", func() string { _, _ = p.Data(); return "" })
	}
	return fails
}

type decCase struct {
	g    *groups.G
	in   decInput
	res  decResult
	line string // model line ("" = none)
	want string // oracle output where there is no model
	use  []string
}

func c04Points(c *kc.Ctx) {
	reps := c.N(1, 24)
	gs := groups.All()
	all := make([][]decCase, len(gs))
	var wg sync.WaitGroup
	for gi, g := range gs {
		wg.Add(1)
		go func(gi int, g *groups.G) {
			defer wg.Done()
			rng := c.Rng.Fork("dec/" + g.Name)
			var qrP *big.Int
			qrP, _ = decQrParams(g)
			prefix := decModelLine(g)
			r := reps
			if g.Kind == "gt" {
				r = 1
			}
			ins := genDecInputs(g, rng, r, qrP)
			cases := make([]decCase, 0, len(ins))
			for _, in := range ins {
				cs := decCase{g: g, in: in}
				cs.res = implDecodePoint(g, in.b)
				if prefix != "" {
					cs.line = prefix + kc.HexB(in.b)
				} else if g.Math == "bls12381g2" {
					st, enc := decBlsG2OracleFor(g.Name, in.b)
					cs.want = st
					if st == "ok" {
						cs.want = "ok " + kc.HexB(enc)
					}
				}
				if cs.res.p != nil {
					cs.use = decUsePoint(g, cs.res.p, cs.res.enc, rng)
				}
				cases = append(cases, cs)
			}
			all[gi] = cases
		}(gi, g)
	}
	wg.Wait()

	var lines []string
	for _, cases := range all {
		for _, cs := range cases {
			if cs.line != "" {
				lines = append(lines, cs.line)
			}
		}
	}
	outs := c.ModelDedup(lines)
	oi := 0
	type second struct {
		cs    decCase
		model string
	}
	var recheck []second
	gtOutcome := map[string]map[string]string{} // input hex -> backend -> outcome (BLS GT agreement)
	for _, cases := range all {
		for i, cs := range cases {
			g := cs.g
			c.Eval(1)
			c.CountKind(g.Name + ":" + cs.in.fam)
			want := cs.want
			if cs.line != "" {
				want = outs[oi]
				oi++
				c.Program(1)
			}
			outcome := cs.res.out
			if len(outcome) > 2 && outcome[:2] == "ok" {
				c.CountKind("outcome:ok")
				c.Nontrivial("pt|" + g.Name + "|" + kc.HexB(cs.in.b))
			} else {
				c.CountKind("outcome:" + outcome)
				if len(cs.in.b) == g.Group.PointLen() {
					c.Nontrivial("pt|" + g.Name + "|" + kc.HexB(cs.in.b))
				}
			}
			if i%(len(cases)/2+1) == 0 {
				c.Sample(map[string]string{"group": g.Name, "family": cs.in.fam, "bytes": kc.HexB(cs.in.b), "impl": cs.res.out, "model_or_oracle": want})
			}
			rep := map[string]any{"group": g.Name, "op": "Point.UnmarshalBinary", "family": cs.in.fam, "bytes": kc.HexB(cs.in.b), "impl": cs.res.out, "spec": want, "use_failures": cs.use}
			// 1. the property's own predicates on the real code
			if cs.res.out == "panic" {
				k := decPanicClass(g, cs.in.b)
				c.Violation(g.Name+":unmarshal-panic:"+k, fmt.Sprintf("%s UnmarshalBinary(%s) panics", g.Name, kc.HexB(cs.in.b)), rep)
				continue
			}
			if cs.res.out == "ok marshal-panic" || cs.res.out == "ok marshal-err" {
				c.Violation(g.Name+":late-panic:marshal", fmt.Sprintf("%s: value accepted from %s cannot decBE marshalled", g.Name, kc.HexB(cs.in.b)), rep)
				continue
			}
			for _, f := range cs.use {
				c.Violation(g.Name+":"+f, fmt.Sprintf("%s: value accepted from %s: %s", g.Name, kc.HexB(cs.in.b), f), rep)
			}
			if g.Kind == "gt" {
				if g.Math == "bls12381gt" {
					h := kc.HexB(cs.in.b)
					if gtOutcome[h] == nil {
						gtOutcome[h] = map[string]string{}
					}
					gtOutcome[h][g.Name] = cs.res.out
				}
				continue
			}
			if want == "" {
				continue
			}
			// 2. comparison with the decoder specification
			if cs.res.out == want {
				continue
			}
			c.Disagree(cs.line, cs.res.out, want, g.Name+" "+cs.in.fam)
			recheck = append(recheck, second{cs, want})
		}
	}
	// BLS12-381 GT: the property promises no membership test; differences between back-ends are
	// reported in the evidence only.
	gtDiff := 0
	for _, m := range gtOutcome {
		a, b, d := m["kilic-gt"], m["circl-gt"], m["gnark-gt"]
		acc := func(s string) bool { return len(s) > 2 && s[:2] == "ok" }
		if acc(a) != acc(b) || acc(b) != acc(d) {
			gtDiff++
		}
	}
	c.Extra("bls12381_gt_backend_acceptance_differences", gtDiff)

	// Disagreements: decide membership of what the implementation accepted by decoding ITS re-encoding
	// with the specification.
	var lines2 []string
	for _, s := range recheck {
		if s.cs.res.enc != nil && s.cs.line != "" {
			lines2 = append(lines2, decModelLine(s.cs.g)+kc.HexB(s.cs.res.enc))
		}
	}
	outs2 := c.ModelDedup(lines2)
	j := 0
	for _, s := range recheck {
		cs, g := s.cs, s.cs.g
		c.DisChecked(1)
		rep := map[string]any{"group": g.Name, "op": "Point.UnmarshalBinary", "family": cs.in.fam, "bytes": kc.HexB(cs.in.b), "impl": cs.res.out, "spec": s.model}
		implOK := len(cs.res.out) > 2 && cs.res.out[:2] == "ok"
		specOK := len(s.model) > 2 && s.model[:2] == "ok"
		member := ""
		if cs.res.enc != nil {
			if cs.line != "" {
				member = outs2[j]
				j++
			} else if g.Math == "bls12381g2" {
				st, enc := decBlsG2Oracle(cs.res.enc)
				member = st
				if st == "ok" {
					member = "ok " + kc.HexB(enc)
				}
			}
		}
		rep["spec_on_reencoding"] = member
		switch {
		case implOK && !specOK:
			if member != "ok "+kc.HexB(cs.res.enc) {
				c.Violation(g.Name+":accepts-invalid-point", fmt.Sprintf("%s accepts %s, which does not decode to a member of the group (re-encoding %s: %s)", g.Name, kc.HexB(cs.in.b), kc.HexB(cs.res.enc), member), rep)
			} else if len(cs.in.b) != g.Group.PointLen() {
				c.Violation(g.Name+":accepts-wrong-length", fmt.Sprintf("%s accepts a %d-byte string as a %d-byte point: %s", g.Name, len(cs.in.b), g.Group.PointLen(), kc.HexB(cs.in.b)), rep)
			} else {
				c.Unshown("correspondence:"+g.Name+":lenient-accept", fmt.Sprintf("%s accepts %s which the decoder specification rejects (the value is a member)", g.Name, kc.HexB(cs.in.b)), rep)
			}
		case !implOK && specOK:
			c.Unshown("correspondence:"+g.Name+":rejects-valid", fmt.Sprintf("%s rejects %s which the decoder specification accepts as %s", g.Name, kc.HexB(cs.in.b), s.model), rep)
		default:
			if member != "ok "+kc.HexB(cs.res.enc) {
				c.Violation(g.Name+":accepts-invalid-point", fmt.Sprintf("%s decodes %s to %s, not a member", g.Name, kc.HexB(cs.in.b), cs.res.out), rep)
			} else {
				c.Unshown("correspondence:"+g.Name+":different-value", fmt.Sprintf("%s decodes %s to %s, specification %s", g.Name, kc.HexB(cs.in.b), cs.res.out, s.model), rep)
			}
		}
	}
}

// c04UnmarshalFrom: the reader path must behave like UnmarshalBinary on the first PointLen bytes,
// return an error (not panic) on a short stream, and consume exactly PointLen bytes.
func c04UnmarshalFrom(c *kc.Ctx) {
	for _, g := range groups.All() {
		rng := c.Rng.Fork("from/" + g.Name)
		size := g.Group.PointLen()
		var ins [][]byte
		for _, l := range []int{0, 1, size - 1, size, size + 1, size + 7, 2 * size} {
			if l >= 0 {
				ins = append(ins, decFill(l, 0), decFill(l, 0xff), rng.Bytes(l))
			}
		}
		for _, fb := range []byte{0x00, 0x20, 0x40, 0x60, 0x80, 0xa0, 0xc0, 0xe0} {
			ins = append(ins, decCat([]byte{fb}, decFill(size-1, 0)), decCat([]byte{fb}, decFill(size+6, 0)))
		}
		for _, v := range decValidPoints(g, rng, c.N(3, 20)) {
			ins = append(ins, v, decCat(v, rng.Bytes(5)))
			if len(v) > 1 {
				ins = append(ins, v[:len(v)-1])
				m := append([]byte{}, v...)
				m[rng.Intn(len(m))] ^= 1 << uint(rng.Intn(8))
				ins = append(ins, m)
			}
		}
		for _, b := range ins {
			c.Eval(1)
			c.CountKind(g.Name + ":unmarshal-from")
			var n int
			var p kyber.Point
			out := kc.Recover(func() string {
				p = g.Group.Point()
				rd := bytes.NewReader(b)
				var err error
				n, err = p.UnmarshalFrom(rd)
				if err != nil {
					return "err"
				}
				m, err := p.MarshalBinary()
				if err != nil {
					return "ok marshal-err"
				}
				return "ok " + hex.EncodeToString(m)
			})
			rep := map[string]any{"group": g.Name, "op": "Point.UnmarshalFrom", "bytes": kc.HexB(b), "impl": out, "n": n}
			if out == "panic" {
				k := decPanicClass(g, b)
				c.Violation(g.Name+":unmarshalfrom-panic:"+k, fmt.Sprintf("%s UnmarshalFrom(%s) panics", g.Name, kc.HexB(b)), rep)
				continue
			}
			if len(b) < size {
				if out != "err" {
					c.Violation(g.Name+":unmarshalfrom-short-accepted", fmt.Sprintf("%s UnmarshalFrom accepts a %d-byte stream: %s", g.Name, len(b), kc.HexB(b)), rep)
				}
				continue
			}
			direct := implDecodePoint(g, b[:size])
			d := direct.out
			if len(d) > 3 && d[:3] == "ok " {
				d = "ok " + d[3:]
				if d == "ok -" {
					d = "ok "
				}
			}
			if out != d && !(out == "ok " && d == "ok -") {
				c.Violation(g.Name+":unmarshalfrom-differs", fmt.Sprintf("%s UnmarshalFrom(%s) = %s but UnmarshalBinary of the first %d bytes = %s", g.Name, kc.HexB(b), out, size, direct.out), rep)
			} else if out != "err" && n != size {
				c.Violation(g.Name+":unmarshalfrom-count", fmt.Sprintf("%s UnmarshalFrom consumed %d bytes, PointLen %d", g.Name, n, size), rep)
			}
		}
	}
}

// ---- scalars ----

func decScalarLine(g *groups.G) string {
	switch g.Family {
	case "ed25519":
		return "decsc ed25519 "
	case "modint":
		bo := "be"
		if g.Group.Scalar().ByteOrder() == kyber.LittleEndian {
			bo = "le"
		}
		return "decsc modint " + kc.HexN(g.Q) + " " + bo + " "
	case "circl":
		return "decsc circl " + kc.HexN(g.Q) + " "
	case "gnark":
		return "decsc gnark " + kc.HexN(g.Q) + " "
	}
	return ""
}

func c04Scalars(c *kc.Ctx) {
	reps := c.N(2, 100)
	type scCase struct {
		g    *groups.G
		b    []byte
		out  string
		line string
		use  []string
	}
	var cases []scCase
	for _, g := range groups.ScalarImpls() {
		rng := c.Rng.Fork("sc/" + g.Name)
		size := g.Group.ScalarLen()
		le_ := g.Group.Scalar().ByteOrder() == kyber.LittleEndian
		encv := func(v *big.Int, n int) []byte {
			if le_ {
				return decLE(v, n)
			}
			return decBE(v, n)
		}
		var ins [][]byte
		for l := 0; l <= 2*size+40; l++ {
			ins = append(ins, decFill(l, 0), decFill(l, 0xff))
			for r := 0; r < reps; r++ {
				ins = append(ins, rng.Bytes(l))
			}
		}
		for _, d := range []int64{-2, -1, 0, 1, 2} {
			v := new(big.Int).Add(g.Q, big.NewInt(d))
			ins = append(ins, encv(v, size), encv(v, size+1), decCat(encv(v, size), rng.Bytes(3)))
			if size > 1 {
				ins = append(ins, encv(v, size)[:size-1])
			}
		}
		for r := 0; r < 20*reps; r++ {
			v := rng.BigBelow(g.Q)
			ins = append(ins, encv(v, size))
			m := encv(v, size)
			m[rng.Intn(size)] ^= 1 << uint(rng.Intn(8))
			ins = append(ins, m)
			ins = append(ins, encv(new(big.Int).Add(v, g.Q), size)) // v + q where it fits
		}
		prefix := decScalarLine(g)
		for _, b := range ins {
			cs := scCase{g: g, b: b, line: prefix + kc.HexB(b)}
			var s kyber.Scalar
			cs.out = kc.Recover(func() string {
				s = g.Group.Scalar()
				if err := s.UnmarshalBinary(append([]byte{}, b...)); err != nil {
					s = nil
					return "err"
				}
				return "ok"
			})
			if cs.out == "ok" {
				cs.out = kc.Recover(func() string {
					m, err := s.MarshalBinary()
					if err != nil {
						return "ok marshal-err"
					}
					if len(m) != size {
						return fmt.Sprintf("ok marshal-size-%d", len(m))
					}
					var v *big.Int
					if le_ {
						v = kc.LeN(m)
					} else {
						v = kc.BeN(m)
					}
					if v.Cmp(g.Q) >= 0 {
						return "ok unreduced-" + kc.HexN(v)
					}
					return "ok " + kc.HexN(v)
				})
				if cs.out == "panic" {
					cs.out = "ok marshal-panic"
				}
				// use the accepted scalar
				try := func(label string, f func() string) {
					if r := kc.Recover(f); r != "" {
						if r == "panic" {
							cs.use = append(cs.use, "late-panic:"+label)
						} else {
							cs.use = append(cs.use, label+":"+r)
						}
					}
				}
				G := g.Group
				try("arith", func() string {
					one := G.Scalar().One()
					a := G.Scalar().Add(s, one)
					b := G.Scalar().Sub(a, one)
					m1, _ := b.MarshalBinary()
					m2, _ := G.Scalar().Add(s, G.Scalar().Zero()).MarshalBinary()
					if !bytes.Equal(m1, m2) {
						return "s+1-1-differs"
					}
					_ = G.Scalar().Mul(s, s)
					_ = G.Scalar().Neg(s)
					_ = s.String()
					if !s.Clone().Equal(s) {
						return "clone-not-equal"
					}
					return ""
				})
				try("inv", func() string {
					if s.Equal(G.Scalar().Zero()) {
						return ""
					}
					m0, _ := G.Scalar().Add(s, G.Scalar().Zero()).MarshalBinary()
					allz := true
					for _, x := range m0 {
						if x != 0 {
							allz = false
						}
					}
					if allz {
						return "" // unreduced representation of zero (Ed25519 keeps bytes as they are)
					}
					i := G.Scalar().Inv(s)
					pr := G.Scalar().Mul(i, s)
					m1, _ := pr.MarshalBinary()
					m2, _ := G.Scalar().One().MarshalBinary()
					if !bytes.Equal(m1, m2) {
						return "s*s^-1-not-one"
					}
					return ""
				})
				try("mul-base", func() string { _ = G.Point().Mul(s, nil); return "" })
				try("redecode", func() string {
					m, err := s.MarshalBinary()
					if err != nil {
						return "marshal-err"
					}
					t := G.Scalar()
					if err := t.UnmarshalBinary(m); err != nil {
						return "rejected"
					}
					m2, _ := t.MarshalBinary()
					if !bytes.Equal(m, m2) {
						return "reencoding-differs"
					}
					return ""
				})
			}
			cases = append(cases, cs)
		}
	}
	lines := make([]string, len(cases))
	for i, cs := range cases {
		lines[i] = cs.line
	}
	outs := c.ModelDedup(lines)
	for i, cs := range cases {
		g := cs.g
		c.Eval(1)
		c.Program(1)
		c.CountKind(g.Name + ":scalar")
		if len(cs.b) == g.Group.ScalarLen() {
			c.Nontrivial("sc|" + g.Name + "|" + kc.HexB(cs.b))
		}
		rep := map[string]any{"group": g.Name, "op": "Scalar.UnmarshalBinary", "bytes": kc.HexB(cs.b), "impl": cs.out, "spec": outs[i], "use_failures": cs.use}
		if i%(len(cases)/3+1) == 0 {
			c.Sample(map[string]string{"group": g.Name, "op": "scalar", "bytes": kc.HexB(cs.b), "impl": cs.out, "model": outs[i]})
		}
		if cs.out == "panic" || cs.out == "ok marshal-panic" {
			c.Violation(g.Name+":scalar-unmarshal-panic", fmt.Sprintf("%s Scalar.UnmarshalBinary(%s): %s", g.Name, kc.HexB(cs.b), cs.out), rep)
			continue
		}
		for _, f := range cs.use {
			c.Violation(g.Name+":scalar:"+f, fmt.Sprintf("%s: scalar accepted from %s: %s", g.Name, kc.HexB(cs.b), f), rep)
		}
		if cs.out == outs[i] {
			continue
		}
		c.Disagree(cs.line, cs.out, outs[i], g.Name)
		c.DisChecked(1)
		if len(cs.out) > 12 && cs.out[:12] == "ok unreduced" {
			c.Violation(g.Name+":scalar-accepts-out-of-range", fmt.Sprintf("%s accepts scalar bytes %s and re-encodes an unreduced value", g.Name, kc.HexB(cs.b)), rep)
		} else {
			c.Unshown("correspondence:"+g.Name+":scalar", fmt.Sprintf("%s Scalar.UnmarshalBinary(%s) = %s, specification %s", g.Name, kc.HexB(cs.b), cs.out, outs[i]), rep)
		}
	}
}

func runC04(c *kc.Ctx) {
	c.SetRule("cases = (group or scalar implementation, byte string); strings of every length 0..2·size+40 (GT: strided) from the families random / all-00 / all-ff / valid / bit flips / truncated / over-long / coordinate ≥ modulus / off-curve / wrong subgroup / format bytes, plus composite messages; non-trivial = accepted strings and rejected strings of the exact encoding length; distinct by (implementation, bytes)")
	c.Assume("internal/protobuf and fixbuf reflective codecs are exercised, not modelled",
		"BLS12-381 G2: acceptance decided by an independent math/big oracle in the harness (no Lean decoder); GT groups: totality, usability, round trip and back-end agreement only (the property promises no membership test for GT)",
		"crypto/elliptic, kilic, CIRCL, gnark arithmetic is compared, not proved")
	if groups.BuildConfig != "default" {
		// constantTime / generic builds: points and scalars of the groups available there
		c04Points(c)
		c04Scalars(c)
		return
	}
	c04Points(c)
	c04UnmarshalFrom(c)
	c04Scalars(c)
	c04Composite(c)
}

func init() { register("C04", "proof", runC04) }
