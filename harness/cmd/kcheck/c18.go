package main

// C18 — independent implementations and build variants of a group agree bit-for-bit.
// The same straight-line programs are executed on every implementation of the same mathematical
// object (Ed25519: constant-time, AllowVarTime, vartime projective, vartime extended; BLS12-381 G1,
// G2, GT: kilic, CIRCL, gnark) and under the build tags {default, generic, constantTime}; each
// transcript is compared with the Lean reference model where one exists (agreement of two
// implementations is then a corollary) and pairwise otherwise. Hash-to-curve, pairings, BLS
// signatures and Ed25519 key derivation (against crypto/ed25519) are compared as well.

import (
	"bytes"
	"crypto/ed25519"
	"fmt"
	"path/filepath"
	"strings"
	"time"

	"go.dedis.ch/kyber/v4"
	"go.dedis.ch/kyber/v4/sign/bls"
	"go.dedis.ch/kyber/v4/sign/eddsa"

	"verifharness/internal/groups"
	"verifharness/internal/kc"
)

// c18Transcripts produces, for this build configuration, one case per (instance, program):
// Line = model line (or "nomodel <math> <program>"), Got = transcript.
func c18Transcripts(c *kc.Ctx) []kc.Case {
	var cases []kc.Case
	nProg := c.N(20, 400)
	plen := c.N(14, 40)
	byMath := map[string][]*groups.G{}
	var order []string
	for _, g := range groups.All() {
		if _, ok := byMath[g.Math]; !ok {
			order = append(order, g.Math)
		}
		byMath[g.Math] = append(byMath[g.Math], g)
	}
	for _, m := range order {
		insts := byMath[m]
		// programs are generated from the math id only, so every build and instance sees the same ones;
		// `dec` literals come from a deterministic multiple of the generator on the first instance
		rng := c.Rng.Fork("c18/" + m)
		ref := insts[0]
		cp := groupCaps(ref)
		src := func(i int) []byte {
			k := ref.Group.Scalar().SetBytes(encScalar(ref, kc.NewRng(uint64(i)*977+13).Fork(m).BigBelow(ref.Q)))
			b, _ := ref.Group.Point().Mul(k, cp.gen()).MarshalBinary()
			return b
		}
		allBase := true
		for _, g := range insts {
			allBase = allBase && groupCaps(g).base
		}
		bnd := append(boundaryProgs(rng.Fork("boundary"), ref.Q, src, allBase), inplaceProgs(rng.Fork("inplace"), ref.Q, src, allBase)...)
		for i := 0; i < nProg+len(bnd); i++ {
			var p prog
			if i < nProg {
				p = genProg(rng.Fork(fmt.Sprint(i)), ref.Q, plen, src, allBase, true)
			} else {
				p = bnd[i-nProg]
			}
			for _, g := range insts {
				got, _ := runProg(g, p, true, false)
				line := "nomodel " + m + " " + p.String()
				if g.Grp != "" {
					line = "grp " + g.Grp + " " + p.String()
				}
				cases = append(cases, kc.Case{Impl: g.Name + "/" + groups.BuildConfig, Kind: "program:" + m, Line: line, Got: got, Key: p.String()})
			}
		}
	}
	// decoding: implementations of one group accept and refuse the same strings, and re-encode what they accept to
	// the same bytes - special values, both settings of a sign/flag bit, neighbours of valid encodings
	for _, m := range order {
		insts := byMath[m]
		if len(insts) < 2 || strings.HasPrefix(m, "bls12381") {
			// The three BLS12-381 back-ends are required to PRODUCE identical encodings (checked by the programs above);
			// they are known to differ in which non-canonical strings they tolerate (uncompressed forms, flag bits:
			// C04 decides acceptance per back-end against the model), so acceptance is not compared here.
			continue
		}
		ref := insts[0]
		pl := ref.Group.PointLen()
		rng := c.Rng.Fork("c18decode/" + m)
		var encs [][]byte
		for k := 0; k < 12; k++ {
			e := c18SpecialEncoding(m, k, pl)
			encs = append(encs, e)
			for _, bit := range []int{8*pl - 1, 8*pl - 2, 7, 0} {
				f := append([]byte{}, e...)
				f[bit/8] ^= 1 << uint(bit%8)
				encs = append(encs, f)
			}
		}
		cpr := groupCaps(ref)
		for k := 0; k < c.N(6, 40); k++ {
			v, _ := ref.Group.Point().Mul(ref.Group.Scalar().Pick(rng), cpr.gen()).MarshalBinary()
			encs = append(encs, v)
			for _, bit := range []int{8*len(v) - 1, 8*len(v) - 2, 8 * (len(v) / 2), 1, 0} {
				f := append([]byte{}, v...)
				f[bit/8] ^= 1 << uint(bit%8)
				encs = append(encs, f)
			}
			encs = append(encs, v[:len(v)-1], append(append([]byte{}, v...), 0))
		}
		encs = append(encs, bytes.Repeat([]byte{0xff}, pl), make([]byte, pl), []byte{})
		for _, e := range encs {
			key := "decode|" + kc.HexB(e)
			for _, g := range insts {
				got := kc.Recover(func() string {
					P := g.Group.Point()
					if err := P.UnmarshalBinary(e); err != nil {
						return "err"
					}
					b, err := P.MarshalBinary()
					if err != nil {
						return "ok:marshal-err"
					}
					return "ok:" + kc.HexB(b)
				})
				cases = append(cases, kc.Case{Impl: g.Name + "/" + groups.BuildConfig, Kind: "decode:" + m, Line: "nomodel " + m + " " + key, Got: got, Key: key})
			}
		}
	}
	// Pick / Embed / Data on the same stream and data must agree between implementations of one group
	for _, m := range order {
		insts := byMath[m]
		if !insts[0].CanEmbed {
			continue
		}
		rng := c.Rng.Fork("c18embed/" + m)
		el := insts[0].Group.Point().EmbedLen()
		for i := 0; i < c.N(30, 400); i++ {
			var data []byte
			switch i % 8 {
			case 0:
				data = nil
			case 1:
				data = []byte{}
			case 2:
				data = rng.Bytes(1)
			case 3:
				data = rng.Bytes(el)
			case 4:
				data = rng.Bytes(el + 1 + rng.Intn(8))
			case 5:
				data = rng.Bytes(el - 1)
			default:
				data = rng.Bytes(rng.Intn(el + 1))
			}
			seed := rng.U64()
			// some streams begin with bytes that are special as a candidate encoding: the identity, points of
			// small order, non-canonical and all-ff strings; the rest of the stream is seeded
			var prefix []byte
			pl := insts[0].Group.PointLen()
			switch (i / 8) % 6 {
			case 1:
				prefix = make([]byte, pl) // all zero
			case 2:
				prefix = bytes.Repeat([]byte{0xff}, pl)
			case 3:
				prefix = c18SpecialEncoding(m, i/48, pl)
			case 4:
				prefix = append(c18SpecialEncoding(m, i/48+1, pl), c18SpecialEncoding(m, i/48+2, pl)...)
			}
			key := fmt.Sprintf("embed|%d|%v|%x|%x", seed, data == nil, data, prefix)
			for _, g := range insts {
				g := g
				done := c.Watch(120*time.Second, g.Name+":Embed", fmt.Sprintf("%s/%s: Embed(%x) on a seeded stream", g.Name, groups.BuildConfig, data),
					map[string]string{"group": g.Name, "build": groups.BuildConfig, "data": kc.HexB(data), "stream_seed": fmt.Sprint(seed)}, "proof")
				got := kc.Recover(func() string {
					defer done()
					p := g.Group.Point().Embed(data, &c18PrefixStream{prefix: append([]byte{}, prefix...), tail: kc.NewRng(seed)})
					d, err := p.Data()
					ds := kc.HexB(d)
					if err != nil {
						ds = "err"
					}
					return pointVal(p) + "|data=" + ds
				})
				cases = append(cases, kc.Case{Impl: g.Name + "/" + groups.BuildConfig, Kind: "embed:" + m, Line: "nomodel " + m + " " + key, Got: got, Key: key})
			}
		}
	}
	return cases
}

// c18PrefixStream delivers `prefix` first, then a seeded stream.
type c18PrefixStream struct {
	prefix []byte
	tail   *kc.Rng
}

func (s *c18PrefixStream) XORKeyStream(dst, src []byte) {
	n := copy(dst, s.prefix)
	for i := 0; i < n; i++ {
		dst[i] ^= src[i]
	}
	s.prefix = s.prefix[n:]
	if n < len(dst) {
		s.tail.XORKeyStream(dst[n:], src[n:])
	}
}

// c18SpecialEncoding: candidate encodings that are special for a group (Edwards: the points of order 1, 2, 4, 8
// and non-canonical forms; elsewhere small values).
func c18SpecialEncoding(math string, k, pl int) []byte {
	if math == "ed25519" {
		specials := []string{
			"0100000000000000000000000000000000000000000000000000000000000000",
			"ecffffffffffffffffffffffffffffffffffffffffffffffffffffffffffff7f",
			"0000000000000000000000000000000000000000000000000000000000000000",
			"0000000000000000000000000000000000000000000000000000000000000080",
			"26e8958fc2b227b045c3f489f2ef98f0d5dfac05d3c63339b13802886d53fc05",
			"26e8958fc2b227b045c3f489f2ef98f0d5dfac05d3c63339b13802886d53fc85",
			"c7176a703d4dd84fba3c0b760d10670f2a2053fa2c39ccc64ec7fd7792ac037a",
			"c7176a703d4dd84fba3c0b760d10670f2a2053fa2c39ccc64ec7fd7792ac03fa",
			"edffffffffffffffffffffffffffffffffffffffffffffffffffffffffffff7f",
			"eeffffffffffffffffffffffffffffffffffffffffffffffffffffffffffff7f",
		}
		return mustHex(specials[((k%len(specials))+len(specials))%len(specials)])
	}
	b := make([]byte, pl)
	b[pl-1] = byte(k % 7)
	if k%2 == 1 {
		b[0] = byte(k % 5)
	}
	return b
}

func runC18(c *kc.Ctx) {
	defer reportHungProbes(c)
	c.SetRule("cases: (implementation, build configuration, program) for random straight-line programs of group/scalar operations (edge-biased scalars, points decoded from shared encodings), plus hash-to-curve / pairing / BLS-signature / key-derivation comparisons; non-trivial = every program; distinct by (implementation, program text)")
	c.Assume("GT and G2 byte agreement between back-ends is a Go-to-Go comparison (no concrete pairing/Fp2 model in the driver yet)",
		"agreement of builds (assembly vs pure Go, big.Int vs bigmod) has no theorem: it rests on this correspondence")
	cases := c18Transcripts(c)
	if emitMode {
		kc.EmitCases(cases)
		return
	}
	for _, bin := range []string{"kcheck_generic", "kcheck_ct"} {
		child, err := c.ChildCases(filepath.Join(c.BinDir, bin))
		if err != nil {
			c.Unshown("build:"+bin, "build variant did not run: "+err.Error(), nil)
			continue
		}
		c.Extra("cases_"+bin, len(child))
		cases = append(cases, child...)
	}
	// model comparison
	var mlines []string
	var midx []int
	for i, cs := range cases {
		if len(cs.Line) > 4 && cs.Line[:4] == "grp " {
			mlines = append(mlines, cs.Line)
			midx = append(midx, i)
		}
	}
	outs := c.ModelDedup(mlines)
	model := map[int]string{}
	for j, i := range midx {
		model[i] = outs[j]
	}
	// pairwise comparison per (math, program)
	type key struct{ kind, prog string }
	first := map[key]int{}
	c.Eval(len(cases))
	c.Program(len(cases))
	for i, cs := range cases {
		c.CountKind(cs.Impl)
		c.Nontrivial(cs.Impl + "|" + cs.Key)
		if i%(len(cases)/8+1) == 0 {
			c.Sample(map[string]string{"impl": cs.Impl, "line": cs.Line, "transcript": cs.Got})
		}
		k := key{cs.Kind, cs.Key}
		if j, ok := first[k]; ok {
			if cases[j].Got != cs.Got {
				c.Disagree(cs.Impl+" vs "+cases[j].Impl+" "+cs.Line, cs.Got, cases[j].Got, "pairwise")
				c.DisChecked(1)
				c.Violation("disagree:"+cs.Kind+":"+cs.Impl+"~"+cases[j].Impl, fmt.Sprintf("%s and %s produce different transcripts for the same program", cs.Impl, cases[j].Impl),
					map[string]string{"a": cs.Impl, "b": cases[j].Impl, "program": cs.Key, "a_out": cs.Got, "b_out": cases[j].Got})
			}
		} else {
			first[k] = i
		}
		if m, ok := model[i]; ok && m != cs.Got {
			c.Disagree(cs.Impl+" "+cs.Line, cs.Got, m, "model")
			c.DisChecked(1)
			// is there an implementation of the same object that agrees with the model? then this one is the outlier
			c.Violation("model:"+cs.Impl, fmt.Sprintf("%s differs from the arbitrary-precision reference model", cs.Impl),
				map[string]string{"impl": cs.Impl, "line": cs.Line, "impl_out": cs.Got, "model_out": m})
		}
	}

	// hash-to-curve, pairings, BLS signatures across the three BLS12-381 back-ends
	var blsP []*groups.P
	for _, p := range groups.Pairings() {
		if p.Name == "kilic" || p.Name == "circl" || p.Name == "gnark" {
			blsP = append(blsP, p)
		}
	}
	rng := c.Rng.Fork("c18/cross")
	for i := 0; i < c.N(12, 200) && len(blsP) > 0; i++ {
		msg := rng.Bytes(rng.Intn(120))
		a, b := rng.BigBelow(blsP[0].G1.Q), rng.BigBelow(blsP[0].G1.Q)
		var h1, h2, pr, s1, s2 [][]byte
		for _, p := range blsP {
			res := kc.Recover(func() string {
				x, _ := p.G1.Group.Point().(kyber.HashablePoint).Hash(msg).MarshalBinary()
				y, _ := p.G2.Group.Point().(kyber.HashablePoint).Hash(msg).MarshalBinary()
				A := p.G1.Group.Point().Mul(p.G1.Group.Scalar().SetBytes(encScalar(p.G1, a)), nil)
				B := p.G2.Group.Point().Mul(p.G2.Group.Scalar().SetBytes(encScalar(p.G2, b)), nil)
				z, _ := p.Suite.Pair(A, B).MarshalBinary()
				sk := p.G1.Group.Scalar().SetBytes(encScalar(p.G1, a))
				sg1, e1 := bls.NewSchemeOnG1(p.Suite).Sign(sk, msg)
				sg2, e2 := bls.NewSchemeOnG2(p.Suite).Sign(sk, msg)
				if e1 != nil || e2 != nil {
					return "signerr"
				}
				h1, h2, pr, s1, s2 = append(h1, x), append(h2, y), append(pr, z), append(s1, sg1), append(s2, sg2)
				return ""
			})
			if res != "" {
				c.Violation("cross:"+p.Name+":"+res, "panic/error in cross-backend comparison", map[string]string{"suite": p.Name, "msg": kc.HexB(msg)})
			}
		}
		c.Eval(5)
		c.Nontrivial(fmt.Sprintf("cross|%x|%s|%s", msg, a, b))
		cmp := func(what string, v [][]byte) {
			for j := 1; j < len(v); j++ {
				if !bytes.Equal(v[0], v[j]) {
					c.Violation("cross:"+what+":"+blsP[j].Name, fmt.Sprintf("%s differs between %s and %s", what, blsP[0].Name, blsP[j].Name),
						map[string]string{"what": what, "msg": kc.HexB(msg), "a": kc.HexN(a), "b": kc.HexN(b), blsP[0].Name: kc.HexB(v[0]), blsP[j].Name: kc.HexB(v[j])})
				}
			}
		}
		cmp("hash-to-G1", h1)
		cmp("hash-to-G2", h2)
		cmp("pairing", pr)
		cmp("bls-sig-G1", s1)
		cmp("bls-sig-G2", s2)
		c.CountKindN("cross-backend", 5)
	}

	// Ed25519 key derivation and signatures against crypto/ed25519
	for i := 0; i < c.N(30, 1000); i++ {
		seed := rng.Bytes(32)
		switch i {
		case 0:
			seed = make([]byte, 32)
		case 1:
			seed = bytes.Repeat([]byte{0xff}, 32)
		}
		msg := rng.Bytes(rng.Intn(200))
		res := kc.Recover(func() string {
			ed := eddsa.NewEdDSA(&seedStream{seed: seed})
			pub, _ := ed.Public.MarshalBinary()
			sk := ed25519.NewKeyFromSeed(seed)
			if !bytes.Equal(pub, sk.Public().(ed25519.PublicKey)) {
				return "public key differs"
			}
			sig, err := ed.Sign(msg)
			if err != nil || !bytes.Equal(sig, ed25519.Sign(sk, msg)) {
				return "signature differs"
			}
			return ""
		})
		c.Eval(1)
		c.CountKind("crypto/ed25519")
		c.Nontrivial("edkey|" + kc.HexB(seed))
		if res != "" {
			c.Violation("crypto-ed25519:"+res, "kyber eddsa and crypto/ed25519 disagree: "+res, map[string]string{"seed": kc.HexB(seed), "msg": kc.HexB(msg)})
		}
	}
}

// seedStream hands out a fixed 32-byte seed (what eddsa.NewEdDSA draws), then zeros.
type seedStream struct {
	seed []byte
	pos  int
}

func (s *seedStream) XORKeyStream(dst, src []byte) {
	for i := range src {
		var k byte
		if s.pos < len(s.seed) {
			k = s.seed[s.pos]
		}
		s.pos++
		dst[i] = src[i] ^ k
	}
}

func init() { register("C18", "proof", runC18) }
