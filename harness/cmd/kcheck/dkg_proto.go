package main

// C11: the goroutine-driven `Protocol` layer of share/dkg/pedersen, driven deterministically: every node
// gets its own Board whose incoming channels are unbuffered (a send returns only when the node's loop
// has taken the packet, and the loop handles one event at a time), and a Phaser channel the harness
// writes to; a no-op InitPhase event is used as a barrier. The board injects duplicated, conflicting
// and badly signed packets in per-node permuted order. Outcomes of the honest nodes are compared with
// each other and with the Lean model fed the packet lists the receiver-side `set` must hand over
// (closed form proved in Props/C11: identical packets collapse, equivocators are dropped, unverifiable
// packets are ignored; order irrelevant).

import (
	"fmt"
	"reflect"
	"sort"
	"sync"
	"time"
	"unsafe"

	dkg "go.dedis.ch/kyber/v4/share/dkg/pedersen"
	"go.dedis.ch/kyber/v4/sign/schnorr"

	"verifharness/internal/kc"
)

type pBoard struct {
	mu    *sync.Mutex
	deals *[]*dkg.DealBundle
	resps *[]*dkg.ResponseBundle
	justs *[]*dkg.JustificationBundle
	inD   chan dkg.DealBundle
	inR   chan dkg.ResponseBundle
	inJ   chan dkg.JustificationBundle
}

func (b *pBoard) PushDeals(d *dkg.DealBundle) {
	b.mu.Lock()
	*b.deals = append(*b.deals, d)
	b.mu.Unlock()
}
func (b *pBoard) IncomingDeal() <-chan dkg.DealBundle { return b.inD }
func (b *pBoard) PushResponses(r *dkg.ResponseBundle) {
	b.mu.Lock()
	*b.resps = append(*b.resps, r)
	b.mu.Unlock()
}
func (b *pBoard) IncomingResponse() <-chan dkg.ResponseBundle { return b.inR }
func (b *pBoard) PushJustifications(j *dkg.JustificationBundle) {
	b.mu.Lock()
	*b.justs = append(*b.justs, j)
	b.mu.Unlock()
}
func (b *pBoard) IncomingJustification() <-chan dkg.JustificationBundle { return b.inJ }

type pPhaser struct{ ch chan dkg.Phase }

func (p *pPhaser) NextPhase() chan dkg.Phase { return p.ch }

type pNode struct {
	party  *dkgParty
	idx    uint32
	proto  *dkg.Protocol
	board  *pBoard
	phaser *pPhaser
	done   bool
	res    *dkg.OptionResult
}

const pSendTimeout = 3 * time.Second

var debugProto = false

// poll records the node's result if it has ended.
func (n *pNode) poll() {
	if n.done {
		return
	}
	select {
	case r := <-n.proto.WaitEnd():
		n.done, n.res = true, &r
	default:
	}
}

func (n *pNode) phase(p dkg.Phase) bool {
	n.poll()
	if n.done {
		return false
	}
	select {
	case n.phaser.ch <- p:
		return true
	case r := <-n.proto.WaitEnd():
		n.done, n.res = true, &r
		return false
	case <-time.After(pSendTimeout):
		return false
	}
}

// c11ProtoScenario runs one fresh DKG through real Protocol objects.
func c11ProtoScenario(c *kc.Ctx, mock bool, n, t int, fast bool, inject string, rng *kc.Rng) {
	w := newDkgWorld(mock, rng.Fork("world"))
	desc := fmt.Sprintf("protocol mock=%v n=%d t=%d fast=%v inject=%s", mock, n, t, fast, inject)
	viol := func(key, what string) {
		c.Violation("protocol:"+key, what, map[string]any{"scenario": desc, "group": w.gname})
	}
	nonce := c11Nonce(rng)
	var nodes []*pNode
	var list []dkg.Node
	for i := 0; i < n; i++ {
		p := w.newParty()
		nodes = append(nodes, &pNode{party: p, idx: uint32(i)})
		list = append(list, dkg.Node{Index: uint32(i), Public: p.pub})
	}
	var mu sync.Mutex
	var deals []*dkg.DealBundle
	var resps []*dkg.ResponseBundle
	var justs []*dkg.JustificationBundle
	for _, nd := range nodes {
		nd.board = &pBoard{mu: &mu, deals: &deals, resps: &resps, justs: &justs,
			inD: make(chan dkg.DealBundle), inR: make(chan dkg.ResponseBundle), inJ: make(chan dkg.JustificationBundle)}
		nd.phaser = &pPhaser{ch: make(chan dkg.Phase)}
		conf := &dkg.Config{Suite: w.suite, Longterm: nd.party.long, NewNodes: append([]dkg.Node{}, list...), Threshold: uint32(t),
			FastSync: fast, Nonce: nonce, Auth: schnorr.NewScheme(w.suite)}
		p, err := dkg.NewProtocol(conf, nd.board, nd.phaser, false)
		if err != nil {
			c.Unshown("harness:protocol", err.Error(), desc)
			return
		}
		nd.proto = p
	}
	barrier := func() {
		for _, nd := range nodes {
			nd.phase(dkg.InitPhase)
		}
	}
	sendD := func(nd *pNode, b *dkg.DealBundle) {
		nd.poll()
		if nd.done {
			return
		}
		select {
		case nd.board.inD <- *copyDealBundle(b):
		case r := <-nd.proto.WaitEnd():
			nd.done, nd.res = true, &r
		case <-time.After(pSendTimeout):
		}
	}
	sendR := func(nd *pNode, b *dkg.ResponseBundle) {
		nd.poll()
		if nd.done {
			return
		}
		select {
		case nd.board.inR <- *copyRespBundle(b):
		case r := <-nd.proto.WaitEnd():
			nd.done, nd.res = true, &r
		case <-time.After(pSendTimeout):
		}
	}
	sendJ := func(nd *pNode, b *dkg.JustificationBundle) {
		nd.poll()
		if nd.done {
			return
		}
		select {
		case nd.board.inJ <- *copyJustBundle(b):
		case r := <-nd.proto.WaitEnd():
			nd.done, nd.res = true, &r
		case <-time.After(pSendTimeout):
		}
	}
	// deal phase
	for _, nd := range nodes {
		nd.phase(dkg.DealPhase)
	}
	barrier()
	mu.Lock()
	ds := append([]*dkg.DealBundle{}, deals...)
	mu.Unlock()
	if len(ds) != n {
		viol("deals-missing", fmt.Sprintf("%d of %d deal bundles were pushed", len(ds), n))
		return
	}
	// what the board delivers: the honest packets plus injected ones
	stream := append([]*dkg.DealBundle{}, ds...)
	equivocator := -1
	switch inject {
	case "dup":
		stream = append(stream, ds...)
		stream = append(stream, ds[rng.Intn(n)])
	case "badsig":
		x := copyDealBundle(ds[rng.Intn(n)])
		x.Signature = append([]byte{}, x.Signature...)
		x.Signature[0] ^= 1
		x.SessionID = append([]byte{x.SessionID[0] ^ 1}, x.SessionID[1:]...) // content differs, signature invalid: must be ignored
		stream = append(stream, x)
	case "equivocate":
		// a faulty dealer sends a second, different, correctly signed bundle
		src := ds[rng.Intn(n)]
		equivocator = int(src.DealerIndex)
		x := copyDealBundle(src)
		x.Deals[0].EncryptedShare = append([]byte{}, x.Deals[0].EncryptedShare...)
		x.Deals[0].EncryptedShare[len(x.Deals[0].EncryptedShare)-1] ^= 1
		h, _ := x.Hash()
		x.Signature, _ = schnorr.NewScheme(w.suite).Sign(nodes[equivocator].party.long, h)
		stream = append(stream, x)
	}
	for _, nd := range nodes {
		for _, k := range rngPerm(rng, len(stream)) {
			sendD(nd, stream[k])
		}
	}
	for _, nd := range nodes {
		nd.phase(dkg.ResponsePhase)
	}
	barrier()
	mu.Lock()
	rs := append([]*dkg.ResponseBundle{}, resps...)
	mu.Unlock()
	for _, nd := range nodes {
		for _, k := range rngPerm(rng, len(rs)) {
			sendR(nd, rs[k])
			if inject == "dup" {
				sendR(nd, rs[k])
			}
		}
	}
	for _, nd := range nodes {
		nd.phase(dkg.JustifPhase)
	}
	barrier()
	mu.Lock()
	js := append([]*dkg.JustificationBundle{}, justs...)
	mu.Unlock()
	for _, nd := range nodes {
		for _, k := range rngPerm(rng, len(js)) {
			sendJ(nd, js[k])
		}
	}
	for _, nd := range nodes {
		nd.phase(dkg.FinishPhase)
	}
	// collect
	var done []*pNode
	for _, nd := range nodes {
		if !nd.done {
			select {
			case r := <-nd.proto.WaitEnd():
				nd.done, nd.res = true, &r
			case <-time.After(pSendTimeout):
			}
		}
		c.Eval(1)
		if int(nd.idx) == equivocator {
			continue
		}
		if nd.res != nil && nd.res.Result != nil {
			done = append(done, nd)
		} else if inject != "equivocate" {
			e := "no result"
			if nd.res != nil && nd.res.Error != nil {
				e = nd.res.Error.Error()
			}
			viol("honest-run-incomplete", fmt.Sprintf("node %d: %s", nd.idx, e))
		}
	}
	c.CountKind("protocol:scenario:" + inject)
	c.Nontrivial(desc + fmt.Sprint(rng.U64()))
	if len(done) == 0 {
		return
	}
	qual := func(r *dkg.Result) string {
		var q []int
		for _, x := range r.QUAL {
			q = append(q, int(x.Index))
		}
		sort.Ints(q)
		return fmt.Sprint(q)
	}
	ref := done[0].res.Result
	for _, nd := range done[1:] {
		if !ref.PublicEqual(nd.res.Result) && qual(ref) == qual(nd.res.Result) || qual(ref) != qual(nd.res.Result) {
			key := "agreement"
			if fast && inject == "equivocate" {
				// startFast moves to the response phase as soon as it holds n deal bundles: a node that gets the
				// equivocator's second packet after that has already processed the first one, a node that gets
				// it before drops the dealer
				key = "agreement:fast-sync-early-transition-under-equivocation"
			}
			viol(key, fmt.Sprintf("nodes %d and %d output different QUAL / commitments (%s vs %s)", done[0].idx, nd.idx, qual(ref), qual(nd.res.Result)))
			return
		}
	}
	// the set layer: duplicates and unverifiable packets change nothing
	if inject != "equivocate" && len(ref.QUAL) != n {
		viol("qual-size", fmt.Sprintf("QUAL %s, expected all %d members", qual(ref), n))
	}
	if inject == "equivocate" {
		in := false
		for _, x := range ref.QUAL {
			if int(x.Index) == equivocator {
				in = true
			}
		}
		// informational (the property does not say what happens to an equivocator, only that honest nodes agree)
		c.CountKind(fmt.Sprintf("protocol:equivocator-in-QUAL:%v:fast=%v", in, fast))
		if in && !fast && debugProto {
			for _, nd := range done {
				fmt.Println("DEBUG", desc, "equivocator", equivocator, "node", nd.idx, qual(nd.res.Result))
			}
		}
	}
}

func c11Protocol(c *kc.Ctx, rng *kc.Rng) {
	scen := 0
	for _, mock := range []bool{true, false} {
		for n := 3; n <= 5; n++ {
			for _, t := range thresholds(n) {
				for _, fast := range []bool{false, true} {
					for _, inj := range []string{"none", "dup", "badsig", "equivocate"} {
						if inj == "equivocate" && n-t < 1 {
							continue
						}
						if !mock && !c.Thorough() && (n+t)%2 == 0 {
							continue
						}
						c11ProtoScenario(c, mock, n, t, fast, inj, rng.Fork(fmt.Sprint("P", mock, n, t, fast, inj)))
						scen++
					}
				}
			}
		}
	}
	// honest resharing through the Protocol driver, every group shape, with and without fast-sync
	for _, mock := range []bool{true, false} {
		for n := 3; n <= 4; n++ {
			t := n/2 + 1
			for _, shape := range []string{"same", "overlap", "disjoint", "grow", "shrink"} {
				newN := map[string]int{"same": n, "overlap": n, "disjoint": n, "grow": n + 1, "shrink": n - 1}[shape]
				if newN < 3 {
					continue
				}
				for _, fast := range []bool{false, true} {
					if !mock && !c.Thorough() && shape != "grow" {
						continue
					}
					c11ProtoReshare(c, mock, n, t, shape, newN/2+1, fast, 0, rng.Fork(fmt.Sprint("PR", mock, n, shape, fast)))
					scen++
					// one member of the new group complains falsely (about one dealer; about n-t+1 dealers): every
					// dealer answers, keeps its place, and the run ends like the honest one
					for _, k := range []int{1, n - t + 1} {
						c11ProtoReshare(c, mock, n, t, shape, newN/2+1, fast, k, rng.Fork(fmt.Sprint("PRC", mock, n, shape, fast, k)))
						scen++
					}
				}
			}
		}
	}
	c.Extra("scenarios_P_protocol_driver", scen)
}

// c11ProtoReshare: an all-honest resharing run through real Protocol objects (the goroutine-driven driver with
// its phase transitions and, in fast-sync mode, its early transitions): group shapes same / overlap / disjoint /
// grow / shrink on top of an honest fresh round. "When everyone is honest, everyone completes": every member
// of the new group ends with a result, all results agree, contain every old dealer, and keep the public key.
func c11ProtoReshare(c *kc.Ctx, mock bool, n, t int, shape string, newT int, fast bool, complaints int, rng *kc.Rng) {
	sp := &c11Spec{mock: mock, n: n, t: t, reshare: shape, newT: newT}
	desc := fmt.Sprintf("protocol resharing mock=%v n=%d t=%d shape=%s newT=%d fast=%v false-complaints-by-one-new-member=%d", mock, n, t, shape, newT, fast, complaints)
	viol := func(key, what string) {
		c.Violation("protocol:"+key, what, map[string]any{"scenario": desc})
	}
	w := newDkgWorld(mock, rng.Fork("world"))
	fr, err := c11FreshRound(c, w, sp, rng.Fork("fresh"))
	if err != nil {
		c.Unshown("harness:protocol-reshare", err.Error(), desc)
		return
	}
	fr.run()
	for _, x := range fr.nodes {
		if x.result == nil {
			c.Unshown("harness:protocol-reshare", "the fresh round did not complete", desc)
			return
		}
	}
	rr, err := c11ReshareRound(c, w, sp, fr, rng.Fork("reshare"))
	if err != nil {
		c.Unshown("harness:protocol-reshare", err.Error(), desc)
		return
	}
	oldKey := fr.nodes[0].result.Key.Commits[0]
	var mu sync.Mutex
	var deals []*dkg.DealBundle
	var resps []*dkg.ResponseBundle
	var justs []*dkg.JustificationBundle
	type rnode struct {
		*pNode
		inOld, inNew bool
	}
	var nodes []*rnode
	nOld, nNew := 0, 0
	for _, x := range rr.nodes {
		nd := &rnode{pNode: &pNode{party: x.party, idx: x.nidx}, inOld: x.inOld, inNew: x.inNew}
		nd.board = &pBoard{mu: &mu, deals: &deals, resps: &resps, justs: &justs,
			inD: make(chan dkg.DealBundle), inR: make(chan dkg.ResponseBundle), inJ: make(chan dkg.JustificationBundle)}
		nd.phaser = &pPhaser{ch: make(chan dkg.Phase)}
		conf := *x.conf
		conf.FastSync = fast
		conf.Reader, conf.UserReaderOnly = nil, false
		p, err := dkg.NewProtocol(&conf, nd.board, nd.phaser, false)
		if err != nil {
			c.Unshown("harness:protocol-reshare", err.Error(), desc)
			return
		}
		nd.proto = p
		nodes = append(nodes, nd)
		if x.inOld {
			nOld++
		}
		if x.inNew {
			nNew++
		}
	}
	phaseAll := func(p dkg.Phase) {
		for _, nd := range nodes {
			nd.phase(p)
		}
	}
	deliver := func(nd *rnode, f func() bool) {
		nd.poll()
		if nd.done {
			return
		}
		f()
	}
	phaseAll(dkg.DealPhase)
	phaseAll(dkg.InitPhase) // barrier
	mu.Lock()
	ds := append([]*dkg.DealBundle{}, deals...)
	mu.Unlock()
	if len(ds) != nOld {
		viol("reshare:deals-missing", fmt.Sprintf("%d of %d deal bundles were pushed", len(ds), nOld))
		return
	}
	for _, nd := range nodes {
		nd := nd
		for _, k := range rngPerm(rng, len(ds)) {
			b := ds[k]
			deliver(nd, func() bool {
				select {
				case nd.board.inD <- *copyDealBundle(b):
				case r := <-nd.proto.WaitEnd():
					nd.done, nd.res = true, &r
				case <-time.After(pSendTimeout):
				}
				return true
			})
		}
	}
	phaseAll(dkg.ResponsePhase)
	phaseAll(dkg.InitPhase)
	mu.Lock()
	rs := append([]*dkg.ResponseBundle{}, resps...)
	mu.Unlock()
	// the false complainer: the LAST member of the new group (in the shapes with new keys, a key no dealer holds)
	var liar *rnode
	var accused []uint32
	if complaints > 0 {
		var liarConf *dkg.Config
		for i, x := range rr.nodes {
			if x.inNew {
				liar, liarConf = nodes[i], x.conf
			}
		}
		for _, x := range rr.nodes {
			if x.inOld && len(accused) < complaints {
				accused = append(accused, x.oidx)
			}
		}
		fb := &dkg.ResponseBundle{ShareIndex: liar.idx, SessionID: liarConf.Nonce}
		for k, b := range rs {
			if b.ShareIndex == liar.idx {
				fb = copyRespBundle(b)
				rs = append(rs[:k:k], rs[k+1:]...)
				break
			}
		}
		for _, a := range accused {
			found := false
			for k := range fb.Responses {
				if fb.Responses[k].DealerIndex == a {
					fb.Responses[k].Status, found = dkg.Complaint, true
				}
			}
			if !found {
				fb.Responses = append(fb.Responses, dkg.Response{DealerIndex: a, Status: dkg.Complaint})
			}
		}
		h, _ := fb.Hash()
		fb.Signature, _ = liarConf.Auth.Sign(liar.party.long, h)
		rs = append(rs, fb)
	}
	for _, nd := range nodes {
		nd := nd
		for _, k := range rngPerm(rng, len(rs)) {
			b := rs[k]
			deliver(nd, func() bool {
				select {
				case nd.board.inR <- *copyRespBundle(b):
				case r := <-nd.proto.WaitEnd():
					nd.done, nd.res = true, &r
				case <-time.After(pSendTimeout):
				}
				return true
			})
		}
	}
	phaseAll(dkg.JustifPhase)
	phaseAll(dkg.InitPhase)
	mu.Lock()
	js := append([]*dkg.JustificationBundle{}, justs...)
	mu.Unlock()
	for _, nd := range nodes {
		nd := nd
		for _, k := range rngPerm(rng, len(js)) {
			b := js[k]
			deliver(nd, func() bool {
				select {
				case nd.board.inJ <- *copyJustBundle(b):
				case r := <-nd.proto.WaitEnd():
					nd.done, nd.res = true, &r
				case <-time.After(pSendTimeout):
				}
				return true
			})
		}
	}
	phaseAll(dkg.FinishPhase)
	c.CountKind(fmt.Sprintf("protocol:reshare:%s:fast=%v", shape, fast))
	c.Nontrivial(desc + fmt.Sprint(rng.U64()))
	var ref *dkg.Result
	for _, nd := range nodes {
		if !nd.done {
			select {
			case r := <-nd.proto.WaitEnd():
				nd.done, nd.res = true, &r
			case <-time.After(pSendTimeout):
			}
		}
		c.Eval(1)
		if !nd.inNew || nd == liar {
			continue
		}
		who := "everybody is honest"
		if liar != nil {
			who = fmt.Sprintf("new member %d complains falsely about dealers %v, everybody else is honest", liar.idx, accused)
		}
		if nd.res == nil || nd.res.Result == nil {
			e := "no result"
			if nd.res != nil && nd.res.Error != nil {
				e = nd.res.Error.Error()
			}
			viol("reshare:honest-run-incomplete", fmt.Sprintf("%s; member %d of the new group: %s", who, nd.idx, e))
			return
		}
		r := nd.res.Result
		if len(r.QUAL) != nNew {
			viol("reshare:qual-size", fmt.Sprintf("%s; member %d of the new group ends with %d of %d qualified members", who, nd.idx, len(r.QUAL), nNew))
			return
		}
		if liar != nil {
			// the accused dealers answered: their rows of the status matrix are clean again at every honest member
			gen := reflect.ValueOf(nd.proto).Elem().FieldByName("dkg")
			gen = reflect.NewAt(gen.Type(), unsafe.Pointer(gen.UnsafeAddr())).Elem()
			st := gen.Elem().FieldByName("statuses")
			sm := *(reflect.NewAt(st.Type(), unsafe.Pointer(st.UnsafeAddr())).Elem().Interface().(*dkg.StatusMatrix))
			for _, a := range accused {
				if !sm.AllTrue(a) {
					viol("reshare:honest-dealer-disqualified", fmt.Sprintf("%s; member %d of the new group ends with a complaint in the row of dealer %d, who justified it", who, nd.idx, a))
					return
				}
			}
		}
		if !r.Key.Commits[0].Equal(oldKey) {
			viol("reshare:key-changed", fmt.Sprintf("member %d: the public key after resharing differs from the key before", nd.idx))
			return
		}
		if ref == nil {
			ref = r
		} else if !ref.PublicEqual(r) {
			viol("reshare:agreement", fmt.Sprintf("member %d outputs another public polynomial than the first member", nd.idx))
			return
		}
	}
}
