package main

// C11, authentication of broadcast packets (share/dkg/pedersen/structs.go: Hash, VerifyPacketSignature):
// the Protocol layer accepts a bundle only under the sender's signature. A bundle of an honest party with
// any single field altered — dealer / share index, one public coefficient, one encrypted share, one status,
// one revealed share, the session id, an entry added, dropped or moved to another index — must no longer
// verify: otherwise a party on the broadcast channel can turn an honest party's packet into a faulty one
// (and have an honest dealer evicted) or into a different vote, without holding its key.

import (
	"fmt"

	"go.dedis.ch/kyber/v4"
	dkg "go.dedis.ch/kyber/v4/share/dkg/pedersen"
	rdkg "go.dedis.ch/kyber/v4/share/dkg/rabin"
	"go.dedis.ch/kyber/v4/sign/schnorr"

	"verifharness/internal/kc"
)

func c11PacketBinding(c *kc.Ctx, rng *kc.Rng) {
	for _, mock := range []bool{true, false} {
		w := newDkgWorld(mock, rng.Fork(fmt.Sprint("pk", mock)))
		n, t := 4, 3
		var nodes []dkg.Node
		var longs []kyber.Scalar
		for i := 0; i < n; i++ {
			p := w.newParty()
			nodes = append(nodes, dkg.Node{Index: uint32(2*i + 1), Public: p.pub})
			longs = append(longs, p.long)
		}
		conf := func(i int) *dkg.Config {
			return &dkg.Config{Suite: w.suite, Longterm: longs[i], NewNodes: append([]dkg.Node{}, nodes...), Threshold: uint32(t),
				Nonce: c11Nonce(rng), Auth: schnorr.NewScheme(w.suite), Reader: rngReader{rng.Fork(fmt.Sprint("rd", i))}, UserReaderOnly: true}
		}
		c0 := conf(0)
		gen, err := dkg.NewDistKeyHandler(c0)
		if err != nil {
			c.Unshown("harness:c11-packets", err.Error(), nil)
			continue
		}
		db, err := gen.Deals()
		if err != nil || db == nil {
			c.Unshown("harness:c11-packets", fmt.Sprint("Deals: ", err), nil)
			continue
		}
		sign := func(i int, p dkg.Packet) []byte {
			h, _ := p.Hash()
			s, _ := c0.Auth.Sign(longs[i], h)
			return s
		}
		other := w.suite.Point().Mul(w.suite.Scalar().Pick(rng), nil)
		check := func(kind, field string, p dkg.Packet, mustVerify bool) {
			err := kc.Recover(func() string {
				if e := dkg.VerifyPacketSignature(c0, p); e != nil {
					return "rejected"
				}
				return "verified"
			})
			c.Eval(1)
			c.CountKind("packet-binding:" + kind)
			c.Nontrivial(fmt.Sprintf("pk|%v|%s|%s", mock, kind, field))
			if mustVerify && err != "verified" {
				c.Unshown("harness:c11-packets", fmt.Sprintf("%s: the unaltered %s does not verify (%s)", w.gname, kind, err), nil)
			}
			if !mustVerify && err == "verified" {
				c.Violation("packet-not-authenticated:"+kind+":"+field, fmt.Sprintf("%s: a %s of an honest party with its %s altered still verifies under that party's signature", w.gname, kind, field),
					map[string]any{"group": w.gname, "packet": kind, "field": field})
			}
		}
		// --- deal bundle of node 0
		check("DealBundle", "-", copyDealBundle(db), true)
		dm := []struct {
			f  string
			do func(b *dkg.DealBundle)
		}{
			{"DealerIndex", func(b *dkg.DealBundle) { b.DealerIndex = nodes[1].Index }},
			{"Public[0]", func(b *dkg.DealBundle) { b.Public[0] = other }},
			{"Public[last]", func(b *dkg.DealBundle) { b.Public[len(b.Public)-1] = other }},
			{"Public dropped", func(b *dkg.DealBundle) { b.Public = b.Public[:len(b.Public)-1] }},
			{"Public added", func(b *dkg.DealBundle) { b.Public = append(b.Public, other) }},
			{"Deals[0].ShareIndex", func(b *dkg.DealBundle) { b.Deals[0].ShareIndex += 100 }},
			{"Deals[last].EncryptedShare", func(b *dkg.DealBundle) {
				k := len(b.Deals) - 1
				b.Deals[k].EncryptedShare = append([]byte{}, b.Deals[k].EncryptedShare...)
				b.Deals[k].EncryptedShare[len(b.Deals[k].EncryptedShare)-1] ^= 1
			}},
			{"Deals dropped", func(b *dkg.DealBundle) { b.Deals = b.Deals[:len(b.Deals)-1] }},
			{"Deals added", func(b *dkg.DealBundle) {
				b.Deals = append(b.Deals, dkg.Deal{ShareIndex: 77, EncryptedShare: []byte{1}})
			}},
			{"SessionID", func(b *dkg.DealBundle) { b.SessionID = append([]byte{b.SessionID[0] ^ 1}, b.SessionID[1:]...) }},
			{"two encrypted shares swapped", func(b *dkg.DealBundle) {
				b.Deals[0].EncryptedShare, b.Deals[1].EncryptedShare = b.Deals[1].EncryptedShare, b.Deals[0].EncryptedShare
			}},
		}
		for _, m := range dm {
			b := copyDealBundle(db)
			m.do(b)
			check("DealBundle", m.f, b, false)
		}
		// --- response bundle of node 1
		sid := db.SessionID
		rb := &dkg.ResponseBundle{ShareIndex: nodes[1].Index, SessionID: append([]byte{}, sid...),
			Responses: []dkg.Response{{DealerIndex: nodes[0].Index, Status: dkg.Success}, {DealerIndex: nodes[2].Index, Status: dkg.Complaint}, {DealerIndex: nodes[3].Index, Status: dkg.Success}}}
		rb.Signature = sign(1, rb)
		check("ResponseBundle", "-", copyRespBundle(rb), true)
		rm := []struct {
			f  string
			do func(b *dkg.ResponseBundle)
		}{
			{"ShareIndex", func(b *dkg.ResponseBundle) { b.ShareIndex = nodes[2].Index }},
			{"Responses[0].Status", func(b *dkg.ResponseBundle) { b.Responses[0].Status = dkg.Complaint }},
			{"Responses[1].Status", func(b *dkg.ResponseBundle) { b.Responses[1].Status = dkg.Success }},
			{"Responses[last].Status", func(b *dkg.ResponseBundle) { b.Responses[len(b.Responses)-1].Status = dkg.Complaint }},
			{"Responses[1].DealerIndex", func(b *dkg.ResponseBundle) { b.Responses[1].DealerIndex = 99 }},
			{"two statuses swapped", func(b *dkg.ResponseBundle) {
				b.Responses[0].Status, b.Responses[1].Status = b.Responses[1].Status, b.Responses[0].Status
			}},
			{"Responses dropped", func(b *dkg.ResponseBundle) { b.Responses = b.Responses[:len(b.Responses)-1] }},
			{"Responses added", func(b *dkg.ResponseBundle) {
				b.Responses = append(b.Responses, dkg.Response{DealerIndex: 55, Status: dkg.Success})
			}},
			{"SessionID", func(b *dkg.ResponseBundle) { b.SessionID = append([]byte{b.SessionID[0] ^ 1}, b.SessionID[1:]...) }},
		}
		for _, m := range rm {
			b := copyRespBundle(rb)
			m.do(b)
			check("ResponseBundle", m.f, b, false)
		}
		// --- justification bundle of node 0
		s1, s2 := w.suite.Scalar().Pick(rng), w.suite.Scalar().Pick(rng)
		jb := &dkg.JustificationBundle{DealerIndex: nodes[0].Index, SessionID: append([]byte{}, sid...),
			Justifications: []dkg.Justification{{ShareIndex: nodes[1].Index, Share: s1}, {ShareIndex: nodes[3].Index, Share: s2}}}
		jb.Signature = sign(0, jb)
		check("JustificationBundle", "-", copyJustBundle(jb), true)
		jm := []struct {
			f  string
			do func(b *dkg.JustificationBundle)
		}{
			{"DealerIndex", func(b *dkg.JustificationBundle) { b.DealerIndex = nodes[1].Index }},
			{"Justifications[0].Share", func(b *dkg.JustificationBundle) {
				b.Justifications[0].Share = w.suite.Scalar().Add(s1, w.suite.Scalar().One())
			}},
			{"Justifications[last].Share", func(b *dkg.JustificationBundle) {
				b.Justifications[len(b.Justifications)-1].Share = w.suite.Scalar().Add(s2, w.suite.Scalar().One())
			}},
			{"Justifications[0].ShareIndex", func(b *dkg.JustificationBundle) { b.Justifications[0].ShareIndex = nodes[2].Index }},
			{"two shares swapped", func(b *dkg.JustificationBundle) {
				b.Justifications[0].Share, b.Justifications[1].Share = b.Justifications[1].Share, b.Justifications[0].Share
			}},
			{"Justifications dropped", func(b *dkg.JustificationBundle) { b.Justifications = b.Justifications[:1] }},
			{"SessionID", func(b *dkg.JustificationBundle) { b.SessionID = append([]byte{b.SessionID[0] ^ 1}, b.SessionID[1:]...) }},
		}
		for _, m := range jm {
			b := copyJustBundle(jb)
			m.do(b)
			check("JustificationBundle", m.f, b, false)
		}
	}
}

// c11RabinPacketBinding: the same for the Rabin DKG's signed secret commitments (share/dkg/rabin:
// ProcessSecretCommits verifies the sender's signature itself). An all-honest run is taken to the point where
// the commitments are published; node 0's packet is then altered field by field and handed to node 2.
func c11RabinPacketBinding(c *kc.Ctx, rng *kc.Rng) {
	for _, mock := range []bool{true, false} {
		w := newDkgWorld(mock, rng.Fork(fmt.Sprint("rpk", mock)))
		n, t := 4, 3
		secs := make([]kyber.Scalar, n)
		pubs := make([]kyber.Point, n)
		for i := range secs {
			secs[i] = w.suite.Scalar().Pick(w.suite.RandomStream())
			pubs[i] = w.suite.Point().Mul(secs[i], nil)
		}
		gens := make([]*rdkg.DistKeyGenerator, n)
		ok := true
		for i := range gens {
			g, err := rdkg.NewDistKeyGenerator(w.suite, secs[i], pubs, uint32(t))
			if err != nil {
				ok = false
				break
			}
			gens[i] = g
		}
		if !ok {
			c.Unshown("harness:c11-rabin-packets", "cannot build generators", nil)
			continue
		}
		var resps []*rdkg.Response
		for _, g := range gens {
			deals, err := g.Deals()
			if err != nil {
				ok = false
				break
			}
			for i, d := range deals {
				r, err := gens[i].ProcessDeal(d)
				if err != nil {
					ok = false
					break
				}
				resps = append(resps, r)
			}
		}
		for _, r := range resps {
			for i, g := range gens {
				if uint32(i) != r.Response.Index {
					g.ProcessResponse(rabCopyResponse(r))
				}
			}
		}
		sc, err := gens[0].SecretCommits()
		if !ok || err != nil || sc == nil {
			c.Unshown("harness:c11-rabin-packets", fmt.Sprint("honest run did not reach the secret commitments: ", err), nil)
			continue
		}
		other := w.suite.Point().Mul(w.suite.Scalar().Pick(w.suite.RandomStream()), nil)
		cp := func() *rdkg.SecretCommits {
			return &rdkg.SecretCommits{Index: sc.Index, Commitments: append([]kyber.Point{}, sc.Commitments...),
				SessionID: append([]byte{}, sc.SessionID...), Signature: append([]byte{}, sc.Signature...)}
		}
		muts := []struct {
			f  string
			do func(x *rdkg.SecretCommits)
		}{
			{"Index", func(x *rdkg.SecretCommits) { x.Index = 1 }},
			{"Commitments[0]", func(x *rdkg.SecretCommits) { x.Commitments[0] = other }},
			{"Commitments[last]", func(x *rdkg.SecretCommits) { x.Commitments[len(x.Commitments)-1] = other }},
			{"Commitments dropped", func(x *rdkg.SecretCommits) { x.Commitments = x.Commitments[:len(x.Commitments)-1] }},
			{"Commitments added", func(x *rdkg.SecretCommits) { x.Commitments = append(x.Commitments, other) }},
			{"SessionID", func(x *rdkg.SecretCommits) { x.SessionID = append([]byte{x.SessionID[0] ^ 1}, x.SessionID[1:]...) }},
			{"Signature", func(x *rdkg.SecretCommits) { x.Signature = append([]byte{x.Signature[0] ^ 1}, x.Signature[1:]...) }},
		}
		for _, m := range muts {
			x := cp()
			m.do(x)
			var cc *rdkg.ComplaintCommits
			var e error
			res := kc.Recover(func() string { cc, e = gens[2].ProcessSecretCommits(x); return "" })
			c.Eval(1)
			c.CountKind("packet-binding:rabin.SecretCommits")
			c.Nontrivial(fmt.Sprintf("rpk|%v|%s", mock, m.f))
			if res == "panic" {
				c.Violation("packet-not-authenticated:rabin.SecretCommits:panic:"+m.f, fmt.Sprintf("%s: ProcessSecretCommits panics on an honest packet with %s altered", w.gname, m.f), map[string]any{"group": w.gname, "field": m.f})
			} else if e == nil && cc == nil {
				c.Violation("packet-not-authenticated:rabin.SecretCommits:"+m.f, fmt.Sprintf("%s: the secret commitments of an honest dealer with %s altered are accepted under the dealer's signature", w.gname, m.f), map[string]any{"group": w.gname, "field": m.f})
			}
		}
		// control: the unaltered packet is accepted
		if cc, e := gens[2].ProcessSecretCommits(cp()); e != nil || cc != nil {
			c.Unshown("harness:c11-rabin-packets", fmt.Sprintf("%s: the unaltered secret commitments are not accepted: %v", w.gname, e), nil)
		}
	}
}
