package main

// Helpers shared by the C08 checks (c08.go, sig_*.go).

import (
	"crypto/cipher"
	"fmt"
	"io"
	"math/big"
	"reflect"

	"go.dedis.ch/fixbuf"
	"go.dedis.ch/kyber/v4"
	"go.dedis.ch/kyber/v4/xof/blake2xb"

	"verifharness/internal/kc"
)

// sigCase is one model line with the output the real code (or reference library) produced.
type sigCase struct {
	kind    string // op kind for the distribution
	line    string // model line
	want    string // implementation output, canonical
	key     string // non-empty: distinct non-trivial case key
	realBad bool   // the property predicate already failed on the real code for this input
	desc    any    // replay material
}

type sigBatch struct {
	c     *kc.Ctx
	cases []sigCase
}

func (b *sigBatch) add(kind, line, want, key string, realBad bool, desc any) {
	b.cases = append(b.cases, sigCase{kind, line, want, key, realBad, desc})
}

// run sends the batch to the model. A mismatch is a disagreement; the property predicates have been
// evaluated on the real code when the case was generated (violations are reported there), so a
// mismatch on a case where the real code behaved as the property demands means the correspondence
// no longer holds: not shown, no failing input. eq may canonicalise before comparing.
func (b *sigBatch) run(eq func(kind, want, got string) bool) {
	c := b.c
	if len(b.cases) == 0 {
		return
	}
	lines := make([]string, len(b.cases))
	for i, cs := range b.cases {
		lines[i] = cs.line
	}
	outs := c.Model(lines)
	c.Eval(len(lines))
	c.Program(len(lines))
	step := len(b.cases)/6 + 1
	for i, cs := range b.cases {
		c.CountKind(cs.kind)
		if cs.key != "" {
			c.Nontrivial(cs.kind + "|" + cs.key)
		}
		if i%step == 0 {
			ln := cs.line
			if len(ln) > 400 {
				ln = ln[:400] + "…"
			}
			c.Sample(map[string]string{"kind": cs.kind, "line": ln, "impl_out": cs.want, "model_out": outs[i]})
		}
		ok := outs[i] == cs.want
		if !ok && eq != nil {
			ok = eq(cs.kind, cs.want, outs[i])
		}
		if ok {
			continue
		}
		c.Disagree(cs.line, cs.want, outs[i], cs.kind)
		c.DisChecked(1)
		if !cs.realBad {
			c.Unshown("correspondence:"+cs.kind, fmt.Sprintf("model %q vs implementation %q on %s", outs[i], cs.want, sigTrunc(cs.line, 300)),
				map[string]any{"line": cs.line, "impl": cs.want, "model": outs[i], "desc": cs.desc})
		}
	}
	b.cases = nil
}

func sigTrunc(s string, n int) string {
	if len(s) > n {
		return s[:n] + "…"
	}
	return s
}

func sigClone(b []byte) []byte { return append([]byte{}, b...) }

func sigFlip(b []byte, i int) []byte {
	o := sigClone(b)
	o[i/8] ^= 1 << uint(i%8)
	return o
}

func sigCat(bs ...[]byte) []byte {
	var o []byte
	for _, b := range bs {
		o = append(o, b...)
	}
	return o
}

// leBytes encodes v little-endian in n bytes (v < 256^n).
func sigLE(v *big.Int, n int) []byte {
	b := v.FillBytes(make([]byte, n))
	for i, j := 0, n-1; i < j; i, j = i+1, j-1 {
		b[i], b[j] = b[j], b[i]
	}
	return b
}

// sigFixedStream yields the given bytes as key stream, then a seeded tail.
type sigFixedStream struct {
	buf  []byte
	tail *kc.Rng
}

func (s *sigFixedStream) XORKeyStream(dst, src []byte) {
	for i := range src {
		var k byte
		if len(s.buf) > 0 {
			k = s.buf[0]
			s.buf = s.buf[1:]
		} else {
			k = s.tail.Bytes(1)[0]
		}
		dst[i] = src[i] ^ k
	}
}

// sigSuite adapts any kyber.Group to the suites sign/schnorr and sign/anon need
// (Group + Random + XOFFactory + Encoding), with a deterministic random stream.
type sigSuite struct {
	kyber.Group
	rnd   cipher.Stream
	calls *[]xofCall // non-nil: record every XOF squeeze (absorbed input, scalar picked)
}

type xofCall struct {
	absorbed []byte
	scalar   kyber.Scalar // the scalar Pick() yields from this XOF state
}

func (s *sigSuite) RandomStream() cipher.Stream { return s.rnd }
func (s *sigSuite) XOF(seed []byte) kyber.XOF {
	x := blake2xb.New(seed)
	if s.calls == nil {
		return x
	}
	return &recXOF{inner: x, absorbed: sigClone(seed), owner: s}
}
func (s *sigSuite) Read(r io.Reader, objs ...any) error  { return fixbuf.Read(r, s, objs...) }
func (s *sigSuite) Write(w io.Writer, objs ...any) error { return fixbuf.Write(w, objs...) }

var sigTScalar = reflect.TypeFor[kyber.Scalar]()
var sigTPoint = reflect.TypeFor[kyber.Point]()

func (s *sigSuite) New(t reflect.Type) any {
	switch t {
	case sigTScalar:
		return s.Scalar()
	case sigTPoint:
		return s.Point()
	}
	return nil
}

// recXOF records what was absorbed before the first squeeze and which scalar the state yields.
type recXOF struct {
	inner    kyber.XOF
	absorbed []byte
	owner    *sigSuite
	squeezed bool
}

func (x *recXOF) note() {
	if x.squeezed {
		return
	}
	x.squeezed = true
	sc := x.owner.Scalar().Pick(x.inner.Clone())
	*x.owner.calls = append(*x.owner.calls, xofCall{sigClone(x.absorbed), sc})
}
func (x *recXOF) Write(p []byte) (int, error) {
	x.absorbed = append(x.absorbed, p...)
	return x.inner.Write(p)
}
func (x *recXOF) Read(p []byte) (int, error) { x.note(); return x.inner.Read(p) }
func (x *recXOF) XORKeyStream(dst, src []byte) {
	x.note()
	x.inner.XORKeyStream(dst, src)
}
func (x *recXOF) Reseed() { x.inner.Reseed() }
func (x *recXOF) Reset()  { x.inner.Reset() }
func (x *recXOF) Clone() kyber.XOF {
	return &recXOF{inner: x.inner.Clone(), absorbed: sigClone(x.absorbed), owner: x.owner, squeezed: x.squeezed}
}

func sigErrStr(err error) string {
	if err == nil {
		return "ok"
	}
	return "err"
}

// verdictOf reduces a model verdict ("ok" | "err:<class>") to accept / reject.
func sigVerdictOf(s string) string {
	if s == "ok" || s == "true" {
		return "ok"
	}
	if len(s) >= 3 && s[:3] == "err" || s == "false" || s == "reject" {
		return "err"
	}
	return s
}

func sigSameVerdict(_ string, want, got string) bool { return sigVerdictOf(want) == sigVerdictOf(got) }
