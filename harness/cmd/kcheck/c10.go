package main

// C10 — VSS (Pedersen and Rabin): certified deals are recoverable; inconsistent deals are never
// approved. Correspondence of every participant (n verifiers + dealer) of real in-process runs with
// the Lean model `Kyber.Vss` (Proto/Vss.lean, theorems in Props/C10.lean) after EVERY operation,
// plus the property's own predicates evaluated on the real objects (ground truth known to the
// harness: which deals are consistent, who signed what).

import (
	"bytes"
	"fmt"
	"math/big"
	"sort"
	"strings"

	"go.dedis.ch/kyber/v4/group/edwards25519"

	"verifharness/internal/dlgroup"
	"verifharness/internal/kc"
)

// deal faults (the property's menu + the Rabin-specific share pair faults)
var c10Faults = []string{"honest", "badShare", "badCommit", "wrongIndex", "tOut", "wrongRecipient", "forgedSig", "replaySame", "replayOld", "badRnd", "rndIndex", "otherPolyThisSid"}

// justification kinds
var c10JKinds = []string{"good", "bad", "none", "other", "garbage", "othergarbage"}

type c10Node struct {
	id    int
	role  string
	ops   []string // model tokens
	impl  []string // implementation tokens (coarse out / state)
	kinds []string
	jviol []string // property-predicate failures observed on the real object at that step
}

type c10Run struct {
	c      *kc.Ctx
	be     vssBackend
	gname  string
	q      *big.Int
	n, t   int
	st     *sidTable
	nodes  map[int]*c10Node
	desc   []string
	faulty bool
	// ground truth
	consistent  map[int]bool // verifier -> the deal it was sent is a correct deal of the dealer's session
	approvedOwn map[int]bool
}

func (r *c10Run) node(id int) *c10Node {
	nd, ok := r.nodes[id]
	if !ok {
		role := fmt.Sprintf("v%x", id)
		if id < 0 {
			role = fmt.Sprintf("d%x:%s", r.t, r.st.tok(r.be.dealerSID()))
		}
		nd = &c10Node{id: id, role: role}
		r.nodes[id] = nd
	}
	return nd
}

func (r *c10Run) vname() string {
	if r.be.variant() == "p" {
		return "pedersen"
	}
	return "rabin"
}

// rec records one executed op: model token, implementation outcome and the state right after it, and
// evaluates the certification predicate on the real state.
func (r *c10Run) rec(id int, tok, kind, out string) *aggSnap {
	nd := r.node(id)
	s := r.be.snap(id)
	nd.ops = append(nd.ops, tok)
	nd.impl = append(nd.impl, out+"/"+s.render(r.st))
	nd.kinds = append(nd.kinds, kind)
	nd.jviol = append(nd.jviol, "")
	r.c.CountKind(r.vname() + ":" + kind + ":" + out)
	r.c.Eval(1)
	// (c) DealCertified only with >= t approvals (t a valid threshold), no bad dealer, P: no open complaint
	if s.cert == "1" {
		why := ""
		switch {
		case s.bad:
			why = "bad-dealer"
		case s.approvals() < int(s.t):
			why = "fewer-than-t-approvals"
		case s.t < 2 || int(s.t) > r.n:
			why = "threshold-out-of-range"
		case r.be.variant() == "p" && s.openComplaint():
			why = "open-complaint"
		case r.be.variant() == "p" && !s.timeout && len(s.responses) < r.n:
			why = "absent-before-timeout"
		case r.be.variant() == "p" && s.timeout && r.n-len(s.responses) > r.n-int(s.t):
			why = "too-many-absent"
		case r.be.variant() == "r" && len(s.responses) < r.n:
			why = "absent"
		}
		if why != "" {
			key := r.vname() + ":DealCertified:" + why
			nd.jviol[len(nd.jviol)-1] = key
			r.c.Violation(key, fmt.Sprintf("DealCertified()=true with state %s on node %s", s.render(r.st), nd.role), r.replay(nd))
		}
	}
	if s.enough == "1" && (s.t < 2 || int(s.t) > r.n) {
		key := r.vname() + ":EnoughApprovals:threshold-out-of-range"
		if nd.jviol[len(nd.jviol)-1] == "" {
			nd.jviol[len(nd.jviol)-1] = key
		}
		r.c.Violation(key, fmt.Sprintf("EnoughApprovals()=true with state %s on node %s", s.render(r.st), nd.role), r.replay(nd))
	}
	return s
}

func (r *c10Run) replay(nd *c10Node) map[string]any {
	return map[string]any{"variant": r.vname(), "group": r.gname, "n": r.n, "t": r.t, "scenario": r.desc, "node": nd.role,
		"model_ops": nd.ops, "impl": nd.impl, "kinds": nd.kinds}
}

func (r *c10Run) line(nd *c10Node, strict bool) string {
	return fmt.Sprintf("vss %s %s %x %s %s %s %s", r.be.variant(), b01(strict), r.n, kc.HexN(r.q), kc.HexN(r.be.hlog()), nd.role, strings.Join(nd.ops, " "))
}

// ---- operations ------------------------------------------------------------------------------

func (r *c10Run) opDeal(v int, e any, sigOK, opens bool, d *mdeal, kind string) *mresp {
	// the model is told the session identifier the deal's content yields when it is not the announced one
	if cs := r.be.contentSID(d); !bytes.Equal(cs, d.sid) {
		d = d.clone()
		d.csid = cs
	}
	out, resp, _ := r.be.procDeal(v, e)
	r.rec(v, fmt.Sprintf("E:%s:%s:%s", b01(sigOK), b01(opens), d.line(r.st)), "E-"+kind, out)
	if out == "approve" {
		r.approvedOwn[v] = true
	}
	return resp
}

func (r *c10Run) opResp(id int, m *mresp, kind string) *mjust {
	out, j, _ := r.be.procResp(id, m)
	r.rec(id, m.line(r.st), "R-"+kind, out)
	return j
}

// opJust applies a justification and evaluates the property's justification clause on the real
// object: an incorrect justification never clears a complaint; a validly signed incorrect one marks
// the dealer bad; a correct one clears the complaint.
func (r *c10Run) opJust(v int, j *mjust) {
	before := r.be.snap(v)
	out, _ := r.be.procJust(v, j)
	after := r.rec(v, j.line(r.st), "J-"+j.kind, out)
	nd := r.node(v)
	if !before.present || out == "panic" {
		return
	}
	st, open := before.responses[j.idx]
	open = open && !st
	if !open {
		return
	}
	cleared := after.responses[j.idx]
	key := ""
	switch {
	case !j.sigOK:
		// not issued by the dealer: may never lift a complaint
		if cleared {
			key = r.vname() + ":verifyJustification:unverified-signature-accepted"
		}
	case j.deal.i != j.idx:
		if cleared {
			key = r.vname() + ":verifyJustification:deal-of-other-index-accepted"
		}
	case j.kind == "good":
		// only decidable as "must clear" when the verifier's own session view matches the deal
		if !cleared && !after.bad && before.hasDeal && string(before.sid) == string(j.deal.sid) && before.t == j.deal.t {
			key = r.vname() + ":verifyJustification:correct-justification-rejected"
		}
	case j.kind == "bad":
		if cleared {
			key = r.vname() + ":verifyJustification:invalid-deal-accepted"
		} else if !after.bad {
			key = r.vname() + ":verifyJustification:invalid-justification-not-flagged"
		}
	}
	if key != "" {
		nd.jviol[len(nd.jviol)-1] = key
		r.c.Violation(key, fmt.Sprintf("justification kind=%s for index %d on node %s: out=%s, slot %v -> %v, badDealer=%v", j.kind, j.idx, nd.role, out, st, cleared, after.bad), r.replay(nd))
	}
}

func (r *c10Run) opTimeout(id int) {
	r.rec(id, "T", "T", r.be.setTimeout(id))
}

// ---- scenario ---------------------------------------------------------------------------------

type c10Spec struct {
	variant  string
	mock     bool
	n, t     int
	faults   []int // index into c10Faults per verifier
	behav    []int // 0 as computed, 1 lie (flip, re-sign), 2 absent
	jkind    []int // index into c10JKinds per verifier (used if that verifier's complaint reaches the dealer)
	tpos     int   // -1 none, 0 before deals, 1 after deals, 2 mid responses, 3 after responses, 4 after justifications
	noise    bool
	selfResp bool // verifiers also receive their own broadcast response
}

func (s *c10Spec) String() string {
	fs := make([]string, len(s.faults))
	for i, f := range s.faults {
		fs[i] = c10Faults[f]
	}
	js := make([]string, len(s.jkind))
	for i, j := range s.jkind {
		js[i] = c10JKinds[j]
	}
	return fmt.Sprintf("%s mock=%v n=%d t=%d faults=%v behav=%v just=%v tpos=%d noise=%v self=%v", s.variant, s.mock, s.n, s.t, fs, s.behav, js, s.tpos, s.noise, s.selfResp)
}

func c10Backend(variant string, mock bool, rng *kc.Rng) (vssBackend, *big.Int, string) {
	var suite vssSuite
	var q *big.Int
	name := "ed25519"
	if mock {
		suite = dlgroup.New(dlgroup.L, rng.Fork("suite"))
		q = dlgroup.L
		name = "dlgroup"
	} else {
		suite = edwards25519.NewBlakeSHA256Ed25519WithRand(rng.Fork("suite"))
		q = dlgroup.L
	}
	if variant == "p" {
		return newPedBackend(suite, q), q, name
	}
	return newRabBackend(suite, q), q, name
}

func addMod(a *big.Int, d int64, q *big.Int) *big.Int {
	v := new(big.Int).Add(a, big.NewInt(d))
	return v.Mod(v, q)
}

// runScenario plays one scenario on real objects and returns the per-node histories.
func c10RunScenario(c *kc.Ctx, sp *c10Spec, rng *kc.Rng) (*c10Run, error) {
	be, q, gname := c10Backend(sp.variant, sp.mock, rng)
	if err := be.setup(sp.n, sp.t); err != nil {
		return nil, err
	}
	r := &c10Run{c: c, be: be, gname: gname, q: q, n: sp.n, t: sp.t, st: &sidTable{}, nodes: map[int]*c10Node{},
		desc: []string{sp.String()}, consistent: map[int]bool{}, approvedOwn: map[int]bool{}}
	r.st.tok(be.dealerSID())
	n := sp.n
	all := make([]int, 0, n+1)
	for i := 0; i < n; i++ {
		all = append(all, i)
		r.node(i)
	}
	all = append(all, -1)
	r.node(-1)
	timeoutAll := func(pos int) {
		if sp.tpos == pos {
			for _, id := range all {
				r.opTimeout(id)
			}
		}
	}
	timeoutAll(0)
	// --- deals
	var old vssBackend
	resps := make([]*mresp, n)
	for i := 0; i < n; i++ {
		f := c10Faults[sp.faults[i]]
		if sp.variant == "p" && (f == "badRnd" || f == "rndIndex") {
			f = "badShare"
		}
		if f != "honest" {
			r.faulty = true
		}
		d := be.plain(i)
		var e any
		var err error
		sigOK, opens := true, true
		other := (i + 1 + rng.Intn(n-1)) % n
		switch f {
		case "honest":
			e, err = be.encHonest(i)
			r.consistent[i] = true
		case "badShare":
			d.v = addMod(d.v, 1+int64(rng.Intn(3)), q)
			e, err = be.encFor(i, d)
		case "badRnd":
			d.rv = addMod(d.rv, 1, q)
			e, err = be.encFor(i, d)
		case "rndIndex":
			d.ri = uint32(other)
			e, err = be.encFor(i, d)
		case "badCommit":
			k := rng.Intn(len(d.cpts))
			d.cpts[k] = d.cpts[k].Clone().Add(d.cpts[k], d.cpts[k].Clone().Base())
			d.clogs[k] = addMod(d.clogs[k], 1, q)
			e, err = be.encFor(i, d)
		case "wrongIndex":
			d = be.plain(other)
			e, err = be.encFor(i, d)
		case "tOut":
			d.t = []uint32{0, 1, uint32(n + 1), uint32(n + 7)}[rng.Intn(4)]
			e, err = be.encFor(i, d)
		case "wrongRecipient":
			d = be.plain(other)
			e, err = be.encHonest(other)
			opens = false
		case "forgedSig":
			e, err = be.encHonest(i)
			if err == nil {
				e = be.tamperSig(e)
			}
			sigOK = false
		case "replaySame":
			e, err = be.encHonest(i)
			r.consistent[i] = true
		case "replayOld":
			if old == nil {
				old, err = be.newSession()
				if err != nil {
					return nil, err
				}
			}
			d = old.plain(i)
			e, err = old.encHonest(i)
		case "otherPolyThisSid":
			// equivocation: a self-consistent deal of ANOTHER polynomial (other commitments), labelled with
			// this session's identifier and encrypted by this session's dealer
			if old == nil {
				old, err = be.newSession()
				if err != nil {
					return nil, err
				}
			}
			d = old.plain(i)
			d.sid = be.plain(i).sid
			e, err = be.encFor(i, d)
		}
		if err != nil {
			return nil, fmt.Errorf("building deal %s for %d: %v", f, i, err)
		}
		resps[i] = r.opDeal(i, e, sigOK, opens, d, f)
		if f == "replaySame" {
			// the same ciphertext again: must be refused, state unchanged
			r.opDeal(i, e, sigOK, opens, d, "replaySame2")
		}
		// (b) a verifier approves only a consistent deal that authenticates for it
		if resps[i] != nil && resps[i].approved && !(f == "honest" || f == "replaySame" || f == "replayOld") {
			key := r.vname() + ":ProcessEncryptedDeal:approved-" + f
			c.Violation(key, "verifier approved a deal with fault "+f, r.replay(r.node(i)))
		}
		if (f == "honest" || f == "replaySame") && (resps[i] == nil || !resps[i].approved) {
			c.Violation(r.vname()+":ProcessEncryptedDeal:honest-deal-not-approved", "verifier did not approve the honest deal", r.replay(r.node(i)))
		}
	}
	timeoutAll(1)
	// --- responses
	type bmsg struct {
		m    *mresp
		kind string
	}
	var bcast []bmsg
	for j := 0; j < n; j++ {
		switch sp.behav[j] {
		case 0:
			if resps[j] != nil {
				bcast = append(bcast, bmsg{resps[j], "own"})
			}
		case 1:
			r.faulty = true
			sid, ap := be.dealerSID(), false
			if resps[j] != nil {
				sid, ap = resps[j].sid, !resps[j].approved
			}
			m := &mresp{sid: sid, idx: uint32(j), approved: ap, sigOK: true}
			m.sig = be.signResp(j, sid, uint32(j), ap)
			bcast = append(bcast, bmsg{m, "lie"})
		case 2:
			r.faulty = true
		}
	}
	if sp.noise && len(bcast) > 0 {
		r.faulty = true
		src := bcast[rng.Intn(len(bcast))].m
		bs := *src
		bs.sig = append([]byte{}, src.sig...)
		bs.sig[3] ^= 1
		bs.sigOK = false
		bcast = append(bcast, bmsg{&bs, "badsig"})
		// signed by somebody else
		k := (int(src.idx) + 1) % n
		ws := *src
		ws.sig = be.signResp(k, src.sid, src.idx, src.approved)
		ws.sigOK = false
		bcast = append(bcast, bmsg{&ws, "wrongsigner"})
		// other session id, correctly signed
		osid := append([]byte{0x55}, src.sid...)
		bcast = append(bcast, bmsg{&mresp{sid: osid, idx: src.idx, approved: src.approved, sig: be.signResp(int(src.idx), osid, src.idx, src.approved), sigOK: true}, "othersid"})
		// index out of range
		bcast = append(bcast, bmsg{&mresp{sid: src.sid, idx: uint32(n + rng.Intn(3)), approved: true, sig: src.sig, sigOK: false}, "range"})
		// the signed response with its status flipped and the signature kept: the status is covered by the signature
		st := *src
		st.approved = !src.approved
		st.sig = append([]byte{}, src.sig...)
		st.sigOK = false
		bcast = append(bcast, bmsg{&st, "statusflip"})
		// duplicate and equivocation
		bcast = append(bcast, bmsg{src, "dup"})
		fl := &mresp{sid: src.sid, idx: src.idx, approved: !src.approved, sigOK: true}
		fl.sig = be.signResp(int(src.idx), src.sid, src.idx, fl.approved)
		bcast = append(bcast, bmsg{fl, "equivocate"})
	}
	justs := map[uint32]*mjust{} // what the (honest) dealer object emitted
	for _, id := range all {
		order := rngPerm(rng.Fork(fmt.Sprint("perm", id)), len(bcast))
		for k, bi := range order {
			if sp.tpos == 2 && k == len(order)/2 {
				r.opTimeout(id)
			}
			m := bcast[bi]
			if id >= 0 && int(m.m.idx) == id && (m.kind == "own" || m.kind == "dup") && !sp.selfResp {
				continue
			}
			if j := r.opResp(id, m.m, m.kind); j != nil {
				justs[j.idx] = j
			}
		}
		if sp.tpos == 2 && len(order) == 0 {
			r.opTimeout(id)
		}
	}
	timeoutAll(3)
	// --- justifications (played by a possibly malicious dealer holding the real long-term key)
	var jl []*mjust
	idxs := make([]int, 0)
	for k := range justs {
		idxs = append(idxs, int(k))
	}
	sort.Ints(idxs)
	for _, ci := range idxs {
		real := justs[uint32(ci)]
		other := (ci + 1 + rng.Intn(n-1)) % n
		switch c10JKinds[sp.jkind[ci]] {
		case "good":
			jl = append(jl, real)
		case "bad":
			bd := real.deal.clone()
			bd.v = addMod(bd.v, 1, q)
			jl = append(jl, &mjust{sid: real.sid, idx: real.idx, deal: bd, sig: be.signJust(real.sid, real.idx, bd), sigOK: true, kind: "bad"})
			r.faulty = true
		case "none":
		case "other":
			od := be.plain(other)
			jl = append(jl, &mjust{sid: real.sid, idx: real.idx, deal: od, sig: be.signJust(real.sid, real.idx, od), sigOK: true, kind: "other"})
			r.faulty = true
		case "garbage":
			jl = append(jl, &mjust{sid: real.sid, idx: real.idx, deal: real.deal, sig: []byte("garbage"), sigOK: false, kind: "garbage"})
			r.faulty = true
		case "othergarbage":
			jl = append(jl, &mjust{sid: real.sid, idx: real.idx, deal: be.plain(other), sig: []byte("garbage"), sigOK: false, kind: "othergarbage"})
			r.faulty = true
		}
	}
	if sp.noise {
		// justification for a slot that holds no complaint / is out of range
		x := rng.Intn(n)
		dx := be.plain(x)
		jl = append(jl, &mjust{sid: be.dealerSID(), idx: uint32(x), deal: dx, sig: be.signJust(be.dealerSID(), uint32(x), dx), sigOK: true, kind: "noise"})
		jl = append(jl, &mjust{sid: be.dealerSID(), idx: uint32(n), deal: dx, sig: be.signJust(be.dealerSID(), uint32(n), dx), sigOK: true, kind: "noise"})
	}
	for v := 0; v < n; v++ {
		for _, k := range rngPerm(rng.Fork(fmt.Sprint("jperm", v)), len(jl)) {
			r.opJust(v, jl[k])
		}
	}
	timeoutAll(4)
	return r, nil
}

// c10EndPredicates: honest run => all approve, everyone certified; certified verifiers that approved
// their own deal recover the dealer's secret with ANY t of them.
func c10EndPredicates(c *kc.Ctx, r *c10Run, sp *c10Spec) {
	be := r.be
	honest := !r.faulty
	var good []int // certified, own deal approved by VerifyDeal, of the dealer's session
	for v := 0; v < r.n; v++ {
		ok, sid, idx, sh := be.certDeal(v)
		s := be.snap(v)
		if honest && (sp.tpos < 0 || sp.tpos >= 3) && (s.cert != "1" || !ok) {
			c.Violation(r.vname()+":honest-run-not-certified", fmt.Sprintf("all honest, verifier %d not certified: %s", v, s.render(r.st)), r.replay(r.node(v)))
		}
		if ok && r.approvedOwn[v] && string(sid) == string(be.dealerSID()) {
			good = append(good, v)
			// its share lies on the dealer's polynomial
			want := be.plain(v)
			if int(idx) != v || sh.Cmp(want.v) != 0 || !r.consistent[v] {
				c.Violation(r.vname()+":certified-share-off-polynomial", fmt.Sprintf("verifier %d holds a certified approved share that is not the dealer's", v), r.replay(r.node(v)))
			}
		}
	}
	if honest && (sp.tpos < 0 || sp.tpos >= 3) {
		ds := be.snap(-1)
		cert, ok := be.dealerSecretCommitOK()
		if ds.cert != "1" || !cert || !ok {
			c.Violation(r.vname()+":honest-run-dealer", fmt.Sprintf("all honest, dealer certified=%v secret commit ok=%v", cert, ok), r.replay(r.node(-1)))
		}
	}
	if len(good) >= r.t {
		subs := kSubsets(good, r.t)
		for _, sub := range subs {
			got, err := be.recover(sub)
			c.Eval(1)
			c.CountKind(r.vname() + ":recover")
			if err != nil || got.Cmp(be.secret()) != 0 {
				c.Violation(r.vname()+":RecoverSecret:wrong", fmt.Sprintf("t approved certified deals %v do not recover the dealer's secret (err=%v)", sub, err), r.replay(r.node(sub[0])))
			}
		}
	}
}

func kSubsets(xs []int, k int) [][]int {
	var out [][]int
	var rec func(start int, cur []int)
	rec = func(start int, cur []int) {
		if len(cur) == k {
			out = append(out, append([]int{}, cur...))
			return
		}
		for i := start; i < len(xs); i++ {
			rec(i+1, append(cur, xs[i]))
		}
	}
	rec(0, nil)
	return out
}

// ---- comparison -------------------------------------------------------------------------------

type c10Pending struct {
	r  *c10Run
	nd *c10Node
}

// implVsModel compares the implementation tokens with the model's (fine outcome coarsened).
func c10Equal(impl []string, model string) (bool, int) {
	mt := strings.Fields(model)
	if len(impl) == 0 && model == "-" {
		return true, -1
	}
	if len(mt) != len(impl) {
		return false, 0
	}
	for i := range impl {
		k := strings.Index(mt[i], "/")
		if k < 0 {
			return false, i
		}
		if coarse(mt[i][:k])+mt[i][k:] != impl[i] {
			return false, i
		}
	}
	return true, -1
}

func c10Flush(c *kc.Ctx, pend []c10Pending) {
	if len(pend) == 0 {
		return
	}
	lines := make([]string, 0, 2*len(pend))
	for _, p := range pend {
		lines = append(lines, p.r.line(p.nd, true), p.r.line(p.nd, false))
	}
	outs := c.Model(lines)
	c.Program(len(pend))
	for i, p := range pend {
		strictOut, lenientOut := outs[2*i], outs[2*i+1]
		for _, tk := range strings.Fields(lenientOut) {
			if k := strings.Index(tk, "/"); k > 0 {
				c.CountKind("model-out:" + tk[:k])
			}
		}
		if i%(len(pend)/6+1) == 0 {
			c.Sample(map[string]string{"line": lines[2*i], "impl": strings.Join(p.nd.impl, " "), "model": strictOut})
		}
		okS, at := c10Equal(p.nd.impl, strictOut)
		if okS {
			continue
		}
		okL, atL := c10Equal(p.nd.impl, lenientOut)
		explained := false
		if okL {
			// the implementation follows the as-coded model and departs from the repaired one. That is
			// accounted for iff the property predicate already failed on the real object at or before
			// the first departure (reported there under its own key), or the departure is a repaired
			// check firing (error class / adoption of the revealed deal) without a property-level effect
			for k := 0; k <= at && k < len(p.nd.jviol); k++ {
				if p.nd.jviol[k] != "" {
					explained = true
				}
			}
			st := strings.Fields(strictOut)
			if at < len(st) && (strings.HasPrefix(st[at], "err:just-sig/") || strings.HasPrefix(st[at], "err:just-unbound/")) {
				explained = true
			}
		}
		if explained {
			c.CountKind("as-coded-path-explained-by-reported-finding")
			continue
		}
		_ = atL
		c.Disagree(lines[2*i], strings.Join(p.nd.impl, " "), strictOut, fmt.Sprintf("lenient model: %s; first difference at op %d", lenientOut, at))
		c.DisChecked(1)
		// the property predicates were evaluated on the real objects during the run; a disagreement
		// without a predicate failure means the model no longer describes the code
		hadViolation := false
		for _, k := range p.nd.jviol {
			if k != "" {
				hadViolation = true
			}
		}
		if !hadViolation {
			c.Unshown("correspondence:"+p.r.vname(), fmt.Sprintf("model and implementation differ at op %d of %s", at, lines[2*i]), map[string]any{
				"replay": p.r.replay(p.nd), "strict_model": strictOut, "lenient_model": lenientOut})
		}
	}
}

func runC10(c *kc.Ctx) {
	c.SetRule("case = one participant's operation history in one scenario (variant, group, n, t, per-verifier deal fault, response behaviour, justification kind, timeout position, delivery order); non-trivial = scenario with at least one fault, complaint, forged/duplicate message or timeout; distinct by the model line (op tokens with all values)")
	c.Assume("H_AEAD/H_KDF: the signed-DH + HKDF + AES-GCM envelope opens exactly for the addressed verifier (abstracted to booleans in the model, exercised on the real code)",
		"H_RO: Schnorr signatures are abstracted to valid/invalid; the harness knows who signed what",
		"Rabin on Ed25519: log_G H is unknown, the model sees the homomorphic image a·G+b·H -> a+b·h' for a random h'",
		"error message text is not compared (outcome classes approve/complain/ok/justif/err/panic and the full aggregation state are)")
	var pend []c10Pending
	scen := 0
	play := func(sp *c10Spec, rng *kc.Rng) {
		r, err := c10RunScenario(c, sp, rng)
		if err != nil {
			c.Unshown("harness:"+sp.variant, "scenario could not be built: "+err.Error(), sp.String())
			return
		}
		c10EndPredicates(c, r, sp)
		scen++
		ids := make([]int, 0, len(r.nodes))
		for id := range r.nodes {
			ids = append(ids, id)
		}
		sort.Ints(ids)
		for _, id := range ids {
			nd := r.nodes[id]
			pend = append(pend, c10Pending{r, nd})
			if r.faulty || sp.tpos >= 0 {
				c.Nontrivial(r.line(nd, true))
			}
		}
		if len(pend) >= 4000 {
			c10Flush(c, pend)
			pend = nil
		}
	}
	rng := c.Rng.Fork("c10")
	validTs := func(n int) []int {
		var ts []int
		for t := 2; t <= n; t++ {
			ts = append(ts, t)
		}
		return ts
	}
	zeros := func(n int) []int { return make([]int, n) }
	// Family A: deal faults. Exhaustive assignments for n <= 4 on the mock group (thorough: also on
	// Ed25519), sampled above; responses as computed, dealer justifies honestly.
	for _, variant := range []string{"p", "r"} {
		for _, mock := range []bool{true, false} {
			for n := 3; n <= 6; n++ {
				for _, t := range validTs(n) {
					nf := len(c10Faults)
					total := 1
					for i := 0; i < n; i++ {
						total *= nf
					}
					exhaustive := n <= 4 && mock && (n == 3 || c.Thorough())
					if !mock && n == 3 && c.Thorough() {
						exhaustive = true
					}
					count := total
					if !exhaustive {
						count = c.N(24, 400)
						if !mock {
							count = c.N(6, 120)
						}
					}
					for k := 0; k < count; k++ {
						code := k
						if !exhaustive {
							code = rng.Intn(total)
						}
						sp := &c10Spec{variant: variant, mock: mock, n: n, t: t, faults: zeros(n), behav: zeros(n), jkind: zeros(n), tpos: -1}
						for i := 0; i < n; i++ {
							sp.faults[i] = code % nf
							code /= nf
						}
						sp.tpos = []int{-1, -1, 3, 4, 1}[rng.Intn(5)]
						sp.selfResp = rng.Intn(4) == 0
						play(sp, rng.Fork(fmt.Sprint("A", variant, mock, n, t, k)))
					}
				}
			}
		}
	}
	c.Extra("scenarios_family_A_deal_faults", scen)
	a := scen
	// Family B: response / justification / timeout histories. Each verifier: approves (honest deal),
	// complains (bad share) or is absent / lies; each complaint: justification kind; timeout position.
	// Exhaustive for n <= 4 on the mock group, sampled above and on Ed25519.
	for _, variant := range []string{"p", "r"} {
		for _, mock := range []bool{true, false} {
			for n := 3; n <= 6; n++ {
				for _, t := range validTs(n) {
					// per verifier: 0 approve, 1 complain (bad share), 2 absent, 3 lie
					total := 1
					for i := 0; i < n; i++ {
						total *= 4
					}
					exhaustive := mock && n <= 4
					count := total
					if !exhaustive {
						count = c.N(16, 300)
						if !mock {
							count = c.N(6, 100)
						}
					}
					for k := 0; k < count; k++ {
						code := k
						if !exhaustive {
							code = rng.Intn(total)
						}
						reps := 1
						if exhaustive {
							reps = c.N(2, 8)
						}
						for rep := 0; rep < reps; rep++ {
							sp := &c10Spec{variant: variant, mock: mock, n: n, t: t, faults: zeros(n), behav: zeros(n), jkind: zeros(n)}
							cc := code
							for i := 0; i < n; i++ {
								switch cc % 4 {
								case 1:
									sp.faults[i] = 1
								case 2:
									sp.behav[i] = 2
								case 3:
									sp.behav[i] = 1
								}
								cc /= 4
								sp.jkind[i] = rng.Intn(len(c10JKinds))
							}
							sp.tpos = rng.Intn(6) - 1
							sp.noise = rng.Intn(3) == 0
							sp.selfResp = rng.Intn(3) == 0
							play(sp, rng.Fork(fmt.Sprint("B", variant, mock, n, t, k, rep)))
						}
					}
				}
			}
		}
	}
	c.Extra("scenarios_family_B_histories", scen-a)
	c10Flush(c, pend)
	pend = nil
	c10Fuzz(c, rng.Fork("fuzz"))
	c10NilScalar(c, rng.Fork("nil"))
}

func init() { register("C10", "proof", runC10) }
