package main

// C08 — Schnorr, EdDSA and ring signatures accept exactly honest signatures.
// Correspondence and search: SHA-512/256 model vs crypto/sha*, EdDSA byte for byte (model vs sign/eddsa
// vs crypto/ed25519), canonicity / small-order predicates, Schnorr on every group family and on the mock
// discrete-log group, ring signatures (sizes 1..8, every position, with/without scope).
// The property's own predicates are always evaluated directly on the real code (sig_*.go).

import (
	"crypto/sha256"
	"crypto/sha512"
	"encoding/json"
	"fmt"
	"os"

	"verifharness/internal/kc"
)

func c08Sha(c *kc.Ctx) {
	rng := c.Rng.Fork("sha")
	b := &sigBatch{c: c}
	lens := map[int]bool{}
	for l := 0; l <= 300; l++ {
		lens[l] = true
	}
	for _, l := range []int{111, 112, 127, 128, 129, 239, 240, 255, 256, 257, 367, 368, 383, 384, 385, 511, 512, 513, 1023, 1024, 1025, 4095, 4096, 4097,
		55, 56, 63, 64, 65, 119, 120} {
		lens[l] = true
	}
	for i := 0; i < c.N(10, 200); i++ {
		lens[301+rng.Intn(8000)] = true
	}
	reps := c.N(1, 4)
	for l := range lens {
		pats := [][]byte{make([]byte, l), bytesOf(l, 0xff)}
		for r := 0; r < reps; r++ {
			pats = append(pats, rng.Bytes(l))
		}
		for pi, m := range pats {
			if l == 0 && pi > 0 {
				break
			}
			d5 := sha512.Sum512(m)
			d2 := sha256.Sum256(m)
			key := ""
			if pi >= 2 || l == 0 {
				key = fmt.Sprintf("%d:%x", l, d2[:8])
			}
			b.add("sha512", "sha 512 "+kc.HexB(m), kc.HexB(d5[:]), key, false, nil)
			b.add("sha256", "sha 256 "+kc.HexB(m), kc.HexB(d2[:]), key, false, nil)
		}
	}
	b.run(nil)
}

// c08Replay re-establishes the run a replay file came from: the whole check is a deterministic function
// of (seed, tier), so re-running it with the recorded values reproduces the recorded failure.
func c08Replay(c *kc.Ctx) {
	b, err := os.ReadFile(c.ReplayFile)
	if err != nil {
		fmt.Fprintf(os.Stderr, "kcheck: cannot read replay %s: %v\n", c.ReplayFile, err)
		os.Exit(2)
	}
	var r struct {
		Seed uint64 `json:"seed"`
		Tier string `json:"tier"`
		Key  string `json:"key"`
	}
	if json.Unmarshal(b, &r) != nil || r.Tier == "" {
		fmt.Fprintf(os.Stderr, "kcheck: %s is not a C08 replay\n", c.ReplayFile)
		os.Exit(2)
	}
	h := sha256.Sum256([]byte(c.Prop))
	mix := uint64(0)
	for i := 0; i < 8; i++ {
		mix = mix<<8 | uint64(h[i])
	}
	c.Seed, c.Tier, c.Rng = r.Seed, r.Tier, kc.NewRng(r.Seed^mix)
	fmt.Printf("replaying seed=%d tier=%s (recorded failure key: %s)\n", r.Seed, r.Tier, r.Key)
}

func runC08(c *kc.Ctx) {
	if c.ReplayFile != "" {
		c08Replay(c)
	}
	c.SetRule("cases = (scheme, group/configuration, key, message, mutation); generated from one PRNG; non-trivial = honest signatures, " +
		"every mutated (pub,msg,sig) triple, predicate inputs, SHA inputs with random content; distinct by (kind, input bytes / scalars)")
	c.Assume("H_RO: Fiat–Shamir challenges are oracle values in the Schnorr and ring-signature models (SHA-512 is concrete in the EdDSA model)",
		"Ed25519 group law / L•B = O enter the EdDSA theorems as the explicit hypothesis bundle EdLaws (Lib/SigEd.lean) until Lib/Edwards* lands",
		"limb arithmetic, crypto/sha512 and crypto/ed25519 are compared, not proved",
		"Schnorr hash layout R‖A‖m is assumed by the harness when it computes oracle values for the dlgroup model; it is cross-checked algebraically on honest signatures")
	c08Sha(c)
	c08EdPredicates(c)
	c08EdDSA(c)
	c08Schnorr(c)
	c08Ring(c)
}

func init() { register("C08", "proof", runC08) }
