package main

// Environments and observation wrappers for the sigma-protocol checks (C14, C15).
//
// A check never re-implements proof/hash.go: challenges (PubRand), private randomness (PriRand) and
// prover messages (Put) are *observed* through wrappers around the real ProverContext /
// VerifierContext and handed to the Lean model as its oracle / randomness inputs.

import (
	"bytes"
	"crypto/cipher"
	"math/big"
	"reflect"

	"go.dedis.ch/kyber/v4"
	"go.dedis.ch/kyber/v4/proof"

	"verifharness/internal/dlgroup"
	"verifharness/internal/kc"
)

// sgEnv is one group the protocols run over.
type sgEnv struct {
	name  string
	suite proof.Suite
	q     *big.Int
	mock  bool
	w     int // width of the mock encoding of q
}

// detSuite overrides the suite's random stream (deterministic runs from VERIF_SEED).
type detSuite struct {
	proof.Suite
	r cipher.Stream
}

func (d *detSuite) RandomStream() cipher.Stream { return d.r }

func sgMockEnv(r *kc.Rng) *sgEnv {
	s := dlgroup.New(dlgroup.L, r)
	return &sgEnv{name: "dlgroup", suite: s, q: new(big.Int).Set(dlgroup.L), mock: true, w: (dlgroup.L.BitLen() + 7) / 8}
}

func sgRealEnv(name string, s proof.Suite, r *kc.Rng) *sgEnv {
	q := new(big.Int).Set(s.Scalar().GroupOrder().ToBigInt())
	return &sgEnv{name: name, suite: &detSuite{s, r}, q: q, w: (q.BitLen() + 7) / 8}
}

func (e *sgEnv) sc(v *big.Int) kyber.Scalar {
	s := e.suite.Scalar()
	b := new(big.Int).Mod(v, e.q).FillBytes(make([]byte, s.MarshalSize()))
	if s.ByteOrder() == kyber.LittleEndian {
		for i, j := 0, len(b)-1; i < j; i, j = i+1, j-1 {
			b[i], b[j] = b[j], b[i]
		}
	}
	return s.SetBytes(b)
}

func (e *sgEnv) scBig(s kyber.Scalar) *big.Int {
	b, err := s.MarshalBinary()
	if err != nil {
		panic(err)
	}
	if s.ByteOrder() == kyber.LittleEndian {
		return new(big.Int).Mod(kc.LeN(b), e.q)
	}
	return new(big.Int).Mod(kc.BeN(b), e.q)
}

// pt returns v·Base.
func (e *sgEnv) pt(v *big.Int) kyber.Point { return e.suite.Point().Mul(e.sc(v), nil) }

func (e *sgEnv) mockS(v *big.Int) []byte {
	return new(big.Int).Mod(v, e.q).FillBytes(make([]byte, e.w))
}
func (e *sgEnv) mockP(v *big.Int) []byte { return append([]byte{1}, e.mockS(v)...) }

// badS / badP are mock cells that the mock decoder rejects (value out of range / wrong tag).
func (e *sgEnv) badS() []byte { return bytes.Repeat([]byte{0xff}, e.w) }
func (e *sgEnv) badP() []byte { return append([]byte{9}, make([]byte, e.w)...) }

// ---------------------------------------------------------------------------------------------
// cells: the flat sequence of scalars and points inside a message

type sgCell struct {
	s kyber.Scalar
	p kyber.Point
}

func (c sgCell) isPoint() bool { return c.p != nil }

var sgScalarT = reflect.TypeFor[kyber.Scalar]()
var sgPointT = reflect.TypeFor[kyber.Point]()

// sgFlatten walks a message the way fixbuf does (structs, slices, arrays, pointers, interfaces).
func sgFlatten(v any, out *[]sgCell) {
	if v == nil {
		return
	}
	if s, ok := v.(kyber.Scalar); ok {
		*out = append(*out, sgCell{s: s.Clone()})
		return
	}
	if p, ok := v.(kyber.Point); ok {
		*out = append(*out, sgCell{p: p.Clone()})
		return
	}
	rv := reflect.ValueOf(v)
	switch rv.Kind() {
	case reflect.Ptr, reflect.Interface:
		if !rv.IsNil() {
			sgFlatten(rv.Elem().Interface(), out)
		}
	case reflect.Struct:
		for i := 0; i < rv.NumField(); i++ {
			if rv.Field(i).CanInterface() {
				sgFlatten(rv.Field(i).Interface(), out)
			}
		}
	case reflect.Slice, reflect.Array:
		for i := 0; i < rv.Len(); i++ {
			sgFlatten(rv.Index(i).Interface(), out)
		}
	}
}

func (e *sgEnv) scalarsOf(data []any) []*big.Int {
	var cells []sgCell
	for _, d := range data {
		sgFlatten(d, &cells)
	}
	var out []*big.Int
	for _, c := range cells {
		if c.s != nil {
			out = append(out, e.scBig(c.s))
		}
	}
	return out
}

// ---------------------------------------------------------------------------------------------
// observation wrappers

type sgSpyP struct {
	e      *sgEnv
	inner  proof.ProverContext
	pri    []*big.Int   // private random scalars in the order drawn
	pub    []*big.Int   // public random scalars in the order obtained
	rounds [][]*big.Int // the same, per PubRand call
	npub   int          // PubRand calls
	puts   [][]sgCell   // cells of every Put, grouped by the PubRand round they precede
}

func (s *sgSpyP) Put(m any) error {
	for len(s.puts) <= s.npub {
		s.puts = append(s.puts, nil)
	}
	sgFlatten(m, &s.puts[s.npub])
	return s.inner.Put(m)
}
func (s *sgSpyP) PubRand(d ...any) error {
	err := s.inner.PubRand(d...)
	s.npub++
	if err == nil {
		s.pub = append(s.pub, s.e.scalarsOf(d)...)
		s.rounds = append(s.rounds, s.e.scalarsOf(d))
	}
	return err
}
func (s *sgSpyP) PriRand(d ...any) error {
	err := s.inner.PriRand(d...)
	if err == nil {
		s.pri = append(s.pri, s.e.scalarsOf(d)...)
	}
	return err
}

// sgSpyProver wraps a prover so that its context is observed.
func sgSpyProver(e *sgEnv, p proof.Prover) (proof.Prover, *sgSpyP) {
	spy := &sgSpyP{e: e}
	return func(ctx proof.ProverContext) error {
		spy.inner = ctx
		return (func(proof.ProverContext) error)(p)(spy)
	}, spy
}

type sgSpyV struct {
	e      *sgEnv
	inner  proof.VerifierContext
	pub    []*big.Int
	rounds [][]*big.Int
	npub   int
}

func (s *sgSpyV) Get(m any) error { return s.inner.Get(m) }
func (s *sgSpyV) PubRand(d ...any) error {
	err := s.inner.PubRand(d...)
	s.npub++
	if err == nil {
		s.pub = append(s.pub, s.e.scalarsOf(d)...)
		s.rounds = append(s.rounds, s.e.scalarsOf(d))
	}
	return err
}

func sgSpyVerifier(e *sgEnv, v proof.Verifier) (proof.Verifier, *sgSpyV) {
	spy := &sgSpyV{e: e}
	return func(ctx proof.VerifierContext) error {
		spy.inner = ctx
		return (func(proof.VerifierContext) error)(v)(spy)
	}, spy
}

// first returns the first observed public random scalar (0 if none was drawn).
func sgFirst(l []*big.Int) *big.Int {
	if len(l) == 0 {
		return new(big.Int)
	}
	return l[0]
}

// ---------------------------------------------------------------------------------------------
// real transcript <-> mock transcript

// cellBytes returns the real encoding of a cell.
func sgCellBytes(c sgCell) []byte {
	var b []byte
	if c.isPoint() {
		b, _ = c.p.MarshalBinary()
	} else {
		b, _ = c.s.MarshalBinary()
	}
	return b
}

// sgSplitMock cuts a mock transcript into cells following the kinds of `layout`.
func (e *sgEnv) splitMock(mock []byte, layout []sgCell) ([][]byte, bool) {
	var out [][]byte
	for _, c := range layout {
		n := e.w
		if c.isPoint() {
			n++
		}
		if len(mock) < n {
			return nil, false
		}
		out = append(out, mock[:n])
		mock = mock[n:]
	}
	return out, len(mock) == 0
}

// sameTranscript: do the model's mock cells denote the real cells (scalars by value, points by
// dlog·Base == point)?
func (e *sgEnv) sameTranscript(mock []byte, real []sgCell) bool {
	cells, ok := e.splitMock(mock, real)
	if !ok {
		return false
	}
	for i, c := range real {
		if c.isPoint() {
			if cells[i][0] != 1 || !e.pt(kc.BeN(cells[i][1:])).Equal(c.p) {
				return false
			}
		} else if kc.BeN(cells[i]).Cmp(e.scBig(c.s)) != 0 {
			return false
		}
	}
	return true
}
