package main

// C16: results that are alive together. A ciphertext or plaintext handed back by one call stays what it is when
// the same functions are called again: encrypt m1, encrypt m2, decrypt both (in both orders), keep every returned
// slice, and only then compare them with the messages — several rounds in a row, with equal and with different
// lengths (buffers that an implementation reuses between calls show up here and nowhere else).

import (
	"bytes"
	"crypto/sha256"
	"fmt"

	"go.dedis.ch/kyber/v4"
	"go.dedis.ch/kyber/v4/encrypt/ecies"
	"go.dedis.ch/kyber/v4/encrypt/ibe"
	"go.dedis.ch/kyber/v4/sign/anon"

	"verifharness/internal/groups"
	"verifharness/internal/kc"
)

type aliveScheme struct {
	name string
	enc  func(msg []byte) (any, error)
	dec  func(ct any) ([]byte, error)
	ctB  func(ct any) []byte // bytes of the ciphertext object (to see it change)
}

func c16ResultsAlive(c *kc.Ctx) {
	rng := c.Rng.Fork("alive")
	var schemes []aliveScheme
	for _, gn := range []string{"ed25519", "p256", "bn256-g1", "kilic-g1"} {
		g := groups.ByName(gn)
		if g == nil {
			continue
		}
		x := g.Group.Scalar().Pick(rng)
		X := g.Group.Point().Mul(x, nil)
		grp := g.Group
		schemes = append(schemes, aliveScheme{"ecies/" + gn,
			func(m []byte) (any, error) { return ecies.Encrypt(grp, X, m, sha256.New) },
			func(ct any) ([]byte, error) { return ecies.Decrypt(grp, x, ct.([]byte), sha256.New) },
			func(ct any) []byte { return ct.([]byte) }})
	}
	for _, s := range ibeSuites(c, rng.Fork("ibe")) {
		s := s
		for _, v := range ibeVariants {
			v := v
			kg, ig := v.keyGroup(s.s), v.idGroup(s.s)
			hp, ok := ig.Point().(kyber.HashablePoint)
			if !ok {
				continue
			}
			msk := kg.Scalar().Pick(rng)
			master := kg.Point().Mul(msk, nil)
			id := []byte("alive-id")
			priv := ig.Point().Mul(msk, hp.Hash(id))
			schemes = append(schemes, aliveScheme{"ibe-cca/" + v.name + "/" + s.name,
				func(m []byte) (any, error) { return v.enc(s.s, master, id, m) },
				func(ct any) ([]byte, error) { return v.dec(s.s, priv, ct.(*ibe.Ciphertext)) },
				func(ct any) []byte {
					x := ct.(*ibe.Ciphertext)
					u, _ := x.U.MarshalBinary()
					return append(append(u, x.V...), x.W...)
				}})
		}
	}
	for _, s := range anonSuites(c, rng.Fork("anon")) {
		s := s
		x0, x1 := s.s.Scalar().Pick(rng), s.s.Scalar().Pick(rng)
		set := anon.Set{s.s.Point().Mul(x0, nil), s.s.Point().Mul(x1, nil)}
		schemes = append(schemes, aliveScheme{"anon/" + s.name,
			func(m []byte) (any, error) { return anon.Encrypt(s.s, m, set) },
			func(ct any) ([]byte, error) { return anon.Decrypt(s.s, append([]byte{}, ct.([]byte)...), set, 1, x1) },
			func(ct any) []byte { return ct.([]byte) }})
	}
	for _, sc := range schemes {
		sc := sc
		for _, lens := range [][2]int{{16, 16}, {16, 31}, {32, 5}, {1, 1}} {
			if len(sc.name) > 7 && sc.name[:7] == "ibe-cca" && lens != [2]int{16, 16} {
				// IBE-CCA protects messages up to the hash size only; one length pair is enough there
				lens = [2]int{16, 16}
			}
			m1, m2 := rng.Bytes(lens[0]), rng.Bytes(lens[1])
			res := kc.Recover(func() string {
				for round := 0; round < c.N(12, 40); round++ {
					c1, e1 := sc.enc(append([]byte{}, m1...))
					var c1b []byte
					if e1 == nil {
						c1b = append([]byte{}, sc.ctB(c1)...)
					}
					c2, e2 := sc.enc(append([]byte{}, m2...))
					if e1 != nil || e2 != nil {
						return "encryption refused"
					}
					if !bytes.Equal(sc.ctB(c1), c1b) {
						return "a ciphertext changed when another message was encrypted"
					}
					p1, d1 := sc.dec(c1)
					p2, d2 := sc.dec(c2)
					p1b, d3 := sc.dec(c1)
					if d1 != nil || d2 != nil || d3 != nil {
						return "decryption of an honest ciphertext refused"
					}
					if !bytes.Equal(p1, m1) {
						return "a plaintext changed when another ciphertext was decrypted"
					}
					if !bytes.Equal(p2, m2) || !bytes.Equal(p1b, m1) {
						return "a plaintext changed when an earlier ciphertext was decrypted again"
					}
				}
				return ""
			})
			c.Eval(3)
			c.CountKind("alive:" + sc.name)
			c.Nontrivial(fmt.Sprintf("alive|%s|%v", sc.name, lens))
			if res != "" {
				c.Violation("alive:"+sc.name, fmt.Sprintf("%s (message lengths %d and %d): %s", sc.name, lens[0], lens[1], res),
					map[string]string{"scheme": sc.name, "m1": kc.HexB(m1), "m2": kc.HexB(m2), "failure": res})
			}
		}
	}
}
