package main

// C16 helpers: oracle tables lent to the model driver, tampering families, plaintext-in-ciphertext scan.

import (
	"bytes"
	"crypto/aes"
	"crypto/cipher"
	"fmt"
	"hash"
	"math/big"
	"sort"
	"strings"

	"golang.org/x/crypto/hkdf"

	"verifharness/internal/kc"
)

// encCase: one model line whose oracle queries are answered in rounds.
type encCase struct {
	scheme string // for counters and violation keys
	kind   string
	prefix string // model line without the table
	got    string // implementation result, canonical
	lend   func(query string) (string, error)
	table  map[string]string
	model  string
	done   bool
	key    string
	replay map[string]string
}

func (e *encCase) line() string {
	if len(e.table) == 0 {
		return e.prefix + " -"
	}
	ks := make([]string, 0, len(e.table))
	for k := range e.table {
		ks = append(ks, k)
	}
	sort.Strings(ks)
	parts := make([]string, len(ks))
	for i, k := range ks {
		parts[i] = k + "=" + e.table[k]
	}
	return e.prefix + " " + strings.Join(parts, ";")
}

// resolveEnc: send lines, answer `need <query>` from the case's lender (code that is not the scheme under
// test: stdlib AES-GCM, x/crypto HKDF, the suite's hash/XOF), repeat.
func resolveEnc(c *kc.Ctx, cases []*encCase) int {
	rounds := 0
	for ; rounds < 40; rounds++ {
		var todo []*encCase
		for _, e := range cases {
			if !e.done {
				todo = append(todo, e)
			}
		}
		if len(todo) == 0 {
			break
		}
		lines := make([]string, len(todo))
		for i, e := range todo {
			lines[i] = e.line()
		}
		outs := c.Model(lines)
		for i, e := range todo {
			o := outs[i]
			if strings.HasPrefix(o, "need ") {
				q := o[5:]
				if _, dup := e.table[q]; dup {
					e.model, e.done = "err:model asks again for "+trunc(q), true
					continue
				}
				v, err := e.lend(q)
				if err != nil {
					e.model, e.done = "err:lend "+trunc(q)+": "+err.Error(), true
					continue
				}
				if e.table == nil {
					e.table = map[string]string{}
				}
				e.table[q] = v
				continue
			}
			e.model, e.done = o, true
		}
	}
	for _, e := range cases {
		if !e.done {
			e.model, e.done = "err:rounds", true
		}
	}
	return rounds
}

// compareEnc applies the verdict policy to resolved cases: a model/implementation difference is a
// disagreement; the property's predicates are evaluated separately on the real code, so a bare
// disagreement leaves the property unshown.
func compareEnc(c *kc.Ctx, cases []*encCase) {
	for i, e := range cases {
		c.Program(1)
		c.Eval(1)
		c.CountKind(e.scheme + ":" + e.kind)
		if e.key != "" {
			c.Nontrivial(e.scheme + "|" + e.key)
		}
		if i%(len(cases)/4+1) == 2 {
			c.Sample(map[string]string{"scheme": e.scheme, "line": trunc(e.prefix), "impl_out": trunc(e.got), "model_out": trunc(e.model)})
		}
		if e.got != e.model {
			c.Disagree(trunc(e.prefix), trunc(e.got), trunc(e.model), e.kind)
			c.DisChecked(1)
			c.Unshown("correspondence:"+e.scheme+":"+e.kind, fmt.Sprintf("%s -> impl %s, model %s", trunc(e.prefix), trunc(e.got), trunc(e.model)), e.replay)
		}
	}
}

func splitQ(q string) []string { return strings.Split(q, ":") }

func unhexN(s string) (*big.Int, bool) { return new(big.Int).SetString(s, 16) }

// aeadKey: 32-byte AES key ‖ 12-byte nonce, as ecies derives them.
func gcmOf(keynonce []byte) (cipher.AEAD, []byte, error) {
	if len(keynonce) != 44 {
		return nil, nil, fmt.Errorf("key material of %d bytes", len(keynonce))
	}
	blk, err := aes.NewCipher(keynonce[:32])
	if err != nil {
		return nil, nil, err
	}
	g, err := cipher.NewGCM(blk)
	return g, keynonce[32:], err
}

// lendEcies answers kdf / seal / open. marshalDH turns a DH logarithm into the bytes HKDF is fed.
func lendEcies(h func() hash.Hash, marshalDH func(dh *big.Int) []byte) func(string) (string, error) {
	return func(q string) (string, error) {
		f := splitQ(q)
		switch {
		case f[0] == "kdf" && len(f) == 2:
			dh, ok := unhexN(f[1])
			if !ok {
				return "", fmt.Errorf("bad dh")
			}
			r := hkdf.New(h, marshalDH(dh), nil, nil)
			key := make([]byte, 44)
			if _, err := r.Read(key); err != nil {
				return "", err
			}
			return kc.HexB(key), nil
		case (f[0] == "seal" || f[0] == "open") && len(f) == 3:
			key, e1 := unhexB(f[1])
			data, e2 := unhexB(f[2])
			if e1 != nil || e2 != nil {
				return "", fmt.Errorf("bad hex")
			}
			g, nonce, err := gcmOf(key)
			if err != nil {
				return "", err
			}
			if f[0] == "seal" {
				return kc.HexB(g.Seal(nil, nonce, data, nil)), nil
			}
			pt, err := g.Open(nil, nonce, data, nil)
			if err != nil {
				return "!", nil
			}
			return kc.HexB(pt), nil
		}
		return "", fmt.Errorf("unknown query")
	}
}

// tamperings: single-bit flips and truncations of ct. With full=false positions are sampled, but the first
// `head` and the last `tail` bytes are always covered completely (ephemeral point / header, tag).
type tampered struct {
	what string
	ct   []byte
}

func tamperings(r *kc.Rng, ct []byte, full bool, head, tail, sample int) []tampered {
	var out []tampered
	n := len(ct)
	flip := func(bit int) {
		t := append([]byte{}, ct...)
		t[bit/8] ^= 1 << uint(bit%8)
		out = append(out, tampered{fmt.Sprintf("flip-bit-%d", bit), t})
	}
	inEdge := func(i int) bool { return i < head || i >= n-tail }
	for i := 0; i < n; i++ {
		if full || inEdge(i) {
			for b := 0; b < 8; b++ {
				flip(i*8 + b)
			}
		}
	}
	if !full && n > head+tail {
		for k := 0; k < sample; k++ {
			flip((head+r.Intn(n-head-tail))*8 + r.Intn(8))
		}
	}
	for l := 0; l < n; l++ {
		if full || l <= head+1 || l >= n-tail-1 {
			out = append(out, tampered{fmt.Sprintf("truncate-to-%d", l), append([]byte{}, ct[:l]...)})
		}
	}
	if !full && n > head+tail {
		for k := 0; k < sample/4; k++ {
			l := head + r.Intn(n-head-tail)
			out = append(out, tampered{fmt.Sprintf("truncate-to-%d", l), append([]byte{}, ct[:l]...)})
		}
	}
	out = append(out, tampered{"extend-by-1", append(append([]byte{}, ct...), byte(r.Intn(256)))})
	return out
}

// plainInCipher is the block-wise scan of the property: does any 8-byte block of the plaintext occur
// anywhere in the ciphertext, or do ≥ 6 consecutive plaintext bytes sit at the same offset of the
// body (body = ct[bodyOff:])? Returns a description or "". Plaintexts are random, so a hit by chance
// has probability < 2^-40 per case.
func plainInCipher(pt, ct []byte, bodyOff int) string {
	const blk = 8
	for i := 0; i+blk <= len(pt); i++ {
		if j := bytes.Index(ct, pt[i:i+blk]); j >= 0 {
			// extend the match to report its full extent
			k := blk
			for i+k < len(pt) && j+k < len(ct) && pt[i+k] == ct[j+k] {
				k++
			}
			return fmt.Sprintf("plaintext bytes %d..%d appear verbatim at ciphertext offset %d", i, i+k-1, j)
		}
	}
	if bodyOff >= 0 && bodyOff <= len(ct) {
		body := ct[bodyOff:]
		run := 0
		for i := 0; i < len(pt) && i < len(body); i++ {
			if pt[i] == body[i] {
				run++
				if run >= 6 {
					return fmt.Sprintf("plaintext bytes %d..%d equal the ciphertext body at the same offset", i-run+1, i)
				}
			} else {
				run = 0
			}
		}
	}
	return ""
}

// encLengths: message lengths the property quantifies over (0..4096), edge-biased.
func encLengths(r *kc.Rng, extra int) []int {
	ls := []int{0, 1, 2, 7, 8, 15, 16, 17, 31, 32, 33, 47, 48, 63, 64, 65, 100, 255, 256, 1000, 4095, 4096}
	for i := 0; i < extra; i++ {
		ls = append(ls, r.Intn(4097))
	}
	return ls
}
