//go:build constantTime

package main

import (
	"go.dedis.ch/kyber/v4/group/edwards25519"

	"verifharness/internal/kc"
)

// sigmaRealEnvs: only Ed25519 builds under the constantTime tag.
func sigmaRealEnvs(r *kc.Rng) []*sgEnv {
	return []*sgEnv{sgRealEnv("ed25519", edwards25519.NewBlakeSHA256Ed25519(), r.Fork("stream/ed25519"))}
}
