package main

// In-process networks of real share/dkg/pedersen DistKeyGenerator objects for the C11 harness:
// node construction, reflection access to the (unexported) node state, rendering of real messages and
// state in the canonical form of Drive/Dkg.lean.

import (
	"crypto/sha256"
	"fmt"
	"math/big"
	"reflect"
	"sort"
	"strings"
	"unsafe"

	"go.dedis.ch/kyber/v4"
	"go.dedis.ch/kyber/v4/encrypt/ecies"
	"go.dedis.ch/kyber/v4/share"
	dkg "go.dedis.ch/kyber/v4/share/dkg/pedersen"
	"go.dedis.ch/kyber/v4/sign/schnorr"

	"verifharness/internal/dlgroup"
	"verifharness/internal/kc"
)

// dkgWorld holds what the harness knows about one network: keys, logarithms of every point it built.
type dkgWorld struct {
	suite  vssSuite
	q      *big.Int
	mock   bool
	gname  string
	logs   map[string]*big.Int // marshalled point -> logarithm (real groups)
	pubTok map[string]int      // public key -> model token
	nonces map[string]int
	rng    *kc.Rng
}

func newDkgWorld(mock bool, rng *kc.Rng) *dkgWorld {
	w := &dkgWorld{mock: mock, q: dlgroup.L, logs: map[string]*big.Int{}, pubTok: map[string]int{}, nonces: map[string]int{}, rng: rng}
	if mock {
		w.suite = dlgroup.New(dlgroup.L, rng.Fork("suite"))
		w.gname = "dlgroup"
	} else {
		_, s, name := c10SuiteEd(rng.Fork("suite"))
		w.suite, w.gname = s, name
	}
	return w
}

func (w *dkgWorld) pointOf(v *big.Int) kyber.Point {
	p := w.suite.Point().Mul(big2sc(w.suite, w.q, v), nil)
	w.note(p, v)
	return p
}

func (w *dkgWorld) note(p kyber.Point, v *big.Int) {
	b, _ := p.MarshalBinary()
	w.logs[string(b)] = new(big.Int).Mod(v, w.q)
}

func (w *dkgWorld) logOf(p kyber.Point) (*big.Int, bool) {
	if w.mock {
		return dlgroup.Log(p), true
	}
	b, _ := p.MarshalBinary()
	v, ok := w.logs[string(b)]
	return v, ok
}

func (w *dkgWorld) logsOf(ps []kyber.Point) ([]*big.Int, bool) {
	out := make([]*big.Int, len(ps))
	for i, p := range ps {
		v, ok := w.logOf(p)
		if !ok {
			return nil, false
		}
		out[i] = v
	}
	return out, true
}

func (w *dkgWorld) tokPub(p kyber.Point) int {
	b, _ := p.MarshalBinary()
	if _, ok := w.pubTok[string(b)]; !ok {
		w.pubTok[string(b)] = len(w.pubTok) + 1
	}
	return w.pubTok[string(b)]
}

func (w *dkgWorld) tokNonce(b []byte) int {
	if _, ok := w.nonces[string(b)]; !ok {
		w.nonces[string(b)] = len(w.nonces) + 1
	}
	return w.nonces[string(b)]
}

type rngReader struct{ r *kc.Rng }

func (x rngReader) Read(p []byte) (int, error) { copy(p, x.r.Bytes(len(p))); return len(p), nil }

// dkgParty is a participant identity (key pair) that may sit in the old and/or the new group.
type dkgParty struct {
	long kyber.Scalar
	pub  kyber.Point
}

func (w *dkgWorld) newParty() *dkgParty {
	s := w.suite.Scalar().Pick(w.suite.RandomStream())
	return &dkgParty{long: s, pub: w.suite.Point().Mul(s, nil)}
}

// dkgNode is one running DistKeyGenerator plus the bookkeeping for the model line.
type dkgNode struct {
	party *dkgParty
	gen   *dkg.DistKeyGenerator
	conf  *dkg.Config
	// expected roles, computed by the harness from the scenario (cross-checked against the object)
	inOld, inNew bool
	oidx, nidx   uint32
	cfgTok       string
	calls        []string
	impl         []string
	real         []any // structured real outputs per call (for point comparisons)
	faulty       bool
	name         string
	finished     bool
	result       *dkg.Result
	lastErr      string
}

// field reads an unexported field of the generator.
func (n *dkgNode) field(name string) reflect.Value {
	rf := reflect.ValueOf(n.gen).Elem().FieldByName(name)
	return reflect.NewAt(rf.Type(), unsafe.Pointer(rf.UnsafeAddr())).Elem()
}

func (n *dkgNode) dpriv() []kyber.Scalar {
	pp := n.field("dpriv").Interface().(*share.PriPoly)
	if pp == nil {
		return nil
	}
	return pp.Coefficients()
}

func hexU32s(xs []uint32) string {
	m := map[uint32]bool{}
	var ys []int
	for _, x := range xs {
		if !m[x] {
			m[x] = true
			ys = append(ys, int(x))
		}
	}
	sort.Ints(ys)
	if len(ys) == 0 {
		return "-"
	}
	s := make([]string, len(ys))
	for i, y := range ys {
		s[i] = fmt.Sprintf("%x", y)
	}
	return strings.Join(s, ",")
}

func nodeIdxSorted(ns []dkg.Node) []uint32 {
	var xs []uint32
	for _, n := range ns {
		xs = append(xs, n.Index)
	}
	sort.Slice(xs, func(i, j int) bool { return xs[i] < xs[j] })
	return xs
}

// stateS renders the node state like Drive/Dkg.lean's stateS.
func (n *dkgNode) stateS() string {
	phase := []string{"init", "deal", "response", "justif", "finish"}[int(n.field("state").Int())]
	ev := n.field("evicted").Interface().([]uint32)
	evh := n.field("evictedHolders").Interface().([]uint32)
	sm := *(n.field("statuses").Interface().(*dkg.StatusMatrix))
	olds, news := nodeIdxSorted(n.conf.OldNodes), nodeIdxSorted(n.conf.NewNodes)
	var rows []string
	for _, d := range olds {
		var sb strings.Builder
		for _, h := range news {
			if sm[d][h] == dkg.Complaint {
				sb.WriteByte('1')
			} else {
				sb.WriteByte('0')
			}
		}
		rows = append(rows, sb.String())
	}
	vsm := n.field("validShares").Interface().(map[uint32]kyber.Scalar)
	var vs []string
	for _, d := range olds {
		if v, ok := vsm[d]; ok {
			vs = append(vs, fmt.Sprintf("%x=%s", d, kc.HexN(sc2big(v))))
		}
	}
	apm := n.field("allPublics").Interface().(map[uint32]*share.PubPoly)
	var ps []uint32
	for _, d := range olds {
		if _, ok := apm[d]; ok {
			ps = append(ps, d)
		}
	}
	j := func(l []string) string {
		if len(l) == 0 {
			return "-"
		}
		return strings.Join(l, ",")
	}
	return fmt.Sprintf("%s;%s;%s;%s;%s;%s", phase, hexU32s(ev), hexU32s(evh), j(rows), j(vs), hexU32s(ps))
}

func hexBigs(l []*big.Int) string { return kc.HexNList(l) }

func nodesTok(w *dkgWorld, ns []dkg.Node) string {
	if len(ns) == 0 {
		return "-"
	}
	s := make([]string, len(ns))
	for i, n := range ns {
		s[i] = fmt.Sprintf("%x.%x", n.Index, w.tokPub(n.Public))
	}
	return strings.Join(s, ",")
}

// ---- messages: copies, model tokens ------------------------------------------------------------

func copyDealBundle(b *dkg.DealBundle) *dkg.DealBundle {
	c := *b
	c.Deals = make([]dkg.Deal, len(b.Deals))
	for i, d := range b.Deals {
		c.Deals[i] = dkg.Deal{ShareIndex: d.ShareIndex, EncryptedShare: append([]byte{}, d.EncryptedShare...)}
	}
	c.Public = append([]kyber.Point{}, b.Public...)
	c.SessionID = append([]byte{}, b.SessionID...)
	c.Signature = append([]byte{}, b.Signature...)
	return &c
}

func copyRespBundle(b *dkg.ResponseBundle) *dkg.ResponseBundle {
	c := *b
	c.Responses = append([]dkg.Response{}, b.Responses...)
	c.SessionID = append([]byte{}, b.SessionID...)
	c.Signature = append([]byte{}, b.Signature...)
	return &c
}

func copyJustBundle(b *dkg.JustificationBundle) *dkg.JustificationBundle {
	c := *b
	c.Justifications = append([]dkg.Justification{}, b.Justifications...)
	c.SessionID = append([]byte{}, b.SessionID...)
	c.Signature = append([]byte{}, b.Signature...)
	return &c
}

// openDeal decrypts a deal with the key of the party sitting at its share index in the new group:
// this is exactly the abstraction "opens for the addressee" of the model.
func (w *dkgWorld) openDeal(d dkg.Deal, holders map[uint32]*dkgParty) (bool, *big.Int) {
	p, ok := holders[d.ShareIndex]
	if !ok {
		return false, big.NewInt(0)
	}
	buf, err := ecies.Decrypt(w.suite, p.long, d.EncryptedShare, sha256.New)
	if err != nil {
		return false, big.NewInt(0)
	}
	s := w.suite.Scalar()
	if err := s.UnmarshalBinary(buf); err != nil {
		return false, big.NewInt(0)
	}
	return true, sc2big(s)
}

func (w *dkgWorld) dealBundleTok(b *dkg.DealBundle, holders map[uint32]*dkgParty, sortDeals bool) (string, bool) {
	logs, ok := w.logsOf(b.Public)
	if !ok {
		return "", false
	}
	ds := make([]string, 0, len(b.Deals))
	deals := append([]dkg.Deal{}, b.Deals...)
	if sortDeals {
		sort.SliceStable(deals, func(i, j int) bool { return deals[i].ShareIndex < deals[j].ShareIndex })
	}
	for _, d := range deals {
		op, v := w.openDeal(d, holders)
		if sortDeals {
			ds = append(ds, fmt.Sprintf("%x.%s", d.ShareIndex, kc.HexN(v)))
		} else {
			ds = append(ds, fmt.Sprintf("%x.%s.%s", d.ShareIndex, b01(op), kc.HexN(v)))
		}
	}
	dl := "-"
	if len(ds) > 0 {
		dl = strings.Join(ds, "~")
	}
	return fmt.Sprintf("%x/%x/%s/%s", b.DealerIndex, w.tokNonce(b.SessionID), hexBigs(logs), dl), true
}

func (w *dkgWorld) respBundleTok(b *dkg.ResponseBundle, sorted bool) string {
	rs := append([]dkg.Response{}, b.Responses...)
	if sorted {
		sort.SliceStable(rs, func(i, j int) bool { return rs[i].DealerIndex < rs[j].DealerIndex })
	}
	var s []string
	for _, r := range rs {
		s = append(s, fmt.Sprintf("%x.%s", r.DealerIndex, b01(r.Status == dkg.Complaint)))
	}
	l := "-"
	if len(s) > 0 {
		l = strings.Join(s, "~")
	}
	return fmt.Sprintf("%x/%x/%s", b.ShareIndex, w.tokNonce(b.SessionID), l)
}

func (w *dkgWorld) justBundleTok(b *dkg.JustificationBundle, sorted bool) string {
	js := append([]dkg.Justification{}, b.Justifications...)
	if sorted {
		sort.SliceStable(js, func(i, j int) bool { return js[i].ShareIndex < js[j].ShareIndex })
	}
	var s []string
	for _, j := range js {
		s = append(s, fmt.Sprintf("%x.%s", j.ShareIndex, kc.HexN(sc2big(j.Share))))
	}
	l := "-"
	if len(s) > 0 {
		l = strings.Join(s, "~")
	}
	return fmt.Sprintf("%x/%x/%s", b.DealerIndex, w.tokNonce(b.SessionID), l)
}

// ---- node construction ---------------------------------------------------------------------------

type dkgGroupSpec struct {
	old, new   []dkg.Node
	oldParties map[uint32]*dkgParty
	newParties map[uint32]*dkgParty
	threshold  uint32
	oldThr     uint32
	fast       bool
	nonce      []byte
	// resharing
	resharing bool
	oldShares map[uint32]*dkg.DistKeyShare // by old index
	oldCoeffs []kyber.Point
	oldLogs   []*big.Int
}

// newNode builds the real generator for `p` and the model cfg token; it cross-checks the roles the
// constructor derived against what the scenario implies.
func (w *dkgWorld) newNode(g *dkgGroupSpec, p *dkgParty, name string) (*dkgNode, error) {
	conf := &dkg.Config{Suite: w.suite, Longterm: p.long, NewNodes: append([]dkg.Node{}, g.new...), Threshold: g.threshold,
		FastSync: g.fast, Nonce: g.nonce, Auth: schnorr.NewScheme(w.suite), Reader: rngReader{w.rng.Fork("reader-" + name)}, UserReaderOnly: true}
	n := &dkgNode{party: p, conf: conf, name: name}
	for _, o := range g.old {
		if o.Public.Equal(p.pub) {
			n.inOld, n.oidx = true, o.Index
		}
	}
	for _, o := range g.new {
		if o.Public.Equal(p.pub) {
			n.inNew, n.nidx = true, o.Index
		}
	}
	if g.resharing {
		conf.OldNodes = append([]dkg.Node{}, g.old...)
		conf.OldThreshold = g.oldThr
		if n.inOld {
			conf.Share = g.oldShares[n.oidx]
		} else {
			conf.PublicCoeffs = g.oldCoeffs
		}
	}
	gen, err := dkg.NewDistKeyHandler(conf)
	if err != nil {
		return nil, err
	}
	n.gen = gen
	// roles as the scenario implies them
	canIssue := (!g.resharing && n.inNew) || (g.resharing && n.inOld)
	canReceive := n.inNew
	oidx, nidx := n.oidx, n.nidx
	if !g.resharing {
		oidx = n.nidx // fresh: OldNodes = NewNodes
		n.oidx, n.inOld = n.nidx, n.inNew
	}
	got := fmt.Sprint(n.field("canIssue").Bool(), n.field("canReceive").Bool(), n.field("isResharing").Bool())
	want := fmt.Sprint(canIssue, canReceive, g.resharing)
	if got != want || (canIssue && uint32(n.field("oidx").Uint()) != oidx) || (canReceive && uint32(n.field("nidx").Uint()) != nidx) {
		return nil, fmt.Errorf("constructor roles differ: got %s oidx=%d nidx=%d want %s oidx=%d nidx=%d", got, n.field("oidx").Uint(), n.field("nidx").Uint(), want, oidx, nidx)
	}
	var dpl []*big.Int
	for _, cf := range n.dpriv() {
		v := sc2big(cf)
		dpl = append(dpl, v)
		w.pointOf(v)
	}
	oldT := uint32(0)
	var oldLogs []*big.Int
	if g.resharing && n.inNew {
		oldT = uint32(len(g.oldCoeffs))
		oldLogs = g.oldLogs
	}
	if uint32(n.field("oldT").Uint()) != oldT || uint32(n.field("newT").Uint()) != g.threshold {
		return nil, fmt.Errorf("constructor thresholds differ: oldT %d/%d newT %d/%d", n.field("oldT").Uint(), oldT, n.field("newT").Uint(), g.threshold)
	}
	n.cfgTok = fmt.Sprintf("%s;%s;%s;%x;%x;%s;%x;%s;%s;%s;%x;%x;%x;%x;%s;%s", kc.HexN(w.q), nodesTok(w, conf.OldNodes), nodesTok(w, conf.NewNodes),
		g.threshold, g.oldThr, b01(g.fast), w.tokNonce(g.nonce), b01(g.resharing), b01(canIssue), b01(canReceive),
		uint32(n.field("oidx").Uint()), uint32(n.field("nidx").Uint()), oldT, g.threshold, hexBigs(dpl), hexBigs(oldLogs))
	return n, nil
}

func (n *dkgNode) rec(call, out string, real any) {
	n.calls = append(n.calls, call)
	n.impl = append(n.impl, out+"#"+n.stateS())
	n.real = append(n.real, real)
}

func (n *dkgNode) line() string { return n.lineFix(true, true) }

// lineFix renders the model line for the repaired / as-coded variants of the two places patched by
// fixes/C11-leaving-dealer-responses.patch and fixes/C11-agreement-phase-decision.patch.
func (n *dkgNode) lineFix(fixLeaving, fixPhase bool) string {
	return "dkg " + n.cfgTok + ";" + b01(fixLeaving) + ";" + b01(fixPhase) + " " + strings.Join(n.calls, " ")
}

// resultTok renders a real Result with commitments as logarithms when known, else checks happen on points.
func (w *dkgWorld) resultTok(r *dkg.Result) string {
	var q []uint32
	for _, n := range r.QUAL {
		q = append(q, n.Index)
	}
	cs := "?"
	if logs, ok := w.logsOf(r.Key.Commits); ok {
		cs = hexBigs(logs)
	}
	return fmt.Sprintf("result:%s/%s/%x/%s", hexU32s(q), cs, r.Key.Share.I, kc.HexN(sc2big(r.Key.Share.V)))
}
