package main

// Helpers shared by the C09 (BLS/TBLS/BDN/CoSi) and C06 (pairing) checks.

import (
	"encoding/hex"
	"encoding/json"
	"fmt"
	"math/big"
	"os"
	"path/filepath"
	"strings"
	"time"

	"go.dedis.ch/kyber/v4"
	"go.dedis.ch/kyber/v4/pairing"

	"verifharness/internal/dlgroup"
	"verifharness/internal/groups"
	"verifharness/internal/kc"
)

// blsEnv is one pairing suite: the mock discrete-log suite or one of the five real ones.
type blsEnv struct {
	name  string
	suite pairing.Suite
	mock  *dlgroup.Suite // nil for real suites
	q     *big.Int
}

func blsEnvs(rng *kc.Rng) []*blsEnv {
	m := dlgroup.New(dlgroup.L, rng.Fork("mock-stream"))
	out := []*blsEnv{{name: "dlgroup", suite: m, mock: m, q: new(big.Int).Set(dlgroup.L)}}
	for _, p := range groups.Pairings() {
		out = append(out, &blsEnv{name: p.Name, suite: p.Suite, q: new(big.Int).Set(p.G1.Q)})
	}
	return out
}

// blsScalar builds the scalar of value v mod q in group g through its own byte order.
func blsScalar(g kyber.Group, q, v *big.Int) kyber.Scalar {
	s := g.Scalar()
	b := new(big.Int).Mod(v, q).FillBytes(make([]byte, s.MarshalSize()))
	if s.ByteOrder() == kyber.LittleEndian {
		for i, j := 0, len(b)-1; i < j; i, j = i+1, j-1 {
			b[i], b[j] = b[j], b[i]
		}
	}
	return s.SetBytes(b)
}

// blsBig reads a scalar back as an integer.
func blsBig(s kyber.Scalar) *big.Int {
	b, err := s.MarshalBinary()
	if err != nil {
		panic(err)
	}
	if s.ByteOrder() == kyber.LittleEndian {
		return kc.LeN(b)
	}
	return kc.BeN(b)
}

func blsPB(p kyber.Point) []byte {
	b, err := p.MarshalBinary()
	if err != nil {
		panic(err)
	}
	return b
}

func blsHex(p kyber.Point) string { return hex.EncodeToString(blsPB(p)) }

// blsMulBase returns v·B in g.
func blsMulBase(g kyber.Group, q, v *big.Int) kyber.Point {
	return g.Point().Mul(blsScalar(g, q, v), nil)
}

// blsMul returns v·P.
func blsMul(g kyber.Group, q, v *big.Int, p kyber.Point) kyber.Point {
	return g.Point().Mul(blsScalar(g, q, v), p)
}

func blsModq(q *big.Int, v *big.Int) *big.Int { return new(big.Int).Mod(v, q) }
func blsMulq(q, a, b *big.Int) *big.Int       { return blsModq(q, new(big.Int).Mul(a, b)) }
func blsAddq(q, a, b *big.Int) *big.Int       { return blsModq(q, new(big.Int).Add(a, b)) }

// blsBatch collects model lines with their comparison callbacks and runs them in one driver call.
type blsBatch struct {
	c      *kc.Ctx
	lines  []string
	checks []func(out string)
}

func (b *blsBatch) add(line string, chk func(out string)) {
	b.lines = append(b.lines, line)
	b.checks = append(b.checks, chk)
}

func (b *blsBatch) flush() {
	if len(b.lines) == 0 {
		return
	}
	outs := b.c.Model(b.lines)
	b.c.Eval(len(b.lines))
	for i, o := range outs {
		if o == "bad-op" {
			b.c.Unshown("driver-bad-op", "model driver refused a line: "+b.lines[i], map[string]string{"line": b.lines[i]})
			continue
		}
		b.checks[i](o)
	}
	b.lines, b.checks = nil, nil
}

// expect compares one implementation output with the model's. predOK says whether the property's own
// predicate, evaluated on the real code for this case, held (a failing predicate has already been
// reported as a violation by the caller).
func (b *blsBatch) expect(kind, line, impl string, predOK bool, conv func(string) string) {
	c := b.c
	b.add(line, func(out string) {
		c.CountKind(kind)
		m := out
		if conv != nil {
			m = conv(out)
		}
		if m == impl {
			return
		}
		c.Disagree(line, impl, m, kind)
		c.DisChecked(1)
		if predOK {
			c.Unshown("correspondence:"+kind, fmt.Sprintf("model and implementation disagree although the property predicate holds on this input: %s -> impl %s, model %s", line, impl, m),
				map[string]string{"line": line, "impl": impl, "model": m})
		}
	})
}

func blsHexList(l []*big.Int) string { return kc.HexNList(l) }

// blsReplay prepares `bin/check Cxx <tier> --replay file`: every case of these checks is generated from
// the run's PRNG, so a replay re-executes the recorded run (same seed and tier) and reports whether the
// recorded failure key shows up again. Returns the key to look for ("" when not replaying).
func blsReplay(c *kc.Ctx) string {
	if c.ReplayFile == "" {
		return ""
	}
	raw, err := os.ReadFile(c.ReplayFile)
	if err != nil {
		fmt.Fprintf(os.Stderr, "kcheck: cannot read replay %s: %v\n", c.ReplayFile, err)
		os.Exit(2)
	}
	var r struct {
		Key  string `json:"key"`
		Seed uint64 `json:"seed"`
		Tier string `json:"tier"`
	}
	if err := json.Unmarshal(raw, &r); err != nil {
		fmt.Fprintf(os.Stderr, "kcheck: cannot parse replay %s: %v\n", c.ReplayFile, err)
		os.Exit(2)
	}
	if r.Tier != "" {
		c.Tier = r.Tier
	}
	c.Seed = r.Seed
	c.Rng = kc.NewCtx(c.Prop, c.Tier, r.Seed, c.Drv.Path).Rng
	fmt.Printf("replaying %s: key %q, seed %d, tier %s\n", c.ReplayFile, r.Key, r.Seed, c.Tier)
	return r.Key
}

// blsPinDriver copies the model driver next to the other build products and uses the copy for this
// run: other builders relink lean/.lake/build/bin/kdriver while checks are running. Returns a cleanup.
func blsPinDriver(c *kc.Ctx) func() {
	dst := filepath.Join(kc.Root, ".build", fmt.Sprintf("kdriver_%s_%d", c.Prop, os.Getpid()))
	for try := 0; try < 60; try++ {
		b, err := os.ReadFile(c.Drv.Path)
		if err == nil && len(b) > 0 {
			if os.MkdirAll(filepath.Dir(dst), 0o755) == nil && os.WriteFile(dst, b, 0o755) == nil {
				c.Drv.Path = dst
				return func() { os.Remove(dst) }
			}
		}
		time.Sleep(2 * time.Second)
	}
	return func() {}
}

// blsViolation records the failure key (for replays) and reports the violation.
var blsSeenKeys = map[string]int{}

func blsViolation(c *kc.Ctx, key, what string, replay any) {
	blsSeenKeys[key]++
	c.Violation(key, what, replay)
}

// blsReplayReport says whether the replayed key failed again (known findings included).
func blsReplayReport(c *kc.Ctx, key string) {
	if key == "" {
		return
	}
	if blsSeenKeys[key] > 0 {
		fmt.Printf("replay: failure %q reproduced\n", key)
	} else {
		fmt.Printf("replay: failure %q did not reproduce\n", key)
	}
}

func blsJoinOr(l []string, sep, empty string) string {
	if len(l) == 0 {
		return empty
	}
	return strings.Join(l, sep)
}
