package main

// C16 — encryption round-trips, hides the plaintext and rejects altered ciphertexts.
//
// Two layers (DESIGN §6 C16):
//  1. the property's own predicates on the REAL code, on every suite each scheme supports: round trip for
//     lengths 0..4096, wrong key/identity, every single-bit flip and truncation (sampled for long
//     ciphertexts), the public-forgery family, the block-wise plaintext-in-ciphertext scan, no panics;
//  2. byte-level correspondence with the Lean model `Kyber.Enc` (Proto/Enc.lean, theorems Props/C16.lean)
//     on the mock discrete-log group, where every secret and random value is readable; KDF/AEAD/hash/XOF
//     values are lent to the model driver on request (stdlib AES-GCM, x/crypto HKDF, the suite's hash/XOF).

import (
	"crypto/sha256"
	"crypto/sha512"
	"encoding/json"
	"fmt"
	"hash"
	"math/big"
	"os"
	"time"

	"go.dedis.ch/kyber/v4"
	"go.dedis.ch/kyber/v4/encrypt/ecies"

	"verifharness/internal/dlgroup"
	"verifharness/internal/groups"
	"verifharness/internal/kc"
)

func eciesDec(group kyber.Group, x kyber.Scalar, ct []byte, h func() hash.Hash) string {
	return kc.Recover(func() string {
		pt, err := ecies.Decrypt(group, x, append([]byte{}, ct...), h)
		if err != nil {
			return "err"
		}
		return "ok " + kc.HexB(pt)
	})
}

type eciesSuite struct {
	name  string
	group kyber.Group
	mock  *dlgroup.Suite // non-nil: model correspondence as well
}

func c16Ecies(c *kc.Ctx) {
	rng := c.Rng.Fork("ecies")
	var suites []eciesSuite
	mock := dlgroup.New(dlgroup.L, rng.Fork("mock"))
	suites = append(suites, eciesSuite{"dlgroup", mock.G1(), mock})
	for _, g := range groups.All() {
		switch g.Kind {
		case "edwards", "weierstrass", "residue", "g1", "g2":
			if !c.Thorough() && (g.Name == "ed25519-allowvt" || g.Name == "ed25519vt-ext" || g.Name == "circl-g2" || g.Name == "gnark-g2" || g.Name == "kilic-g2" || g.Name == "bn254-g2") {
				continue // quick tier: one representative per implementation family
			}
			suites = append(suites, eciesSuite{g.Name, g.Group, nil})
		}
	}
	hashes := []struct {
		name string
		h    func() hash.Hash
	}{{"nil", nil}, {"sha256", sha256.New}, {"sha512", sha512.New}}
	var cases []*encCase
	for _, s := range suites {
		srng := rng.Fork(s.name)
		lens := encLengths(srng, c.N(2, 12))
		if s.mock == nil && !c.Thorough() {
			lens = []int{0, 1, 16, 33, 100, 4096}
		}
		pl := s.group.PointLen()
		for li, L := range lens {
			hv := hashes[li%len(hashes)]
			hf := hv.h
			if hf == nil {
				hf = sha256.New
			}
			x := s.group.Scalar().Pick(srng)
			X := s.group.Point().Mul(x, nil)
			msg := srng.Bytes(L)
			rp := map[string]string{"family": "ecies", "suite": s.name, "hash": hv.name, "msg": kc.HexB(msg)}
			var ct []byte
			res := kc.Recover(func() string {
				var err error
				ct, err = ecies.Encrypt(s.group, X, append([]byte{}, msg...), hv.h)
				if err != nil {
					return "err"
				}
				return "ok"
			})
			c.CountKind("ecies:" + s.name + ":encrypt")
			c.Nontrivial(fmt.Sprintf("ecies|%s|%s|%x", s.name, hv.name, msg))
			if res != "ok" {
				c.Violation("ecies:encrypt-refused", fmt.Sprintf("%s: Encrypt of a %d-byte message: %s", s.name, L, res), rp)
				continue
			}
			rp["ct"] = kc.HexB(ct)
			// round trip
			if got := eciesDec(s.group, x, ct, hv.h); got != "ok "+kc.HexB(msg) {
				c.Violation("ecies:roundtrip", fmt.Sprintf("%s: %d-byte message decrypts to %s", s.name, L, trunc(got)), rp)
			}
			c.Eval(1)
			// layout and scan
			if len(ct) != pl+L+16 {
				c.Violation("ecies:layout", fmt.Sprintf("%s: ciphertext of %d bytes for a %d-byte message (point %d)", s.name, len(ct), L, pl), rp)
			}
			if hit := plainInCipher(msg, ct, pl); hit != "" {
				c.Violation("ecies:plaintext-in-ciphertext", s.name+": "+hit, rp)
			}
			// wrong key
			x2 := s.group.Scalar().Pick(srng)
			if !x2.Equal(x) {
				if got := eciesDec(s.group, x2, ct, hv.h); got != "err" {
					c.Violation("ecies:wrong-key-accepted", fmt.Sprintf("%s: decryption with another key gives %s", s.name, trunc(got)), rp)
				}
				c.Eval(1)
			}
			// tampering
			full := len(ct) <= 70 || (s.mock != nil && len(ct) <= 160) || (c.Thorough() && len(ct) <= 160)
			tam := tamperings(srng, ct, full, pl, 16, c.N(24, 200))
			if s.mock == nil && !c.Thorough() && len(tam) > 500 {
				tam = tam[:500]
			}
			for _, t := range tam {
				got := eciesDec(s.group, x, t.ct, hv.h)
				c.Eval(1)
				c.CountKind("ecies:" + s.name + ":tampered-decrypt")
				if got != "err" {
					key := "ecies:tamper-accepted"
					if got == "panic" {
						key = "ecies:panic:" + s.name
					}
					c.Violation(key, fmt.Sprintf("%s: %d-byte message, %s: Decrypt gives %s", s.name, L, t.what, trunc(got)), rp)
				}
				if s.mock != nil {
					cases = append(cases, c16EciesDecCase(s.mock, x, t.ct, hf, got, "tampered"))
				}
			}
			if s.mock != nil {
				// Encrypt correspondence: the ephemeral scalar is readable off R in the mock group
				R := s.group.Point()
				if R.UnmarshalBinary(ct[:pl]) == nil {
					q, tag := kc.HexN(s.mock.Q), fmt.Sprintf("%x", dlgroup.TagG1)
					e := &encCase{scheme: "ecies", kind: "encrypt",
						prefix: fmt.Sprintf("enc ecies-e %s %s %s %s %s", q, tag, kc.HexN(dlgroup.ScalarBig(x)), kc.HexN(dlgroup.Log(R)), kc.HexB(msg)),
						got:    "ok " + kc.HexB(ct), lend: lendEcies(hf, mockMarshal(s.mock.G1())), key: fmt.Sprintf("enc|%x", msg), replay: rp}
					cases = append(cases, e)
				}
				cases = append(cases, c16EciesDecCase(s.mock, x, ct, hf, "ok "+kc.HexB(msg), "honest"))
				cases = append(cases, c16EciesDecCase(s.mock, x2, ct, hf, eciesDec(s.group, x2, ct, hv.h), "wrong-key"))
			}
		}
	}
	c.Extra("ecies_lend_rounds", resolveEnc(c, cases))
	compareEnc(c, cases)
}

func mockMarshal(g kyber.Group) func(*big.Int) []byte {
	return func(v *big.Int) []byte {
		b, _ := dlgroup.FromLog(g, v).MarshalBinary()
		return b
	}
}

func c16EciesDecCase(m *dlgroup.Suite, x kyber.Scalar, ct []byte, h func() hash.Hash, got, kind string) *encCase {
	return &encCase{scheme: "ecies", kind: "decrypt-" + kind,
		prefix: fmt.Sprintf("enc ecies-d %s %x %s %s", kc.HexN(m.Q), dlgroup.TagG1, kc.HexN(dlgroup.ScalarBig(x)), kc.HexB(ct)),
		got:    got, lend: lendEcies(h, mockMarshal(m.G1())), key: fmt.Sprintf("dec|%x", ct),
		replay: map[string]string{"family": "ecies-dec", "ct": kc.HexB(ct), "x": kc.HexN(dlgroup.ScalarBig(x))}}
}

func c16Replay(c *kc.Ctx) bool {
	if c.ReplayFile == "" {
		return false
	}
	b, err := os.ReadFile(c.ReplayFile)
	if err != nil {
		fmt.Fprintln(os.Stderr, "kcheck: cannot read replay:", err)
		os.Exit(2)
	}
	var doc struct {
		Replay map[string]string `json:"replay"`
	}
	if json.Unmarshal(b, &doc) != nil || doc.Replay == nil {
		fmt.Fprintln(os.Stderr, "kcheck: replay file has no replay object")
		os.Exit(2)
	}
	switch doc.Replay["family"] {
	case "ibe-cpa":
		msg, _ := unhexB(doc.Replay["msg"])
		for _, s := range ibeSuites(c, c.Rng.Fork("replay")) {
			if s.name == doc.Replay["suite"] {
				ibeCPACase(c, s, c.Rng.Fork("replay-cpa"), msg, nil)
			}
		}
	case "anon-forge", "anon":
		msg, _ := unhexB(doc.Replay["msg"])
		for _, s := range anonSuites(c, c.Rng.Fork("replay")) {
			if s.name == doc.Replay["suite"] {
				n, mine := 1, 0
				fmt.Sscan(doc.Replay["n"], &n)
				fmt.Sscan(doc.Replay["mine"], &mine)
				anonCase(c, s, c.Rng.Fork("replay-anon"), n, mine, msg, true, nil)
			}
		}
	default:
		fmt.Fprintln(os.Stderr, "kcheck: replay family not re-executable: "+doc.Replay["family"])
		os.Exit(2)
	}
	return true
}

func runC16(c *kc.Ctx) {
	c.SetRule("case = (scheme, suite, key material, message, [tampering | wrong key | forgery]); non-trivial = every encryption of a distinct message and every decryption of a distinct (altered) ciphertext; distinct by (scheme, suite, message / ciphertext bytes)")
	c.Assume("H_AEAD: AES-GCM opens exactly what it sealed under the same key/nonce and rejects otherwise; H_KDF: HKDF is a function; IBE hashes H2/H3/H4 and the XOF streams are oracles (H_RO); pairing = product of logarithms (H_bilinear)",
		"model correspondence is on the mock discrete-log group (all secrets and ephemerals readable); on real suites only the property's predicates are evaluated",
		"the oracle values are lent to the model driver from stdlib AES-GCM, x/crypto HKDF, the suite's Hash/XOF and the ibe package's own h3/h4/gtToHash (hook encrypt/ibe/export_verif.go)",
		"anon.Decrypt with an out-of-range member index panics by documented contract and is not exercised")
	if c16Replay(c) {
		return
	}
	t0 := time.Now()
	c16Ecies(c)
	t1 := time.Now()
	c16Ibe(c)
	t2 := time.Now()
	c16Anon(c)
	c16ResultsAlive(c)
	c.Extra("section_seconds", map[string]float64{"ecies": t1.Sub(t0).Seconds(), "ibe": t2.Sub(t1).Seconds(), "anon": time.Since(t2).Seconds()})
}

func init() { register("C16", "proof", runC16) }
