package main

// C11: scenario construction (fresh and resharing rounds), the property predicates on the real
// outputs, comparison with the model, and the generator loops.

import (
	"fmt"
	"math/big"
	"sort"
	"strings"

	"go.dedis.ch/kyber/v4"
	"go.dedis.ch/kyber/v4/share"
	dkg "go.dedis.ch/kyber/v4/share/dkg/pedersen"

	"verifharness/internal/kc"
)

func c11Nonce(rng *kc.Rng) []byte { return rng.Bytes(dkg.NonceLength) }

// freshRound builds a fresh DKG round with n parties.
func c11FreshRound(c *kc.Ctx, w *dkgWorld, sp *c11Spec, rng *kc.Rng) (*c11Round, error) {
	g := &dkgGroupSpec{threshold: uint32(sp.t), fast: sp.fast, nonce: c11Nonce(rng), newParties: map[uint32]*dkgParty{}, oldParties: map[uint32]*dkgParty{}}
	var parties []*dkgParty
	for i := 0; i < sp.n; i++ {
		p := w.newParty()
		parties = append(parties, p)
		idx := uint32(i)
		if sp.skipIdx {
			idx = uint32(3*i + 2)
		}
		g.new = append(g.new, dkg.Node{Index: idx, Public: p.pub})
		g.newParties[idx] = p
		g.oldParties[idx] = p
	}
	g.old = g.new
	r := &c11Round{c: c, w: w, g: g, faults: map[*dkgNode]c11Fault{}, rng: rng, desc: "fresh " + sp.String(), raw: sp.rawLists}
	for i, p := range parties {
		n, err := w.newNode(g, p, fmt.Sprintf("p%d", i))
		if err != nil {
			return nil, err
		}
		if f, ok := sp.faults[i]; ok && !f.honest() {
			n.faulty = true
			r.faults[n] = f
		}
		r.nodes = append(r.nodes, n)
	}
	return r, nil
}

// reshareRound builds a resharing round on top of an all-honest fresh round.
func c11ReshareRound(c *kc.Ctx, w *dkgWorld, sp *c11Spec, prev *c11Round, rng *kc.Rng) (*c11Round, error) {
	g := &dkgGroupSpec{threshold: uint32(sp.newT), oldThr: uint32(sp.t), fast: sp.fast, nonce: c11Nonce(rng), resharing: true,
		newParties: map[uint32]*dkgParty{}, oldParties: map[uint32]*dkgParty{}, oldShares: map[uint32]*dkg.DistKeyShare{}}
	g.old = prev.g.new
	for _, n := range prev.nodes {
		if n.result == nil {
			return nil, fmt.Errorf("previous round incomplete")
		}
		g.oldShares[n.nidx] = n.result.Key
		g.oldParties[n.nidx] = n.party
	}
	g.oldCoeffs = prev.nodes[0].result.Key.Commits
	// logarithms of the old public polynomial: sum of the dealers' secret polynomials
	g.oldLogs = make([]*big.Int, len(g.oldCoeffs))
	for k := range g.oldLogs {
		s := new(big.Int)
		for _, n := range prev.nodes {
			s.Add(s, sc2big(n.dpriv()[k]))
		}
		g.oldLogs[k] = s.Mod(s, w.q)
		if !w.pointOf(g.oldLogs[k]).Equal(g.oldCoeffs[k]) {
			return nil, fmt.Errorf("old public polynomial is not the sum of the dealers' polynomials")
		}
	}
	oldN := len(g.old)
	var newParties []*dkgParty
	switch sp.reshare {
	case "same":
		for _, n := range prev.nodes {
			newParties = append(newParties, n.party)
		}
	case "overlap":
		for _, n := range prev.nodes[:oldN-1] {
			newParties = append(newParties, n.party)
		}
		newParties = append(newParties, w.newParty())
	case "disjoint":
		for i := 0; i < oldN; i++ {
			newParties = append(newParties, w.newParty())
		}
	case "grow":
		for _, n := range prev.nodes {
			newParties = append(newParties, n.party)
		}
		newParties = append(newParties, w.newParty())
	case "shrink":
		for _, n := range prev.nodes[:oldN-1] {
			newParties = append(newParties, n.party)
		}
	}
	for i, p := range newParties {
		idx := uint32(i)
		if sp.skipIdx {
			idx = uint32(2*i + 5)
		}
		g.new = append(g.new, dkg.Node{Index: idx, Public: p.pub})
		g.newParties[idx] = p
	}
	r := &c11Round{c: c, w: w, g: g, faults: map[*dkgNode]c11Fault{}, rng: rng, desc: "reshare " + sp.String(), raw: sp.rawLists,
		targetLeaving: sp.leaveFalseComplaint}
	seen := map[*dkgParty]bool{}
	var all []*dkgParty
	for _, n := range prev.nodes {
		all = append(all, n.party)
		seen[n.party] = true
	}
	for _, p := range newParties {
		if !seen[p] {
			all = append(all, p)
		}
	}
	for i, p := range all {
		n, err := w.newNode(g, p, fmt.Sprintf("r%d", i))
		if err != nil {
			return nil, err
		}
		if f, ok := sp.rfaults[i]; ok && !f.honest() {
			n.faulty = true
			r.faults[n] = f
		}
		r.nodes = append(r.nodes, n)
	}
	return r, nil
}

// predicates evaluates the property on the real outputs of the honest parties.
func (r *c11Round) predicates(sp *c11Spec, prevKey kyber.Point) {
	w, g := r.w, r.g
	var done []*dkgNode
	honestAll := len(r.faults) == 0
	for _, n := range r.nodes {
		if n.faulty {
			continue
		}
		if n.result != nil {
			done = append(done, n)
		} else if honestAll && n.inNew {
			r.violation("honest-run-incomplete", fmt.Sprintf("all honest, node %s has no result: %s", n.name, n.lastErr), n)
		}
	}
	if len(done) == 0 {
		return
	}
	ref := done[0].result
	qualOf := func(res *dkg.Result) string {
		var q []uint32
		for _, x := range res.QUAL {
			q = append(q, x.Index)
		}
		return hexU32s(q)
	}
	for _, n := range done[1:] {
		same := len(n.result.Key.Commits) == len(ref.Key.Commits) && qualOf(n.result) == qualOf(ref)
		if same {
			for k := range ref.Key.Commits {
				if !ref.Key.Commits[k].Equal(n.result.Key.Commits[k]) {
					same = false
				}
			}
		}
		if !same {
			key := "agreement"
			phaseOf := func(x *dkgNode) string { return strings.SplitN(x.calls[len(x.calls)-1], ":", 2)[0] }
			if phaseOf(done[0]) != phaseOf(n) {
				key = "agreement:finished-in-different-phases"
			}
			r.violation(key, fmt.Sprintf("honest nodes %s and %s finished (in %s / %s) with different commitments / QUAL (%s vs %s)", done[0].name, n.name, phaseOf(done[0]), phaseOf(n), qualOf(ref), qualOf(n.result)), n)
			return
		}
	}
	// shares on the output polynomial
	pp := share.NewPubPoly(w.suite, w.suite.Point().Base(), ref.Key.Commits)
	var shares []*share.PriShare
	for _, n := range done {
		sh := n.result.Key.Share
		if sh.I != n.nidx || !pp.Check(sh) {
			r.violation("share-off-polynomial", fmt.Sprintf("node %s output share is not on the output polynomial", n.name), n)
		}
		shares = append(shares, sh)
	}
	t := int(g.threshold)
	if len(ref.Key.Commits) != t {
		r.violation("commit-length", fmt.Sprintf("output polynomial has %d commitments, threshold %d", len(ref.Key.Commits), t), done[0])
	}
	if len(shares) >= t {
		idx := make([]int, len(shares))
		for i := range idx {
			idx[i] = i
		}
		subs := kSubsets(idx, t)
		if len(subs) > 12 {
			subs = subs[:12]
		}
		for _, sub := range subs {
			var sel []*share.PriShare
			for _, k := range sub {
				sel = append(sel, shares[k])
			}
			s, err := share.RecoverSecret(w.suite, sel, uint32(t), uint32(len(g.new)))
			r.c.Eval(1)
			if err != nil || !w.suite.Point().Mul(s, nil).Equal(ref.Key.Commits[0]) {
				r.violation("recover", fmt.Sprintf("t output shares %v do not recover a secret matching Commits[0] (err=%v)", sub, err), done[0])
			}
		}
	}
	// key = sum of the qualified dealers' contributions / unchanged after resharing
	if g.resharing {
		if !ref.Key.Commits[0].Equal(prevKey) {
			r.violation("resharing-key-changed", "public key after resharing differs from the key before", done[0])
		}
	} else {
		sum := w.suite.Point().Null()
		for _, q := range ref.QUAL {
			for _, n := range r.nodes {
				if n.inOld && n.oidx == q.Index {
					sum = sum.Add(sum, w.suite.Point().Mul(n.dpriv()[0], nil))
				}
			}
		}
		if !sum.Equal(ref.Key.Commits[0]) {
			r.violation("key-not-sum-of-qual", "public key is not the sum of the qualified dealers' contributions", done[0])
		}
	}
	// qualification rules
	inQual := func(res *dkg.Result, idx uint32, asDealer bool) bool {
		if g.resharing {
			// QUAL lists new nodes; a dealer is "qualified" iff its contribution was used — observable
			// only through the key staying correct; holders are checked by index
			if asDealer {
				return true
			}
		}
		for _, x := range res.QUAL {
			if x.Index == idx {
				return true
			}
		}
		return false
	}
	nf := len(r.faults)
	for _, n := range r.nodes {
		f := r.faults[n]
		for _, d := range done {
			if !n.faulty && nf <= len(g.new)-t {
				// honest party: as a dealer (fresh) / holder (resharing) it must be qualified
				if !g.resharing && n.inOld && !inQual(d.result, n.oidx, true) {
					r.violation("honest-dealer-disqualified", fmt.Sprintf("honest dealer %s (index %d) is not in QUAL of %s", n.name, n.oidx, d.name), d)
				}
				if g.resharing && n.inNew && !inQual(d.result, n.nidx, false) {
					r.violation("honest-holder-disqualified", fmt.Sprintf("honest new node %s (index %d) is not in QUAL of %s", n.name, n.nidx, d.name), d)
				}
				// resharing: QUAL lists holders; whether an (honest) dealer's contribution counts is its status row
				if g.resharing && n.inOld && n.field("canIssue").Bool() {
					sm := *(d.field("statuses").Interface().(*dkg.StatusMatrix))
					if !sm.AllTrue(n.oidx) {
						key := "honest-dealer-disqualified-resharing"
						if !n.inNew {
							key = "honest-leaving-dealer-disqualified"
						}
						r.violation(key, fmt.Sprintf("honest dealer %s (old index %d, leaving=%v) ends with a complaint in its row at %s (%d faulty parties, n-t=%d)", n.name, n.oidx, !n.inNew, d.name, nf, len(g.new)-t), d)
					}
				}
			}
			if n.faulty && !g.resharing && n.inOld {
				df, jf := c11DealFaults[f.deal], c11JustFaults[f.just]
				invalid := df == "badShare" || df == "misdirect" || df == "badShareAll" || df == "badCommit" || df == "nonScalarShare"
				unjust := jf == "badJust" || jf == "noJust" || jf == "wrongSid"
				if (invalid && unjust && !r.raw) || df == "absent" || df == "wrongThreshold" || df == "wrongSid" {
					if inQual(d.result, n.oidx, true) {
						r.violation("faulty-dealer-qualified", fmt.Sprintf("dealer %s with fault %s is in QUAL of %s", n.name, f, d.name), d)
					}
				}
			}
		}
	}
}

// compare sends every participant's call history to the model and diffs outputs and states.
func c11Compare(c *kc.Ctx, rounds []*c11Round) {
	type item struct {
		r *c11Round
		n *dkgNode
	}
	var items []item
	var lines []string
	for _, r := range rounds {
		for _, n := range r.nodes {
			if len(n.calls) == 0 {
				continue
			}
			items = append(items, item{r, n})
			lines = append(lines, n.lineFix(true, true), n.lineFix(false, false), n.lineFix(true, false), n.lineFix(false, true))
		}
	}
	outs := c.Model(lines)
	c.Program(len(items))
	// cmp diffs one participant's history against one model output; -1 = equal
	cmp := func(it item, out string, count bool) int {
		mt := strings.Fields(out)
		n := it.n
		if len(mt) != len(n.impl) {
			return 0
		}
		for k := 0; k < len(mt); k++ {
			if count {
				c.CountKind("call:" + strings.SplitN(n.calls[k], ":", 2)[0] + ":" + strings.SplitN(strings.SplitN(n.impl[k], "#", 2)[0], ":", 2)[0])
				c.Eval(1)
			}
			if mt[k] == n.impl[k] {
				continue
			}
			// commitments of a result on a real group: compare as points
			if res, isRes := n.real[k].(*dkg.Result); isRes && strings.Contains(n.impl[k], "/?/") {
				mo, mst, _ := strings.Cut(mt[k], "#")
				io, ist, _ := strings.Cut(n.impl[k], "#")
				mf, imf := strings.Split(mo, "/"), strings.Split(io, "/")
				if mst == ist && len(mf) == 4 && len(imf) == 4 && mf[0] == imf[0] && mf[2] == imf[2] && mf[3] == imf[3] {
					logs := strings.Split(mf[1], ",")
					same := len(logs) == len(res.Key.Commits)
					for j := 0; same && j < len(logs); j++ {
						v, okv := new(big.Int).SetString(logs[j], 16)
						if !okv || !it.r.w.suite.Point().Mul(big2sc(it.r.w.suite, it.r.w.q, v), nil).Equal(res.Key.Commits[j]) {
							same = false
						}
					}
					if same {
						continue
					}
				}
			}
			return k
		}
		return -1
	}
	for i, it := range items {
		n := it.n
		fixedOut, codedOut := outs[4*i], outs[4*i+1]
		if i%(len(items)/6+1) == 0 {
			c.Sample(map[string]string{"line": trunc200(lines[4*i], 600), "impl": trunc200(strings.Join(n.impl, " "), 400), "model": trunc200(fixedOut, 400)})
		}
		at := cmp(it, fixedOut, true)
		if at < 0 {
			continue
		}
		// The implementation departs from the fully repaired model. It is accounted for if it follows one
		// of the as-coded variants AND the departure is one of the two reported defects:
		//  * a leaving dealer refused by the phase check of ProcessResponses (its effect on the property is
		//    judged by the predicates: key honest-leaving-dealer-disqualified);
		//  * the "finish in the response phase?" test reading rows of evicted dealers (effect judged by the
		//    agreement predicate: key agreement).
		matched := ""
		for k, nm := range []string{"as-coded", "leaving-fixed-only", "phase-fixed-only"} {
			if cmp(it, outs[4*i+1+k], false) < 0 {
				matched = nm
				break
			}
		}
		if matched != "" && strings.HasPrefix(n.calls[at], "PR:") {
			c.CountKind("as-coded-path:" + matched)
			continue
		}
		c.Disagree(trunc200(lines[4*i], 2000), strings.Join(n.impl, " "), fixedOut, fmt.Sprintf("first difference at call %d; as-coded model: %s", at, trunc200(codedOut, 800)))
		c.DisChecked(1)
		if len(it.r.vkeys) == 0 {
			c.Unshown("correspondence:dkg", fmt.Sprintf("model and implementation differ for %s at call %d (%s)", n.name, at, it.r.desc),
				map[string]any{"line": lines[4*i], "impl": n.impl, "model": fixedOut, "model_as_coded": codedOut})
		}
	}
}

func trunc200(s string, n int) string {
	if len(s) > n {
		return s[:n] + "…"
	}
	return s
}

func c11Play(c *kc.Ctx, sp *c11Spec, rng *kc.Rng) []*c11Round {
	w := newDkgWorld(sp.mock, rng.Fork("world"))
	fr, err := c11FreshRound(c, w, sp, rng.Fork("fresh"))
	if err != nil {
		c.Unshown("harness:c11", "fresh round could not be built: "+err.Error(), sp.String())
		return nil
	}
	fr.run()
	fr.predicates(sp, nil)
	rounds := []*c11Round{fr}
	nontriv := len(fr.faults) > 0 || sp.fast || sp.reshare != ""
	if sp.reshare != "" {
		ok := true
		for _, n := range fr.nodes {
			if n.result == nil {
				ok = false
			}
		}
		if ok {
			rr, err := c11ReshareRound(c, w, sp, fr, rng.Fork("reshare"))
			if err != nil {
				c.Unshown("harness:c11", "resharing round could not be built: "+err.Error(), sp.String())
			} else {
				rr.run()
				rr.predicates(sp, fr.nodes[0].result.Key.Commits[0])
				rounds = append(rounds, rr)
			}
		}
	}
	for _, r := range rounds {
		for _, n := range r.nodes {
			if nontriv && len(n.calls) > 0 {
				c.Nontrivial(n.line())
			}
		}
	}
	return rounds
}

func thresholds(n int) []int {
	var ts []int
	for t := n/2 + 1; t <= n; t++ {
		ts = append(ts, t)
	}
	return ts
}

func runC11(c *kc.Ctx) {
	c.SetRule("case = one participant's call history (Deals, ProcessDeals, ProcessResponses, ProcessJustifications with the delivered bundle lists in delivered order) in one network scenario (group, n, t, fresh/resharing shape, fast-sync, fault triples of the faulty parties, raw or de-duplicated delivery); non-trivial = scenario with a fault, fast-sync or resharing; distinct by the model line")
	c.Assume("ECIES is abstracted to 'opens under the addressee's key' (decided by the harness with the real ecies.Decrypt and the addressee's key)",
		"packet signatures are checked by the Protocol layer only; DistKeyGenerator calls are driven directly (the goroutine/timer driver is exercised separately at outcome level)",
		"on Ed25519 the logarithms of public points are known to the harness because it built them; result commitments are compared as points")
	rng := c.Rng.Fork("c11")
	var pend []*c11Round
	scen := 0
	flush := func() {
		if len(pend) > 0 {
			c11Compare(c, pend)
			pend = nil
		}
	}
	play := func(sp *c11Spec, label string) {
		rs := c11Play(c, sp, rng.Fork(label))
		pend = append(pend, rs...)
		scen++
		if len(pend) > 600 {
			flush()
		}
	}
	// A. exhaustive single-fault assignments for n <= 4 (the bound n-t allows one faulty party there)
	for _, mock := range []bool{true, false} {
		for n := 3; n <= 4; n++ {
			for _, t := range thresholds(n) {
				for _, fast := range []bool{false, true} {
					play(&c11Spec{mock: mock, n: n, t: t, fast: fast}, fmt.Sprint("A-honest", mock, n, t, fast))
					if n-t < 1 {
						continue
					}
					for pos := 0; pos < n; pos++ {
						for df := range c11DealFaults {
							for rf := range c11RespFaults {
								for jf := range c11JustFaults {
									f := c11Fault{df, rf, jf}
									if f.honest() {
										continue
									}
									// justification faults only matter when the dealer is complained about
									if jf != 0 && !(df == 2 || df == 3 || df == 10 || rf == 0) {
										continue
									}
									if !mock && !c.Thorough() && (pos+df+rf+jf)%7 != 0 {
										continue
									}
									if mock && !c.Thorough() && n == 4 && (pos+df+rf+jf)%3 != 0 {
										continue
									}
									raw := (df+rf+jf)%2 == 1
									play(&c11Spec{mock: mock, n: n, t: t, fast: fast, faults: map[int]c11Fault{pos: f}, rawLists: raw, skipIdx: (pos+df)%3 == 0},
										fmt.Sprint("A", mock, n, t, fast, pos, df, rf, jf))
								}
							}
						}
					}
				}
			}
		}
	}
	c.Extra("scenarios_A_exhaustive_small", scen)
	a := scen
	// B. sampled fault assignments for n = 5, 6 (up to n-t faulty parties)
	for _, mock := range []bool{true, false} {
		for n := 5; n <= 6; n++ {
			for _, t := range thresholds(n) {
				cnt := c.N(10, 150)
				if !mock {
					cnt = c.N(3, 40)
				}
				for k := 0; k < cnt; k++ {
					sp := &c11Spec{mock: mock, n: n, t: t, fast: rng.Intn(3) == 0, faults: map[int]c11Fault{}, rawLists: rng.Intn(3) == 0, skipIdx: rng.Intn(4) == 0}
					nf := 0
					if n-t > 0 {
						nf = rng.Intn(n - t + 1)
					}
					for len(sp.faults) < nf {
						sp.faults[rng.Intn(n)] = c11Fault{rng.Intn(len(c11DealFaults)), rng.Intn(len(c11RespFaults)), rng.Intn(len(c11JustFaults))}
					}
					play(sp, fmt.Sprint("B", mock, n, t, k))
				}
			}
		}
	}
	c.Extra("scenarios_B_sampled", scen-a)
	a = scen
	// C. resharing on top of an honest fresh round: all group shapes, faults in the resharing round
	for _, mock := range []bool{true, false} {
		for n := 3; n <= 5; n++ {
			for _, t := range thresholds(n) {
				for _, shape := range []string{"same", "overlap", "disjoint", "grow", "shrink"} {
					newN := map[string]int{"same": n, "overlap": n, "disjoint": n, "grow": n + 1, "shrink": n - 1}[shape]
					if newN < 2 {
						continue
					}
					for _, newT := range thresholds(newN) {
						reps := c.N(2, 12)
						if !mock {
							reps = c.N(1, 4)
						}
						for k := 0; k < reps; k++ {
							sp := &c11Spec{mock: mock, n: n, t: t, fast: k%3 == 2, reshare: shape, newT: newT, rfaults: map[int]c11Fault{}, skipIdx: k%4 == 3, rawLists: k%5 == 4}
							if k > 0 {
								// one faulty party in the resharing round
								sp.rfaults[rng.Intn(n+1)] = c11Fault{rng.Intn(len(c11DealFaults)), rng.Intn(len(c11RespFaults)), rng.Intn(len(c11JustFaults))}
							}
							play(sp, fmt.Sprint("C", mock, n, t, shape, newT, k))
						}
					}
				}
			}
		}
	}
	c.Extra("scenarios_C_resharing", scen-a)
	a = scen
	// D. resharing where one faulty member of the NEW group files a false complaint against an honest
	// dealer that leaves the group (it cannot answer: see the phase check of ProcessResponses)
	for _, mock := range []bool{true, false} {
		for n := 3; n <= 5; n++ {
			for _, shape := range []string{"overlap", "shrink", "disjoint"} {
				newN := map[string]int{"overlap": n, "disjoint": n, "shrink": n - 1}[shape]
				for _, newT := range thresholds(newN) {
					if newN-newT < 1 {
						continue // no faulty party allowed
					}
					t := n/2 + 1
					for _, fast := range []bool{false, true} {
						// position of a party of the new group: the first old one stays in every shape except disjoint
						pos := 0
						if shape == "disjoint" {
							pos = n
						}
						sp := &c11Spec{mock: mock, n: n, t: t, fast: fast, reshare: shape, newT: newT, leaveFalseComplaint: true,
							rfaults: map[int]c11Fault{pos: {0, 1, 0}}}
						play(sp, fmt.Sprint("D", mock, n, shape, newT, fast))
					}
				}
			}
		}
	}
	c.Extra("scenarios_D_false_complaint_against_leaving_dealer", scen-a)
	a = scen
	// E. two colluding faulty parties (n - t >= 2), non-contiguous indices: one dealer is evicted through a
	// deal for an unknown holder placed in the middle of its deal list, the other sends a justification
	// bundle nobody asked for
	for _, mock := range []bool{true, false} {
		for n := 5; n <= 6; n++ {
			for _, t := range thresholds(n) {
				if n-t < 2 {
					continue
				}
				cnt := c.N(8, 60)
				if !mock {
					cnt = c.N(2, 12)
				}
				for k := 0; k < cnt; k++ {
					p1 := rng.Intn(n)
					p2 := (p1 + 1 + rng.Intn(n-1)) % n
					jf := 6 + rng.Intn(2)
					sp := &c11Spec{mock: mock, n: n, t: t, fast: false, skipIdx: true, rawLists: false,
						faults: map[int]c11Fault{p1: {11, 0, 0}, p2: {0, 0, jf}}}
					play(sp, fmt.Sprint("E", mock, n, t, k))
				}
			}
		}
	}
	c.Extra("scenarios_E_asymmetric_eviction_plus_unsolicited_justification", scen-a)
	a = scen
	// F. resharing in which one old dealer deals a self-consistent polynomial that does not reshare its old
	// share: members of the new group with and without an old share must treat it alike
	wr := 0
	for i, f := range c11DealFaults {
		if f == "wrongReshare" {
			wr = i
		}
	}
	for _, mock := range []bool{true, false} {
		for n := 3; n <= 5; n++ {
			for _, t := range thresholds(n) {
				for _, shape := range []string{"same", "overlap", "disjoint", "grow", "shrink"} {
					newN := map[string]int{"same": n, "overlap": n, "disjoint": n, "grow": n + 1, "shrink": n - 1}[shape]
					if newN < 2 {
						continue
					}
					for _, newT := range thresholds(newN) {
						for pos := 0; pos < n; pos++ {
							if !c.Thorough() && pos != 0 && pos != n-1 {
								continue
							}
							if !mock && !c.Thorough() && (n+pos+newT)%3 != 0 {
								continue
							}
							sp := &c11Spec{mock: mock, n: n, t: t, fast: (pos+newT)%2 == 1, reshare: shape, newT: newT,
								rfaults: map[int]c11Fault{pos: {wr, 0, (pos + n) % 3}}, skipIdx: (pos+n)%4 == 3}
							play(sp, fmt.Sprint("F", mock, n, t, shape, newT, pos))
						}
					}
				}
			}
		}
	}
	c.Extra("scenarios_F_resharing_of_a_wrong_value", scen-a)
	flush()
	c11Rabin(c, rng.Fork("rabin"))
	c11Protocol(c, rng.Fork("protocol"))
	c11PacketBinding(c, rng.Fork("packets"))
	c11RabinPacketBinding(c, rng.Fork("rabin-packets"))
	_ = sort.Ints
}

func init() { register("C11", "proof", runC11) }
