package main

// C11, Rabin variant (share/dkg/rabin): search only — there is no Lean model of this state machine
// (its building block, Rabin VSS, is modelled and proved in C10). In-process networks of real
// DistKeyGenerator objects run the full exchange (deals, responses, justifications, timeout, secret
// commits, complaint commits, reconstruct commits) under a small fault menu, and the property's
// predicates are evaluated on the outputs of the honest parties.

import (
	"fmt"
	"reflect"
	"sort"
	"unsafe"

	"go.dedis.ch/kyber/v4"
	"go.dedis.ch/kyber/v4/share"
	rdkg "go.dedis.ch/kyber/v4/share/dkg/rabin"
	rvss "go.dedis.ch/kyber/v4/share/vss/rabin"
	"go.dedis.ch/kyber/v4/sign/schnorr"

	"verifharness/internal/kc"
)

var c11RabinFaults = []string{"none", "absent", "badShareJustified", "badShareUnjustified", "noResponses", "thresholdOne", "badSecretCommits", "badShareBadJustification", "forgedJustification", "longSecretCommits"}

type rabNode struct {
	i      int
	sec    kyber.Scalar
	gen    *rdkg.DistKeyGenerator
	fault  string
	victim int
	pubs   []kyber.Point
	tr     *rabTrace     // nil: not traced against the model (real groups: logarithms unknown)
	nt     *rabNodeTrace // this node's trace
}

func (n *rabNode) dealer() *rvss.Dealer {
	rf := reflect.ValueOf(n.gen).Elem().FieldByName("dealer")
	return reflect.NewAt(rf.Type(), unsafe.Pointer(rf.UnsafeAddr())).Elem().Interface().(*rvss.Dealer)
}

func c11RabinScenario(c *kc.Ctx, mock bool, n, t int, faults map[int]string, rng *kc.Rng) {
	c11RabinScenarioV(c, mock, n, t, faults, nil, rng)
}

// c11RabinScenarioV: victims[i] fixes the target of faulty party i (otherwise random).
func c11RabinScenarioV(c *kc.Ctx, mock bool, n, t int, faults map[int]string, victims map[int]int, rng *kc.Rng) {
	w := newDkgWorld(mock, rng.Fork("world"))
	desc := fmt.Sprintf("rabin mock=%v n=%d t=%d faults=%v", mock, n, t, faults)
	viol := func(key, what string) {
		// outcomes of the one scenario class in which a participant reveals a wrong share VALUE during the
		// reconstruction of a dealer's polynomial carry their own keys (recorded finding: receivers cannot check it)
		for _, f := range faults {
			if f == "badReconstructValue" && (key == "agreement" || key == "share-off-polynomial" || key == "recover") {
				key += ":unverified-reconstruct-share"
				break
			}
		}
		c.Violation("rabin:"+key, what, map[string]any{"scenario": desc, "group": w.gname})
	}
	var pubs []kyber.Point
	nodes := make([]*rabNode, n)
	for i := 0; i < n; i++ {
		s := w.suite.Scalar().Pick(w.suite.RandomStream())
		nodes[i] = &rabNode{i: i, sec: s, fault: "none"}
		pubs = append(pubs, w.suite.Point().Mul(s, nil))
	}
	for i, f := range faults {
		nodes[i].fault = f
		nodes[i].victim = (i + 1 + rng.Intn(n-1)) % n
		if v, ok := victims[i]; ok {
			nodes[i].victim = v
		}
	}
	for i := 0; i < n; i++ {
		g, err := rdkg.NewDistKeyGenerator(w.suite, nodes[i].sec, pubs, uint32(t))
		if err != nil {
			c.Unshown("harness:rabin", err.Error(), desc)
			return
		}
		nodes[i].gen = g
		nodes[i].pubs = pubs
	}
	var tr *rabTrace
	if mock {
		tr = &rabTrace{w: w, n: n, t: t, desc: desc, meta: map[*rvss.EncryptedDeal]rabDealMeta{}}
		for _, x := range nodes {
			x.tr, x.nt = tr, &rabNodeTrace{}
		}
		defer rabTraceDone(c, nodes)
	}
	honest := func(x *rabNode) bool { return x.fault == "none" }
	run := func(f func()) (ok bool) {
		defer func() {
			if r := recover(); r != nil {
				ok = false
			}
		}()
		f()
		return true
	}
	// 1. deals
	dealRefused := map[int]bool{}
	seenDeal := map[int]*rdkg.Deal{}
	var resps []*rdkg.Response
	for _, d := range nodes {
		if d.fault == "absent" {
			continue
		}
		var deals map[int]*rdkg.Deal
		if !run(func() { deals, _ = d.deals() }) || deals == nil {
			viol("deals-panic", fmt.Sprintf("Deals() of node %d failed", d.i))
			return
		}
		if d.fault == "badShareMany" {
			// invalid shares for n-t honest participants, never justified: the dealer (own approval included) keeps exactly t-1
			// approvals besides the one a colluding participant may add
			dl := d.dealer()
			left := n - t
			for v := 0; v < n && left > 0; v++ {
				if v == d.i || nodes[v].fault != "none" {
					continue
				}
				if pd, err := dl.PlaintextDeal(v); err == nil {
					bad := *pd
					bad.SecShare = &share.PriShare{I: pd.SecShare.I, V: w.suite.Scalar().Add(pd.SecShare.V, w.suite.Scalar().One())}
					if e, err := dl.EncryptDealFor(v, &bad); err == nil {
						tr.reg(e, &bad, v)
						deals[v] = &rdkg.Deal{Index: uint32(d.i), Deal: e}
						left--
					}
				}
			}
		}
		if d.fault == "badShareJustified" || d.fault == "badShareUnjustified" || d.fault == "thresholdOne" || d.fault == "badShareBadJustification" {
			dl := d.dealer()
			pd, err := dl.PlaintextDeal(d.victim)
			if err == nil {
				bad := *pd
				if d.fault == "thresholdOne" {
					bad.T = 1
				} else {
					bad.SecShare = &share.PriShare{I: pd.SecShare.I, V: w.suite.Scalar().Add(pd.SecShare.V, w.suite.Scalar().One())}
				}
				if e, err := dl.EncryptDealFor(d.victim, &bad); err == nil {
					tr.reg(e, &bad, d.victim)
					deals[d.victim] = &rdkg.Deal{Index: uint32(d.i), Deal: e}
				}
			}
		}
		for j, dd := range deals {
			if nodes[j].fault == "absent" {
				continue
			}
			var r *rdkg.Response
			var err error
			seenDeal[j] = dd
			if !run(func() { r, err = nodes[j].processDeal(dd) }) {
				viol("processdeal-panic", fmt.Sprintf("ProcessDeal at %d of deal from %d panicked", j, d.i))
				return
			}
			if err != nil {
				dealRefused[j] = true // a malformed deal: the node could not even register it (no complaint is possible)
			}
			if err == nil && r != nil && nodes[j].fault == "forgedJustification" && nodes[j].victim == d.i && r.Response != nil {
				// a false complaint, correctly signed by the faulty verifier
				fr := &rvss.Response{SessionID: r.Response.SessionID, Index: r.Response.Index, Approved: false}
				if sig, e := schnorr.Sign(w.suite, nodes[j].sec, fr.Hash(w.suite)); e == nil {
					fr.Signature = sig
					r = &rdkg.Response{Index: r.Index, Response: fr}
				}
			}
			if err == nil && r != nil && nodes[j].fault != "noResponses" {
				resps = append(resps, r)
			}
		}
		c.Eval(1)
	}
	// 2. responses -> justifications
	var justs []*rdkg.Justification
	for _, r := range resps {
		for _, x := range nodes {
			if x.fault == "absent" || uint32(x.i) == r.Response.Index {
				continue
			}
			var j *rdkg.Justification
			// every recipient gets its own copy of the message, as on a network (the library records and
			// later updates the Response object it is handed)
			rc := rabCopyResponse(r)
			if sender := nodes[r.Response.Index]; sender.fault == "equivocate" && int(r.Index) == sender.victim {
				// a participant that signs both an approval and a complaint about the same deal: every node
				// receives both, in an order of the adversary's choice
				alt := &rvss.Response{SessionID: r.Response.SessionID, Index: r.Response.Index, Approved: !r.Response.Approved}
				if sig, e := schnorr.Sign(w.suite, sender.sec, alt.Hash(w.suite)); e == nil {
					alt.Signature = sig
					ac := &rdkg.Response{Index: r.Index, Response: alt}
					first, second := rc, ac
					if x.i%2 == 1 {
						first, second = ac, rc
					}
					run(func() { j, _ = x.processResponse(first) })
					var j2 *rdkg.Justification
					run(func() { j2, _ = x.processResponse(second) })
					if j == nil {
						j = j2
					}
					if j != nil && x.fault != "badShareUnjustified" && x.fault != "badShareMany" {
						justs = append(justs, j)
					}
					continue
				}
			}
			run(func() { j, _ = x.processResponse(rc) })
			if j != nil && x.fault != "badShareUnjustified" && x.fault != "badShareMany" {
				justs = append(justs, j)
			}
		}
	}
	// Read-only queries between the phases must not change the outcome: a random subset of the nodes asks
	// for QUAL / Certified now (responses in, justifications not yet).
	for _, x := range nodes {
		if x.fault != "absent" && rng.Intn(2) == 0 {
			run(func() { _ = x.gen.QUAL(); _ = x.gen.Certified() })
		}
	}
	// ... and the same faulty verifier then broadcasts, ahead of the dealer's answer, a "justification" in the
	// dealer's name that reveals a wrong share and carries no valid signature
	for _, f := range nodes {
		if f.fault != "forgedJustification" {
			continue
		}
		d := nodes[f.victim]
		if d.fault != "none" {
			continue
		}
		pd, err := d.dealer().PlaintextDeal(f.i)
		if err != nil || pd == nil {
			continue
		}
		bad := *pd
		bad.SecShare = &share.PriShare{I: pd.SecShare.I, V: w.suite.Scalar().Add(pd.SecShare.V, w.suite.Scalar().One())}
		fj := &rdkg.Justification{Index: uint32(d.i), Justification: &rvss.Justification{SessionID: pd.SessionID, Index: uint32(f.i), Deal: &bad, Signature: []byte("not the dealer")}}
		justs = append([]*rdkg.Justification{fj}, justs...)
		c.CountKind("rabin:forged-justification")
	}
	badJustSent := map[int]bool{}
	for _, j := range justs {
		if d := nodes[j.Index]; d.fault == "badShareBadJustification" && j.Justification != nil && j.Justification.Deal != nil && j.Justification.Deal.SecShare != nil {
			// the dealer answers the complaint with a deal that still does not match its commitments
			bad := *j.Justification.Deal
			bad.SecShare = &share.PriShare{I: bad.SecShare.I, V: w.suite.Scalar().Add(bad.SecShare.V, w.suite.Scalar().One())}
			nj := &rvss.Justification{SessionID: j.Justification.SessionID, Index: j.Justification.Index, Deal: &bad}
			if sig, err := schnorr.Sign(w.suite, d.sec, nj.Hash(w.suite)); err == nil {
				nj.Signature = sig
				j = &rdkg.Justification{Index: j.Index, Justification: nj}
				badJustSent[d.i] = true
			}
		}
		for _, x := range nodes {
			// a dealer has already processed the justifications it issued itself; everything else on the
			// broadcast channel reaches every node, the named dealer included
			if x.fault == "absent" || (uint32(x.i) == j.Index && string(j.Justification.Signature) != "not the dealer") {
				continue
			}
			jc := rabCopyJustification(j)
			run(func() { _ = x.processJustification(jc) })
		}
	}
	// Stray traffic (traced scenarios, every other one): a deal delivered twice, a deal / response / justification
	// naming an index nobody holds, a justification without content. All of it has to be refused without
	// any effect; the model says so step by step, the predicates below see the outcome.
	if tr != nil && rng.Intn(2) == 0 {
		for _, x := range nodes {
			if x.fault == "absent" {
				continue
			}
			if dd := seenDeal[x.i]; dd != nil {
				run(func() { _, _ = x.processDeal(dd) })
				far := &rdkg.Deal{Index: uint32(n + rng.Intn(3)), Deal: dd.Deal}
				run(func() { _, _ = x.processDeal(far) })
			}
			if len(resps) > 0 {
				rc := rabCopyResponse(resps[rng.Intn(len(resps))])
				rc.Index = uint32(n + 1 + rng.Intn(3))
				run(func() { _, _ = x.processResponse(rc) })
			}
			run(func() { _ = x.processJustification(&rdkg.Justification{Index: uint32(rng.Intn(n))}) })
			run(func() { _ = x.processJustification(&rdkg.Justification{Index: uint32(n + rng.Intn(3))}) })
			if len(justs) > 0 {
				jc := rabCopyJustification(justs[rng.Intn(len(justs))])
				jc.Index = uint32(n + rng.Intn(3))
				run(func() { _ = x.processJustification(jc) })
			}
		}
		c.CountKind("rabin:stray-traffic")
	}
	// 3. timeout: needed only when a response is missing; otherwise a node may or may not call it
	needTimeout := false
	for _, f := range faults {
		if f == "absent" || f == "noResponses" {
			needTimeout = true
		}
	}
	for _, x := range nodes {
		if x.fault != "absent" && (needTimeout || rng.Intn(2) == 0) {
			run(func() { x.setTimeout() })
		}
	}
	// QUAL() is an output of its own: once deals, responses, justifications (and timeouts) are in, the honest
	// nodes hold the same qualified set, whatever they asked their generator in between
	{
		var refQ []uint32
		refI := -1
		for _, x := range nodes {
			if !honest(x) || dealRefused[x.i] {
				continue // a node that had to refuse a malformed deal does not hold the same view (and cannot complete)
			}
			var q []uint32
			run(func() { q = x.gen.QUAL() })
			sort.Slice(q, func(a, b int) bool { return q[a] < q[b] })
			if refI < 0 {
				refQ, refI = q, x.i
				continue
			}
			if fmt.Sprint(q) != fmt.Sprint(refQ) {
				// Only where every honest node accepted the same messages: a deal under another threshold carries
				// another session id (the victim and the others reject each other's responses), forged and
				// conflicting messages are classified on the final outputs below.
				special := false
				for _, f := range faults {
					if f == "equivocate" || f == "forgedJustification" || f == "thresholdOne" || f == "badShareMany" {
						special = true
					}
				}
				if !special {
					viol("qual-agreement", fmt.Sprintf("after the dealing phases honest nodes %d and %d hold different QUAL sets (%v vs %v)", refI, x.i, refQ, q))
					return
				}
			}
		}
	}
	// 4. secret commits among QUAL
	var scs []*rdkg.SecretCommits
	for _, x := range nodes {
		if x.fault == "absent" {
			continue
		}
		var sc *rdkg.SecretCommits
		run(func() { sc, _ = x.secretCommits() })
		if sc != nil && (x.fault == "badSecretCommits" || x.fault == "longSecretCommits") {
			// publish commitments of f + h where h vanishes at the evaluation point (index+1) of every
			// node except the victim: only the victim's share fails, it complains, the others reveal
			// their shares and the dealer's real commitments are reconstructed
			h := []kyber.Scalar{w.suite.Scalar().Pick(w.suite.RandomStream())}
			for j := 0; j < n; j++ {
				// "longSecretCommits": h vanishes at EVERY evaluation point - the commitments (n+1 of them) match every
				// share, nobody can complain, and the polynomial is not the one that was dealt
				if x.fault == "badSecretCommits" && (j == x.victim || j == x.i) {
					continue
				}
				root := w.suite.Scalar().SetInt64(int64(j + 1))
				nh := make([]kyber.Scalar, len(h)+1)
				for k := range nh {
					nh[k] = w.suite.Scalar().Zero()
				}
				for k, hk := range h {
					nh[k+1] = w.suite.Scalar().Add(nh[k+1], hk)
					nh[k] = w.suite.Scalar().Sub(nh[k], w.suite.Scalar().Mul(hk, root))
				}
				h = nh
			}
			fake := make([]kyber.Point, 0, len(h))
			for k := 0; k < len(h) || k < len(sc.Commitments); k++ {
				pt := w.suite.Point().Null()
				if k < len(h) {
					pt = w.suite.Point().Mul(h[k], nil)
				}
				if k < len(sc.Commitments) {
					pt = w.suite.Point().Add(pt, sc.Commitments[k])
				}
				fake = append(fake, pt)
			}
			bad := &rdkg.SecretCommits{Index: sc.Index, Commitments: fake, SessionID: sc.SessionID}
			if sig, err := schnorr.Sign(w.suite, x.sec, bad.Hash(w.suite)); err == nil {
				bad.Signature = sig
				sc = bad
			}
		}
		if sc != nil {
			scs = append(scs, sc)
		}
	}
	var ccs []*rdkg.ComplaintCommits
	for _, sc := range scs {
		for _, x := range nodes {
			if x.fault == "absent" || uint32(x.i) == sc.Index {
				continue
			}
			var cc *rdkg.ComplaintCommits
			run(func() { cc, _ = x.processSecretCommits(sc) })
			if cc != nil {
				ccs = append(ccs, cc)
			}
		}
	}
	var rcs []*rdkg.ReconstructCommits
	for _, cc := range ccs {
		for _, x := range nodes {
			if x.fault == "absent" {
				continue
			}
			var rc *rdkg.ReconstructCommits
			run(func() { rc, _ = x.processComplaintCommits(cc) })
			if rc != nil && (x.fault == "badReconstructValue" || x.fault == "badReconstructIndex") && rc.Share != nil {
				// a participant that reveals, under its own signature, another value than the share it was dealt,
				// or its share under somebody else's evaluation point
				bad := &rdkg.ReconstructCommits{SessionID: rc.SessionID, Index: rc.Index, DealerIndex: rc.DealerIndex,
					Share: &share.PriShare{I: rc.Share.I, V: w.suite.Scalar().Add(rc.Share.V, w.suite.Scalar().One())}}
				if x.fault == "badReconstructIndex" {
					bad.Share = &share.PriShare{I: (rc.Share.I + 1 + uint32(x.victim)%uint32(n-1)) % uint32(n), V: rc.Share.V}
				}
				if sig, err := schnorr.Sign(w.suite, x.sec, bad.Hash(w.suite)); err == nil {
					bad.Signature = sig
					rc = bad
					c.CountKind("rabin:" + x.fault)
				}
			}
			if rc != nil {
				rcs = append(rcs, rc)
			}
		}
	}
	if len(rcs) > 0 {
		c.CountKind("rabin:reconstruct-phase")
	}
	// The broadcast channel may repeat messages: in every other scenario with a complaint, the secret commitments
	// and the complaints are delivered once more (in this order) before the revealed shares arrive.
	if len(ccs) > 0 && rng.Intn(2) == 0 {
		for _, sc := range scs {
			for _, x := range nodes {
				if x.fault != "absent" && uint32(x.i) != sc.Index {
					run(func() { _, _ = x.processSecretCommits(sc) })
				}
			}
		}
		for _, cc := range ccs {
			for _, x := range nodes {
				if x.fault != "absent" {
					run(func() { _, _ = x.processComplaintCommits(cc) })
				}
			}
		}
		c.CountKind("rabin:phase-two-messages-repeated")
	}
	// the broadcast channel may deliver in any order - another one to every node - and more than once (also back
	// to the author)
	for _, x := range nodes {
		if x.fault == "absent" {
			continue
		}
		rcs := append([]*rdkg.ReconstructCommits{}, rcs...)
		for a := len(rcs) - 1; a > 0; a-- {
			b := rng.Intn(a + 1)
			rcs[a], rcs[b] = rcs[b], rcs[a]
		}
		dup := rng.Intn(3) // 0: once, 1: every message twice in a row, 2: the whole batch twice
		deliver := rcs
		if dup == 2 {
			deliver = append(append([]*rdkg.ReconstructCommits{}, rcs...), rcs...)
		}
		for _, rc := range deliver {
			for rep := 0; rep < 1+dup%2; rep++ {
				if !run(func() { _ = x.processReconstructCommits(rc) }) && honest(x) {
					viol("reconstruct-panic", fmt.Sprintf("ProcessReconstructCommits at honest node %d panicked (message from %d about dealer %d, delivery %d, duplication mode %d)", x.i, rc.Index, rc.DealerIndex, rep, dup))
					return
				}
			}
		}
	}
	// ... and a dealer may publish its secret commitments once more after everything else is over
	if len(rcs) > 0 && rng.Intn(2) == 0 {
		for _, sc := range scs {
			for _, x := range nodes {
				if x.fault != "absent" && uint32(x.i) != sc.Index {
					run(func() { _, _ = x.processSecretCommits(sc) })
				}
			}
		}
		c.CountKind("rabin:secret-commits-repeated-after-reconstruction")
	}
	if tr != nil {
		for _, x := range nodes {
			if x.fault != "absent" {
				run(func() { x.keyQuery() })
			}
		}
	}
	// 5. outputs of the honest parties
	type outp struct {
		n    *rabNode
		dks  *rdkg.DistKeyShare
		qual []uint32
	}
	var outs []outp
	allHonest := len(faults) == 0
	onlyBadCommits := len(faults) == 1 && n-2 >= t // t honest nodes other than the victim reveal their shares
	for _, f := range faults {
		onlyBadCommits = onlyBadCommits && f == "badSecretCommits"
	}
	for _, x := range nodes {
		if !honest(x) {
			continue
		}
		var dks *rdkg.DistKeyShare
		var err error
		fin := false
		run(func() { fin = x.gen.Finished() })
		if fin {
			if !run(func() { dks, err = x.gen.DistKeyShare() }) {
				key := "distkeyshare-panic"
				for i, f := range faults {
					if f == "badShareUnjustified" && nodes[i].victim == x.i {
						key = "unjustified-dealer-qualified" // same root cause, seen from the victim
					}
				}
				viol(key, fmt.Sprintf("DistKeyShare panics at honest node %d (QUAL %v)", x.i, x.gen.QUAL()))
			}
		}
		if dks == nil && onlyBadCommits {
			viol("reconstruction-incomplete", fmt.Sprintf("one dealer published wrong secret commitments for one node; honest node %d finished=%v err=%v", x.i, fin, err))
		}
		if dks == nil {
			if allHonest {
				viol("honest-run-incomplete", fmt.Sprintf("all honest, node %d finished=%v err=%v", x.i, fin, err))
			}
			continue
		}
		q := x.gen.QUAL()
		sort.Slice(q, func(a, b int) bool { return q[a] < q[b] })
		outs = append(outs, outp{x, dks, q})
		c.CountKind("rabin:finished")
	}
	c.CountKind("rabin:scenario")
	c.Nontrivial(desc + fmt.Sprint(rng.U64()))
	if len(outs) == 0 {
		return
	}
	ref := outs[0]
	for _, o := range outs[1:] {
		same := fmt.Sprint(o.qual) == fmt.Sprint(ref.qual) && len(o.dks.Commits) == len(ref.dks.Commits)
		for k := 0; same && k < len(ref.dks.Commits); k++ {
			same = ref.dks.Commits[k].Equal(o.dks.Commits[k])
		}
		if !same {
			// is the difference confined to dealers named in a forged, unsigned justification?
			diff := map[uint32]bool{}
			for _, q := range ref.qual {
				diff[q] = !diff[q]
			}
			for _, q := range o.qual {
				diff[q] = !diff[q]
			}
			forgedOnly := fmt.Sprint(o.qual) != fmt.Sprint(ref.qual)
			for q, on := range diff {
				if !on {
					continue
				}
				named := false
				for _, f := range nodes {
					if f.fault == "forgedJustification" && uint32(f.victim) == q {
						named = true
					}
				}
				forgedOnly = forgedOnly && named
			}
			if forgedOnly {
				viol("agreement:forged-unsigned-justification", fmt.Sprintf("honest nodes %d and %d output different QUAL (%v vs %v): a verifier complained falsely about an honest dealer and broadcast, in the dealer's name, an unsigned justification revealing a wrong share; nodes that see it before the dealer's answer mark the dealer bad for good", ref.n.i, o.n.i, ref.qual, o.qual))
				return
			}
			// is the difference confined to a dealer about which a colluding participant equivocated?
			equivOnly := fmt.Sprint(o.qual) != fmt.Sprint(ref.qual)
			for q, on := range diff {
				if !on {
					continue
				}
				named := false
				for _, f := range nodes {
					if f.fault == "equivocate" && uint32(f.victim) == q && nodes[q].fault == "badShareMany" {
						named = true
					}
				}
				equivOnly = equivOnly && named
			}
			if equivOnly {
				viol("agreement:conflicting-responses-first-wins", fmt.Sprintf("honest nodes %d and %d output different QUAL (%v vs %v): a faulty dealer keeps exactly t-1 approvals and a colluding participant signs both an approval and a complaint about its deal; every node keeps whichever it receives first", ref.n.i, o.n.i, ref.qual, o.qual))
				return
			}
			viol("agreement", fmt.Sprintf("honest nodes %d and %d output different QUAL / commitments (%v vs %v)", ref.n.i, o.n.i, ref.qual, o.qual))
			return
		}
	}
	pp := share.NewPubPoly(w.suite, w.suite.Point().Base(), ref.dks.Commits)
	var shares []*share.PriShare
	for _, o := range outs {
		if !pp.Check(o.dks.Share) {
			key := "share-off-polynomial"
			for i, f := range faults {
				if (f == "badShareUnjustified" || f == "badShareBadJustification") && nodes[i].victim == o.n.i {
					key = "share-off-polynomial:unjustified-complaint-dealer-kept"
				}
			}
			viol(key, fmt.Sprintf("honest node %d output share is not on the output polynomial (QUAL %v)", o.n.i, o.qual))
			continue
		}
		shares = append(shares, o.dks.Share)
	}
	if len(shares) >= t {
		s, err := share.RecoverSecret(w.suite, shares[:t], uint32(t), uint32(n))
		c.Eval(1)
		if err != nil || !w.suite.Point().Mul(s, nil).Equal(ref.dks.Public()) {
			viol("recover", fmt.Sprintf("t output shares do not recover a secret matching the public key (err=%v)", err))
		}
	}
	// qualification: honest dealers are qualified; a dealer that never dealt is not
	for _, x := range nodes {
		in := false
		for _, q := range ref.qual {
			if int(q) == x.i {
				in = true
			}
		}
		forgedAgainst := false
		for _, f := range nodes {
			if f.fault == "forgedJustification" && f.victim == x.i {
				forgedAgainst = true
			}
		}
		if honest(x) && !in && len(faults) <= n-t && forgedAgainst {
			viol("honest-dealer-disqualified:forged-unsigned-justification", fmt.Sprintf("honest dealer %d is not in QUAL %v: one verifier complained falsely and sent, in the dealer's name, an unsigned justification revealing a wrong share", x.i, ref.qual))
		} else if honest(x) && !in && len(faults) <= n-t {
			viol("honest-dealer-disqualified", fmt.Sprintf("honest dealer %d is not in QUAL %v", x.i, ref.qual))
		}
		if x.fault == "badShareBadJustification" && badJustSent[x.i] && in {
			viol("bad-justification-dealer-qualified", fmt.Sprintf("dealer %d answered a complaint with an invalid justification and is in QUAL %v", x.i, ref.qual))
		}
		if x.fault == "badShareUnjustified" && in && nodes[x.victim].fault == "none" {
			viol("unjustified-dealer-qualified", fmt.Sprintf("dealer %d sent an invalid share to honest node %d, never justified it, and is in QUAL %v", x.i, x.victim, ref.qual))
		}
		if x.fault == "absent" && in {
			viol("absent-dealer-qualified", fmt.Sprintf("absent dealer %d is in QUAL %v", x.i, ref.qual))
		}
	}
}

func c11Rabin(c *kc.Ctx, rng *kc.Rng) {
	scen := 0
	for _, mock := range []bool{true, false} {
		for n := 3; n <= 6; n++ {
			for t := n/2 + 1; t <= n; t++ {
				c11RabinScenario(c, mock, n, t, nil, rng.Fork(fmt.Sprint("rh", mock, n, t)))
				scen++
				if n-t < 1 {
					continue
				}
				for fi := 1; fi < len(c11RabinFaults); fi++ {
					reps := c.N(1, 6)
					if mock {
						reps = c.N(2, 12)
					}
					for k := 0; k < reps; k++ {
						faults := map[int]string{rng.Intn(n): c11RabinFaults[fi]}
						if n-t >= 2 && k%2 == 1 {
							faults[rng.Intn(n)] = c11RabinFaults[1+rng.Intn(len(c11RabinFaults)-1)]
						}
						c11RabinScenario(c, mock, n, t, faults, rng.Fork(fmt.Sprint("rf", mock, n, t, fi, k)))
						scen++
					}
				}
			}
		}
	}
	// colluding pair: a dealer with exactly t-1 honest approvals and a participant that equivocates about it
	for _, mock := range []bool{true, false} {
		for _, nt := range [][2]int{{5, 3}, {6, 4}, {6, 3}, {7, 4}} {
			n, t := nt[0], nt[1]
			if n > 6 && !c.Thorough() {
				continue
			}
			for k := 0; k < c.N(2, 8); k++ {
				d := rng.Intn(n)
				j := (d + 1 + rng.Intn(n-1)) % n
				sc := rng.Fork(fmt.Sprint("re", mock, n, t, k))
				faults := map[int]string{d: "badShareMany", j: "equivocate"}
				c11RabinScenarioV(c, mock, n, t, faults, map[int]int{j: d}, sc)
				scen++
			}
		}
	}
	// a dealer with wrong secret commitments for one node, and a participant that reveals a wrong share when the
	// dealer's polynomial is reconstructed
	for _, mock := range []bool{true, false} {
		for _, nt := range [][2]int{{4, 2}, {5, 3}, {5, 2}, {6, 3}, {6, 4}} {
			n, t := nt[0], nt[1]
			for k := 0; k < c.N(2, 10); k++ {
				d := rng.Intn(n)
				r := (d + 1 + rng.Intn(n-1)) % n
				v := rng.Intn(n)
				for v == d || v == r {
					v = rng.Intn(n)
				}
				for _, kind := range []string{"badReconstructIndex", "badReconstructValue"} {
					faults := map[int]string{d: "badSecretCommits", r: kind}
					c11RabinScenarioV(c, mock, n, t, faults, map[int]int{d: v, r: k}, rng.Fork(fmt.Sprint("rr", mock, n, t, k, kind)))
					scen++
				}
			}
		}
	}
	rabFlush(c)
	c.Extra("scenarios_R_rabin_dkg", scen)
}

func rabCopyResponse(r *rdkg.Response) *rdkg.Response {
	if r == nil || r.Response == nil {
		return r
	}
	in := *r.Response
	in.SessionID = append([]byte{}, in.SessionID...)
	in.Signature = append([]byte{}, in.Signature...)
	return &rdkg.Response{Index: r.Index, Response: &in}
}

func rabCopyJustification(j *rdkg.Justification) *rdkg.Justification {
	if j == nil || j.Justification == nil {
		return j
	}
	in := *j.Justification
	in.SessionID = append([]byte{}, in.SessionID...)
	in.Signature = append([]byte{}, in.Signature...)
	if in.Deal != nil {
		d := *in.Deal
		in.Deal = &d
	}
	return &rdkg.Justification{Index: j.Index, Justification: &in}
}
