package main

// C17: Data() returns the embedded bytes whatever the history of the point object that holds the value: the value
// is recovered IN PLACE from a blinded point (ElGamal decryption: R = decode(C); R.Sub(R, S); R.Data()), through
// clones, Set targets and receivers that held other embedded or decoded values before.

import (
	"bytes"
	"fmt"

	"go.dedis.ch/kyber/v4"

	"verifharness/internal/groups"
	"verifharness/internal/kc"
)

func c17InPlaceData(c *kc.Ctx) {
	for _, g := range groups.All() {
		if embModelName(g) == "" {
			continue // the groups whose Embed/Data the model describes (c17Embed)
		}
		G := g.Group
		rng := c.Rng.Fork("inplace-data/" + g.Name)
		el := G.Point().EmbedLen()
		cp := groupCaps(g)
		for it := 0; it < c.N(8, 60); it++ {
			data := rng.Bytes(rng.Intn(el + 1))
			if it%4 == 0 {
				data = rng.Bytes(el)
			}
			other := rng.Bytes(rng.Intn(el + 1))
			seed := rng.U64()
			res := embTimeout(func() string {
				M := G.Point().Embed(data, kc.NewRng(seed))
				S := G.Point().Mul(G.Scalar().Pick(rng), cp.gen())
				C := G.Point().Add(M, S)
				cb, err := C.MarshalBinary()
				if err != nil {
					return "encoding fails"
				}
				check := func(how string, R kyber.Point) string {
					d, err := R.Data()
					if err != nil {
						return how + ": Data() reports " + err.Error()
					}
					if !bytes.Equal(d, data) {
						return fmt.Sprintf("%s: Data() returns %x, embedded %x", how, d, data)
					}
					if !R.Equal(M) {
						return how + ": the recovered point is not the embedded one"
					}
					return ""
				}
				forms := []struct {
					how string
					f   func() kyber.Point
				}{
					{"R = decode(C); R.Sub(R, S)", func() kyber.Point {
						R := G.Point()
						_ = R.UnmarshalBinary(cb)
						return R.Sub(R, S)
					}},
					{"R = decode(C); R.Add(R, -S)", func() kyber.Point {
						R := G.Point()
						_ = R.UnmarshalBinary(cb)
						return R.Add(R, G.Point().Neg(S))
					}},
					{"R = M.Clone(); R.Add(R, S); R.Sub(R, S)", func() kyber.Point {
						R := M.Clone()
						R.Add(R, S)
						return R.Sub(R, S)
					}},
					{"R = Embed(other); R.Sub(C, S)", func() kyber.Point {
						R := G.Point().Embed(other, kc.NewRng(seed+1))
						return R.Sub(C, S)
					}},
					{"R = Embed(other); R.Set(C); R.Sub(R, S)", func() kyber.Point {
						R := G.Point().Embed(other, kc.NewRng(seed+1))
						R.Set(C)
						return R.Sub(R, S)
					}},
					{"R = M.Clone(); R.Add(R, R); R.Sub(R, M)", func() kyber.Point {
						R := M.Clone()
						R.Add(R, R)
						return R.Sub(R, M)
					}},
					{"R = M.Clone(); R.Neg(R); R.Neg(R)", func() kyber.Point {
						R := M.Clone()
						R.Neg(R)
						return R.Neg(R)
					}},
				}
				for _, fm := range forms {
					if r := check(fm.how, fm.f()); r != "" {
						return r
					}
				}
				return ""
			})
			c.Eval(7)
			c.CountKind(g.Name + ":data-in-place")
			c.Nontrivial(fmt.Sprintf("dip|%s|%x|%d", g.Name, data, seed))
			if res != "" {
				c.Violation(g.Name+":data-after-in-place-update", fmt.Sprintf("%s: %s", g.Name, res),
					map[string]string{"group": g.Name, "data": kc.HexB(data), "stream_seed": fmt.Sprint(seed), "failure": res})
				break
			}
		}
	}
}
