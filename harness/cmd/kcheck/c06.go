package main

// C06 — pairings are bilinear, non-degenerate and consistent with ValidatePairing.
//
// The Lean side (Props/C06.lean) proves the decision logic under the hypothesis H_bilinear; this run
// tests that hypothesis on the five real suites (and exercises the mock suite): Pair(aP,bQ) against
// (ab)·Pair(P,Q) computed with the suite's own GT Mul, additivity with operands left in whatever internal
// form Add/Mul/Neg/Sub chains produce, identity operands, and ValidatePairing against equality of Pair.
// The model (`c06 …` driver lines) supplies the expected discrete logs / verdicts; the property's
// predicate is also evaluated directly on the real code (two API paths, Pair vs ValidatePairing).

import (
	"fmt"
	"math/big"

	"go.dedis.ch/kyber/v4"

	"verifharness/internal/kc"
)

type c06Suite struct {
	*blsEnv
	g1, g2, gt kyber.Group
	form       string // model form of ValidatePairing
}

// c06Point builds a·base (base nil = the generator) along construction path `mode`, so that operands
// reach Pair in the internal (projective / Jacobian / non-normalised) form that path leaves behind.
// negDerived reports that the point is the unchanged output of Neg (path 2, or path 3 when the minuend
// is the identity, because Sub(O, R) = Add(O, Neg(R)) hands Neg(R) through).
func c06Point(g kyber.Group, q, a *big.Int, base kyber.Point, mode int, rng *kc.Rng) (pt kyber.Point, negDerived bool) {
	mul := func(v *big.Int) kyber.Point { return g.Point().Mul(blsScalar(g, q, v), base) }
	switch mode % 8 {
	case 1: // sum of two multiples
		a1 := rng.BigBelow(q)
		return g.Point().Add(mul(a1), mul(new(big.Int).Sub(a, a1))), false
	case 2: // negation of the opposite multiple
		return g.Point().Neg(mul(new(big.Int).Neg(a))), true
	case 3: // difference
		r := rng.BigBelow(q)
		return g.Point().Sub(mul(new(big.Int).Add(a, r)), mul(r)), blsAddq(q, a, r).Sign() == 0
	case 4: // (a-1)·base + base, receiver aliased with an operand
		p := mul(new(big.Int).Sub(a, big.NewInt(1)))
		b := base
		if b == nil {
			b = g.Point().Base()
		}
		return p.Add(p, b), false
	case 5: // normalised through the wire format
		p := g.Point()
		if err := p.UnmarshalBinary(blsPB(mul(a))); err != nil {
			panic(err)
		}
		return p, false
	case 6: // three-term chain with a doubling
		h := new(big.Int).Rsh(a, 1)
		p := mul(h)
		p = g.Point().Add(p, p)
		if a.Bit(0) == 1 {
			b := base
			if b == nil {
				b = g.Point().Base()
			}
			p = g.Point().Add(p, b)
		}
		return p, false
	case 7: // scalar product of a scalar product
		r := new(big.Int).Add(big.NewInt(2), new(big.Int).SetBytes(rng.Bytes(8)))
		rinv := new(big.Int).ModInverse(r, q)
		inner := mul(blsMulq(q, a, rinv))
		return g.Point().Mul(blsScalar(g, q, r), inner), false
	}
	return mul(a), false
}

func runC06(c *kc.Ctx) {
	c.SetRule("cases = (suite, kind, scalars a,b,…, base points, construction paths of the operands); kinds: bilinear (Pair(aP,bQ) vs (ab)·Pair(P,Q) and the two cross paths), additive-left/right, identity operands, ValidatePairing vs equality of Pair (equal / unequal / identity operands), non-normalised vs normalised operands; non-trivial = all scalars non-zero; distinct by (suite, kind, scalars, paths)")
	c.Assume("H_bilinear is the hypothesis under test: bilinearity of Miller loop + final exponentiation is exercised here, not proved",
		"expected GT values are computed with the suite's own GT.Mul / GT.Add from Pair(P0,Q0)")
	if emitMode {
		return
	}
	defer blsPinDriver(c)()
	replayKey := blsReplay(c)
	defer func() { blsReplayReport(c, replayKey) }()
	b := &blsBatch{c: c}
	for _, env := range blsEnvs(c.Rng) {
		s := &c06Suite{blsEnv: env, g1: env.suite.G1(), g2: env.suite.G2(), gt: env.suite.GT()}
		switch env.name {
		case "dlgroup", "bn256":
			s.form = "bn256"
		default:
			s.form = env.name
		}
		c06Run(c, s, c.Rng.Fork("c06/"+env.name), b)
		b.flush()
	}
}

// c06Histories: the same operand OBJECTS used in several pairings, updated in place in between, and pairing
// results used as accumulators — Pair is a function of the values of its operands at the time of the call and
// returns a value of its own.
func c06Histories(c *kc.Ctx, s *c06Suite, rng *kc.Rng) {
	q := s.q
	su := s.suite
	fail := func(key, what string, rep map[string]string) {
		rep["suite"] = s.name
		c.Violation("pairing-history:"+s.name+":"+key, s.name+": "+what, rep)
	}
	for it := 0; it < c.N(6, 40); it++ {
		a, b2, k := pvNonzero(rng, q), pvNonzero(rng, q), pvNonzero(rng, q)
		rep := map[string]string{"a": kc.HexN(a), "b": kc.HexN(b2), "k": kc.HexN(k)}
		res := kc.Recover(func() string {
			P := blsMulBase(s.g1, q, a)
			Q := blsMulBase(s.g2, q, b2)
			e1 := su.Pair(P, Q)
			e1b := blsPBsafe(e1)
			// the G2 object is updated in place, then paired again
			Q.Mul(blsScalar(s.g2, q, k), Q)
			e2 := su.Pair(P, Q)
			want2 := s.gt.Point().Mul(blsScalar(s.gt, q, k), e1)
			if !e2.Equal(want2) || !e2.Equal(su.Pair(P.Clone(), Q.Clone())) {
				return "Pair(P, Q) after Q was updated in place is not e(P,Q)^k"
			}
			if !su.ValidatePairing(P, Q, blsMulBase(s.g1, q, new(big.Int).Mod(new(big.Int).Mul(a, k), q)), blsMulBase(s.g2, q, b2)) {
				return "ValidatePairing disagrees with Pair after Q was updated in place"
			}
			// the G1 object is updated in place
			P.Add(P, P)
			e3 := su.Pair(P, Q)
			if !e3.Equal(s.gt.Point().Add(e2, e2)) {
				return "Pair(P, Q) after P was doubled in place is not e(P,Q)^2"
			}
			if string(blsPBsafe(e1)) != string(e1b) {
				return "an earlier pairing result changed when the operands were reused"
			}
			// results are values: use one as an accumulator, pair again
			for _, O := range []func() (kyber.Point, kyber.Point){
				func() (kyber.Point, kyber.Point) { return s.g1.Point().Null(), blsMulBase(s.g2, q, b2) },
				func() (kyber.Point, kyber.Point) { return blsMulBase(s.g1, q, a), s.g2.Point().Null() },
				func() (kyber.Point, kyber.Point) { return blsMulBase(s.g1, q, a), blsMulBase(s.g2, q, b2) },
			} {
				x, y := O()
				acc := su.Pair(x, y)
				first := blsPBsafe(acc)
				acc.Add(acc, e2)
				acc.Neg(acc)
				x2, y2 := O()
				again := su.Pair(x2, y2)
				if string(blsPBsafe(again)) != string(first) {
					return "a pairing result used as an accumulator changes what a later Pair of the same operands returns"
				}
			}
			// bilinearity with the products formed in every aliasing position of the target group's operation:
			// e(P1,Q)·e(P2,Q) = e(P1+P2,Q) accumulated into the first operand, into the SECOND operand, into a
			// third object; squaring with all three arguments the same object
			P1, P2 := blsMulBase(s.g1, q, a), blsMulBase(s.g1, q, k)
			Q1 := blsMulBase(s.g2, q, b2)
			sum := su.Pair(s.g1.Point().Add(P1, P2), Q1)
			forms := map[string]func() kyber.Point{
				"acc.Add(acc, x)": func() kyber.Point { acc := su.Pair(P1, Q1); return acc.Add(acc, su.Pair(P2, Q1)) },
				"acc.Add(x, acc)": func() kyber.Point { acc := su.Pair(P2, Q1); return acc.Add(su.Pair(P1, Q1), acc) },
				"z.Add(x, y)":     func() kyber.Point { return s.gt.Point().Add(su.Pair(P1, Q1), su.Pair(P2, Q1)) },
			}
			for name, f := range forms {
				if !f().Equal(sum) {
					return "e(P1,Q)·e(P2,Q) formed as " + name + " is not e(P1+P2,Q)"
				}
			}
			sq := su.Pair(P1, Q1)
			sq.Add(sq, sq)
			if !sq.Equal(su.Pair(s.g1.Point().Add(P1, P1), Q1)) {
				return "e(P,Q) squared in place (x.Add(x, x)) is not e(2P,Q)"
			}
			df := su.Pair(P1, Q1)
			df.Sub(su.Pair(s.g1.Point().Add(P1, P2), Q1), df)
			if !df.Equal(su.Pair(P2, Q1)) {
				return "e(P1+P2,Q)/e(P1,Q) formed as acc.Sub(x, acc) is not e(P2,Q)"
			}
			return ""
		})
		c.Eval(1)
		c.CountKind(s.name + ":history")
		c.Nontrivial(fmt.Sprintf("hist|%s|%s|%s|%s", s.name, a, b2, k))
		if res == "panic" {
			fail("panic", "panic when operand objects are reused across pairings", rep)
		} else if res != "" {
			fail("value", res, rep)
		}
	}
}

func c06Run(c *kc.Ctx, s *c06Suite, rng *kc.Rng, b *blsBatch) {
	c06Histories(c, s, rng.Fork("histories"))
	q, qh := s.q, kc.HexN(s.q)
	su := s.suite
	n := c.N(120, 2000)
	if s.mock != nil {
		n = c.N(300, 3000)
	}
	gtNull := s.gt.Point().Null()
	gtMul := func(v *big.Int, g kyber.Point) kyber.Point { return s.gt.Point().Mul(blsScalar(s.gt, q, v), g) }
	pairS := func(p, qq kyber.Point) (res kyber.Point) {
		defer func() {
			if r := recover(); r != nil {
				res = nil
			}
		}()
		return su.Pair(p, qq)
	}
	// G2 operands that are the unchanged result of Neg: on bn254 such a point keeps
	// z = 1 with the cached t = z² zeroed, and Pair / ValidatePairing use t (second known finding).
	negQ := map[kyber.Point]bool{}
	mk1 := func(a *big.Int, base kyber.Point, mode int) kyber.Point {
		p, _ := c06Point(s.g1, q, a, base, mode, rng)
		return p
	}
	mk2 := func(a *big.Int, base kyber.Point, mode int) kyber.Point {
		p, neg := c06Point(s.g2, q, a, base, mode, rng)
		if neg {
			negQ[p] = true
		}
		return p
	}
	viol := func(key, what string, replay map[string]any, g2ops ...kyber.Point) {
		replay["suite"] = s.name
		if s.name == "bn254" {
			for _, p := range g2ops {
				if negQ[p] {
					key = "Pair/negated-G2-operand"
					replay["g2_operand_is_direct_result_of_Neg"] = true
				}
			}
		}
		blsViolation(c, s.name+"."+key, s.name+": "+what, replay)
	}
	// base points: generators, and (where the group can hash) hash points of unknown logarithm
	type basePt struct {
		tag string
		p   kyber.Point // nil = generator
	}
	b1s, b2s := []basePt{{"B1", nil}}, []basePt{{"B2", nil}}
	if hp, ok := s.g1.Point().(kyber.HashablePoint); ok && s.mock == nil {
		b1s = append(b1s, basePt{"H1", hp.Hash([]byte("c06 base point in G1"))})
	}
	if hp, ok := s.g2.Point().(kyber.HashablePoint); ok && s.mock == nil {
		b2s = append(b2s, basePt{"H2", hp.Hash([]byte("c06 base point in G2"))})
	}
	e0s := map[string]kyber.Point{}
	for _, x := range b1s {
		for _, y := range b2s {
			P, Q := x.p, y.p
			if P == nil {
				P = s.g1.Point().Base()
			}
			if Q == nil {
				Q = s.g2.Point().Base()
			}
			e := pairS(P, Q)
			if e == nil {
				viol("Pair/panic", "Pair panics on base points "+x.tag+","+y.tag, map[string]any{})
				continue
			}
			e0s[x.tag+y.tag] = e
			// non-degeneracy: the pairing of the two generators (and of hash points) is not the identity
			if e.Equal(gtNull) {
				viol("Pair/degenerate", "Pair("+x.tag+","+y.tag+") is the identity of GT", map[string]any{})
			}
			// … and has order q: q·e = identity via (q-1)·e + e
			if !s.gt.Point().Add(gtMul(new(big.Int).Sub(q, big.NewInt(1)), e), e).Equal(gtNull) {
				viol("GT/order", "(q-1)·e + e is not the identity of GT", map[string]any{"bases": x.tag + y.tag})
			}
			c.CountKind(s.name + ":nondegenerate")
		}
	}
	edge := []*big.Int{big.NewInt(0), big.NewInt(1), new(big.Int).Sub(q, big.NewInt(1)), big.NewInt(2)}
	pick := func(i int) *big.Int {
		if i < len(edge)*len(edge) { // all pairs of edge scalars first
			return nil
		}
		return rng.BigBelow(q)
	}
	for i := 0; i < n; i++ {
		var a, bb *big.Int
		if pick(i) == nil {
			a, bb = edge[i/len(edge)], edge[i%len(edge)]
		} else {
			a, bb = rng.BigBelow(q), rng.BigBelow(q)
		}
		x, y := b1s[rng.Intn(len(b1s))], b2s[rng.Intn(len(b2s))]
		clear(negQ)
		e0 := e0s[x.tag+y.tag]
		if e0 == nil {
			continue
		}
		ma, mb := rng.Intn(8), rng.Intn(8)
		P := mk1(a, x.p, ma)
		Q := mk2(bb, y.p, mb)
		ab := blsMulq(q, a, bb)
		rep := map[string]any{"a": kc.HexN(a), "b": kc.HexN(bb), "bases": x.tag + y.tag, "pathP": ma, "pathQ": mb}
		key := fmt.Sprintf("%s|%s|%s|%s|%d|%d", s.name, x.tag+y.tag, kc.HexN(a), kc.HexN(bb), ma, mb)

		// --- bilinearity -------------------------------------------------------------------------
		ePQ := pairS(P, Q)
		if ePQ == nil {
			viol("Pair/panic", "Pair panics", rep)
			continue
		}
		pred := true
		if !ePQ.Equal(gtMul(ab, e0)) {
			pred = false
			viol("Pair/not-bilinear", "Pair(aP,bQ) != (ab)·Pair(P,Q)", rep, Q)
		}
		// two more API paths: all of the scalar on one side
		P0, Q0 := mk1(big.NewInt(1), x.p, 0), mk2(big.NewInt(1), y.p, 0)
		Qab := mk2(ab, y.p, rng.Intn(8))
		if l, r := pairS(mk1(ab, x.p, rng.Intn(8)), Q0), pairS(P0, Qab); l == nil || r == nil || !l.Equal(ePQ) || !r.Equal(ePQ) {
			pred = false
			viol("Pair/paths-disagree", "Pair(aP,bQ), Pair((ab)P,Q), Pair(P,(ab)Q) are not all equal", rep, Q, Qab)
		}
		{
			ePQ := ePQ
			line := fmt.Sprintf("c06 pair %s %s %s", qh, kc.HexN(a), kc.HexN(bb))
			p := pred
			b.add(line, func(out string) {
				c.CountKind(s.name + ":bilinear")
				v, ok := new(big.Int).SetString(out, 16)
				if ok && ePQ.Equal(gtMul(v, e0)) {
					return
				}
				c.Disagree(line, "Pair(aP,bQ)", out+"·e(P,Q)", "bilinear")
				c.DisChecked(1)
				if p {
					c.Unshown("correspondence:"+s.name+":bilinear", "model logarithm of Pair(aP,bQ) does not match although bilinearity holds through the API: "+line, rep)
				}
			})
		}
		if a.Sign() != 0 && bb.Sign() != 0 {
			c.Nontrivial(key + "|bilinear")
		}

		// --- additivity ---------------------------------------------------------------------------
		a2, b2 := rng.BigBelow(q), rng.BigBelow(q)
		P2 := mk1(a2, x.p, rng.Intn(8))
		Q2 := mk2(b2, y.p, rng.Intn(8))
		sumP := s.g1.Point().Add(P, P2)
		sumQ := s.g2.Point().Add(Q, Q2)
		eL, e1, e2 := pairS(sumP, Q), ePQ, pairS(P2, Q)
		predL := eL != nil && e2 != nil && eL.Equal(s.gt.Point().Add(e1, e2))
		if !predL {
			viol("Pair/not-additive-left", "Pair(P+P',Q) != Pair(P,Q)+Pair(P',Q)", rep, Q)
		} else if !eL.Equal(gtMul(blsMulq(q, blsAddq(q, a, a2), bb), e0)) {
			predL = false
			viol("Pair/not-bilinear", "Pair(aP+a'P,bQ) != ((a+a')b)·Pair(P,Q)", rep, Q)
		}
		eR, e3 := pairS(P, sumQ), pairS(P, Q2)
		predR := eR != nil && e3 != nil && eR.Equal(s.gt.Point().Add(e1, e3))
		if !predR {
			viol("Pair/not-additive-right", "Pair(P,Q+Q') != Pair(P,Q)+Pair(P,Q')", rep, Q, Q2)
		} else if !eR.Equal(gtMul(blsMulq(q, a, blsAddq(q, bb, b2)), e0)) {
			predR = false
			viol("Pair/not-bilinear", "Pair(aP,bQ+b'Q) != (a(b+b'))·Pair(P,Q)", rep, Q, Q2)
		}
		if eL != nil && eR != nil {
			eL, eR := eL, eR
			lineL := fmt.Sprintf("c06 pair %s %s %s", qh, kc.HexN(blsAddq(q, a, a2)), kc.HexN(bb))
			b.add(lineL, func(out string) {
				c.CountKind(s.name + ":additive-left")
				if v, ok := new(big.Int).SetString(out, 16); !ok || !eL.Equal(gtMul(v, e0)) {
					c.Disagree(lineL, "Pair(P+P',Q)", out, "additive-left")
					c.DisChecked(1)
					if predL {
						c.Unshown("correspondence:"+s.name+":additive-left", lineL, rep)
					}
				}
			})
			lineR := fmt.Sprintf("c06 gtadd %s %s %s", qh, kc.HexN(ab), kc.HexN(blsMulq(q, a, b2)))
			b.add(lineR, func(out string) {
				c.CountKind(s.name + ":additive-right")
				if v, ok := new(big.Int).SetString(out, 16); !ok || !eR.Equal(gtMul(v, e0)) {
					c.Disagree(lineR, "Pair(P,Q+Q')", out, "additive-right")
					c.DisChecked(1)
					if predR {
						c.Unshown("correspondence:"+s.name+":additive-right", lineR, rep)
					}
				}
			})
		}
		if a.Sign() != 0 && bb.Sign() != 0 && a2.Sign() != 0 && b2.Sign() != 0 {
			c.Nontrivial(key + "|additive|" + kc.HexN(a2) + "|" + kc.HexN(b2))
		}

		// --- identity operands -------------------------------------------------------------------
		if i%4 == 0 {
			ids1 := []kyber.Point{s.g1.Point().Null(), mk1(big.NewInt(0), x.p, rng.Intn(8)), s.g1.Point().Sub(P, P)}
			ids2 := []kyber.Point{s.g2.Point().Null(), mk2(big.NewInt(0), y.p, rng.Intn(8)), s.g2.Point().Sub(Q, Q)}
			for k, O := range ids1 {
				if e := pairS(O, Q); e == nil || !e.Equal(gtNull) {
					viol("Pair/identity-G1", fmt.Sprintf("Pair(O,Q) is not the identity of GT (identity built by path %d)", k), rep, Q)
				}
				c.CountKind(s.name + ":identity-g1")
			}
			for k, O := range ids2 {
				if e := pairS(P, O); e == nil || !e.Equal(gtNull) {
					viol("Pair/identity-G2", fmt.Sprintf("Pair(P,O) is not the identity of GT (identity built by path %d)", k), rep, O)
				}
				c.CountKind(s.name + ":identity-g2")
			}
			if e := pairS(ids1[0], ids2[0]); e == nil || !e.Equal(gtNull) {
				viol("Pair/identity-both", "Pair(O,O) is not the identity of GT", rep)
			}
		}

		// --- ValidatePairing against equality of Pair --------------------------------------------------
		// (p1,p2,i1,i2) with logarithms (a, b, cc, d): equal products, unequal, identities in every slot
		type vp struct {
			tag         string
			a, b, cc, d *big.Int
		}
		cc := rng.BigBelow(q)
		if cc.Sign() == 0 {
			cc = big.NewInt(3)
		}
		dEq := blsMulq(q, ab, new(big.Int).ModInverse(cc, q))
		zero, one := big.NewInt(0), big.NewInt(1)
		vps := []vp{
			{"equal", a, bb, cc, dEq},
			{"unequal", a, bb, cc, rng.BigBelow(q)},
			{"swapped", a, bb, bb, a},
			{"bls-shape", one, ab, ab, one},
		}
		if i%3 == 0 {
			vps = append(vps,
				vp{"i1-identity", a, bb, zero, rng.BigBelow(q)},
				vp{"p1-identity", zero, bb, cc, rng.BigBelow(q)},
				vp{"i2-identity", a, bb, cc, zero},
				vp{"p2-identity", a, zero, cc, rng.BigBelow(q)},
				vp{"both-g1-identity", zero, bb, zero, rng.BigBelow(q)},
				vp{"all-trivial", zero, bb, cc, zero},
			)
		}
		for _, v := range vps {
			v := v
			p1 := mk1(v.a, x.p, rng.Intn(8))
			p2 := mk2(v.b, y.p, rng.Intn(8))
			i1 := mk1(v.cc, x.p, rng.Intn(8))
			i2 := mk2(v.d, y.p, rng.Intn(8))
			l, r := pairS(p1, p2), pairS(i1, i2)
			if l == nil || r == nil {
				viol("Pair/panic", "Pair panics", rep)
				continue
			}
			eq := l.Equal(r)
			got := kc.Recover(func() string { return fmt.Sprint(su.ValidatePairing(p1, p2, i1, i2)) })
			vrep := map[string]any{"case": v.tag, "p1": kc.HexN(v.a), "p2": kc.HexN(v.b), "i1": kc.HexN(v.cc), "i2": kc.HexN(v.d), "bases": x.tag + y.tag, "ValidatePairing": got, "PairEqual": eq}
			vpred := got == fmt.Sprint(eq)
			if !vpred {
				k := "ValidatePairing/" + v.tag
				if s.name == "circl" && got == "true" && (v.a.Sign() == 0 || v.cc.Sign() == 0) {
					k = "ValidatePairing/identity-G1-operand-accepted"
				}
				viol(k, fmt.Sprintf("ValidatePairing = %s but Pair(p1,p2) == Pair(i1,i2) is %v (%s)", got, eq, v.tag), vrep, p2, i2)
			}
			// and equality of Pair is what the logarithms say
			if eq != (blsMulq(q, v.a, v.b).Cmp(blsMulq(q, v.cc, v.d)) == 0) {
				vpred = false
				viol("Pair/equality-vs-logarithms", "Pair(p1,p2) == Pair(i1,i2) disagrees with a·b == c·d", vrep, p2, i2)
			}
			line := fmt.Sprintf("c06 validate %s %s %s %s %s %s", s.form, qh, kc.HexN(v.a), kc.HexN(v.b), kc.HexN(v.cc), kc.HexN(v.d))
			if s.form == "circl" {
				// as coded and with the repair: the implementation has to match one of them
				var coded string
				b.add(line, func(out string) { coded = out })
				lf := fmt.Sprintf("c06 validate circlfixed %s %s %s %s %s", qh, kc.HexN(v.a), kc.HexN(v.b), kc.HexN(v.cc), kc.HexN(v.d))
				b.add(lf, func(out string) {
					c.CountKind(s.name + ":validate-" + v.tag)
					switch got {
					case coded:
						c.CountKind("circl-validate-matches-model-as-coded")
					case out:
						c.CountKind("circl-validate-matches-model-with-repair")
					default:
						c.Disagree(line, got, coded+" | "+out, "validate")
						c.DisChecked(1)
						if vpred {
							c.Unshown("correspondence:circl:validate", line+" -> "+got, vrep)
						}
					}
				})
			} else {
				b.expect(s.name+":validate-"+v.tag, line, got, vpred, nil)
			}
			if v.a.Sign() != 0 && v.b.Sign() != 0 && v.cc.Sign() != 0 && v.d.Sign() != 0 {
				c.Nontrivial(key + "|validate|" + v.tag + "|" + kc.HexN(v.cc) + "|" + kc.HexN(v.d))
			}
		}

		// --- representatives: a non-normalised operand pairs like its normalised copy ----------------
		if i%4 == 1 {
			Pn, Qn := s.g1.Point(), s.g2.Point()
			if Pn.UnmarshalBinary(blsPB(P)) != nil || Qn.UnmarshalBinary(blsPB(Q)) != nil {
				viol("Point/roundtrip", "a computed point does not survive Marshal/Unmarshal", rep)
			} else if e := pairS(Pn, Qn); e == nil || !e.Equal(ePQ) {
				viol("Pair/representative", "Pair depends on the internal representative of its operands", rep, Q)
			} else if !su.ValidatePairing(P, Q, Pn, Qn) || !su.ValidatePairing(Pn, Q, P, Qn) {
				viol("ValidatePairing/representative", "ValidatePairing(P,Q,P',Q') is false for equal points in different internal form", rep, Q)
			}
			c.CountKind(s.name + ":representative")
		}
		c.Program(1)
		if i == len(edge)*len(edge)+1 {
			c.Sample(map[string]any{"suite": s.name, "a": kc.HexN(a), "b": kc.HexN(bb), "bases": x.tag + y.tag, "pathP": ma, "pathQ": mb, "Pair(aP,bQ)": fmt.Sprintf("%.48x…", blsPBsafe(ePQ))})
		}
		if len(b.lines) > 4000 {
			b.flush()
		}
	}
}

func blsPBsafe(p kyber.Point) (out []byte) {
	defer func() {
		if r := recover(); r != nil {
			out = nil
		}
	}()
	b, err := p.MarshalBinary()
	if err != nil {
		return nil
	}
	return b
}

func init() { register("C06", "proof", runC06) }
