package main

// C16, anonymous-set encryption (sign/anon/enc.go).

import (
	"bytes"
	"fmt"

	"go.dedis.ch/kyber/v4"
	"go.dedis.ch/kyber/v4/sign/anon"

	"verifharness/internal/dlgroup"
	"verifharness/internal/groups"
	"verifharness/internal/kc"
)

type anonSuite struct {
	name string
	s    anon.Suite
	mock *dlgroup.Suite
}

func anonSuites(c *kc.Ctx, rng *kc.Rng) []anonSuite {
	mock := dlgroup.New(dlgroup.L, rng.Fork("mock"))
	out := []anonSuite{{"dlgroup", mock, mock}}
	// every real suite of this build configuration that offers what anon needs (group + XOF + random)
	for _, name := range []string{"ed25519", "p256"} {
		if g := groups.ByName(name); g != nil {
			if as, ok := g.Suite.(anon.Suite); ok {
				out = append(out, anonSuite{name, as, nil})
			}
		}
	}
	return out
}

func anonDec(s anon.Suite, ct []byte, set anon.Set, mine int, x kyber.Scalar) string {
	return kc.Recover(func() string {
		pt, err := anon.Decrypt(s, append([]byte{}, ct...), set, mine, x)
		if err != nil {
			return "err"
		}
		return "ok " + kc.HexB(pt)
	})
}

// publicTag: what ANYONE can compute from a body as the code stands — the first 16 bytes of XOF(body).
func publicTag(s anon.Suite, body []byte) []byte {
	t := make([]byte, 16)
	s.XOF(body).Read(t)
	return t
}

// lendAnon answers pad / body / mac with the suite's XOF (verified separately as C19).
func lendAnon(m *dlgroup.Suite) func(string) (string, error) {
	return func(q string) (string, error) {
		f := splitQ(q)
		switch {
		case f[0] == "pad" && len(f) == 2:
			dh, ok := unhexN(f[1])
			if !ok {
				return "", fmt.Errorf("bad dh")
			}
			seed, _ := dlgroup.FromLog(m.G1(), dh).MarshalBinary()
			pad := make([]byte, m.ScalarLen())
			m.XOF(seed).XORKeyStream(pad, pad)
			return kc.HexB(pad), nil
		case f[0] == "body" && len(f) == 3:
			xb, e1 := unhexB(f[1])
			n, ok := unhexN(f[2])
			if e1 != nil || !ok {
				return "", fmt.Errorf("bad args")
			}
			out := make([]byte, n.Int64())
			m.XOF(xb).XORKeyStream(out, out)
			return kc.HexB(out), nil
		case f[0] == "mac" && len(f) == 3:
			key, e1 := unhexB(f[1])
			body, e2 := unhexB(f[2])
			if e1 != nil || e2 != nil {
				return "", fmt.Errorf("bad hex")
			}
			if len(key) == 0 {
				return kc.HexB(publicTag(m, body)), nil
			}
			// repaired code: the keyed XOF, after producing the body key stream, absorbs the body
			x := m.XOF(key)
			skip := make([]byte, len(body))
			x.XORKeyStream(skip, skip)
			x.Reseed()
			x.Write(body)
			t := make([]byte, 16)
			x.Read(t)
			return kc.HexB(t), nil
		}
		return "", fmt.Errorf("unknown query")
	}
}

var anonVarK, anonVarH = "?", "?"

// anonVariant selects the Lean model the code is compared with: "" = the code as it stands (tag = XOF(body)
// without key; header comparison vacuous), "k" = keyed tag, "h" = effective header comparison (both repaired:
// "kh"). Two probes on the mock suite: a public body forgery, and garbage in another member's slot.
func anonVariant() (k, h string) {
	if anonVarK != "?" {
		return anonVarK, anonVarH
	}
	anonVarK, anonVarH = "", ""
	m := dlgroup.New(dlgroup.L, kc.NewRng(11))
	r := kc.NewRng(12)
	x0, x1 := m.Scalar().Pick(r), m.Scalar().Pick(r)
	set := anon.Set{m.Point().Mul(x0, nil), m.Point().Mul(x1, nil)}
	msg := []byte("0123456789abcdef")
	var ct []byte
	if kc.Recover(func() string {
		var err error
		if ct, err = anon.Encrypt(m, msg, set); err != nil {
			return "err"
		}
		return "ok"
	}) != "ok" || len(ct) != m.PointLen()+2*m.ScalarLen()+len(msg)+16 {
		return // the cases themselves report a scheme that cannot encrypt
	}
	hdr := m.PointLen() + 2*m.ScalarLen()
	f := append([]byte{}, ct...)
	f[hdr] ^= 1
	copy(f[len(f)-16:], publicTag(m, f[hdr:len(f)-16]))
	if anonDec(m, f, set, 0, x0) == "err" {
		anonVarK = "k"
	}
	g := append([]byte{}, ct...)
	g[m.PointLen()+m.ScalarLen()+3] ^= 0x10 // member 1's slot, read by member 0
	if anonDec(m, g, set, 0, x0) == "err" {
		anonVarH = "h"
	}
	return anonVarK, anonVarH
}

func anonSuffix(enc bool) string {
	k, h := anonVariant()
	if enc {
		h = ""
	}
	if k+h == "" {
		return ""
	}
	return "+" + k + h
}

func c16Anon(c *kc.Ctx) {
	rng := c.Rng.Fork("anon")
	vk, vh := anonVariant()
	c.Extra("anon_model_variant", map[string]string{"tag": map[string]string{"": "as-coded (unkeyed: XOF(body))", "k": "repaired (keyed)"}[vk],
		"header_comparison": map[string]string{"": "as-coded (vacuous: buffer compared with itself)", "h": "repaired (effective)"}[vh]})
	c.Extra("cpa_model_variant", map[string]string{"": "as-coded (guard len>>16 only)", "+": "repaired (refuses len > hash size)"}[cpaVariant()])
	var cases []*encCase
	for _, s := range anonSuites(c, rng) {
		srng := rng.Fork(s.name)
		for n := 1; n <= 6; n++ {
			for mine := 0; mine < n; mine++ {
				lens := []int{0, 1, 16, 100}
				if n == 3 && mine == 1 {
					lens = encLengths(srng, c.N(1, 6))
				} else if c.Thorough() {
					lens = []int{0, 1, 15, 16, 17, 100, 1000, 4096}
				}
				for _, L := range lens {
					// every bit and every truncation for small cases; header + tag completely and a sample of the
					// body otherwise (real groups: one scalar multiplication per member per decryption)
					full := (L == 0 || L == 16) && (n <= 2 || (c.Thorough() && s.mock != nil)) && (s.mock != nil || L == 16 || c.Thorough())
					anonCase(c, s, srng, n, mine, srng.Bytes(L), full, &cases)
				}
			}
		}
	}
	c.Extra("anon_lend_rounds", resolveEnc(c, cases))
	compareEnc(c, cases)
}

// anonCase: one encryption to a set of n members read by member `mine`, with the property's predicates on
// the real code; model cases appended on the mock suite.
func anonCase(c *kc.Ctx, s anonSuite, rng *kc.Rng, n, mine int, msg []byte, full bool, cases *[]*encCase) {
	L := len(msg)
	privs := make([]kyber.Scalar, n)
	set := make(anon.Set, n)
	for i := range privs {
		privs[i] = s.s.Scalar().Pick(rng)
		set[i] = s.s.Point().Mul(privs[i], nil)
	}
	rp := map[string]string{"family": "anon", "suite": s.name, "n": fmt.Sprint(n), "mine": fmt.Sprint(mine), "msg": kc.HexB(msg)}
	var ct []byte
	res := kc.Recover(func() string {
		var err error
		ct, err = anon.Encrypt(s.s, append([]byte{}, msg...), set)
		if err != nil {
			return "err"
		}
		return "ok"
	})
	c.Eval(1)
	c.CountKind("anon:" + s.name + ":encrypt")
	c.Nontrivial(fmt.Sprintf("anon|%s|%d|%d|%x", s.name, n, mine, msg))
	if res != "ok" {
		c.Violation("anon:encrypt-refused", fmt.Sprintf("%s: Encrypt of %d bytes to %d members: %s", s.name, L, n, res), rp)
		return
	}
	pl, sl := s.s.PointLen(), s.s.ScalarLen()
	hdr := pl + n*sl
	if len(ct) != hdr+L+16 {
		c.Violation("anon:layout", fmt.Sprintf("%s: %d-byte ciphertext for %d bytes to %d members", s.name, len(ct), L, n), rp)
		return
	}
	// round trip, and the ciphertext must survive being decrypted
	buf := append([]byte{}, ct...)
	got := kc.Recover(func() string {
		pt, err := anon.Decrypt(s.s, buf, set, mine, privs[mine])
		if err != nil {
			return "err"
		}
		return "ok " + kc.HexB(pt)
	})
	if got != "ok "+kc.HexB(msg) {
		c.Violation("anon:roundtrip", fmt.Sprintf("%s: %d bytes, %d members, reader %d: %s", s.name, L, n, mine, trunc(got)), rp)
	}
	if !bytes.Equal(buf, ct) {
		again := kc.Recover(func() string {
			pt, err := anon.Decrypt(s.s, buf, set, mine, privs[mine])
			if err != nil {
				return "err"
			}
			return "ok " + kc.HexB(pt)
		})
		c.Violation("anon:decrypt-mutates-ciphertext", fmt.Sprintf("%s: Decrypt overwrites the tag bytes of its ciphertext argument; decrypting the same buffer again gives %s", s.name, trunc(again)), rp)
	}
	if hit := plainInCipher(msg, ct, hdr); hit != "" {
		c.Violation("anon:plaintext-in-ciphertext", s.name+": "+hit, rp)
	}
	// wrong key, wrong slot
	stranger := s.s.Scalar().Pick(rng)
	wk := anonDec(s.s, ct, set, mine, stranger)
	if wk != "err" {
		c.Violation("anon:wrong-key-accepted", fmt.Sprintf("%s: a non-member key at slot %d: %s", s.name, mine, trunc(wk)), rp)
	}
	other := (mine + 1) % n
	ws := "-"
	if other != mine {
		ws = anonDec(s.s, ct, set, other, privs[mine])
		if ws != "err" {
			c.Violation("anon:wrong-key-accepted", fmt.Sprintf("%s: member %d's key used at slot %d: %s", s.name, mine, other, trunc(ws)), rp)
		}
	}
	c.Eval(3)
	// public forgery: replace the body, recompute the tag the way anyone can
	var nb []byte
	if L > 0 {
		nb = append([]byte{}, ct[hdr:hdr+L]...)
		nb[rng.Intn(L)] ^= 1 << uint(rng.Intn(8))
	} else {
		nb = rng.Bytes(5)
	}
	forged := append(append(append([]byte{}, ct[:hdr]...), nb...), publicTag(s.s, nb)...)
	fg := anonDec(s.s, forged, set, mine, privs[mine])
	if fg != "err" {
		key := "anon:unkeyed-mac-forgery"
		if fg == "panic" {
			key = "anon:panic:" + s.name
		}
		c.Violation(key, fmt.Sprintf("%s: body replaced and tag recomputed as XOF(body)[:16] without any secret: Decrypt returns %s instead of an error (original %s)",
			s.name, trunc(fg), trunc("ok "+kc.HexB(msg))), rp)
	}
	c.Eval(1)
	c.CountKind("anon:" + s.name + ":forgery-" + fg[:2])
	// single-bit flips and truncations
	head, sample := hdr, c.N(30, 200)
	if s.mock == nil && !c.Thorough() {
		sample = 16
	}
	if !full {
		// always every bit of the ephemeral point and of the tag; slots and body sampled
		head = pl
		if s.mock == nil && !c.Thorough() {
			head = 2
		}
	}
	tam := tamperings(rng, ct, full, head, 16, sample)
	for _, t := range tam {
		r := anonDec(s.s, t.ct, set, mine, privs[mine])
		c.Eval(1)
		c.CountKind("anon:" + s.name + ":tampered-decrypt")
		if r != "err" {
			key := "anon:tamper-accepted"
			if r == "ok "+kc.HexB(msg) && onlyForeignSlotsDiffer(ct, t.ct, pl, sl, hdr, mine) {
				key = "anon:foreign-slot-alteration-accepted"
			}
			if r == "panic" {
				key = "anon:panic:" + s.name
			}
			c.Violation(key, fmt.Sprintf("%s: %d bytes, %d members, reader %d, %s: %s", s.name, L, n, mine, t.what, trunc(r)), rp)
		}
		if s.mock != nil && cases != nil {
			*cases = append(*cases, anonDecCase(s.mock, t.ct, set, mine, privs[mine], r, "tampered"))
		}
	}
	if c.ReplayFile != "" {
		fmt.Printf("replay anon %s n=%d mine=%d: honest %s, forged %s\n", s.name, n, mine, trunc(got), trunc(fg))
	}
	if s.mock == nil || cases == nil {
		return
	}
	X := s.mock.Point()
	if X.UnmarshalBinary(ct[:pl]) == nil {
		logs := make([]string, n)
		for i := range set {
			logs[i] = kc.HexN(dlgroup.Log(set[i]))
		}
		*cases = append(*cases, &encCase{scheme: "anon", kind: "encrypt",
			prefix: fmt.Sprintf("enc anon-e%s %s %x %s %s %s", anonSuffix(true), kc.HexN(s.mock.Q), dlgroup.TagG1, kc.HexN(dlgroup.Log(X)), joinComma(logs), kc.HexB(msg)),
			got:    "ok " + kc.HexB(ct), lend: lendAnon(s.mock), key: fmt.Sprintf("enc|%x", ct), replay: rp})
	}
	*cases = append(*cases, anonDecCase(s.mock, ct, set, mine, privs[mine], got, "honest"))
	*cases = append(*cases, anonDecCase(s.mock, forged, set, mine, privs[mine], fg, "forged"))
	*cases = append(*cases, anonDecCase(s.mock, ct, set, mine, stranger, wk, "wrong-key"))
	if other != mine {
		*cases = append(*cases, anonDecCase(s.mock, ct, set, other, privs[mine], ws, "wrong-slot"))
	}
}

// onlyForeignSlotsDiffer: t equals ct except inside header slots of members other than `mine`.
func onlyForeignSlotsDiffer(ct, t []byte, pl, sl, hdr, mine int) bool {
	if len(t) != len(ct) || bytes.Equal(t, ct) {
		return false
	}
	for i := range ct {
		if ct[i] != t[i] {
			foreign := i >= pl && i < hdr && (i-pl)/sl != mine
			if !foreign {
				return false
			}
		}
	}
	return true
}

func joinComma(s []string) string {
	if len(s) == 0 {
		return "-"
	}
	out := s[0]
	for _, t := range s[1:] {
		out += "," + t
	}
	return out
}

func anonDecCase(m *dlgroup.Suite, ct []byte, set anon.Set, mine int, x kyber.Scalar, got, kind string) *encCase {
	logs := make([]string, len(set))
	for i := range set {
		logs[i] = kc.HexN(dlgroup.Log(set[i]))
	}
	return &encCase{scheme: "anon", kind: "decrypt-" + kind,
		prefix: fmt.Sprintf("enc anon-d%s %s %x %s %s %x %s", anonSuffix(false), kc.HexN(m.Q), dlgroup.TagG1, kc.HexB(ct), joinComma(logs), mine, kc.HexN(dlgroup.ScalarBig(x))),
		got:    got, lend: lendAnon(m), key: fmt.Sprintf("dec|%x|%d", ct, mine),
		replay: map[string]string{"family": "anon-dec", "ct": kc.HexB(ct), "mine": fmt.Sprint(mine)}}
}
