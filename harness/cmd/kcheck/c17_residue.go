package main

// C17 on residue groups with other parameters than the shipped QR512 suite: "on any group supporting the operation".
// DSA-style groups p = r·q + 1 with cofactors r = 2, 4, 6, … (found by search from the run's seed): every point
// from Pick and Embed is in the subgroup of order q (x^q = 1), decodes again, and Data returns what was embedded.

import (
	"bytes"
	"fmt"
	"math/big"

	"go.dedis.ch/kyber/v4/group/p256"

	"verifharness/internal/kc"
)

func c17ResidueParams(c *kc.Ctx) {
	rng := c.Rng.Fork("residue-params")
	one := big.NewInt(1)
	for gi := 0; gi < c.N(4, 12); gi++ {
		bits := []int{64, 96, 160, 200}[gi%4]
		// a fixed small cofactor; q is searched
		r := big.NewInt(int64(2 + 2*(gi%5)))
		q := new(big.Int).SetBytes(rng.Bytes(bits / 8))
		q.SetBit(q, bits-1, 1).SetBit(q, 0, 1)
		p := new(big.Int)
		for {
			if q.ProbablyPrime(24) {
				p.Mul(q, r).Add(p, one)
				if p.ProbablyPrime(24) {
					break
				}
			}
			q.Add(q, big.NewInt(2))
		}
		g := new(big.Int)
		for h := int64(2); ; h++ {
			g.Exp(big.NewInt(h), r, p)
			if g.Cmp(one) != 0 {
				break
			}
		}
		if r.Cmp(big.NewInt(40)) > 0 {
			// Embed draws candidates until one is a member (the code says so: "only efficiently for quadratic residue
			// groups"); with full-length data there are 2^8 candidates, so large cofactors may leave none
			continue
		}
		desc := fmt.Sprintf("residue group p = %s·q + 1, q of %d bits", r, bits)
		rep := map[string]string{"p": p.String(), "q": q.String(), "r": r.String(), "g": g.String()}
		var grp *p256.ResidueGroup
		if kc.Recover(func() string { grp = new(p256.ResidueGroup); grp.SetParams(p, q, r, g); return "" }) != "" {
			c.Unshown("harness:residue-params", "SetParams refused parameters the harness believes valid", rep)
			continue
		}
		el := grp.Point().EmbedLen()
		if r.Cmp(big.NewInt(2)) > 0 {
			el -= 2 // leave 24 random bits per candidate
		}
		for i := 0; i < c.N(24, 120); i++ {
			var data []byte
			switch i % 4 {
			case 1:
				data = rng.Bytes(el)
			case 2:
				data = rng.Bytes(rng.Intn(el + 1))
			case 3:
				data = []byte{}
			}
			st := kc.NewRng(rng.U64())
			res := embTimeout(func() string {
				P := grp.Point().Embed(data, st)
				if i%8 == 0 {
					P = grp.Point().Pick(st)
				}
				enc, err := P.MarshalBinary()
				if err != nil {
					return "does not encode"
				}
				if new(big.Int).Exp(new(big.Int).SetBytes(enc), q, p).Cmp(one) != 0 {
					return "is not in the subgroup of order q (x^q != 1)"
				}
				Q := grp.Point()
				if err := Q.UnmarshalBinary(enc); err != nil || !Q.Equal(P) {
					return "is refused by the group's own decoder"
				}
				if i%8 != 0 && data != nil {
					d, err := Q.Data()
					want := data
					if fl := grp.Point().EmbedLen(); len(want) > fl {
						want = want[:fl]
					}
					if err != nil || !bytes.Equal(d, want) {
						return fmt.Sprintf("Data() after decoding returns %x, embedded %x", d, want)
					}
				}
				return ""
			})
			c.Eval(1)
			c.CountKind("residue-params:r=" + r.String())
			c.Nontrivial(fmt.Sprintf("respar|%s|%d", p, i))
			if res != "" {
				rep["data"] = kc.HexB(data)
				c.Violation("residue-params:member", fmt.Sprintf("%s: a point from Pick/Embed %s", desc, res), rep)
				break
			}
		}
	}
}
