package main

// C03 — point and scalar encodings are fixed-length, canonical and round-trip.
// Values are produced by straight-line programs (so points sit in whatever internal coordinates the
// last operation left them in) plus edge values; every encoding path the library offers is exercised
// on each and compared; for families with a Lean model the bytes are compared with the model's `enc`
// (Props/C03.lean: length, injectivity, dec∘enc = id on valid values).

import (
	"bytes"
	"encoding/hex"
	"fmt"
	"io"
	"math/big"
	"testing/iotest"
	"time"

	"go.dedis.ch/kyber/v4"
	kenc "go.dedis.ch/kyber/v4/util/encoding"

	"verifharness/internal/groups"
	"verifharness/internal/kc"
)

// encChecksPoint returns the list of failed encoding predicates for point v.
func encChecksPoint(g *groups.G, v kyber.Point) []string {
	var f []string
	G := g.Group
	b, err := v.MarshalBinary()
	if err != nil {
		return []string{"MarshalBinary error: " + err.Error()}
	}
	if len(b) != v.MarshalSize() || len(b) != G.PointLen() {
		f = append(f, fmt.Sprintf("length %d, MarshalSize %d, PointLen %d", len(b), v.MarshalSize(), G.PointLen()))
	}
	b2, _ := v.MarshalBinary()
	if !bytes.Equal(b, b2) {
		f = append(f, "second MarshalBinary differs (encoding changed the value)")
	}
	// the returned bytes belong to the caller: writing into them leaves the value alone, and updating the value in
	// place leaves them alone (done on a clone, so that the value under test keeps its object history)
	if len(b) > 0 {
		c := v.Clone()
		cb, _ := c.MarshalBinary()
		keep := append([]byte{}, cb...)
		for i := range cb {
			cb[i] ^= 0xa5
		}
		if !c.Equal(v) {
			f = append(f, "writing into the slice returned by MarshalBinary changes the point")
		}
		if again, _ := c.MarshalBinary(); !bytes.Equal(again, keep) {
			f = append(f, "writing into the slice returned by MarshalBinary changes the next encoding")
		}
		cb2, _ := c.MarshalBinary()
		keep2 := append([]byte{}, cb2...)
		c.Add(c, c)
		c.Neg(c)
		if !bytes.Equal(cb2, keep2) {
			f = append(f, "updating the point in place changes an encoding handed out earlier")
		}
	}
	w := G.Point()
	if err := w.UnmarshalBinary(b); err != nil {
		return append(f, "UnmarshalBinary of own encoding fails: "+err.Error())
	}
	if !w.Equal(v) || !v.Equal(w) {
		f = append(f, "decoded value not Equal")
	}
	if b3, _ := w.MarshalBinary(); !bytes.Equal(b, b3) {
		f = append(f, "re-encoding differs")
	}
	// decoding into a destination that already holds another value must not depend on that value
	cp := groupCaps(g)
	dirty := []kyber.Point{G.Point().Null(), cp.gen(), G.Point().Add(cp.gen(), cp.gen())}
	for i, d := range dirty {
		if err := d.UnmarshalBinary(b); err != nil {
			f = append(f, fmt.Sprintf("UnmarshalBinary into a reused destination (%d) fails: %v", i, err))
			continue
		}
		if b4, _ := d.MarshalBinary(); !d.Equal(v) || !bytes.Equal(b, b4) {
			f = append(f, fmt.Sprintf("UnmarshalBinary into a reused destination (%d) gives a different value", i))
		}
	}
	var buf bytes.Buffer
	n, err := v.MarshalTo(&buf)
	if err != nil || n != len(b) || !bytes.Equal(buf.Bytes(), b) {
		f = append(f, "MarshalTo differs from MarshalBinary")
	}
	u := G.Point()
	n, err = u.UnmarshalFrom(bytes.NewReader(append(append([]byte{}, b...), 0xAA, 0xBB)))
	if err != nil || n != len(b) || !u.Equal(v) {
		f = append(f, fmt.Sprintf("UnmarshalFrom: n=%d err=%v", n, err))
	}
	// a stream may deliver an element in pieces (pipes, sockets, buffered readers at a buffer boundary)
	for name, rd := range map[string]io.Reader{"one byte per Read": iotest.OneByteReader(bytes.NewReader(b)), "half reads": iotest.HalfReader(bytes.NewReader(b)),
		"data together with EOF": iotest.DataErrReader(bytes.NewReader(b))} {
		pu := G.Point()
		if n, err := pu.UnmarshalFrom(rd); err != nil || n != len(b) || !pu.Equal(v) {
			f = append(f, fmt.Sprintf("UnmarshalFrom a reader delivering %s: n=%d err=%v", name, n, err))
		}
	}
	hs, err := kenc.PointToStringHex(G, v)
	if err != nil || hs != hex.EncodeToString(b) {
		f = append(f, "PointToStringHex differs")
	}
	hp, err := kenc.StringHexToPoint(G, hex.EncodeToString(b))
	if err != nil || !hp.Equal(v) {
		f = append(f, "StringHexToPoint fails")
	}
	var hb bytes.Buffer
	if err := kenc.WriteHexPoint(&hb, v); err != nil || hb.String() != hex.EncodeToString(b) {
		f = append(f, "WriteHexPoint differs")
	}
	rp, err := kenc.ReadHexPoint(G, bytes.NewReader([]byte(hex.EncodeToString(b)+"ffff")))
	if err != nil || !rp.Equal(v) {
		f = append(f, "ReadHexPoint fails")
	}
	return f
}

func encChecksScalar(g *groups.G, v kyber.Scalar) []string {
	var f []string
	G := g.Group
	b, err := v.MarshalBinary()
	if err != nil {
		return []string{"MarshalBinary error"}
	}
	if len(b) != v.MarshalSize() || len(b) != G.ScalarLen() {
		f = append(f, fmt.Sprintf("length %d, MarshalSize %d, ScalarLen %d", len(b), v.MarshalSize(), G.ScalarLen()))
	}
	if len(b) > 0 {
		c := v.Clone()
		cb, _ := c.MarshalBinary()
		keep := append([]byte{}, cb...)
		for i := range cb {
			cb[i] ^= 0xa5
		}
		if !c.Equal(v) {
			f = append(f, "writing into the slice returned by MarshalBinary changes the scalar")
		}
		if again, _ := c.MarshalBinary(); !bytes.Equal(again, keep) {
			f = append(f, "writing into the slice returned by MarshalBinary changes the next encoding")
		}
		cb2, _ := c.MarshalBinary()
		keep2 := append([]byte{}, cb2...)
		c.Add(c, G.Scalar().One())
		c.Mul(c, c)
		if !bytes.Equal(cb2, keep2) {
			f = append(f, "updating the scalar in place changes an encoding handed out earlier")
		}
	}
	w := G.Scalar()
	if err := w.UnmarshalBinary(b); err != nil {
		return append(f, "UnmarshalBinary of own encoding fails")
	}
	if !w.Equal(v) {
		f = append(f, "decoded value not Equal")
	}
	if b3, _ := w.MarshalBinary(); !bytes.Equal(b, b3) {
		f = append(f, "re-encoding differs")
	}
	var buf bytes.Buffer
	n, err := v.MarshalTo(&buf)
	if err != nil || n != len(b) || !bytes.Equal(buf.Bytes(), b) {
		f = append(f, "MarshalTo differs")
	}
	u := G.Scalar()
	n, err = u.UnmarshalFrom(bytes.NewReader(append(append([]byte{}, b...), 0xAA)))
	if err != nil || n != len(b) || !u.Equal(v) {
		f = append(f, "UnmarshalFrom differs")
	}
	for name, rd := range map[string]io.Reader{"one byte per Read": iotest.OneByteReader(bytes.NewReader(b)), "half reads": iotest.HalfReader(bytes.NewReader(b)),
		"data together with EOF": iotest.DataErrReader(bytes.NewReader(b))} {
		su := G.Scalar()
		if n, err := su.UnmarshalFrom(rd); err != nil || n != len(b) || !su.Equal(v) {
			f = append(f, fmt.Sprintf("UnmarshalFrom a reader delivering %s: n=%d err=%v", name, n, err))
		}
	}
	hs, err := kenc.ScalarToStringHex(G, v)
	if err != nil || hs != hex.EncodeToString(b) {
		f = append(f, "ScalarToStringHex differs")
	}
	hsc, err := kenc.StringHexToScalar(G, hex.EncodeToString(b))
	if err != nil || !hsc.Equal(v) {
		f = append(f, "StringHexToScalar fails")
	}
	return f
}

func runC03(c *kc.Ctx) {
	defer reportHungProbes(c)
	c.SetRule("cases: every point/scalar variable left by random programs (non-normalised internal coordinates), plus identity, base, edge scalars 0,1,q-1 and values with leading zero bytes; each goes through MarshalBinary/UnmarshalBinary/MarshalTo/UnmarshalFrom/hex helpers; pairs are checked for Equal ⇔ identical bytes; non-trivial = value is not the identity/zero; distinct by (group, encoding)")
	c.Assume("internal/protobuf and fixbuf are not modelled", "BLS12-381 G2 and all GT encodings have no Lean model: checked for self-consistency and cross-backend agreement (C18)")
	nProg := c.N(16, 300)
	plen := c.N(12, 30)
	type mc struct {
		g    *groups.G
		line string
		got  string
	}
	var mcs []mc
	for _, f := range families() {
		for _, g := range f.insts {
			rng := c.Rng.Fork("c03/" + g.Name)
			src := pointSource(g, rng)
			cp := groupCaps(g)
			report := func(kind string, fails []string, enc string) {
				for _, m := range fails {
					c.Violation("enc:"+g.Name+":"+kind, fmt.Sprintf("%s %s %s: %s", g.Name, kind, enc, m), map[string]string{"group": g.Name, "value": enc, "failure": m})
				}
			}
			// edge scalars
			for _, v := range append(edgeScalars(g.Q), big.NewInt(0), big.NewInt(1), new(big.Int).Rsh(g.Q, 9), new(big.Int).Rsh(g.Q, 17)) {
				s := g.Group.Scalar().SetBytes(encScalar(g, new(big.Int).Mod(v, g.Q)))
				res := kc.Recover(func() string { report("scalar", encChecksScalar(g, s), scalarVal(g, s)); return "" })
				if res == "panic" {
					c.Violation("enc:"+g.Name+":scalar-panic", "panic in scalar encoding paths", map[string]string{"group": g.Name, "value": v.String()})
				}
				c.Eval(1)
				c.CountKind("scalar:" + g.Name)
				c.Nontrivial("s|" + g.Name + "|" + v.String())
			}
			for i := 0; i < nProg; i++ {
				dgen := c.Watch(120*time.Second, g.Name, g.Name+": generating and running a program", map[string]string{"group": g.Name, "seed": fmt.Sprint(c.Seed), "program_index": fmt.Sprint(i)}, "proof")
				p := genProg(rng.Fork(fmt.Sprint(i)), f.q, plen, src, cp.base, true)
				st := &progState{pts: map[string]kyber.Point{}, scs: map[string]kyber.Scalar{}}
				ok := true
				for _, s := range p.stmts {
					if kc.Recover(func() string {
						st.exec(g, s, true)
						// every intermediate value is encoded once (and the bytes thrown away) before the object is
						// possibly reused as a destination: encoding is a read, it leaves nothing behind that a later
						// in-place update could miss
						if s.dst[0] == 'p' {
							_, _ = st.pts[s.dst].MarshalBinary()
						} else {
							_, _ = st.scs[s.dst].MarshalBinary()
						}
						return ""
					}) == "panic" {
						ok = false
						break
					}
				}
				dgen()
				if !ok {
					continue // panics in arithmetic belong to C01/C05
				}
				var encs [][]byte
				var vals []kyber.Point
				for name, v := range st.pts {
					v := v
					res := kc.Recover(func() string {
						b, _ := v.MarshalBinary()
						report("point", encChecksPoint(g, v), kc.HexB(b))
						encs = append(encs, b)
						vals = append(vals, v)
						if !v.Equal(g.Group.Point().Null()) {
							c.Nontrivial("p|" + g.Name + "|" + kc.HexB(b))
						}
						return ""
					})
					if res == "panic" {
						c.Violation("enc:"+g.Name+":point-panic", "panic in point encoding paths", map[string]string{"group": g.Name, "program": p.String(), "var": name})
					}
					c.Eval(1)
					c.CountKind("point:" + g.Name)
				}
				for _, v := range st.scs {
					v := v
					kc.Recover(func() string { report("scalar", encChecksScalar(g, v), scalarVal(g, v)); return "" })
					c.Eval(1)
				}
				// Equal ⇔ identical bytes
				for a := range vals {
					for b := a + 1; b < len(vals); b++ {
						eq := vals[a].Equal(vals[b])
						if eq != bytes.Equal(encs[a], encs[b]) {
							c.Violation("enc:"+g.Name+":equal-vs-bytes", fmt.Sprintf("%s: Equal=%v but encodings %x / %x", g.Name, eq, encs[a], encs[b]),
								map[string]string{"group": g.Name, "program": p.String()})
						}
					}
				}
				if i == 0 {
					c.Sample(map[string]string{"group": g.Name, "program": p.String(), "state": st.snapshot(g)})
				}
				if f.model != "" && i%modelStride(c, f) == 0 {
					mcs = append(mcs, mc{g, "grp " + f.model + " " + p.String(), st.snapshot(g)})
				}
			}
			c03MutatorHistory(c, g, rng.Fork("mutators"))
		}
	}
	lines := make([]string, len(mcs))
	for i, x := range mcs {
		lines[i] = x.line
	}
	outs := c.ModelDedup(lines)
	c.Program(len(mcs))
	for i, x := range mcs {
		if outs[i] != x.got {
			c.Disagree(x.g.Name+" "+x.line, x.got, outs[i], "")
			c.DisChecked(1)
			// The model's enc is the canonical encoding of the value (Props/C03); the implementation's own
			// decode∘encode round trip passed above, so the difference is in the arithmetic (C01) or the model.
			c.Unshown("model-bytes:"+x.g.Name, "implementation bytes differ from the reference encoding of the model value",
				map[string]string{"group": x.g.Name, "line": x.line, "impl": x.got, "model": outs[i]})
		}
	}
}

// c03MutatorHistory: encode – give the SAME object a new value – encode again, for every method that writes a
// point (arithmetic, constants, Set, Pick, Embed, Hash, the decoders). The second encoding must be the encoding
// of the new value: equal to what a fresh object given the same value encodes to, and decoding to a point Equal
// to the object. (An encoding is a read: nothing it leaves behind may survive a later write.)
func c03MutatorHistory(c *kc.Ctx, g *groups.G, rng *kc.Rng) {
	G := g.Group
	cp := groupCaps(g)
	type hp1 interface {
		Hash(m []byte) kyber.Point
	}
	k := G.Scalar().Pick(rng)
	other := G.Point().Mul(G.Scalar().Pick(rng), cp.gen())
	otherEnc, _ := other.MarshalBinary()
	seed := rng.U64()
	msg := rng.Bytes(20)
	type mut struct {
		name string
		f    func(r, src kyber.Point) kyber.Point // the method's result (the receiver, for every method that sets it)
	}
	muts := []mut{
		{"Null", func(r, _ kyber.Point) kyber.Point { return r.Null() }},
		{"Set", func(r, _ kyber.Point) kyber.Point { return r.Set(other) }},
		{"Add", func(r, src kyber.Point) kyber.Point { return r.Add(src, other) }},
		{"Add(other, self)", func(r, src kyber.Point) kyber.Point { return r.Add(other, src) }},
		{"Sub", func(r, src kyber.Point) kyber.Point { return r.Sub(src, other) }},
		{"Neg", func(r, src kyber.Point) kyber.Point { return r.Neg(src) }},
		{"Mul", func(r, src kyber.Point) kyber.Point { return r.Mul(k, src) }},
		{"Pick", func(r, _ kyber.Point) kyber.Point { return r.Pick(kc.NewRng(seed)) }},
		{"UnmarshalBinary", func(r, _ kyber.Point) kyber.Point { _ = r.UnmarshalBinary(otherEnc); return r }},
		{"UnmarshalFrom", func(r, _ kyber.Point) kyber.Point { _, _ = r.UnmarshalFrom(bytes.NewReader(otherEnc)); return r }},
	}
	if cp.base {
		muts = append(muts, mut{"Base", func(r, _ kyber.Point) kyber.Point { return r.Base() }}, mut{"Mul(k, nil)", func(r, _ kyber.Point) kyber.Point { return r.Mul(k, nil) }})
	}
	if g.CanEmbed {
		data := rng.Bytes(G.Point().EmbedLen())
		muts = append(muts, mut{"Embed", func(r, _ kyber.Point) kyber.Point { return r.Embed(data, kc.NewRng(seed)) }})
	}
	if g.CanHash {
		muts = append(muts, mut{"Hash", func(r, _ kyber.Point) kyber.Point {
			switch h := r.(type) {
			case hp1:
				return h.Hash(msg)
			case hashable:
				return h.Hash(msg, "C03-history")
			}
			return nil // no Hash method on this point type: skipped (the nil result panics below)
		}})
	}
	for round := 0; round < 2; round++ {
		for _, m := range muts {
			m := m
			res := kc.Recover(func() string {
				P := G.Point().Mul(G.Scalar().Pick(rng), cp.gen())
				var first []byte
				if round == 0 {
					first, _ = P.MarshalBinary()
				} else {
					var bb bytes.Buffer
					_, _ = P.MarshalTo(&bb)
					first = bb.Bytes()
				}
				old := G.Point()
				if err := old.UnmarshalBinary(first); err != nil {
					return "the first encoding does not decode"
				}
				want := G.Point()
				want = m.f(want, old)
				wb, _ := want.MarshalBinary()
				P = m.f(P, P)
				got, _ := P.MarshalBinary()
				if !bytes.Equal(got, wb) {
					return fmt.Sprintf("encodes to %x, a fresh object given the same value to %x (encoding before the write: %x)", got, wb, first)
				}
				back := G.Point()
				if err := back.UnmarshalBinary(got); err != nil || !back.Equal(P) {
					return "the encoding after the write does not decode to the object's value"
				}
				if fails := encChecksPoint(g, P); len(fails) > 0 {
					return fails[0]
				}
				return ""
			})
			c.Eval(1)
			c.CountKind("encode-write-encode:" + g.Name)
			if res == "panic" {
				continue // unsupported on this group (panics of supported methods belong to C01/C05/C17)
			}
			c.Nontrivial("ewe|" + g.Name + "|" + m.name + fmt.Sprint(round))
			if res != "" {
				c.Violation("enc:"+g.Name+":encode-write-encode", fmt.Sprintf("%s: a point encoded, then written by %s, then encoded again: %s", g.Name, m.name, res),
					map[string]string{"group": g.Name, "method": m.name, "failure": res})
			}
		}
	}
}

func init() { register("C03", "proof", runC03) }
