package main

// C08, ring-signature part (sign/anon/sig.go): ring sizes 1..8, every signer position, with / without link
// scope; tampering of every field; tag equality / inequality across keys and scopes. Real groups: property
// predicates only. Mock discrete-log group: exact correspondence with Proto/RingSig.lean, the hash chain
// being an oracle table recorded from the XOF calls the real code made.

import (
	"fmt"
	"math/big"
	"strings"

	"go.dedis.ch/kyber/v4"
	"go.dedis.ch/kyber/v4/sign/anon"

	"verifharness/internal/dlgroup"
	"verifharness/internal/groups"
	"verifharness/internal/kc"
)

type ringFields struct {
	c0  []byte
	s   [][]byte
	tag []byte // nil when unlinkable
}

func splitRingSig(sig []byte, n, sl, pl int, linkable bool) *ringFields {
	want := sl * (n + 1)
	if linkable {
		want += pl
	}
	if len(sig) != want {
		return nil
	}
	f := &ringFields{c0: sig[:sl]}
	for i := 0; i < n; i++ {
		f.s = append(f.s, sig[sl*(i+1):sl*(i+2)])
	}
	if linkable {
		f.tag = sig[sl*(n+1):]
	}
	return f
}

func (f *ringFields) join() []byte {
	o := sigClone(f.c0)
	for _, s := range f.s {
		o = append(o, s...)
	}
	return append(o, f.tag...)
}

func (f *ringFields) clone() *ringFields {
	g := &ringFields{c0: sigClone(f.c0)}
	for _, s := range f.s {
		g.s = append(g.s, sigClone(s))
	}
	if f.tag != nil {
		g.tag = sigClone(f.tag)
	}
	return g
}

func ringVerify(suite anon.Suite, msg []byte, ring anon.Set, scope, sig []byte) (string, []byte) {
	var tag []byte
	r := kc.Recover(func() string {
		t, err := anon.Verify(suite, msg, ring, scope, sig)
		if err != nil {
			return "err"
		}
		if t == nil {
			return "err:nil-tag"
		}
		tag = t
		return "ok"
	})
	return r, tag
}

// scalar encoding of v+1 (mod q) in the byte order / width of the group's scalars
func bumpScalar(g kyber.Group, b []byte) []byte {
	s := g.Scalar()
	if s.UnmarshalBinary(b) != nil {
		return sigFlip(b, 0)
	}
	o, _ := g.Scalar().Add(s, g.Scalar().One()).MarshalBinary()
	return o
}

// ringScenario runs sizes 1..maxN, every position, with/without scope on one group; evaluates the property
// predicates on the real code; when dl != nil also queues model lines.
func ringScenario(c *kc.Ctx, b *sigBatch, name string, g kyber.Group, dl *dlgroup.Suite, maxN int, rng *kc.Rng) {
	sl, pl := g.Scalar().MarshalSize(), g.Point().MarshalSize()
	var calls []xofCall
	suite := &sigSuite{Group: g, rnd: rng.Fork("stream")}
	if dl != nil {
		suite.calls = &calls
	}
	qh := ""
	if dl != nil {
		qh = kc.HexN(dl.Q)
	}
	logs := func(ps []kyber.Point) string {
		var l []*big.Int
		for _, p := range ps {
			l = append(l, dlgroup.Log(p))
		}
		return kc.HexNList(l)
	}
	// oracle table from the recorded XOF calls whose absorbed input starts with the message:
	// key = logarithms of the trailing point encodings. Returns ok=false when the layout is not
	// msg ‖ [scope ‖ tag] ‖ PG ‖ [PH].
	oracle := func(calls []xofCall, msg, scope []byte) (tab string, hb *big.Int, first []*big.Int, ok bool) {
		var ents []string
		ok = true
		for _, cl := range calls {
			if scope != nil && sigBytesEq(cl.absorbed, scope) && hb == nil {
				hb = dlgroup.ScalarBig(cl.scalar)
				continue
			}
			pre := len(msg)
			np := 1
			if scope != nil {
				pre += len(scope) + pl
				np = 2
			}
			if len(cl.absorbed) != pre+np*pl || !sigBytesEq(cl.absorbed[:len(msg)], msg) {
				ok = false
				continue
			}
			var ks []*big.Int
			for j := 0; j < np; j++ {
				P := g.Point()
				if P.UnmarshalBinary(cl.absorbed[pre+j*pl:pre+(j+1)*pl]) != nil {
					ok = false
					break
				}
				ks = append(ks, dlgroup.Log(P))
			}
			if len(ks) != np {
				continue
			}
			if first == nil {
				first = ks
			}
			phs := "-"
			if np == 2 {
				phs = kc.HexN(ks[1])
			}
			ents = append(ents, kc.HexN(ks[0])+":"+phs+":"+kc.HexN(dlgroup.ScalarBig(cl.scalar)))
		}
		if len(ents) == 0 {
			return "-", hb, first, ok
		}
		return strings.Join(ents, ","), hb, first, ok
	}
	optHex := func(v *big.Int) string {
		if v == nil {
			return "-"
		}
		return kc.HexN(v)
	}

	// keys: one pool per scenario so that tags can be compared across rings
	var xs []kyber.Scalar
	var Xs []kyber.Point
	for i := 0; i < maxN+2; i++ {
		x := g.Scalar().Pick(rng)
		xs = append(xs, x)
		Xs = append(Xs, g.Point().Mul(x, nil))
	}
	scopes := [][]byte{nil, []byte("scope-A"), []byte("scope-B"), {}}
	tags := map[string][]byte{} // (key index, scope) -> tag
	layoutOK := true
	for n := 1; n <= maxN; n++ {
		for pi := 0; pi < n; pi++ {
			for si, scope := range scopes {
				if si >= 2 && (n+pi)%3 != 0 {
					continue // further scopes on a subset
				}
				// ring: keys rotated so that every key index signs at various positions
				ring := make(anon.Set, n)
				idx := make([]int, n)
				for i := 0; i < n; i++ {
					idx[i] = (i + n + pi) % (maxN + 1)
					ring[i] = Xs[idx[i]]
				}
				x := xs[idx[pi]]
				msg := rng.Bytes(rng.Intn(64))
				calls = calls[:0]
				var sig []byte
				r := kc.Recover(func() string { sig = anon.Sign(suite, msg, ring, scope, pi, x); return "ok" })
				signCalls := append([]xofCall{}, calls...)
				c.Eval(1)
				rp := map[string]any{"group": name, "n": n, "pi": pi, "scope": kc.HexB(scope), "scope_nil": scope == nil, "msg": kc.HexB(msg), "sig": kc.HexB(sig)}
				if r != "ok" {
					c.Violation("ring:"+name+":sign-panic", "anon.Sign panics", rp)
					continue
				}
				calls = calls[:0]
				rv, tag := ringVerify(suite, msg, ring, scope, sig)
				verCalls := append([]xofCall{}, calls...)
				c.CountKind(fmt.Sprintf("real:ring:%s:honest:n=%d", name, n))
				c.Nontrivial(fmt.Sprintf("ring|%s|%d|%d|%x|%x", name, n, pi, scope, sig))
				if rv != "ok" {
					c.Violation("ring:"+name+":honest-rejected", fmt.Sprintf("anon.Verify rejects an honest signature (n=%d, pi=%d, linkable=%v): %s", n, pi, scope != nil, rv), rp)
					continue
				}
				f := splitRingSig(sig, n, sl, pl, scope != nil)
				if f == nil {
					c.CountKind("info:ring:" + name + ":signature-layout-differs")
					continue
				}
				// --- tags: same key & scope -> same tag; different key or scope -> different tag
				if scope != nil {
					if !sigBytesEq(tag, f.tag) {
						c.Violation("ring:"+name+":tag-mismatch", "Verify returns a tag different from the one in the signature", rp)
					}
					tk := fmt.Sprintf("%d|%x", idx[pi], scope)
					if old, ok := tags[tk]; ok && !sigBytesEq(old, tag) {
						c.Violation("ring:"+name+":tag-not-stable", "same key and scope gave two different tags", rp)
					}
					tags[tk] = sigClone(tag)
					for k2, t2 := range tags {
						if k2 != tk && sigBytesEq(t2, tag) {
							c.Violation("ring:"+name+":tag-collision", "different key or scope gave the same tag: "+k2+" vs "+tk, rp)
						}
					}
				} else if len(tag) != 0 {
					c.Violation("ring:"+name+":tag-mismatch", "unlinkable Verify returned a non-empty tag", rp)
				}
				// --- model: Sign and Verify of the honest signature
				var hb *big.Int
				if dl != nil {
					tabS, hbS, first, okS := oracle(signCalls, msg, scope)
					tabV, hbV, _, okV := oracle(verCalls, msg, scope)
					if !okS || !okV || first == nil {
						layoutOK = false
					} else {
						hb = hbV
						if scope != nil && (hbS == nil || hbV == nil || hbS.Cmp(hbV) != 0) {
							layoutOK = false
						}
					}
					if layoutOK {
						var svals []*big.Int
						for _, s := range f.s {
							svals = append(svals, kc.BeN(s))
						}
						tagS := "-"
						if scope != nil {
							T := g.Point()
							T.UnmarshalBinary(f.tag)
							tagS = kc.HexN(dlgroup.Log(T))
						}
						want := kc.HexN(kc.BeN(f.c0)) + " " + kc.HexNList(svals) + " " + tagS
						b.add("ring-sign", fmt.Sprintf("sig ring-sign %s %s %x %s %s %s %s %s", qh, kc.HexN(dlgroup.ScalarBig(x)), pi, logs(ring),
							optHex(hbS), kc.HexN(first[0]), kc.HexNList(svals), tabS), want, fmt.Sprintf("%d/%d/%x/%x", n, pi, scope, sig), false, rp)
						b.add("ring-verify:honest", fmt.Sprintf("sig ring-verify %s %s %s %s %s %s %s", qh, logs(ring), optHex(hb), kc.HexN(kc.BeN(f.c0)),
							kc.HexNList(svals), tagS, tabV), "ok", fmt.Sprintf("%d/%d/%x/%x", n, pi, scope, sig), false, rp)
					}
				}
				// --- tampering: every field
				type mut struct {
					kind  string
					msg   []byte
					ring  anon.Set
					scope []byte
					sig   []byte
				}
				var muts []mut
				add := func(kind string, m []byte, rg anon.Set, sc []byte, sg []byte) {
					muts = append(muts, mut{kind, m, rg, sc, sg})
				}
				g0 := f.clone()
				g0.c0 = bumpScalar(g, g0.c0)
				add("c0", msg, ring, scope, g0.join())
				for i := 0; i < n; i++ {
					gi := f.clone()
					gi.s[i] = bumpScalar(g, gi.s[i])
					add("s_i", msg, ring, scope, gi.join())
					r2 := append(anon.Set{}, ring...)
					r2[i] = Xs[maxN+1] // a key outside every ring
					add("ring-member", msg, r2, scope, sig)
				}
				if n >= 2 {
					r2 := append(anon.Set{}, ring...)
					r2[0], r2[1] = r2[1], r2[0]
					add("ring-order", msg, r2, scope, sig)
					gs := f.clone()
					gs.s[0], gs.s[1] = gs.s[1], gs.s[0]
					if !sigBytesEq(gs.s[0], gs.s[1]) {
						add("s-order", msg, ring, scope, gs.join())
					}
				}
				if scope != nil {
					gt := f.clone()
					T := g.Point()
					if T.UnmarshalBinary(gt.tag) == nil {
						gt.tag, _ = g.Point().Add(T, g.Point().Base()).MarshalBinary()
						add("tag", msg, ring, scope, gt.join())
					}
					gt2 := f.clone()
					gt2.tag, _ = Xs[maxN+1].MarshalBinary()
					add("tag", msg, ring, scope, gt2.join())
					add("scope", msg, ring, append(sigClone(scope), 'x'), sig)
					add("scope-dropped", msg, ring, nil, sig)
				} else {
					add("scope-added", msg, ring, []byte("scope-A"), sig)
				}
				add("msg", sigCat(msg, []byte{1}), ring, scope, sig)
				if len(msg) > 0 {
					add("msg", sigFlip(msg, rng.Intn(8*len(msg))), ring, scope, sig)
				}
				for j := 0; j < c.N(3, 12); j++ {
					add("sig-bit", msg, ring, scope, sigFlip(sig, rng.Intn(8*len(sig))))
				}
				add("sig-truncated", msg, ring, scope, sig[:len(sig)-1])
				add("sig-empty", msg, ring, scope, nil)
				add("ring-extended", msg, append(append(anon.Set{}, ring...), Xs[maxN+1]), scope, sig)
				if n > 1 {
					add("ring-shortened", msg, ring[:n-1], scope, sig)
				}
				for _, m := range muts {
					m := m
					calls = calls[:0]
					rv, _ := ringVerify(suite, m.msg, m.ring, m.scope, m.sig)
					mc := append([]xofCall{}, calls...)
					c.Eval(1)
					c.CountKind("real:ring:" + name + ":" + m.kind)
					mrp := map[string]any{"group": name, "kind": m.kind, "n": n, "pi": pi, "scope": kc.HexB(m.scope), "scope_nil": m.scope == nil, "msg": kc.HexB(m.msg), "sig": kc.HexB(m.sig), "result": rv}
					bad := false
					if rv == "panic" {
						// not an acceptance; decoder totality is property C04's subject
						c.CountKind("info:ring:" + name + ":panic-on-malformed-input(C04):" + m.kind)
					} else if rv != "err" {
						// a flipped bit may leave the decoded value unchanged only if the encoding is not unique
						sameSem := false
						if m.kind == "sig-bit" {
							f2 := splitRingSig(m.sig, n, sl, pl, scope != nil)
							sameSem = f2 != nil && semEqualRing(g, f, f2)
						}
						if sameSem {
							c.CountKind("info:ring:" + name + ":second-encoding-accepted")
						} else {
							bad = true
							c.Violation("ring:"+name+":accepts:"+m.kind, fmt.Sprintf("anon.Verify accepts a tampered input (n=%d pi=%d linkable=%v): %s", n, pi, scope != nil, rv), mrp)
						}
					}
					if dl != nil && layoutOK {
						if line, ok := ringVerifyLine(g, dl, qh, m.msg, m.ring, m.scope, m.sig, mc, oracle, logs, optHex, sl, pl); ok {
							b.add("ring-verify:"+m.kind, line, rv, fmt.Sprintf("%d/%d/%x/%x/%x", n, pi, m.scope, m.sig, m.msg), bad, mrp)
						}
					}
				}
				// trailing bytes after a complete signature: not a semantic change; recorded, not judged
				calls = calls[:0]
				if rv, _ := ringVerify(suite, msg, ring, scope, sigCat(sig, []byte{0})); rv == "ok" {
					c.CountKind("info:ring:" + name + ":trailing-bytes-ignored")
				}
			}
		}
	}
	if dl != nil && !layoutOK {
		c.CountKind("info:ring:hash-input-differs")
		c.Extra("ring_hash_layout", "XOF input is not msg‖[scope‖tag]‖PG‖[PH]: some dlog-level model comparisons skipped (informational)")
	}
}

func semEqualRing(g kyber.Group, a, b *ringFields) bool {
	eqS := func(x, y []byte) bool {
		s, t := g.Scalar(), g.Scalar()
		return s.UnmarshalBinary(x) == nil && t.UnmarshalBinary(y) == nil && s.Equal(t)
	}
	if !eqS(a.c0, b.c0) || len(a.s) != len(b.s) {
		return false
	}
	for i := range a.s {
		if !eqS(a.s[i], b.s[i]) {
			return false
		}
	}
	if (a.tag == nil) != (b.tag == nil) {
		return false
	}
	if a.tag != nil {
		P, Q := g.Point(), g.Point()
		return P.UnmarshalBinary(a.tag) == nil && Q.UnmarshalBinary(b.tag) == nil && P.Equal(Q)
	}
	return true
}

// ringVerifyLine builds the model line for a (possibly tampered) verification on the mock group. Inputs
// the real code rejects while decoding have no dlog-level counterpart and are skipped (ok=false).
func ringVerifyLine(g kyber.Group, dl *dlgroup.Suite, qh string, msg []byte, ring anon.Set, scope, sig []byte, calls []xofCall,
	oracle func([]xofCall, []byte, []byte) (string, *big.Int, []*big.Int, bool),
	logs func([]kyber.Point) string, optHex func(*big.Int) string, sl, pl int) (string, bool) {
	n := len(ring)
	f := splitRingSig(sig, n, sl, pl, scope != nil)
	if f == nil {
		// the real code reads exactly n+1 scalars (+ tag): shorter input is a decode error, longer input is
		// read as a prefix
		want := sl * (n + 1)
		if scope != nil {
			want += pl
		}
		if len(sig) < want {
			return "", false
		}
		f = splitRingSig(sig[:want], n, sl, pl, scope != nil)
	}
	dec := func(b []byte) *big.Int {
		v := kc.BeN(b)
		if v.Cmp(dl.Q) >= 0 {
			return nil
		}
		return v
	}
	c0 := dec(f.c0)
	if c0 == nil {
		return "", false
	}
	var svals []*big.Int
	for _, s := range f.s {
		v := dec(s)
		if v == nil {
			return "", false
		}
		svals = append(svals, v)
	}
	tagS := "-"
	if scope != nil {
		T := g.Point()
		if T.UnmarshalBinary(f.tag) != nil {
			return "", false
		}
		tagS = kc.HexN(dlgroup.Log(T))
	}
	tab, hb, _, ok := oracle(calls, msg, scope)
	if !ok || (scope != nil && hb == nil) {
		return "", false
	}
	return fmt.Sprintf("sig ring-verify %s %s %s %s %s %s %s", qh, logs(ring), optHex(hb), kc.HexN(c0), kc.HexNList(svals), tagS, tab), true
}

func c08Ring(c *kc.Ctx) {
	b := &sigBatch{c: c}
	// mock group: exact correspondence. Two primes: the Ed25519 order and a small one (collisions possible).
	for _, q := range []*big.Int{dlgroup.L, big.NewInt(1000003)} {
		rng := c.Rng.Fork("ring-dl/" + q.String())
		dl := dlgroup.New(q, rng.Fork("s"))
		ringScenario(c, b, "dlgroup-"+fmt.Sprint(q.BitLen()), dl.G1(), dl, 8, rng)
	}
	// real groups
	for _, g := range groups.All() {
		if g.Kind == "gt" || g.Kind == "residue" {
			continue
		}
		maxN := 8
		if !c.Thorough() {
			switch g.Name {
			case "ed25519", "p256", "bn256-g1", "kilic-g1":
				maxN = 8
			default:
				maxN = 3
			}
		}
		probe := kc.Recover(func() string {
			P := g.Group.Point().Pick(c.Rng.Fork("probe"))
			_, err := P.MarshalBinary()
			if err != nil {
				return "unsupported"
			}
			return "ok"
		})
		if probe != "ok" {
			c.CountKind("real:ring:" + g.Name + ":unsupported-pick")
			continue
		}
		ringScenario(c, b, g.Name, g.Group, nil, maxN, c.Rng.Fork("ring/"+g.Name))
	}
	b.run(sigSameVerdict)
}
