//go:build !constantTime

package main

import (
	"math/big"

	"go.dedis.ch/kyber/v4/group/p256"

	"verifharness/internal/groups"
)

// decQrParams returns the parameters (P, Q) of a residue group instance, or nil.
func decQrParams(g *groups.G) (*big.Int, *big.Int) {
	if s, ok := g.Group.(*p256.QrSuite); ok {
		return s.P, s.Q
	}
	if rg, ok := g.Group.(*p256.ResidueGroup); ok {
		return rg.P, rg.Q
	}
	return nil, nil
}
