package main

// Pedersen VSS backend for the C10 harness (share/vss/pedersen).

import (
	"errors"
	"fmt"
	"math/big"

	"go.dedis.ch/kyber/v4"
	"go.dedis.ch/kyber/v4/share"
	pvss "go.dedis.ch/kyber/v4/share/vss/pedersen"
	"go.dedis.ch/kyber/v4/sign/schnorr"
)

type pedBackend struct {
	suite  vssSuite
	q      *big.Int
	n, t   int
	vsecs  []kyber.Scalar
	vpubs  []kyber.Point
	dlong  kyber.Scalar
	dpub   kyber.Point
	sec    *big.Int
	dealer *pvss.Dealer
	vers   []*pvss.Verifier
	flog   []*big.Int // coefficients of the dealer's polynomial
}

func newPedBackend(suite vssSuite, q *big.Int) *pedBackend { return &pedBackend{suite: suite, q: q} }

func (b *pedBackend) variant() string   { return "p" }
func (b *pedBackend) hlog() *big.Int    { return big.NewInt(0) }
func (b *pedBackend) secret() *big.Int  { return b.sec }
func (b *pedBackend) dealerSID() []byte { return b.dealer.SessionID() }

func (b *pedBackend) setup(n, t int) error {
	b.n, b.t = n, t
	rs := b.suite.RandomStream()
	for i := 0; i < n; i++ {
		s := b.suite.Scalar().Pick(rs)
		b.vsecs = append(b.vsecs, s)
		b.vpubs = append(b.vpubs, b.suite.Point().Mul(s, nil))
	}
	b.dlong = b.suite.Scalar().Pick(rs)
	b.dpub = b.suite.Point().Mul(b.dlong, nil)
	if err := b.mkDealer(); err != nil {
		return err
	}
	for i := 0; i < n; i++ {
		v, err := pvss.NewVerifier(b.suite, b.vsecs[i], b.dpub, b.vpubs)
		if err != nil {
			return err
		}
		b.vers = append(b.vers, v)
	}
	return nil
}

func (b *pedBackend) mkDealer() error {
	sec := b.suite.Scalar().Pick(b.suite.RandomStream())
	d, err := pvss.NewDealer(b.suite, b.dlong, sec, b.vpubs, uint32(b.t))
	if err != nil {
		return err
	}
	b.dealer = d
	b.sec = sc2big(sec)
	// recover the polynomial from the plaintext deals (independent of PrivatePoly), check it
	// against the published commitments
	shares := make([]*share.PriShare, b.t)
	for i := 0; i < b.t; i++ {
		pd, err := d.PlaintextDeal(i)
		if err != nil {
			return err
		}
		shares[i] = pd.SecShare
	}
	pp, err := share.RecoverPriPoly(b.suite, shares, uint32(b.t), uint32(b.n))
	if err != nil {
		return err
	}
	b.flog = nil
	for k, cf := range pp.Coefficients() {
		b.flog = append(b.flog, sc2big(cf))
		if !b.suite.Point().Mul(cf, nil).Equal(d.Commits()[k]) {
			return errors.New("harness: interpolated polynomial does not match the dealer's commitments")
		}
	}
	if len(b.flog) != len(d.Commits()) || b.flog[0].Cmp(b.sec) != 0 {
		return errors.New("harness: dealer polynomial shape")
	}
	return nil
}

func (b *pedBackend) newSession() (vssBackend, error) {
	c := *b
	c.vers = nil
	if err := c.mkDealer(); err != nil {
		return nil, err
	}
	return &c, nil
}

func (b *pedBackend) plain(i int) *mdeal {
	pd, err := b.dealer.PlaintextDeal(i)
	if err != nil {
		panic(err)
	}
	d := &mdeal{sid: pd.SessionID, i: pd.SecShare.I, v: sc2big(pd.SecShare.V), t: pd.T, cpts: pd.Commitments}
	for _, f := range b.flog {
		d.clogs = append(d.clogs, new(big.Int).Set(f))
	}
	return d.clone()
}

func (b *pedBackend) real(d *mdeal) *pvss.Deal {
	var v kyber.Scalar
	if !d.nilSec {
		v = big2sc(b.suite, b.q, d.v)
	}
	return &pvss.Deal{SessionID: d.sid, SecShare: &share.PriShare{I: d.i, V: v}, T: d.t, Commitments: d.cpts}
}

func (b *pedBackend) marshalDeal(d *mdeal) ([]byte, error) { return b.real(d).Marshal() }

func (b *pedBackend) encHonest(i int) (any, error) { return b.dealer.EncryptedDeal(i) }
func (b *pedBackend) encFor(i int, d *mdeal) (any, error) {
	return b.dealer.EncryptDealFor(i, b.real(d))
}
func (b *pedBackend) encRaw(i int, pt []byte) (any, error) { return b.dealer.EncryptRawFor(i, pt) }

func (b *pedBackend) tamperSig(e any) any {
	x := *(e.(*pvss.EncryptedDeal))
	x.Signature = append([]byte{}, x.Signature...)
	x.Signature[len(x.Signature)/2] ^= 0x40
	return &x
}

func guard(f func() (string, string)) (out, msg string) {
	defer func() {
		if r := recover(); r != nil {
			out, msg = "panic", fmt.Sprint(r)
		}
	}()
	return f()
}

func errOut(err error, okOut string) (string, string) {
	if err != nil {
		return "err", err.Error()
	}
	return okOut, ""
}

func (b *pedBackend) procDeal(v int, e any) (string, *mresp, string) {
	var mr *mresp
	out, msg := guard(func() (string, string) {
		r, err := b.vers[v].ProcessEncryptedDeal(e.(*pvss.EncryptedDeal))
		if err != nil {
			return "err", err.Error()
		}
		mr = &mresp{sid: r.SessionID, idx: r.Index, approved: r.StatusApproved, sig: r.Signature, sigOK: true}
		if r.StatusApproved {
			return "approve", ""
		}
		return "complain", ""
	})
	return out, mr, msg
}

func (b *pedBackend) realResp(r *mresp) *pvss.Response {
	return &pvss.Response{SessionID: r.sid, Index: r.idx, StatusApproved: r.approved, Signature: r.sig}
}

func (b *pedBackend) procResp(node int, r *mresp) (string, *mjust, string) {
	var mj *mjust
	out, msg := guard(func() (string, string) {
		if node >= 0 {
			return errOut(b.vers[node].ProcessResponse(b.realResp(r)), "ok")
		}
		j, err := b.dealer.ProcessResponse(b.realResp(r))
		if err != nil {
			return "err", err.Error()
		}
		if j == nil {
			return "ok", ""
		}
		d := b.plain(int(j.Index))
		if d.i != j.Deal.SecShare.I || sc2big(j.Deal.SecShare.V).Cmp(d.v) != 0 {
			return "err", "harness: dealer justification does not carry its stored deal"
		}
		mj = &mjust{sid: j.SessionID, idx: j.Index, deal: d, sig: j.Signature, sigOK: true, kind: "good"}
		return "justif", ""
	})
	return out, mj, msg
}

func (b *pedBackend) procJust(v int, j *mjust) (string, string) {
	return guard(func() (string, string) {
		return errOut(b.vers[v].ProcessJustification(&pvss.Justification{SessionID: j.sid, Index: j.idx, Deal: b.real(j.deal), Signature: j.sig}), "ok")
	})
}

func (b *pedBackend) setTimeout(node int) string {
	o, _ := guard(func() (string, string) {
		if node >= 0 {
			b.vers[node].SetTimeout()
		} else {
			b.dealer.SetTimeout()
		}
		return "ok", ""
	})
	return o
}

func (b *pedBackend) unsafeSet(node int, idx uint32, approved bool) string {
	if node < 0 {
		return "unsupported"
	}
	o, _ := guard(func() (string, string) { b.vers[node].UnsafeSetResponseDKG(idx, approved); return "ok", "" })
	return o
}

func (b *pedBackend) setThreshold(node int, t uint32) string {
	o, _ := guard(func() (string, string) {
		if node >= 0 {
			b.vers[node].SetThreshold(t)
		} else {
			b.dealer.SetThreshold(t)
		}
		return "ok", ""
	})
	return o
}

func (b *pedBackend) verifyDeal(node int, d *mdeal, incl bool) (string, string) {
	return guard(func() (string, string) {
		if node >= 0 {
			return errOut(b.vers[node].VerifyDeal(b.real(d), incl), "ok")
		}
		return errOut(b.dealer.VerifyDeal(b.real(d), incl), "ok")
	})
}

func (b *pedBackend) snap(node int) *aggSnap {
	var st pvss.VerifAggState
	var certF func() bool
	if node >= 0 {
		st = b.vers[node].VerifState()
		certF = b.vers[node].DealCertified
	} else {
		st = b.dealer.VerifState()
		certF = b.dealer.DealCertified
	}
	cert, _ := guard(func() (string, string) { return b01(certF()), "" })
	return &aggSnap{present: st.Present, cert: cert, enough: "-", bad: st.BadDealer, timeout: st.Timeout, t: st.T,
		sid: st.SID, sidNil: st.SID == nil, hasDeal: st.HasDeal, responses: st.Responses}
}

func (b *pedBackend) signResp(j int, sid []byte, idx uint32, approved bool) []byte {
	r := &pvss.Response{SessionID: sid, Index: idx, StatusApproved: approved}
	sig, err := schnorr.Sign(b.suite, b.vsecs[j], r.Hash(b.suite))
	if err != nil {
		panic(err)
	}
	return sig
}

func (b *pedBackend) signJust(sid []byte, idx uint32, d *mdeal) []byte {
	j := &pvss.Justification{SessionID: sid, Index: idx, Deal: b.real(d)}
	sig, err := schnorr.Sign(b.suite, b.dlong, j.Hash(b.suite))
	if err != nil {
		panic(err)
	}
	return sig
}

func (b *pedBackend) certDeal(v int) (bool, []byte, uint32, *big.Int) {
	d := b.vers[v].Deal()
	if d == nil {
		return false, nil, 0, nil
	}
	return true, d.SessionID, d.SecShare.I, sc2big(d.SecShare.V)
}

func (b *pedBackend) recover(vs []int) (*big.Int, error) {
	var deals []*pvss.Deal
	for _, v := range vs {
		d := b.vers[v].Deal()
		if d == nil {
			return nil, errors.New("harness: verifier not certified")
		}
		deals = append(deals, d)
	}
	s, err := pvss.RecoverSecret(b.suite, deals, uint32(b.n), uint32(b.t))
	if err != nil {
		return nil, err
	}
	return sc2big(s), nil
}

func (b *pedBackend) dealerSecretCommitOK() (bool, bool) {
	sc := b.dealer.SecretCommit()
	if sc == nil {
		return false, true
	}
	want := b.suite.Point().Mul(big2sc(b.suite, b.q, b.sec), nil)
	return true, sc.Equal(want) && b.dealer.Commits()[0].Equal(want)
}

func (b *pedBackend) contentSID(d *mdeal) []byte { return vssContentSID(b.suite, b.dpub, b.vpubs, d) }
