package main

// C09, second half: BDN masks + aggregation, CoSi masks + protocol.

import (
	"crypto/cipher"
	"fmt"
	"math/big"
	"strings"

	"go.dedis.ch/kyber/v4"
	"go.dedis.ch/kyber/v4/sign/bdn"
	"go.dedis.ch/kyber/v4/sign/cosi"
	"golang.org/x/crypto/blake2s"

	"verifharness/internal/dlgroup"
	"verifharness/internal/groups"
	"verifharness/internal/kc"
)

// bdnCoefs recomputes the BDN coefficients independently of kyber: BLAKE2s-XOF over the marshalled
// roster, 16 bytes per key, read as a little-endian integer (whatever the scalar byte order).
func bdnCoefs(pubs []kyber.Point, q *big.Int) []*big.Int {
	h, err := blake2s.NewXOF(blake2s.OutputLengthUnknown, nil)
	if err != nil {
		panic(err)
	}
	for _, p := range pubs {
		h.Write(blsPB(p))
	}
	out := make([]byte, 16*len(pubs))
	if len(out) > 0 {
		if _, err := h.Read(out); err != nil {
			panic(err)
		}
	}
	cs := make([]*big.Int, len(pubs))
	for i := range cs {
		cs[i] = blsModq(q, kc.LeN(out[16*i:16*i+16]))
	}
	return cs
}

type bdnRun struct {
	c     *kc.Ctx
	sd    *blsSide
	xs    []*big.Int
	pubs  []kyber.Point
	coefs []*big.Int
	mm    *blsMsg
	m2    *blsMsg
	sigs  [][]byte // honest signatures of every signer on mm
	masks []*bdn.Mask
	own   []bool // mask descends from NewMask(…, myKey)
	bufs  [][]byte
	ops   []string
	outs  []string
	kinds []byte // per op: 's' aggsig, 'k' aggpub, 'n' new/clone, 0 other
}

func (r *bdnRun) emit(op, out string, kind byte) {
	r.ops = append(r.ops, op)
	r.outs = append(r.outs, out)
	r.kinds = append(r.kinds, kind)
	r.c.CountKind("bdn-mask-op:" + strings.SplitN(op, ":", 2)[0])
}

func blsB01(b bool) string {
	if b {
		return "1"
	}
	return "0"
}

func (r *bdnRun) enabledOf(m *bdn.Mask) []int {
	var out []int
	for i := range r.pubs {
		if on, err := m.GetBit(i); err == nil && on {
			out = append(out, i)
		}
	}
	return out
}

// aggSig runs AggregateSignatures and formats the result like the model does.
func (r *bdnRun) aggSig(m *bdn.Mask, sigs [][]byte) (string, kyber.Point) {
	var pt kyber.Point
	out := kc.Recover(func() string {
		p, err := r.sd.bdn.AggregateSignatures(sigs, m)
		if err != nil {
			return "e"
		}
		pt = p
		return "ok:" + blsHex(p)
	})
	return out, pt
}

func (r *bdnRun) aggPub(m *bdn.Mask) (string, kyber.Point) {
	var pt kyber.Point
	out := kc.Recover(func() string {
		p, err := r.sd.bdn.AggregatePublicKeys(m)
		if err != nil {
			return "e"
		}
		pt = p
		return "ok:" + blsHex(p)
	})
	return out, pt
}

// step executes one random operation on the real code and records op text + observation.
func (r *bdnRun) step(rng *kc.Rng) {
	n := len(r.pubs)
	sd, q := r.sd, r.sd.q
	nm, nb := len(r.masks), len(r.bufs)
	pickIdx := func() int {
		switch rng.Intn(8) {
		case 0:
			return -1 - rng.Intn(3)
		case 1:
			return n + rng.Intn(10)
		}
		if n == 0 {
			return 0
		}
		return rng.Intn(n)
	}
	kind := rng.Intn(20)
	if nm == 0 {
		kind = rng.Intn(2)
	}
	switch kind {
	case 0: // NewMask without own key
		m, err := bdn.NewMask(sd.keyG, r.pubs, nil)
		if err != nil {
			r.emit("new:x", "e", 0)
			return
		}
		r.masks, r.own = append(r.masks, m), append(r.own, false)
		r.emit("new:x", "u", 'n')
	case 1: // NewMask with own key (sometimes one that is not in the roster)
		var key kyber.Point
		var klog *big.Int
		if n == 0 || rng.Intn(6) == 0 {
			klog = rng.BigBelow(q)
		} else {
			klog = r.xs[rng.Intn(n)]
		}
		key = blsMulBase(sd.keyG, q, klog)
		m, err := bdn.NewMask(sd.keyG, r.pubs, key)
		op := "new:" + kc.HexN(klog)
		if err != nil {
			r.emit(op, "e", 0)
			return
		}
		r.masks, r.own = append(r.masks, m), append(r.own, true)
		r.emit(op, "u", 'n')
	case 2, 3: // caller allocates a buffer (right length mostly)
		l := (n + 7) / 8
		if rng.Intn(5) == 0 {
			l = rng.Intn(4)
		}
		var buf []byte
		switch rng.Intn(4) {
		case 0:
			buf = make([]byte, l)
		case 1:
			buf = make([]byte, l)
			for i := range buf {
				buf[i] = 0xff
			}
		default:
			buf = rng.Bytes(l)
		}
		if nm > 0 && rng.Intn(4) == 0 {
			buf = r.masks[rng.Intn(nm)].Mask()
		}
		r.bufs = append(r.bufs, buf)
		r.emit("buf:"+kc.HexB(buf), "u", 0)
	case 4: // caller writes into one of its buffers (possibly shared with a mask after SetMask)
		if nb == 0 {
			return
		}
		bi := rng.Intn(nb)
		if len(r.bufs[bi]) == 0 {
			return
		}
		i, v := rng.Intn(len(r.bufs[bi])), byte(rng.Intn(256))
		r.bufs[bi][i] = v
		r.emit(fmt.Sprintf("poke:%d:%d:%x", bi, i, v), "u", 0)
	case 5, 6:
		if nb == 0 {
			return
		}
		mi, bi := rng.Intn(nm), rng.Intn(nb)
		out := "u"
		if r.masks[mi].SetMask(r.bufs[bi]) != nil {
			out = "e"
		}
		r.emit(fmt.Sprintf("setmask:%d:%d", mi, bi), out, 0)
	case 7:
		if nb == 0 {
			return
		}
		mi, bi := rng.Intn(nm), rng.Intn(nb)
		out := "u"
		if r.masks[mi].Merge(r.bufs[bi]) != nil {
			out = "e"
		}
		r.emit(fmt.Sprintf("merge:%d:%d", mi, bi), out, 0)
	case 8, 9, 10:
		mi, i, en := rng.Intn(nm), pickIdx(), rng.Intn(3) != 0
		out := kc.Recover(func() string {
			if r.masks[mi].SetBit(i, en) != nil {
				return "e"
			}
			return "u"
		})
		r.emit(fmt.Sprintf("setbit:%d:%d:%s", mi, i, blsB01(en)), out, 0)
	case 11:
		mi := rng.Intn(nm)
		r.masks, r.own = append(r.masks, r.masks[mi].Clone()), append(r.own, r.own[mi])
		r.emit(fmt.Sprintf("clone:%d", mi), "u", 'n')
	case 12:
		mi, i := rng.Intn(nm), pickIdx()
		out := kc.Recover(func() string {
			on, err := r.masks[mi].GetBit(i)
			if err != nil {
				return "e"
			}
			if on {
				return "t"
			}
			return "f"
		})
		r.emit(fmt.Sprintf("getbit:%d:%d", mi, i), out, 0)
	case 13:
		mi := rng.Intn(nm)
		m := r.masks[mi]
		r.emit(fmt.Sprintf("mask:%d", mi), kc.HexB(m.Mask()), 0)
		r.emit(fmt.Sprintf("cnt:%d", mi), fmt.Sprint(m.CountEnabled()), 0)
		r.emit(fmt.Sprintf("tot:%d", mi), fmt.Sprint(m.CountTotal()), 0)
		r.emit(fmt.Sprintf("len:%d", mi), fmt.Sprint(m.Len()), 0)
	case 14:
		mi, k := rng.Intn(nm), rng.Intn(n+4)-1
		r.emit(fmt.Sprintf("nth:%d:%d", mi, k), kc.Recover(func() string { return fmt.Sprint(r.masks[mi].IndexOfNthEnabled(k)) }), 0)
	case 15:
		mi, k := rng.Intn(nm), rng.Intn(8*((n+7)/8)+3)-1
		r.emit(fmt.Sprintf("at:%d:%d", mi, k), kc.Recover(func() string { return fmt.Sprint(r.masks[mi].NthEnabledAtIndex(k)) }), 0)
	case 16:
		mi := rng.Intn(nm)
		out := kc.Recover(func() string {
			var idx []*big.Int
			for _, p := range r.masks[mi].Participants() {
				found := -1
				for i, pk := range r.pubs {
					if pk == p {
						found = i
					}
				}
				if found < 0 {
					return "err:participant-not-in-roster"
				}
				idx = append(idx, big.NewInt(int64(found)))
			}
			return blsHexList(idx)
		})
		r.emit(fmt.Sprintf("parts:%d", mi), out, 0)
	case 17:
		if nb == 0 {
			return
		}
		bi := rng.Intn(nb)
		r.emit(fmt.Sprintf("rbuf:%d", bi), kc.HexB(r.bufs[bi]), 0)
	case 18: // aggregate signatures: honest list for the enabled bits, or a damaged one
		mi := rng.Intn(nm)
		m := r.masks[mi]
		var sigs [][]byte
		var logs []string
		for _, i := range r.enabledOf(m) {
			sigs = append(sigs, r.sigs[i])
			logs = append(logs, kc.HexN(blsMulq(q, r.xs[i], r.mm.h)))
		}
		switch rng.Intn(6) {
		case 0:
			if len(sigs) > 0 {
				sigs, logs = sigs[1:], logs[1:]
			}
		case 1:
			if n > 0 {
				j := rng.Intn(n)
				sigs, logs = append(sigs, r.sigs[j]), append(logs, kc.HexN(blsMulq(q, r.xs[j], r.mm.h)))
			}
		case 2:
			if len(sigs) > 0 {
				j := rng.Intn(len(sigs))
				g := r.sigs[0][:len(r.sigs[0])-1]
				if _, dec := sd.decodeSig(g); !dec {
					sigs = append(append(append([][]byte{}, sigs[:j]...), g), sigs[j+1:]...)
					logs = append(append(append([]string{}, logs[:j]...), "x"), logs[j+1:]...)
				}
			}
		}
		out, _ := r.aggSig(m, sigs)
		r.emit(fmt.Sprintf("aggsig:%d:%s", mi, blsJoinOr(logs, ",", "-")), out, 's')
	case 19:
		mi := rng.Intn(nm)
		out, _ := r.aggPub(r.masks[mi])
		r.emit(fmt.Sprintf("aggpub:%d", mi), out, 'k')
	}
}

// aggKeyLog is Σ_{i enabled} (c_i + 1)·x_i, the logarithm the aggregate key must have.
func (r *bdnRun) aggKeyLog(en []int) *big.Int {
	acc := new(big.Int)
	for _, i := range en {
		acc = blsAddq(r.sd.q, acc, blsMulq(r.sd.q, new(big.Int).Add(r.coefs[i], big.NewInt(1)), r.xs[i]))
	}
	return acc
}

// predicate evaluates the BDN statement of the property on every mask object the history produced.
func (r *bdnRun) predicate(rng *kc.Rng) bool {
	sd, c := r.sd, r.c
	ok := true
	for mi, m := range r.masks {
		en := r.enabledOf(m)
		var sigs [][]byte
		for _, i := range en {
			sigs = append(sigs, r.sigs[i])
		}
		replay := map[string]any{"side": sd.name, "keys": blsHexList(r.xs), "ops": strings.Join(r.ops, ";"), "mask": mi, "enabled": en, "msg": kc.HexB(r.mm.m)}
		so, agg := r.aggSig(m, sigs)
		ko, key := r.aggPub(m)
		fail := func(k, what string) {
			ok = false
			blsViolation(c, sd.idKey(k, agg, key), sd.name+": "+what, replay)
		}
		if so == "panic" || ko == "panic" {
			k := "bdn.Aggregate/panic"
			if r.own[mi] && len(en) > 0 {
				k = keyBdnOwn
			}
			fail(k, fmt.Sprintf("aggregation over a mask panics (AggregateSignatures: %s, AggregatePublicKeys: %s); mask created with an own key: %v", so[:min(len(so), 5)], ko[:min(len(ko), 5)], r.own[mi]))
			continue
		}
		if agg == nil || key == nil {
			fail("bdn.Aggregate/error-on-honest-input", "aggregation of the participants' honest signatures fails: "+so+" / "+ko)
			continue
		}
		if !key.Equal(blsMulBase(sd.keyG, sd.q, r.aggKeyLog(en))) {
			fail("bdn.AggregatePublicKeys/wrong-key", "aggregate key is not Σ(c_i+1)·X_i over the mask")
		}
		sb := blsPB(agg)
		if sd.bdn.Verify(key, r.mm.m, sb) != nil {
			fail("bdn.Verify/honest-aggregate-rejected", "aggregate over the mask does not verify under the aggregate key of that mask")
		}
		// other message
		wantOther := r.aggKeyLog(en).Sign() == 0
		if (sd.bdn.Verify(key, r.m2.m, sb) == nil) != wantOther {
			fail("bdn.Verify/other-message", "aggregate verifies on another message")
		}
		// other mask: flip one bit of a clone
		if len(r.pubs) > 0 {
			j := rng.Intn(len(r.pubs))
			m2 := m.Clone()
			on, _ := m2.GetBit(j)
			m2.SetBit(j, !on)
			if _, key2 := r.aggPub(m2); key2 != nil {
				want := r.aggKeyLog(r.enabledOf(m2)).Cmp(r.aggKeyLog(en)) == 0 || r.mm.h.Sign() == 0
				if (sd.bdn.Verify(key2, r.mm.m, sb) == nil) != want {
					if sd.idKey("", nil, key2) != "" {
						key = key2
					}
					fail("bdn.Verify/other-mask", fmt.Sprintf("aggregate over one mask verifies under the key of another mask (bit %d flipped)", j))
				}
			}
			if on2, _ := m.GetBit(j); on2 != on {
				fail("bdn.Mask.Clone/shares-state", "SetBit on a clone changed the original")
			}
		}
		c.Nontrivial(fmt.Sprintf("%s|bdn|%s|%s|%d", sd.name, blsHexList(r.xs), strings.Join(r.ops, ";"), mi))
	}
	return ok
}

func c09Bdn(c *kc.Ctx, sd *blsSide, rng *kc.Rng, b *blsBatch) {
	q, qh := sd.q, kc.HexN(sd.q)
	runs := c.N(6, 100)
	if sd.env.mock != nil {
		runs = c.N(150, 3000)
	}
	for it := 0; it < runs; it++ {
		n := 1 + rng.Intn(10)
		if rng.Intn(25) == 0 {
			n = 0
		}
		r := &bdnRun{c: c, sd: sd}
		for i := 0; i < n; i++ {
			x := rng.BigBelow(q)
			if rng.Intn(12) == 0 && i > 0 {
				x = r.xs[rng.Intn(i)] // duplicate key in the roster
			}
			r.xs = append(r.xs, x)
			r.pubs = append(r.pubs, blsMulBase(sd.keyG, q, x))
		}
		r.coefs = bdnCoefs(r.pubs, q)
		r.mm = sd.msg(rng.Bytes(1+rng.Intn(20)), true, rng)
		r.m2 = sd.msg(append([]byte("other:"), r.mm.m...), false, rng)
		for i := 0; i < n; i++ {
			s, err := sd.bdn.Sign(blsScalar(sd.keyG, q, r.xs[i]), r.mm.m)
			if err != nil {
				panic(err)
			}
			r.sigs = append(r.sigs, s)
		}
		steps := 4 + rng.Intn(c.N(14, 30))
		for k := 0; k < steps; k++ {
			r.step(rng)
		}
		// finish every history with both aggregations on every mask
		for mi, m := range r.masks {
			var sigs [][]byte
			var logs []string
			for _, i := range r.enabledOf(m) {
				sigs = append(sigs, r.sigs[i])
				logs = append(logs, kc.HexN(blsMulq(q, r.xs[i], r.mm.h)))
			}
			out, _ := r.aggSig(m, sigs)
			r.emit(fmt.Sprintf("aggsig:%d:%s", mi, blsJoinOr(logs, ",", "-")), out, 's')
			out, _ = r.aggPub(m)
			r.emit(fmt.Sprintf("aggpub:%d", mi), out, 'k')
		}
		pred := r.predicate(rng)
		c.Program(1)
		if it < 1 {
			c.Sample(map[string]any{"side": sd.name, "kind": "bdn", "keys": blsHexList(r.xs), "ops": strings.Join(r.ops, ";"), "impl": strings.Join(r.outs, ";")})
		}
		// model: the same history, as coded (0) and with the repaired NewMask (1)
		rr := r
		conv := func(o string) string {
			parts := strings.Split(o, ";")
			if len(parts) != len(rr.outs) {
				return o
			}
			for i := range parts {
				switch rr.kinds[i] {
				case 's':
					parts[i] = sd.convSig(rr.mm)(parts[i])
				case 'k':
					parts[i] = sd.convKey(parts[i])
				case 'n':
					if parts[i] == "c0" || parts[i] == "c1" {
						parts[i] = "u"
					}
				}
			}
			return strings.Join(parts, ";")
		}
		impl := strings.Join(r.outs, ";")
		mk := func(fixed string) string {
			return fmt.Sprintf("c09 mask bdn %s %s %s %s %s", qh, fixed, blsHexList(r.xs), blsHexList(r.coefs), blsJoinOr(r.ops, ";", "-"))
		}
		var asCoded string
		line0, line1 := mk("0"), mk("1")
		b.add(line0, func(o string) { asCoded = conv(o) })
		b.add(line1, func(o string) {
			c.CountKind(sd.name + ":bdn-history")
			fixed := conv(o)
			switch {
			case impl == asCoded:
				c.CountKind("bdn-history-matches-model-as-coded")
			case impl == fixed:
				c.CountKind("bdn-history-matches-model-with-repair")
			default:
				c.Disagree(line0, impl, asCoded, "bdn-history (with repair: "+fixed+")")
				c.DisChecked(1)
				if pred {
					c.Unshown("correspondence:bdn-history", "model and implementation disagree on a BDN mask history although the predicate holds: "+blsFirstDiff(impl, asCoded),
						map[string]string{"line": line0, "impl": impl, "model": asCoded})
				}
			}
		})
	}
}

func blsFirstDiff(a, b string) string {
	x, y := strings.Split(a, ";"), strings.Split(b, ";")
	for i := range x {
		if i >= len(y) || x[i] != y[i] {
			my := "<missing>"
			if i < len(y) {
				my = y[i]
			}
			return fmt.Sprintf("op #%d: impl %s, model %s", i, x[i], my)
		}
	}
	return "lengths differ"
}

// ---------------------------------------------------------------------------------------------
// CoSi

// blsDetSuite makes a real suite draw its randomness from the run's PRNG (deterministic replays).
type blsDetSuite struct {
	cosi.Suite
	r cipher.Stream
}

func (d *blsDetSuite) RandomStream() cipher.Stream { return d.r }

type cosiEnv struct {
	name  string
	suite cosi.Suite
	mock  bool
	q     *big.Int
}

func cosiEnvs(c *kc.Ctx, rng *kc.Rng) []*cosiEnv {
	m := dlgroup.New(dlgroup.L, rng.Fork("cosi-mock-stream"))
	out := []*cosiEnv{{name: "dlgroup", suite: m, mock: true, q: new(big.Int).Set(dlgroup.L)}}
	want := map[string]bool{"ed25519": true}
	if c.Thorough() {
		want["p256"] = true
		want["ed25519vt-proj"] = true
	}
	for _, g := range groups.All() {
		if s, ok := g.Suite.(cosi.Suite); ok && want[g.Name] {
			out = append(out, &cosiEnv{name: g.Name, suite: &blsDetSuite{s, rng.Fork("stream-" + g.Name)}, q: new(big.Int).Set(g.Q)})
		}
	}
	return out
}

func (e *cosiEnv) pt(v *big.Int) kyber.Point { return blsMulBase(e.suite, e.q, v) }

// convPt maps a model logarithm (hex) to the point's bytes on real groups, and is the identity on the
// mock group (where the implementation side prints logarithms).
func (e *cosiEnv) implPt(p kyber.Point) string {
	if e.mock {
		return kc.HexN(dlgroup.Log(p))
	}
	return blsHex(p)
}
func (e *cosiEnv) modelPt(o string) string {
	if e.mock {
		return o
	}
	v, ok := new(big.Int).SetString(o, 16)
	if !ok {
		return o
	}
	return blsHex(e.pt(v))
}

func (e *cosiEnv) challenge(vb []byte, A kyber.Point, msg []byte) *big.Int {
	h := e.suite.Hash()
	h.Write(vb)
	h.Write(blsPB(A))
	h.Write(msg)
	return blsBig(e.suite.Scalar().SetBytes(h.Sum(nil)))
}

func blsMaskBits(mask []byte, n int) []int {
	var out []int
	for i := 0; i < n; i++ {
		if i/8 < len(mask) && mask[i/8]&(1<<uint(i&7)) != 0 {
			out = append(out, i)
		}
	}
	return out
}

func c09CosiMask(c *kc.Ctx, e *cosiEnv, rng *kc.Rng, b *blsBatch, runs int) {
	q, qh := e.q, kc.HexN(e.q)
	for it := 0; it < runs; it++ {
		n := 1 + rng.Intn(10)
		var xs []*big.Int
		var pubs []kyber.Point
		for i := 0; i < n; i++ {
			x := rng.BigBelow(q)
			if rng.Intn(12) == 0 && i > 0 {
				x = xs[rng.Intn(i)]
			}
			xs, pubs = append(xs, x), append(pubs, e.pt(x))
		}
		own, ownS := kyber.Point(nil), "x"
		if rng.Intn(2) == 0 {
			k := xs[rng.Intn(n)]
			if rng.Intn(6) == 0 {
				k = rng.BigBelow(q)
			}
			own, ownS = e.pt(k), kc.HexN(k)
		}
		var ops, outs []string
		var kinds []byte
		m, err := cosi.NewMask(e.suite, pubs, own)
		if err != nil {
			outs = []string{"e"}
		} else {
			outs = []string{"u"}
			kinds = []byte{0}
			emit := func(op, out string, k byte) {
				ops, outs, kinds = append(ops, op), append(outs, out), append(kinds, k)
				c.CountKind("cosi-mask-op:" + strings.SplitN(op, ":", 2)[0])
			}
			for k := 4 + rng.Intn(c.N(12, 30)); k > 0; k-- {
				switch rng.Intn(9) {
				case 0, 1, 2:
					i, en := rng.Intn(n+3), rng.Intn(3) != 0
					out := "u"
					if m.SetBit(i, en) != nil {
						out = "e"
					}
					emit(fmt.Sprintf("setbit:%d:%s", i, blsB01(en)), out, 0)
				case 3, 4:
					l := (n + 7) / 8
					if rng.Intn(6) == 0 {
						l = rng.Intn(4)
					}
					buf := rng.Bytes(l)
					out := "u"
					if m.SetMask(buf) != nil {
						out = "e"
					}
					emit("setmask:"+kc.HexB(buf), out, 0)
				case 5:
					i := rng.Intn(n + 3)
					on, err := m.IndexEnabled(i)
					out := map[bool]string{true: "t", false: "f"}[on]
					if err != nil {
						out = "e"
					}
					emit(fmt.Sprintf("idx:%d", i), out, 0)
				case 6:
					k := xs[rng.Intn(n)]
					if rng.Intn(5) == 0 {
						k = rng.BigBelow(q)
					}
					on, err := m.KeyEnabled(e.pt(k))
					out := map[bool]string{true: "t", false: "f"}[on]
					if err != nil {
						out = "e"
					}
					emit("key:"+kc.HexN(k), out, 0)
				case 7:
					emit("cnt", fmt.Sprintf("%x", m.CountEnabled()), 0)
					emit("tot", fmt.Sprintf("%x", m.CountTotal()), 0)
					emit("len", fmt.Sprintf("%x", m.Len()), 0)
					emit("mask", kc.HexB(m.Mask()), 0)
				case 8:
					emit("agg", e.implPt(m.AggregatePublic), 'p')
				}
			}
			emit("agg", e.implPt(m.AggregatePublic), 'p')
			emit("mask", kc.HexB(m.Mask()), 0)
			// predicate: AggregatePublic = Σ_{bit i} publics_i, CountEnabled = number of set bits below n
			sum := e.suite.Point().Null()
			bits := blsMaskBits(m.Mask(), n)
			for _, i := range bits {
				sum.Add(sum, pubs[i])
			}
			if !sum.Equal(m.AggregatePublic) || m.CountEnabled() != len(bits) {
				blsViolation(c, "cosi.Mask/aggregate-out-of-step", e.name+": AggregatePublic / CountEnabled do not match the mask bits after a SetBit/SetMask history",
					map[string]any{"group": e.name, "keys": blsHexList(xs), "own": ownS, "ops": strings.Join(ops, ";")})
			}
		}
		c.Program(1)
		c.Nontrivial(fmt.Sprintf("%s|cosimask|%s|%s|%s", e.name, blsHexList(xs), ownS, strings.Join(ops, ";")))
		impl := strings.Join(outs, ";")
		kk := kinds
		line := fmt.Sprintf("c09 mask cosi %s %s %s %s", qh, blsHexList(xs), ownS, blsJoinOr(ops, ";", "-"))
		b.expect(e.name+":cosi-mask-history", line, impl, true, func(o string) string {
			parts := strings.Split(o, ";")
			if len(parts) != len(kk) {
				return o
			}
			for i := range parts {
				if kk[i] == 'p' {
					parts[i] = e.modelPt(parts[i])
				}
			}
			return strings.Join(parts, ";")
		})
	}
}

func c09CosiRun(c *kc.Ctx, e *cosiEnv, rng *kc.Rng, b *blsBatch, runs int) {
	q, qh := e.q, kc.HexN(e.q)
	su := e.suite
	pl, sl := su.PointLen(), su.ScalarLen()
	for it := 0; it < runs; it++ {
		n := 1 + rng.Intn(10)
		var as []*big.Int
		var pubs []kyber.Point
		for i := 0; i < n; i++ {
			a := rng.BigBelow(q)
			for dup := true; dup; { // signers are told apart by their keys: no duplicates in a CoSi roster
				dup = false
				for _, o := range as {
					if o.Cmp(a) == 0 {
						dup, a = true, rng.BigBelow(q)
					}
				}
			}
			as, pubs = append(as, a), append(pubs, e.pt(a))
		}
		// participants
		var part []int
		for i := 0; i < n; i++ {
			if rng.Intn(3) != 0 {
				part = append(part, i)
			}
		}
		if rng.Intn(4) == 0 {
			part = blsMaskBits([]byte{0xff, 0xff}, n)
		}
		if len(part) == 0 {
			part = []int{rng.Intn(n)}
		}
		msg := rng.Bytes(1 + rng.Intn(30))
		var vs []*big.Int
		var Vs []kyber.Point
		var masks [][]byte
		for _, i := range part {
			v, V := cosi.Commit(su)
			vl := blsBig(v)
			if !V.Equal(e.pt(vl)) {
				blsViolation(c, "cosi.Commit/not-v-times-B", e.name+": Commit returns V != v·B", map[string]string{"group": e.name, "v": kc.HexN(vl)})
			}
			b.expect(e.name+":cosi-commit", fmt.Sprintf("c09 cosi commit %s %s", qh, kc.HexN(vl)), e.implPt(V), true, e.modelPt)
			vs, Vs = append(vs, vl), append(Vs, V)
			mk, err := cosi.NewMask(su, pubs, pubs[i])
			if err != nil {
				panic(err)
			}
			masks = append(masks, mk.Mask())
		}
		aggV, aggM, err := cosi.AggregateCommitments(su, Vs, masks)
		if err != nil {
			panic(err)
		}
		var mhex []string
		for _, m := range masks {
			mhex = append(mhex, kc.HexB(m))
		}
		b.expect(e.name+":cosi-aggcommit", fmt.Sprintf("c09 cosi aggcommit %s %s %s", qh, blsHexList(vs), strings.Join(mhex, ",")),
			"ok:"+e.implPt(aggV)+":"+kc.HexB(aggM), true, func(o string) string {
				f := strings.Split(o, ":")
				if len(f) == 3 {
					return f[0] + ":" + e.modelPt(f[1]) + ":" + f[2]
				}
				return o
			})
		mask, err := cosi.NewMask(su, pubs, nil)
		if err != nil {
			panic(err)
		}
		if mask.SetMask(aggM) != nil {
			panic("SetMask of the aggregate mask")
		}
		cs, err := cosi.Challenge(su, aggV, mask.AggregatePublic, msg)
		if err != nil {
			panic(err)
		}
		cl := blsBig(cs)
		if cl.Cmp(e.challenge(blsPB(aggV), mask.AggregatePublic, msg)) != 0 {
			blsViolation(c, "cosi.Challenge/not-hash-of-V-A-M", e.name+": Challenge is not H(V ‖ A ‖ M)", map[string]string{"group": e.name})
		}
		var rs []*big.Int
		var rsc []kyber.Scalar
		for k, i := range part {
			r, err := cosi.Response(su, blsScalar(su, q, as[i]), blsScalar(su, q, vs[k]), cs)
			if err != nil {
				panic(err)
			}
			rl := blsBig(r)
			b.expect(e.name+":cosi-response", fmt.Sprintf("c09 cosi response %s %s %s %s", qh, kc.HexN(as[i]), kc.HexN(vs[k]), kc.HexN(cl)), kc.HexN(rl), true, nil)
			rs, rsc = append(rs, rl), append(rsc, r)
		}
		rAgg, err := cosi.AggregateResponses(su, rsc)
		if err != nil {
			panic(err)
		}
		b.expect(e.name+":cosi-aggresp", fmt.Sprintf("c09 cosi aggresp %s %s", qh, blsHexList(rs)), kc.HexN(blsBig(rAgg)), true, nil)
		// aggregation reads its inputs: the responses (and commitments) are the signers' values and are used again
		// (a retry, a late response, a subtree aggregated first)
		rAgg2, err2 := cosi.AggregateResponses(su, rsc)
		c.Eval(1)
		same := err2 == nil && rAgg2.Equal(rAgg)
		for k := range rsc {
			if blsBig(rsc[k]).Cmp(rs[k]) != 0 {
				same = false
			}
		}
		if !same {
			blsViolation(c, "cosi.AggregateResponses/inputs-changed", e.name+": aggregating the same responses a second time gives another result, or the responses were changed by the first aggregation", map[string]string{"group": e.name, "responses": blsHexList(rs)})
		}
		sig, err := cosi.Sign(su, aggV, rAgg, mask)
		if err != nil {
			panic(err)
		}
		if len(sig) != pl+sl+(n+7)/8 {
			blsViolation(c, "cosi.Sign/length", e.name+": signature length", map[string]string{"group": e.name})
		}
		vlog := new(big.Int)
		for _, v := range vs {
			vlog = blsAddq(q, vlog, v)
		}
		// tampering families × policies
		type tcase struct {
			tag    string
			sig    []byte
			msg    []byte
			vlog   *big.Int // logarithm of the commitment in sig, nil = decode in the harness
			honest bool     // semantically the honest signature
		}
		cp := func() []byte { return append([]byte{}, sig...) }
		var tcs []tcase
		tcs = append(tcs, tcase{"honest", cp(), msg, vlog, true})
		tcs = append(tcs, tcase{"other-message", cp(), append(append([]byte{}, msg...), 1), vlog, false})
		{
			s := cp()
			j := rng.Intn(n)
			s[pl+sl+j/8] ^= 1 << uint(j&7)
			tcs = append(tcs, tcase{"mask-bit-flipped", s, msg, vlog, false})
		}
		{
			s := cp()
			r1 := blsAddq(q, blsBig(rAgg), big.NewInt(1))
			copy(s[pl:pl+sl], blsMustMarshal(blsScalar(su, q, r1)))
			tcs = append(tcs, tcase{"response-plus-one", s, msg, vlog, false})
		}
		{
			s := cp()
			copy(s[:pl], blsPB(e.pt(blsAddq(q, vlog, big.NewInt(1)))))
			tcs = append(tcs, tcase{"commitment-plus-B", s, msg, blsAddq(q, vlog, big.NewInt(1)), false})
		}
		{
			s := cp()
			copy(s[:pl], rng.Bytes(pl))
			tcs = append(tcs, tcase{"commitment-garbage", s, msg, nil, false})
		}
		for _, cut := range []int{0, pl - 1, pl, pl + sl - 1, pl + sl, len(sig) - 1} {
			if cut >= 0 && cut < len(sig) {
				tcs = append(tcs, tcase{fmt.Sprintf("truncated-%d", cut), cp()[:cut], msg, vlog, false})
			}
		}
		tcs = append(tcs, tcase{"extended", append(cp(), 0), msg, vlog, false})
		if n%8 != 0 { // padding bit of the mask set: SetMask ignores it, the signature stays valid
			s := cp()
			s[len(s)-1] |= 0x80
			tcs = append(tcs, tcase{"mask-padding-bit", s, msg, vlog, true})
		}
		np := len(part)
		pols := []struct {
			tag string
			p   cosi.Policy
			met bool
		}{
			{"n", nil, np == n}, {"c", cosi.CompletePolicy{}, np == n},
			{fmt.Sprintf("t:%d", np), cosi.NewThresholdPolicy(np), true},
			{fmt.Sprintf("t:%d", np+1), cosi.NewThresholdPolicy(np + 1), false},
			{"t:0", cosi.NewThresholdPolicy(0), true}, {"t:-1", cosi.NewThresholdPolicy(-1), true},
			{fmt.Sprintf("t:%d", n), cosi.NewThresholdPolicy(n), np == n},
		}
		for ti, tc := range tcs {
			for pi, pol := range pols {
				if ti > 0 && pi > 0 && rng.Intn(3) != 0 {
					continue // tampered signatures: one third of the policy grid
				}
				tc, pol := tc, pol
				verdict := kc.Recover(func() string {
					if cosi.Verify(su, pubs, tc.msg, tc.sig, pol.p) != nil {
						return "false"
					}
					return "true"
				})
				met := pol.met
				// model inputs as Verify parses them
				V, r, mk, ch := "x", "0", "-", "0"
				var Vl, rl, chl, Al *big.Int
				if len(tc.sig) >= pl {
					p := su.Point()
					if p.UnmarshalBinary(tc.sig[:pl]) == nil {
						switch {
						case e.mock:
							Vl = dlgroup.Log(p)
						case tc.vlog != nil && p.Equal(e.pt(tc.vlog)):
							Vl = tc.vlog
						default:
							continue // decodes to a point of unknown logarithm on a real group
						}
						V = kc.HexN(Vl)
					}
				}
				if len(tc.sig) >= pl+sl {
					rl = blsBig(su.Scalar().SetBytes(tc.sig[pl : pl+sl]))
					r = kc.HexN(rl)
					mb := tc.sig[pl+sl:]
					mk = kc.HexB(mb)
					if len(mb) == (n+7)/8 {
						A := su.Point().Null()
						Al = new(big.Int)
						for _, i := range blsMaskBits(mb, n) {
							A.Add(A, pubs[i])
							Al = blsAddq(q, Al, as[i])
						}
						chl = e.challenge(tc.sig[:pl], A, tc.msg)
						ch = kc.HexN(chl)
					}
				}
				// property predicate: the honest signature is accepted exactly when the policy is met; a
				// tampered one is rejected — unless the tampering is void because r = v + c'·a' still
				// holds (zero aggregate key, zero key of the flipped signer), which is then skipped.
				pred := true
				degenerate := !tc.honest && Vl != nil && rl != nil && chl != nil &&
					blsModq(q, new(big.Int).Sub(rl, blsAddq(q, Vl, blsMulq(q, chl, Al)))).Sign() == 0
				if degenerate {
					c.CountKind("cosi-verify-void-tampering-skipped")
				} else {
					want := tc.honest && met
					pred = verdict == fmt.Sprint(want)
					if !pred {
						blsViolation(c, "cosi.Verify/"+strings.SplitN(tc.tag, "-", 2)[0], fmt.Sprintf("%s: Verify = %s on a %s signature, policy %s met: %v", e.name, verdict, tc.tag, pol.tag, met),
							map[string]any{"group": e.name, "keys": blsHexList(as), "participants": part, "msg": kc.HexB(tc.msg), "sig": kc.HexB(tc.sig), "policy": pol.tag})
					}
				}
				line := fmt.Sprintf("c09 cosi verify %s %s %d %d %d %s %s %s %s %s", qh, blsHexList(as), pl, sl, len(tc.sig), V, r, mk, ch, pol.tag)
				b.expect(e.name+":cosi-verify-"+strings.SplitN(tc.tag, "-", 2)[0], line, verdict, pred, func(o string) string { return fmt.Sprint(o == "ok") })
				c.Nontrivial(fmt.Sprintf("%s|cosi|%x|%x|%s", e.name, tc.sig, tc.msg, pol.tag))
			}
		}
		c.Program(1)
		if it == 0 {
			c.Sample(map[string]any{"group": e.name, "kind": "cosi", "keys": blsHexList(as), "participants": part, "msg": kc.HexB(msg), "sig": kc.HexB(sig)})
		}
	}
	// AggregateCommitments error paths; AggregateMasks
	b.expect(e.name+":cosi-aggcommit-mismatch", fmt.Sprintf("c09 cosi aggcommit %s 1,2 00", qh), kc.Recover(func() string {
		if _, _, err := cosi.AggregateCommitments(su, []kyber.Point{e.pt(big.NewInt(1)), e.pt(big.NewInt(2))}, [][]byte{{0}}); err != nil {
			return "e"
		}
		return "ok"
	}), true, nil)
	b.expect(e.name+":cosi-aggcommit-masklen", fmt.Sprintf("c09 cosi aggcommit %s 1,2 00,0000", qh), kc.Recover(func() string {
		if _, _, err := cosi.AggregateCommitments(su, []kyber.Point{e.pt(big.NewInt(1)), e.pt(big.NewInt(2))}, [][]byte{{0}, {0, 0}}); err != nil {
			return "e"
		}
		return "ok"
	}), true, nil)
	for k := 0; k < 10; k++ {
		x, y := rng.Bytes(rng.Intn(4)), rng.Bytes(rng.Intn(4))
		got := "e"
		if m, err := cosi.AggregateMasks(x, y); err == nil {
			got = kc.HexB(m)
		}
		b.expect(e.name+":cosi-aggmasks", fmt.Sprintf("c09 mask aggmasks %s %s", kc.HexB(x), kc.HexB(y)), got, true, nil)
	}
}

func blsMustMarshal(s kyber.Scalar) []byte {
	b, err := s.MarshalBinary()
	if err != nil {
		panic(err)
	}
	return b
}

func c09Cosi(c *kc.Ctx, rng *kc.Rng, b *blsBatch) {
	for _, e := range cosiEnvs(c, rng) {
		r := rng.Fork(e.name)
		mruns, pruns := c.N(40, 400), c.N(6, 60)
		if e.mock {
			mruns, pruns = c.N(300, 4000), c.N(40, 600)
		}
		c09CosiMask(c, e, r.Fork("mask"), b, mruns)
		b.flush()
		c09CosiRun(c, e, r.Fork("run"), b, pruns)
		b.flush()
	}
}
