//go:build !constantTime

package main

// C04, composite messages parsed from untrusted bytes: Schnorr / EdDSA / BLS / CoSi / ring-signature
// verification, proof.HashVerify, ECIES and anon decryption, VSS deals (protobuf). The property: malformed
// input produces an error, never a crash. Every entry point gets strings of every length
// 0..2·len+40 (random, all-00, all-ff), the valid message, its bit flips, truncations and extensions, and
// valid framing around invalid component encodings. Expected verdict: `ok` for the pristine message only.
// The framing model (Groups/Decode.lean `Composite.*`, theorems `Composite.*_false_*`) is compared on the
// split: when the model's parse fails or a component decoder of the model rejects, the implementation
// must reject.

import (
	"crypto/cipher"
	"crypto/sha256"
	"fmt"
	"hash"
	"io"
	"math/big"
	"reflect"
	"strings"
	"time"

	"go.dedis.ch/fixbuf"
	"go.dedis.ch/kyber/v4"
	"go.dedis.ch/kyber/v4/encrypt/ecies"
	"go.dedis.ch/kyber/v4/proof"
	vssp "go.dedis.ch/kyber/v4/share/vss/pedersen"
	vssr "go.dedis.ch/kyber/v4/share/vss/rabin"
	"go.dedis.ch/kyber/v4/sign/anon"
	"go.dedis.ch/kyber/v4/sign/bls"
	"go.dedis.ch/kyber/v4/sign/cosi"
	"go.dedis.ch/kyber/v4/sign/eddsa"
	"go.dedis.ch/kyber/v4/sign/schnorr"
	"go.dedis.ch/kyber/v4/xof/blake2xb"

	"verifharness/internal/groups"
	"verifharness/internal/kc"
)

// decSuite adapts a group to the suites the protocol packages need, with a seeded random stream.
type decSuite struct {
	kyber.Group
	rnd cipher.Stream
}

func (s *decSuite) RandomStream() cipher.Stream { return s.rnd }
func (s *decSuite) Hash() hash.Hash             { return sha256.New() }
func (s *decSuite) XOF(seed []byte) kyber.XOF   { return blake2xb.New(seed) }
func (s *decSuite) Read(r io.Reader, objs ...any) error {
	return fixbuf.Read(r, s, objs...)
}
func (s *decSuite) Write(w io.Writer, objs ...any) error { return fixbuf.Write(w, objs...) }
func (s *decSuite) New(t reflect.Type) any {
	switch t {
	case reflect.TypeFor[kyber.Scalar]():
		return s.Scalar()
	case reflect.TypeFor[kyber.Point]():
		return s.Point()
	}
	return nil
}

// decMutations: the byte-string families for a composite message `valid` (may be nil).
func decMutations(rng *kc.Rng, valid []byte, nominal int, reps int) []decInput {
	var out []decInput
	add := func(f string, b []byte) { out = append(out, decInput{f, b}) }
	maxLen := 2*nominal + 40
	step := 1
	if maxLen > 400 {
		step = maxLen / 300
	}
	for l := 0; l <= maxLen; l++ {
		if step > 1 && l%step != 0 && !(l <= 2 || (l >= nominal-2 && l <= nominal+2)) {
			continue
		}
		add("len-zeros", decFill(l, 0))
		add("len-ff", decFill(l, 0xff))
		for r := 0; r < reps; r++ {
			add("len-random", rng.Bytes(l))
		}
	}
	if valid != nil {
		add("pristine", valid)
		for r := 0; r < 16*reps+16; r++ {
			m := append([]byte{}, valid...)
			for k := 0; k <= rng.Intn(2); k++ {
				m[rng.Intn(len(m))] ^= 1 << uint(rng.Intn(8))
			}
			add("bitflip", m)
		}
		for cut := 0; cut < len(valid); cut += 1 + len(valid)/40 {
			add("truncated", valid[:cut])
		}
		if len(valid) > 0 {
			add("truncated", valid[:len(valid)-1])
		}
		for _, ext := range []int{1, 2, 8, 40} {
			add("overlong-zero", decCat(valid, decFill(ext, 0)))
			add("overlong-random", decCat(valid, rng.Bytes(ext)))
		}
	}
	return out
}

type decCompCase struct {
	entry    string
	in       decInput
	got      string // "ok" | "err" | "panic" | "timeout"
	want     string // "ok" | "err"
	pristine bool
}

// decRunGuarded runs f under recover and a timeout.
func decRunGuarded(f func() error) string {
	ch := make(chan string, 1)
	go func() {
		ch <- kc.Recover(func() string {
			if err := f(); err != nil {
				return "err"
			}
			return "ok"
		})
	}()
	select {
	case r := <-ch:
		return r
	case <-time.After(20 * time.Second):
		return "timeout"
	}
}

// decReportComposite runs one entry point over the inputs. `lenient(in)` marks inputs for which the
// format itself documents acceptance (an ignored tail behind a complete message, unauthenticated
// header slots, mask bits beyond the roster): for those only the absence of a crash is required.
func decReportComposite(c *kc.Ctx, entry string, ins []decInput, valid []byte, run func(b []byte) error, lenient ...func(in decInput) bool) {
	for i, in := range ins {
		if len(lenient) > 0 && lenient[0](in) {
			c.Eval(1)
			c.CountKind("composite:" + entry + ":" + in.fam + "(no-crash-only)")
			if got := decRunGuarded(func() error { return run(append([]byte{}, in.b...)) }); got == "panic" || got == "timeout" {
				c.Violation(entry+":"+got, fmt.Sprintf("%s on %s (%s): %s", entry, decTrunc(kc.HexB(in.b)), in.fam, got),
					map[string]any{"entry": entry, "family": in.fam, "bytes": kc.HexB(in.b), "impl": got})
			}
			continue
		}
		c.Eval(1)
		c.CountKind("composite:" + entry + ":" + in.fam)
		got := decRunGuarded(func() error { return run(append([]byte{}, in.b...)) })
		pristine := valid != nil && string(in.b) == string(valid)
		want := "err"
		if pristine {
			want = "ok"
		}
		c.Nontrivial("comp|" + entry + "|" + kc.HexB(in.b))
		if i%(len(ins)/2+1) == 0 {
			c.Sample(map[string]string{"entry": entry, "family": in.fam, "bytes": decTrunc(kc.HexB(in.b)), "impl": got, "expected": want})
		}
		rep := map[string]any{"entry": entry, "family": in.fam, "bytes": kc.HexB(in.b), "impl": got, "expected": want}
		if valid != nil && len(in.b) == len(valid) {
			var diff []int
			for k := range valid {
				if valid[k] != in.b[k] {
					diff = append(diff, k)
				}
			}
			rep["differs_from_pristine_at"] = diff
			rep["pristine"] = kc.HexB(valid)
		}
		switch {
		case got == "panic" || got == "timeout":
			c.Violation(entry+":"+got, fmt.Sprintf("%s on %s (%s): %s", entry, decTrunc(kc.HexB(in.b)), in.fam, got), rep)
		case got != want && want == "err":
			c.Violation(entry+":malformed-accepted", fmt.Sprintf("%s accepts the malformed message %s (%s)", entry, decTrunc(kc.HexB(in.b)), in.fam), rep)
		case got != want:
			c.Unshown("correspondence:"+entry+":pristine-rejected", fmt.Sprintf("%s rejects the message the library produced", entry), rep)
		}
	}
}

// decTailOf: the input is the pristine message followed by extra bytes.
func decTailOf(valid []byte) func(in decInput) bool {
	return func(in decInput) bool {
		return len(in.b) > len(valid) && string(in.b[:len(valid)]) == string(valid)
	}
}

func decTrunc(s string) string {
	if len(s) > 200 {
		return s[:200] + "…"
	}
	return s
}

// decInvalidPointEncodings: a few strings of exactly PointLen bytes that the group's decoder rejects.
func decInvalidPointEncodings(g *groups.G, rng *kc.Rng, n int) [][]byte {
	var out [][]byte
	size := g.Group.PointLen()
	for tries := 0; len(out) < n && tries < 200*n; tries++ {
		var b []byte
		switch tries % 3 {
		case 0:
			b = decFill(size, 0xff)
		case 1:
			b = rng.Bytes(size)
		default:
			b = decFill(size, 0)
			b[size-1] = 2
		}
		if r := implDecodePoint(g, b); r.out == "err" {
			out = append(out, b)
		}
	}
	return out
}

func c04Composite(c *kc.Ctx) {
	reps := c.N(1, 4)
	msg := []byte("C04 composite message")

	// ---- Schnorr: R ‖ s ----
	var parseLines []string
	type parseChk struct {
		entry string
		g     *groups.G
		b     []byte
		got   string
	}
	var parseChks []parseChk
	for _, g := range groups.All() {
		if g.Kind == "gt" || (g.Kind == "g2" && !c.Thorough()) || g.Name == "ed25519-allowvt" {
			continue
		}
		rng := c.Rng.Fork("schnorr/" + g.Name)
		suite := &decSuite{Group: g.Group, rnd: rng.Fork("stream")}
		priv := g.Group.Scalar().Pick(rng)
		pub := g.Group.Point().Mul(priv, nil)
		sig, err := schnorr.Sign(suite, priv, msg)
		if err != nil {
			c.Unshown("correspondence:schnorr-sign:"+g.Name, "schnorr.Sign failed: "+err.Error(), nil)
			continue
		}
		pl, sl := g.Group.PointLen(), g.Group.ScalarLen()
		ins := decMutations(rng, sig, pl+sl, reps)
		for _, bad := range decInvalidPointEncodings(g, rng, 3) {
			ins = append(ins, decInput{"invalid-R", decCat(bad, sig[pl:])})
		}
		// s = q, q+1, all-ff (out of range) with a valid R
		bo := g.Group.Scalar().ByteOrder()
		encS := func(d int64) []byte {
			v := new(big.Int).Add(g.Q, big.NewInt(d))
			if bo == kyber.LittleEndian {
				return decLE(v, sl)
			}
			return decBE(v, sl)
		}
		// flag byte 0x40 ("uncompressed infinity" in the BLS12-381 serialisation) in front of R
		ins = append(ins, decInput{"R-flag40", decCat([]byte{0x40}, decFill(pl-1, 0), sig[pl:])})
		ins = append(ins, decInput{"s-equals-q", decCat(sig[:pl], encS(0))}, decInput{"s-q-plus-1", decCat(sig[:pl], encS(1))},
			decInput{"s-all-ff", decCat(sig[:pl], decFill(sl, 0xff))})
		entry := "schnorr.Verify/" + g.Name
		decReportComposite(c, entry, ins, sig, func(b []byte) error { return schnorr.Verify(g.Group, pub, msg, b) })
		// framing model
		for _, in := range ins {
			parseLines = append(parseLines, fmt.Sprintf("parse exact %x %x %s", pl, sl, kc.HexB(in.b)))
			got := decRunGuarded(func() error { return schnorr.Verify(g.Group, pub, msg, append([]byte{}, in.b...)) })
			parseChks = append(parseChks, parseChk{entry, g, in.b, got})
		}
	}
	parseOuts := c.ModelDedup(parseLines)
	// second round: component decoders of the model on the parts
	var partLines []string
	type partRef struct{ i, kind int }
	var partRefs []partRef
	for i, o := range parseOuts {
		c.Program(1)
		pc := parseChks[i]
		if o == "err" {
			c.CountKind("schnorr-model:reject-length")
			if pc.got == "ok" {
				c.Violation(pc.entry+":malformed-accepted", "accepted although the framing model rejects the length: "+kc.HexB(pc.b), map[string]any{"entry": pc.entry, "bytes": kc.HexB(pc.b)})
			}
			continue
		}
		f := strings.Fields(o)
		if len(f) != 3 {
			c.Unshown("correspondence:parse", "unexpected model output "+o, nil)
			continue
		}
		if pl := decModelLine(pc.g); pl != "" {
			partLines = append(partLines, pl+f[1])
			partRefs = append(partRefs, partRef{i, 0})
		}
		if sl := decScalarLine(pc.g); sl != "" {
			partLines = append(partLines, sl+f[2])
			partRefs = append(partRefs, partRef{i, 1})
		}
	}
	partOuts := c.ModelDedup(partLines)
	for k, o := range partOuts {
		pc := parseChks[partRefs[k].i]
		if o == "err" {
			what := []string{"point", "scalar"}[partRefs[k].kind]
			c.CountKind("schnorr-model:reject-" + what)
			if pc.got == "ok" {
				c.Violation(pc.entry+":malformed-accepted", "accepted although the model's "+what+" decoder rejects: "+kc.HexB(pc.b), map[string]any{"entry": pc.entry, "bytes": kc.HexB(pc.b)})
			}
		}
	}

	// ---- EdDSA: 64 bytes ----
	{
		rng := c.Rng.Fork("eddsa")
		e := eddsa.NewEdDSA(rng.Fork("key"))
		sig, err := e.Sign(msg)
		if err == nil {
			ins := decMutations(rng, sig, 64, reps+1)
			ed := groups.ByName("ed25519")
			for _, bad := range decInvalidPointEncodings(ed, rng, 3) {
				ins = append(ins, decInput{"invalid-R", decCat(bad, sig[32:])})
			}
			ins = append(ins, decInput{"s-all-ff", decCat(sig[:32], decFill(32, 0xff))})
			decReportComposite(c, "eddsa.Verify", ins, sig, func(b []byte) error { return eddsa.Verify(e.Public, msg, b) })
			// the public key, too, comes from untrusted bytes in VerifyWithChecks
			pk, _ := e.Public.MarshalBinary()
			pins := decMutations(rng, pk, 32, reps)
			decReportComposite(c, "eddsa.VerifyWithChecks/pub", pins, pk, func(b []byte) error { return eddsa.VerifyWithChecks(b, msg, sig) })
		}
	}

	// ---- BLS: one point ----
	for _, p := range groups.Pairings() {
		for _, on := range []string{"G1", "G2"} {
			if on == "G2" && !c.Thorough() && p.Name != "bn256" {
				continue
			}
			rng := c.Rng.Fork("bls/" + p.Name + on)
			scheme := bls.NewSchemeOnG1(p.Suite)
			sg := p.G1
			if on == "G2" {
				scheme = bls.NewSchemeOnG2(p.Suite)
				sg = p.G2
			}
			var sig []byte
			var pub kyber.Point
			st := kc.Recover(func() string {
				priv, pb := scheme.NewKeyPair(rng)
				pub = pb
				var err error
				sig, err = scheme.Sign(priv, msg)
				if err != nil {
					return "err"
				}
				return ""
			})
			if st != "" {
				c.CountKind("composite:bls-unsupported:" + p.Name + on)
				continue
			}
			ins := decMutations(rng, sig, len(sig), reps)
			// other members of the signature group, and non-members, in valid framing
			for _, di := range genDecInputs(sg, rng, 1, nil) {
				if len(di.b) == len(sig) && (di.fam == "wrong-subgroup" || di.fam == "valid" || di.fam == "coord-plus-p" || di.fam == "flag-byte") {
					if string(di.b) != string(sig) {
						ins = append(ins, decInput{"sig-" + di.fam, di.b})
					}
				}
			}
			// a tail is ignored by the BN and gnark point decoders; other MEMBERS of the signature group
			// (e.g. the identity) are forgeries, not malformed messages: C09, not C04
			lenientTail := func(in decInput) bool {
				return in.fam == "sig-valid" || ((p.Name == "bn256" || p.Name == "bn254" || p.Name == "gnark") && decTailOf(sig)(in))
			}
			decReportComposite(c, "bls.Verify/"+p.Name+"-sig"+on, ins, sig, func(b []byte) error { return scheme.Verify(pub, msg, b) }, lenientTail)
		}
	}

	// ---- CoSi: V ‖ r ‖ mask ----
	for _, gname := range []string{"ed25519", "ed25519vt-proj", "p256"} {
		g := groups.ByName(gname)
		if g == nil {
			continue
		}
		rng := c.Rng.Fork("cosi/" + gname)
		suite := &decSuite{Group: g.Group, rnd: rng.Fork("stream")}
		n := 5
		privs := make([]kyber.Scalar, n)
		pubs := make([]kyber.Point, n)
		for i := range privs {
			privs[i] = g.Group.Scalar().Pick(rng)
			pubs[i] = g.Group.Point().Mul(privs[i], nil)
		}
		var sig []byte
		st := kc.Recover(func() string {
			masks := make([]*cosi.Mask, n)
			vs := make([]kyber.Scalar, n)
			Vs := make([]kyber.Point, n)
			var bm [][]byte
			for i := range privs {
				m, err := cosi.NewMask(suite, pubs, pubs[i])
				if err != nil {
					return "err"
				}
				masks[i] = m
				bm = append(bm, m.Mask())
				vs[i], Vs[i] = cosi.Commit(suite)
			}
			aggV, aggMask, err := cosi.AggregateCommitments(suite, Vs, bm)
			if err != nil {
				return "err"
			}
			full, _ := cosi.NewMask(suite, pubs, nil)
			if err := full.SetMask(aggMask); err != nil {
				return "err"
			}
			ch, err := cosi.Challenge(suite, aggV, full.AggregatePublic, msg)
			if err != nil {
				return "err"
			}
			rs := make([]kyber.Scalar, n)
			for i := range privs {
				rs[i], err = cosi.Response(suite, privs[i], vs[i], ch)
				if err != nil {
					return "err"
				}
			}
			aggR, err := cosi.AggregateResponses(suite, rs)
			if err != nil {
				return "err"
			}
			sig, err = cosi.Sign(suite, aggV, aggR, full)
			if err != nil {
				return "err"
			}
			return ""
		})
		if st != "" || sig == nil {
			c.Unshown("correspondence:cosi-sign:"+gname, "could not produce a cosignature: "+st, nil)
			continue
		}
		ins := decMutations(rng, sig, len(sig), reps)
		pl := g.Group.PointLen()
		for _, bad := range decInvalidPointEncodings(g, rng, 3) {
			ins = append(ins, decInput{"invalid-V", decCat(bad, sig[pl:])})
		}
		ins = append(ins, decInput{"mask-missing", sig[:len(sig)-1]}, decInput{"mask-long", decCat(sig, []byte{0})},
			decInput{"mask-bits-beyond-n", decCat(sig[:len(sig)-1], []byte{0xff})})
		decReportComposite(c, "cosi.Verify/"+gname, ins, sig, func(b []byte) error {
			return cosi.Verify(suite, pubs, msg, b, cosi.NewThresholdPolicy(n))
		}, func(in decInput) bool { return in.fam == "mask-bits-beyond-n" })
		// small rosters, the empty (non-nil) one included: every prefix of V ‖ r ‖ mask, in a buffer without
		// spare capacity, is answered with an error or a verdict, never a panic
		sl := g.Group.ScalarLen()
		for _, rn := range []int{0, 1, 2} {
			roster := pubs[:rn]
			full := decCat(sig[:pl+sl], decFill((rn+7)/8, 0xff))
			for cut := 0; cut <= len(full)+1; cut++ {
				b := make([]byte, cut)
				copy(b, decCat(full, []byte{0}))
				got := decRunGuarded(func() error { return cosi.Verify(suite, roster, msg, b, cosi.NewThresholdPolicy(rn)) })
				c.Eval(1)
				c.CountKind(fmt.Sprintf("composite:cosi.Verify/%s:roster-%d-prefix", gname, rn))
				if got == "panic" || got == "timeout" {
					c.Violation(fmt.Sprintf("cosi.Verify/%s:%s:roster-%d", gname, got, rn), fmt.Sprintf("cosi.Verify %s on a %d-byte signature with a roster of %d keys", got+"s", cut, rn),
						map[string]string{"group": gname, "roster": fmt.Sprint(rn), "sig": kc.HexB(b)})
				}
			}
		}
		var lines []string
		for _, in := range ins {
			lines = append(lines, fmt.Sprintf("parse cosi %x %x %x %s", pl, g.Group.ScalarLen(), (n+7)/8, kc.HexB(in.b)))
		}
		outs := c.ModelDedup(lines)
		for i, o := range outs {
			c.Program(1)
			if o == "err" {
				c.CountKind("cosi-model:reject-length")
				got := decRunGuarded(func() error {
					return cosi.Verify(suite, pubs, msg, append([]byte{}, ins[i].b...), cosi.NewThresholdPolicy(n))
				})
				if got == "ok" {
					c.Violation("cosi.Verify/"+gname+":malformed-accepted", "accepted although the framing model rejects: "+kc.HexB(ins[i].b), nil)
				}
			}
		}
	}

	// ---- ring signatures (sign/anon): [Tag] ‖ C0 ‖ S_1..S_n ----
	for _, gname := range []string{"ed25519", "p256"} {
		g := groups.ByName(gname)
		if g == nil {
			continue
		}
		for _, linkable := range []bool{false, true} {
			rng := c.Rng.Fork(fmt.Sprint("ring/", gname, linkable))
			suite := &decSuite{Group: g.Group, rnd: rng.Fork("stream")}
			n := 3
			set := make(anon.Set, n)
			privs := make([]kyber.Scalar, n)
			for i := range set {
				privs[i] = g.Group.Scalar().Pick(rng)
				set[i] = g.Group.Point().Mul(privs[i], nil)
			}
			var scope []byte
			if linkable {
				scope = []byte("scope")
			}
			var sig []byte
			if st := kc.Recover(func() string { sig = anon.Sign(suite, msg, set, scope, 1, privs[1]); return "" }); st != "" || sig == nil {
				c.Unshown("correspondence:anon-sign:"+gname, "anon.Sign failed", nil)
				continue
			}
			ins := decMutations(rng, sig, len(sig), reps)
			if linkable {
				for _, bad := range decInvalidPointEncodings(g, rng, 3) {
					ins = append(ins, decInput{"invalid-tag", decCat(bad, sig[g.Group.PointLen():])})
				}
			}
			entry := fmt.Sprintf("anon.Verify/%s/linkable=%v", gname, linkable)
			// A tail after a complete signature is ignored by the stream reader: that is the framing
			// the code documents; expected verdict for over-long strings = the verdict of the prefix.
			var strict []decInput
			for _, in := range ins {
				if len(in.b) > len(sig) && string(in.b[:len(sig)]) == string(sig) {
					continue
				}
				strict = append(strict, in)
			}
			decReportComposite(c, entry, strict, sig, func(b []byte) error {
				_, err := anon.Verify(suite, msg, set, scope, b)
				return err
			})
			for _, in := range ins {
				if len(in.b) > len(sig) && string(in.b[:len(sig)]) == string(sig) {
					c.Eval(1)
					c.CountKind("composite:" + entry + ":tail-ignored")
					if got := decRunGuarded(func() error { _, err := anon.Verify(suite, msg, set, scope, in.b); return err }); got == "panic" || got == "timeout" {
						c.Violation(entry+":"+got, "panic on over-long ring signature", map[string]any{"bytes": kc.HexB(in.b)})
					}
				}
			}
		}
	}

	// ---- proof.HashVerify ----
	for _, gname := range []string{"ed25519", "p256"} {
		g := groups.ByName(gname)
		if g == nil {
			continue
		}
		rng := c.Rng.Fork("proof/" + gname)
		suite := &decSuite{Group: g.Group, rnd: rng.Fork("stream")}
		x, y := g.Group.Scalar().Pick(rng), g.Group.Scalar().Pick(rng)
		B := g.Group.Point().Base()
		X := g.Group.Point().Mul(x, nil)
		Y := g.Group.Point().Mul(y, nil)
		Z := g.Group.Point().Pick(rng)
		preds := map[string]proof.Predicate{
			"rep": proof.Rep("X", "x", "B"),
			"and": proof.And(proof.Rep("X", "x", "B"), proof.Rep("Y", "y", "B")),
			"or":  proof.Or(proof.Rep("X", "x", "B"), proof.Rep("Z", "z", "B")),
		}
		for _, pn := range []string{"rep", "and", "or"} {
			pred := preds[pn]
			sec := map[string]kyber.Scalar{"x": x, "y": y}
			pub := map[string]kyber.Point{"B": B, "X": X, "Y": Y, "Z": Z}
			var pf []byte
			st := kc.Recover(func() string {
				choice := map[proof.Predicate]int{}
				if pn == "or" {
					choice[pred] = 0
				}
				prover := pred.Prover(suite, sec, pub, choice)
				var err error
				pf, err = proof.HashProve(suite, "C04", prover)
				if err != nil {
					return "err:" + err.Error()
				}
				return ""
			})
			if st != "" {
				c.Unshown("correspondence:hashprove:"+gname+pn, "HashProve failed: "+st, nil)
				continue
			}
			ins := decMutations(rng, pf, len(pf), reps)
			decReportComposite(c, "proof.HashVerify/"+gname+"/"+pn, ins, pf, func(b []byte) error {
				return proof.HashVerify(suite, "C04", pred.Verifier(suite, pub), b)
			}, decTailOf(pf))
		}
	}

	// ---- ECIES: R ‖ ct ----
	for _, gname := range []string{"ed25519", "ed25519vt-ext", "p256", "bn256-g1", "kilic-g1"} {
		g := groups.ByName(gname)
		if g == nil {
			continue
		}
		rng := c.Rng.Fork("ecies/" + gname)
		priv := g.Group.Scalar().Pick(rng)
		pub := g.Group.Point().Mul(priv, nil)
		var ct []byte
		if st := kc.Recover(func() string {
			var err error
			ct, err = ecies.Encrypt(&decSuite{Group: g.Group, rnd: rng.Fork("stream")}, pub, msg, nil)
			if err != nil {
				return "err"
			}
			return ""
		}); st != "" {
			c.CountKind("composite:ecies-unsupported:" + gname)
			continue
		}
		ins := decMutations(rng, ct, len(ct), reps)
		pl := g.Group.PointLen()
		for _, bad := range decInvalidPointEncodings(g, rng, 3) {
			ins = append(ins, decInput{"invalid-R", decCat(bad, ct[pl:])})
		}
		// another valid point in front of the same ciphertext
		other, _ := g.Group.Point().Mul(g.Group.Scalar().Pick(rng), nil).MarshalBinary()
		ins = append(ins, decInput{"other-R", decCat(other, ct[pl:])}, decInput{"only-R", ct[:pl]})
		decReportComposite(c, "ecies.Decrypt/"+gname, ins, ct, func(b []byte) error {
			_, err := ecies.Decrypt(g.Group, priv, b, nil)
			return err
		})
		var lines []string
		for _, in := range ins {
			lines = append(lines, fmt.Sprintf("parse prefix %x %s", pl, kc.HexB(in.b)))
		}
		for i, o := range c.ModelDedup(lines) {
			c.Program(1)
			if o == "err" {
				c.CountKind("ecies-model:reject-length")
				if got := decRunGuarded(func() error { _, err := ecies.Decrypt(g.Group, priv, ins[i].b, nil); return err }); got == "ok" {
					c.Violation("ecies.Decrypt/"+gname+":malformed-accepted", "opened although the framing model rejects", nil)
				}
			}
		}
	}

	// ---- anon.Decrypt ----
	for _, gname := range []string{"ed25519", "p256"} {
		g := groups.ByName(gname)
		if g == nil {
			continue
		}
		rng := c.Rng.Fork("anonenc/" + gname)
		suite := &decSuite{Group: g.Group, rnd: rng.Fork("stream")}
		n := 3
		set := make(anon.Set, n)
		privs := make([]kyber.Scalar, n)
		for i := range set {
			privs[i] = g.Group.Scalar().Pick(rng)
			set[i] = g.Group.Point().Mul(privs[i], nil)
		}
		var ct []byte
		if st := kc.Recover(func() string {
			var err error
			ct, err = anon.Encrypt(suite, msg, set)
			if err != nil {
				return "err"
			}
			return ""
		}); st != "" || ct == nil {
			c.Unshown("correspondence:anon-encrypt:"+gname, "anon.Encrypt failed", nil)
			continue
		}
		ins := decMutations(rng, ct, len(ct), reps)
		for _, bad := range decInvalidPointEncodings(g, rng, 3) {
			ins = append(ins, decInput{"invalid-ephemeral", decCat(bad, ct[g.Group.PointLen():])})
		}
		pl := g.Group.PointLen()
		slot := (len(ct) - pl - len(msg) - 16) / n // per-recipient key slot (header = point ‖ n slots; tail = body ‖ 16-byte MAC)
		decReportComposite(c, "anon.Decrypt/"+gname, ins, ct, func(b []byte) error {
			_, err := anon.Decrypt(suite, b, set, 1, privs[1])
			return err
		}, func(in decInput) bool {
			if in.fam != "bitflip" || len(in.b) != len(ct) || slot <= 0 {
				return false
			}
			// lenient iff every changed byte lies in the slot of another recipient
			for i := range ct {
				if in.b[i] != ct[i] {
					inMine := i >= pl+slot && i < pl+2*slot
					inOther := i >= pl && i < pl+n*slot && !inMine
					if !inOther {
						return false
					}
				}
			}
			return true
		})
	}

	c04Vss(c, reps)
}

// ---- VSS deals (protobuf) ----

// decVssFlavour abstracts the two VSS packages for the receive path.
type decVssFlavour struct {
	name      string
	plain     []byte                                    // marshalled deal for verifier 0
	unmarshal func(b []byte) (nilShare bool, err error) // Deal.Unmarshal; nilShare: a share without value was accepted
	process   func(plaintext []byte) (approved bool, err error)
	outer     func(field string, b []byte) (approved bool, err error) // malformed EncryptedDeal field
	outerVals map[string][]byte
}

func c04Vss(c *kc.Ctx, reps int) {
	g := groups.ByName("ed25519")
	if g == nil {
		return
	}
	rng := c.Rng.Fork("vss")
	suite := &decSuite{Group: g.Group, rnd: rng.Fork("stream")}
	n, t := 5, 3
	vpriv := make([]kyber.Scalar, n)
	vpub := make([]kyber.Point, n)
	for i := range vpriv {
		vpriv[i] = g.Group.Scalar().Pick(rng)
		vpub[i] = g.Group.Point().Mul(vpriv[i], nil)
	}
	dpriv := g.Group.Scalar().Pick(rng)
	dpub := g.Group.Point().Mul(dpriv, nil)
	secret := g.Group.Scalar().Pick(rng)
	var flavours []*decVssFlavour

	if dealer, err := vssp.NewDealer(suite, dpriv, secret, vpub, uint32(t)); err == nil {
		if plain, err := dealer.PlaintextDeal(0); err == nil {
			if pb, err := plain.Marshal(); err == nil {
				fl := &decVssFlavour{name: "pedersen", plain: pb, outerVals: map[string][]byte{}}
				fl.unmarshal = func(b []byte) (bool, error) {
					var d vssp.Deal
					if err := d.Unmarshal(b, suite); err != nil {
						return false, err
					}
					return d.SecShare == nil || d.SecShare.V == nil, nil
				}
				fl.process = func(pt []byte) (bool, error) {
					ver, err := vssp.NewVerifier(suite, vpriv[0], dpub, vpub)
					if err != nil {
						return false, err
					}
					enc, err := dealer.EncryptRawFor(0, pt)
					if err != nil {
						return false, err
					}
					r, err := ver.ProcessEncryptedDeal(enc)
					if err != nil {
						return false, err
					}
					return r.StatusApproved, nil
				}
				if enc, err := dealer.EncryptedDeal(0); err == nil {
					fl.outerVals = map[string][]byte{"DHKey": enc.DHKey, "Signature": enc.Signature, "Cipher": enc.Cipher}
					fl.outer = func(field string, b []byte) (bool, error) {
						ver, err := vssp.NewVerifier(suite, vpriv[0], dpub, vpub)
						if err != nil {
							return false, err
						}
						e2 := *enc
						switch field {
						case "DHKey":
							e2.DHKey = b
						case "Signature":
							e2.Signature = b
						default:
							e2.Cipher = b
						}
						r, err := ver.ProcessEncryptedDeal(&e2)
						if err != nil {
							return false, err
						}
						return r.StatusApproved, nil
					}
				}
				flavours = append(flavours, fl)
			}
		}
	}
	if dealer, err := vssr.NewDealer(suite, dpriv, secret, vpub, uint32(t)); err == nil {
		func() {
			defer func() { recover() }()
			encs, err := dealer.EncryptedDeals()
			if err != nil || len(encs) == 0 {
				return
			}
			deal, err := dealer.PlaintextDeal(0)
			if err != nil {
				return
			}
			pb, err := deal.Marshal()
			if err != nil {
				return
			}
			enc := encs[0]
			fl := &decVssFlavour{name: "rabin", plain: pb}
			fl.unmarshal = func(b []byte) (bool, error) {
				var d vssr.Deal
				if err := d.Unmarshal(b, suite); err != nil {
					return false, err
				}
				return d.SecShare == nil || d.SecShare.V == nil || d.RndShare == nil || d.RndShare.V == nil, nil
			}
			fl.process = func(pt []byte) (bool, error) {
				ver, err := vssr.NewVerifier(suite, vpriv[0], dpub, vpub)
				if err != nil {
					return false, err
				}
				e, err := dealer.EncryptRawFor(0, pt)
				if err != nil {
					return false, err
				}
				r, err := ver.ProcessEncryptedDeal(e)
				if err != nil {
					return false, err
				}
				return r.Approved, nil
			}
			fl.outerVals = map[string][]byte{"Signature": enc.Signature, "Cipher": enc.Cipher}
			fl.outer = func(field string, b []byte) (bool, error) {
				ver, err := vssr.NewVerifier(suite, vpriv[0], dpub, vpub)
				if err != nil {
					return false, err
				}
				e2 := *enc
				switch field {
				case "Signature":
					e2.Signature = b
				default:
					e2.Cipher = b
				}
				r, err := ver.ProcessEncryptedDeal(&e2)
				if err != nil {
					return false, err
				}
				return r.Approved, nil
			}
			flavours = append(flavours, fl)
		}()
	}
	if len(flavours) < 2 {
		c.Unshown("correspondence:vss-setup", fmt.Sprintf("only %d of the two VSS flavours could be set up", len(flavours)), nil)
	}

	for _, fl := range flavours {
		pb := fl.plain
		ins := decMutations(rng, pb, len(pb), reps)
		ins = append(ins, decVssCrafted(pb)...)
		entryU := "vss." + fl.name + ".Deal.Unmarshal"
		entryP := "vss." + fl.name + ".ProcessEncryptedDeal"
		for i, in := range ins {
			// (1) the public protobuf path: Deal.Unmarshal never panics
			c.Eval(2)
			c.CountKind("composite:" + entryU + ":" + in.fam)
			c.Nontrivial("comp|" + entryU + "|" + kc.HexB(in.b))
			nilShare := false
			gotU := decRunGuarded(func() error {
				ns, err := fl.unmarshal(in.b)
				nilShare = ns
				return err
			})
			rep := map[string]any{"entry": entryU, "family": in.fam, "bytes": kc.HexB(in.b), "impl": gotU}
			if gotU == "panic" || gotU == "timeout" {
				c.Violation(entryU+":"+gotU, entryU+" "+gotU+" on "+decTrunc(kc.HexB(in.b)), rep)
			}
			if gotU == "ok" && nilShare {
				c.CountKind("composite:" + entryU + ":accepted-share-without-value")
			}
			// (2) the whole receive path: a verifier fed a sealed malformed deal must not approve
			// and must not crash.
			c.CountKind("composite:" + entryP + ":" + in.fam)
			pristine := string(in.b) == string(pb)
			approved := false
			gotP := decRunGuarded(func() error {
				a, err := fl.process(in.b)
				approved = a
				return err
			})
			if gotP == "ok" && !approved {
				gotP = "complaint"
			}
			if i%(len(ins)/2+1) == 0 {
				c.Sample(map[string]string{"entry": entryP, "family": in.fam, "plaintext": decTrunc(kc.HexB(in.b)), "impl": gotP})
			}
			rep = map[string]any{"entry": entryP, "family": in.fam, "plaintext": kc.HexB(in.b), "impl": gotP, "unmarshal": gotU, "share_without_value": nilShare}
			switch {
			case gotP == "panic" || gotP == "timeout":
				class := in.fam
				if gotU == "ok" && nilShare {
					class = "absent-share-value"
				}
				c.Violation(entryP+":"+gotP+":"+class, entryP+" "+gotP+" on a sealed malformed deal ("+in.fam+"): "+decTrunc(kc.HexB(in.b)), rep)
			case gotP == "ok" && !pristine && gotU != "ok":
				c.Violation(entryP+":undecodable-approved", "a deal that Deal.Unmarshal rejects is approved: "+decTrunc(kc.HexB(in.b)), rep)
			case gotP == "ok" && !pristine:
				// a decodable deal with other field values (e.g. another SessionID): whether it may be
				// approved is the subject of C10, not of C04
				c.CountKind("composite:" + entryP + ":decodable-variant-approved")
			case gotP != "ok" && pristine:
				c.Unshown("correspondence:"+entryP+":pristine-rejected", "the dealer's own deal is not approved: "+gotP, rep)
			}
		}
		// (3) malformed outer messages: DHKey, Signature, Cipher of the EncryptedDeal
		if fl.outer != nil {
			for _, field := range []string{"DHKey", "Signature", "Cipher"} {
				val, ok := fl.outerVals[field]
				if !ok {
					continue
				}
				for _, in := range decMutations(rng, val, len(val), 1) {
					if string(in.b) == string(val) {
						continue
					}
					c.Eval(1)
					c.CountKind("composite:vss." + fl.name + ".EncryptedDeal." + field + ":" + in.fam)
					approved := false
					got := decRunGuarded(func() error {
						a, err := fl.outer(field, in.b)
						approved = a
						return err
					})
					rep := map[string]any{"entry": entryP, "field": field, "bytes": kc.HexB(in.b), "impl": got}
					if got == "panic" || got == "timeout" {
						c.Violation("vss."+fl.name+".EncryptedDeal."+field+":"+got, "ProcessEncryptedDeal "+got+" on malformed "+field, rep)
					} else if got == "ok" && approved {
						c.Violation("vss."+fl.name+".EncryptedDeal."+field+":malformed-approved", "malformed "+field+" approved", rep)
					}
				}
			}
		}
	}
}

type decPbField struct {
	num, wt int
	raw     []byte // whole field incl. key
	val     []byte // payload for length-delimited
}

func decPbParse(b []byte) (fs []decPbField, complete bool) {
	for i := 0; i < len(b); {
		st := i
		key, n := decUvarint(b[i:])
		if n <= 0 {
			return fs, false
		}
		i += n
		f := decPbField{num: int(key >> 3), wt: int(key & 7)}
		switch f.wt {
		case 0:
			_, m := decUvarint(b[i:])
			if m <= 0 {
				return fs, false
			}
			i += m
		case 2:
			l, m := decUvarint(b[i:])
			if m <= 0 || l > uint64(len(b)) || i+m+int(l) > len(b) {
				return fs, false
			}
			f.val = b[i+m : i+m+int(l)]
			i += m + int(l)
		default:
			return fs, false
		}
		f.raw = b[st:i]
		fs = append(fs, f)
	}
	return fs, true
}

func decPbLD(num int, val []byte) []byte {
	return decCat(decPutUvarint(uint64(num<<3|2)), decPutUvarint(uint64(len(val))), val)
}

// decVssCrafted: protobuf-level malformations of a marshalled deal: every top-level field dropped /
// emptied / duplicated; every field of every embedded message (the shares) dropped, emptied, shortened,
// lengthened; wrong wire types; length overflow; unknown fields.
func decVssCrafted(pb []byte) []decInput {
	var out []decInput
	fs, _ := decPbParse(pb)
	join := func(parts []decPbField, skip int, repl []byte) []byte {
		var b []byte
		for i, f := range parts {
			if i == skip {
				b = append(b, repl...)
				continue
			}
			b = append(b, f.raw...)
		}
		return b
	}
	for i, f := range fs {
		out = append(out, decInput{fmt.Sprintf("pb-drop-f%d", f.num), join(fs, i, nil)})
		out = append(out, decInput{fmt.Sprintf("pb-dup-f%d", f.num), join(fs, i, decCat(f.raw, f.raw))})
		if f.wt == 2 {
			out = append(out, decInput{fmt.Sprintf("pb-empty-f%d", f.num), join(fs, i, decPbLD(f.num, nil))})
			out = append(out, decInput{fmt.Sprintf("pb-short-f%d", f.num), join(fs, i, decPbLD(f.num, f.val[:len(f.val)/2]))})
			out = append(out, decInput{fmt.Sprintf("pb-long-f%d", f.num), join(fs, i, decPbLD(f.num, decCat(f.val, []byte{1})))})
			out = append(out, decInput{fmt.Sprintf("pb-ff-f%d", f.num), join(fs, i, decPbLD(f.num, decFill(len(f.val), 0xff)))})
			out = append(out, decInput{fmt.Sprintf("pb-as-varint-f%d", f.num), join(fs, i, decCat(decPutUvarint(uint64(f.num<<3)), decPutUvarint(7)))})
			if sub, ok := decPbParse(f.val); ok && len(sub) > 0 && len(f.val) < 60 {
				for j, sf := range sub {
					out = append(out, decInput{fmt.Sprintf("pb-f%d-drop-sub%d", f.num, sf.num), join(fs, i, decPbLD(f.num, join(sub, j, nil)))})
					if sf.wt == 2 {
						out = append(out, decInput{fmt.Sprintf("pb-f%d-empty-sub%d", f.num, sf.num), join(fs, i, decPbLD(f.num, join(sub, j, decPbLD(sf.num, nil))))})
						out = append(out, decInput{fmt.Sprintf("pb-f%d-short-sub%d", f.num, sf.num), join(fs, i, decPbLD(f.num, join(sub, j, decPbLD(sf.num, sf.val[:len(sf.val)-1]))))})
						out = append(out, decInput{fmt.Sprintf("pb-f%d-long-sub%d", f.num, sf.num), join(fs, i, decPbLD(f.num, join(sub, j, decPbLD(sf.num, decCat(sf.val, []byte{1})))))})
						out = append(out, decInput{fmt.Sprintf("pb-f%d-ff-sub%d", f.num, sf.num), join(fs, i, decPbLD(f.num, join(sub, j, decPbLD(sf.num, decFill(len(sf.val), 0xff)))))})
					} else {
						out = append(out, decInput{fmt.Sprintf("pb-f%d-negative-sub%d", f.num, sf.num), join(fs, i, decPbLD(f.num, join(sub, j, decCat(decPutUvarint(uint64(sf.num<<3)), decPutUvarint(1)))))})
						out = append(out, decInput{fmt.Sprintf("pb-f%d-huge-sub%d", f.num, sf.num), join(fs, i, decPbLD(f.num, join(sub, j, decCat(decPutUvarint(uint64(sf.num<<3)), decPutUvarint(1<<40)))))})
					}
				}
			}
		} else {
			out = append(out, decInput{fmt.Sprintf("pb-as-bytes-f%d", f.num), join(fs, i, decPbLD(f.num, []byte{1, 2, 3}))})
			out = append(out, decInput{fmt.Sprintf("pb-huge-f%d", f.num), join(fs, i, decCat(decPutUvarint(uint64(f.num<<3)), decPutUvarint(1<<63)))})
		}
		for _, wt := range []int{1, 3, 4, 5, 6, 7} {
			out = append(out, decInput{fmt.Sprintf("pb-wiretype%d-f%d", wt, f.num), join(fs, i, decCat(decPutUvarint(uint64(f.num<<3|wt)), decFill(8, 0xff)))})
		}
	}
	if len(pb) > 2 {
		out = append(out,
			decInput{"pb-length-overflow", decCat(pb[:1], decPutUvarint(1<<62), pb[2:])},
			decInput{"pb-unknown-field", decCat(pb, decPbLD(9, []byte{1, 2, 3}))},
			decInput{"pb-fixed64-prefix", decCat(decPutUvarint(3<<3|1), decFill(8, 0xff), pb)},
			decInput{"pb-fixed64-short", decCat(pb, decPutUvarint(3<<3|1), decFill(3, 0xff))},
			decInput{"pb-group-start", decCat(decPutUvarint(2<<3|3), pb)},
			decInput{"pb-key-overlong-varint", decCat(decFill(11, 0x80), pb)},
		)
	}
	return out
}

func decUvarint(b []byte) (uint64, int) {
	var x uint64
	var s uint
	for i, c := range b {
		if i == 10 {
			return 0, -1
		}
		if c < 0x80 {
			return x | uint64(c)<<s, i + 1
		}
		x |= uint64(c&0x7f) << s
		s += 7
	}
	return 0, 0
}

func decPutUvarint(v uint64) []byte {
	var b []byte
	for v >= 0x80 {
		b = append(b, byte(v)|0x80)
		v >>= 7
	}
	return append(b, byte(v))
}
