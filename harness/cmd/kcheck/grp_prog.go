package main

// Straight-line programs of group / scalar operations over a pool of variables, shared by C01
// (laws), C03 (encodings), C05 (value semantics / aliasing) and C18 (implementations agree).
// The same program text is executed by the Lean reference model (`grp <model> <program>`).

import (
	"bytes"
	"fmt"
	"math/big"
	"strings"
	"time"

	"go.dedis.ch/kyber/v4"

	"verifharness/internal/groups"
	"verifharness/internal/kc"
)

// boundaryProgs: programs whose intermediate scalar results sit exactly on the boundaries of the reduction:
// a sum or difference equal to the modulus, one below and one above it, zero reached by cancellation, and
// those results used as multipliers. Random scalars never produce these.
func boundaryProgs(rng *kc.Rng, q *big.Int, src func(i int) []byte, withBase bool) []prog {
	one := big.NewInt(1)
	sub := func(a, b *big.Int) *big.Int { return new(big.Int).Mod(new(big.Int).Sub(a, b), q) }
	half := new(big.Int).Rsh(q, 1)
	as := []*big.Int{one, big.NewInt(2), sub(q, one), half, new(big.Int).Add(half, one), rng.BigBelow(q), rng.BigBelow(q)}
	var out []prog
	for _, a := range as {
		for _, d := range []int64{0, 1, -1} {
			// b = q - a + d: a + b is q, q+1 or q-1 before reduction
			b := sub(sub(big.NewInt(0), a), big.NewInt(-d))
			var p prog
			add := func(dst, op string, args ...string) { p.stmts = append(p.stmts, stmt{dst: dst, op: op, args: args}) }
			p.stmts = append(p.stmts, stmt{dst: "s0", op: "const", lit: kc.HexN(a)}, stmt{dst: "s1", op: "const", lit: kc.HexN(b)})
			if withBase {
				add("p0", "base")
			} else if src != nil {
				p.stmts = append(p.stmts, stmt{dst: "p0", op: "dec", lit: kc.HexB(src(0))})
			} else {
				continue
			}
			add("s2", "add", "s0", "s1")
			add("p1", "mul", "s2", "p0")
			add("s3", "neg", "s0")
			add("s4", "add", "s0", "s3")
			add("p2", "mul", "s4", "p0")
			add("s5", "sub", "s0", "s0")
			add("s6", "sub", "s5", "s1")
			add("s7", "add", "s6", "s1")
			add("p3", "mul", "s7", "p0")
			add("s8", "mul", "s2", "s0")
			add("s9", "add", "s1", "s0")
			add("s9", "add", "s9", "s4")
			add("p4", "mul", "s9", "p0")
			add("p5", "add", "p1", "p4")
			out = append(out, p)
		}
	}
	return out
}

// inplaceProgs: a point variable is updated IN PLACE by each operation in turn (negation, doubling, addition and
// subtraction with itself as either operand, scalar multiplication, Set) and then used in every operand position of
// the other operations before it is encoded: cached or redundant coordinates that an in-place update forgets to
// refresh change a later result, not the value just written.
func inplaceProgs(rng *kc.Rng, q *big.Int, src func(i int) []byte, withBase bool) []prog {
	var out []prog
	ups := [][]stmt{
		{{dst: "p1", op: "neg", args: []string{"p1"}}},
		{{dst: "p1", op: "add", args: []string{"p1", "p1"}}},
		{{dst: "p1", op: "add", args: []string{"p1", "p0"}}},
		{{dst: "p1", op: "add", args: []string{"p0", "p1"}}},
		{{dst: "p1", op: "sub", args: []string{"p1", "p0"}}},
		{{dst: "p1", op: "sub", args: []string{"p0", "p1"}}},
		{{dst: "p1", op: "mul", args: []string{"s1", "p1"}}},
		{{dst: "p1", op: "set", args: []string{"p0"}}, {dst: "p1", op: "neg", args: []string{"p1"}}},
		{{dst: "p1", op: "neg", args: []string{"p1"}}, {dst: "p1", op: "neg", args: []string{"p1"}}},
	}
	for _, up := range ups {
		var p prog
		p.stmts = append(p.stmts, stmt{dst: "s0", op: "const", lit: kc.HexN(rng.BigBelow(q))}, stmt{dst: "s1", op: "const", lit: kc.HexN(rng.BigBelow(q))})
		if withBase {
			p.stmts = append(p.stmts, stmt{dst: "p0", op: "base"}, stmt{dst: "p1", op: "mulbase", args: []string{"s0"}})
		} else if src != nil {
			p.stmts = append(p.stmts, stmt{dst: "p0", op: "dec", lit: kc.HexB(src(0))}, stmt{dst: "p1", op: "dec", lit: kc.HexB(src(1))})
		} else {
			return nil
		}
		p.stmts = append(p.stmts, up...)
		p.stmts = append(p.stmts,
			stmt{dst: "p2", op: "add", args: []string{"p1", "p0"}},
			stmt{dst: "p3", op: "add", args: []string{"p0", "p1"}},
			stmt{dst: "p4", op: "sub", args: []string{"p0", "p1"}},
			stmt{dst: "p5", op: "mul", args: []string{"s1", "p1"}},
			stmt{dst: "p6", op: "add", args: []string{"p1", "p1"}},
			stmt{dst: "p7", op: "neg", args: []string{"p1"}},
			stmt{dst: "p8", op: "sub", args: []string{"p1", "p0"}})
		out = append(out, p)
	}
	return out
}

type stmt struct {
	dst  string   // pN or sN
	op   string   // base null add sub neg mul mulbase set dec | const add sub mul div neg inv set
	args []string // variable names
	lit  string   // hex literal for dec / const
}

func (s stmt) String() string {
	r := s.dst + "=" + s.op
	switch {
	case s.lit != "":
		r += ":" + s.lit
	case len(s.args) > 0:
		r += ":" + strings.Join(s.args, ",")
	}
	return r
}

type prog struct {
	stmts []stmt
}

func (p prog) String() string {
	ss := make([]string, len(p.stmts))
	for i, s := range p.stmts {
		ss[i] = s.String()
	}
	return strings.Join(ss, ";")
}

// capabilities of a group instance, probed once under recover
type caps struct {
	base   bool // Point().Base() and Mul(s, nil)
	pick   bool
	gen    func() kyber.Point // a generator: Base() or e(B1,B2)
	le     bool               // scalar byte order
	scSize int
}

var capCache = map[string]*caps{}

// hungProbes lists capability probes (Base, Pick on a seeded stream) that did not return.
var hungProbes []string

// reportHungProbes turns hung probes into violations (a hang of Pick/Base on a seeded stream is never allowed).
func reportHungProbes(c *kc.Ctx) {
	for _, h := range hungProbes {
		c.Violation("hang:"+h, "operation did not return within 30s on a seeded (non-constant) stream: "+h, map[string]string{"probe": h})
	}
}

func groupCaps(g *groups.G) *caps {
	if c, ok := capCache[g.Name]; ok {
		return c
	}
	c := &caps{}
	probe := func(what string, f func()) bool {
		ch := make(chan string, 1)
		go func() { ch <- kc.Recover(func() string { f(); return "ok" }) }()
		select {
		case r := <-ch:
			return r == "ok"
		case <-time.After(30 * time.Second):
			// a hang in a basic operation on fixed inputs: recorded, reported by every check using the group
			hungProbes = append(hungProbes, g.Name+":"+what)
			return false
		}
	}
	c.base = probe("Base/Mul(1,nil)", func() { g.Group.Point().Base(); g.Group.Point().Mul(g.Group.Scalar().One(), nil) })
	c.pick = probe("Pick", func() { g.Group.Point().Pick(kc.NewRng(1)) })
	c.le = g.Group.Scalar().ByteOrder() == kyber.LittleEndian
	c.scSize = g.Group.Scalar().MarshalSize()
	if c.base {
		c.gen = func() kyber.Point { return g.Group.Point().Base() }
	} else if g.Kind == "gt" {
		for _, p := range groups.Pairings() {
			if p.GT == g {
				p := p
				c.gen = func() kyber.Point {
					return p.Suite.Pair(p.G1.Group.Point().Base(), p.G2.Group.Point().Base())
				}
			}
		}
	}
	capCache[g.Name] = c
	return c
}

func encScalar(g *groups.G, v *big.Int) []byte {
	c := groupCaps(g)
	b := v.FillBytes(make([]byte, c.scSize))
	if c.le {
		for i, j := 0, len(b)-1; i < j; i, j = i+1, j-1 {
			b[i], b[j] = b[j], b[i]
		}
	}
	return b
}

func scalarVal(g *groups.G, s kyber.Scalar) string {
	b, err := s.MarshalBinary()
	if err != nil {
		return "err"
	}
	if groupCaps(g).le {
		return kc.HexN(kc.LeN(b))
	}
	return kc.HexN(kc.BeN(b))
}

func pointVal(p kyber.Point) string {
	b, err := p.MarshalBinary()
	if err != nil {
		return "err"
	}
	return kc.HexB(b)
}

// genProg builds a random program of n statements. `src` yields encodings of valid points of the
// family (from Pick/Embed/Hash on the reference implementation) for `dec` statements; may be nil.
func genProg(rng *kc.Rng, q *big.Int, n int, src func(i int) []byte, withBase bool, scalarOps bool) prog {
	return genProgX(rng, q, n, src, withBase, scalarOps, false)
}

func genProgX(rng *kc.Rng, q *big.Int, n int, src func(i int) []byte, withBase bool, scalarOps bool, withClone bool) prog {
	var p prog
	np, ns := 0, 0
	maxP, maxS := 6, 4
	pv := func() string { return fmt.Sprintf("p%d", rng.Intn(np)) }
	sv := func() string { return fmt.Sprintf("s%d", rng.Intn(ns)) }
	newP := func() string {
		if np < maxP && (np < 2 || rng.Intn(3) == 0) {
			np++
			return fmt.Sprintf("p%d", np-1)
		}
		return pv()
	}
	newS := func() string {
		if ns < maxS && (ns < 2 || rng.Intn(3) == 0) {
			ns++
			return fmt.Sprintf("s%d", ns-1)
		}
		return sv()
	}
	// seed: two scalars, a generator-based point and a second point
	p.stmts = append(p.stmts, stmt{dst: newS(), op: "const", lit: kc.HexN(rng.BigBelow(q))})
	p.stmts = append(p.stmts, stmt{dst: newS(), op: "const", lit: kc.HexN(rng.BigBelow(q))})
	if withBase {
		p.stmts = append(p.stmts, stmt{dst: newP(), op: "base"})
		p.stmts = append(p.stmts, stmt{dst: newP(), op: "mulbase", args: []string{"s0"}})
	} else if src != nil {
		p.stmts = append(p.stmts, stmt{dst: newP(), op: "dec", lit: kc.HexB(src(0))})
		p.stmts = append(p.stmts, stmt{dst: newP(), op: "dec", lit: kc.HexB(src(1))})
	}
	for len(p.stmts) < n {
		if withClone && np >= 2 && rng.Intn(5) == 0 {
			// derive X from Y (neg/set/clone/add), then overwrite X in place: Y must not change
			y := pv()
			x := pv()
			for x == y {
				x = fmt.Sprintf("p%d", rng.Intn(np))
				if np < 2 {
					break
				}
			}
			switch rng.Intn(4) {
			case 0:
				p.stmts = append(p.stmts, stmt{dst: x, op: "neg", args: []string{y}})
			case 1:
				p.stmts = append(p.stmts, stmt{dst: x, op: "set", args: []string{y}})
			case 2:
				p.stmts = append(p.stmts, stmt{dst: x, op: "clone", args: []string{y}})
			default:
				p.stmts = append(p.stmts, stmt{dst: x, op: "sub", args: []string{y, y}})
			}
			switch rng.Intn(5) {
			case 0:
				p.stmts = append(p.stmts, stmt{dst: x, op: "set", args: []string{pv()}})
			case 1:
				p.stmts = append(p.stmts, stmt{dst: x, op: "null"})
			case 2:
				if withBase {
					p.stmts = append(p.stmts, stmt{dst: x, op: "base"})
				}
			case 3:
				if src != nil {
					p.stmts = append(p.stmts, stmt{dst: x, op: "dec", lit: kc.HexB(src(2 + rng.Intn(6)))})
				}
			default:
				p.stmts = append(p.stmts, stmt{dst: x, op: "neg", args: []string{x}})
			}
			continue
		}
		switch k := rng.Intn(20); {
		case k < 4:
			a, b := pv(), pv()
			p.stmts = append(p.stmts, stmt{dst: newP(), op: "add", args: []string{a, b}})
		case k < 6:
			a, b := pv(), pv()
			p.stmts = append(p.stmts, stmt{dst: newP(), op: "sub", args: []string{a, b}})
		case k < 8:
			a := pv()
			p.stmts = append(p.stmts, stmt{dst: newP(), op: "neg", args: []string{a}})
		case k < 12:
			s, a := sv(), pv()
			p.stmts = append(p.stmts, stmt{dst: newP(), op: "mul", args: []string{s, a}})
		case k < 13:
			if withBase {
				p.stmts = append(p.stmts, stmt{dst: newP(), op: "mulbase", args: []string{sv()}})
			}
		case k < 14:
			if rng.Bool() && withBase {
				p.stmts = append(p.stmts, stmt{dst: newP(), op: "base"})
			} else {
				p.stmts = append(p.stmts, stmt{dst: newP(), op: "null"})
			}
		case k < 15:
			a := pv()
			op := "set"
			if withClone && rng.Bool() {
				op = "clone"
			}
			p.stmts = append(p.stmts, stmt{dst: newP(), op: op, args: []string{a}})
		case k < 16:
			if src != nil {
				p.stmts = append(p.stmts, stmt{dst: newP(), op: "dec", lit: kc.HexB(src(2 + rng.Intn(6)))})
			}
		case k < 17:
			if rng.Intn(3) == 0 {
				// SetBytes of an arbitrary-length string (odd lengths, longer than the scalar, empty)
				p.stmts = append(p.stmts, stmt{dst: newS(), op: "setbytes", lit: kc.HexB(rng.Bytes(rng.Intn(70)))})
			} else {
				p.stmts = append(p.stmts, stmt{dst: newS(), op: "const", lit: kc.HexN(rng.BigBelow(q))})
			}
		default:
			if !scalarOps {
				continue
			}
			ops := []string{"add", "sub", "mul", "neg", "set", "inv", "div"}
			op := ops[rng.Intn(len(ops))]
			switch op {
			case "neg", "set":
				a := sv()
				p.stmts = append(p.stmts, stmt{dst: newS(), op: op, args: []string{a}})
			case "inv", "div":
				// divisor: a fresh non-zero constant, so the property's "non-zero divisors" guard holds
				d := rng.BigBelow(q)
				if d.Sign() == 0 {
					d = big.NewInt(1)
				}
				dv := newS()
				p.stmts = append(p.stmts, stmt{dst: dv, op: "const", lit: kc.HexN(d)})
				if op == "inv" {
					p.stmts = append(p.stmts, stmt{dst: newS(), op: "inv", args: []string{dv}})
				} else {
					a := sv()
					p.stmts = append(p.stmts, stmt{dst: newS(), op: "div", args: []string{a, dv}})
				}
			default:
				a, b := sv(), sv()
				p.stmts = append(p.stmts, stmt{dst: newS(), op: op, args: []string{a, b}})
			}
		}
	}
	return p
}

type progState struct {
	pts map[string]kyber.Point
	scs map[string]kyber.Scalar
	// useReceiver: a variable's value is the receiver object after the call (C05) rather than the
	// value the call returned (C01/C03/C18, so that a receiver-not-set defect is attributed to C05 only)
	useReceiver bool
	retMismatch []string
}

func idx(name string) int {
	var i int
	fmt.Sscanf(name[1:], "%d", &i)
	return i
}

// snapshot renders all variables in the canonical `P:… S:…` form of the model's output.
func (st *progState) snapshot(g *groups.G) string {
	np, ns := 0, 0
	for k := range st.pts {
		if idx(k)+1 > np {
			np = idx(k) + 1
		}
	}
	for k := range st.scs {
		if idx(k)+1 > ns {
			ns = idx(k) + 1
		}
	}
	ps := make([]string, np)
	for i := range ps {
		if v, ok := st.pts[fmt.Sprintf("p%d", i)]; ok {
			ps[i] = pointVal(v)
		} else {
			ps[i] = "_"
		}
	}
	ss := make([]string, ns)
	for i := range ss {
		if v, ok := st.scs[fmt.Sprintf("s%d", i)]; ok {
			ss[i] = scalarVal(g, v)
		} else {
			ss[i] = "_"
		}
	}
	return "P:" + strings.Join(ps, ",") + " S:" + strings.Join(ss, ",")
}

// exec runs one statement on real objects. aliased=true: the destination object is reused as
// receiver even when it is also an operand (the API's in-place style). aliased=false: operands are
// cloned, the result goes into a brand-new object which then replaces the variable.
func (st *progState) exec(g *groups.G, s stmt, aliased bool) {
	G := g.Group
	if s.dst[0] == 'p' {
		P := func(n string) kyber.Point {
			v, ok := st.pts[n]
			if !ok {
				panic("unset " + n)
			}
			if aliased {
				return v
			}
			return v.Clone()
		}
		S := func(n string) kyber.Scalar {
			if aliased {
				return st.scs[n]
			}
			return st.scs[n].Clone()
		}
		var r, ret kyber.Point
		if old, ok := st.pts[s.dst]; ok && aliased {
			r = old
		} else {
			r = G.Point()
		}
		switch s.op {
		case "base":
			ret = r.Base()
		case "null":
			ret = r.Null()
		case "add":
			ret = r.Add(P(s.args[0]), P(s.args[1]))
		case "sub":
			ret = r.Sub(P(s.args[0]), P(s.args[1]))
		case "neg":
			ret = r.Neg(P(s.args[0]))
		case "mul":
			ret = r.Mul(S(s.args[0]), P(s.args[1]))
		case "mulbase":
			ret = r.Mul(S(s.args[0]), nil)
		case "set":
			ret = r.Set(P(s.args[0]))
		case "clone":
			// a clone is a new object whatever the mode; the variable is rebound to it
			r = st.pts[s.args[0]].Clone()
			ret = r
		case "pick":
			ret = r.Pick(kc.NewRng(uint64(len(s.lit))*7919 + uint64(s.lit[0])).Fork(s.lit))
		case "dec":
			b := mustHex(s.lit)
			if err := r.UnmarshalBinary(b); err != nil {
				panic("decode: " + err.Error())
			}
			ret = r
		default:
			panic("op " + s.op)
		}
		if st.useReceiver {
			// C05: the receiver itself must hold the result; remember what was returned for comparison
			st.pts[s.dst] = r
			if pointVal(r) != pointVal(ret) {
				st.retMismatch = append(st.retMismatch, s.String())
			}
		} else {
			st.pts[s.dst] = ret
		}
		return
	}
	S := func(n string) kyber.Scalar {
		v, ok := st.scs[n]
		if !ok {
			panic("unset " + n)
		}
		if aliased {
			return v
		}
		return v.Clone()
	}
	var r, sret kyber.Scalar
	if old, ok := st.scs[s.dst]; ok && aliased {
		r = old
	} else {
		r = G.Scalar()
	}
	switch s.op {
	case "const":
		v, _ := new(big.Int).SetString(s.lit, 16)
		sret = r.SetBytes(encScalar(g, v.Mod(v, g.Q)))
	case "setbytes":
		// the literal is a little-endian string of any length; implementations whose declared byte
		// order is big-endian receive it reversed, so that every instance is given the same integer
		b := mustHex(s.lit)
		if !groupCaps(g).le {
			rb := make([]byte, len(b))
			for i := range b {
				rb[len(b)-1-i] = b[i]
			}
			b = rb
		}
		sret = r.SetBytes(b)
	case "add":
		sret = r.Add(S(s.args[0]), S(s.args[1]))
	case "sub":
		sret = r.Sub(S(s.args[0]), S(s.args[1]))
	case "mul":
		sret = r.Mul(S(s.args[0]), S(s.args[1]))
	case "div":
		sret = r.Div(S(s.args[0]), S(s.args[1]))
	case "neg":
		sret = r.Neg(S(s.args[0]))
	case "inv":
		sret = r.Inv(S(s.args[0]))
	case "set":
		sret = r.Set(S(s.args[0]))
	default:
		panic("op " + s.op)
	}
	if st.useReceiver {
		st.scs[s.dst] = r
		if scalarVal(g, r) != scalarVal(g, sret) {
			st.retMismatch = append(st.retMismatch, s.String())
		}
	} else {
		st.scs[s.dst] = sret
	}
}

func mustHex(s string) []byte {
	if s == "-" {
		return nil
	}
	b := make([]byte, len(s)/2)
	fmt.Sscanf(s, "%x", &b)
	return b
}

// runProg executes the program; returns the final snapshot and, if perStep, the snapshot after
// every statement. A panic is returned as "panic:<msg>" at the step where it happened.
func runProg(g *groups.G, p prog, aliased, perStep bool) (final string, steps []string) {
	st := &progState{pts: map[string]kyber.Point{}, scs: map[string]kyber.Scalar{}}
	for i, s := range p.stmts {
		res := kc.Recover(func() string { st.exec(g, s, aliased); return "" })
		if res == "panic" {
			return fmt.Sprintf("panic@%d:%s", i, s.String()), steps
		}
		if perStep {
			steps = append(steps, st.snapshot(g))
		}
	}
	return st.snapshot(g), steps
}

// pointSource returns encodings of valid points of a family obtained through Pick / Embed / Hash on
// the instance g (deterministic in the rng).
func pointSource(g *groups.G, rng *kc.Rng) func(i int) []byte {
	cache := map[int][]byte{}
	c := groupCaps(g)
	return func(i int) []byte {
		if b, ok := cache[i]; ok {
			return b
		}
		r := rng.Fork(fmt.Sprint("src", i))
		var pt kyber.Point
		ok := kc.Recover(func() string {
			switch {
			case i == 7:
				pt = g.Group.Point().Null() // the identity's encoding is a legitimate input too
			case g.CanHash && i%3 == 1:
				pt = g.Group.Point().(kyber.HashablePoint).Hash(r.Bytes(1 + r.Intn(40)))
			case g.CanEmbed && i%3 == 2:
				d := r.Bytes(r.Intn(g.Group.Point().EmbedLen() + 1))
				pt = g.Group.Point().Embed(d, r)
			case c.pick:
				pt = g.Group.Point().Pick(r)
			default:
				k := g.Group.Scalar().SetBytes(encScalar(g, r.BigBelow(g.Q)))
				pt = g.Group.Point().Mul(k, c.gen())
			}
			return "ok"
		})
		if ok != "ok" || pt == nil {
			k := g.Group.Scalar().SetBytes(encScalar(g, r.BigBelow(g.Q)))
			pt = g.Group.Point().Mul(k, c.gen())
		}
		b, _ := pt.MarshalBinary()
		cache[i] = b
		return b
	}
}

// families groups instances by reference model; instances without a model form singleton families.
type family struct {
	model string
	q     *big.Int
	insts []*groups.G
}

func families() []*family {
	var out []*family
	by := map[string]*family{}
	for _, g := range groups.All() {
		key := g.Grp
		if key == "" {
			key = "~" + g.Name
		}
		f, ok := by[key]
		if !ok {
			f = &family{model: g.Grp, q: g.Q}
			by[key] = f
			out = append(out, f)
		}
		f.insts = append(f.insts, g)
	}
	return out
}

// modelStride: the G2 reference models (affine arithmetic over Fp2 on naturals, an inversion per addition)
// are two orders of magnitude slower than the implementations; in the thorough tier only every k-th program
// of such a family is also sent to the model (every program is still compared between the execution modes
// and, in C18, between the implementations).
func modelStride(c *kc.Ctx, f *family) int {
	if c.Thorough() && strings.Contains(f.model, "g2") {
		return 5
	}
	return 1
}

func bytesEq(a, b []byte) bool { return bytes.Equal(a, b) }

type kyberPoint = kyber.Point
type kyberScalar = kyber.Scalar

func newBig(hexs string) (*big.Int, bool) {
	if hexs == "" {
		return big.NewInt(0), false
	}
	return new(big.Int).SetString(hexs, 16)
}
