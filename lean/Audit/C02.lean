import KyberModel.Audit
import KyberModel.Props.C02
#audit_module KyberModel.Props.C02
