#!/usr/bin/env python3-vt
"""Builds scripts/pratt_cache.json: for every prime in the Pratt trees of the target primes, the
factorisation of p-1 and a primitive root. Slow factorisations run in parallel; hints hold the
factorisations found offline during the design round."""
import json, os, sys
from concurrent.futures import ProcessPoolExecutor
from sympy import factorint, isprime

HERE = os.path.dirname(os.path.abspath(__file__))
CACHE = os.path.join(HERE, "pratt_cache.json")
TARGETS = [2**255 - 19,
 7237005577332262213973186563042994240857116359379907606001950938285454250989,
 0xffffffff00000001000000000000000000000000ffffffffffffffffffffffff,
 0xffffffff00000000ffffffffffffffffbce6faada7179e84f3b9cac2fc632551,
 65000549695646603732796438742359905742825358107623003571877145026864184071783,
 65000549695646603732796438742359905742570406053903786389881062969044166799969,
 21888242871839275222246405745257275088696311157297823662689037894645226208583,
 21888242871839275222246405745257275088548364400416034343698204186575808495617,
 0x1a0111ea397fe69a4b1ba7b6434bacd764774b84f38512bf6730d2a0f6b0f6241eabfffeb153ffffb9feffffffffaaab,
 0x73eda753299d7d483339d80809a1d80553bda402fffe5bfeffffffff00000001]
HINTS = {
 TARGETS[1]: [2, 2, 3, 11, 198211423230930754013084525763697, 276602624281642239937218680557139826668747],
 TARGETS[8]: [2, 3, 3, 11, 23, 47, 10177, 859267, 52437899, 2584487767265781317813,
              15778400344354997994418419698270088123916926905054652752758194827714659],
}
SMALL = 10**6

def work(n):
    if n in HINTS:
        fl = HINTS[n]
        prod = 1
        for q in fl:
            assert isprime(q); prod *= q
        assert prod == n - 1
    else:
        f = factorint(n - 1)
        fl = []
        for q, e in sorted(f.items()):
            fl += [q] * e
    a = 2
    while not (pow(a, n - 1, n) == 1 and all(pow(a, (n - 1) // q, n) != 1 for q in set(fl))):
        a += 1
    return n, fl, a

def main():
    cache = json.load(open(CACHE)) if os.path.exists(CACHE) else {}
    todo = [n for n in TARGETS if str(n) not in cache]
    with ProcessPoolExecutor(14) as ex:
        while todo:
            nxt = []
            for n, fl, a in ex.map(work, todo):
                cache[str(n)] = {"factors": fl, "root": a}
                json.dump(cache, open(CACHE, "w"), indent=0)
                print("done", n.bit_length(), "bits", flush=True)
                for q in set(fl):
                    if q >= SMALL and str(q) not in cache and q not in nxt:
                        nxt.append(q)
            todo = nxt
    # make sure the closure is complete
    json.dump(cache, open(CACHE, "w"), indent=0)
    print("entries", len(cache))

if __name__ == "__main__":
    main()
