import KyberModel.Drive.Sc
/-
`kdriver`: one operation per line on stdin, one result per line on stdout.
Core-only (no Mathlib) so that it links as a native executable.
-/
open Kyber.Drive

def dispatch (line : String) : String :=
  match (line.trimAscii.toString.splitOn " ").filter (· ≠ "") with
  | "sc" :: args => handleSc args
  | _ => badOp

partial def loop (hin hout : IO.FS.Stream) : IO Unit := do
  let line ← hin.getLine
  if line.isEmpty then return ()
  hout.putStrLn (dispatch line)
  loop hin hout

def main : IO Unit := do
  let hin ← IO.getStdin
  let hout ← IO.getStdout
  loop hin hout
  hout.flush
