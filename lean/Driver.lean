import KyberModel.Drive.Sc
import KyberModel.Drive.Grp
import KyberModel.Drive.Share
import KyberModel.Drive.Pvss
import KyberModel.Drive.Dss
import KyberModel.Drive.Decode
import KyberModel.Drive.Embed
import KyberModel.Drive.Bls
import KyberModel.Drive.Pairing
import KyberModel.Drive.Xof
import KyberModel.Drive.Enc
import KyberModel.Drive.Vss
import KyberModel.Drive.RabinDkg
import KyberModel.Drive.Sigma
import KyberModel.Drive.Shuffle
import KyberModel.Drive.Sha
import KyberModel.Drive.Sig
import KyberModel.Drive.Dkg
/-
`kdriver`: one operation per line on stdin, one result per line on stdout.
Core-only (no Mathlib) so that it links as a native executable.
-/
open Kyber.Drive

def dispatch (line : String) : String :=
  match (line.trimAscii.toString.splitOn " ").filter (· ≠ "") with
  | "sc" :: args => handleSc args
  | "grp" :: args => handleGrp args
  | "share" :: args => handleShare args
  | "pvss" :: args => handlePvss args
  | "dss" :: args => handleDss args
  | "dec" :: args => handleDec args
  | "decsc" :: args => handleDecSc args
  | "parse" :: args => handleParse args
  | "embed" :: args => handleEmbed args
  | "pick" :: args => handlePick args
  | "data" :: args => handleData args
  | "mem" :: args => handleMem args
  | "h2c" :: args => handleH2c args
  | "effects" :: args => handleEffects args
  | "c09" :: args => handleC09 args
  | "c06" :: args => handleC06 args
  | "xof" :: args => handleXof args
  | "rnd" :: args => handleRnd args
  | "enc" :: args => handleEnc args
  | "vss" :: args => handleVss args
  | "rdkg" :: args => handleRdkg args
  | "dkg" :: args => handleDkg args
  | "sigma" :: args => handleSigma args
  | "shuffle" :: args => handleShuffle args
  | "sha" :: args => handleSha args
  | "sig" :: args => handleSig args
  | _ => badOp

partial def loop (hin hout : IO.FS.Stream) : IO Unit := do
  let line ← hin.getLine
  if line.isEmpty then return ()
  hout.putStrLn (dispatch line)
  loop hin hout

def main : IO Unit := do
  let hin ← IO.getStdin
  let hout ← IO.getStdout
  loop hin hout
  hout.flush
