import KyberModel.Core.Hex
import KyberModel.Core.Bytes
import KyberModel.Core.Arith
