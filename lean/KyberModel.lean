import KyberModel.Core.Hex
import KyberModel.Core.Bytes
import KyberModel.Core.Arith
import KyberModel.Groups.Scalar
import KyberModel.Groups.Edwards
import KyberModel.Groups.Weierstrass
