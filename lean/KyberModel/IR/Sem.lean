/-
Location-based straight-line IR for field-arithmetic formulas extracted from the Go source
(harness/cmd/extract → Generated/Formulas.lean), with its interpreter. Core-only.

A location is (base, field): base = receiver / parameter / local / constant, field = struct field.
Because locations (not SSA values) are kept, the same program serves functional correctness (C01),
aliasing safety when two bases are identified (C05) and write-sets (C20).
-/
namespace Kyber.IR

structure Loc where
  base : Nat
  fld : Nat
deriving DecidableEq, Repr

inductive Op
  | add | sub | mul | sq | sq2 | neg | copy | zero | one
  | sp1   -- level-specific unary map: multiplication by ξ (gfP2.MulXi) / by τ (gfP6.MulTau)
  | sp2   -- level-specific unary map: conjugation
deriving DecidableEq, Repr

structure Instr where
  op : Op
  dst : Loc
  a : Loc
  b : Loc
deriving Repr

/-- The field operations an interpretation provides. -/
structure Ops (α : Type) where
  add : α → α → α
  sub : α → α → α
  mul : α → α → α
  neg : α → α
  zero : α
  one : α
  sp1 : α → α := id
  sp2 : α → α := id

def evalOp {α : Type} (o : Ops α) : Op → α → α → α
  | .add, x, y => o.add x y
  | .sub, x, y => o.sub x y
  | .mul, x, y => o.mul x y
  | .sq, x, _ => o.mul x x
  | .sq2, x, _ => o.add (o.mul x x) (o.mul x x)
  | .neg, x, _ => o.neg x
  | .copy, x, _ => x
  | .zero, _, _ => o.zero
  | .one, _, _ => o.one
  | .sp1, x, _ => o.sp1 x
  | .sp2, x, _ => o.sp2 x

/-- One instruction: read both operands from the current store, then write the destination. -/
def step {α : Type} (o : Ops α) (s : Loc → α) (i : Instr) : Loc → α :=
  fun l => if l = i.dst then evalOp o i.op (s i.a) (s i.b) else s l

def run {α : Type} (o : Ops α) (p : List Instr) (s : Loc → α) : Loc → α := p.foldl (step o) s

/-- Locations written by a program. -/
def writes (p : List Instr) : List Loc := p.map (·.dst)

/-- Substitution of bases (aliasing patterns: identify parameter bases). -/
def substLoc (σ : Nat → Nat) (l : Loc) : Loc := ⟨σ l.base, l.fld⟩
def substInstr (σ : Nat → Nat) (i : Instr) : Instr := ⟨i.op, substLoc σ i.dst, substLoc σ i.a, substLoc σ i.b⟩
def substProg (σ : Nat → Nat) (p : List Instr) : List Instr := p.map (substInstr σ)

/-- Arithmetic on naturals modulo `p` (the driver's interpretation). -/
def natOps (p : Nat) : Ops Nat :=
  { add := fun x y => (x + y) % p
    sub := fun x y => (x % p + (p - y % p)) % p
    mul := fun x y => (x * y) % p
    neg := fun x => (p - x % p) % p
    zero := 0
    one := 1 % p }

end Kyber.IR
