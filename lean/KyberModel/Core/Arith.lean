/-
Core-only modular arithmetic on `Nat`: binary exponentiation with structural fuel, Fermat inverse.
-/
namespace Kyber

/-- Binary modular exponentiation; `fuel` bounds the number of bits of `e` processed. -/
def powModAux (m : Nat) : Nat → Nat → Nat → Nat → Nat
  | 0, _, _, acc => acc
  | fuel + 1, a, e, acc =>
      if e = 0 then acc
      else powModAux m fuel (a * a % m) (e / 2) (if e % 2 = 1 then acc * a % m else acc)

/-- `a ^ e mod m`. -/
def powMod (a e m : Nat) : Nat := powModAux m (e.log2 + 1) (a % m) e (1 % m)

/-- Inverse modulo a prime `q` by Fermat's little theorem (0 ↦ 0). -/
def invMod (a q : Nat) : Nat := powMod a (q - 2) q

def subMod (a b q : Nat) : Nat := (a % q + (q - b % q)) % q

def negMod (a q : Nat) : Nat := (q - a % q) % q

end Kyber
