import KyberModel.Core.Bytes
/-
SHA-512 (FIPS 180-4) in core Lean, `Bytes → Bytes`. Executed by the driver (EdDSA is modelled byte for
byte on top of it) and validated against Go's `crypto/sha512` by the C08 correspondence run on every
length 0..300 and all block-boundary lengths. Round constants are the first 64 fractional bits of the
cube roots of the first 80 primes (typed in; a wrong constant changes every digest, so the
correspondence run compares them with Go's table through the outputs).
-/
namespace Kyber.Sha512

def K : Array UInt64 := #[
  0x428a2f98d728ae22, 0x7137449123ef65cd, 0xb5c0fbcfec4d3b2f, 0xe9b5dba58189dbbc,
  0x3956c25bf348b538, 0x59f111f1b605d019, 0x923f82a4af194f9b, 0xab1c5ed5da6d8118,
  0xd807aa98a3030242, 0x12835b0145706fbe, 0x243185be4ee4b28c, 0x550c7dc3d5ffb4e2,
  0x72be5d74f27b896f, 0x80deb1fe3b1696b1, 0x9bdc06a725c71235, 0xc19bf174cf692694,
  0xe49b69c19ef14ad2, 0xefbe4786384f25e3, 0x0fc19dc68b8cd5b5, 0x240ca1cc77ac9c65,
  0x2de92c6f592b0275, 0x4a7484aa6ea6e483, 0x5cb0a9dcbd41fbd4, 0x76f988da831153b5,
  0x983e5152ee66dfab, 0xa831c66d2db43210, 0xb00327c898fb213f, 0xbf597fc7beef0ee4,
  0xc6e00bf33da88fc2, 0xd5a79147930aa725, 0x06ca6351e003826f, 0x142929670a0e6e70,
  0x27b70a8546d22ffc, 0x2e1b21385c26c926, 0x4d2c6dfc5ac42aed, 0x53380d139d95b3df,
  0x650a73548baf63de, 0x766a0abb3c77b2a8, 0x81c2c92e47edaee6, 0x92722c851482353b,
  0xa2bfe8a14cf10364, 0xa81a664bbc423001, 0xc24b8b70d0f89791, 0xc76c51a30654be30,
  0xd192e819d6ef5218, 0xd69906245565a910, 0xf40e35855771202a, 0x106aa07032bbd1b8,
  0x19a4c116b8d2d0c8, 0x1e376c085141ab53, 0x2748774cdf8eeb99, 0x34b0bcb5e19b48a8,
  0x391c0cb3c5c95a63, 0x4ed8aa4ae3418acb, 0x5b9cca4f7763e373, 0x682e6ff3d6b2b8a3,
  0x748f82ee5defb2fc, 0x78a5636f43172f60, 0x84c87814a1f0ab72, 0x8cc702081a6439ec,
  0x90befffa23631e28, 0xa4506cebde82bde9, 0xbef9a3f7b2c67915, 0xc67178f2e372532b,
  0xca273eceea26619c, 0xd186b8c721c0c207, 0xeada7dd6cde0eb1e, 0xf57d4f7fee6ed178,
  0x06f067aa72176fba, 0x0a637dc5a2c898a6, 0x113f9804bef90dae, 0x1b710b35131c471b,
  0x28db77f523047d84, 0x32caab7b40c72493, 0x3c9ebe0a15c9bebc, 0x431d67c49c100d4c,
  0x4cc5d4becb3e42b6, 0x597f299cfc657e2a, 0x5fcb6fab3ad6faec, 0x6c44198c4a475817]

def H0 : Array UInt64 := #[
  0x6a09e667f3bcc908, 0xbb67ae8584caa73b, 0x3c6ef372fe94f82b, 0xa54ff53a5f1d36f1,
  0x510e527fade682d1, 0x9b05688c2b3e6c1f, 0x1f83d9abfb41bd6b, 0x5be0cd19137e2179]

@[inline] def rotr (x : UInt64) (n : UInt64) : UInt64 := (x >>> n) ||| (x <<< (64 - n))
@[inline] def ch (x y z : UInt64) : UInt64 := (x &&& y) ^^^ (~~~x &&& z)
@[inline] def maj (x y z : UInt64) : UInt64 := (x &&& y) ^^^ (x &&& z) ^^^ (y &&& z)
@[inline] def bsig0 (x : UInt64) : UInt64 := rotr x 28 ^^^ rotr x 34 ^^^ rotr x 39
@[inline] def bsig1 (x : UInt64) : UInt64 := rotr x 14 ^^^ rotr x 18 ^^^ rotr x 41
@[inline] def ssig0 (x : UInt64) : UInt64 := rotr x 1 ^^^ rotr x 8 ^^^ (x >>> 7)
@[inline] def ssig1 (x : UInt64) : UInt64 := rotr x 19 ^^^ rotr x 61 ^^^ (x >>> 6)

/-- Padding: `0x80`, zeros up to 112 mod 128, 128-bit big-endian bit length. -/
def pad (msg : Bytes) : Bytes :=
  let n := msg.length
  msg ++ [0x80] ++ List.replicate ((239 - n % 128) % 128) 0 ++ encodeBE 16 (8 * n)

/-- Big-endian 64-bit word from the first 8 bytes. -/
def word (bs : Bytes) : UInt64 := (bs.take 8).foldl (fun acc b => (acc <<< 8) ||| b.toUInt64) 0

/-- Split into big-endian words, 8 bytes each (`fuel` = number of words). -/
def words : Nat → Bytes → List UInt64
  | 0, _ => []
  | n + 1, bs => word bs :: words n (bs.drop 8)

/-- Message schedule: 80 words from the 16 words of the block. -/
def schedule (w16 : List UInt64) : Array UInt64 :=
  (List.range 64).foldl (fun (w : Array UInt64) i =>
    let t := i + 16
    w.push (ssig1 (w.getD (t - 2) 0) + w.getD (t - 7) 0 + ssig0 (w.getD (t - 15) 0) + w.getD (t - 16) 0))
    w16.toArray

structure St where
  a : UInt64
  b : UInt64
  c : UInt64
  d : UInt64
  e : UInt64
  f : UInt64
  g : UInt64
  h : UInt64

def round (w : Array UInt64) (s : St) (t : Nat) : St :=
  let t1 := s.h + bsig1 s.e + ch s.e s.f s.g + K.getD t 0 + w.getD t 0
  let t2 := bsig0 s.a + maj s.a s.b s.c
  ⟨t1 + t2, s.a, s.b, s.c, s.d + t1, s.e, s.f, s.g⟩

/-- Compression of one 128-byte block into the chaining value. -/
def compress (hv : St) (block : Bytes) : St :=
  let w := schedule (words 16 block)
  let s := (List.range 80).foldl (round w) hv
  ⟨hv.a + s.a, hv.b + s.b, hv.c + s.c, hv.d + s.d, hv.e + s.e, hv.f + s.f, hv.g + s.g, hv.h + s.h⟩

/-- Fold `compress` over the 128-byte blocks (`fuel` = number of blocks). -/
def blocks : Nat → St → Bytes → St
  | 0, hv, _ => hv
  | n + 1, hv, bs => blocks n (compress hv (bs.take 128)) (bs.drop 128)

def init : St :=
  ⟨H0.getD 0 0, H0.getD 1 0, H0.getD 2 0, H0.getD 3 0, H0.getD 4 0, H0.getD 5 0, H0.getD 6 0, H0.getD 7 0⟩

def out64 (x : UInt64) : Bytes := encodeBE 8 x.toNat

/-- SHA-512 digest (64 bytes). -/
def hash (msg : Bytes) : Bytes :=
  let p := pad msg
  let s := blocks (p.length / 128) init p
  out64 s.a ++ out64 s.b ++ out64 s.c ++ out64 s.d ++ out64 s.e ++ out64 s.f ++ out64 s.g ++ out64 s.h

end Kyber.Sha512
