/-
Core-only helpers: hexadecimal <-> bytes / naturals, used by the line-protocol driver.
No Mathlib imports in `Core/`, `Groups/`, `Proto/`, `Drive/` (the driver must link as a `lean_exe`).
-/
namespace Kyber

abbrev Bytes := List UInt8

def hexDigit? (c : Char) : Option Nat :=
  if '0' ≤ c ∧ c ≤ '9' then some (c.toNat - '0'.toNat)
  else if 'a' ≤ c ∧ c ≤ 'f' then some (c.toNat - 'a'.toNat + 10)
  else if 'A' ≤ c ∧ c ≤ 'F' then some (c.toNat - 'A'.toNat + 10)
  else none

/-- Parse a big-endian hexadecimal natural number (any number of digits, at least one). -/
def parseHexNat? (s : String) : Option Nat :=
  if s.isEmpty then none else
  s.toList.foldlM (fun acc c => (hexDigit? c).map (fun d => acc * 16 + d)) 0

def parseHexBytesAux : List Char → Option Bytes
  | [] => some []
  | [_] => none
  | a :: b :: rest => do
      let x ← hexDigit? a
      let y ← hexDigit? b
      let tl ← parseHexBytesAux rest
      pure (UInt8.ofNat (x * 16 + y) :: tl)

/-- Parse a byte string written as hex pairs; the empty string is written `-`. -/
def parseHexBytes? (s : String) : Option Bytes :=
  if s = "-" then some [] else parseHexBytesAux s.toList

def hexChar (n : Nat) : Char :=
  if n < 10 then Char.ofNat (n + '0'.toNat) else Char.ofNat (n - 10 + 'a'.toNat)

def bytesToHex (bs : Bytes) : String :=
  if bs.isEmpty then "-" else
  String.ofList (bs.foldr (fun b acc => hexChar (b.toNat / 16) :: hexChar (b.toNat % 16) :: acc) [])

def natToHexAux : Nat → Nat → List Char → List Char
  | 0, _, acc => acc
  | fuel + 1, n, acc => if n = 0 then acc else natToHexAux fuel (n / 16) (hexChar (n % 16) :: acc)

def natToHex (n : Nat) : String :=
  if n = 0 then "0" else String.ofList (natToHexAux (n.log2 / 4 + 2) n [])

def parseNat? (s : String) : Option Nat := s.toNat?

def parseInt? (s : String) : Option Int := s.toInt?

end Kyber
