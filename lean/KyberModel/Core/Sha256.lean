import KyberModel.Core.Bytes
/-
SHA-256 (FIPS 180-4) in core Lean, `Bytes → Bytes`; same construction as `Core/Sha512.lean` with 32-bit
words. Validated against Go's `crypto/sha256` by the C08 correspondence run.
-/
namespace Kyber.Sha256

def K : Array UInt32 := #[
  0x428a2f98, 0x71374491, 0xb5c0fbcf, 0xe9b5dba5, 0x3956c25b, 0x59f111f1, 0x923f82a4, 0xab1c5ed5,
  0xd807aa98, 0x12835b01, 0x243185be, 0x550c7dc3, 0x72be5d74, 0x80deb1fe, 0x9bdc06a7, 0xc19bf174,
  0xe49b69c1, 0xefbe4786, 0x0fc19dc6, 0x240ca1cc, 0x2de92c6f, 0x4a7484aa, 0x5cb0a9dc, 0x76f988da,
  0x983e5152, 0xa831c66d, 0xb00327c8, 0xbf597fc7, 0xc6e00bf3, 0xd5a79147, 0x06ca6351, 0x14292967,
  0x27b70a85, 0x2e1b2138, 0x4d2c6dfc, 0x53380d13, 0x650a7354, 0x766a0abb, 0x81c2c92e, 0x92722c85,
  0xa2bfe8a1, 0xa81a664b, 0xc24b8b70, 0xc76c51a3, 0xd192e819, 0xd6990624, 0xf40e3585, 0x106aa070,
  0x19a4c116, 0x1e376c08, 0x2748774c, 0x34b0bcb5, 0x391c0cb3, 0x4ed8aa4a, 0x5b9cca4f, 0x682e6ff3,
  0x748f82ee, 0x78a5636f, 0x84c87814, 0x8cc70208, 0x90befffa, 0xa4506ceb, 0xbef9a3f7, 0xc67178f2]

def H0 : Array UInt32 := #[
  0x6a09e667, 0xbb67ae85, 0x3c6ef372, 0xa54ff53a, 0x510e527f, 0x9b05688c, 0x1f83d9ab, 0x5be0cd19]

@[inline] def rotr (x : UInt32) (n : UInt32) : UInt32 := (x >>> n) ||| (x <<< (32 - n))
@[inline] def ch (x y z : UInt32) : UInt32 := (x &&& y) ^^^ (~~~x &&& z)
@[inline] def maj (x y z : UInt32) : UInt32 := (x &&& y) ^^^ (x &&& z) ^^^ (y &&& z)
@[inline] def bsig0 (x : UInt32) : UInt32 := rotr x 2 ^^^ rotr x 13 ^^^ rotr x 22
@[inline] def bsig1 (x : UInt32) : UInt32 := rotr x 6 ^^^ rotr x 11 ^^^ rotr x 25
@[inline] def ssig0 (x : UInt32) : UInt32 := rotr x 7 ^^^ rotr x 18 ^^^ (x >>> 3)
@[inline] def ssig1 (x : UInt32) : UInt32 := rotr x 17 ^^^ rotr x 19 ^^^ (x >>> 10)

/-- Padding: `0x80`, zeros up to 56 mod 64, 64-bit big-endian bit length. -/
def pad (msg : Bytes) : Bytes :=
  let n := msg.length
  msg ++ [0x80] ++ List.replicate ((119 - n % 64) % 64) 0 ++ encodeBE 8 (8 * n)

def word (bs : Bytes) : UInt32 := (bs.take 4).foldl (fun acc b => (acc <<< 8) ||| b.toUInt32) 0

def words : Nat → Bytes → List UInt32
  | 0, _ => []
  | n + 1, bs => word bs :: words n (bs.drop 4)

def schedule (w16 : List UInt32) : Array UInt32 :=
  (List.range 48).foldl (fun (w : Array UInt32) i =>
    let t := i + 16
    w.push (ssig1 (w.getD (t - 2) 0) + w.getD (t - 7) 0 + ssig0 (w.getD (t - 15) 0) + w.getD (t - 16) 0))
    w16.toArray

structure St where
  a : UInt32
  b : UInt32
  c : UInt32
  d : UInt32
  e : UInt32
  f : UInt32
  g : UInt32
  h : UInt32

def round (w : Array UInt32) (s : St) (t : Nat) : St :=
  let t1 := s.h + bsig1 s.e + ch s.e s.f s.g + K.getD t 0 + w.getD t 0
  let t2 := bsig0 s.a + maj s.a s.b s.c
  ⟨t1 + t2, s.a, s.b, s.c, s.d + t1, s.e, s.f, s.g⟩

def compress (hv : St) (block : Bytes) : St :=
  let w := schedule (words 16 block)
  let s := (List.range 64).foldl (round w) hv
  ⟨hv.a + s.a, hv.b + s.b, hv.c + s.c, hv.d + s.d, hv.e + s.e, hv.f + s.f, hv.g + s.g, hv.h + s.h⟩

def blocks : Nat → St → Bytes → St
  | 0, hv, _ => hv
  | n + 1, hv, bs => blocks n (compress hv (bs.take 64)) (bs.drop 64)

def init : St :=
  ⟨H0.getD 0 0, H0.getD 1 0, H0.getD 2 0, H0.getD 3 0, H0.getD 4 0, H0.getD 5 0, H0.getD 6 0, H0.getD 7 0⟩

def out32 (x : UInt32) : Bytes := encodeBE 4 x.toNat

/-- SHA-256 digest (32 bytes). -/
def hash (msg : Bytes) : Bytes :=
  let p := pad msg
  let s := blocks (p.length / 64) init p
  out32 s.a ++ out32 s.b ++ out32 s.c ++ out32 s.d ++ out32 s.e ++ out32 s.f ++ out32 s.g ++ out32 s.h

end Kyber.Sha256
