import KyberModel.Core.Hex
/-
Byte strings as numbers: little/big-endian decode of any length, fixed-width encode.
-/
namespace Kyber

/-- Little-endian value of a byte string of any length. -/
def decodeLE : Bytes → Nat
  | [] => 0
  | b :: bs => b.toNat + 256 * decodeLE bs

/-- Big-endian value of a byte string of any length. -/
def decodeBE (bs : Bytes) : Nat := bs.foldl (fun acc b => acc * 256 + b.toNat) 0

/-- `w` bytes, little-endian, of `n` (truncating: only `n % 256^w` is represented). -/
def encodeLE : Nat → Nat → Bytes
  | 0, _ => []
  | w + 1, n => UInt8.ofNat (n % 256) :: encodeLE w (n / 256)

/-- `w` bytes, big-endian. -/
def encodeBE (w n : Nat) : Bytes := (encodeLE w n).reverse

def xorBytes : Bytes → Bytes → Bytes
  | a :: as, b :: bs => (a ^^^ b) :: xorBytes as bs
  | _, _ => []

end Kyber
