import KyberModel.Props.C11RabinDkg2
/-
C11 — Rabin DKG: "the key is the sum of the qualified dealers' contributions". What `DistKeyShare()` returns is,
coefficient for coefficient and at every evaluation point, the sum over `QUAL()` of the commitments the node holds for
each dealer, and the returned share is the sum of the shares received from them.
-/
namespace Kyber.RabinDkg
open Kyber.Vss Kyber.Share Kyber.Scalar

/-- What the node holds for a qualified dealer: the share it received and the dealer's commitments. -/
def contribution (cfg : Cfg) (nd : Node) (i : Nat) : Option (Nat × List Nat) :=
  match qualVerifier cfg nd i with
  | none => none
  | some a =>
    match a.deal, nd.commitments.lookup i with
    | some dl, some cs => some (dl.v, cs)
    | _, _ => none

/-- Sum of scalars / of polynomial values, as the loop forms them. -/
def sumS (q : Nat) (l : List Nat) : Nat := l.foldl (Scalar.add q) 0

theorem sumS_snoc (q : Nat) (l : List Nat) (x : Nat) : sumS q (l ++ [x]) = Scalar.add q (sumS q l) x := by
  unfold sumS; rw [List.foldl_append]; rfl

/-- Invariant of the loop: after the dealers `done`, the accumulated share is the sum of their shares and the
    accumulated polynomial evaluates, everywhere, to the sum of their polynomials' values. -/
def KeyInv (cfg : Cfg) (nd : Node) (x : Nat) (done : List Nat) : Option (Nat × Option (List Nat)) → Prop
  | none => True
  | some (sh, none) => done = [] ∧ sh = 0
  | some (sh, some p) =>
    ∃ cs : List (Nat × List Nat), done.map (contribution cfg nd) = cs.map some ∧ cs ≠ [] ∧
      sh = sumS cfg.q (cs.map (·.1)) ∧
      evalAt cfg.q p x = sumS cfg.q (cs.map (fun c => evalAt cfg.q c.2 x))

theorem dksStep_keyInv (cfg : Cfg) (hq : 0 < cfg.q) (nd : Node) (x : Nat) (done : List Nat) (i : Nat)
    (acc : Option (Nat × Option (List Nat))) (h : KeyInv cfg nd x done acc) :
    KeyInv cfg nd x (done ++ [i]) (dksStep cfg nd acc i) := by
  unfold dksStep
  cases acc with
  | none => trivial
  | some sp =>
    obtain ⟨sh, pub⟩ := sp
    simp only
    cases hqv : qualVerifier cfg nd i with
    | none => trivial
    | some a =>
      simp only
      cases hd : a.deal with
      | none => trivial
      | some dl =>
        cases hc : nd.commitments.lookup i with
        | none => trivial
        | some cs =>
          simp only
          have hcon : contribution cfg nd i = some (dl.v, cs) := by
            unfold contribution; rw [hqv]; simp only; rw [hd, hc]
          cases pub with
          | none =>
            obtain ⟨hdone, hsh⟩ := h
            subst hdone; subst hsh
            refine ⟨[(dl.v, cs)], by simp [hcon], by simp, ?_, ?_⟩
            · simp [sumS]
            · simp only [List.map_cons, List.map_nil, sumS, List.foldl_cons, List.foldl_nil, Scalar.add]
              rw [Nat.zero_add, Nat.mod_eq_of_lt (evalAt_lt hq _ _)]
          | some p =>
            obtain ⟨l, hl, hne, hsh, hev⟩ := h
            cases hadd : polyAdd cfg.q p cs with
            | none => simp [hadd, KeyInv]
            | some r =>
              simp only [hadd, Option.map_some, KeyInv]
              refine ⟨l ++ [(dl.v, cs)], by simp [hl, hcon], by simp, ?_, ?_⟩
              · rw [List.map_append, List.map_cons, List.map_nil, sumS_snoc, hsh]
              · rw [List.map_append, List.map_cons, List.map_nil, sumS_snoc, ← hev]
                exact eval_add hq hadd x

/-- **The distributed key is the sum of the qualified dealers' contributions.** If `DistKeyShare()` answers with
`(sh, pub)`, the node holds a share and commitments for every dealer in `QUAL()`, `sh` is the sum of those
shares, and `pub` evaluates at every point `x` to the sum of the dealers' polynomials' values — at `x = 0`:
the public key is the sum of the dealers' public contributions. -/
theorem distKeyShare_is_sum_of_qual (cfg : Cfg) (hq : 0 < cfg.q) (nd : Node) (sh : Nat) (pub : List Nat)
    (h : distKeyShare cfg nd = some (sh, pub)) (x : Nat) :
    ∃ cs : List (Nat × List Nat), (qual cfg nd).map (contribution cfg nd) = cs.map some ∧
      sh = sumS cfg.q (cs.map (·.1)) ∧
      evalAt cfg.q pub x = sumS cfg.q (cs.map (fun c => evalAt cfg.q c.2 x)) := by
  have hfold : ∀ (todo done : List Nat) acc, KeyInv cfg nd x done acc →
      KeyInv cfg nd x (done ++ todo) (todo.foldl (dksStep cfg nd) acc) := by
    intro todo
    induction todo with
    | nil => intro done acc h; simpa using h
    | cons i todo ih =>
      intro done acc h
      have := ih (done ++ [i]) _ (dksStep_keyInv cfg hq nd x done i acc h)
      simpa [List.append_assoc] using this
  unfold distKeyShare at h
  split at h
  · cases h
  · have hinv := hfold (qual cfg nd) [] (some (0, none)) ⟨rfl, rfl⟩
    simp only [List.nil_append] at hinv
    split at h
    · rename_i sh' pub' heq
      rw [heq] at hinv
      cases h
      obtain ⟨cs, h1, _, h2, h3⟩ := hinv
      exact ⟨cs, h1, h2, h3⟩
    · cases h

end Kyber.RabinDkg
